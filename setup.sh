#!/bin/bash
# Build everything from files on disk only (offline): regenerate Gen/*.v from /repo and compile all Coq families.
cd "$(dirname "$0")"
export PYTHONPATH=/repo/src PYTHONHASHSEED=0 PYTHONDONTWRITEBYTECODE=1
mkdir -p evidence replays
/venv/bin/python -m vlib.setup_all
