#!/venv/bin/python
"""Named minimal histories that exhibit defects of the pinned manager; run against /repo's current tree.
usage: tools/mgr_witness.py [name ...]"""
import sys, json
sys.path.insert(0, "/verif")
from vlib import mgr_common as C
W = C.W

def h_basic(**kw):
    hs = C.History(loglevel=kw.get("loglevel", 60), timing=kw.get("timing", True))
    return hs

def accept(hs, n, now=0):
    for _ in range(n):
        hs.round([], [], now, accept=True)

def w_bad_nbytes_neg():
    hs = h_basic(); accept(hs, 1)
    hs.round([(1, hs.raw(100, -1))], [1], 0); return hs

def w_bad_nbytes_big():
    hs = h_basic(); accept(hs, 1)
    hs.round([(1, hs.raw(100, 2**20 + 1))], [1], 0); return hs

def w_type_10000_timing():
    hs = h_basic(); accept(hs, 1)
    hs.round([(1, hs.publish(10000, b""))], [1], 0)
    hs.round([], [], 5); return hs

def w_nonascii_name():
    hs = h_basic(); accept(hs, 1)
    hs.round([(1, hs.connect_v2(name=b"caf\xc3\xa9"))], [1], 0); return hs

def w_nonascii_setname():
    hs = h_basic(); accept(hs, 1)
    hs.round([(1, hs.connect_v1(src_mod=10))], [1], 0)
    hs.round([(1, hs.setname(b"\xff\xfe"))], [1], 0); return hs

def w_257_clients():
    hs = h_basic(timing=False); accept(hs, 256)
    hs.round([], [], 21); return hs

def w_second_dead_subscriber():
    # A and B subscribe to 100; B also to CLIENT_CLOSED; both writes fail while C publishes 100
    hs = h_basic(); accept(hs, 3)
    hs.round([(1, hs.sub("sub", 100))], [1, 2, 3], 0)
    hs.round([(2, hs.sub("sub", 100))], [1, 2, 3], 0)
    hs.round([(2, hs.sub("sub", W.MT["CLIENT_CLOSED"]))], [1, 2, 3], 0)
    hs.fault(1, 0); hs.fault(2, 0)
    hs.round([(3, hs.publish(100, b"x"))], [1, 2, 3], 0); return hs

def w_logger_fails_on_ack():
    hs = h_basic(); accept(hs, 2)
    hs.round([(1, hs.connect_v1(logger=1, src_mod=10))], [1, 2], 0)
    hs.fault(1, 0)
    hs.round([(2, hs.sub("sub", 100))], [1, 2], 0); return hs

def w_active_clients_dict_change():
    hs = h_basic(timing=False); accept(hs, 2)
    hs.round([(1, hs.sub("sub", W.MT["CLIENT_INFO"]))], [1, 2], 0)
    hs.fault(1, 0)
    hs.round([], [], 21); return hs

def w_double_sub_all():
    hs = h_basic(); accept(hs, 2)
    hs.round([(1, hs.sub("sub", C.ALL))], [1, 2], 0)
    hs.round([(1, hs.sub("sub", C.ALL))], [1, 2], 0)
    hs.round([(2, hs.publish(100, b"p"))], [1, 2], 0); return hs

def w_traffic_one_type():
    hs = h_basic(timing=False); accept(hs, 2)
    hs.round([(1, hs.sub("sub", W.MT["MESSAGE_TRAFFIC"]))], [1, 2], 0)
    hs.round([(2, hs.publish(100, b"p"))], [1, 2], 0)
    hs.round([(2, hs.publish(101, b""))], [1, 2], 5); return hs

def w_type_all_closed_twice():
    hs = h_basic(); accept(hs, 2)
    hs.round([(1, hs.sub("sub", C.ALL))], [1, 2], 0)
    hs.fault(1, 0)
    hs.round([(2, hs.publish(C.ALL, b"p"))], [1, 2], 0); return hs

WIT = {k[2:]: v for k, v in globals().items() if k.startswith("w_")}

def main():
    names = sys.argv[1:] or sorted(WIT)
    hs = [WIT[n]() for n in names]
    res = C.run_impl([h.case_json() for h in hs])
    for n, h, r in zip(names, hs, res):
        if "harness_error" in r:
            print(n, "HARNESS", r["harness_error"][-300:]); continue
        frames = [(i[0], i[2]["type"], i[2]["count"]) for i in r["items"] if i[1] == "H"]
        print(f"{n:32s} crash={r['crash']}  frames={frames[-8:]}")

main()
