#!/bin/bash
# confirm a round-3 seeded change in its scratch worktree and file it under /verif/seeded/<id>-3
# usage: confirm_r3.sh C01 ...
for id in "$@"; do
  wt=/tmp/wt/r3_$id; out=/tmp/wt/r3_$id.out; n=1
  [ -f $out/patch$n.diff ] || { echo "$id: no patch"; continue; }
  log=$out/confirm.txt; : > $log
  git -C $wt checkout -q -- . ; git -C $wt clean -fdq
  ( cd $out && PYTHONPATH=$wt/src PYTHONHASHSEED=0 timeout 120 /venv/bin/python demo$n.py >/dev/null 2>&1 ); echo "demo_clean_rc=$?" >> $log
  if git -C $wt apply $out/patch$n.diff 2>>$log; then echo "apply=ok" >> $log; else echo "apply=FAIL" >> $log; cat $log; continue; fi
  ( cd $out && PYTHONPATH=$wt/src PYTHONHASHSEED=0 timeout 120 /venv/bin/python demo$n.py >/dev/null 2>&1 ); echo "demo_patched_rc=$?" >> $log
  for try in 1 2 3; do
    r=$(cd $wt && PYTHONPATH=$wt/src PYTHONHASHSEED=0 timeout 900 /venv/bin/python -m pytest -q -p no:cacheprovider --timeout=900 tests 2>&1 | tail -1)
    echo "tests_try$try: $r" >> $log
    echo "$r" | grep -q "failed\|error" || break
  done
  git -C $wt checkout -q -- . ; git -C $wt clean -fdq
  echo "== $id"; cat $log
  if grep -q "demo_clean_rc=0" $log && grep -q "apply=ok" $log && grep -q "demo_patched_rc=1" $log && tail -1 $log | grep -q "passed" && ! tail -1 $log | grep -q "failed"; then
    d=/verif/seeded/$id-${ROUND:-3}; mkdir -p $d
    cp $out/patch$n.diff $d/patch.diff; cp $out/demo$n.py $d/demo.py
    /venv/bin/python - "$id" "$out" "$d" <<'PY'
import json,sys
id,out,d=sys.argv[1:]
try: notes=json.load(open(out+'/notes1.json'))
except Exception as e: notes={"property":id,"breaks":"(notes unreadable: %s)"%e}
notes["author"]="independent sub-agent given only the property text and a scratch worktree (later round, on the repaired tree)"
notes["confirmed_by_coordinator"]={"how":"tools/confirm_r3.sh: demo on clean worktree, git apply, demo on patched tree, full pytest suite on patched tree","result":open(out+'/confirm.txt').read().split('\n')}
json.dump(notes,open(d+'/meta.json','w'),indent=1)
PY
    echo "$id: CONFIRMED -> $d"
  else
    echo "$id: NOT confirmed"
  fi
done
