#!/bin/bash
# usage: seed_dbg.sh <seed-name> <command...> : runs the command with the seed applied to /tmp/wt/head (VERIF_REPO set), under the lock
seed=$1; shift
wt=/tmp/wt/head
mkdir -p /tmp/wt
exec 9>/tmp/wt/head.lock; flock 9
[ -d $wt/.git ] || [ -f $wt/.git ] || { git -C /repo worktree prune; git -C /repo worktree add -q --detach $wt HEAD; }   # scratch worktree, created on demand
git -C $wt checkout -q -- . ; git -C $wt clean -fdq
git -C $wt checkout -q --detach $(git -C /repo rev-parse HEAD) 2>/dev/null
p=/verif/seeded/$seed/patch.diff
git -C $wt apply --check $p 2>/dev/null || p=/verif/seeded/$seed/patch_on_fixed_tree.diff
git -C $wt apply $p || exit 2
VERIF_REPO=$wt "$@"
git -C $wt checkout -q -- . ; git -C $wt clean -fdq
