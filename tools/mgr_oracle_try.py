#!/venv/bin/python
import sys, random, collections
sys.path.insert(0, "/verif")
from vlib import mgr_common as C, mgr_oracles as O

def main():
    flavor, n, seed = sys.argv[1], int(sys.argv[2]), int(sys.argv[3])
    which = sys.argv[4:] or sorted(O.CHECKERS)
    rng = random.Random(seed)
    hs = [O.gen_monitored(rng, flavor) for _ in range(n)]
    res = C.run_impl([h.case_json() for h in hs])
    cnt = collections.Counter()
    shown = 0
    for i, (h, r) in enumerate(zip(hs, res)):
        if "harness_error" in r:
            print("HARNESS", r["harness_error"][-600:]); return
        ob = O.Obs(r, h)
        conns, ex = O.simulate(h, ob.first_ack)
        for pid in which:
            for key, desc in O.CHECKERS[pid](h, conns, ex, ob):
                cnt[(pid, key)] += 1
                if shown < 6:
                    shown += 1
                    print(f"[{i}] {pid} {key}: {desc[:300]}")
    print("flavor", flavor, "n", n, "failures:", dict(cnt))
main()
