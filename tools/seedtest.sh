#!/bin/bash
# usage: seedtest.sh <patch.diff> <Cxx> [Cyy ...]   applies patch to /repo, runs quick checks, reverts.
p=$1; shift
cd /repo || exit 2
if ! git diff --quiet; then echo "/repo dirty"; exit 2; fi
git apply "$p" || { echo "patch does not apply"; exit 2; }
for id in "$@"; do
  ( cd /verif && ./check $id 2>&1 | grep -E "VIOLATION|KNOWN-FINDING|NOT SHOWN|-> exit" | cut -c1-400 )
done
git -C /repo checkout -- . ; git -C /repo clean -fdq
