#!/venv/bin/python
"""dev helper: python tools/mgr_try.py <profile> <n> <seed> : correspondence on generated histories, print first diffs"""
import sys, random, json
sys.path.insert(0, "/verif")
from vlib import mgr_common as C

def main():
    profile, n, seed = sys.argv[1], int(sys.argv[2]), int(sys.argv[3])
    rng = random.Random(seed)
    C.gen_manager.regen()
    ok, log = C.FAM.build(["Model/Encode.vo"])
    assert ok, log[-2000:]
    hs = [C.gen_history(rng, profile) for _ in range(n)]
    res = C.run_impl([h.case_json() for h in hs])
    cases, encs = [], []
    ncrash = 0
    for h, r in zip(hs, res):
        if "harness_error" in r:
            print("HARNESS ERROR", r["harness_error"]); return
        h.finalize(r)
        e = C.encode_obs(r, h.it)
        encs.append(e)
        ncrash += 1 if r["crash"] else 0
        cases.append(f"({h.coq_input()}, {C.zl(e)})")
    bad, log = C.FAM.eval_cases(C.HEADER, cases, per_file=25)
    print("cases", n, "crashes", ncrash, "bad", bad[:10], log[-500:])
    for b in bad[:2]:
        if b < 0: continue
        h = hs[b]
        txt = C.HEADER + f"Definition inp := {h.coq_input()}.\nDefinition exp := {C.zl(encs[b])}.\n" + \
            "Eval vm_compute in (let '(l,t,es) := inp in first_diff (enc_res (run (mkConfig l t) 400%nat es)) exp 0).\n" + \
            "Eval vm_compute in (let '(l,t,es) := inp in enc_res (run (mkConfig l t) 400%nat es)).\n"
        rc, out = C.FAM.run_v(txt)
        print("---- case", b, "loglevel", h.loglevel, "timing", h.timing, "tc", h.timecode, "crash", res[b]["crash"])
        print("\n".join(h.cevents))
        import re
        m = re.search(r"=\s*(-?\d+)\s*:\s*Z", out)
        d = int(m.group(1)) if m else 0
        m2 = re.search(r"=\s*\[(.*?)\]\s*:\s*list Z", out, re.S)
        model = [int(x) for x in re.findall(r"-?\d+", m2.group(1))] if m2 else []
        print("first diff at", d)
        print("MODEL:", model[max(0,d-30):d+30])
        print("IMPL :", encs[b][max(0,d-30):d+30])
        print("lens", len(model), len(encs[b]))

main()
