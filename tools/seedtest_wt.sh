#!/bin/bash
# usage: seedtest_wt.sh <seed-name> <Cxx> [Cyy ...] : applies the seed (ported variant if the original no longer applies)
# to the scratch worktree /tmp/wt/head (kept at /repo HEAD), runs the checks against it, reverts.
seed=$1; shift
wt=/tmp/wt/head
# one user of the scratch worktree at a time
mkdir -p /tmp/wt
exec 9>/tmp/wt/head.lock; flock 9
[ -d $wt/.git ] || [ -f $wt/.git ] || { git -C /repo worktree prune; git -C /repo worktree add -q --detach $wt HEAD; }   # scratch worktree, created on demand
git -C $wt checkout -q -- . ; git -C $wt clean -fdq
git -C $wt checkout -q --detach $(git -C /repo rev-parse HEAD) 2>/dev/null
p=/verif/seeded/$seed/patch.diff
if ! git -C $wt apply --check $p 2>/dev/null; then p=/verif/seeded/$seed/patch_on_fixed_tree.diff; fi
git -C $wt apply $p || { echo "$seed: no applicable patch"; exit 2; }
for id in "$@"; do
  out=$(cd /verif && VERIF_REPO=$wt ./check $id 2>&1)
  v=$(echo "$out" | grep -c "^VIOLATION")
  nf=$(echo "$out" | grep -c "no-failing-input-found")
  ns=$(echo "$out" | grep "NOT SHOWN" | head -1 | cut -c1-160)
  echo "$seed -> $id: violations=$v no-failing-input=$nf $(echo "$out" | grep -- '-> exit' | sed 's/.*-> //') | $ns"
done
git -C $wt checkout -q -- . ; git -C $wt clean -fdq
