#!/usr/bin/env python3
"""Regenerate MANIFEST.json from the table below."""
import json, os, sys
V = os.path.dirname(os.path.dirname(os.path.abspath(__file__)))

MGR_NOTE = 'Trusted: Coq kernel; the constants/guards translator (vlib/translate/manager_tr.py); the fake-socket harness (vlib/mgr_worker.py: select/socket/time/random/os replaced in the namespace of pyrtma.manager, set iteration order pinned) and the independent wire decoder (vlib/mgr_wire.py); the control skeleton of manager.py is hand-modelled in coq/manager/Model/Manager.v and tied by differential execution on every run (every write and the crash class compared). Not modelled: Python recursion limit (model: explicit nesting budget XFuel), fd exhaustion, stalled readers, control frames shorter than their definition. No axioms (Print Assumptions: closed).'

CLAIMED = {
 "C01": dict(
    text="Theorems for ALL histories/schedules/fault plans over the executable manager model: every reachable state satisfies the registry invariant (run_safe), hence the recipient snapshot of forward_message is duplicate-free for every type but the ALL sentinel (exactly once), contains only registered open modules that subscribed to the type or to all types; generated destination guards = protocol ranges; destination filter as stated; invalid destination -> nobody; a successful write carries the published header with only msg_count stamped. The byte-level end-to-end statement is decided by differential execution (model vs real MessageManager on scripted histories incl. every service order the script chooses, unwritable subsets, loggers, both header layouts) plus an independent spec oracle over a monitor's complete stream.",
    note=MGR_NOTE, technique="Coq invariant proof over an executable state machine (Hoare logic, induction on histories and nesting fuel) + model/implementation correspondence by vm_compute + spec oracle", design="6/C01"),
 "C03": dict(
    text="Theorems over the executable manager model for every configuration and EVERY finite history of events (any header field any integer, any declared length, any name bytes, EOF/reset/truncation anywhere, any service order, any writable sets, any set of simultaneous send failures): C03_total - with a nesting budget of 2*(accepted connections+1)+2 the manager runs to completion, never raising anything, in a state satisfying the step invariant (registry consistent, ids unique) - proved through C03_fuel_bound (with n live modules forward_message and everything it re-enters needs at most 2n+2 nested calls); C03_never_crashes (any budget: the only non-Ok outcome is exhausting it). The implementation's budget is Python's recursion limit: the deep-cascade history (300 subscribers failing at once) exhausts it - recorded open finding crash:RecursionError:deep-cascade, run against the implementation on every check. Tied to manager.py by the constants/guards translator and by differential execution of scripted histories (fake sockets) incl. boundary values of every header field, pairs of failures in both service orders, hundreds of connections.",
    note=MGR_NOTE, technique="Coq proof of totality under an explicit nesting budget (Hoare logic with in-flight-removal set, frame relation, liveness measure) + correspondence + fault/malformed-input enumeration", design="6/C03"),
 "C05": dict(
    text="Theorems for ALL histories (any events, faults, schedules, fuel): C05_stream_frames - everything the manager has written to a connection is a concatenation of whole frames (header then its payload, nothing in between) whose stamped sequence numbers are exactly 1..n, optionally followed by ONE lone header numbered n+1 on a connection that is dead (payload sendall failed); acknowledgements, failure notices, periodic messages and forwarded messages share the one counter; C05_append_only / C05_per_connection_order / C05_service_appends - the global write log only grows, so each connection's stream is a projection of one total order (same relative order at every receiver, sender order preserved). Declared payload sizes are proved at call-site level (C05_forward_sized, C05_failed_notice_sized, C05_ack_is_whole_frame) and compared byte-for-byte by the correspondence. Tied to manager.py by the translator and by differential execution of scripted histories.",
    note=MGR_NOTE, technique="Coq invariant proof over every reachable state of an executable state machine (generic out-invariant traversal of all manager operations) + correspondence by vm_compute + stream oracle", design="6/C05"),
 "C06": dict(
    text="Theorems for ALL histories: C06_unique (no two live modules share an id unless both non-unique, in every reachable state), C06_connect (a connection request leaves every other module's identity untouched; the requester ends unregistered, or with an id in range and clash-free), C06_dynamic_fresh (dynamic ids are fresh and in range from every cursor position, give-up only when all 100 are taken), generated user-id range. The options half (Client.connect / client_context) is decided by driving the real client against a scripted peer over every option vector (found and fixed: client_context passed allow_multiple as daemon).",
    note=MGR_NOTE, technique="Coq invariant proof + correspondence + option-plumbing probe", design="6/C06"),
 "C07": dict(
    text="Theorems for ALL histories: remove_module (however reached, also nested inside a delivery) ends with the module unregistered, keeps the registry invariant and only shrinks the registry (Frame: nobody else's identity/subscriptions change); in every reachable state subscriber lists contain only registered open modules, so a departed module is never a recipient; uniqueness constrains only live modules (id reusable at once). 'Exactly one CLIENT_CLOSED' and unaffected delivery of the in-flight message are decided by correspondence + oracle (monitor stream), incl. directed nested-departure histories.",
    note=MGR_NOTE, technique="Coq invariant/frame proof + correspondence + spec oracle", design="6/C07"),
 "C11": dict(
    text="Coq theorems over an executable model of Parser.check_alignment/validate_msg_def for ALL field lists (any length, any nesting depth via the closure lemma): accepted => aligned, contiguous, size multiple of strictest alignment, natural C layout == explicit layout; auto-pad only adds char fields; no-auto-pad accepted iff no padding needed; size limit. Model tied to the code by a regenerated native-type table and size guard (Python-ast translator) and by differential execution of the real Parser vs the model (vm_compute) incl. gcc offsetof/sizeof probes.",
    note="Trusted: Coq kernel, the table translator, the correspondence harness, gcc/ctypes on x86-64 as the reference for 'natural layout'. Loop skeleton of check_alignment is hand-modelled (validated by correspondence, not verified). No axioms (Print Assumptions: closed).",
    technique="Coq proof (induction over field lists, Z.divide arithmetic) + model/implementation correspondence by vm_compute",
    design="6/C11"),
 "C14": dict(
    text="Theorems (case analysis of the model's delivery decision, for every state): an unwritable non-logger recipient gets the drop branch and send_failed_message with the header as stamped; a logger outside the writable set is sent to, never dropped; any write failure removes the module and invokes send_failed_message; the notice names the module id and embeds the original header; no notice for FAILED_MESSAGE/RTMA_LOG* (generated guard list); the rest of the snapshot is still visited. End-to-end statement decided by correspondence + oracle incl. directed no-cascade histories for every guarded type id and its neighbours.",
    note=MGR_NOTE, technique="Coq case-analysis lemmas + correspondence + spec oracle", design="6/C14"),
 "C18": dict(
    text="Theorems for ALL counter contents (any number of distinct types): C18_traffic_exact - the entries of the MESSAGE_TRAFFIC sub-messages up to each terminator, concatenated, are exactly the interval's (type, count mod 2^16) pairs, each once, in order; C18_timing_exact - exactly the types with a slot are written with their counts, never an index error; statistics messages are not counted. Guards (send-when-full, tail, slot range) regenerated from the code each run. Tied by correspondence and an oracle that recounts the monitor stream per interval (found and fixed: traffic chunking, timing index).",
    note=MGR_NOTE, technique="Coq proof by induction on the counter list with the chunk-loop invariant + correspondence + recount oracle", design="6/C18"),
 "C19": dict(
    text="Theorems (case analysis of process_message/send_ack in the model, all states): every SUBSCRIBE/UNSUBSCRIBE/PAUSE/RESUME ends in exactly one send_ack to its sender whether or not the request changed anything; a connection request is acknowledged iff accepted (never a refused one, nor the CONNECT after an accepted CONNECT_V2); DISCONNECT/SET_NAME/MODULE_READY/data never call send_ack; the ack is one zero-payload ACKNOWLEDGE addressed to the sender's id on its own connection, then copied to loggers. Stream-level order/exactly-once decided by correspondence + oracle.",
    note=MGR_NOTE, technique="Coq case-analysis lemmas + correspondence + spec oracle", design="6/C19"),
 "C02": dict(
    text="Coq theorems over the client/manager subscription models for ALL operation histories and argument shapes: C02_agree (reported = delivered, paused not delivered), C02_refused (+manager side), C02_ctx_restore / C02_pause_ctx_restore for every entry state and list (after the two context-manager fixes), with the CPython list-iteration semantics modelled. _subscription_control and the manager's add/remove_subscription are TRANSLATED from the source on every run; context managers hand-modelled; tied by differential execution of the real Client against the real MessageManager with probe publishes (exhaustive length-2 sequences, all context entries over a 3-type universe).",
    note="Trusted: Coq kernel, vlib/translate/client_sub.py, the client/manager harness (real TCP on localhost). 'Other clients are irrelevant' is assumed from reading, not proved. No axioms.",
    technique="Coq proof (induction over operation lists, set algebra) over translated definitions + correspondence", design="6/C02"),
 "C08": dict(
    text="Coq theorems over the model of Client._read_message/read_message for ALL frame sequences: C08_resync, C08_resync_next, C08_sequence, C08_faithful, C08_filter, C08_lost (FIN or RST at any byte offset, after the rst/drain fixes). Guards, drain lengths, MSG_WAITALL flags and the _connected-clearing of every loss path are translated from the source each run (removing one breaks C08_lost by itself). Tied by driving the real Client over real TCP against a scripted peer: all frame-kind sequences of length <=3, FIN/RST at every byte offset, two-segment deliveries.",
    note="Trusted: Coq kernel, translator, scripted-peer harness; Linux TCP FIN/RST semantics of recv(MSG_WAITALL) modelled and validated by the every-offset cases. No axioms.",
    technique="Coq proof (induction over frame lists) + translated guards + correspondence over real TCP", design="6/C08"),
 "C04": dict(
    text="Coq: C04_tables (finite sweep over the regenerated six native-type tables, every name agrees in width/class everywhere), C04_sig / C04_layout for every accepted closure (corollary of C11 + tables), hash literal forms. Tied by compiling generated closures with the real compiler in CLI order and separately, loading each output (python import+ctypes, gcc probe, node, .m reader). Open recorded findings: py:name-collision, matlab:prefix-stripped-inside-name.",
    note="Trusted: Coq kernel, table/core-defs translators, loaders (gcc x86-64, ctypes, node), MATLAB checked statically only. No axioms.",
    technique="Coq finite sweep by vm_compute lifted with forallb_forall + structural proofs + correspondence", design="6/C04"),
 "C15": dict(
    text="Coq: C15_total (no internal error for any input of the model's construct universe), per-back-end scoping theorems (every use preceded by its definition) - full for constructs without the recorded cross-section shapes, _refuted/_partial for alias-of-struct, struct-field-of-message-type, MATLAB header without core defs, C macro capture; C15_js_fresh in full. The scoping model is validated against the real loaders on every run.",
    note="Trusted: as C04. Open recorded findings (emission order across sections) are identified by construct class; any other load failure is reported.",
    technique="Coq proof over emission-event lists + correspondence with real loaders", design="6/C15"),
 "C16": dict(
    text="(a) determinism: decided by differential execution only (same closure compiled repeatedly, other cwd/out dir/hash seed, another closure in between) - stated plainly, no theorem; (b) C16_combined: combined-YAML round trip is the identity on the parsed state under the stated backward-uses condition (proved as a stable sort by section rank), _refuted for the recorded cross-file shapes; (c) C16_core_current: the shipped core YAML pushed through the Coq model equals what core_defs.py contains (constants, ids, sizes, every field's class and length), re-computed every run from regenerated Gen files, plus textual comparison with a fresh compile.",
    note="Trusted: as C04; clause (a) is not a proof.",
    technique="Coq proof (merge/sort) + closed computation by vm_compute + differential execution", design="6/C16"),
 "C17": dict(
    text="Coq theorem C17_holds over the two-thread small-step model of DataCollection/DataSet (model of the code after fix 510a13f): for EVERY recorder program, EVERY schedule and every number of steps, written ++ pending ++ rbuf = selected arrivals, no loss/duplication/reordering, files finalised after stop; format theorems for raw/json/quicklogger incl. reader models. The hand-off shape is translated fail-closed from data_collection.py; tied by running the real classes under a cooperative scheduler on complete schedule trees of small programs and random larger ones, files read back with the package's readers.",
    note="Trusted: Coq kernel, gen_logger.py, the cooperative scheduler (switch points = Event operations and buffer operations); termination/fairness not proved; atomicity at switch-point granularity. No axioms.",
    technique="Coq inductive invariant over an interleaved small-step relation + correspondence under a deterministic scheduler", design="6/C17"),
 "C12": dict(
    text="Coq theorems over the executable model of Parser.parse/parse_file/handle_* (Model/Registry.v; guards, namespaces and section order regenerated from parser.py) for ANY finite import graph (cycles, diamonds, any depth) and any file contents: every reachable file is entered exactly once (C12_trace_visits_reachable_once, fuel never exhausted); completeness - a successful parse implies the whole closure is conflict-free and in range (C12_complete and its per-namespace corollaries: message ids incl. every expanded reserved id, shared name namespace, host/module names and values, range guards); soundness - a conflict-free, in-range, well-named closure is accepted and the first error is at the first offending declaration (C12_sound, C12_no_false_conflict, C12_first_conflict). Tied to parser.py by the guards translator and by parsing generated closures with the real Parser (error class compared).",
    note="Trusted: Coq kernel, vlib/translate/guards_defs.py (fail-closed), the closure generator/harness (real Parser on generated YAML trees; error kind mapped to a small enum), PyYAML/ruamel behaviour for the generated subset. Hand-modelled: the handler skeletons (validated by correspondence). No axioms.",
    technique="Coq proof (induction over handler traces and over the import graph with a visited list) + translated guards + correspondence by vm_compute", design="6/C12"),
 "C13": dict(
    text="Coq theorems over the model of the hashed text (Model/HashText.v: the raw builders of handle_message_def/handle_signal/handle_struct, dedent) and an executable SHA-256 (Lib/Sha256.v, checked on standard vectors): the text depends only on kind, name, id and the ordered (field, type-text) list (C13_depends_only); on well-formed definitions the text determines the definition, so every edit incl. reordering and signal/message/struct changes the text (C13_injective, C13_every_edit_changes_text, C13_reordering_changes_text); the literals emitted by the four back ends denote the same number first32(sha256 text) (C13_same_everywhere). NOT provable by any technique: distinct texts have distinct 32-bit digests (collision assumption, named). That Client.send_message/send_signal stamp the hash and the manager forwards it unchanged is checked structurally (ast) and on captured frames, not a theorem.",
    note="Trusted: Coq kernel, guards translator, the harness comparing model text/digest with parser.py's raw/hash and with the compiled Python/C/JS/Matlab outputs; SHA-256 collision resistance for the final 'different definition => different version' step. No axioms.",
    technique="Coq proof (string injectivity lemmas, executable SHA-256 by vm_compute) + correspondence on generated definitions + ast/frames probe for the stamping sites", design="6/C13"),
 "C09": dict(
    text="Coq theorems over the executable model of the field validators (Model/Values.v, Floats.v via Flocq binary32/binary64, Flag.v; validator table and raise-guards regenerated from validators.py) for ALL values, field kinds, positions, slices and images: C09_refuse (an out-of-domain value is refused at every position, NaN neighbours included), C09_atomic (a refused validated assignment changes nothing), C09_extent (an accepted one changes only the field's own bytes), read-back theorems for scalars/indices/whole arrays/any slice/struct arrays, C09_int_roundtrip, C09_float_nearest (Float fields store round-to-nearest-even binary32 iff |x| < 2^128-2^103, else refused) and C09_flag / C09_flag_threads_independent (for every well-nested trace incl. exit by exception, validation is on iff no disabling block is open in that context). Tied to the code by the translator and by assigning the same values to real message classes (raised-or-not, bytes afterwards, read-back).",
    note="Trusted: Coq kernel; Flocq and, through it, the four standard-library Reals axioms (reported by Print Assumptions/coqchk for the theorems that mention float storage); vlib/translate/validators_tbl.py; the harness (ctypes/CPython semantics of stores and cvtsd2ss are modelled and validated by correspondence, not verified). No axioms declared by the development.",
    technique="Coq proof (byte-level store/load lemmas, Flocq rounding theorem, induction over flag traces) over translated tables + correspondence by vm_compute + spec oracle", design="6/C09"),
 "C10": dict(
    text="Coq theorems over the model of the codecs (Model/Codec.v: bytes, to_dict/from_dict, to_json/from_json incl. the version guard, copy): C10_bytes (from_buffer_copy(bytes m) = m), C10_reach_invariant / C10_reach_strings_clean (every image reachable from the zero message by validated assignments satisfies the codec invariant; no stale bytes after a NUL), C10_dict (full: from_dict(to_dict m) = m for every reachable image), C10_json_partial (JSON round trip under nans_canonical) with C10_json_refuted (m.d = -nan: the recorded finding), C10_copy, C10_version, C10_message_partial. Tied to the code by the translator (guards, ctypes of Char/String/Float/Double, version guard) and by round-tripping generated and imported message classes through the real codecs.",
    note="Trusted: as C09, plus Python's json module and ctypes introspection (modelled, validated by correspondence). Two recorded open findings (NaN sign/payload lost through JSON; ctypes instances bypass validation) are identified by input class in known_findings.d/values.txt.",
    technique="Coq proof (reachability invariant by induction over assignment histories, codec inversion lemmas) + translated guards + correspondence + spec oracle", design="6/C10"),
}
NOT_YET = {}
ALL = ["C%02d" % i for i in range(1, 20)]

def main():
    checks = []
    for pid in ALL:
        if pid in CLAIMED:
            c = CLAIMED[pid]
            checks.append(dict(
                property_id=pid,
                quick_cmd=f"./check {pid} --tier quick",
                thorough_cmd=f"./check {pid} --tier thorough",
                evidence_file=f"evidence/{pid}.json",
                replay_cmd_template=f"./check {pid} --replay {{path}}",
                engine="coq-model+correspondence",
                level_claimed=dict(category="proof", text=c["text"], design_ref=c["design"]),
                level_note=c["note"],
                technique=c["technique"]))
    na = [dict(property_id=p, reason=NOT_YET.get(p, "check under construction in this session; no claim yet (technique applies: see DESIGN.md section 6)"))
          for p in ALL if p not in CLAIMED]
    m = dict(
        version=1,
        setup_cmd="./setup.sh",
        hooks=dict(guard="PITT_RNEL_PYRTMA_VERIF", enable="no source hooks: the harness shims names in the module namespaces from outside (DESIGN.md section 4); checks export PITT_RNEL_PYRTMA_VERIF=1 for uniformity",
                   baseline_off_cmd="cd /repo && /venv/bin/python -m pytest -ra -q -p no:cacheprovider --timeout=900 --continue-on-collection-errors",
                   source_commits=[], add_only=True),
        engines=[dict(name="coq-model+correspondence", path="coq/ + vlib/", serves_properties=sorted(CLAIMED),
                      kind_free_text="Coq 8.16.1 theorems over executable Gallina models; models regenerated (translators) or tied by differential execution (vm_compute inside coqc) against /repo's working tree")],
        checks=checks,
        notes="All checks: ./check <id> [--tier quick|thorough]. Known findings: known_findings.txt. See DESIGN.md.",
        not_applicable=na)
    json.dump(m, open(os.path.join(V, "MANIFEST.json"), "w"), indent=1)
    print("claimed:", sorted(CLAIMED), "not claimed:", [x["property_id"] for x in na])

if __name__ == "__main__":
    main()
