#!/usr/bin/env python3
"""Regenerate MANIFEST.json from the table below."""
import json, os, sys
V = os.path.dirname(os.path.dirname(os.path.abspath(__file__)))

CLAIMED = {
 "C11": dict(
    text="Coq theorems over an executable model of Parser.check_alignment/validate_msg_def for ALL field lists (any length, any nesting depth via the closure lemma): accepted => aligned, contiguous, size multiple of strictest alignment, natural C layout == explicit layout; auto-pad only adds char fields; no-auto-pad accepted iff no padding needed; size limit. Model tied to the code by a regenerated native-type table and size guard (Python-ast translator) and by differential execution of the real Parser vs the model (vm_compute) incl. gcc offsetof/sizeof probes.",
    note="Trusted: Coq kernel, the table translator, the correspondence harness, gcc/ctypes on x86-64 as the reference for 'natural layout'. Loop skeleton of check_alignment is hand-modelled (validated by correspondence, not verified). No axioms (Print Assumptions: closed).",
    technique="Coq proof (induction over field lists, Z.divide arithmetic) + model/implementation correspondence by vm_compute",
    design="6/C11"),
}
NOT_YET = {}
ALL = ["C%02d" % i for i in range(1, 20)]

def main():
    checks = []
    for pid in ALL:
        if pid in CLAIMED:
            c = CLAIMED[pid]
            checks.append(dict(
                property_id=pid,
                quick_cmd=f"./check {pid} --tier quick",
                thorough_cmd=f"./check {pid} --tier thorough",
                evidence_file=f"evidence/{pid}.json",
                replay_cmd_template=f"./check {pid} --replay {{path}}",
                engine="coq-model+correspondence",
                level_claimed=dict(category="proof", text=c["text"], design_ref=c["design"]),
                level_note=c["note"],
                technique=c["technique"]))
    na = [dict(property_id=p, reason=NOT_YET.get(p, "check under construction in this session; no claim yet (technique applies: see DESIGN.md section 6)"))
          for p in ALL if p not in CLAIMED]
    m = dict(
        version=1,
        setup_cmd="./setup.sh",
        hooks=dict(guard="PITT_RNEL_PYRTMA_VERIF", enable="no source hooks: the harness shims names in the module namespaces from outside (DESIGN.md section 4); checks export PITT_RNEL_PYRTMA_VERIF=1 for uniformity",
                   baseline_off_cmd="cd /repo && /venv/bin/python -m pytest -ra -q -p no:cacheprovider --timeout=900 --continue-on-collection-errors",
                   source_commits=[], add_only=True),
        engines=[dict(name="coq-model+correspondence", path="coq/ + vlib/", serves_properties=sorted(CLAIMED),
                      kind_free_text="Coq 8.16.1 theorems over executable Gallina models; models regenerated (translators) or tied by differential execution (vm_compute inside coqc) against /repo's working tree")],
        checks=checks,
        notes="All checks: ./check <id> [--tier quick|thorough]. Known findings: known_findings.txt. See DESIGN.md.",
        not_applicable=na)
    json.dump(m, open(os.path.join(V, "MANIFEST.json"), "w"), indent=1)
    print("claimed:", sorted(CLAIMED), "not claimed:", [x["property_id"] for x in na])

if __name__ == "__main__":
    main()
