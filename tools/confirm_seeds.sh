#!/bin/bash
# confirm each seeded change in its scratch worktree: demo passes w/o, fails with, test suite passes with.
# usage: confirm_seeds.sh C01 C02 ...   -> /tmp/wt/confirm_<id>_<n>.txt
for id in "$@"; do
  wt=/tmp/wt/$id; out=/tmp/wt/$id.out
  for n in 1 2; do
    [ -f $out/patch$n.diff ] || continue
    log=/tmp/wt/confirm_${id}_$n.txt; : > $log
    git -C $wt checkout -q -- . ; git -C $wt clean -fdq
    ( cd $out && PYTHONPATH=$wt/src PYTHONHASHSEED=0 timeout 120 /venv/bin/python demo$n.py >/dev/null 2>&1 ); echo "demo_clean_rc=$?" >> $log
    if git -C $wt apply $out/patch$n.diff 2>>$log; then echo "apply=ok" >> $log; else echo "apply=FAIL" >> $log; continue; fi
    ( cd $out && PYTHONPATH=$wt/src PYTHONHASHSEED=0 timeout 120 /venv/bin/python demo$n.py >/dev/null 2>&1 ); echo "demo_patched_rc=$?" >> $log
    for try in 1 2 3; do
      r=$(cd $wt && PYTHONPATH=$wt/src PYTHONHASHSEED=0 timeout 900 /venv/bin/python -m pytest -q -p no:cacheprovider --timeout=900 tests 2>&1 | tail -1)
      echo "tests_try$try: $r" >> $log
      echo "$r" | grep -q "failed" || break
    done
    git -C $wt checkout -q -- . ; git -C $wt clean -fdq
  done
done
