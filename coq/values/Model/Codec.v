(* Executable model of the codecs (message_base.py: _to_dict / _from_dict / RTMAJSONEncoder, to_json / from_json,
   copy; message.py: Message.to_json / from_json with the version check, Message.copy).

   A class is given by its LEAVES: the non-struct fields at their absolute offsets, nested structs and struct
   arrays being flattened (m.s.x is the leaf at off(s)+off(x); m.sa[i].x at off(sa)+i*size+off(x)).  _to_dict and
   _from_dict recurse over structs and act on leaves only, so the dictionary tree is a regrouping of the list of
   leaf values; the flattening is measured on the real ctypes classes by the harness and validated by the
   correspondence.  from_dict = a fresh zero image + one VALIDATED assignment per leaf (Model/Values.v [set]).
   json.dumps / json.loads are modelled on the value tree ([jrt]): identity on ints, ASCII strings, lists and
   non-NaN floats; NaN comes back as the canonical quiet NaN; a bytes value comes back as a list of ints.
   Proof-free. *)
From Coq Require Import ZArith List Bool.
From Val Require Import Gen.ValidatorTbl Gen.CodecGuards Model.Bytes Model.Floats Model.Values.
Import ListNotations.
Open Scope Z_scope.

Inductive cexn := CJSONDecoding | CUnknownMessageType | CInvalidMessageDefinition | CUnicodeDecode | CValue | CKeyError.

(* _to_dict: one value per leaf, read through the descriptor *)
Fixpoint to_dict (leaves : list field) (m : list Z) : exn + list pyval :=
  match leaves with
  | [] => inr []
  | f :: r =>
      match get f KAttr m with
      | inl e => inl e
      | inr v => match to_dict r m with inl e => inl e | inr vs => inr (v :: vs) end
      end
  end.

(* _from_dict: char arrays and scalars by setattr, other arrays by [:] *)
Definition leaf_key (t : ftype) : key :=
  match t with TArr _ _ => KSlice None None None | _ => KAttr end.

Fixpoint from_dict_go (leaves : list field) (vals : list pyval) (m : list Z) : option (list Z) :=
  match leaves, vals with
  | [], [] => Some m
  | f :: ls, v :: vs =>
      match set true f (leaf_key (f_ty f)) m v with
      | (Some _, _) => None                 (* any exception: JSONDecodingError *)
      | (None, m') => from_dict_go ls vs m'
      end
  | _, _ => None                            (* missing key *)
  end.

Definition from_dict (leaves : list field) (size : nat) (vals : list pyval) : cexn + list Z :=
  match from_dict_go leaves vals (repeat 0 size) with
  | Some m => inr m
  | None => inl CJSONDecoding
  end.

(* json.loads (json.dumps v, cls=RTMAJSONEncoder) on a leaf value *)
Fixpoint jrt (v : pyval) : pyval :=
  match v with
  | PFloat b => if f64_is_nan b then PFloat canonical_nan64 else PFloat b
  | PBytes bs => PList (map PInt bs)
  | PList l => PList (map jrt l)
  | _ => v
  end.

Definition dict_roundtrip (leaves : list field) (size : nat) (m : list Z) : cexn + list Z :=
  match to_dict leaves m with
  | inl _ => inl CUnicodeDecode
  | inr vs => from_dict leaves size vs
  end.
Definition json_roundtrip (leaves : list field) (size : nat) (m : list Z) : cexn + list Z :=
  match to_dict leaves m with
  | inl _ => inl CUnicodeDecode
  | inr vs => from_dict leaves size (map jrt vs)
  end.

(* bytes(msg) / cls.from_buffer_copy(b) *)
Definition to_bytes (m : list Z) : list Z := m.
Definition from_bytes (size : nat) (bs : list Z) : cexn + list Z :=
  if (length bs <? size)%nat then inl CValue else inr (firstn size bs).

(* header + data: Message.to_json / Message.from_json *)
Record mclass := mkClass { k_leaves : list field; k_size : nat; k_hash : Z }.
Record hclass := mkHdr { h_leaves : list field; h_size : nat; h_msg_type : field; h_version : field }.

Fixpoint lookup (id : Z) (reg : list (Z * mclass)) : option mclass :=
  match reg with [] => None | (k, c) :: r => if k =? id then Some c else lookup id r end.

Definition field_int (f : field) (m : list Z) : Z :=
  match get f KAttr m with inr (PInt z) => z | _ => 0 end.

(* [dvals] = None: the JSON object has no "data" member (d["data"] raises KeyError - after the version check).
   Nothing here depends on the class having fields: a signal (no leaves, size 0) takes the same path. *)
Definition msg_from_json (hc : hclass) (reg : list (Z * mclass)) (hvals : list pyval) (dvals : option (list pyval))
  : cexn + (list Z * list Z) :=
  match from_dict (h_leaves hc) (h_size hc) hvals with
  | inl e => inl e
  | inr h =>
      match lookup (field_int (h_msg_type hc) h) reg with
      | None => inl CUnknownMessageType
      | Some c =>
          if guard_version (field_int (h_version hc) h) (k_hash c) then inl CInvalidMessageDefinition
          else match dvals with
               | None => inl CKeyError
               | Some dv =>
                   match from_dict (k_leaves c) (k_size c) dv with
                   | inl e => inl e
                   | inr d => inr (h, d)
                   end
               end
      end
  end.

Definition msg_json_roundtrip (hc : hclass) (reg : list (Z * mclass)) (c : mclass) (h d : list Z)
  : cexn + (list Z * list Z) :=
  match to_dict (h_leaves hc) h, to_dict (k_leaves c) d with
  | inr hv, inr dv => msg_from_json hc reg (map jrt hv) (Some (map jrt dv))
  | _, _ => inl CUnicodeDecode
  end.

(* copy: objects are cells of a heap; from_buffer_copy allocates a fresh cell *)
Definition heap := list (list Z).
Definition hcopy (h : heap) (i : nat) : heap * nat := (h ++ [nth i h []], length h).
Fixpoint hupdate (h : heap) (i : nat) (m : list Z) : heap :=
  match h, i with
  | [], _ => []
  | _ :: r, O => m :: r
  | c :: r, S k => c :: hupdate r k m
  end.
Definition hset (h : heap) (i : nat) (en : bool) (f : field) (k : key) (v : pyval) : heap :=
  hupdate h i (snd (set en f k (nth i h []) v)).
