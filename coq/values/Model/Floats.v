(* IEEE-754 part of the values model.  Python floats are binary64 and are carried as
   their 64-bit patterns (Z); c_float fields hold binary32 patterns.
   Conversions on finite values are Flocq's [binary_normalize] in round-to-nearest-even
   (this is the only model file that imports Flocq); NaN handling (sign and payload, as done by
   x86-64 cvtsd2ss / cvtss2sd) is written at bit level and validated by the correspondence.
   Executable, proof-free (proofs: Proofs/FloatProofs.v). *)
From Coq Require Import ZArith List Bool.
From Flocq Require Import Core.Core IEEE754.BinarySingleNaN IEEE754.Binary IEEE754.Bits.
Import ListNotations.
Open Scope Z_scope.

Definition Hprec32 : FLX.Prec_gt_0 24 := eq_refl.
Definition Hmax32 : (24 < 128)%Z := eq_refl.
Definition Hprec64 : FLX.Prec_gt_0 53 := eq_refl.
Definition Hmax64 : (53 < 1024)%Z := eq_refl.

Definition two64 : Z := 18446744073709551616.
Definition two32 : Z := 4294967296.
Definition two63 : Z := 9223372036854775808.
Definition two31 : Z := 2147483648.

(* ---- classification on bit patterns ---- *)
Definition f64_exp (b : Z) : Z := ((b mod two64) / 4503599627370496) mod 2048.
Definition f64_man (b : Z) : Z := (b mod two64) mod 4503599627370496.
Definition f64_sign (b : Z) : bool := two63 <=? (b mod two64).
Definition f64_is_nan (b : Z) : bool := (f64_exp b =? 2047) && negb (f64_man b =? 0).
Definition f64_is_inf (b : Z) : bool := (f64_exp b =? 2047) && (f64_man b =? 0).

Definition f32_exp (b : Z) : Z := ((b mod two32) / 8388608) mod 256.
Definition f32_man (b : Z) : Z := (b mod two32) mod 8388608.
Definition f32_sign (b : Z) : bool := two31 <=? (b mod two32).
Definition f32_is_nan (b : Z) : bool := (f32_exp b =? 255) && negb (f32_man b =? 0).
Definition f32_is_inf (b : Z) : bool := (f32_exp b =? 255) && (f32_man b =? 0).

(* ---- binary64 -> binary32, round to nearest even (C cast (float)x) ---- *)
Definition f64_to_f32 (x : binary64) : binary32 :=
  match x with
  | B754_zero _ _ s => B754_zero 24 128 s
  | B754_infinity _ _ s => B754_infinity 24 128 s
  | B754_nan _ _ s _ _ => B754_infinity 24 128 s   (* never used: NaNs are handled at bit level *)
  | B754_finite _ _ s m e _ =>
      binary_normalize 24 128 Hprec32 Hmax32 mode_NE (cond_Zopp s (Zpos m)) e s
  end.

Definition narrow_bits (b : Z) : Z :=
  if f64_is_nan b
  then (if f64_sign b then two31 else 0) + Z.lor 2143289344 (f64_man b / 536870912)
       (* 0x7FC00000 | payload >> 29 : quiet bit forced, top 22 payload bits kept *)
  else bits_of_b32 (f64_to_f32 (b64_of_bits (b mod two64))).

(* ---- binary32 -> binary64, exact (C cast (double)x) ---- *)
Definition f32_to_f64 (x : binary32) : binary64 :=
  match x with
  | B754_zero _ _ s => B754_zero 53 1024 s
  | B754_infinity _ _ s => B754_infinity 53 1024 s
  | B754_nan _ _ s _ _ => B754_infinity 53 1024 s   (* never used *)
  | B754_finite _ _ s m e _ =>
      binary_normalize 53 1024 Hprec64 Hmax64 mode_NE (cond_Zopp s (Zpos m)) e s
  end.

Definition widen_bits (b : Z) : Z :=
  if f32_is_nan b
  then (if f32_sign b then two63 else 0) + Z.lor 9221120237041090560 (f32_man b * 536870912)
       (* 0x7FF8000000000000 | payload << 29 *)
  else bits_of_b64 (f32_to_f64 (b32_of_bits (b mod two32))).

(* ---- Python int -> float (PyLong_AsDouble): RNE, OverflowError when the result is not finite ---- *)
Definition int_overflow_threshold : Z := 2 ^ 1024 - 2 ^ 970.   (* DBL_MAX + ulp/2 *)
Definition int_to_f64 (z : Z) : option Z :=
  if int_overflow_threshold <=? Z.abs z then None
  else Some (bits_of_b64 (binary_normalize 53 1024 Hprec64 Hmax64 mode_NE z 0 false)).

(* ---- exact ordering of Python numbers (int vs float comparisons are exact in CPython) ---- *)
Inductive xnum := XNaN | XInf (neg : bool) | XFin (m e : Z).   (* XFin m e = m * 2^e *)

Definition xnum_of_f64 (b : Z) : xnum :=
  match b64_of_bits (b mod two64) with
  | B754_zero _ _ _ => XFin 0 0
  | B754_infinity _ _ s => XInf s
  | B754_nan _ _ _ _ _ => XNaN
  | B754_finite _ _ s m e _ => XFin (cond_Zopp s (Zpos m)) e
  end.
Definition xnum_of_int (z : Z) : xnum := XFin z 0.

Definition xfin_cmp (m1 e1 m2 e2 : Z) : comparison :=
  let e := Z.min e1 e2 in
  Z.compare (m1 * 2 ^ (e1 - e)) (m2 * 2 ^ (e2 - e)).

(* x < y ; false whenever a NaN is involved *)
Definition xlt (x y : xnum) : bool :=
  match x, y with
  | XNaN, _ | _, XNaN => false
  | XInf sx, XInf sy => sx && negb sy
  | XInf sx, XFin _ _ => sx
  | XFin _ _, XInf sy => negb sy
  | XFin m1 e1, XFin m2 e2 => match xfin_cmp m1 e1 m2 e2 with Lt => true | _ => false end
  end.
Definition xgt (x y : xnum) : bool := xlt y x.
Definition xis_nan (x : xnum) : bool := match x with XNaN => true | _ => false end.

Definition canonical_nan64 : Z := 9221120237041090560.  (* float('nan') *)

(* ---- thresholds (exact integers) ---- *)
Definition T32z : Z := 2 ^ 128 - 2 ^ 103.    (* FLT_MAX + ulp/2 : the least magnitude that rounds to +-inf in binary32 *)
(* |x| >= t, for a non-NaN x and t > 0 *)
Definition xabs_ge (x : xnum) (t : Z) : bool := negb (xlt x (XFin t 0)) || negb (xlt (XFin (- t) 0) x).
