(* Byte-level primitives of the "values" family (C09, C10).
   A message is its byte image: a list of Z, each in [0,256).
   Integers are little-endian two's complement; the wrap (mod 2^(8w)) that ctypes
   performs when it stores a Python int without range check is explicit here.
   Executable, proof-free (proofs: Proofs/BytesProofs.v). *)
From Coq Require Import ZArith List Bool.
Import ListNotations.
Open Scope Z_scope.

Definition byte_ok (b : Z) : bool := (0 <=? b) && (b <? 256).

(* w little-endian bytes of z mod 2^(8w) *)
Fixpoint le_encode (w : nat) (z : Z) : list Z :=
  match w with
  | O => []
  | S k => (z mod 256) :: le_encode k (z / 256)
  end.

Fixpoint le_decode (bs : list Z) : Z :=
  match bs with
  | [] => 0
  | b :: r => b + 256 * le_decode r
  end.

Definition to_signed (bits : Z) (u : Z) : Z :=
  if u <? 2 ^ (bits - 1) then u else u - 2 ^ bits.

Definition load_int (signed : bool) (bs : list Z) : Z :=
  let u := le_decode bs in
  if signed then to_signed (8 * Z.of_nat (length bs)) u else u.

(* overwrite |bs| bytes of m at offset off *)
Definition splice (m : list Z) (off : nat) (bs : list Z) : list Z :=
  firstn off m ++ bs ++ skipn (off + length bs) m.

Definition sub (m : list Z) (off n : nat) : list Z := firstn n (skipn off m).

Fixpoint chunks (esz n : nat) (bs : list Z) : list (list Z) :=
  match n with
  | O => []
  | S k => firstn esz bs :: chunks esz k (skipn esz bs)
  end.

Fixpoint zl_eqb (a b : list Z) : bool :=
  match a, b with
  | [], [] => true
  | x :: r, y :: s => (x =? y) && zl_eqb r s
  | _, _ => false
  end.

Fixpoint take_until_nul (cs : list Z) : list Z :=
  match cs with
  | [] => []
  | c :: r => if c =? 0 then [] else c :: take_until_nul r
  end.

Definition all_ascii (cs : list Z) : bool := forallb (fun c => (0 <=? c) && (c <? 128)) cs.
Definition all_bytes (cs : list Z) : bool := forallb byte_ok cs.
