(* The validation flag: validators._VALIDATION_ENABLED (a ContextVar, default True) and the
   generator-based context manager disable_message_validation(ignore):

       if not ignore:
           token = _VALIDATION_ENABLED.set(False)
           try:
               yield
           finally:
               _VALIDATION_ENABLED.reset(token)
       else:
           yield

   Events per thread (each thread has its own context): entering a block, leaving it normally,
   leaving it through an exception, and a probe (an assignment that consults the flag).
   Tokens remember the value the variable had before the set.  Proof-free. *)
From Coq Require Import ZArith List Bool Arith.
Import ListNotations.

Inductive fev := Enter (ignore : bool) | ExitNormal | ExitExc.

Record fstate := mkF { fvar : bool; fstack : list (option bool) }.
Definition finit : fstate := mkF true [].

Definition fstep (s : fstate) (e : fev) : fstate :=
  match e with
  | Enter false => mkF false (Some (fvar s) :: fstack s)
  | Enter true => mkF (fvar s) (None :: fstack s)
  | ExitNormal =>
      match fstack s with
      | Some old :: r => mkF old r          (* reset(token) *)
      | None :: r => mkF (fvar s) r
      | [] => s
      end
  | ExitExc =>
      match fstack s with
      | Some old :: r => mkF old r          (* try/finally: reset(token) also when the body raises *)
      | None :: r => mkF (fvar s) r
      | [] => s
      end
  end.

Definition frun_from (s : fstate) (t : list fev) : fstate := fold_left fstep t s.
Definition frun (t : list fev) : fstate := frun_from finit t.
Definition enabled (t : list fev) : bool := fvar (frun t).

(* spec: number of open disabling (non-ignore) blocks *)
Fixpoint open_blocks (st : list bool) (t : list fev) : option (list bool) :=
  match t with
  | [] => Some st
  | Enter ig :: r => open_blocks (negb ig :: st) r
  | (ExitNormal | ExitExc) :: r => match st with _ :: st' => open_blocks st' r | [] => None end
  end.
Definition well_nested (t : list fev) : bool := match open_blocks [] t with Some _ => true | None => false end.
Definition spec_enabled (t : list fev) : bool :=
  match open_blocks [] t with Some st => negb (existsb (fun b => b) st) | None => true end.

(* several threads: each has its own flag state (ContextVar semantics) *)
Inductive tev := TEv (e : fev) | TProbe.
Fixpoint tget (s : list (nat * fstate)) (tid : nat) : fstate :=
  match s with [] => finit | (k, v) :: r => if Nat.eqb k tid then v else tget r tid end.
Fixpoint trun (s : list (nat * fstate)) (t : list (nat * tev)) : list bool :=
  match t with
  | [] => []
  | (tid, TProbe) :: r => fvar (tget s tid) :: trun s r
  | (tid, TEv e) :: r => trun ((tid, fstep (tget s tid) e) :: s) r
  end.

(* observations of one thread in a multi-thread script, and the single-thread machine on its own events *)
Fixpoint tprobes (tid : nat) (s : list (nat * fstate)) (t : list (nat * tev)) : list bool :=
  match t with
  | [] => []
  | (k, TProbe) :: r => if Nat.eqb k tid then fvar (tget s k) :: tprobes tid s r else tprobes tid s r
  | (k, TEv e) :: r => tprobes tid ((k, fstep (tget s k) e) :: s) r
  end.
Fixpoint project (tid : nat) (t : list (nat * tev)) : list tev :=
  match t with
  | [] => []
  | (k, x) :: r => if Nat.eqb k tid then x :: project tid r else project tid r
  end.
Fixpoint fprobes (s : fstate) (t : list tev) : list bool :=
  match t with
  | [] => []
  | TProbe :: r => fvar s :: fprobes s r
  | TEv e :: r => fprobes (fstep s e) r
  end.
