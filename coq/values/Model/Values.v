(* Executable model of pyrtma's field descriptors (validators.py) over message byte images.

   A message is its byte image; a field is (offset, type); a nested field m.s.x or m.sa[i].x is
   the leaf field at the summed offset (ctypes sub-objects share the parent's buffer).
   [set enabled f key m v] follows __set__ / __setitem__ of the descriptor: validation (only when the
   validation flag is on), then the ctypes store, which for slices writes element by element and can stop
   half-way: the result always carries the image as it is at that moment, so atomicity is a theorem
   (Proofs/ValuesProofs.v), not an assumption.
   Ranges, ctypes types and guard expressions come from Gen/ValidatorTbl.v (regenerated from the code).
   Modelled, validated by the correspondence, not verified: ctypes setfunc/getfunc behaviour, CPython
   max/min/isinstance, str.encode('ascii').  Proof-free. *)
From Coq Require Import ZArith List Bool.
From Val Require Import Gen.ValidatorTbl Model.Bytes Model.Floats.
Import ListNotations.
Open Scope Z_scope.

Inductive exn :=
| ETypeError | EValueError | EOverflowError | EIndexError | EAttributeError
| EUnicodeEncodeError | EUnicodeDecodeError.

(* array element descriptor: validator class identity [vid] matters for whole-array assignment *)
Inductive elem :=
| EInt (vid : Z) (r : irec)        (* IntArray(Int8 .. Uint64) *)
| EFloat (vid : Z) (ct : Z * Z)    (* FloatArray(Float | Double) *)
| EByte (r : irec).                (* ByteArray *)

(* The Python values a caller can pass.  Code points / bytes are Z. *)
Inductive pyval :=
| PInt (z : Z)
| PBool (b : bool)
| PFloat (bits : Z)                 (* binary64 bit pattern *)
| PNumLike (bits : Z)               (* not an int/float instance, but compares and converts like this float (Fraction) *)
| PStr (cs : list Z)
| PBytes (bs : list Z)              (* bytes or bytearray *)
| PNone
| PList (l : list pyval)            (* list or tuple *)
| PCInst (ck cw : Z) (raw : list Z) (* instance of a simple ctypes type (kind, width) *)
| PStruct (cls : Z) (raw : list Z)  (* instance of message struct class cls *)
| PCArr (ck cw : Z) (n : nat) (raw : list Z)          (* instance of a ctypes array type (ctype * n), e.g. (c_uint8*4)(..) *)
| PArr (e : elem) (n : nat) (raw : list Z)            (* array field bound to some message *)
| PSArr (cls : Z) (esz n : nat) (raw : list Z).       (* struct-array field bound to some message *)

Inductive ftype :=
| TInt (r : irec)
| TFloat (ct : Z * Z)
| TByte (r : irec)
| TChar
| TString (n : nat)
| TArr (e : elem) (n : nat)
| TStruct (cls : Z) (size : nat)
| TSArr (cls : Z) (esz n : nat).

Inductive key := KAttr | KIdx (i : Z) | KSlice (a b c : option Z).

Record field := mkField { f_off : nat; f_ty : ftype }.

(* outcome: exception raised (if any) and the message image afterwards *)
Definition outcome := (option exn * list Z)%type.

Definition irec_w (r : irec) : nat := Z.to_nat (c_width r).
Definition irec_signed (r : irec) : bool := c_kind r =? 0.

Definition elem_ct (e : elem) : Z * Z :=
  match e with EInt _ r => (c_kind r, c_width r) | EFloat _ ct => ct | EByte r => (c_kind r, c_width r) end.
Definition elem_size (e : elem) : nat := Z.to_nat (snd (elem_ct e)).

Definition fsize (t : ftype) : nat :=
  match t with
  | TInt r => irec_w r
  | TFloat ct => Z.to_nat (snd ct)
  | TByte r => irec_w r
  | TChar => 1
  | TString n => n
  | TArr e n => (n * elem_size e)%nat
  | TStruct _ size => size
  | TSArr _ esz n => (n * esz)%nat
  end.

(* ------------------------------------------------------------------ *)
(* ctypes element store (setfunc / same-type instance copy)            *)

Definition same_ct (ck cw ck' cw' : Z) (raw : list Z) : bool :=
  (ck =? ck') && (cw =? cw') && (Z.of_nat (length raw) =? cw).

Definition num_to_f64 (v : pyval) : exn + Z :=     (* PyFloat_AsDouble *)
  match v with
  | PFloat b => inr b
  | PNumLike b => inr b
  | PInt z => match int_to_f64 z with Some b => inr b | None => inl EOverflowError end
  | PBool b => match int_to_f64 (Z.b2z b) with Some b => inr b | None => inl EOverflowError end
  | _ => inl ETypeError
  end.

Definition float_bytes (cw : Z) (b : Z) : list Z :=
  if cw =? 4 then le_encode 4 (narrow_bits b) else le_encode 8 b.

Definition cstore (ck cw : Z) (v : pyval) : exn + list Z :=
  match v with
  | PCInst ck' cw' raw => if same_ct ck cw ck' cw' raw then inr raw else inl ETypeError
  | _ =>
    if ck <=? 1 then
      match v with
      | PInt z => inr (le_encode (Z.to_nat cw) z)
      | PBool b => inr (le_encode (Z.to_nat cw) (Z.b2z b))
      | _ => inl ETypeError
      end
    else if ck =? 2 then
      match num_to_f64 v with inr b => inr (float_bytes cw b) | inl e => inl e end
    else
      match v with
      | PBytes [b] => inr [b]
      | _ => inl ETypeError
      end
  end.

Definition cstore_struct (cls : Z) (size : nat) (v : pyval) : exn + list Z :=
  match v with
  | PStruct cls' raw => if (cls =? cls') && (length raw =? size)%nat then inr raw else inl ETypeError
  | _ => inl ETypeError
  end.

(* ------------------------------------------------------------------ *)
(* validators                                                          *)

Definition is_intlike (v : pyval) : bool := match v with PInt _ | PBool _ => true | _ => false end.
Definition int_of (v : pyval) : Z := match v with PInt z => z | PBool b => Z.b2z b | _ => 0 end.
Definition is_num (v : pyval) : bool :=
  match v with PInt _ | PBool _ | PFloat _ | PNumLike _ => true | _ => false end.
Definition xnum_of (v : pyval) : xnum :=
  match v with
  | PInt z => xnum_of_int z
  | PBool b => xnum_of_int (Z.b2z b)
  | PFloat b | PNumLike b => xnum_of_f64 b
  | _ => XNaN
  end.

Definition is_cinst (ck cw : Z) (v : pyval) : bool :=
  match v with PCInst ck' cw' raw => same_ct ck cw ck' cw' raw | _ => false end.

(* IntValidatorBase.validate_one *)
Definition int_validate_one (r : irec) (v : pyval) : option exn :=
  if is_cinst (c_kind r) (c_width r) v then None
  else if negb (is_intlike v) then Some ETypeError
  else if guard_int_one (v_min r) (v_max r) (int_of v) then Some EValueError
  else None.

(* Python max / min over ints *)
Definition zmax_list (x : Z) (l : list Z) : Z := fold_left Z.max l x.
Definition zmin_list (x : Z) (l : list Z) : Z := fold_left Z.min l x.

(* IntValidatorBase.validate_many *)
Definition int_validate_many (r : irec) (items : list pyval) : option exn :=
  if negb (forallb is_intlike items) then Some ETypeError
  else match map int_of items with
       | [] => Some EValueError                       (* max() of an empty sequence *)
       | z :: zs => if guard_int_many (v_min r) (v_max r) (zmax_list z zs) (zmin_list z zs)
                    then Some EValueError else None
       end.

(* math.isinf(self._ctype(v).value) *)
Definition float_isinf_conv (cw : Z) (v : pyval) : exn + bool :=
  match num_to_f64 v with
  | inl e => inl e
  | inr b => inr (if cw =? 4 then f32_is_inf (narrow_bits b) else f64_is_inf b)
  end.

(* FloatValidatorBase.validate_one *)
Definition float_validate_one (ct : Z * Z) (v : pyval) : option exn :=
  if is_cinst (fst ct) (snd ct) v then None
  else match v with
       | PFloat _ | PInt _ | PBool _ =>
           match float_isinf_conv (snd ct) v with
           | inl e => Some e
           | inr true => Some EValueError
           | inr false => None
           end
       | _ => Some ETypeError
       end.

(* FloatValidatorBase.validate_many : every element is converted and tested, in order
   (self._ctype(v) raises TypeError for a non-number, OverflowError for a huge int) *)
Fixpoint float_validate_many (ct : Z * Z) (items : list pyval) : option exn :=
  match items with
  | [] => None
  | x :: r =>
      match float_isinf_conv (snd ct) x with
      | inl e => Some e
      | inr true => Some EValueError
      | inr false => float_validate_many ct r
      end
  end.

(* Byte.validate_one *)
Definition byte_validate_one (r : irec) (v : pyval) : option exn :=
  if is_cinst (c_kind r) (c_width r) v then None
  else match v with
       | PInt _ | PBool _ => if guard_byte_one (v_min r) (v_max r) (int_of v) then Some EValueError else None
       | PBytes bs => if guard_byte_len (Z.of_nat (length bs)) then Some EValueError else None
       | _ => Some ETypeError
       end.

(* Byte.validate_many (value itself bytes/bytearray: accepted without looking) *)
Definition byte_validate_many (r : irec) (v : pyval) (items : list pyval) : option exn :=
  match v with
  | PBytes _ => None
  | _ =>
    if negb (forallb is_intlike items) then Some ETypeError
    else match map int_of items with
         | [] => Some EValueError
         | z :: zs => if guard_byte_many (v_min r) (v_max r) (zmax_list z zs) (zmin_list z zs)
                      then Some EValueError else None
         end
  end.

(* String.validate_one / Char.validate_one *)
Definition string_validate_one (n : nat) (v : pyval) : option exn :=
  match v with
  | PStr cs => if guard_string_len (Z.of_nat n) (Z.of_nat (length cs)) then Some EValueError
               else if negb (all_ascii cs) then Some ETypeError else None
  | _ => Some ETypeError
  end.
Definition char_validate_one (v : pyval) : option exn :=
  if is_cinst (fst char_ctype) (snd char_ctype) v then None
  else match v with
       | PStr cs => if guard_char_len char_len (Z.of_nat (length cs)) then Some EValueError
                    else if negb (all_ascii cs) then Some ETypeError else None
       | _ => Some ETypeError
       end.

Definition is_struct (cls : Z) (size : nat) (v : pyval) : bool :=
  match v with PStruct cls' raw => (cls =? cls') && (length raw =? size)%nat | _ => false end.
Definition struct_validate_one (cls : Z) (size : nat) (v : pyval) : option exn :=
  if is_struct cls size v then None else Some ETypeError.
Definition struct_validate_many (cls : Z) (size : nat) (items : list pyval) : option exn :=
  if forallb (is_struct cls size) items then None else Some ETypeError.

(* ------------------------------------------------------------------ *)
(* sequences, slices                                                   *)

Definition elem_load (e : elem) (bs : list Z) : pyval :=
  match e with
  | EInt _ r => PInt (load_int (irec_signed r) bs)
  | EFloat _ ct => PFloat (if snd ct =? 4 then widen_bits (le_decode bs) else le_decode bs)
  | EByte _ => PBytes bs                  (* ByteArray.__getitem__(i) is a bytearray of length 1 *)
  end.

(* element of a ctypes array as the Python object that iteration / indexing yields *)
Definition carr_elem (ck cw : Z) (bs : list Z) : pyval :=
  if ck <=? 1 then PInt (load_int (ck =? 0) bs)
  else if ck =? 2 then PFloat (if cw =? 4 then widen_bits (le_decode bs) else le_decode bs)
  else PBytes bs.

(* iteration / len+getitem of a value (None: not iterable, no __getitem__) *)
Definition iter_items (v : pyval) : option (list pyval) :=
  match v with
  | PList l => Some l
  | PBytes bs => Some (map PInt bs)
  | PStr cs => Some (map (fun c => PStr [c]) cs)
  | PCArr ck cw n raw => Some (map (carr_elem ck cw) (chunks (Z.to_nat cw) n raw))
  | PArr e n raw => Some (map (elem_load e) (chunks (elem_size e) n raw))
  | PSArr cls esz n raw => Some (map (PStruct cls) (chunks esz n raw))
  | _ => None
  end.

(* slice.indices(n): (start, step, length); None when step = 0 *)
Definition clamp_start (n step : Z) (a : option Z) : Z :=
  match a with
  | None => if step <? 0 then n - 1 else 0
  | Some s => let s := if s <? 0 then s + n else s in
              if s <? 0 then (if step <? 0 then -1 else 0)
              else if n <=? s then (if step <? 0 then n - 1 else n)
              else s
  end.
Definition clamp_stop (n step : Z) (b : option Z) : Z :=
  match b with
  | None => if step <? 0 then -1 else n
  | Some s => let s := if s <? 0 then s + n else s in
              if s <? 0 then (if step <? 0 then -1 else 0)
              else if n <=? s then (if step <? 0 then n - 1 else n)
              else s
  end.
Definition slice_indices (n : Z) (a b c : option Z) : option (Z * Z * nat) :=
  let step := match c with None => 1 | Some s => s end in
  if step =? 0 then None else
  let start := clamp_start n step a in
  let stop := clamp_stop n step b in
  let len := if step <? 0
             then (if stop <? start then (start - stop - 1) / (- step) + 1 else 0)
             else (if start <? stop then (stop - start - 1) / step + 1 else 0) in
  Some (start, step, Z.to_nat len).

Fixpoint positions (start step : Z) (len : nat) : list Z :=
  match len with O => [] | S k => start :: positions (start + step) step k end.

(* element-by-element write of the ctypes slice assignment: stops at the first failing store *)
Fixpoint write_items (st : pyval -> exn + list Z) (esz off : nat) (m : list Z)
         (ps : list Z) (items : list pyval) : outcome :=
  match ps, items with
  | p :: ps', x :: items' =>
      match st x with
      | inl e => (Some e, m)
      | inr bs => write_items st esz off (splice m (off + Z.to_nat p * esz) bs) ps' items'
      end
  | _, _ => (None, m)
  end.

(* ctypes Array.__setitem__ *)
Definition carr_assign (st : pyval -> exn + list Z) (esz n off : nat) (m : list Z) (k : key) (v : pyval) : outcome :=
  match k with
  | KAttr => (Some ETypeError, m)
  | KIdx i =>
      let i' := if i <? 0 then i + Z.of_nat n else i in
      if (i' <? 0) || (Z.of_nat n <=? i') then (Some EIndexError, m)
      else match st v with
           | inl e => (Some e, m)
           | inr bs => (None, splice m (off + Z.to_nat i' * esz) bs)
           end
  | KSlice a b c =>
      match slice_indices (Z.of_nat n) a b c with
      | None => (Some EValueError, m)                      (* slice step cannot be zero *)
      | Some (start, step, len) =>
          match iter_items v with
          | None => (Some EValueError, m)                  (* no len(): "Can only assign sequence of same size" *)
          | Some items =>
              if negb (length items =? len)%nat then (Some EValueError, m)
              else write_items st esz off m (positions start step len) items
          end
      end
  end.

(* ------------------------------------------------------------------ *)
(* descriptors                                                         *)

Definition elem_store (e : elem) : pyval -> exn + list Z :=
  cstore (fst (elem_ct e)) (snd (elem_ct e)).

Definition elem_validate_one (e : elem) (v : pyval) : option exn :=
  match e with
  | EInt _ r => int_validate_one r v
  | EFloat _ ct => float_validate_one ct v
  | EByte r => byte_validate_one r v
  end.
Definition elem_validate_many (e : elem) (v : pyval) (items : list pyval) : option exn :=
  match e with
  | EInt _ r => int_validate_many r items
  | EFloat _ ct => float_validate_many ct items
  | EByte r => byte_validate_many r v items
  end.

(* ByteArray.__setitem__ converts bytes values after validating (only when validation is on) *)
Definition bytearray_conv (e : elem) (v : pyval) : pyval :=
  match e, v with
  | EByte _, PBytes [b] => PInt b
  | EByte _, PBytes bs => PList (map PInt bs)
  | _, _ => v
  end.

(* ArrayField.__setitem__ *)
Definition arr_setitem (enabled : bool) (e : elem) (n off : nat) (m : list Z) (k : key) (v : pyval) : outcome :=
  let verr := if enabled
              then match iter_items v with
                   | Some items => elem_validate_many e v items
                   | None => elem_validate_one e v
                   end
              else None in
  match verr with
  | Some x => (Some x, m)
  | None => carr_assign (elem_store e) (elem_size e) n off m k (if enabled then bytearray_conv e v else v)
  end.

Definition elem_same_class (e e' : elem) : bool :=
  match e, e' with EInt _ _, EInt _ _ | EFloat _ _, EFloat _ _ | EByte _, EByte _ => true | _, _ => false end.
Definition elem_vid (e : elem) : Z := match e with EInt v _ | EFloat v _ => v | EByte _ => -1 end.

(* ArrayField.validate_array *)
Definition validate_array (e : elem) (n : nat) (e' : elem) (n' : nat) : option exn :=
  if negb (elem_same_class e e') then Some ETypeError
  else if negb (elem_vid e =? elem_vid e') then Some ETypeError
  else if negb (n' =? n)%nat then Some EValueError
  else None.

(* StructArray.__setitem__ *)
Definition sarr_setitem (enabled : bool) (cls : Z) (esz n off : nat) (m : list Z) (k : key) (v : pyval) : outcome :=
  let verr := if enabled
              then match iter_items v with
                   | Some items => struct_validate_many cls esz items
                   | None => struct_validate_one cls esz v
                   end
              else None in
  match verr with
  | Some x => (Some x, m)
  | None => carr_assign (cstore_struct cls esz) esz n off m k v
  end.

Definition is_chararr (n : nat) (v : pyval) : bool :=
  match v with PCArr ck cw n' _ => (ck =? 3) && (cw =? 1) && (n' =? n)%nat | _ => false end.

Definition ok_or (m : list Z) (off : nat) (r : exn + list Z) : outcome :=
  match r with inl e => (Some e, m) | inr bs => (None, splice m off bs) end.

(* value.encode("ascii") followed by the c_char / c_char-array store *)
Definition encode_ascii (v : pyval) : exn + list Z :=
  match v with
  | PStr cs => if all_ascii cs then inr cs else inl EUnicodeEncodeError
  | _ => inl EAttributeError
  end.
Definition s_set (n : nat) (cs : list Z) : exn + list Z :=     (* ctypes s_set: strlen, copy the NUL if it fits *)
  let p := take_until_nul cs in
  if (length p <? n)%nat then inr (p ++ [0])
  else if (n <? length p)%nat then inl EValueError
  else inr p.

Definition set (enabled : bool) (f : field) (k : key) (m : list Z) (v : pyval) : outcome :=
  let off := f_off f in
  match f_ty f with
  | TInt r =>
      match k with
      | KAttr =>
          match (if enabled then int_validate_one r v else None) with
          | Some x => (Some x, m)
          | None => ok_or m off (cstore (c_kind r) (c_width r) v)
          end
      | _ => (Some ETypeError, m)
      end
  | TFloat ct =>
      match k with
      | KAttr =>
          match (if enabled then float_validate_one ct v else None) with
          | Some x => (Some x, m)
          | None => ok_or m off (cstore (fst ct) (snd ct) v)
          end
      | _ => (Some ETypeError, m)
      end
  | TByte r =>
      match k with
      | KAttr =>
          match (if enabled then byte_validate_one r v else None) with
          | Some x => (Some x, m)
          | None =>
              let v' := if enabled then match v with PBytes bs => PInt (le_decode bs) | _ => v end else v in
              ok_or m off (cstore (c_kind r) (c_width r) v')
          end
      | _ => (Some ETypeError, m)
      end
  | TChar =>
      match k with
      | KAttr =>
          if is_cinst (fst char_ctype) (snd char_ctype) v
          then ok_or m off (cstore (fst char_ctype) (snd char_ctype) v)
          else match (if enabled then char_validate_one v else None) with
               | Some x => (Some x, m)
               | None => match encode_ascii v with
                         | inl e => (Some e, m)
                         | inr cs => ok_or m off (cstore (fst char_ctype) (snd char_ctype) (PBytes cs))
                         end
               end
      | _ => (Some ETypeError, m)
      end
  | TString n =>
      match k with
      | KAttr =>
          (* an instance of the field's own c_char array type skips validation; ctypes then wants bytes *)
          if is_chararr n v then (Some ETypeError, m) else
          match (if enabled then string_validate_one n v else None) with
          | Some x => (Some x, m)
          | None => match encode_ascii v with
                    | inl e => (Some e, m)
                    | inr cs =>
                        (* a shorter value: the char array is cleared first (no stale tail after the NUL) *)
                        let m0 := if (1 <? n)%nat && (length cs <? n)%nat
                                  then splice m off (repeat 0 n) else m in
                        ok_or m0 off (s_set n cs)
                    end
          end
      | _ => (Some ETypeError, m)
      end
  | TArr e n =>
      match k, v with
      | KAttr, PArr e' n' raw =>
          match (if enabled then validate_array e n e' n' else None) with
          | Some x => (Some x, m)
          | None =>
              if (fst (elem_ct e) =? fst (elem_ct e')) && (snd (elem_ct e) =? snd (elem_ct e')) && (n =? n')%nat
                 && (length raw =? n * elem_size e)%nat
              then (None, splice m off raw) else (Some ETypeError, m)
          end
      | KAttr, _ => arr_setitem enabled e n off m (KSlice None None None) v
      | _, _ => arr_setitem enabled e n off m k v
      end
  | TStruct cls size =>
      match k with
      | KAttr =>
          match (if enabled then struct_validate_one cls size v else None) with
          | Some x => (Some x, m)
          | None => ok_or m off (cstore_struct cls size v)
          end
      | _ => (Some ETypeError, m)
      end
  | TSArr cls esz n =>
      match k, v with
      | KAttr, PSArr cls' esz' n' raw =>
          match (if enabled
                 then (if negb (cls =? cls') then Some ETypeError
                       else if negb (n' =? n)%nat then Some EValueError else None)
                 else None) with
          | Some x => (Some x, m)
          | None =>
              if (cls =? cls') && (n =? n')%nat && (length raw =? n * esz)%nat
              then (None, splice m off raw) else (Some ETypeError, m)
          end
      | KAttr, _ => sarr_setitem enabled cls esz n off m (KSlice None None None) v
      | _, _ => sarr_setitem enabled cls esz n off m k v
      end
  end.

(* ------------------------------------------------------------------ *)
(* reading back through the same field                                 *)

Definition decode_ascii (bs : list Z) : exn + pyval :=
  if all_ascii bs then inr (PStr bs) else inl EUnicodeDecodeError.

Definition arr_get (ld : list Z -> pyval) (join : list pyval -> pyval) (esz n off : nat) (m : list Z) (k : key)
  : exn + pyval :=
  let at_ (p : Z) := ld (sub m (off + Z.to_nat p * esz) esz) in
  match k with
  | KAttr => inr (join (map at_ (positions 0 1 n)))
  | KIdx i =>
      let i' := if i <? 0 then i + Z.of_nat n else i in
      if (i' <? 0) || (Z.of_nat n <=? i') then inl EIndexError else inr (at_ i')
  | KSlice a b c =>
      match slice_indices (Z.of_nat n) a b c with
      | None => inl EValueError
      | Some (start, step, len) => inr (join (map at_ (positions start step len)))
      end
  end.

Definition join_bytes (l : list pyval) : pyval :=
  PBytes (concat (map (fun v => match v with PBytes bs => bs | _ => [] end) l)).

Definition get (f : field) (k : key) (m : list Z) : exn + pyval :=
  let off := f_off f in
  match f_ty f, k with
  | TInt r, KAttr => inr (PInt (load_int (irec_signed r) (sub m off (irec_w r))))
  | TFloat ct, KAttr =>
      let u := le_decode (sub m off (Z.to_nat (snd ct))) in
      inr (PFloat (if snd ct =? 4 then widen_bits u else u))
  | TByte r, KAttr => inr (PInt (load_int (irec_signed r) (sub m off (irec_w r))))
  | TChar, KAttr => decode_ascii (sub m off 1)
  | TString n, KAttr => decode_ascii (take_until_nul (sub m off n))
  | TArr e n, _ =>
      match e with
      | EByte _ => arr_get (elem_load e) join_bytes (elem_size e) n off m k
      | _ => arr_get (elem_load e) PList (elem_size e) n off m k
      end
  | TStruct cls size, KAttr => inr (PStruct cls (sub m off size))
  | TSArr cls esz n, _ => arr_get (PStruct cls) PList esz n off m k
  | _, _ => inl ETypeError
  end.

(* the bytes of the field's extent *)
Definition extent (f : field) (m : list Z) : list Z := sub m (f_off f) (fsize (f_ty f)).
Definition wf_field (f : field) (m : list Z) : Prop := (f_off f + fsize (f_ty f) <= length m)%nat.
Definition wf_fieldb (f : field) (m : list Z) : bool := (f_off f + fsize (f_ty f) <=? length m)%nat.
