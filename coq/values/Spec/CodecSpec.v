(* Specification-side definitions for C10: admissible flattened layouts, the images reachable through the
   validated field API, the invariant they satisfy, and the two decidable exclusions under which the
   dictionary / JSON round trips are the identity.  Proof-free. *)
From Coq Require Import ZArith List Bool.
From Val Require Import Gen.ValidatorTbl Model.Bytes Model.Floats Model.Values Model.Codec Spec.ValSpec.
Import ListNotations.
Open Scope Z_scope.

(* leaf types of a flattened class (structs and struct arrays are expanded by the flattening) *)
Definition leaf_ty_ok (t : ftype) : bool :=
  match t with
  | TInt r => irec_ok r
  | TFloat ct => fct_ok ct
  | TByte r => byte_irec_ok r
  | TChar => true
  | TString n => (1 <=? n)%nat
  | TArr (EByte r) n => byte_irec_ok r && (2 <=? n)%nat       (* ByteArray asserts len > 1 *)
  | TArr e n => elem_ok e && (1 <=? n)%nat
  | TStruct _ _ | TSArr _ _ _ => false
  end.

Definition f_end (f : field) : nat := (f_off f + fsize (f_ty f))%nat.
Definition in_bounds (size : nat) (f : field) : bool := (f_end f <=? size)%nat.
Definition disjoint_from (f : field) (l : list field) : bool :=
  forallb (fun g => (f_end f <=? f_off g)%nat || (f_end g <=? f_off f)%nat) l.
Fixpoint layout_ok (size : nat) (leaves : list field) : bool :=
  match leaves with
  | [] => true
  | f :: r => leaf_ty_ok (f_ty f) && in_bounds size f && disjoint_from f r && layout_ok size r
  end.

(* values a caller passes to the validated API, ctypes objects excluded
   (a ctypes instance of the field's own type bypasses validate_one: reported as an observation) *)
Fixpoint plain (v : pyval) : bool :=
  match v with
  | PInt _ | PBool _ | PFloat _ | PNumLike _ | PStr _ | PNone => true
  | PBytes bs => all_bytes bs
  | PList l => forallb plain l
  | PCInst _ _ _ | PCArr _ _ _ _ | PStruct _ _ | PArr _ _ _ | PSArr _ _ _ _ => false
  end.

(* ApiReachable: from the zero message by validated assignments (any leaf, any key, any plain value) *)
Inductive reach (leaves : list field) (size : nat) : list Z -> Prop :=
| reach_zero : reach leaves size (repeat 0 size)
| reach_set : forall m f k v, reach leaves size m -> In f leaves -> plain v = true ->
    reach leaves size (snd (set true f k m v)).

(* the invariant of reachable images *)
Definition f32_quiet_or_num (u : Z) : bool := negb (f32_is_nan u) || (4194304 <=? f32_man u).
Definition elem_inv (e : elem) (bs : list Z) : bool :=
  match e with
  | EFloat _ ct => if snd ct =? 4 then negb (f32_is_inf (le_decode bs)) && f32_quiet_or_num (le_decode bs)
                   else negb (f64_is_inf (le_decode bs))
  | _ => true
  end.
Definition leaf_inv (t : ftype) (bs : list Z) : bool :=
  match t with
  | TFloat ct => elem_inv (EFloat 0 ct) bs
  | TChar => all_ascii bs
  | TString _ => all_ascii bs && (last bs 0 =? 0)
  | TArr e n => forallb (elem_inv e) (chunks (elem_size e) n bs)
  | _ => true
  end.
Definition covered (leaves : list field) (j : nat) : bool :=
  existsb (fun f => (f_off f <=? j)%nat && (j <? f_end f)%nat) leaves.
Definition uncovered_zero (leaves : list field) (m : list Z) : bool :=
  forallb (fun j => covered leaves j || (nth j m 0 =? 0)) (seq 0 (length m)).
Definition reach_inv (leaves : list field) (size : nat) (m : list Z) : bool :=
  (length m =? size)%nat && all_bytes m &&
  forallb (fun f => leaf_inv (f_ty f) (extent f m)) leaves && uncovered_zero leaves m.

(* no stale bytes after the first NUL of a char array (an invariant of reachable images since the String
   descriptor clears the array before a shorter value is stored) *)
Definition string_clean (bs : list Z) : bool :=
  let p := take_until_nul bs in zl_eqb (skipn (length p) bs) (repeat 0 (length bs - length p)).
Definition strings_clean (leaves : list field) (m : list Z) : bool :=
  forallb (fun f => match f_ty f with TString _ => string_clean (extent f m) | _ => true end) leaves.

(* the exclusion (JSON only): every NaN is the canonical quiet NaN (positive, zero payload) *)
Definition elem_nan_canon (e : elem) (bs : list Z) : bool :=
  match e with
  | EFloat _ ct => let u := le_decode bs in
                   if snd ct =? 4 then negb (f32_is_nan u) || (u =? 2143289344)
                   else negb (f64_is_nan u) || (u =? canonical_nan64)
  | _ => true
  end.
Definition leaf_nan_canon (t : ftype) (bs : list Z) : bool :=
  match t with
  | TFloat ct => elem_nan_canon (EFloat 0 ct) bs
  | TArr e n => forallb (elem_nan_canon e) (chunks (elem_size e) n bs)
  | _ => true
  end.
Definition nans_canonical (leaves : list field) (m : list Z) : bool :=
  forallb (fun f => leaf_nan_canon (f_ty f) (extent f m)) leaves.
