(* Specification-side definitions for C09: what a sane validator table is (stated from the C types, not
   from the code), what "outside the field's domain" means (from the property text), and the value that
   must be read back after an accepted assignment.  Proof-free. *)
From Coq Require Import ZArith List Bool.
From Val Require Import Gen.ValidatorTbl Model.Bytes Model.Floats Model.Values.
Import ListNotations.
Open Scope Z_scope.

(* --- what the generated table must say for the theorems to apply (C09_table_ok proves it does) --- *)
Definition c_lo (kind width : Z) : Z := if kind =? 0 then - 2 ^ (8 * width - 1) else 0.
Definition c_hi (kind width : Z) : Z := if kind =? 0 then 2 ^ (8 * width - 1) - 1 else 2 ^ (8 * width) - 1.

Definition irec_ok (r : irec) : bool :=
  ((c_kind r =? 0) || (c_kind r =? 1)) &&
  ((c_width r =? 1) || (c_width r =? 2) || (c_width r =? 4) || (c_width r =? 8)) &&
  (v_min r =? c_lo (c_kind r) (c_width r)) && (v_max r =? c_hi (c_kind r) (c_width r)).
(* _size and _unsigned are informational attributes (not consulted by validation): translated, not constrained *)
Definition byte_irec_ok (r : irec) : bool := irec_ok r && (c_kind r =? 1) && (c_width r =? 1).
Definition fct_ok (ct : Z * Z) : bool := (fst ct =? 2) && ((snd ct =? 4) || (snd ct =? 8)).
Definition elem_ok (e : elem) : bool :=
  match e with EInt _ r => irec_ok r | EFloat _ ct => fct_ok ct | EByte r => byte_irec_ok r end.
Definition ftype_ok (t : ftype) : bool :=
  match t with
  | TInt r => irec_ok r
  | TFloat ct => fct_ok ct
  | TByte r => byte_irec_ok r
  | TArr e _ => elem_ok e
  | _ => true
  end.
Definition gen_ok : bool :=
  forallb irec_ok (map snd int_validators) && byte_irec_ok v_Byte &&
  fct_ok v_Float && (snd v_Float =? 4) && fct_ok v_Double && (snd v_Double =? 8) &&
  (fst char_ctype =? 3) && (snd char_ctype =? 1) && (char_len =? 1) &&
  (Z.of_nat (length int_validators) =? 8).

(* --- well-formed values: the elements of a bytes object are bytes --- *)
Fixpoint wf_val (v : pyval) : bool :=
  match v with
  | PBytes bs => all_bytes bs
  | PList l => forallb wf_val l
  | _ => true
  end.

(* --- outside the field's domain (property text) --- *)
Definition ood_int (kind width : Z) (v : pyval) : bool :=
  negb (is_cinst kind width v) &&
  (negb (is_intlike v) || (int_of v <? c_lo kind width) || (c_hi kind width <? int_of v)).

(* floats: an infinity, or a finite float / an int whose nearest representable value is +-infinity (the value read
   back must be finite); any non-number *)
Definition ood_float (ct : Z * Z) (v : pyval) : bool :=
  negb (is_cinst (fst ct) (snd ct) v) &&
  match v with
  | PFloat b =>      (* +-infinity itself, or (c_float) a finite value of magnitude >= FLT_MAX + ulp/2 *)
      negb (f64_is_nan b) && (if snd ct =? 4 then xabs_ge (xnum_of_f64 b) T32z else f64_is_inf b)
  | PInt _ | PBool _ =>
      if snd ct =? 4 then T32z <=? Z.abs (int_of v) else int_overflow_threshold <=? Z.abs (int_of v)
  | PNumLike _ => false
  | _ => true
  end.

Definition ood_elem (e : elem) (v : pyval) : bool :=
  match e with
  | EInt _ r => ood_int (c_kind r) (c_width r) v
  | EFloat _ ct => ood_float ct v
  | EByte r =>
      match v with
      | PBytes bs => negb (length bs =? 1)%nat
      | _ => ood_int (c_kind r) (c_width r) v
      end
  end.

Definition ood_string (maxlen : nat) (v : pyval) : bool :=
  match v with
  | PStr cs => (maxlen <? length cs)%nat || negb (all_ascii cs)
  | _ => true
  end.

Definition slice_len (n : nat) (k : key) : option nat :=
  match k with
  | KAttr => Some n
  | KIdx _ => None
  | KSlice a b c => match slice_indices (Z.of_nat n) a b c with Some (_, _, len) => Some len | None => None end
  end.

Definition ood_seq (ood1 : pyval -> bool) (n : nat) (k : key) (v : pyval) : bool :=
  match slice_len n k with
  | None => false                          (* zero step: no claim *)
  | Some len =>
      match iter_items v with
      | None => true                       (* not a sequence *)
      | Some items => negb (length items =? len)%nat || existsb ood1 items
      end
  end.

Definition idx_in (n : nat) (i : Z) : bool := (- Z.of_nat n <=? i) && (i <? Z.of_nat n).

Definition out_of_domain (t : ftype) (k : key) (v : pyval) : bool :=
  match t, k with
  | TInt r, KAttr => ood_int (c_kind r) (c_width r) v
  | TFloat ct, KAttr => ood_float ct v
  | TByte r, KAttr => ood_elem (EByte r) v
  | TChar, KAttr => negb (is_cinst 3 1 v) && ood_string 1 v
  | TString n, KAttr => ood_string (n - 1) v
  | TArr e n, KIdx i => idx_in n i && ood_elem e v
  | TArr e n, _ =>
      match v with
      | PArr _ _ _ => false                (* another bound array: no claim *)
      | PBytes bs =>
          match e with
          | EByte _ => match slice_len n k with Some len => negb (length bs =? len)%nat | None => false end
          | _ => ood_seq (ood_elem e) n k v
          end
      | _ => ood_seq (ood_elem e) n k v
      end
  | TStruct cls size, KAttr => negb (is_struct cls size v)
  | TSArr cls esz n, KIdx i => idx_in n i && negb (is_struct cls esz v)
  | TSArr cls esz n, KAttr =>
      match v with
      | PSArr cls' _ n' _ => negb (cls =? cls') || negb (n' =? n)%nat
      | _ => ood_seq (fun x => negb (is_struct cls esz x)) n k v
      end
  | TSArr cls esz n, KSlice _ _ _ => ood_seq (fun x => negb (is_struct cls esz x)) n k v
  | _, _ => false
  end.

(* --- the value that must be read back --- *)
Definition norm_elem (e : elem) (v : pyval) : pyval :=
  match v with
  | PCInst _ _ raw => elem_load e raw
  | _ =>
    match e with
    | EInt _ _ => PInt (int_of v)
    | EFloat _ ct =>
        match num_to_f64 v with
        | inr b => PFloat (if snd ct =? 4 then widen_bits (narrow_bits b) else b mod two64)
        | inl _ => PNone
        end
    | EByte _ => match v with PBytes bs => PBytes bs | _ => PBytes [int_of v] end
    end
  end.

Definition norm_scalar (t : ftype) (v : pyval) : exn + pyval :=
  match t with
  | TInt r => match v with
              | PCInst _ _ raw => inr (PInt (load_int (irec_signed r) raw))
              | _ => inr (PInt (int_of v))
              end
  | TFloat ct => inr (norm_elem (EFloat 0 ct) v)
  | TByte r => match v with
               | PCInst _ _ raw => inr (PInt (load_int (irec_signed r) raw))
               | PBytes bs => inr (PInt (le_decode bs))
               | _ => inr (PInt (int_of v))
               end
  | TChar => match v with
             | PCInst _ _ raw => decode_ascii raw
             | PStr cs => inr (PStr cs)
             | _ => inr PNone
             end
  | TString _ => match v with PStr cs => inr (PStr (take_until_nul cs)) | _ => inr PNone end
  | TStruct cls _ => match v with PStruct _ raw => inr (PStruct cls raw) | _ => inr PNone end
  | _ => inr PNone
  end.
