(* The exact order on Python numbers (Model/Floats.v: xnum, xlt) is a strict total order on non-NaN
   values.  Pure Z arithmetic. *)
From Coq Require Import ZArith List Bool Lia ZifyBool Arith.
From Val Require Import Gen.ValidatorTbl Model.Bytes Model.Floats Model.Values.
Import ListNotations.
Open Scope Z_scope.

Lemma xfin_cmp_lt : forall m1 e1 m2 e2 E, E <= e1 -> E <= e2 ->
  (xfin_cmp m1 e1 m2 e2 = Lt <-> m1 * 2 ^ (e1 - E) < m2 * 2 ^ (e2 - E)).
Proof.
  intros m1 e1 m2 e2 E H1 H2. unfold xfin_cmp. set (e := Z.min e1 e2).
  assert (He : E <= e) by (unfold e; lia).
  assert (Hp : 0 < 2 ^ (e - E)) by (apply Z.pow_pos_nonneg; lia).
  replace (e1 - E) with ((e1 - e) + (e - E)) by lia. replace (e2 - E) with ((e2 - e) + (e - E)) by lia.
  rewrite !Z.pow_add_r by (unfold e; lia). rewrite !Z.mul_assoc.
  rewrite Z.compare_lt_iff. split; intros H.
  - apply Z.mul_lt_mono_pos_r; assumption.
  - eapply Z.mul_lt_mono_pos_r; eassumption.
Qed.

Definition xval_lt (m1 e1 m2 e2 : Z) : Prop :=
  m1 * 2 ^ (e1 - Z.min e1 e2) < m2 * 2 ^ (e2 - Z.min e1 e2).

Lemma xlt_fin : forall m1 e1 m2 e2,
  xlt (XFin m1 e1) (XFin m2 e2) = true <-> xfin_cmp m1 e1 m2 e2 = Lt.
Proof. intros. cbn [xlt]. destruct (xfin_cmp m1 e1 m2 e2); split; intros; congruence. Qed.

Lemma xlt_irrefl : forall a, xlt a a = false.
Proof.
  destruct a as [|s|m e]; cbn [xlt]; try reflexivity.
  - destruct s; reflexivity.
  - unfold xfin_cmp. now rewrite Z.compare_refl.
Qed.

Lemma xlt_nan_l : forall a b, xlt a b = true -> xis_nan a = false.
Proof. destruct a; cbn; intros; [discriminate|reflexivity|reflexivity]. Qed.
Lemma xlt_nan_r : forall a b, xlt a b = true -> xis_nan b = false.
Proof. destruct a, b; cbn; intros; try discriminate; reflexivity. Qed.

Ltac bool_cases := repeat match goal with s : bool |- _ => destruct s end; cbn in *; auto; try discriminate.

Lemma xlt_trans : forall a b c, xlt a b = true -> xlt b c = true -> xlt a c = true.
Proof.
  intros a b c H1 H2.
  destruct a as [|sa|ma ea], b as [|sb|mb eb], c as [|sc|mc ec]; cbn [xlt] in *; try discriminate; auto;
    try (bool_cases; fail).
  apply xlt_fin. apply xlt_fin in H1. apply xlt_fin in H2.
  set (E := Z.min ea (Z.min eb ec)).
  apply (xfin_cmp_lt ma ea mb eb E) in H1; try (unfold E; lia).
  apply (xfin_cmp_lt mb eb mc ec E) in H2; try (unfold E; lia).
  apply (xfin_cmp_lt ma ea mc ec E); try (unfold E; lia). lia.
Qed.

(* negative transitivity: a < b implies a < c or c < b for any non-NaN c *)
Lemma xlt_negtrans : forall a b c, xlt a b = true -> xis_nan c = false -> xlt a c = true \/ xlt c b = true.
Proof.
  intros a b c H1 Hc.
  destruct a as [|sa|ma ea], b as [|sb|mb eb], c as [|sc|mc ec]; cbn [xlt xis_nan] in *; try discriminate; auto;
    try (bool_cases; fail).
  apply xlt_fin in H1. set (E := Z.min ea (Z.min eb ec)).
  apply (xfin_cmp_lt ma ea mb eb E) in H1; try (unfold E; lia).
  destruct (Z_lt_le_dec (ma * 2 ^ (ea - E)) (mc * 2 ^ (ec - E))) as [Hl|Hl].
  + left. apply xlt_fin. apply (xfin_cmp_lt ma ea mc ec E); try (unfold E; lia). exact Hl.
  + right. apply xlt_fin. apply (xfin_cmp_lt mc ec mb eb E); try (unfold E; lia). lia.
Qed.

Lemma xlt_int : forall a b, xlt (XFin a 0) (XFin b 0) = (a <? b).
Proof.
  intros. cbn [xlt]. unfold xfin_cmp. cbn [Z.min Z.sub Z.pow Z.compare]. rewrite !Z.mul_1_r.
  destruct (Z.compare_spec a b); lia.
Qed.

Lemma xabs_ge_int : forall z t, xabs_ge (XFin z 0) t = ((t <=? z) || (z <=? - t)).
Proof. intros. unfold xabs_ge. rewrite !xlt_int. lia. Qed.

Definition nn (v : pyval) : Prop := xis_nan (xnum_of v) = false.
