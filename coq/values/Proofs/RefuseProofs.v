(* Refusal: an out-of-domain value (Spec/ValSpec.v) makes the validated assignment raise.
   The two float obligations are hypotheses of the section; they are proved in Proofs/FloatArrayProofs.v. *)
From Coq Require Import ZArith List Bool Lia ZifyBool Arith.
From Val Require Import Gen.ValidatorTbl Model.Bytes Model.Floats Model.Values Spec.ValSpec
  Proofs.BytesProofs Proofs.ValuesProofs.
Import ListNotations.
Open Scope Z_scope.

Lemma fold_max_ge_init : forall l x, x <= fold_left Z.max l x.
Proof. induction l; intros x; cbn [fold_left]; [lia|]. specialize (IHl (Z.max x a)). lia. Qed.
Lemma fold_max_ge_in : forall l x y, In y l -> y <= fold_left Z.max l x.
Proof.
  induction l; intros x y H; [contradiction|]. cbn [fold_left]. destruct H as [<-|H].
  - pose proof (fold_max_ge_init l (Z.max x a)). lia.
  - now apply IHl.
Qed.
Lemma fold_min_le_init : forall l x, fold_left Z.min l x <= x.
Proof. induction l; intros x; cbn [fold_left]; [lia|]. specialize (IHl (Z.min x a)). lia. Qed.
Lemma fold_min_le_in : forall l x y, In y l -> fold_left Z.min l x <= y.
Proof.
  induction l; intros x y H; [contradiction|]. cbn [fold_left]. destruct H as [<-|H].
  - pose proof (fold_min_le_init l (Z.min x a)). lia.
  - now apply IHl.
Qed.
Lemma zmax_list_ge : forall x l y, In y (x :: l) -> y <= zmax_list x l.
Proof. intros x l y [<-|H]; unfold zmax_list; [apply fold_max_ge_init|now apply fold_max_ge_in]. Qed.
Lemma zmin_list_le : forall x l y, In y (x :: l) -> zmin_list x l <= y.
Proof. intros x l y [<-|H]; unfold zmin_list; [apply fold_min_le_init|now apply fold_min_le_in]. Qed.

Lemma irec_ok_range : forall r, irec_ok r = true ->
  v_min r = c_lo (c_kind r) (c_width r) /\ v_max r = c_hi (c_kind r) (c_width r).
Proof. unfold irec_ok. intros. lia. Qed.

Lemma slice_full : forall n, slice_indices (Z.of_nat n) None None None = Some (0, 1, n).
Proof.
  intros n. unfold slice_indices, clamp_start, clamp_stop. cbn [Z.eqb Z.ltb Z.compare].
  destruct (0 <? Z.of_nat n) eqn:E.
  - rewrite Z.div_1_r. do 2 f_equal. lia.
  - do 2 f_equal. lia.
Qed.

Lemma slice_len_attr : forall n, slice_len n (KSlice None None None) = Some n.
Proof. intros. unfold slice_len. now rewrite slice_full. Qed.

(* integer-like sequences *)
Lemma int_many_refuse : forall (guard : Z -> Z -> Z -> Z -> bool) ck cw vmin vmax items,
  (forall mx mn, guard vmin vmax mx mn = (vmax <? mx) || (mn <? vmin)) ->
  vmin = c_lo ck cw -> vmax = c_hi ck cw ->
  existsb (ood_int ck cw) items = true ->
  (if negb (forallb is_intlike items) then Some ETypeError
   else match map int_of items with
        | [] => Some EValueError
        | z :: zs => if guard vmin vmax (zmax_list z zs) (zmin_list z zs) then Some EValueError else None
        end) <> None.
Proof.
  intros guard ck cw vmin vmax items Hg Hlo Hhi Hex.
  destruct (forallb is_intlike items) eqn:Ef; cbn [negb]; [|discriminate].
  apply existsb_exists in Hex as (x & Hin & Hx).
  destruct (map int_of items) as [|z zs] eqn:Em; [discriminate|].
  assert (Hinz : In (int_of x) (z :: zs)) by (rewrite <- Em; now apply in_map).
  pose proof (zmax_list_ge _ _ _ Hinz). pose proof (zmin_list_le _ _ _ Hinz).
  rewrite forallb_forall in Ef. specialize (Ef x Hin).
  unfold ood_int in Hx. rewrite Ef in Hx. cbn [negb orb] in Hx.
  rewrite Hg. subst vmin vmax.
  destruct ((c_hi ck cw <? zmax_list z zs) || (zmin_list z zs <? c_lo ck cw)) eqn:E; [discriminate|]. lia.
Qed.

Lemma int_one_refuse : forall r v, irec_ok r = true -> ood_int (c_kind r) (c_width r) v = true ->
  int_validate_one r v <> None.
Proof.
  intros r v Hr H. unfold int_validate_one, ood_int in *. apply irec_ok_range in Hr as [Hlo Hhi].
  destruct (is_cinst (c_kind r) (c_width r) v); [discriminate|]. cbn [negb andb] in H.
  destruct (is_intlike v); cbn [negb]; [|discriminate]. cbn [orb] in H.
  unfold guard_int_one. rewrite Hlo, Hhi.
  destruct (negb ((c_lo (c_kind r) (c_width r) <=? int_of v) && (int_of v <=? c_hi (c_kind r) (c_width r)))) eqn:E;
    [discriminate|]. lia.
Qed.

Lemma byte_one_refuse : forall r v, byte_irec_ok r = true -> ood_elem (EByte r) v = true ->
  byte_validate_one r v <> None.
Proof.
  intros r v Hr H. unfold byte_irec_ok in Hr. assert (Hr' : irec_ok r = true) by lia.
  apply irec_ok_range in Hr' as [Hlo Hhi]. unfold byte_validate_one. cbn [ood_elem] in H.
  destruct v; unfold ood_int in H; cbn [is_cinst is_intlike negb andb orb int_of] in H; try discriminate;
    try (destruct (same_ct _ _ _ _ _); discriminate).
  - unfold guard_byte_one. rewrite Hlo, Hhi. cbn [is_cinst int_of].
    destruct (negb ((c_lo (c_kind r) (c_width r) <=? z) && (z <=? c_hi (c_kind r) (c_width r)))) eqn:E; [discriminate|]. lia.
  - unfold guard_byte_one. rewrite Hlo, Hhi. cbn [is_cinst int_of].
    destruct (negb ((c_lo (c_kind r) (c_width r) <=? Z.b2z b) && (Z.b2z b <=? c_hi (c_kind r) (c_width r)))) eqn:E; [discriminate|]. lia.
  - cbn [is_cinst]. unfold guard_byte_len. destruct (negb (Z.of_nat (length bs) =? 1)) eqn:E; [discriminate|]. lia.
  - cbn [is_cinst]. destruct (same_ct (c_kind r) (c_width r) ck cw raw); [discriminate|discriminate].
Qed.

Lemma string_refuse : forall n v, ood_string (n - 1) v = true -> string_validate_one n v <> None.
Proof.
  intros n v H. unfold string_validate_one, ood_string in *. destruct v; try discriminate.
  unfold guard_string_len.
  destruct (Z.of_nat n - 1 <? Z.of_nat (length cs)) eqn:E; [discriminate|].
  destruct (all_ascii cs); cbn [negb] in *; [lia|discriminate].
Qed.

Lemma char_refuse : forall v, is_cinst 3 1 v = false -> ood_string 1 v = true -> char_validate_one v <> None.
Proof.
  intros v Hc H. unfold char_validate_one, ood_string in *. change (fst char_ctype) with 3. change (snd char_ctype) with 1.
  rewrite Hc. destruct v; try discriminate. unfold guard_char_len. change char_len with 1.
  destruct (1 <? Z.of_nat (length cs)) eqn:E; [discriminate|].
  destruct (all_ascii cs); cbn [negb] in *; [lia|discriminate].
Qed.

(* raising shapes of the ctypes array assignment *)
Lemma carr_idx_store_fails : forall st esz n off m i v e, st v = inl e ->
  fst (carr_assign st esz n off m (KIdx i) v) <> None.
Proof.
  intros. unfold carr_assign. destruct ((_ <? 0) || _); [discriminate|]. rewrite H. discriminate.
Qed.

Lemma carr_slice_noseq : forall st esz n off m a b c v, iter_items v = None ->
  fst (carr_assign st esz n off m (KSlice a b c) v) <> None.
Proof.
  intros. unfold carr_assign. destruct (slice_indices _ a b c) as [[[? ?] ?]|]; [|discriminate].
  rewrite H. discriminate.
Qed.

Lemma carr_slice_len : forall st esz n off m a b c v items len, iter_items v = Some items ->
  slice_len n (KSlice a b c) = Some len -> (length items =? len)%nat = false ->
  fst (carr_assign st esz n off m (KSlice a b c) v) <> None.
Proof.
  intros st esz n off m a b c v items len Hi Hs Hl. unfold carr_assign. unfold slice_len in Hs.
  destruct (slice_indices _ a b c) as [[[? ?] l]|]; [|discriminate]. inversion Hs; subst.
  rewrite Hi, Hl. discriminate.
Qed.

Lemma cstore_seq_fails : forall ck cw v, (ck <= 1 \/ ck = 2) ->
  match v with PList _ | PStr _ | PCArr _ _ _ _ | PArr _ _ _ | PSArr _ _ _ _ | PBytes _ | PNone | PStruct _ _ => True | _ => False end ->
  exists e, cstore ck cw v = inl e.
Proof.
  intros ck cw v Hk Hv. unfold cstore. destruct v; try contradiction;
    destruct (ck <=? 1) eqn:E1; try (eexists; reflexivity); destruct (ck =? 2) eqn:E; try (eexists; reflexivity); lia.
Qed.

Section Refuse.
  (* proved in Proofs/FloatArrayProofs.v *)
  Hypothesis HF_one : forall ct v, fct_ok ct = true -> ood_float ct v = true -> float_validate_one ct v <> None.
  Hypothesis HF_many : forall ct items, fct_ok ct = true ->
    existsb (ood_float ct) items = true -> float_validate_many ct items <> None.

  Lemma elem_one_refuse : forall e v, elem_ok e = true -> ood_elem e v = true -> elem_validate_one e v <> None.
  Proof.
    intros e v He H. destruct e; cbn [elem_ok elem_validate_one] in *.
    - now apply int_one_refuse.
    - now apply HF_one.
    - now apply byte_one_refuse.
  Qed.

  Lemma elem_ct_not_char : forall e, elem_ok e = true -> fst (elem_ct e) <= 1 \/ fst (elem_ct e) = 2.
  Proof.
    destruct e; cbn [elem_ok elem_ct fst]; unfold irec_ok, fct_ok, byte_irec_ok; intros; lia.
  Qed.

  (* element assignment a[i] = v *)
  Lemma arr_idx_refuse : forall e n off m i v, elem_ok e = true -> ood_elem e v = true ->
    fst (arr_setitem true e n off m (KIdx i) v) <> None.
  Proof.
    intros e n off m i v He H. unfold arr_setitem.
    destruct (iter_items v) as [items|] eqn:Ei.
    - destruct (elem_validate_many e v items); [discriminate|].
      (* a sequence stored into one element: the ctypes store fails *)
      assert (Hs : exists x, elem_store e (bytearray_conv e v) = inl x).
      { unfold elem_store. pose proof (elem_ct_not_char e He) as Hk.
        destruct v; try discriminate Ei.
        - apply cstore_seq_fails; auto. destruct e; exact I.
        - destruct e; cbn [bytearray_conv]; try (apply cstore_seq_fails; auto; exact I).
          cbn [ood_elem] in H. destruct bs as [|b [|b2 bs]]; cbn [length Nat.eqb negb] in H; try discriminate;
            apply cstore_seq_fails; auto; exact I.
        - apply cstore_seq_fails; auto. destruct e; exact I.
        - apply cstore_seq_fails; auto. destruct e; exact I.
        - apply cstore_seq_fails; auto. destruct e; exact I.
        - apply cstore_seq_fails; auto. destruct e; exact I. }
      destruct Hs as [x Hs]. eapply carr_idx_store_fails; eauto.
    - pose proof (elem_one_refuse e v He H). destruct (elem_validate_one e v); [discriminate|congruence].
  Qed.

  Lemma elem_many_refuse : forall e v items, elem_ok e = true ->
    iter_items v = Some items -> (forall bs, v <> PBytes bs) \/ (forall r, e <> EByte r) ->
    existsb (ood_elem e) items = true -> elem_validate_many e v items <> None.
  Proof.
    intros e v items He Hi Hnb Hex. destruct e as [vid r|vid ct|r]; cbn [elem_validate_many elem_ok] in *.
    - apply irec_ok_range in He as [Hlo Hhi]. unfold int_validate_many.
      eapply int_many_refuse; eauto; try (intros; reflexivity).
    - apply HF_many; auto.
    - unfold byte_irec_ok in He. assert (Hr : irec_ok r = true) by lia. apply irec_ok_range in Hr as [Hlo Hhi].
      unfold byte_validate_many.
      destruct v; try (destruct Hnb as [Hnb|Hnb]; [exfalso; eapply Hnb; reflexivity|exfalso; eapply Hnb; reflexivity]);
        try discriminate Hi;
        (eapply int_many_refuse; eauto; try (intros; reflexivity));
        (* items that are bytes objects are not int-like: ood either way *)
        apply existsb_exists in Hex as (x & Hin & Hxx); apply existsb_exists; exists x; split; auto;
        cbn [ood_elem] in Hxx; destruct x; auto; unfold ood_int; cbn [is_cinst is_intlike negb andb orb]; reflexivity.
  Qed.

  (* slice / whole-array assignment of a sequence *)
  Lemma arr_seq_refuse : forall e n off m a b c v, elem_ok e = true ->
    (forall bs, v <> PBytes bs) \/ (forall r, e <> EByte r) ->
    ood_seq (ood_elem e) n (KSlice a b c) v = true ->
    fst (arr_setitem true e n off m (KSlice a b c) v) <> None.
  Proof.
    intros e n off m a b c v He Hnb H. unfold ood_seq in H.
    destruct (slice_len n (KSlice a b c)) as [len|] eqn:Es; [|discriminate].
    assert (Hconv : bytearray_conv e v = v).
    { destruct e; try reflexivity. destruct v; try reflexivity.
      destruct Hnb as [Hnb|Hnb]; [exfalso; eapply Hnb; reflexivity|exfalso; eapply Hnb; reflexivity]. }
    unfold arr_setitem. rewrite Hconv.
    destruct (iter_items v) as [items|] eqn:Ei.
    - destruct (elem_validate_many e v items) eqn:Ev; [discriminate|].
      apply orb_true_iff in H as [H|H].
      + eapply carr_slice_len; eauto. now apply negb_true_iff in H.
      + exfalso. eapply elem_many_refuse; eauto.
    - destruct (elem_validate_one e v); [discriminate|]. now apply carr_slice_noseq.
  Qed.

  Lemma sarr_seq_refuse : forall cls esz n off m a b c v,
    ood_seq (fun x => negb (is_struct cls esz x)) n (KSlice a b c) v = true ->
    fst (sarr_setitem true cls esz n off m (KSlice a b c) v) <> None.
  Proof.
    intros cls esz n off m a b c v H. unfold ood_seq in H.
    destruct (slice_len n (KSlice a b c)) as [len|] eqn:Es; [|discriminate].
    unfold sarr_setitem. destruct (iter_items v) as [items|] eqn:Ei.
    - unfold struct_validate_many. destruct (forallb (is_struct cls esz) items) eqn:Ef; [|discriminate].
      apply orb_true_iff in H as [H|H].
      + eapply carr_slice_len; eauto. now apply negb_true_iff in H.
      + exfalso. apply existsb_exists in H as (x & Hin & Hx). rewrite forallb_forall in Ef.
        rewrite (Ef x Hin) in Hx. discriminate.
    - destruct (struct_validate_one cls esz v); [discriminate|]. now apply carr_slice_noseq.
  Qed.

  Lemma ood_seq_attr : forall (o : pyval -> bool) n v,
    ood_seq o n KAttr v = ood_seq o n (KSlice None None None) v.
  Proof. intros. unfold ood_seq. rewrite slice_len_attr. reflexivity. Qed.

  Theorem set_refuse : forall f k m v, ftype_ok (f_ty f) = true ->
    out_of_domain (f_ty f) k v = true -> fst (set true f k m v) <> None.
  Proof.
    intros f k m v Hok H. unfold set.
    destruct (f_ty f) as [r|ct|r| |n|e n|cls size|cls esz n] eqn:Et; cbn [ftype_ok out_of_domain] in *.
    - destruct k; try discriminate. pose proof (int_one_refuse r v Hok H).
      destruct (int_validate_one r v); [discriminate|congruence].
    - destruct k; try discriminate. pose proof (HF_one ct v Hok H).
      destruct (float_validate_one ct v); [discriminate|congruence].
    - destruct k; try discriminate. pose proof (byte_one_refuse r v Hok H).
      destruct (byte_validate_one r v); [discriminate|congruence].
    - destruct k; try discriminate. apply andb_true_iff in H as [H1 H2]. apply negb_true_iff in H1.
      change (fst char_ctype) with 3. change (snd char_ctype) with 1. rewrite H1.
      pose proof (char_refuse v H1 H2). destruct (char_validate_one v); [discriminate|congruence].
    - destruct k; try discriminate. pose proof (string_refuse n v H).
      destruct (is_chararr n v); [discriminate|].
      destruct (string_validate_one n v); [discriminate|congruence].
    - destruct k as [|i|a b c].
      + (* whole-array assignment *)
        destruct v; try discriminate H;
          try (rewrite ood_seq_attr in H; apply arr_seq_refuse; auto; left; intros; discriminate).
        destruct e as [vid r|vid ct|r];
          try (rewrite ood_seq_attr in H; apply arr_seq_refuse; auto; right; intros; discriminate).
        (* ByteArray = bytes of the wrong length *)
        cbn [slice_len] in H. apply negb_true_iff in H.
        unfold arr_setitem. cbn [iter_items elem_validate_many byte_validate_many].
        destruct bs as [|b0 [|b1 bs]]; cbn [bytearray_conv].
        * eapply carr_slice_len; [reflexivity|apply slice_len_attr|exact H].
        * apply carr_slice_noseq. reflexivity.
        * eapply carr_slice_len; [reflexivity|apply slice_len_attr|]. cbn [iter_items]. now rewrite map_length.
      + apply andb_true_iff in H as [_ H]. now apply arr_idx_refuse.
      + destruct v; try discriminate H;
          try (apply arr_seq_refuse; auto; left; intros; discriminate).
        destruct e as [vid r|vid ct|r];
          try (apply arr_seq_refuse; auto; right; intros; discriminate).
        destruct (slice_len n (KSlice a b c)) as [len|] eqn:Es; [|discriminate]. apply negb_true_iff in H.
        unfold arr_setitem. cbn [iter_items elem_validate_many byte_validate_many].
        destruct bs as [|b0 [|b1 bs]]; cbn [bytearray_conv].
        * eapply carr_slice_len; [reflexivity|exact Es|exact H].
        * apply carr_slice_noseq. reflexivity.
        * eapply carr_slice_len; [reflexivity|exact Es|]. cbn [iter_items]. now rewrite map_length.
    - destruct k; try discriminate. apply negb_true_iff in H. unfold struct_validate_one. rewrite H. discriminate.
    - destruct k as [|i|a b c].
      + destruct v; try (rewrite ood_seq_attr in H; now apply sarr_seq_refuse).
        apply orb_true_iff in H as [H|H]; apply negb_true_iff in H; rewrite H; cbn [negb]; [discriminate|].
        destruct (negb (cls =? cls0)); discriminate.
      + apply andb_true_iff in H as [_ H]. apply negb_true_iff in H.
        unfold sarr_setitem. destruct (iter_items v) as [items|] eqn:Ei.
        * destruct (struct_validate_many cls esz items); [discriminate|].
          assert (Hs : exists x, cstore_struct cls esz v = inl x).
          { unfold cstore_struct. destruct v; try (eexists; reflexivity). unfold is_struct in H. rewrite H. eexists; reflexivity. }
          destruct Hs as [x Hs]. eapply carr_idx_store_fails; eauto.
        * unfold struct_validate_one. rewrite H. discriminate.
      + now apply sarr_seq_refuse.
  Qed.
End Refuse.
