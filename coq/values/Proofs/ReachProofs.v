(* C10, first half: every image reachable through the validated field API (Spec/CodecSpec.v: reach)
   satisfies the invariant reach_inv (right length, bytes only, no infinity in a float leaf, binary32 NaNs
   quiet, Char/String leaves ASCII, String leaves NUL-terminated, padding bytes zero) and has clean strings
   (nothing but zeros after the first NUL of a char array: the String descriptor clears the array before a
   shorter value is stored).  validate_many converts and tests every element of a float sequence, so every
   stored element was itself found not infinite. *)
From Coq Require Import ZArith List Bool Lia ZifyBool Arith.
From Val Require Import Gen.ValidatorTbl Model.Bytes Model.Floats Model.Values Model.Codec Spec.ValSpec Spec.CodecSpec
  Proofs.BytesProofs Proofs.ValuesProofs Proofs.RefuseProofs Proofs.ReadbackProofs Proofs.XnumProofs Proofs.FloatProofs
  Proofs.FloatArrayProofs.
Import ListNotations.
Open Scope Z_scope.

(* ------------------------------------------------------------------ *)
(* floats: what a validated store writes                                *)

(* every element of a validated float sequence is stored without producing an infinity *)
Lemma float_item_ok : forall ct items y b,
  float_validate_many ct items = None -> In y items -> num_to_f64 y = inr b ->
  (if snd ct =? 4 then f32_is_inf (narrow_bits b) else f64_is_inf b) = false.
Proof.
  intros ct items y b Hv Hin Hb. pose proof (validate_many_all ct items y Hv Hin) as Hc.
  unfold float_isinf_conv in Hc. rewrite Hb in Hc. now inversion Hc.
Qed.

(* a narrowed NaN is quiet *)
Lemma narrow_nan_quiet : forall b, f64_is_nan b = true -> 4194304 <= f32_man (narrow_bits b).
Proof.
  intros b H. rewrite (narrow_nan_form b H).
  pose proof (Z.mod_pos_bound (f64_man b / 536870912) 4194304 eq_refl) as Hq.
  set (q := (f64_man b / 536870912) mod 4194304) in *. clearbody q.
  unfold f32_man, two32, two31.
  replace ((if f64_sign b then 2147483648 else 0) + 2143289344 + q)
    with (4194304 + q + (if f64_sign b then 511 else 255) * 8388608) by (destruct (f64_sign b); ring).
  rewrite (Z.mod_small (4194304 + q + _ * 8388608)) by (destruct (f64_sign b); lia).
  rewrite Z.mod_add, Z.mod_small by lia. lia.
Qed.

Lemma f64_is_inf_mod : forall b, f64_is_inf (b mod 18446744073709551616) = f64_is_inf b.
Proof. intros b. unfold f64_is_inf, f64_exp, f64_man, two64. now rewrite Z.mod_mod. Qed.

Lemma float_bytes_inv : forall vid ct b, fct_ok ct = true ->
  (if snd ct =? 4 then f32_is_inf (narrow_bits b) else f64_is_inf b) = false ->
  elem_inv (EFloat vid ct) (float_bytes (snd ct) b) = true.
Proof.
  intros vid ct b Hct H. cbn [elem_inv]. unfold float_bytes. destruct (snd ct =? 4) eqn:E4.
  - rewrite le_decode_encode. change (2 ^ (8 * Z.of_nat 4)) with (2 ^ 32).
    rewrite Z.mod_small by apply narrow_bits_range. rewrite H. cbn [negb andb].
    unfold f32_quiet_or_num. destruct (f32_is_nan (narrow_bits b)) eqn:En; [|reflexivity]. cbn [negb orb].
    destruct (f64_is_nan b) eqn:En64.
    + pose proof (narrow_nan_quiet b En64). lia.
    + rewrite (narrow_not_nan b En64) in En. discriminate.
  - rewrite le_decode_encode. change (2 ^ (8 * Z.of_nat 8)) with 18446744073709551616.
    rewrite f64_is_inf_mod, H. reflexivity.
Qed.

(* ------------------------------------------------------------------ *)
(* lists of bytes, splices, chunks                                      *)

Definition bytes (l : list Z) : Prop := Forall (fun b => 0 <= b < 256) l.

Lemma all_bytes_iff : forall l, all_bytes l = true <-> bytes l.
Proof.
  intros l. unfold all_bytes, bytes, byte_ok. rewrite forallb_forall, Forall_forall.
  split; intros H x Hx; specialize (H x Hx); lia.
Qed.

Lemma bytes_splice : forall m off bs, bytes m -> bytes bs -> bytes (splice m off bs).
Proof.
  unfold bytes, splice. intros m off bs Hm Hb.
  assert (Hf : forall n, Forall (fun b => 0 <= b < 256) (firstn n m) /\ Forall (fun b => 0 <= b < 256) (skipn n m)).
  { intros n. apply Forall_app. now rewrite firstn_skipn. }
  apply Forall_app. split; [apply Hf|]. apply Forall_app. split; [exact Hb|apply Hf].
Qed.

Lemma splice_nth_inside : forall m off bs j d, (off + length bs <= length m)%nat ->
  (off <= j < off + length bs)%nat -> nth j (splice m off bs) d = nth (j - off) bs d.
Proof.
  intros m off bs j d Hl Hj. unfold splice.
  rewrite app_nth2 by (rewrite firstn_length; lia). rewrite firstn_length.
  replace (Nat.min off (length m)) with off by lia. apply app_nth1. lia.
Qed.

Lemma frame_sub : forall off size m m' o n, frame off size m m' -> (o + n <= length m)%nat ->
  (o + n <= off \/ off + size <= o)%nat -> sub m' o n = sub m o n.
Proof.
  intros off size m m' o n [Hl Hf] Hb Hd. apply nth_ext_eq.
  - rewrite !sub_length; lia.
  - intros j Hj. rewrite sub_length in Hj by lia. rewrite !sub_nth by lia. apply Hf. lia.
Qed.

Lemma skipn_skipn' : forall (A : Type) (a b : nat) (l : list A), skipn a (skipn b l) = skipn (b + a) l.
Proof.
  intros A a b. induction b; intros l; [reflexivity|]. destruct l; [now rewrite !skipn_nil|].
  cbn [skipn Nat.add]. apply IHb.
Qed.

Lemma chunks_skipn : forall esz n bs,
  chunks esz n bs = map (fun p => firstn esz (skipn (p * esz) bs)) (seq 0 n).
Proof.
  intros esz n. induction n; intros bs; cbn [chunks seq map]; [reflexivity|]. f_equal.
  rewrite IHn, <- seq_shift, map_map. apply map_ext. intros p.
  rewrite skipn_skipn'. reflexivity.
Qed.

Lemma chunks_sub : forall esz n m off, (off + n * esz <= length m)%nat ->
  chunks esz n (sub m off (n * esz)) = map (fun p => sub m (off + p * esz) esz) (seq 0 n).
Proof.
  intros esz n m off H. rewrite chunks_skipn. apply map_ext_in. intros p Hp. apply in_seq in Hp.
  unfold sub. rewrite skipn_firstn_comm, firstn_firstn, skipn_skipn'.
  f_equal. assert (p * esz + esz <= n * esz)%nat by nia. lia.
Qed.

Lemma arr_inv_iff : forall e n m off, (off + n * elem_size e <= length m)%nat ->
  (forallb (elem_inv e) (chunks (elem_size e) n (sub m off (n * elem_size e))) = true <->
   forall p, (p < n)%nat -> elem_inv e (sub m (off + p * elem_size e) (elem_size e)) = true).
Proof.
  intros e n m off H. rewrite chunks_sub by exact H. rewrite forallb_forall. split.
  - intros Hf p Hp. apply Hf. apply in_map_iff. exists p. split; [reflexivity|]. apply in_seq. lia.
  - intros Hf x Hx. apply in_map_iff in Hx as (p & <- & Hp). apply in_seq in Hp. apply Hf. lia.
Qed.

Lemma all_ascii_sub : forall m off n, (off + n <= length m)%nat ->
  (all_ascii (sub m off n) = true <-> forall j, (j < n)%nat -> 0 <= nth (off + j) m 0 < 128).
Proof.
  intros m off n H. unfold all_ascii. rewrite forallb_forall. split.
  - intros Hf j Hj. rewrite <- sub_nth with (n := n) by lia.
    assert (Hin : In (nth j (sub m off n) 0) (sub m off n)) by (apply nth_In; rewrite sub_length; lia).
    specialize (Hf _ Hin). lia.
  - intros Hf x Hx. destruct (In_nth _ _ 0 Hx) as (j & Hj & <-). rewrite sub_length in Hj by lia.
    rewrite sub_nth by lia. specialize (Hf j Hj). lia.
Qed.

Lemma last_nth' : forall (l : list Z), last l 0 = nth (length l - 1) l 0.
Proof.
  induction l as [|a [|b l] IH]; try reflexivity.
  change (last (a :: b :: l) 0) with (last (b :: l) 0). rewrite IH. cbn [length nth Nat.sub]. now rewrite Nat.sub_0_r.
Qed.

Lemma last_sub : forall m off n, (1 <= n)%nat -> (off + n <= length m)%nat ->
  last (sub m off n) 0 = nth (off + n - 1) m 0.
Proof.
  intros m off n Hn H. rewrite last_nth', sub_length by lia. rewrite sub_nth by lia. f_equal. lia.
Qed.

Lemma sub_repeat : forall size off n, (off + n <= size)%nat -> sub (repeat 0 size) off n = repeat 0 n.
Proof.
  intros size off n H. apply nth_ext_eq.
  - rewrite sub_length, repeat_length by (rewrite repeat_length; lia). reflexivity.
  - intros j Hj. rewrite sub_length in Hj by (rewrite repeat_length; lia).
    rewrite sub_nth by (rewrite ?repeat_length; lia). now rewrite !nth_repeat.
Qed.

Lemma le_decode_zeros : forall n, le_decode (repeat 0 n) = 0.
Proof. induction n; cbn [repeat le_decode]; [reflexivity|]. rewrite IHn. reflexivity. Qed.

Lemma all_ascii_zeros : forall n, all_ascii (repeat 0 n) = true.
Proof. induction n; cbn; auto. Qed.

Lemma last_zeros : forall n, last (repeat 0 n) 0 = 0.
Proof. intros n. rewrite last_nth'. apply nth_repeat. Qed.

Lemma elem_inv_zeros : forall e n, elem_inv e (repeat 0 n) = true.
Proof. intros [vid r|vid ct|r] n; cbn [elem_inv]; try reflexivity. rewrite le_decode_zeros. destruct (snd ct =? 4); reflexivity. Qed.

(* ------------------------------------------------------------------ *)
(* layouts                                                              *)

Lemma layout_in : forall size leaves f, layout_ok size leaves = true -> In f leaves ->
  leaf_ty_ok (f_ty f) = true /\ (f_end f <= size)%nat.
Proof.
  intros size leaves f. induction leaves as [|g r IH]; intros H Hin; [contradiction|].
  cbn [layout_ok] in H. unfold in_bounds in H. destruct Hin as [->|Hin].
  - split; lia.
  - apply IH; [lia|exact Hin].
Qed.

Lemma layout_pair : forall size leaves f g, layout_ok size leaves = true -> In f leaves -> In g leaves ->
  f = g \/ (f_end f <= f_off g)%nat \/ (f_end g <= f_off f)%nat.
Proof.
  intros size leaves f g. induction leaves as [|h r IH]; intros H Hf Hg; [contradiction|].
  cbn [layout_ok] in H.
  assert (Hd : disjoint_from h r = true) by lia. unfold disjoint_from in Hd. rewrite forallb_forall in Hd.
  destruct Hf as [->|Hf], Hg as [->|Hg].
  - now left.
  - right. specialize (Hd g Hg). lia.
  - right. specialize (Hd f Hf). lia.
  - apply IH; [lia|exact Hf|exact Hg].
Qed.

Lemma leaf_ty_ftype_ok : forall t, leaf_ty_ok t = true -> ftype_ok t = true.
Proof. destruct t; cbn [leaf_ty_ok ftype_ok]; auto. destruct e; cbn [elem_ok]; intros; lia. Qed.

Lemma leaf_arr_elem_ok : forall e n, leaf_ty_ok (TArr e n) = true -> elem_ok e = true.
Proof. destruct e; cbn [leaf_ty_ok elem_ok]; intros; lia. Qed.

Lemma leaf_inv_zeros : forall t, leaf_ty_ok t = true -> leaf_inv t (repeat 0 (fsize t)) = true.
Proof.
  intros t Ht. destruct t; cbn [leaf_inv]; try reflexivity.
  - apply elem_inv_zeros.
  - rewrite all_ascii_zeros, last_zeros. reflexivity.
  - cbn [fsize]. rewrite chunks_skipn. rewrite forallb_forall. intros x Hx.
    apply in_map_iff in Hx as (p & <- & Hp). apply in_seq in Hp.
    replace (firstn (elem_size e) (skipn (p * elem_size e) (repeat 0 (n * elem_size e))))
      with (sub (repeat 0 (n * elem_size e)) (p * elem_size e) (elem_size e)) by reflexivity.
    rewrite sub_repeat by nia. apply elem_inv_zeros.
Qed.

(* ------------------------------------------------------------------ *)
(* an invariant of the image is kept by an array write when every single element store keeps it *)

Definition src (v x : pyval) : Prop := x = v \/ exists items, iter_items v = Some items /\ In x items.

Lemma write_items_ind : forall st esz off (R : list Z -> Prop) (Pp : Z -> Prop) (S : pyval -> Prop),
  (forall m p x bs, R m -> Pp p -> S x -> st x = inr bs -> R (splice m (off + Z.to_nat p * esz) bs)) ->
  forall ps items m, Forall Pp ps -> Forall S items -> R m -> R (snd (write_items st esz off m ps items)).
Proof.
  intros st esz off R Pp S Hstep. induction ps as [|p ps IH]; intros items m Hps Hit Hm; cbn [write_items]; [exact Hm|].
  destruct items as [|x items]; [exact Hm|]. destruct (st x) as [e|bs] eqn:E; [exact Hm|].
  inversion Hps; inversion Hit; subst. apply IH; auto. eapply Hstep; eauto.
Qed.

Lemma carr_assign_ind : forall st esz n off (R : list Z -> Prop) k v,
  (forall m p x bs, R m -> 0 <= p < Z.of_nat n -> src v x -> st x = inr bs ->
                    R (splice m (off + Z.to_nat p * esz) bs)) ->
  forall m, R m -> R (snd (carr_assign st esz n off m k v)).
Proof.
  intros st esz n off R k v Hstep m Hm. unfold carr_assign. destruct k as [|i|a b c]; [exact Hm| |].
  - set (i' := if i <? 0 then i + Z.of_nat n else i).
    destruct ((i' <? 0) || (Z.of_nat n <=? i')) eqn:E; [exact Hm|].
    destruct (st v) as [e|bs] eqn:Es; [exact Hm|]. cbn [snd].
    eapply Hstep; eauto; [lia|now left].
  - destruct (slice_indices (Z.of_nat n) a b c) as [[[start step] len]|] eqn:Es; [|exact Hm].
    destruct (iter_items v) as [items|] eqn:Ei; [|exact Hm].
    destruct (negb (length items =? len)%nat); [exact Hm|].
    apply write_items_ind with (Pp := fun p => 0 <= p < Z.of_nat n) (S := src v); auto.
    + apply slice_positions_bounds in Es; [tauto|lia].
    + apply Forall_forall. intros x Hx. right. exists items. auto.
Qed.

(* ------------------------------------------------------------------ *)
(* plain values                                                         *)

Lemma plain_not_cinst : forall ck cw v, plain v = true -> is_cinst ck cw v = false.
Proof. destruct v; cbn [plain is_cinst]; try reflexivity; discriminate. Qed.

Lemma iter_items_plain : forall v items, plain v = true -> iter_items v = Some items -> Forall (fun x => plain x = true) items.
Proof.
  intros v items Hp Hi. destruct v; cbn [iter_items plain] in *; try discriminate; inversion Hi; subst.
  - apply Forall_forall. intros x Hx. apply in_map_iff in Hx as (c & <- & _). reflexivity.
  - apply Forall_forall. intros x Hx. apply in_map_iff in Hx as (c & <- & _). reflexivity.
  - apply Forall_forall. rewrite forallb_forall in Hp. exact Hp.
Qed.

Lemma src_plain : forall v x, plain v = true -> src v x -> plain x = true.
Proof.
  intros v x Hp [->|(items & Hi & Hin)]; [exact Hp|].
  pose proof (iter_items_plain v items Hp Hi) as Hf. rewrite Forall_forall in Hf. now apply Hf.
Qed.

Lemma bytearray_conv_plain : forall e v, plain v = true -> plain (bytearray_conv e v) = true.
Proof.
  intros e v Hp. destruct e; cbn [bytearray_conv]; try (destruct v; exact Hp).
  destruct v; try exact Hp. destruct bs as [|b [|b' bs]]; cbn [plain]; try reflexivity.
  apply forallb_forall. intros x Hx. change (PInt b :: PInt b' :: map PInt bs) with (map PInt (b :: b' :: bs)) in Hx.
  apply in_map_iff in Hx as (c & <- & _). reflexivity.
Qed.

Lemma float_bytes_bytes : forall cw b, bytes (float_bytes cw b).
Proof. intros. unfold float_bytes. destruct (cw =? 4); apply le_encode_bytes. Qed.

Lemma cstore_bytes : forall ck cw v bs, plain v = true -> cstore ck cw v = inr bs -> bytes bs.
Proof.
  intros ck cw v bs Hp H. unfold cstore in H.
  destruct v; try discriminate Hp; destruct (ck <=? 1); try discriminate H;
    try (inversion H; subst; apply le_encode_bytes);
    destruct (ck =? 2); try discriminate H;
    try (destruct (num_to_f64 _) eqn:En in H; [discriminate H|inversion H; subst; apply float_bytes_bytes]).
  destruct bs0 as [|b0 [|b1 r0]]; try discriminate H. inversion H; subst. apply all_bytes_iff. exact Hp.
Qed.

Lemma cstore_float : forall cw v, plain v = true ->
  cstore 2 cw v = match num_to_f64 v with inr b => inr (float_bytes cw b) | inl e => inl e end.
Proof. intros cw v Hp. destruct v; try discriminate Hp; reflexivity. Qed.

Lemma ok_or_cases : forall m off r, snd (ok_or m off r) = m \/ exists bs, r = inr bs /\ snd (ok_or m off r) = splice m off bs.
Proof. intros m off [e|bs]; cbn [ok_or snd]; [now left|right; eauto]. Qed.

(* ------------------------------------------------------------------ *)
(* scalar float                                                         *)

Lemma float_one_ok : forall vid ct v bs, fct_ok ct = true -> plain v = true ->
  float_validate_one ct v = None -> cstore (fst ct) (snd ct) v = inr bs -> elem_inv (EFloat vid ct) bs = true.
Proof.
  intros vid ct v bs Hct Hp Hv Hs.
  assert (Hk : fst ct = 2) by (unfold fct_ok in Hct; lia). rewrite Hk, cstore_float in Hs by exact Hp.
  unfold float_validate_one in Hv. rewrite plain_not_cinst in Hv by exact Hp.
  assert (Hc : float_isinf_conv (snd ct) v = inr false).
  { destruct v; try discriminate Hv; destruct (float_isinf_conv (snd ct) _) as [e|[|]]; try discriminate Hv; reflexivity. }
  unfold float_isinf_conv in Hc. destruct (num_to_f64 v) as [e|b]; [discriminate|].
  inversion Hs; subst bs. apply float_bytes_inv; [exact Hct|]. now inversion Hc.
Qed.

(* ------------------------------------------------------------------ *)
(* array elements                                                       *)

Lemma arr_item_ok : forall e v x bs, elem_ok e = true -> plain v = true ->
  match iter_items v with Some its => elem_validate_many e v its | None => elem_validate_one e v end = None ->
  src (bytearray_conv e v) x -> elem_store e x = inr bs -> bytes bs /\ elem_inv e bs = true.
Proof.
  intros e v x bs He Hp Hv Hsrc Hs.
  assert (Hpx : plain x = true) by (eapply src_plain; [apply bytearray_conv_plain; exact Hp|exact Hsrc]).
  split; [unfold elem_store in Hs; eapply cstore_bytes; eauto|].
  destruct e as [vid r|vid ct|r]; try reflexivity.
  cbn [elem_ok bytearray_conv] in *.
  replace (match v with _ => v end) with v in Hsrc by (destruct v; reflexivity).
  unfold elem_store in Hs. cbn [elem_ct fst snd] in Hs.
  destruct Hsrc as [->|(items & Hi & Hin)].
  - destruct (iter_items v) as [its|] eqn:Ei.
    + exfalso. assert (Hk : fst ct = 2) by (unfold fct_ok in He; lia).
      rewrite Hk, cstore_float in Hs by exact Hp.
      destruct v; try discriminate Ei; try discriminate Hp; discriminate Hs.
    + cbn [elem_validate_one] in Hv. eapply float_one_ok; eauto.
  - rewrite Hi in Hv. cbn [elem_validate_many] in Hv.
    assert (Hk : fst ct = 2) by (unfold fct_ok in He; lia).
    rewrite Hk, cstore_float in Hs by exact Hpx.
    destruct (num_to_f64 x) as [err|b] eqn:En; [discriminate|]. inversion Hs; subst bs.
    apply float_bytes_inv; [exact He|]. eapply float_item_ok; eauto.
Qed.

Lemma arr_local : forall e n off m k v, elem_ok e = true -> (off + n * elem_size e <= length m)%nat ->
  plain v = true -> bytes m ->
  (forall p, (p < n)%nat -> elem_inv e (sub m (off + p * elem_size e) (elem_size e)) = true) ->
  bytes (snd (arr_setitem true e n off m k v)) /\
  (forall p, (p < n)%nat ->
     elem_inv e (sub (snd (arr_setitem true e n off m k v)) (off + p * elem_size e) (elem_size e)) = true).
Proof.
  intros e n off m k v He Hm Hp Hb Hinv. unfold arr_setitem.
  destruct (match iter_items v with Some items => elem_validate_many e v items | None => elem_validate_one e v end) eqn:Ev;
    [cbn [snd]; auto|].
  set (esz := elem_size e) in *.
  pose (R := fun m0 : list Z => length m0 = length m /\ bytes m0 /\
                forall p, (p < n)%nat -> elem_inv e (sub m0 (off + p * esz) esz) = true).
  assert (HR : R (snd (carr_assign (elem_store e) esz n off m k (bytearray_conv e v)))).
  { apply carr_assign_ind; [|unfold R; auto].
    intros m0 p x bs (Hl0 & Hb0 & Hi0) Hpr Hsrc Hs.
    destruct (arr_item_ok e v x bs He Hp Ev Hsrc Hs) as [Hbb Hbi].
    pose proof (elem_store_length e x bs He Hs) as Hlen. fold esz in Hlen.
    assert (Hq : (Z.to_nat p * esz + esz <= n * esz)%nat) by nia.
    split; [|split].
    - rewrite splice_length; lia.
    - now apply bytes_splice.
    - intros q Hq'. destruct (Nat.eq_dec q (Z.to_nat p)) as [->|Hne].
      + rewrite <- Hlen. rewrite sub_splice_same by lia. exact Hbi.
      + rewrite sub_splice_disjoint; [now apply Hi0|lia|nia|].
        destruct (Nat.lt_ge_cases q (Z.to_nat p)); [left|right]; nia. }
  destruct HR as (_ & H1 & H2). auto.
Qed.

(* ------------------------------------------------------------------ *)
(* strings                                                              *)

Lemma ascii_bytes : forall cs, all_ascii cs = true -> bytes cs.
Proof.
  intros cs H. unfold all_ascii in H. rewrite forallb_forall in H. apply Forall_forall.
  intros x Hx. specialize (H x Hx). lia.
Qed.

Lemma bytes_zeros : forall n, bytes (repeat 0 n).
Proof. intros n. apply Forall_forall. intros x Hx. apply repeat_spec in Hx. lia. Qed.

Lemma zl_eqb_refl : forall l, zl_eqb l l = true.
Proof. induction l; cbn [zl_eqb]; [reflexivity|]. rewrite Z.eqb_refl. exact IHl. Qed.

Lemma sub_splice_within : forall m off bs o k, (off + length bs <= length m)%nat ->
  (off <= o)%nat -> (o + k <= off + length bs)%nat -> sub (splice m off bs) o k = sub bs (o - off) k.
Proof.
  intros m off bs o k Hm Ho Hk. apply nth_ext_eq.
  - rewrite !sub_length; try lia. rewrite splice_length; lia.
  - intros j Hj. rewrite sub_length in Hj by (rewrite splice_length; lia).
    rewrite !sub_nth by (rewrite ?splice_length; lia).
    rewrite splice_nth_inside by lia. f_equal. lia.
Qed.

(* the sanitized extent: the string up to its first NUL, then zeros (at least one) *)
Definition sclean (t : ftype) (bs : list Z) : bool := match t with TString _ => string_clean bs | _ => true end.

Lemma string_clean_form : forall p k, Forall (fun c => c <> 0) p -> (1 <= k)%nat ->
  string_clean (p ++ repeat 0 k) = true.
Proof.
  intros p k Hp Hk. unfold string_clean.
  assert (Ht : take_until_nul (p ++ repeat 0 k) = p).
  { destruct k; [lia|]. cbn [repeat]. now apply take_until_nul_app_zero. }
  rewrite Ht. cbv zeta. rewrite skipn_app, skipn_all, Nat.sub_diag. cbn [skipn app].
  rewrite app_length, repeat_length. replace (length p + k - length p)%nat with k by lia. apply zl_eqb_refl.
Qed.

Lemma all_ascii_form : forall p k, all_ascii p = true -> all_ascii (p ++ repeat 0 k) = true.
Proof. intros p k Hp. unfold all_ascii in *. rewrite forallb_app, Hp. apply all_ascii_zeros. Qed.

Lemma last_form : forall p k, (1 <= k)%nat -> last (p ++ repeat 0 k) 0 = 0.
Proof.
  intros p k Hk. rewrite last_nth'. rewrite app_length, repeat_length.
  rewrite app_nth2 by lia. apply nth_repeat.
Qed.

(* the validated String store: clear when shorter, then copy up to the NUL and the NUL itself *)
Lemma string_extent : forall n off m cs, (1 <= n)%nat -> (off + n <= length m)%nat -> (length cs < n)%nat -> bytes m ->
  all_ascii cs = true ->
  let m0 := if (1 <? n)%nat && (length cs <? n)%nat then splice m off (repeat 0 n) else m in
  let m' := snd (ok_or m0 off (s_set n cs)) in
  bytes m' /\ sub m' off n = take_until_nul cs ++ repeat 0 (n - length (take_until_nul cs)).
Proof.
  intros n off m cs Hn Hm Hl Hb Ha m0 m'.
  pose proof (take_until_nul_length cs) as Hpl. pose proof (all_ascii_take cs Ha) as Hpa.
  assert (Hb0 : bytes m0).
  { subst m0. destruct ((1 <? n)%nat && (length cs <? n)%nat); [|exact Hb]. apply bytes_splice; [exact Hb|apply bytes_zeros]. }
  assert (Hl0 : length m0 = length m).
  { subst m0. destruct ((1 <? n)%nat && (length cs <? n)%nat); [|reflexivity].
    apply splice_length. rewrite repeat_length. exact Hm. }
  subst m'. unfold s_set. set (p := take_until_nul cs) in *.
  replace (length p <? n)%nat with true by lia. cbn [ok_or snd].
  assert (HL : length (p ++ [0]) = (length p + 1)%nat) by (rewrite app_length; reflexivity).
  assert (Hpz : bytes (p ++ [0])).
  { apply ascii_bytes. unfold all_ascii in *. rewrite forallb_app, Hpa. reflexivity. }
  split; [now apply bytes_splice|].
  rewrite sub_splice_prefix by lia. rewrite <- app_assoc. f_equal.
  replace (n - length p)%nat with (S (n - length (p ++ [0]))) by lia. cbn [repeat app]. f_equal.
  destruct (Nat.eq_dec n (length (p ++ [0]))) as [E|E].
  - rewrite <- E, Nat.sub_diag. reflexivity.
  - subst m0. replace ((1 <? n)%nat && (length cs <? n)%nat) with true by lia.
    rewrite sub_splice_within by (rewrite ?repeat_length; lia). apply sub_repeat. lia.
Qed.

Lemma cstore_char : forall cs, cstore 3 1 (PBytes cs) = match cs with [b] => inr [b] | _ => inl ETypeError end.
Proof. reflexivity. Qed.

(* ------------------------------------------------------------------ *)
(* one validated assignment: the image stays bytes, the assigned leaf keeps its invariant and stays clean *)

Lemma set_local : forall f k m v, leaf_ty_ok (f_ty f) = true -> (f_end f <= length m)%nat ->
  plain v = true -> bytes m -> leaf_inv (f_ty f) (extent f m) = true -> sclean (f_ty f) (extent f m) = true ->
  bytes (snd (set true f k m v)) /\ leaf_inv (f_ty f) (extent f (snd (set true f k m v))) = true /\
  sclean (f_ty f) (extent f (snd (set true f k m v))) = true.
Proof.
  intros f k m v Hty Hend Hp Hb Hinv Hcl. unfold f_end in Hend. unfold extent in *. unfold set.
  destruct (f_ty f) as [r|ct|r| |n|e n|cls size|cls esz n] eqn:Et; cbn [leaf_ty_ok leaf_inv fsize sclean] in *;
    try discriminate Hty.
  - (* TInt *)
    split; [|split; reflexivity]. destruct k; try exact Hb.
    destruct (int_validate_one r v); [exact Hb|].
    destruct (ok_or_cases m (f_off f) (cstore (c_kind r) (c_width r) v)) as [->|(bs & Hs & ->)]; [exact Hb|].
    apply bytes_splice; [exact Hb|]. eapply cstore_bytes; eauto.
  - (* TFloat *)
    destruct k; try (split; [exact Hb|split; [exact Hinv|reflexivity]]).
    destruct (float_validate_one ct v) eqn:Ev; [split; [exact Hb|split; [exact Hinv|reflexivity]]|].
    destruct (ok_or_cases m (f_off f) (cstore (fst ct) (snd ct) v)) as [->|(bs & Hs & ->)];
      [split; [exact Hb|split; [exact Hinv|reflexivity]]|].
    pose proof (cstore_length _ _ _ _ (fct_ok_ct ct Hty) Hs) as Hl.
    split; [apply bytes_splice; [exact Hb|]; eapply cstore_bytes; eauto|]. split; [|reflexivity].
    rewrite <- Hl. rewrite sub_splice_same by lia. eapply float_one_ok; eauto.
  - (* TByte *)
    split; [|split; reflexivity]. destruct k; try exact Hb.
    destruct (byte_validate_one r v); [exact Hb|].
    set (v' := match v with PBytes bs => PInt (le_decode bs) | _ => v end).
    assert (Hp' : plain v' = true) by (subst v'; destruct v; try exact Hp; reflexivity).
    destruct (ok_or_cases m (f_off f) (cstore (c_kind r) (c_width r) v')) as [->|(bs & Hs & ->)]; [exact Hb|].
    apply bytes_splice; [exact Hb|]. eapply cstore_bytes; eauto.
  - (* TChar *)
    destruct k; try (split; [exact Hb|split; [exact Hinv|reflexivity]]).
    rewrite plain_not_cinst by exact Hp.
    destruct (char_validate_one v) eqn:Ev; [split; [exact Hb|split; [exact Hinv|reflexivity]]|].
    unfold char_validate_one in Ev. rewrite plain_not_cinst in Ev by exact Hp.
    destruct v; try discriminate Ev. cbn [encode_ascii].
    destruct (guard_char_len char_len (Z.of_nat (length cs))); [discriminate|].
    destruct (all_ascii cs) eqn:Ea; cbn [negb] in Ev; [|discriminate].
    change (fst char_ctype) with 3. change (snd char_ctype) with 1. rewrite cstore_char.
    destruct cs as [|b0 [|b1 r0]]; cbn [ok_or snd]; try (split; [exact Hb|split; [exact Hinv|reflexivity]]).
    split; [apply bytes_splice; [exact Hb|now apply ascii_bytes]|]. split; [|reflexivity].
    change 1%nat with (length [b0]). rewrite sub_splice_same by (cbn [length]; lia). exact Ea.
  - (* TString *)
    destruct k; try (split; [exact Hb|split; [exact Hinv|exact Hcl]]).
    destruct (is_chararr n v); [split; [exact Hb|split; [exact Hinv|exact Hcl]]|].
    destruct (string_validate_one n v) eqn:Ev; [split; [exact Hb|split; [exact Hinv|exact Hcl]]|].
    unfold string_validate_one in Ev. destruct v; try discriminate Ev. cbn [encode_ascii].
    unfold guard_string_len in Ev. destruct (Z.of_nat n - 1 <? Z.of_nat (length cs)) eqn:El; [discriminate|].
    destruct (all_ascii cs) eqn:Ea; cbn [negb] in Ev; [|discriminate].
    destruct (string_extent n (f_off f) m cs) as (H1 & H2); try lia; auto.
    cbv zeta. split; [exact H1|]. rewrite H2.
    pose proof (take_until_nul_length cs) as Hpl.
    rewrite all_ascii_form by (now apply all_ascii_take). rewrite last_form by lia.
    rewrite string_clean_form; [auto|apply take_until_nul_nozero|lia].
  - (* TArr *)
    pose proof (leaf_arr_elem_ok e n Hty) as He.
    assert (Hset : forall k', bytes (snd (arr_setitem true e n (f_off f) m k' v)) /\
              forallb (elem_inv e) (chunks (elem_size e) n
                 (sub (snd (arr_setitem true e n (f_off f) m k' v)) (f_off f) (n * elem_size e))) = true /\ true = true).
    { intros k'. rewrite arr_inv_iff in Hinv by exact Hend.
      destruct (arr_local e n (f_off f) m k' v He Hend Hp Hb Hinv) as [H1 H2].
      split; [exact H1|]. split; [|reflexivity]. apply arr_inv_iff; [|exact H2].
      assert (Hl : length (snd (arr_setitem true e n (f_off f) m k' v)) = length m).
      { unfold arr_setitem.
        destruct (match iter_items v with Some items => elem_validate_many e v items | None => elem_validate_one e v end);
          [reflexivity|].
        apply carr_assign_frame; [|exact Hend]. intros x bs Hs. eapply elem_store_length; eauto. }
      lia. }
    destruct k; destruct v; try discriminate Hp; apply Hset.
Qed.

(* ------------------------------------------------------------------ *)
(* the invariant                                                        *)

Definition Inv (leaves : list field) (size : nat) (m : list Z) : Prop :=
  length m = size /\ bytes m /\
  (forall g, In g leaves -> leaf_inv (f_ty g) (extent g m) = true) /\
  (forall j, (j < size)%nat -> covered leaves j = false -> nth j m 0 = 0) /\
  (forall g, In g leaves -> sclean (f_ty g) (extent g m) = true).

Lemma Inv_reach_inv : forall leaves size m, Inv leaves size m -> reach_inv leaves size m = true.
Proof.
  intros leaves size m (Hl & Hb & Hg & Hu & _). unfold reach_inv.
  repeat (apply andb_true_iff; split).
  - now apply Nat.eqb_eq.
  - now apply all_bytes_iff.
  - apply forallb_forall. exact Hg.
  - unfold uncovered_zero. apply forallb_forall. intros j Hj. apply in_seq in Hj.
    destruct (covered leaves j) eqn:Ec; [reflexivity|]. cbn [orb]. apply Z.eqb_eq. apply Hu; [lia|exact Ec].
Qed.

Lemma Inv_strings_clean : forall leaves size m, Inv leaves size m -> strings_clean leaves m = true.
Proof.
  intros leaves size m (_ & _ & _ & _ & Hc). unfold strings_clean. apply forallb_forall. exact Hc.
Qed.

Lemma Inv_zero : forall leaves size, layout_ok size leaves = true -> Inv leaves size (repeat 0 size).
Proof.
  intros leaves size HL. split; [apply repeat_length|]. split; [apply bytes_zeros|]. split; [|split].
  - intros g Hg. destruct (layout_in size leaves g HL Hg) as [Hty Hend]. unfold extent.
    rewrite sub_repeat by exact Hend. now apply leaf_inv_zeros.
  - intros j _ _. apply nth_repeat.
  - intros g Hg. destruct (layout_in size leaves g HL Hg) as [Hty Hend]. unfold extent.
    rewrite sub_repeat by exact Hend. destruct (f_ty g); try reflexivity. cbn [sclean fsize leaf_ty_ok] in *.
    apply (string_clean_form [] n); [constructor|lia].
Qed.

Lemma Inv_set : forall leaves size m f k v, layout_ok size leaves = true -> Inv leaves size m ->
  In f leaves -> plain v = true -> Inv leaves size (snd (set true f k m v)).
Proof.
  intros leaves size m f k v HL (Hl & Hb & Hg & Hu & Hc) Hf Hp.
  destruct (layout_in size leaves f HL Hf) as [Hty Hend].
  assert (Hwf : wf_field f m) by (unfold wf_field; unfold f_end in Hend; lia).
  pose proof (set_frame true f k m v (leaf_ty_ftype_ok _ Hty) Hwf) as Hfr.
  destruct (set_local f k m v Hty ltac:(lia) Hp Hb (Hg f Hf) (Hc f Hf)) as (Hb' & Hi' & Hc').
  set (m' := snd (set true f k m v)) in *.
  assert (Hext : forall g, In g leaves -> g = f \/ extent g m' = extent g m).
  { intros g Hin. destruct (layout_pair size leaves f g HL Hf Hin) as [<-|Hd]; [now left|right].
    destruct (layout_in size leaves g HL Hin) as [_ Hgend]. unfold extent.
    apply (frame_sub _ _ _ _ (f_off g) (fsize (f_ty g)) Hfr); unfold f_end in *; lia. }
  split; [destruct Hfr; lia|]. split; [exact Hb'|]. split; [|split].
  - intros g Hin. destruct (Hext g Hin) as [-> | ->]; [exact Hi'|now apply Hg].
  - intros j Hj Hcv. destruct Hfr as [_ Hout]. rewrite Hout; [now apply Hu|].
    destruct (Nat.lt_ge_cases j (f_off f)) as [H1|H1]; [now left|].
    destruct (Nat.lt_ge_cases j (f_end f)) as [H2|H2]; [|right; exact H2].
    exfalso. assert (Hc'' : covered leaves j = true).
    { unfold covered. apply existsb_exists. exists f. split; [exact Hf|]. lia. }
    congruence.
  - intros g Hin. destruct (Hext g Hin) as [-> | ->]; [exact Hc'|now apply Hc].
Qed.

Lemma reach_Inv : forall leaves size m, layout_ok size leaves = true -> reach leaves size m -> Inv leaves size m.
Proof.
  intros leaves size m HL Hr. induction Hr; [now apply Inv_zero|now apply Inv_set].
Qed.

Theorem reach_invariant : forall leaves size m,
  layout_ok size leaves = true -> reach leaves size m -> reach_inv leaves size m = true.
Proof. intros leaves size m HL Hr. eapply Inv_reach_inv, reach_Inv; eauto. Qed.

Theorem reach_strings_clean : forall leaves size m,
  layout_ok size leaves = true -> reach leaves size m -> strings_clean leaves m = true.
Proof. intros leaves size m HL Hr. eapply Inv_strings_clean, reach_Inv; eauto. Qed.

