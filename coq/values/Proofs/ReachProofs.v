(* C10, first half: every image reachable through the validated field API (Spec/CodecSpec.v: reach)
   satisfies the invariant reach_inv: right length, bytes only, no infinity in a float leaf, binary32 NaNs
   quiet, Char/String leaves ASCII, String leaves NUL-terminated, padding bytes zero.
   The float-array case needs the recorded exclusion (first element not NaN): then Python's max and min are
   true bounds of the non-NaN elements and, the conversions being monotone, no element converts to infinity. *)
From Coq Require Import ZArith List Bool Lia ZifyBool Arith Reals Psatz.
From Flocq Require Import Core.Core IEEE754.BinarySingleNaN IEEE754.Binary IEEE754.Bits.
From Val Require Import Gen.ValidatorTbl Model.Bytes Model.Floats Model.Values Model.Codec Spec.ValSpec Spec.CodecSpec
  Proofs.BytesProofs Proofs.ValuesProofs Proofs.RefuseProofs Proofs.ReadbackProofs Proofs.XnumProofs Proofs.FloatProofs
  Proofs.FloatArrayProofs.
Import ListNotations.
Open Scope Z_scope.
Local Existing Instance Hprec32.
Local Existing Instance Hprec64.

(* ------------------------------------------------------------------ *)
(* floats: what a validated store writes                                *)

Definition R64 : R -> R := round radix2 (FLT_exp (-1074) 53) ZnearestE.

(* int -> double -> float is infinite exactly when the rounded double reaches the binary32 threshold *)
Lemma int_conv4_real : forall z b, int_to_f64 z = Some b ->
  f32_is_inf (narrow_bits b) = negb (Rlt_bool (Rabs (R64 (IZR z))) T32).
Proof.
  intros z b H. destruct (int_to_f64_finite z b H) as [Hn Hi].
  rewrite narrow_inf_iff by assumption.
  apply int_to_f64_inv in H. destruct H as (Hz & ->).
  destruct (int_norm_correct z Hz) as (Hf & Hr).
  rewrite xnum_of_f64_xn, b64_of_bits_of_b64.
  set (y := Binary.binary_normalize 53 1024 Hprec64 Hmax64 mode_NE z 0 false) in *.
  destruct (xn_finite y Hf) as (m & e & E1 & E2).
  rewrite E1, xabs_ge_F2R, E2, Hr, IZR_T32z. reflexivity.
Qed.

Lemma float_conv4_real : forall b, f64_is_nan b = false -> f64_is_inf b = false ->
  exists m e, xnum_of_f64 b = XFin m e /\ R64 (F2R (Float radix2 m e)) = F2R (Float radix2 m e) /\
    f32_is_inf (narrow_bits b) = negb (Rlt_bool (Rabs (F2R (Float radix2 m e))) T32).
Proof.
  intros b Hn Hi. rewrite narrow_inf_iff by assumption. rewrite xnum_of_f64_xn.
  rewrite <- b64_of_bits_is_nan in Hn. rewrite <- b64_of_bits_is_inf in Hi.
  set (x := b64_of_bits (b mod two64)) in *.
  pose proof (finite_of_not_nan_inf _ _ x Hn Hi) as Hf.
  destruct (xn_finite x Hf) as (m & e & E1 & E2).
  exists m, e. split; [exact E1|]. split.
  - rewrite E2. unfold R64. apply round_generic; [typeclasses eauto|].
    exact (Binary.generic_format_B2R 53 1024 x).
  - rewrite E1, xabs_ge_F2R, IZR_T32z. reflexivity.
Qed.

(* a number that converts to a finite c_float: its exact value, as a real *)
Lemma conv4_fin_real : forall w, is_num w = true -> nn w -> float_isinf_conv 4 w = inr false ->
  exists r : R, (Rabs (R64 r) < T32)%R /\
     (forall z, xlt (xnum_of w) (XFin z 0) = false -> (IZR z <= r)%R) /\
     (forall z, xlt (XFin z 0) (xnum_of w) = false -> (r <= IZR z)%R).
Proof.
  intros w Hnum Hnn Hc.
  assert (Hint : forall zw, xnum_of w = XFin zw 0 ->
            match int_to_f64 zw with Some b => f32_is_inf (narrow_bits b) = false | None => False end ->
            exists r : R, (Rabs (R64 r) < T32)%R /\
              (forall z, xlt (xnum_of w) (XFin z 0) = false -> (IZR z <= r)%R) /\
              (forall z, xlt (XFin z 0) (xnum_of w) = false -> (r <= IZR z)%R)).
  { intros zw Hw Hi. destruct (int_to_f64 zw) as [b|] eqn:Ei; [|contradiction].
    rewrite (int_conv4_real zw b Ei) in Hi. apply negb_false_iff in Hi.
    exists (IZR zw). split; [|split].
    - destruct (Rlt_bool_spec (Rabs (R64 (IZR zw))) T32); [assumption|discriminate].
    - intros z Hz. rewrite Hw, xlt_int in Hz. apply IZR_le. lia.
    - intros z Hz. rewrite Hw, xlt_int in Hz. apply IZR_le. lia. }
  assert (Hflt : forall b, xnum_of w = xnum_of_f64 b -> f64_is_nan b = false ->
            (f64_is_inf b = true \/ f32_is_inf (narrow_bits b) = false) -> f32_is_inf (narrow_bits b) = false ->
            exists r : R, (Rabs (R64 r) < T32)%R /\
              (forall z, xlt (xnum_of w) (XFin z 0) = false -> (IZR z <= r)%R) /\
              (forall z, xlt (XFin z 0) (xnum_of w) = false -> (r <= IZR z)%R)).
  { intros b Hw Hn _ Hi.
    assert (Hinf : f64_is_inf b = false).
    { destruct (f64_is_inf b) eqn:E; [|reflexivity]. rewrite (narrow_of_inf b E) in Hi. discriminate. }
    destruct (float_conv4_real b Hn Hinf) as (m & e & E1 & E2 & E3).
    rewrite E3 in Hi. apply negb_false_iff in Hi.
    exists (F2R (Float radix2 m e)). split; [|split].
    - rewrite E2. destruct (Rlt_bool_spec (Rabs (F2R (Float radix2 m e))) T32); [assumption|discriminate].
    - intros z Hz. rewrite Hw, E1, xlt_F2R, F2R_exp0 in Hz.
      destruct (Rlt_bool_spec (F2R (Float radix2 m e)) (IZR z)); [discriminate|assumption].
    - intros z Hz. rewrite Hw, E1, xlt_F2R, F2R_exp0 in Hz.
      destruct (Rlt_bool_spec (IZR z) (F2R (Float radix2 m e))); [discriminate|assumption]. }
  unfold float_isinf_conv in Hc. change (4 =? 4) with true in Hc. cbv iota in Hc.
  destruct w; try discriminate Hnum; cbn [num_to_f64 xnum_of] in *.
  - apply (Hint z eq_refl). destruct (int_to_f64 z); [|discriminate]. now inversion Hc.
  - apply (Hint (Z.b2z b) eq_refl). destruct (int_to_f64 (Z.b2z b)); [|discriminate]. now inversion Hc.
  - assert (Hn : f64_is_nan bits = false) by (apply (is_nan_val_nn (PFloat bits) eq_refl); exact Hnn).
    apply (Hflt bits eq_refl Hn); [right|]; now inversion Hc.
  - assert (Hn : f64_is_nan bits = false) by (apply (is_nan_val_nn (PNumLike bits) eq_refl); exact Hnn).
    apply (Hflt bits eq_refl Hn); [right|]; now inversion Hc.
Qed.

(* an int element of a validated float sequence (first element not NaN) does not become a binary32 infinity:
   Python's max and min bound it exactly and both conversions are monotone *)
Lemma int_item_conv4 : forall ct x0 r y z b, snd ct = 4 ->
  float_validate_many ct (x0 :: r) = None -> is_nan_val x0 = false ->
  In y (x0 :: r) -> xnum_of y = XFin z 0 -> int_to_f64 z = Some b ->
  f32_is_inf (narrow_bits b) = false.
Proof.
  intros ct x0 r y z b Hc4 Hv Hx Hin Hy Hb. unfold float_validate_many in Hv. rewrite Hc4 in Hv.
  destruct (forallb is_num (x0 :: r)) eqn:Hnum; cbn [negb] in Hv; [|discriminate].
  assert (Hnumx : is_num x0 = true) by (cbn [forallb] in Hnum; lia).
  assert (Hnx : nn x0) by (now apply is_nan_val_nn).
  destruct (pymax_ub r x0 Hnx) as (HnM & HinM & HubM).
  destruct (pymin_lb r x0 Hnx) as (HnN & HinN & HlbN).
  rewrite forallb_forall in Hnum.
  destruct (float_isinf_conv 4 (pymax x0 r)) as [e|[|]] eqn:EM; try discriminate.
  destruct (float_isinf_conv 4 (pymin x0 r)) as [e|[|]] eqn:EN; try discriminate.
  destruct (conv4_fin_real _ (Hnum _ HinM) HnM EM) as (rM & HM1 & HM2 & _).
  destruct (conv4_fin_real _ (Hnum _ HinN) HnN EN) as (rN & HN1 & _ & HN3).
  assert (Hny : nn y) by (unfold nn; rewrite Hy; reflexivity).
  pose proof (HubM y Hin Hny) as H1. rewrite Hy in H1. apply HM2 in H1.
  pose proof (HlbN y Hin Hny) as H2. rewrite Hy in H2. apply HN3 in H2.
  rewrite (int_conv4_real z b Hb). apply negb_false_iff. apply Rlt_bool_true.
  assert (L1 : (R64 (IZR z) <= R64 rM)%R) by (apply round_le; try typeclasses eauto; exact H1).
  assert (L2 : (R64 rN <= R64 (IZR z))%R) by (apply round_le; try typeclasses eauto; exact H2).
  apply Rabs_def2 in HM1. apply Rabs_def2 in HN1. apply Rabs_def1; lra.
Qed.

Lemma xabs_ge_inf : forall s t, xabs_ge (XInf s) t = true.
Proof. intros [|] t; reflexivity. Qed.

(* every element of a validated float sequence is stored without producing an infinity *)
Lemma float_item_ok : forall ct items y b, fct_ok ct = true ->
  float_validate_many ct items = None ->
  match items with x :: _ => is_nan_val x = false | [] => True end ->
  In y items -> num_to_f64 y = inr b ->
  (if snd ct =? 4 then f32_is_inf (narrow_bits b) else f64_is_inf b) = false.
Proof.
  intros ct items y b Hct Hv Hhd Hin Hb.
  destruct items as [|x0 r]; [contradiction|].
  assert (Hnum : forallb is_num (x0 :: r) = true).
  { unfold float_validate_many in Hv. destruct (forallb is_num (x0 :: r)); [reflexivity|discriminate]. }
  assert (Hw : snd ct = 4 \/ snd ct = 8) by (unfold fct_ok in Hct; lia).
  assert (Hint : forall z, xnum_of y = XFin z 0 -> int_to_f64 z = Some b ->
            (if snd ct =? 4 then f32_is_inf (narrow_bits b) else f64_is_inf b) = false).
  { intros z Hy Hz. destruct Hw as [Hw|Hw]; rewrite Hw; cbn [Z.eqb Pos.eqb].
    - eapply int_item_conv4; eauto.
    - apply (int_to_f64_finite z b Hz). }
  assert (Hflt : xnum_of y = xnum_of_f64 b -> is_num y = true -> (is_nan_val y = f64_is_nan b) ->
            (if snd ct =? 4 then f32_is_inf (narrow_bits b) else f64_is_inf b) = false).
  { intros Hy Hny Hnan. destruct (f64_is_nan b) eqn:En.
    - destruct (snd ct =? 4); [apply (narrow_nan b En)|].
      destruct (f64_is_inf b) eqn:Ei; [|reflexivity]. rewrite (f64_inf_not_nan b Ei) in En. discriminate.
    - destruct (if snd ct =? 4 then f32_is_inf (narrow_bits b) else f64_is_inf b) eqn:E; [exfalso|reflexivity].
      assert (Hnn : nn y) by (apply is_nan_val_nn; assumption).
      destruct (f64_is_inf b) eqn:Ei.
      + assert (Hge : xabs_ge (xnum_of y) int_overflow_threshold = true).
        { rewrite Hy. destruct (xnum_of_f64 b) as [|s|m e] eqn:Ex.
          - apply xnum_of_f64_nan in Ex. congruence.
          - apply xabs_ge_inf.
          - exfalso. assert (Hx : xnum_of_f64 b = XInf (f64_sign b)) by (apply xnum_of_f64_inf; auto). congruence. }
        exact (big_item_refused ct int_overflow_threshold x0 r y Hct (or_intror eq_refl) thr64_pos Hnum Hhd Hin Hnn Hge Hv).
      + destruct (snd ct =? 4) eqn:E4; [|congruence].
        rewrite narrow_inf_iff in E by assumption.
        assert (Hge : xabs_ge (xnum_of y) T32z = true) by (rewrite Hy; exact E).
        assert (Hbig : big_for ct T32z) by (left; split; [reflexivity|lia]).
        exact (big_item_refused ct T32z x0 r y Hct Hbig T32z_pos Hnum Hhd Hin Hnn Hge Hv). }
  destruct y; cbn [num_to_f64] in Hb; try discriminate Hb.
  - destruct (int_to_f64 z) as [b'|] eqn:Ez; [|discriminate]. inversion Hb; subst b'. now apply (Hint z).
  - destruct (int_to_f64 (Z.b2z b0)) as [b'|] eqn:Ez; [|discriminate]. inversion Hb; subst b'. now apply (Hint (Z.b2z b0)).
  - inversion Hb; subst bits. now apply Hflt.
  - inversion Hb; subst bits. now apply Hflt.
Qed.

(* a narrowed NaN is quiet *)
Lemma narrow_nan_quiet : forall b, f64_is_nan b = true -> 4194304 <= f32_man (narrow_bits b).
Proof.
  intros b H. rewrite (narrow_nan_form b H).
  pose proof (Z.mod_pos_bound (f64_man b / 536870912) 4194304 eq_refl) as Hq.
  set (q := (f64_man b / 536870912) mod 4194304) in *. clearbody q.
  unfold f32_man, two32, two31.
  replace ((if f64_sign b then 2147483648 else 0) + 2143289344 + q)
    with (4194304 + q + (if f64_sign b then 511 else 255) * 8388608) by (destruct (f64_sign b); ring).
  rewrite (Z.mod_small (4194304 + q + _ * 8388608)) by (destruct (f64_sign b); lia).
  rewrite Z.mod_add, Z.mod_small by lia. lia.
Qed.

Lemma f64_is_inf_mod : forall b, f64_is_inf (b mod 18446744073709551616) = f64_is_inf b.
Proof. intros b. unfold f64_is_inf, f64_exp, f64_man, two64. now rewrite Z.mod_mod. Qed.

Lemma float_bytes_inv : forall vid ct b, fct_ok ct = true ->
  (if snd ct =? 4 then f32_is_inf (narrow_bits b) else f64_is_inf b) = false ->
  elem_inv (EFloat vid ct) (float_bytes (snd ct) b) = true.
Proof.
  intros vid ct b Hct H. cbn [elem_inv]. unfold float_bytes. destruct (snd ct =? 4) eqn:E4.
  - rewrite le_decode_encode. change (2 ^ (8 * Z.of_nat 4)) with (2 ^ 32).
    rewrite Z.mod_small by apply narrow_bits_range. rewrite H. cbn [negb andb].
    unfold f32_quiet_or_num. destruct (f32_is_nan (narrow_bits b)) eqn:En; [|reflexivity]. cbn [negb orb].
    destruct (f64_is_nan b) eqn:En64.
    + pose proof (narrow_nan_quiet b En64). lia.
    + rewrite (narrow_not_nan b En64) in En. discriminate.
  - rewrite le_decode_encode. change (2 ^ (8 * Z.of_nat 8)) with 18446744073709551616.
    rewrite f64_is_inf_mod, H. reflexivity.
Qed.

(* ------------------------------------------------------------------ *)
(* lists of bytes, splices, chunks                                      *)

Definition bytes (l : list Z) : Prop := Forall (fun b => 0 <= b < 256) l.

Lemma all_bytes_iff : forall l, all_bytes l = true <-> bytes l.
Proof.
  intros l. unfold all_bytes, bytes, byte_ok. rewrite forallb_forall, Forall_forall.
  split; intros H x Hx; specialize (H x Hx); lia.
Qed.

Lemma bytes_splice : forall m off bs, bytes m -> bytes bs -> bytes (splice m off bs).
Proof.
  unfold bytes, splice. intros m off bs Hm Hb.
  assert (Hf : forall n, Forall (fun b => 0 <= b < 256) (firstn n m) /\ Forall (fun b => 0 <= b < 256) (skipn n m)).
  { intros n. apply Forall_app. now rewrite firstn_skipn. }
  apply Forall_app. split; [apply Hf|]. apply Forall_app. split; [exact Hb|apply Hf].
Qed.

Lemma splice_nth_inside : forall m off bs j d, (off + length bs <= length m)%nat ->
  (off <= j < off + length bs)%nat -> nth j (splice m off bs) d = nth (j - off) bs d.
Proof.
  intros m off bs j d Hl Hj. unfold splice.
  rewrite app_nth2 by (rewrite firstn_length; lia). rewrite firstn_length.
  replace (Nat.min off (length m)) with off by lia. apply app_nth1. lia.
Qed.

Lemma frame_sub : forall off size m m' o n, frame off size m m' -> (o + n <= length m)%nat ->
  (o + n <= off \/ off + size <= o)%nat -> sub m' o n = sub m o n.
Proof.
  intros off size m m' o n [Hl Hf] Hb Hd. apply nth_ext_eq.
  - rewrite !sub_length; lia.
  - intros j Hj. rewrite sub_length in Hj by lia. rewrite !sub_nth by lia. apply Hf. lia.
Qed.

Lemma skipn_skipn' : forall (A : Type) (a b : nat) (l : list A), skipn a (skipn b l) = skipn (b + a) l.
Proof.
  intros A a b. induction b; intros l; [reflexivity|]. destruct l; [now rewrite !skipn_nil|].
  cbn [skipn Nat.add]. apply IHb.
Qed.

Lemma chunks_skipn : forall esz n bs,
  chunks esz n bs = map (fun p => firstn esz (skipn (p * esz) bs)) (seq 0 n).
Proof.
  intros esz n. induction n; intros bs; cbn [chunks seq map]; [reflexivity|]. f_equal.
  rewrite IHn, <- seq_shift, map_map. apply map_ext. intros p.
  rewrite skipn_skipn'. reflexivity.
Qed.

Lemma chunks_sub : forall esz n m off, (off + n * esz <= length m)%nat ->
  chunks esz n (sub m off (n * esz)) = map (fun p => sub m (off + p * esz) esz) (seq 0 n).
Proof.
  intros esz n m off H. rewrite chunks_skipn. apply map_ext_in. intros p Hp. apply in_seq in Hp.
  unfold sub. rewrite skipn_firstn_comm, firstn_firstn, skipn_skipn'.
  f_equal. assert (p * esz + esz <= n * esz)%nat by nia. lia.
Qed.

Lemma arr_inv_iff : forall e n m off, (off + n * elem_size e <= length m)%nat ->
  (forallb (elem_inv e) (chunks (elem_size e) n (sub m off (n * elem_size e))) = true <->
   forall p, (p < n)%nat -> elem_inv e (sub m (off + p * elem_size e) (elem_size e)) = true).
Proof.
  intros e n m off H. rewrite chunks_sub by exact H. rewrite forallb_forall. split.
  - intros Hf p Hp. apply Hf. apply in_map_iff. exists p. split; [reflexivity|]. apply in_seq. lia.
  - intros Hf x Hx. apply in_map_iff in Hx as (p & <- & Hp). apply in_seq in Hp. apply Hf. lia.
Qed.

Lemma all_ascii_sub : forall m off n, (off + n <= length m)%nat ->
  (all_ascii (sub m off n) = true <-> forall j, (j < n)%nat -> 0 <= nth (off + j) m 0 < 128).
Proof.
  intros m off n H. unfold all_ascii. rewrite forallb_forall. split.
  - intros Hf j Hj. rewrite <- sub_nth with (n := n) by lia.
    assert (Hin : In (nth j (sub m off n) 0) (sub m off n)) by (apply nth_In; rewrite sub_length; lia).
    specialize (Hf _ Hin). lia.
  - intros Hf x Hx. destruct (In_nth _ _ 0 Hx) as (j & Hj & <-). rewrite sub_length in Hj by lia.
    rewrite sub_nth by lia. specialize (Hf j Hj). lia.
Qed.

Lemma last_nth' : forall (l : list Z), last l 0 = nth (length l - 1) l 0.
Proof.
  induction l as [|a [|b l] IH]; try reflexivity.
  change (last (a :: b :: l) 0) with (last (b :: l) 0). rewrite IH. cbn [length nth Nat.sub]. now rewrite Nat.sub_0_r.
Qed.

Lemma last_sub : forall m off n, (1 <= n)%nat -> (off + n <= length m)%nat ->
  last (sub m off n) 0 = nth (off + n - 1) m 0.
Proof.
  intros m off n Hn H. rewrite last_nth', sub_length by lia. rewrite sub_nth by lia. f_equal. lia.
Qed.

Lemma sub_repeat : forall size off n, (off + n <= size)%nat -> sub (repeat 0 size) off n = repeat 0 n.
Proof.
  intros size off n H. apply nth_ext_eq.
  - rewrite sub_length, repeat_length by (rewrite repeat_length; lia). reflexivity.
  - intros j Hj. rewrite sub_length in Hj by (rewrite repeat_length; lia).
    rewrite sub_nth by (rewrite ?repeat_length; lia). now rewrite !nth_repeat.
Qed.

Lemma le_decode_zeros : forall n, le_decode (repeat 0 n) = 0.
Proof. induction n; cbn [repeat le_decode]; [reflexivity|]. rewrite IHn. reflexivity. Qed.

Lemma all_ascii_zeros : forall n, all_ascii (repeat 0 n) = true.
Proof. induction n; cbn; auto. Qed.

Lemma last_zeros : forall n, last (repeat 0 n) 0 = 0.
Proof. intros n. rewrite last_nth'. apply nth_repeat. Qed.

Lemma elem_inv_zeros : forall e n, elem_inv e (repeat 0 n) = true.
Proof. intros [vid r|vid ct|r] n; cbn [elem_inv]; try reflexivity. rewrite le_decode_zeros. destruct (snd ct =? 4); reflexivity. Qed.

(* ------------------------------------------------------------------ *)
(* layouts                                                              *)

Lemma layout_in : forall size leaves f, layout_ok size leaves = true -> In f leaves ->
  leaf_ty_ok (f_ty f) = true /\ (f_end f <= size)%nat.
Proof.
  intros size leaves f. induction leaves as [|g r IH]; intros H Hin; [contradiction|].
  cbn [layout_ok] in H. unfold in_bounds in H. destruct Hin as [->|Hin].
  - split; lia.
  - apply IH; [lia|exact Hin].
Qed.

Lemma layout_pair : forall size leaves f g, layout_ok size leaves = true -> In f leaves -> In g leaves ->
  f = g \/ (f_end f <= f_off g)%nat \/ (f_end g <= f_off f)%nat.
Proof.
  intros size leaves f g. induction leaves as [|h r IH]; intros H Hf Hg; [contradiction|].
  cbn [layout_ok] in H.
  assert (Hd : disjoint_from h r = true) by lia. unfold disjoint_from in Hd. rewrite forallb_forall in Hd.
  destruct Hf as [->|Hf], Hg as [->|Hg].
  - now left.
  - right. specialize (Hd g Hg). lia.
  - right. specialize (Hd f Hf). lia.
  - apply IH; [lia|exact Hf|exact Hg].
Qed.

Lemma leaf_ty_ftype_ok : forall t, leaf_ty_ok t = true -> ftype_ok t = true.
Proof. destruct t; cbn [leaf_ty_ok ftype_ok]; auto. destruct e; cbn [elem_ok]; intros; lia. Qed.

Lemma leaf_arr_elem_ok : forall e n, leaf_ty_ok (TArr e n) = true -> elem_ok e = true.
Proof. destruct e; cbn [leaf_ty_ok elem_ok]; intros; lia. Qed.

Lemma leaf_inv_zeros : forall t, leaf_ty_ok t = true -> leaf_inv t (repeat 0 (fsize t)) = true.
Proof.
  intros t Ht. destruct t; cbn [leaf_inv]; try reflexivity.
  - apply elem_inv_zeros.
  - rewrite all_ascii_zeros, last_zeros. reflexivity.
  - cbn [fsize]. rewrite chunks_skipn. rewrite forallb_forall. intros x Hx.
    apply in_map_iff in Hx as (p & <- & Hp). apply in_seq in Hp.
    replace (firstn (elem_size e) (skipn (p * elem_size e) (repeat 0 (n * elem_size e))))
      with (sub (repeat 0 (n * elem_size e)) (p * elem_size e) (elem_size e)) by reflexivity.
    rewrite sub_repeat by nia. apply elem_inv_zeros.
Qed.

(* ------------------------------------------------------------------ *)
(* an invariant of the image is kept by an array write when every single element store keeps it *)

Definition src (v x : pyval) : Prop := x = v \/ exists items, iter_items v = Some items /\ In x items.

Lemma write_items_ind : forall st esz off (R : list Z -> Prop) (Pp : Z -> Prop) (S : pyval -> Prop),
  (forall m p x bs, R m -> Pp p -> S x -> st x = inr bs -> R (splice m (off + Z.to_nat p * esz) bs)) ->
  forall ps items m, Forall Pp ps -> Forall S items -> R m -> R (snd (write_items st esz off m ps items)).
Proof.
  intros st esz off R Pp S Hstep. induction ps as [|p ps IH]; intros items m Hps Hit Hm; cbn [write_items]; [exact Hm|].
  destruct items as [|x items]; [exact Hm|]. destruct (st x) as [e|bs] eqn:E; [exact Hm|].
  inversion Hps; inversion Hit; subst. apply IH; auto. eapply Hstep; eauto.
Qed.

Lemma carr_assign_ind : forall st esz n off (R : list Z -> Prop) k v,
  (forall m p x bs, R m -> 0 <= p < Z.of_nat n -> src v x -> st x = inr bs ->
                    R (splice m (off + Z.to_nat p * esz) bs)) ->
  forall m, R m -> R (snd (carr_assign st esz n off m k v)).
Proof.
  intros st esz n off R k v Hstep m Hm. unfold carr_assign. destruct k as [|i|a b c]; [exact Hm| |].
  - set (i' := if i <? 0 then i + Z.of_nat n else i).
    destruct ((i' <? 0) || (Z.of_nat n <=? i')) eqn:E; [exact Hm|].
    destruct (st v) as [e|bs] eqn:Es; [exact Hm|]. cbn [snd].
    eapply Hstep; eauto; [lia|now left].
  - destruct (slice_indices (Z.of_nat n) a b c) as [[[start step] len]|] eqn:Es; [|exact Hm].
    destruct (iter_items v) as [items|] eqn:Ei; [|exact Hm].
    destruct (negb (length items =? len)%nat); [exact Hm|].
    apply write_items_ind with (Pp := fun p => 0 <= p < Z.of_nat n) (S := src v); auto.
    + apply slice_positions_bounds in Es; [tauto|lia].
    + apply Forall_forall. intros x Hx. right. exists items. auto.
Qed.

(* ------------------------------------------------------------------ *)
(* plain values                                                         *)

Lemma plain_not_cinst : forall ck cw v, plain v = true -> is_cinst ck cw v = false.
Proof. destruct v; cbn [plain is_cinst]; try reflexivity; discriminate. Qed.

Lemma iter_items_plain : forall v items, plain v = true -> iter_items v = Some items -> Forall (fun x => plain x = true) items.
Proof.
  intros v items Hp Hi. destruct v; cbn [iter_items plain] in *; try discriminate; inversion Hi; subst.
  - apply Forall_forall. intros x Hx. apply in_map_iff in Hx as (c & <- & _). reflexivity.
  - apply Forall_forall. intros x Hx. apply in_map_iff in Hx as (c & <- & _). reflexivity.
  - apply Forall_forall. rewrite forallb_forall in Hp. exact Hp.
Qed.

Lemma src_plain : forall v x, plain v = true -> src v x -> plain x = true.
Proof.
  intros v x Hp [->|(items & Hi & Hin)]; [exact Hp|].
  pose proof (iter_items_plain v items Hp Hi) as Hf. rewrite Forall_forall in Hf. now apply Hf.
Qed.

Lemma bytearray_conv_plain : forall e v, plain v = true -> plain (bytearray_conv e v) = true.
Proof.
  intros e v Hp. destruct e; cbn [bytearray_conv]; try (destruct v; exact Hp).
  destruct v; try exact Hp. destruct bs as [|b [|b' bs]]; cbn [plain]; try reflexivity.
  apply forallb_forall. intros x Hx. change (PInt b :: PInt b' :: map PInt bs) with (map PInt (b :: b' :: bs)) in Hx.
  apply in_map_iff in Hx as (c & <- & _). reflexivity.
Qed.

Lemma float_bytes_bytes : forall cw b, bytes (float_bytes cw b).
Proof. intros. unfold float_bytes. destruct (cw =? 4); apply le_encode_bytes. Qed.

Lemma cstore_bytes : forall ck cw v bs, plain v = true -> cstore ck cw v = inr bs -> bytes bs.
Proof.
  intros ck cw v bs Hp H. unfold cstore in H.
  destruct v; try discriminate Hp; destruct (ck <=? 1); try discriminate H;
    try (inversion H; subst; apply le_encode_bytes);
    destruct (ck =? 2); try discriminate H;
    try (destruct (num_to_f64 _) eqn:En in H; [discriminate H|inversion H; subst; apply float_bytes_bytes]).
  destruct bs0 as [|b0 [|b1 r0]]; try discriminate H. inversion H; subst. apply all_bytes_iff. exact Hp.
Qed.

Lemma cstore_float : forall cw v, plain v = true ->
  cstore 2 cw v = match num_to_f64 v with inr b => inr (float_bytes cw b) | inl e => inl e end.
Proof. intros cw v Hp. destruct v; try discriminate Hp; reflexivity. Qed.

Lemma ok_or_cases : forall m off r, snd (ok_or m off r) = m \/ exists bs, r = inr bs /\ snd (ok_or m off r) = splice m off bs.
Proof. intros m off [e|bs]; cbn [ok_or snd]; [now left|right; eauto]. Qed.

(* ------------------------------------------------------------------ *)
(* scalar float                                                         *)

Lemma float_one_ok : forall vid ct v bs, fct_ok ct = true -> plain v = true ->
  float_validate_one ct v = None -> cstore (fst ct) (snd ct) v = inr bs -> elem_inv (EFloat vid ct) bs = true.
Proof.
  intros vid ct v bs Hct Hp Hv Hs.
  assert (Hk : fst ct = 2) by (unfold fct_ok in Hct; lia). rewrite Hk, cstore_float in Hs by exact Hp.
  unfold float_validate_one in Hv. rewrite plain_not_cinst in Hv by exact Hp.
  assert (Hc : float_isinf_conv (snd ct) v = inr false).
  { destruct v; try discriminate Hv; destruct (float_isinf_conv (snd ct) _) as [e|[|]]; try discriminate Hv; reflexivity. }
  unfold float_isinf_conv in Hc. destruct (num_to_f64 v) as [e|b]; [discriminate|].
  inversion Hs; subst bs. apply float_bytes_inv; [exact Hct|]. now inversion Hc.
Qed.

(* ------------------------------------------------------------------ *)
(* array elements                                                       *)

Lemma arr_item_ok : forall e v x bs, elem_ok e = true -> plain v = true -> excl_e e v = true ->
  match iter_items v with Some its => elem_validate_many e v its | None => elem_validate_one e v end = None ->
  src (bytearray_conv e v) x -> elem_store e x = inr bs -> bytes bs /\ elem_inv e bs = true.
Proof.
  intros e v x bs He Hp Hx Hv Hsrc Hs.
  assert (Hpx : plain x = true) by (eapply src_plain; [apply bytearray_conv_plain; exact Hp|exact Hsrc]).
  split; [unfold elem_store in Hs; eapply cstore_bytes; eauto|].
  destruct e as [vid r|vid ct|r]; try reflexivity.
  cbn [elem_ok excl_e bytearray_conv] in *.
  replace (match v with _ => v end) with v in Hsrc by (destruct v; reflexivity).
  unfold elem_store in Hs. cbn [elem_ct fst snd] in Hs.
  destruct Hsrc as [->|(items & Hi & Hin)].
  - destruct (iter_items v) as [its|] eqn:Ei.
    + exfalso. assert (Hk : fst ct = 2) by (unfold fct_ok in He; lia).
      rewrite Hk, cstore_float in Hs by exact Hp.
      destruct v; try discriminate Ei; try discriminate Hp; discriminate Hs.
    + cbn [elem_validate_one] in Hv. eapply float_one_ok; eauto.
  - rewrite Hi in Hv. cbn [elem_validate_many] in Hv.
    assert (Hk : fst ct = 2) by (unfold fct_ok in He; lia).
    rewrite Hk, cstore_float in Hs by exact Hpx.
    destruct (num_to_f64 x) as [err|b] eqn:En; [discriminate|]. inversion Hs; subst bs.
    apply float_bytes_inv; [exact He|].
    eapply float_item_ok; eauto.
    unfold head_not_nan in Hx. rewrite Hi in Hx. destruct items; [exact I|]. now apply negb_true_iff in Hx.
Qed.

Lemma arr_local : forall e n off m k v, elem_ok e = true -> (off + n * elem_size e <= length m)%nat ->
  plain v = true -> excl_e e v = true -> bytes m ->
  (forall p, (p < n)%nat -> elem_inv e (sub m (off + p * elem_size e) (elem_size e)) = true) ->
  bytes (snd (arr_setitem true e n off m k v)) /\
  (forall p, (p < n)%nat ->
     elem_inv e (sub (snd (arr_setitem true e n off m k v)) (off + p * elem_size e) (elem_size e)) = true).
Proof.
  intros e n off m k v He Hm Hp Hx Hb Hinv. unfold arr_setitem.
  destruct (match iter_items v with Some items => elem_validate_many e v items | None => elem_validate_one e v end) eqn:Ev;
    [cbn [snd]; auto|].
  set (esz := elem_size e) in *.
  pose (R := fun m0 : list Z => length m0 = length m /\ bytes m0 /\
                forall p, (p < n)%nat -> elem_inv e (sub m0 (off + p * esz) esz) = true).
  assert (HR : R (snd (carr_assign (elem_store e) esz n off m k (bytearray_conv e v)))).
  { apply carr_assign_ind; [|unfold R; auto].
    intros m0 p x bs (Hl0 & Hb0 & Hi0) Hpr Hsrc Hs.
    destruct (arr_item_ok e v x bs He Hp Hx Ev Hsrc Hs) as [Hbb Hbi].
    pose proof (elem_store_length e x bs He Hs) as Hlen. fold esz in Hlen.
    assert (Hq : (Z.to_nat p * esz + esz <= n * esz)%nat) by nia.
    split; [|split].
    - rewrite splice_length; lia.
    - now apply bytes_splice.
    - intros q Hq'. destruct (Nat.eq_dec q (Z.to_nat p)) as [->|Hne].
      + rewrite <- Hlen. rewrite sub_splice_same by lia. exact Hbi.
      + rewrite sub_splice_disjoint; [now apply Hi0|lia|nia|].
        destruct (Nat.lt_ge_cases q (Z.to_nat p)); [left|right]; nia. }
  destruct HR as (_ & H1 & H2). auto.
Qed.

(* ------------------------------------------------------------------ *)
(* one validated assignment: the image stays bytes and the assigned leaf keeps its invariant *)

Lemma ascii_bytes : forall cs, all_ascii cs = true -> bytes cs.
Proof.
  intros cs H. unfold all_ascii in H. rewrite forallb_forall in H. apply Forall_forall.
  intros x Hx. specialize (H x Hx). lia.
Qed.

Lemma string_local : forall n off m cs, (1 <= n)%nat -> (off + n <= length m)%nat ->
  all_ascii cs = true -> (length cs < n)%nat -> bytes m ->
  all_ascii (sub m off n) = true -> last (sub m off n) 0 = 0 ->
  bytes (snd (ok_or m off (s_set n cs))) /\
  all_ascii (sub (snd (ok_or m off (s_set n cs))) off n) = true /\
  last (sub (snd (ok_or m off (s_set n cs))) off n) 0 = 0.
Proof.
  intros n off m cs Hn Hm Ha Hl Hb Hia Hil. unfold s_set.
  pose proof (take_until_nul_length cs) as Hpl. pose proof (all_ascii_take cs Ha) as Hpa.
  set (p := take_until_nul cs) in *.
  replace (length p <? n)%nat with true by lia. cbn [ok_or snd].
  assert (HL : length (p ++ [0]) = (length p + 1)%nat) by (rewrite app_length; reflexivity).
  assert (Hpz : all_ascii (p ++ [0]) = true).
  { unfold all_ascii in *. rewrite forallb_app, Hpa. reflexivity. }
  split; [|split].
  - apply bytes_splice; [exact Hb|]. now apply ascii_bytes.
  - rewrite sub_splice_prefix by lia. unfold all_ascii. rewrite forallb_app. fold (all_ascii (p ++ [0])).
    rewrite Hpz. cbn [andb]. fold (all_ascii (sub m (off + length (p ++ [0])) (n - length (p ++ [0])))).
    apply all_ascii_sub; [lia|]. intros j Hj.
    rewrite all_ascii_sub in Hia by lia. specialize (Hia (length (p ++ [0%Z]) + j)%nat ltac:(lia)).
    now rewrite Nat.add_assoc in Hia.
  - rewrite last_sub by (rewrite ?splice_length; lia). rewrite last_sub in Hil by lia.
    destruct (Nat.eq_dec (length p + 1) n) as [E|E].
    + rewrite splice_nth_inside by lia. rewrite app_nth2 by lia.
      replace (off + n - 1 - off - length p)%nat with 0%nat by lia. reflexivity.
    + rewrite splice_nth_outside by lia. exact Hil.
Qed.

Lemma cstore_char : forall cs, cstore 3 1 (PBytes cs) = match cs with [b] => inr [b] | _ => inl ETypeError end.
Proof. reflexivity. Qed.

Lemma excl_arr : forall e n v, excl (TArr e n) v = excl_e e v.
Proof. intros [vid r|vid ct|r] n v; reflexivity. Qed.

Lemma set_local : forall f k m v, leaf_ty_ok (f_ty f) = true -> (f_end f <= length m)%nat ->
  plain v = true -> excl (f_ty f) v = true -> bytes m -> leaf_inv (f_ty f) (extent f m) = true ->
  bytes (snd (set true f k m v)) /\ leaf_inv (f_ty f) (extent f (snd (set true f k m v))) = true.
Proof.
  intros f k m v Hty Hend Hp Hx Hb Hinv. unfold f_end in Hend. unfold extent in *. unfold set.
  destruct (f_ty f) as [r|ct|r| |n|e n|cls size|cls esz n] eqn:Et; cbn [leaf_ty_ok leaf_inv fsize] in *;
    try discriminate Hty.
  - (* TInt *)
    split; [|reflexivity]. destruct k; try exact Hb.
    destruct (int_validate_one r v); [exact Hb|].
    destruct (ok_or_cases m (f_off f) (cstore (c_kind r) (c_width r) v)) as [->|(bs & Hs & ->)]; [exact Hb|].
    apply bytes_splice; [exact Hb|]. eapply cstore_bytes; eauto.
  - (* TFloat *)
    destruct k; try (split; [exact Hb|exact Hinv]).
    destruct (float_validate_one ct v) eqn:Ev; [split; [exact Hb|exact Hinv]|].
    destruct (ok_or_cases m (f_off f) (cstore (fst ct) (snd ct) v)) as [->|(bs & Hs & ->)]; [split; [exact Hb|exact Hinv]|].
    pose proof (cstore_length _ _ _ _ (fct_ok_ct ct Hty) Hs) as Hl.
    split; [apply bytes_splice; [exact Hb|]; eapply cstore_bytes; eauto|].
    rewrite <- Hl. rewrite sub_splice_same by lia. eapply float_one_ok; eauto.
  - (* TByte *)
    split; [|reflexivity]. destruct k; try exact Hb.
    destruct (byte_validate_one r v); [exact Hb|].
    set (v' := match v with PBytes bs => PInt (le_decode bs) | _ => v end).
    assert (Hp' : plain v' = true) by (subst v'; destruct v; try exact Hp; reflexivity).
    destruct (ok_or_cases m (f_off f) (cstore (c_kind r) (c_width r) v')) as [->|(bs & Hs & ->)]; [exact Hb|].
    apply bytes_splice; [exact Hb|]. eapply cstore_bytes; eauto.
  - (* TChar *)
    destruct k; try (split; [exact Hb|exact Hinv]).
    rewrite plain_not_cinst by exact Hp.
    destruct (char_validate_one v) eqn:Ev; [split; [exact Hb|exact Hinv]|].
    unfold char_validate_one in Ev. rewrite plain_not_cinst in Ev by exact Hp.
    destruct v; try discriminate Ev. cbn [encode_ascii].
    destruct (guard_char_len char_len (Z.of_nat (length cs))); [discriminate|].
    destruct (all_ascii cs) eqn:Ea; cbn [negb] in Ev; [|discriminate].
    change (fst char_ctype) with 3. change (snd char_ctype) with 1. rewrite cstore_char.
    destruct cs as [|b0 [|b1 r0]]; cbn [ok_or snd]; try (split; [exact Hb|exact Hinv]).
    split; [apply bytes_splice; [exact Hb|now apply ascii_bytes]|].
    change 1%nat with (length [b0]). rewrite sub_splice_same by (cbn [length]; lia). exact Ea.
  - (* TString *)
    destruct k; try (split; [exact Hb|exact Hinv]).
    destruct (string_validate_one n v) eqn:Ev; [split; [exact Hb|exact Hinv]|].
    unfold string_validate_one in Ev. destruct v; try discriminate Ev. cbn [encode_ascii].
    unfold guard_string_len in Ev. destruct (Z.of_nat n - 1 <? Z.of_nat (length cs)) eqn:El; [discriminate|].
    destruct (all_ascii cs) eqn:Ea; cbn [negb] in Ev; [|discriminate].
    apply andb_true_iff in Hinv as [Hia Hil].
    destruct (string_local n (f_off f) m cs) as (H1 & H2 & H3); try lia; auto.
    split; [exact H1|]. rewrite H2, H3. reflexivity.
  - (* TArr *)
    pose proof (leaf_arr_elem_ok e n Hty) as He. rewrite excl_arr in Hx.
    assert (Hset : forall k', bytes (snd (arr_setitem true e n (f_off f) m k' v)) /\
              forallb (elem_inv e) (chunks (elem_size e) n
                 (sub (snd (arr_setitem true e n (f_off f) m k' v)) (f_off f) (n * elem_size e))) = true).
    { intros k'. rewrite arr_inv_iff in Hinv by exact Hend.
      destruct (arr_local e n (f_off f) m k' v He Hend Hp Hx Hb Hinv) as [H1 H2].
      split; [exact H1|]. apply arr_inv_iff; [|exact H2].
      assert (Hl : length (snd (arr_setitem true e n (f_off f) m k' v)) = length m).
      { unfold arr_setitem.
        destruct (match iter_items v with Some items => elem_validate_many e v items | None => elem_validate_one e v end);
          [reflexivity|].
        apply carr_assign_frame; [|exact Hend]. intros x bs Hs. eapply elem_store_length; eauto. }
      lia. }
    destruct k; destruct v; try discriminate Hp; apply Hset.
Qed.

(* ------------------------------------------------------------------ *)
(* the invariant                                                        *)

Definition Inv (leaves : list field) (size : nat) (m : list Z) : Prop :=
  length m = size /\ bytes m /\
  (forall g, In g leaves -> leaf_inv (f_ty g) (extent g m) = true) /\
  (forall j, (j < size)%nat -> covered leaves j = false -> nth j m 0 = 0).

Lemma Inv_reach_inv : forall leaves size m, Inv leaves size m -> reach_inv leaves size m = true.
Proof.
  intros leaves size m (Hl & Hb & Hg & Hu). unfold reach_inv.
  repeat (apply andb_true_iff; split).
  - now apply Nat.eqb_eq.
  - now apply all_bytes_iff.
  - apply forallb_forall. exact Hg.
  - unfold uncovered_zero. apply forallb_forall. intros j Hj. apply in_seq in Hj.
    destruct (covered leaves j) eqn:Ec; [reflexivity|]. cbn [orb]. apply Z.eqb_eq. apply Hu; [lia|exact Ec].
Qed.

Lemma Inv_zero : forall leaves size, layout_ok size leaves = true -> Inv leaves size (repeat 0 size).
Proof.
  intros leaves size HL. split; [apply repeat_length|]. split; [|split].
  - apply Forall_forall. intros x Hx. apply repeat_spec in Hx. lia.
  - intros g Hg. destruct (layout_in size leaves g HL Hg) as [Hty Hend]. unfold extent.
    rewrite sub_repeat by exact Hend. now apply leaf_inv_zeros.
  - intros j _ _. apply nth_repeat.
Qed.

Lemma Inv_set : forall leaves size m f k v, layout_ok size leaves = true -> Inv leaves size m ->
  In f leaves -> plain v = true -> excl (f_ty f) v = true -> Inv leaves size (snd (set true f k m v)).
Proof.
  intros leaves size m f k v HL (Hl & Hb & Hg & Hu) Hf Hp Hx.
  destruct (layout_in size leaves f HL Hf) as [Hty Hend].
  assert (Hwf : wf_field f m) by (unfold wf_field; unfold f_end in Hend; lia).
  pose proof (set_frame true f k m v (leaf_ty_ftype_ok _ Hty) Hwf) as Hfr.
  destruct (set_local f k m v Hty ltac:(lia) Hp Hx Hb (Hg f Hf)) as [Hb' Hi'].
  set (m' := snd (set true f k m v)) in *.
  split; [destruct Hfr; lia|]. split; [exact Hb'|]. split.
  - intros g Hin. destruct (layout_pair size leaves f g HL Hf Hin) as [<-|Hd]; [exact Hi'|].
    destruct (layout_in size leaves g HL Hin) as [_ Hgend]. unfold extent.
    rewrite (frame_sub _ _ _ _ (f_off g) (fsize (f_ty g)) Hfr); [now apply Hg| |]; unfold f_end in *; lia.
  - intros j Hj Hc. destruct Hfr as [_ Hout]. rewrite Hout; [now apply Hu|].
    destruct (Nat.lt_ge_cases j (f_off f)) as [H1|H1]; [now left|].
    destruct (Nat.lt_ge_cases j (f_end f)) as [H2|H2]; [|right; exact H2].
    exfalso. assert (Hc' : covered leaves j = true).
    { unfold covered. apply existsb_exists. exists f. split; [exact Hf|]. lia. }
    congruence.
Qed.

Theorem reach_invariant : forall leaves size m,
  layout_ok size leaves = true -> reach leaves size m -> reach_inv leaves size m = true.
Proof.
  intros leaves size m HL Hr. apply Inv_reach_inv. induction Hr.
  - now apply Inv_zero.
  - now apply Inv_set.
Qed.

