(* Float arrays: validate_many only converts Python's max and min.  When the FIRST element is not NaN those
   are true bounds, so an element whose magnitude is too large is always caught; from this follow the two
   obligations left open by Proofs/ValuesProofs.v (no element store can fail once validation passed) and
   Proofs/RefuseProofs.v (out-of-domain floats are refused).  Uses the Flocq-based facts of Proofs/FloatProofs.v. *)
From Coq Require Import ZArith List Bool Lia ZifyBool Arith.
From Val Require Import Gen.ValidatorTbl Model.Bytes Model.Floats Model.Values Spec.ValSpec
  Proofs.BytesProofs Proofs.ValuesProofs Proofs.RefuseProofs Proofs.XnumProofs Proofs.FloatProofs.
Import ListNotations.
Open Scope Z_scope.

Lemma T32z_pos : 0 < T32z. Proof. reflexivity. Qed.
Lemma thr64_pos : 0 < int_overflow_threshold. Proof. reflexivity. Qed.
Lemma T32z_lt_thr64 : T32z < int_overflow_threshold. Proof. reflexivity. Qed.

Lemma is_nan_val_nn : forall v, is_num v = true -> (is_nan_val v = false <-> nn v).
Proof.
  intros v Hv. unfold nn. destruct v; try discriminate; cbn [is_nan_val xnum_of xnum_of_int xis_nan]; try tauto.
  - destruct (xnum_of_f64 bits) eqn:E; cbn [xis_nan].
    + apply xnum_of_f64_nan in E. split; congruence.
    + split; auto. intros _. destruct (f64_is_nan bits) eqn:En; auto. apply xnum_of_f64_nan in En. congruence.
    + split; auto. intros _. destruct (f64_is_nan bits) eqn:En; auto. apply xnum_of_f64_nan in En. congruence.
  - destruct (xnum_of_f64 bits) eqn:E; cbn [xis_nan].
    + apply xnum_of_f64_nan in E. split; congruence.
    + split; auto. intros _. destruct (f64_is_nan bits) eqn:En; auto. apply xnum_of_f64_nan in En. congruence.
    + split; auto. intros _. destruct (f64_is_nan bits) eqn:En; auto. apply xnum_of_f64_nan in En. congruence.
Qed.

(* "t is a bound that this field cannot hold": the binary32 threshold for c_float, the int->double one always *)
Definition big_for (ct : Z * Z) (t : Z) : Prop := (t = T32z /\ snd ct = 4) \/ t = int_overflow_threshold.

Lemma xlt_thr_mono : forall x, xis_nan x = false -> xlt x (XFin int_overflow_threshold 0) = false ->
  xlt x (XFin T32z 0) = false.
Proof.
  intros x Hn H. destruct (xlt x (XFin T32z 0)) eqn:E; [|reflexivity].
  assert (Hl : xlt (XFin T32z 0) (XFin int_overflow_threshold 0) = true) by (rewrite xlt_int; reflexivity).
  rewrite (xlt_trans _ _ _ E Hl) in H. discriminate.
Qed.
Lemma xlt_thr_mono_neg : forall x, xis_nan x = false -> xlt (XFin (- int_overflow_threshold) 0) x = false ->
  xlt (XFin (- T32z) 0) x = false.
Proof.
  intros x Hn H. destruct (xlt (XFin (- T32z) 0) x) eqn:E; [|reflexivity].
  assert (Hl : xlt (XFin (- int_overflow_threshold) 0) (XFin (- T32z) 0) = true) by (rewrite xlt_int; reflexivity).
  rewrite (xlt_trans _ _ _ Hl E) in H. discriminate.
Qed.

(* a number beyond the bound cannot be converted quietly *)
Lemma conv_big : forall ct t v, fct_ok ct = true -> big_for ct t -> is_num v = true -> nn v ->
  (xlt (xnum_of v) (XFin t 0) = false \/ xlt (XFin (- t) 0) (xnum_of v) = false) ->
  float_isinf_conv (snd ct) v <> inr false.
Proof.
  intros ct t v Hct Hbig Hnum Hnn Hge. unfold fct_ok in Hct. unfold float_isinf_conv, num_to_f64.
  assert (Hfloat : forall b, xnum_of v = xnum_of_f64 b ->
            (if snd ct =? 4 then f32_is_inf (narrow_bits b) else f64_is_inf b) = true).
  { intros b Hb. rewrite Hb in *. unfold nn in Hnn.
    destruct (f64_is_nan b) eqn:En.
    { apply xnum_of_f64_nan in En. rewrite Hb, En in Hnn. discriminate. }
    destruct (f64_is_inf b) eqn:Ei.
    { destruct (snd ct =? 4); [now apply narrow_of_inf|reflexivity]. }
    destruct (xnum_of_f64 b) as [|s|m e] eqn:Ex.
    - apply xnum_of_f64_nan in Ex. congruence.
    - exfalso. apply xnum_of_f64_inf in Ex as [Ex _]. congruence.
    - pose proof (xnum_of_f64_fin_bound b m e Ex) as [Hb1 Hb2].
      assert (H32 : xlt (XFin m e) (XFin T32z 0) = false \/ xlt (XFin (- T32z) 0) (XFin m e) = false).
      { destruct Hbig as [[-> _]| ->]; [exact Hge|]. destruct Hge as [H|H]; congruence. }
      assert (Hc4 : snd ct =? 4 = true).
      { destruct Hbig as [[_ ?]| ->]; [lia|]. destruct Hge as [H|H]; congruence. }
      rewrite Hc4. rewrite narrow_inf_iff by assumption. rewrite Ex. unfold xabs_ge.
      destruct H32 as [H|H]; rewrite H; cbn [negb orb]; auto. apply orb_true_r. }
  assert (Hint : forall z, xnum_of v = XFin z 0 ->
            match int_to_f64 z with
            | Some b => (if snd ct =? 4 then f32_is_inf (narrow_bits b) else f64_is_inf b) = true
            | None => True end).
  { intros z Hz. rewrite Hz in Hge. rewrite !xlt_int in Hge.
    destruct (int_to_f64 z) as [b|] eqn:Ei; [|exact I].
    assert (Hthr : Z.abs z < int_overflow_threshold).
    { unfold int_to_f64 in Ei. destruct (int_overflow_threshold <=? Z.abs z) eqn:E; [discriminate|lia]. }
    destruct Hbig as [[-> Hc4]| ->]; [|lia].
    replace (snd ct =? 4) with true by lia.
    pose proof (int_to_f64_finite z b Ei) as [Hn Hi].
    rewrite narrow_inf_iff by assumption. apply (int_to_f64_ge_T32 z b Ei). lia. }
  destruct v; try discriminate Hnum; cbn [xnum_of] in *.
  - specialize (Hint z eq_refl). destruct (int_to_f64 z); [rewrite Hint|]; discriminate.
  - specialize (Hint (Z.b2z b) eq_refl). destruct (int_to_f64 (Z.b2z b)); [rewrite Hint|]; discriminate.
  - rewrite (Hfloat bits eq_refl). discriminate.
  - rewrite (Hfloat bits eq_refl). discriminate.
Qed.

(* validate_many catches a too-large element wherever it is, provided the first element is not NaN *)
Lemma big_item_refused : forall ct t x r y, fct_ok ct = true -> big_for ct t -> 0 < t ->
  forallb is_num (x :: r) = true -> is_nan_val x = false ->
  In y (x :: r) -> nn y -> xabs_ge (xnum_of y) t = true ->
  float_validate_many ct (x :: r) <> None.
Proof.
  intros ct t x r y Hct Hbig Ht Hnum Hx Hin Hny Hge. unfold float_validate_many. rewrite Hnum. cbn [negb].
  assert (Hnumx : is_num x = true) by (cbn [forallb] in Hnum; lia).
  assert (Hnx : nn x) by (now apply is_nan_val_nn).
  destruct (pymax_ub r x Hnx) as (HnM & HinM & HubM).
  destruct (pymin_lb r x Hnx) as (HnN & HinN & HlbN).
  rewrite forallb_forall in Hnum.
  unfold xabs_ge in Hge. apply orb_true_iff in Hge as [Hge|Hge]; apply negb_true_iff in Hge.
  - (* y >= t : the max is >= t *)
    assert (HM : xlt (xnum_of (pymax x r)) (XFin t 0) = false).
    { destruct (xlt (xnum_of (pymax x r)) (XFin t 0)) eqn:E; [|reflexivity].
      destruct (xlt_negtrans _ _ (xnum_of y) E Hny) as [H|H]; [|congruence].
      rewrite (HubM y Hin Hny) in H. discriminate. }
    pose proof (conv_big ct t (pymax x r) Hct Hbig (Hnum _ HinM) HnM (or_introl HM)) as Hc.
    destruct (float_isinf_conv (snd ct) (pymax x r)) as [e|[|]]; try discriminate. congruence.
  - (* y <= -t : the min is <= -t *)
    assert (HN : xlt (XFin (- t) 0) (xnum_of (pymin x r)) = false).
    { destruct (xlt (XFin (- t) 0) (xnum_of (pymin x r))) eqn:E; [|reflexivity].
      destruct (xlt_negtrans _ _ (xnum_of y) E Hny) as [H|H]; [congruence|].
      rewrite (HlbN y Hin Hny) in H. discriminate. }
    pose proof (conv_big ct t (pymin x r) Hct Hbig (Hnum _ HinN) HnN (or_intror HN)) as Hc.
    destruct (float_isinf_conv (snd ct) (pymax x r)) as [e|[|]]; try discriminate.
    destruct (float_isinf_conv (snd ct) (pymin x r)) as [e|[|]]; try discriminate. congruence.
Qed.

(* ---- obligation of Proofs/ValuesProofs.v ---- *)
Theorem float_items_ok : float_items_ok_stmt.
Proof.
  intros ct items Hct Hv Hhd.
  assert (Hnum : forallb is_num items = true).
  { unfold float_validate_many in Hv. destruct (forallb is_num items); [reflexivity|discriminate]. }
  destruct items as [|x r]; [constructor|].
  apply Forall_forall. intros y Hin. pose proof Hnum as Hnum'. rewrite forallb_forall in Hnum'.
  specialize (Hnum' y Hin). unfold fct_ok in Hct. unfold store_ok, cstore.
  replace (fst ct <=? 1) with false by lia. replace (fst ct =? 2) with true by lia.
  destruct y; try discriminate Hnum'; cbn [num_to_f64]; try (eexists; reflexivity).
  - destruct (int_to_f64 z) as [b|] eqn:Ei; [eexists; reflexivity|]. exfalso.
    unfold int_to_f64 in Ei. destruct (int_overflow_threshold <=? Z.abs z) eqn:E; [|discriminate].
    assert (Hge : xabs_ge (xnum_of (PInt z)) int_overflow_threshold = true).
    { cbn [xnum_of]. unfold xnum_of_int. rewrite xabs_ge_int. lia. }
    assert (Hbig : big_for ct int_overflow_threshold) by (now right).
    assert (Hnn : nn (PInt z)) by reflexivity.
    exact (big_item_refused ct int_overflow_threshold x r (PInt z) Hct Hbig thr64_pos Hnum Hhd Hin Hnn Hge Hv).
  - destruct b; cbn [Z.b2z]; (destruct (int_to_f64 _) eqn:Ei; [eexists; reflexivity|]); vm_compute in Ei; discriminate.
Qed.

(* ---- obligations of Proofs/RefuseProofs.v ---- *)
Lemma ood_float_big : forall ct v, fct_ok ct = true -> ood_float ct v = true -> is_num v = true ->
  exists t, big_for ct t /\ 0 < t /\ nn v /\ xabs_ge (xnum_of v) t = true.
Proof.
  intros ct v Hct H Hnum. unfold ood_float in H. apply andb_true_iff in H as [_ H].
  destruct v; try discriminate Hnum.
  - cbn [int_of] in H. destruct (snd ct =? 4) eqn:E4.
    + exists T32z. split; [left; lia|]. split; [reflexivity|]. split; [reflexivity|].
      cbn [xnum_of]. unfold xnum_of_int. rewrite xabs_ge_int. lia.
    + exists int_overflow_threshold. split; [now right|]. split; [reflexivity|]. split; [reflexivity|].
      cbn [xnum_of]. unfold xnum_of_int. rewrite xabs_ge_int. lia.
  - cbn [int_of] in H. destruct (snd ct =? 4) eqn:E4.
    + exists T32z. split; [left; lia|]. split; [reflexivity|]. split; [reflexivity|].
      cbn [xnum_of]. unfold xnum_of_int. rewrite xabs_ge_int. lia.
    + exists int_overflow_threshold. split; [now right|]. split; [reflexivity|]. split; [reflexivity|].
      cbn [xnum_of]. unfold xnum_of_int. rewrite xabs_ge_int. lia.
  - exists T32z. split; [left; lia|]. split; [reflexivity|].
    assert (Hn : f64_is_nan bits = false) by lia. split.
    + apply is_nan_val_nn; [reflexivity|exact Hn].
    + cbn [xnum_of]. lia.
  - discriminate.
Qed.

Theorem float_one_refuse : forall ct v, fct_ok ct = true -> ood_float ct v = true -> float_validate_one ct v <> None.
Proof.
  intros ct v Hct H. unfold float_validate_one.
  assert (Hc : is_cinst (fst ct) (snd ct) v = false) by (unfold ood_float in H; lia). rewrite Hc.
  destruct (is_num v) eqn:Hnum.
  - destruct (ood_float_big ct v Hct H Hnum) as (t & Hbig & Ht & Hnn & Hge).
    assert (Hconv : float_isinf_conv (snd ct) v <> inr false).
    { apply (conv_big ct t v Hct Hbig Hnum Hnn). unfold xabs_ge in Hge.
      apply orb_true_iff in Hge as [Hg|Hg]; apply negb_true_iff in Hg; auto. }
    destruct v; try discriminate Hnum;
      try (destruct (float_isinf_conv (snd ct) _) as [e|[|]]; try discriminate; congruence).
  - destruct v; try discriminate Hnum; discriminate.
Qed.

Theorem float_many_refuse : forall ct items, fct_ok ct = true ->
  match items with x :: _ => is_nan_val x = false | [] => True end ->
  existsb (ood_float ct) items = true -> float_validate_many ct items <> None.
Proof.
  intros ct items Hct Hhd Hex. apply existsb_exists in Hex as (y & Hin & Hy).
  destruct (forallb is_num items) eqn:Hnum.
  2:{ unfold float_validate_many. rewrite Hnum. discriminate. }
  destruct items as [|x r]; [contradiction|].
  pose proof Hnum as Hnum'. rewrite forallb_forall in Hnum'.
  destruct (ood_float_big ct y Hct Hy (Hnum' y Hin)) as (t & Hbig & Ht & Hnn & Hge).
  eapply big_item_refused; eauto.
Qed.

(* ---- the C09 theorems with the float obligations discharged ---- *)
Definition set_atomic_full := fun f k m v e m' => set_atomic f k m v e m' float_items_ok.
Definition set_refuse_full := set_refuse float_one_refuse float_many_refuse.
