(* Floats: a number whose magnitude reaches the overflow threshold cannot be converted quietly ([conv_big]);
   validate_many converts every element, so the two obligations left open by Proofs/ValuesProofs.v (no element
   store can fail once validation passed) and Proofs/RefuseProofs.v (out-of-domain floats are refused at every
   position) follow.  Uses the Flocq-based facts of Proofs/FloatProofs.v. *)
From Coq Require Import ZArith List Bool Lia ZifyBool Arith.
From Val Require Import Gen.ValidatorTbl Model.Bytes Model.Floats Model.Values Spec.ValSpec
  Proofs.BytesProofs Proofs.ValuesProofs Proofs.RefuseProofs Proofs.XnumProofs Proofs.FloatProofs.
Import ListNotations.
Open Scope Z_scope.

Lemma T32z_pos : 0 < T32z. Proof. reflexivity. Qed.
Lemma thr64_pos : 0 < int_overflow_threshold. Proof. reflexivity. Qed.
Lemma T32z_lt_thr64 : T32z < int_overflow_threshold. Proof. reflexivity. Qed.

Lemma f64_nn : forall b, f64_is_nan b = false -> xis_nan (xnum_of_f64 b) = false.
Proof.
  intros b Hn. destruct (xnum_of_f64 b) eqn:E; try reflexivity.
  apply xnum_of_f64_nan in E. congruence.
Qed.

(* "t is a bound that this field cannot hold": the binary32 threshold for c_float, the int->double one always *)
Definition big_for (ct : Z * Z) (t : Z) : Prop := (t = T32z /\ snd ct = 4) \/ t = int_overflow_threshold.

Lemma xlt_thr_mono : forall x, xis_nan x = false -> xlt x (XFin int_overflow_threshold 0) = false ->
  xlt x (XFin T32z 0) = false.
Proof.
  intros x Hn H. destruct (xlt x (XFin T32z 0)) eqn:E; [|reflexivity].
  assert (Hl : xlt (XFin T32z 0) (XFin int_overflow_threshold 0) = true) by (rewrite xlt_int; reflexivity).
  rewrite (xlt_trans _ _ _ E Hl) in H. discriminate.
Qed.
Lemma xlt_thr_mono_neg : forall x, xis_nan x = false -> xlt (XFin (- int_overflow_threshold) 0) x = false ->
  xlt (XFin (- T32z) 0) x = false.
Proof.
  intros x Hn H. destruct (xlt (XFin (- T32z) 0) x) eqn:E; [|reflexivity].
  assert (Hl : xlt (XFin (- int_overflow_threshold) 0) (XFin (- T32z) 0) = true) by (rewrite xlt_int; reflexivity).
  rewrite (xlt_trans _ _ _ Hl E) in H. discriminate.
Qed.

(* a number beyond the bound cannot be converted quietly *)
Lemma conv_big : forall ct t v, fct_ok ct = true -> big_for ct t -> is_num v = true -> nn v ->
  (xlt (xnum_of v) (XFin t 0) = false \/ xlt (XFin (- t) 0) (xnum_of v) = false) ->
  float_isinf_conv (snd ct) v <> inr false.
Proof.
  intros ct t v Hct Hbig Hnum Hnn Hge. unfold fct_ok in Hct. unfold float_isinf_conv, num_to_f64.
  assert (Hfloat : forall b, xnum_of v = xnum_of_f64 b ->
            (if snd ct =? 4 then f32_is_inf (narrow_bits b) else f64_is_inf b) = true).
  { intros b Hb. rewrite Hb in *. unfold nn in Hnn.
    destruct (f64_is_nan b) eqn:En.
    { apply xnum_of_f64_nan in En. rewrite Hb, En in Hnn. discriminate. }
    destruct (f64_is_inf b) eqn:Ei.
    { destruct (snd ct =? 4); [now apply narrow_of_inf|reflexivity]. }
    destruct (xnum_of_f64 b) as [|s|m e] eqn:Ex.
    - apply xnum_of_f64_nan in Ex. congruence.
    - exfalso. apply xnum_of_f64_inf in Ex as [Ex _]. congruence.
    - pose proof (xnum_of_f64_fin_bound b m e Ex) as [Hb1 Hb2].
      assert (H32 : xlt (XFin m e) (XFin T32z 0) = false \/ xlt (XFin (- T32z) 0) (XFin m e) = false).
      { destruct Hbig as [[-> _]| ->]; [exact Hge|]. destruct Hge as [H|H]; congruence. }
      assert (Hc4 : snd ct =? 4 = true).
      { destruct Hbig as [[_ ?]| ->]; [lia|]. destruct Hge as [H|H]; congruence. }
      rewrite Hc4. rewrite narrow_inf_iff by assumption. rewrite Ex. unfold xabs_ge.
      destruct H32 as [H|H]; rewrite H; cbn [negb orb]; auto. apply orb_true_r. }
  assert (Hint : forall z, xnum_of v = XFin z 0 ->
            match int_to_f64 z with
            | Some b => (if snd ct =? 4 then f32_is_inf (narrow_bits b) else f64_is_inf b) = true
            | None => True end).
  { intros z Hz. rewrite Hz in Hge. rewrite !xlt_int in Hge.
    destruct (int_to_f64 z) as [b|] eqn:Ei; [|exact I].
    assert (Hthr : Z.abs z < int_overflow_threshold).
    { unfold int_to_f64 in Ei. destruct (int_overflow_threshold <=? Z.abs z) eqn:E; [discriminate|lia]. }
    destruct Hbig as [[-> Hc4]| ->]; [|lia].
    replace (snd ct =? 4) with true by lia.
    pose proof (int_to_f64_finite z b Ei) as [Hn Hi].
    rewrite narrow_inf_iff by assumption. apply (int_to_f64_ge_T32 z b Ei). lia. }
  destruct v; try discriminate Hnum; cbn [xnum_of] in *.
  - specialize (Hint z eq_refl). destruct (int_to_f64 z); [rewrite Hint|]; discriminate.
  - specialize (Hint (Z.b2z b) eq_refl). destruct (int_to_f64 (Z.b2z b)); [rewrite Hint|]; discriminate.
  - rewrite (Hfloat bits eq_refl). discriminate.
  - rewrite (Hfloat bits eq_refl). discriminate.
Qed.

(* validate_many converts and tests every element *)
Lemma validate_many_all : forall ct items y, float_validate_many ct items = None -> In y items ->
  float_isinf_conv (snd ct) y = inr false.
Proof.
  induction items as [|x r IH]; intros y Hv Hin; [contradiction|]. cbn [float_validate_many] in Hv.
  destruct (float_isinf_conv (snd ct) x) as [e|[|]] eqn:E; try discriminate.
  destruct Hin as [<-|Hin]; [exact E|now apply IH].
Qed.

Lemma validate_many_raises : forall ct items y, In y items -> float_isinf_conv (snd ct) y <> inr false ->
  float_validate_many ct items <> None.
Proof.
  intros ct items y Hin Hy Hn. apply Hy. eapply validate_many_all; eauto.
Qed.

(* ---- obligation of Proofs/ValuesProofs.v: once validation passed, no element store can fail ---- *)
Theorem float_items_ok : float_items_ok_stmt.
Proof.
  intros ct items Hct Hv. apply Forall_forall. intros y Hin.
  pose proof (validate_many_all ct items y Hv Hin) as Hc. unfold fct_ok in Hct.
  unfold float_isinf_conv in Hc. destruct (num_to_f64 y) as [e|b] eqn:En; [discriminate|].
  unfold store_ok, cstore.
  destruct y; try (cbn [num_to_f64] in En; discriminate);
    replace (fst ct <=? 1) with false by lia; replace (fst ct =? 2) with true by lia; rewrite En; eexists; reflexivity.
Qed.

(* ---- obligations of Proofs/RefuseProofs.v ---- *)
Lemma ood_float_big : forall ct v, fct_ok ct = true -> ood_float ct v = true -> is_num v = true ->
  exists t, big_for ct t /\ 0 < t /\ nn v /\ xabs_ge (xnum_of v) t = true.
Proof.
  intros ct v Hct H Hnum. unfold ood_float in H. apply andb_true_iff in H as [_ H].
  destruct v; try discriminate Hnum.
  - cbn [int_of] in H. destruct (snd ct =? 4) eqn:E4.
    + exists T32z. split; [left; lia|]. split; [reflexivity|]. split; [reflexivity|].
      cbn [xnum_of]. unfold xnum_of_int. rewrite xabs_ge_int. lia.
    + exists int_overflow_threshold. split; [now right|]. split; [reflexivity|]. split; [reflexivity|].
      cbn [xnum_of]. unfold xnum_of_int. rewrite xabs_ge_int. lia.
  - cbn [int_of] in H. destruct (snd ct =? 4) eqn:E4.
    + exists T32z. split; [left; lia|]. split; [reflexivity|]. split; [reflexivity|].
      cbn [xnum_of]. unfold xnum_of_int. rewrite xabs_ge_int. lia.
    + exists int_overflow_threshold. split; [now right|]. split; [reflexivity|]. split; [reflexivity|].
      cbn [xnum_of]. unfold xnum_of_int. rewrite xabs_ge_int. lia.
  - assert (Hn : f64_is_nan bits = false) by lia.
    assert (Hnn : nn (PFloat bits)) by (unfold nn; cbn [xnum_of]; now apply f64_nn).
    destruct (snd ct =? 4) eqn:E4.
    + exists T32z. split; [left; lia|]. split; [reflexivity|]. split; [exact Hnn|]. cbn [xnum_of]. lia.
    + exists int_overflow_threshold. split; [now right|]. split; [reflexivity|]. split; [exact Hnn|].
      assert (Hi : f64_is_inf bits = true) by lia. cbn [xnum_of].
      destruct (xnum_of_f64 bits) as [|sg|mm ee] eqn:Ex.
      * apply xnum_of_f64_nan in Ex. congruence.
      * destruct sg; reflexivity.
      * exfalso. assert (Hx : xnum_of_f64 bits = XInf (f64_sign bits)) by (apply xnum_of_f64_inf; auto). congruence.
  - discriminate.
Qed.

Theorem float_one_refuse : forall ct v, fct_ok ct = true -> ood_float ct v = true -> float_validate_one ct v <> None.
Proof.
  intros ct v Hct H. unfold float_validate_one.
  assert (Hc : is_cinst (fst ct) (snd ct) v = false) by (unfold ood_float in H; lia). rewrite Hc.
  destruct (is_num v) eqn:Hnum.
  - destruct (ood_float_big ct v Hct H Hnum) as (t & Hbig & Ht & Hnn & Hge).
    assert (Hconv : float_isinf_conv (snd ct) v <> inr false).
    { apply (conv_big ct t v Hct Hbig Hnum Hnn). unfold xabs_ge in Hge.
      apply orb_true_iff in Hge as [Hg|Hg]; apply negb_true_iff in Hg; auto. }
    destruct v; try discriminate Hnum;
      try (destruct (float_isinf_conv (snd ct) _) as [e|[|]]; try discriminate; congruence).
  - destruct v; try discriminate Hnum; discriminate.
Qed.

Theorem float_many_refuse : forall ct items, fct_ok ct = true ->
  existsb (ood_float ct) items = true -> float_validate_many ct items <> None.
Proof.
  intros ct items Hct Hex. apply existsb_exists in Hex as (y & Hin & Hy).
  apply (validate_many_raises ct items y Hin).
  destruct (is_num y) eqn:Hnum.
  - destruct (ood_float_big ct y Hct Hy Hnum) as (t & Hbig & Ht & Hnn & Hge).
    apply (conv_big ct t y Hct Hbig Hnum Hnn). unfold xabs_ge in Hge.
    apply orb_true_iff in Hge as [Hg|Hg]; apply negb_true_iff in Hg; auto.
  - unfold float_isinf_conv, num_to_f64. destruct y; try discriminate Hnum; discriminate.
Qed.

(* ---- the C09 theorems with the float obligations discharged ---- *)
Definition set_atomic_full := fun f k m v e m' => set_atomic f k m v e m' float_items_ok.
Definition set_refuse_full := set_refuse float_one_refuse float_many_refuse.
