(* Proofs about the IEEE-754 part of the values model (Model/Floats.v).
   (A) f64_to_f32_correct : real-number characterisation of binary64 -> binary32 (RNE, overflow
       threshold T32 = 2^128 - 2^103), via the generic lemma round_overflow_iff.
   (B) bit-level and exact-number consequences (narrow_bits, xnum_of_f64, int_to_f64 lemmas).
   (C) round trips narrow_bits (widen_bits u) = u, widen_bits_range, widen_not_inf.
   No axioms beyond the stdlib Reals axioms pulled in by Flocq. *)
From Coq Require Import ZArith List Bool Lia Reals Psatz.
From Flocq Require Import Core.Core IEEE754.BinarySingleNaN IEEE754.Binary IEEE754.Bits.
From Val Require Import Model.Bytes Model.Floats.
Open Scope Z_scope.
Local Existing Instance Hprec32.
Local Existing Instance Hprec64.

Section Threshold.
Variable prec emax : Z.
Context (prec_gt_0_ : Prec_gt_0 prec).
Hypothesis Hmax : (prec < emax)%Z.
Let emin := (3 - emax - prec)%Z.
Let fexp := FLT_exp emin prec.

Definition thr : R := (bpow radix2 emax - bpow radix2 (emax - prec - 1))%R.

Let Hp : 0 < prec := prec_gt_0_.

Lemma fexp_emax : fexp emax = emax - prec.
Proof. unfold fexp, FLT_exp, emin. lia. Qed.

Lemma format_bpow_emax : generic_format radix2 fexp (bpow radix2 emax).
Proof.
  apply generic_format_bpow. unfold fexp, FLT_exp, emin. lia.
Qed.

Lemma pred_emax : pred radix2 fexp (bpow radix2 emax) = (bpow radix2 emax - bpow radix2 (emax - prec))%R.
Proof. rewrite pred_bpow, fexp_emax. reflexivity. Qed.

Lemma bpow_half : forall e, (bpow radix2 e = 2 * bpow radix2 (e - 1))%R.
Proof.
  intros e. replace e with (1 + (e - 1)) at 1 by ring. rewrite bpow_plus. reflexivity.
Qed.

Lemma thr_mid : thr = ((bpow radix2 emax + pred radix2 fexp (bpow radix2 emax)) / 2)%R.
Proof.
  rewrite pred_emax. unfold thr. rewrite (bpow_half (emax - prec)). lra.
Qed.

Lemma round_lt_thr : forall a, (a < thr)%R ->
  (round radix2 fexp ZnearestE a <= bpow radix2 emax - bpow radix2 (emax - prec))%R.
Proof.
  intros a Ha. rewrite <- pred_emax.
  apply (round_N_le_midp radix2 fexp).
  - apply (generic_format_pred radix2 fexp). apply format_bpow_emax.
  - rewrite (succ_pred radix2 fexp) by apply format_bpow_emax.
    rewrite thr_mid in Ha. lra.
Qed.

Lemma round_gt_thr : forall a, (thr < a)%R ->
  (bpow radix2 emax <= round radix2 fexp ZnearestE a)%R.
Proof.
  intros a Ha. apply (round_N_ge_midp radix2 fexp). apply format_bpow_emax.
  rewrite <- thr_mid. exact Ha.
Qed.

Lemma thr_pos : (bpow radix2 (emax - 1) <= thr < bpow radix2 emax)%R.
Proof.
  unfold thr. split.
  - rewrite (bpow_half emax).
    assert (bpow radix2 (emax - prec - 1) <= bpow radix2 (emax - 1))%R by (apply bpow_le; lia).
    lra.
  - pose proof (bpow_gt_0 radix2 (emax - prec - 1)). lra.
Qed.

Lemma round_eq_thr : round radix2 fexp ZnearestE thr = bpow radix2 emax.
Proof.
  pose proof thr_pos as Ht.
  assert (Hpos : (0 < thr)%R).
  { pose proof (bpow_gt_0 radix2 (emax - 1)). lra. }
  assert (Hmag : mag radix2 thr = emax :> Z).
  { apply mag_unique. rewrite Rabs_pos_eq by lra. exact Ht. }
  assert (Hc : cexp radix2 fexp thr = emax - prec).
  { unfold cexp. rewrite Hmag. apply fexp_emax. }
  assert (Hsm : scaled_mantissa radix2 fexp thr = (IZR (2 ^ prec - 1) + / 2)%R).
  { unfold scaled_mantissa. rewrite Hc. unfold thr.
    rewrite Rmult_minus_distr_r, <- !bpow_plus.
    replace (emax + - (emax - prec)) with prec by ring.
    replace (emax - prec - 1 + - (emax - prec)) with (-1) by ring.
    rewrite minus_IZR, (IZR_Zpower radix2) by lia.
    change (bpow radix2 (-1)) with (/ 2)%R. simpl (IZR 1). lra. }
  assert (Hfl : Zfloor (scaled_mantissa radix2 fexp thr) = 2 ^ prec - 1).
  { rewrite Hsm. apply Zfloor_imp. rewrite plus_IZR. simpl (IZR 1). lra. }
  assert (Hce : Zceil (scaled_mantissa radix2 fexp thr) = 2 ^ prec).
  { rewrite Hsm. apply Zceil_imp. replace (2 ^ prec - 1) with (2 ^ prec - 1)%Z by ring.
    rewrite !minus_IZR. simpl (IZR 1). lra. }
  unfold round, Znearest. rewrite Hfl, Hce.
  rewrite Hsm at 1.
  rewrite Rcompare_Eq by ring.
  replace (Z.even (2 ^ prec - 1)) with false.
  - simpl negb. cbv iota. rewrite Hc. unfold F2R. simpl Fnum. simpl Fexp.
    rewrite (IZR_Zpower radix2) by lia. rewrite <- bpow_plus. f_equal. ring.
  - rewrite Z.even_sub, Z.even_pow by lia. reflexivity.
Qed.

Theorem round_overflow_iff : forall r,
  Rlt_bool (Rabs (round radix2 fexp ZnearestE r)) (bpow radix2 emax) = Rlt_bool (Rabs r) thr.
Proof.
  intros r. rewrite <- (round_NE_abs radix2 fexp).
  set (a := Rabs r).
  destruct (Rlt_bool_spec a thr) as [H|H].
  - apply Rlt_bool_true. pose proof (round_lt_thr a H). pose proof (bpow_gt_0 radix2 (emax - prec)). lra.
  - apply Rlt_bool_false. destruct H as [H|H].
    + apply round_gt_thr, H.
    + rewrite <- H, round_eq_thr. apply Rle_refl.
Qed.

End Threshold.

Definition T32 : R := (bpow radix2 128 - bpow radix2 103)%R.

Lemma T32_thr : T32 = thr 24 128.
Proof. reflexivity. Qed.

Lemma B2FF_inf_inv : forall prec emax (y : Binary.binary_float prec emax) s,
  Binary.B2FF prec emax y = F754_infinity s -> y = B754_infinity prec emax s.
Proof.
  intros prec emax y s H. destruct y; simpl in H; try discriminate. now inversion H.
Qed.

Lemma F2R_cond_Zopp_sign : forall s m e,
  Rcompare (F2R (Float radix2 (cond_Zopp s (Zpos m)) e)) 0 = if s then Lt else Gt.
Proof.
  intros s m e. destruct s; simpl cond_Zopp.
  - apply Rcompare_Lt. apply F2R_lt_0. reflexivity.
  - apply Rcompare_Gt. apply F2R_gt_0. reflexivity.
Qed.

Theorem f64_to_f32_correct : forall x : binary64, Binary.is_finite 53 1024 x = true ->
  if Rlt_bool (Rabs (Binary.B2R 53 1024 x)) T32
  then Binary.is_finite 24 128 (f64_to_f32 x) = true /\
       Binary.B2R 24 128 (f64_to_f32 x) = round radix2 (FLT_exp (-149) 24) ZnearestE (Binary.B2R 53 1024 x) /\
       Binary.Bsign 24 128 (f64_to_f32 x) = Binary.Bsign 53 1024 x
  else f64_to_f32 x = B754_infinity 24 128 (Binary.Bsign 53 1024 x).
Proof.
  intros x Hx. destruct x as [s|s|s pl Hpl|s m e Hb]; try discriminate Hx.
  - simpl. rewrite Rabs_R0. rewrite Rlt_bool_true.
    + repeat split. symmetry. apply round_0. typeclasses eauto.
    + unfold T32. pose proof (thr_pos 24 128 eq_refl). unfold thr in H. simpl Z.sub in H.
      pose proof (bpow_gt_0 radix2 127). lra.
  - unfold f64_to_f32. simpl Binary.B2R. simpl Binary.Bsign.
    pose proof (Binary.binary_normalize_correct 24 128 Hprec32 Hmax32 mode_NE (cond_Zopp s (Zpos m)) e s) as H.
    simpl round_mode in H.
    change (SpecFloat.fexp 24 128) with (FLT_exp (3 - 128 - 24) 24) in H.
    rewrite (round_overflow_iff 24 128 eq_refl eq_refl) in H.
    rewrite <- T32_thr in H.
    destruct (Rlt_bool (Rabs (F2R (Float radix2 (cond_Zopp s (Zpos m)) e))) T32).
    + destruct H as (H1 & H2 & H3). split; [exact H2|]. split; [exact H1|].
      rewrite H3. rewrite F2R_cond_Zopp_sign. now destruct s.
    + apply B2FF_inf_inv. rewrite H.
      destruct s; simpl cond_Zopp.
      * rewrite Rlt_bool_true by (apply F2R_lt_0; reflexivity). reflexivity.
      * rewrite Rlt_bool_false by (apply F2R_ge_0; discriminate). reflexivity.
Qed.



(* ------------------------------------------------------------------ *)

Definition ff_of_fields (mw emin emaxf : Z) (s : bool) (m e : Z) : full_float :=
  if Zeq_bool e 0 then
    match m with
    | Z0 => F754_zero s
    | Zpos px => F754_finite s px emin
    | Zneg _ => F754_nan false xH
    end
  else if Zeq_bool e emaxf then
    match m with
    | Z0 => F754_infinity s
    | Zpos plx => F754_nan s plx
    | Zneg _ => F754_nan false xH
    end
  else
    match (m + Zpower 2 mw)%Z with
    | Zpos px => F754_finite s px (e + emin - 1)
    | _ => F754_nan false xH
    end.

Lemma b64_of_bits_B2FF : forall b,
  Binary.B2FF 53 1024 (b64_of_bits (b mod two64)) =
  ff_of_fields 52 (-1074) 2047 (f64_sign b) (f64_man b) (f64_exp b).
Proof.
  intros b. unfold b64_of_bits, binary_float_of_bits. rewrite Binary.B2FF_FF2B.
  reflexivity.
Qed.

Lemma b32_of_bits_B2FF : forall b,
  Binary.B2FF 24 128 (b32_of_bits (b mod two32)) =
  ff_of_fields 23 (-149) 255 (f32_sign b) (f32_man b) (f32_exp b).
Proof.
  intros b. unfold b32_of_bits, binary_float_of_bits. rewrite Binary.B2FF_FF2B.
  reflexivity.
Qed.

Definition is_inf_FF (f : full_float) : bool := match f with F754_infinity _ => true | _ => false end.
Definition is_infb {prec emax} (y : Binary.binary_float prec emax) : bool :=
  match y with B754_infinity _ _ _ => true | _ => false end.

Lemma is_infb_B2FF : forall prec emax (y : Binary.binary_float prec emax),
  is_infb y = is_inf_FF (Binary.B2FF prec emax y).
Proof. intros prec emax y. now destruct y. Qed.

Lemma ff_fields_nan : forall mw emin emaxf s m e, 0 <= mw -> 0 <= m -> emaxf <> 0 ->
  is_nan_FF (ff_of_fields mw emin emaxf s m e) = (e =? emaxf) && negb (m =? 0).
Proof.
  intros mw emin emaxf s m e Hmw Hm Hf. unfold ff_of_fields.
  assert (0 < 2 ^ mw) by (apply Z.pow_pos_nonneg; lia).
  destruct (Zeq_bool_spec e 0) as [E0|E0].
  - replace (e =? emaxf) with false by (symmetry; apply Z.eqb_neq; lia).
    destruct m; try reflexivity. lia.
  - destruct (Zeq_bool_spec e emaxf) as [E1|E1].
    + rewrite (proj2 (Z.eqb_eq _ _) E1). destruct m; try reflexivity; lia.
    + rewrite (proj2 (Z.eqb_neq _ _) E1). destruct (m + 2 ^ mw) eqn:E; try reflexivity; lia.
Qed.

Lemma ff_fields_inf_iff : forall mw emin emaxf s m e s', 0 <= mw -> 0 <= m -> emaxf <> 0 ->
  ff_of_fields mw emin emaxf s m e = F754_infinity s' <-> (e = emaxf /\ m = 0 /\ s = s').
Proof.
  intros mw emin emaxf s m e s' Hmw Hm Hf. unfold ff_of_fields.
  assert (0 < 2 ^ mw) by (apply Z.pow_pos_nonneg; lia).
  destruct (Zeq_bool_spec e 0) as [E0|E0].
  - split; [destruct m; discriminate | lia].
  - destruct (Zeq_bool_spec e emaxf) as [E1|E1].
    + destruct m; (split; [intros H1; try discriminate H1; inversion H1; auto | intros (_ & H1 & H2); try discriminate H1; subst; auto]).
    + split; [destruct (m + 2 ^ mw); discriminate | tauto].
Qed.

Lemma ff_fields_inf : forall mw emin emaxf s m e, 0 <= mw -> 0 <= m -> emaxf <> 0 ->
  is_inf_FF (ff_of_fields mw emin emaxf s m e) = (e =? emaxf) && (m =? 0).
Proof.
  intros mw emin emaxf s m e Hmw Hm Hf.
  pose proof (fun s' => ff_fields_inf_iff mw emin emaxf s m e s' Hmw Hm Hf) as H.
  destruct (ff_of_fields mw emin emaxf s m e) eqn:E;
  try (simpl; symmetry; apply andb_false_iff;
       destruct (Z.eqb_spec e emaxf); [|now left]; destruct (Z.eqb_spec m 0); [|now right];
       exfalso; assert (X : ff_of_fields mw emin emaxf s m e = F754_infinity s) by (rewrite E; apply H; auto);
       rewrite E in X; discriminate X).
  simpl. symmetry. destruct (proj1 (H s0) eq_refl) as (H1 & H2 & _). subst. now rewrite !Z.eqb_refl.
Qed.

Lemma f64_man_range : forall b, 0 <= f64_man b < 2 ^ 52.
Proof. intros b. unfold f64_man. apply Z.mod_pos_bound. reflexivity. Qed.
Lemma f64_exp_range : forall b, 0 <= f64_exp b < 2048.
Proof. intros b. unfold f64_exp. apply Z.mod_pos_bound. reflexivity. Qed.
Lemma f32_man_range : forall b, 0 <= f32_man b < 2 ^ 23.
Proof. intros b. unfold f32_man. apply Z.mod_pos_bound. reflexivity. Qed.
Lemma f32_exp_range : forall b, 0 <= f32_exp b < 256.
Proof. intros b. unfold f32_exp. apply Z.mod_pos_bound. reflexivity. Qed.

Lemma b64_of_bits_is_nan : forall b, Binary.is_nan 53 1024 (b64_of_bits (b mod two64)) = f64_is_nan b.
Proof.
  intros b. rewrite <- Binary.is_nan_B2FF, b64_of_bits_B2FF.
  apply ff_fields_nan; try lia. apply f64_man_range.
Qed.
Lemma b64_of_bits_is_inf : forall b, is_infb (b64_of_bits (b mod two64)) = f64_is_inf b.
Proof.
  intros b. rewrite is_infb_B2FF, b64_of_bits_B2FF.
  apply ff_fields_inf; try lia. apply f64_man_range.
Qed.
Lemma b32_of_bits_is_nan : forall b, Binary.is_nan 24 128 (b32_of_bits (b mod two32)) = f32_is_nan b.
Proof.
  intros b. rewrite <- Binary.is_nan_B2FF, b32_of_bits_B2FF.
  apply ff_fields_nan; try lia. apply f32_man_range.
Qed.
Lemma b32_of_bits_is_inf : forall b, is_infb (b32_of_bits (b mod two32)) = f32_is_inf b.
Proof.
  intros b. rewrite is_infb_B2FF, b32_of_bits_B2FF.
  apply ff_fields_inf; try lia. apply f32_man_range.
Qed.

Lemma b64_of_bits_inf_iff : forall b s,
  b64_of_bits (b mod two64) = B754_infinity 53 1024 s <-> (f64_is_inf b = true /\ f64_sign b = s).
Proof.
  intros b s. split.
  - intros H. pose proof (b64_of_bits_B2FF b) as H1. rewrite H in H1. simpl in H1. symmetry in H1.
    apply ff_fields_inf_iff in H1; try lia; [|apply f64_man_range].
    destruct H1 as (H1 & H2 & H3). split; [|exact H3]. unfold f64_is_inf. rewrite H1, H2. reflexivity.
  - intros (H1 & H2). apply B2FF_inf_inv. rewrite b64_of_bits_B2FF.
    apply ff_fields_inf_iff; try lia; [apply f64_man_range|].
    unfold f64_is_inf in H1. apply andb_true_iff in H1. destruct H1 as (H1 & H3).
    apply Z.eqb_eq in H1, H3. auto.
Qed.

Lemma b32_of_bits_inf_iff : forall b s,
  b32_of_bits (b mod two32) = B754_infinity 24 128 s <-> (f32_is_inf b = true /\ f32_sign b = s).
Proof.
  intros b s. split.
  - intros H. pose proof (b32_of_bits_B2FF b) as H1. rewrite H in H1. simpl in H1. symmetry in H1.
    apply ff_fields_inf_iff in H1; try lia; [|apply f32_man_range].
    destruct H1 as (H1 & H2 & H3). split; [|exact H3]. unfold f32_is_inf. rewrite H1, H2. reflexivity.
  - intros (H1 & H2). apply B2FF_inf_inv. rewrite b32_of_bits_B2FF.
    apply ff_fields_inf_iff; try lia; [apply f32_man_range|].
    unfold f32_is_inf in H1. apply andb_true_iff in H1. destruct H1 as (H1 & H3).
    apply Z.eqb_eq in H1, H3. auto.
Qed.

(* bits_of direction *)
Lemma bits_of_b64_range : forall y, 0 <= bits_of_b64 y < 2 ^ 64.
Proof. intros y. apply (bits_of_binary_float_range 52 11); reflexivity. Qed.
Lemma bits_of_b32_range : forall y, 0 <= bits_of_b32 y < 2 ^ 32.
Proof. intros y. apply (bits_of_binary_float_range 23 8); reflexivity. Qed.

Lemma b64_of_bits_of_b64 : forall y, b64_of_bits (bits_of_b64 y mod two64) = y.
Proof.
  intros y. rewrite Z.mod_small by apply bits_of_b64_range.
  exact (binary_float_of_bits_of_binary_float 52 11 eq_refl eq_refl eq_refl y).
Qed.
Lemma b32_of_bits_of_b32 : forall y, b32_of_bits (bits_of_b32 y mod two32) = y.
Proof.
  intros y. rewrite Z.mod_small by apply bits_of_b32_range.
  exact (binary_float_of_bits_of_binary_float 23 8 eq_refl eq_refl eq_refl y).
Qed.

Lemma f64_is_nan_bits : forall y, f64_is_nan (bits_of_b64 y) = Binary.is_nan 53 1024 y.
Proof. intros y. rewrite <- b64_of_bits_is_nan, b64_of_bits_of_b64. reflexivity. Qed.
Lemma f64_is_inf_bits : forall y, f64_is_inf (bits_of_b64 y) = is_infb y.
Proof. intros y. rewrite <- b64_of_bits_is_inf, b64_of_bits_of_b64. reflexivity. Qed.
Lemma f32_is_nan_bits : forall y, f32_is_nan (bits_of_b32 y) = Binary.is_nan 24 128 y.
Proof. intros y. rewrite <- b32_of_bits_is_nan, b32_of_bits_of_b32. reflexivity. Qed.
Lemma f32_is_inf_bits : forall y, f32_is_inf (bits_of_b32 y) = is_infb y.
Proof. intros y. rewrite <- b32_of_bits_is_inf, b32_of_bits_of_b32. reflexivity. Qed.

(* ---- Z.lor helper ---- *)
Lemma lor_split : forall a p n, 0 <= n ->
  Z.lor a p = Z.lor (a / 2 ^ n) (p / 2 ^ n) * 2 ^ n + Z.lor (a mod 2 ^ n) (p mod 2 ^ n).
Proof.
  intros a p n Hn.
  rewrite (Z.div_mod (Z.lor a p) (2 ^ n)) at 1 by (apply Z.pow_nonzero; lia).
  rewrite <- !Z.shiftr_div_pow2, Z.shiftr_lor by lia.
  rewrite <- !Z.land_ones, Z.land_lor_distr_l by lia.
  ring.
Qed.

Lemma narrow_nan_lor : forall p, 0 <= p < 2 ^ 23 ->
  Z.lor 2143289344 p = 2143289344 + p mod 4194304.
Proof.
  intros p Hp. rewrite (lor_split 2143289344 p 22) by lia.
  change (2143289344 / 2 ^ 22) with 511. change (2143289344 mod 2 ^ 22) with 0.
  rewrite Z.lor_0_l. change (2 ^ 22) with 4194304.
  assert (H : p / 4194304 = 0 \/ p / 4194304 = 1).
  { assert (0 <= p / 4194304 < 2) by (split; [apply Z.div_pos; lia | apply Z.div_lt_upper_bound; lia]). lia. }
  destruct H as [H|H]; rewrite H; reflexivity.
Qed.

Lemma widen_nan_lor : forall p, 0 <= p < 2 ^ 52 ->
  Z.lor 9221120237041090560 p = 9221120237041090560 + p mod 2251799813685248.
Proof.
  intros p Hp. rewrite (lor_split 9221120237041090560 p 51) by lia.
  change (9221120237041090560 / 2 ^ 51) with 4095. change (9221120237041090560 mod 2 ^ 51) with 0.
  rewrite Z.lor_0_l. change (2 ^ 51) with 2251799813685248.
  assert (H : p / 2251799813685248 = 0 \/ p / 2251799813685248 = 1).
  { assert (0 <= p / 2251799813685248 < 2) by (split; [apply Z.div_pos; lia | apply Z.div_lt_upper_bound; lia]). lia. }
  destruct H as [H|H]; rewrite H; reflexivity.
Qed.

Lemma narrow_bits_range : forall b, 0 <= narrow_bits b < 2 ^ 32.
Proof.
  intros b. unfold narrow_bits. destruct (f64_is_nan b).
  - pose proof (f64_man_range b) as Hm.
    assert (Hp : 0 <= f64_man b / 536870912 < 2 ^ 23).
    { split; [apply Z.div_pos; lia | apply Z.div_lt_upper_bound; lia]. }
    rewrite narrow_nan_lor by exact Hp.
    pose proof (Z.mod_pos_bound (f64_man b / 536870912) 4194304 eq_refl).
    unfold two31. destruct (f64_sign b); lia.
  - apply bits_of_b32_range.
Qed.



(* ------------------------------------------------------------------ *)

Lemma f64_inf_not_nan : forall b, f64_is_inf b = true -> f64_is_nan b = false.
Proof.
  intros b H. unfold f64_is_inf in H. unfold f64_is_nan.
  apply andb_true_iff in H. destruct H as (H1 & H2). rewrite H1, H2. reflexivity.
Qed.

Lemma narrow_of_inf : forall b, f64_is_inf b = true -> f32_is_inf (narrow_bits b) = true.
Proof.
  intros b H. unfold narrow_bits. rewrite (f64_inf_not_nan b H).
  rewrite (proj2 (b64_of_bits_inf_iff b (f64_sign b)) (conj H eq_refl)).
  simpl f64_to_f32. rewrite f32_is_inf_bits. reflexivity.
Qed.

Lemma narrow_nan_form : forall b, f64_is_nan b = true ->
  narrow_bits b = (if f64_sign b then two31 else 0) + 2143289344 + (f64_man b / 536870912) mod 4194304.
Proof.
  intros b H. unfold narrow_bits. rewrite H.
  pose proof (f64_man_range b) as Hm.
  rewrite narrow_nan_lor; [ring|].
  split; [apply Z.div_pos; lia | apply Z.div_lt_upper_bound; lia].
Qed.

Lemma narrow_nan : forall b, f64_is_nan b = true -> f32_is_nan (narrow_bits b) = true /\ f32_is_inf (narrow_bits b) = false.
Proof.
  intros b H. rewrite (narrow_nan_form b H).
  pose proof (Z.mod_pos_bound (f64_man b / 536870912) 4194304 eq_refl) as Hq.
  set (q := (f64_man b / 536870912) mod 4194304) in *. clearbody q.
  unfold f32_is_nan, f32_is_inf, f32_exp, f32_man, two32, two31.
  assert (E : forall k, k = 255 \/ k = 511 ->
     ((4194304 + q + k * 8388608) mod 4294967296 / 8388608) mod 256 = 255 /\
     ((4194304 + q + k * 8388608) mod 4294967296) mod 8388608 = 4194304 + q).
  { intros k Hk. rewrite (Z.mod_small (4194304 + q + k * 8388608)) by lia.
    rewrite Z.div_add, (Z.div_small (4194304 + q)), Z.mod_add, (Z.mod_small (4194304 + q)) by lia.
    split; [|reflexivity]. destruct Hk; subst k; reflexivity. }
  replace ((if f64_sign b then 2147483648 else 0) + 2143289344 + q)
    with (4194304 + q + (if f64_sign b then 511 else 255) * 8388608) by (destruct (f64_sign b); ring).
  destruct (E (if f64_sign b then 511 else 255)) as (E1 & E2).
  { destruct (f64_sign b); auto. }
  rewrite E1, E2. simpl (255 =? 255).
  replace (4194304 + q =? 0) with false by (symmetry; apply Z.eqb_neq; lia).
  split; reflexivity.
Qed.

Lemma f64_to_f32_not_nan : forall x, Binary.is_nan 24 128 (f64_to_f32 x) = false.
Proof.
  intros x. destruct x as [s|s|s pl Hpl|s m e Hb]; try reflexivity.
  pose proof (f64_to_f32_correct (B754_finite 53 1024 s m e Hb) eq_refl) as H.
  destruct (Rlt_bool _ _).
  - destruct H as (H & _). destruct (f64_to_f32 _); try reflexivity; discriminate H.
  - rewrite H. reflexivity.
Qed.

Lemma narrow_not_nan : forall b, f64_is_nan b = false -> f32_is_nan (narrow_bits b) = false.
Proof.
  intros b H. unfold narrow_bits. rewrite H. rewrite f32_is_nan_bits. apply f64_to_f32_not_nan.
Qed.

Lemma xnum_of_f64_nan : forall b, xnum_of_f64 b = XNaN <-> f64_is_nan b = true.
Proof.
  intros b. rewrite <- b64_of_bits_is_nan. unfold xnum_of_f64.
  destruct (b64_of_bits (b mod two64)); simpl; split; intros H; try discriminate H; reflexivity.
Qed.

Lemma xnum_of_f64_inf : forall b s, xnum_of_f64 b = XInf s <-> (f64_is_inf b = true /\ f64_sign b = s).
Proof.
  intros b s. rewrite <- b64_of_bits_inf_iff. unfold xnum_of_f64.
  destruct (b64_of_bits (b mod two64)); simpl; split; intros H; try discriminate H; inversion H; reflexivity.
Qed.


(* ------------------------------------------------------------------ *)

Definition xn (x : binary64) : xnum :=
  match x with
  | B754_zero _ _ _ => XFin 0 0
  | B754_infinity _ _ s => XInf s
  | B754_nan _ _ _ _ _ => XNaN
  | B754_finite _ _ s m e _ => XFin (cond_Zopp s (Zpos m)) e
  end.

Lemma xnum_of_f64_xn : forall b, xnum_of_f64 b = xn (b64_of_bits (b mod two64)).
Proof. reflexivity. Qed.

Lemma xn_fin_inv : forall x m e, xn x = XFin m e ->
  Binary.is_finite 53 1024 x = true /\ F2R (Float radix2 m e) = Binary.B2R 53 1024 x.
Proof.
  intros x m e H. destruct x; simpl in H; try discriminate H; inversion H; subst; simpl; split; auto.
  apply F2R_0.
Qed.

Lemma xn_finite : forall x, Binary.is_finite 53 1024 x = true ->
  exists m e, xn x = XFin m e /\ F2R (Float radix2 m e) = Binary.B2R 53 1024 x.
Proof.
  intros x H. destruct x; try discriminate H; simpl.
  - exists 0, 0. split; auto. apply F2R_0.
  - eexists _, _. split; reflexivity.
Qed.

Lemma xlt_F2R : forall m1 e1 m2 e2,
  xlt (XFin m1 e1) (XFin m2 e2) = Rlt_bool (F2R (Float radix2 m1 e1)) (F2R (Float radix2 m2 e2)).
Proof.
  intros m1 e1 m2 e2. unfold xlt, xfin_cmp. cbv zeta.
  set (e := Z.min e1 e2).
  rewrite (F2R_change_exp radix2 e m1 e1) by (unfold e; lia).
  rewrite (F2R_change_exp radix2 e m2 e2) by (unfold e; lia).
  unfold Rlt_bool. rewrite Rcompare_F2R. reflexivity.
Qed.

Lemma F2R_exp0 : forall t, F2R (Float radix2 t 0) = IZR t.
Proof. intros t. unfold F2R. simpl. ring. Qed.

Lemma xabs_ge_F2R : forall m e t,
  xabs_ge (XFin m e) t = negb (Rlt_bool (Rabs (F2R (Float radix2 m e))) (IZR t)).
Proof.
  intros m e t. unfold xabs_ge. rewrite !xlt_F2R, !F2R_exp0, opp_IZR.
  set (v := F2R (Float radix2 m e)). set (T := IZR t).
  destruct (Rlt_bool_spec v T), (Rlt_bool_spec (- T) v), (Rlt_bool_spec (Rabs v) T); simpl; try reflexivity;
  exfalso; revert H1; unfold Rabs; destruct (Rcase_abs v); lra.
Qed.

Lemma IZR_T32z : IZR T32z = T32.
Proof.
  unfold T32z, T32. rewrite minus_IZR. rewrite !(IZR_Zpower radix2) by lia. reflexivity.
Qed.

Lemma IZR_T64z : IZR int_overflow_threshold = thr 53 1024.
Proof.
  unfold int_overflow_threshold, thr. rewrite minus_IZR. rewrite !(IZR_Zpower radix2) by lia. reflexivity.
Qed.


(* ------------------------------------------------------------------ *)

Lemma finite_of_not_nan_inf : forall prec emax (x : Binary.binary_float prec emax),
  Binary.is_nan prec emax x = false -> is_infb x = false -> Binary.is_finite prec emax x = true.
Proof. intros prec emax x. destruct x; simpl; congruence. Qed.

Lemma finite_not_infb : forall prec emax (x : Binary.binary_float prec emax),
  Binary.is_finite prec emax x = true -> is_infb x = false.
Proof. intros prec emax x. destruct x; simpl; congruence. Qed.

Lemma finite_not_nan : forall prec emax (x : Binary.binary_float prec emax),
  Binary.is_finite prec emax x = true -> Binary.is_nan prec emax x = false.
Proof. intros prec emax x. destruct x; simpl; congruence. Qed.

Lemma narrow_inf_iff : forall b, f64_is_nan b = false -> f64_is_inf b = false ->
  f32_is_inf (narrow_bits b) = xabs_ge (xnum_of_f64 b) T32z.
Proof.
  intros b Hn Hi. unfold narrow_bits. rewrite Hn, xnum_of_f64_xn, f32_is_inf_bits.
  rewrite <- b64_of_bits_is_nan in Hn. rewrite <- b64_of_bits_is_inf in Hi.
  set (x := b64_of_bits (b mod two64)) in *.
  pose proof (finite_of_not_nan_inf _ _ x Hn Hi) as Hf.
  destruct (xn_finite x Hf) as (m & e & E1 & E2).
  rewrite E1, xabs_ge_F2R, E2, IZR_T32z.
  pose proof (f64_to_f32_correct x Hf) as H.
  destruct (Rlt_bool (Rabs (Binary.B2R 53 1024 x)) T32).
  - destruct H as (H & _). simpl. apply finite_not_infb, H.
  - rewrite H. reflexivity.
Qed.

Lemma xnum_of_f64_fin_bound : forall b m e, xnum_of_f64 b = XFin m e ->
  xlt (XFin m e) (XFin int_overflow_threshold 0) = true /\ xlt (XFin (- int_overflow_threshold) 0) (XFin m e) = true.
Proof.
  intros b m e H. rewrite xnum_of_f64_xn in H. apply xn_fin_inv in H. destruct H as (_ & H).
  rewrite !xlt_F2R, !F2R_exp0, opp_IZR, IZR_T64z, H.
  pose proof (Binary.abs_B2R_le_emax_minus_prec 53 1024 Hprec64 (b64_of_bits (b mod two64))) as Hb.
  set (v := Binary.B2R 53 1024 _) in *.
  assert (Hlt : (bpow radix2 1024 - bpow radix2 (1024 - 53) < thr 53 1024)%R).
  { unfold thr. assert (bpow radix2 (1024 - 53 - 1) < bpow radix2 (1024 - 53))%R by (apply bpow_lt; lia). lra. }
  split; apply Rlt_bool_true; revert Hb; unfold Rabs; destruct (Rcase_abs v); lra.
Qed.

Lemma int_norm_correct : forall z, Z.abs z < int_overflow_threshold ->
  let y := Binary.binary_normalize 53 1024 Hprec64 Hmax64 mode_NE z 0 false in
  Binary.is_finite 53 1024 y = true /\
  Binary.B2R 53 1024 y = round radix2 (FLT_exp (-1074) 53) ZnearestE (IZR z).
Proof.
  intros z Hz y.
  pose proof (Binary.binary_normalize_correct 53 1024 Hprec64 Hmax64 mode_NE z 0 false) as H.
  fold y in H. simpl round_mode in H.
  change (SpecFloat.fexp 53 1024) with (FLT_exp (3 - 1024 - 53) 53) in H.
  rewrite (round_overflow_iff 53 1024 eq_refl eq_refl) in H.
  rewrite F2R_exp0 in H.
  rewrite Rlt_bool_true in H.
  - destruct H as (H1 & H2 & _). split; [exact H2|exact H1].
  - rewrite <- abs_IZR, <- IZR_T64z. apply IZR_lt, Hz.
Qed.

Lemma int_to_f64_inv : forall z b, int_to_f64 z = Some b ->
  Z.abs z < int_overflow_threshold /\
  b = bits_of_b64 (Binary.binary_normalize 53 1024 Hprec64 Hmax64 mode_NE z 0 false).
Proof.
  intros z b H. unfold int_to_f64 in H.
  destruct (Z.leb_spec int_overflow_threshold (Z.abs z)); [discriminate H|].
  inversion H. auto.
Qed.

Lemma int_to_f64_finite : forall z b, int_to_f64 z = Some b -> f64_is_nan b = false /\ f64_is_inf b = false.
Proof.
  intros z b H. apply int_to_f64_inv in H. destruct H as (Hz & ->).
  destruct (int_norm_correct z Hz) as (Hf & _).
  rewrite f64_is_nan_bits, f64_is_inf_bits. split.
  - apply finite_not_nan, Hf.
  - apply finite_not_infb, Hf.
Qed.

Lemma T32z_format64 : generic_format radix2 (FLT_exp (-1074) 53) (IZR T32z).
Proof.
  apply generic_format_FLT. apply (FLT_spec radix2 (-1074) 53 _ (Float radix2 (2 ^ 25 - 1) 103)).
  - unfold F2R. simpl Fnum. simpl Fexp. rewrite <- (IZR_Zpower radix2) by lia. rewrite <- mult_IZR.
    f_equal.
  - simpl Fnum. apply Z.abs_lt. split; [now apply Z.lt_trans with 0|]. reflexivity.
  - simpl. lia.
Qed.

Lemma int_to_f64_ge_T32 : forall z b, int_to_f64 z = Some b -> T32z <= Z.abs z -> xabs_ge (xnum_of_f64 b) T32z = true.
Proof.
  intros z b H Hge. apply int_to_f64_inv in H. destruct H as (Hz & ->).
  destruct (int_norm_correct z Hz) as (Hf & Hr).
  rewrite xnum_of_f64_xn, b64_of_bits_of_b64.
  set (y := Binary.binary_normalize 53 1024 Hprec64 Hmax64 mode_NE z 0 false) in *.
  destruct (xn_finite y Hf) as (m & e & E1 & E2).
  rewrite E1, xabs_ge_F2R, E2, Hr.
  rewrite <- (round_NE_abs radix2 (FLT_exp (-1074) 53)).
  rewrite Rlt_bool_false; [reflexivity|].
  rewrite <- (round_generic radix2 (FLT_exp (-1074) 53) ZnearestE (IZR T32z)) by apply T32z_format64.
  apply round_le; try typeclasses eauto.
  rewrite <- abs_IZR. apply IZR_le, Hge.
Qed.

(* ------------------------------------------------------------------ *)
(* (C) round trips *)

Lemma format32_format64 : forall r, generic_format radix2 (FLT_exp (-149) 24) r ->
  generic_format radix2 (FLT_exp (-1074) 53) r.
Proof.
  intros r H. apply generic_inclusion_mag with (2 := H).
  intros _. unfold FLT_exp. lia.
Qed.

Lemma f32_to_f64_correct : forall y : binary32, Binary.is_finite 24 128 y = true ->
  Binary.is_finite 53 1024 (f32_to_f64 y) = true /\
  Binary.B2R 53 1024 (f32_to_f64 y) = Binary.B2R 24 128 y /\
  Binary.Bsign 53 1024 (f32_to_f64 y) = Binary.Bsign 24 128 y.
Proof.
  intros y Hy. destruct y as [s|s|s pl Hpl|s m e Hb]; try discriminate Hy.
  - simpl. auto.
  - unfold f32_to_f64.
    pose proof (Binary.binary_normalize_correct 53 1024 Hprec64 Hmax64 mode_NE (cond_Zopp s (Zpos m)) e s) as H.
    simpl round_mode in H.
    change (SpecFloat.fexp 53 1024) with (FLT_exp (-1074) 53) in H.
    assert (HB : Binary.B2R 24 128 (B754_finite 24 128 s m e Hb) = F2R (Float radix2 (cond_Zopp s (Zpos m)) e)) by reflexivity.
    rewrite <- HB in H.
    rewrite round_generic in H; [| typeclasses eauto |].
    2:{ apply format32_format64. apply (Binary.generic_format_B2R 24 128). }
    rewrite Rlt_bool_true in H.
    + destruct H as (H1 & H2 & H3). split; [exact H2|]. split; [exact H1|].
      rewrite H3, HB, F2R_cond_Zopp_sign. simpl. now destruct s.
    + apply Rlt_trans with (bpow radix2 128).
      * apply (Binary.abs_B2R_lt_emax 24 128).
      * apply bpow_lt. reflexivity.
Qed.

Lemma f64_to_f32_to_f64 : forall y : binary32, Binary.is_nan 24 128 y = false ->
  f64_to_f32 (f32_to_f64 y) = y.
Proof.
  intros y Hn. destruct y as [s|s|s pl Hpl|s m e Hb]; try discriminate Hn; try reflexivity.
  set (y := B754_finite 24 128 s m e Hb).
  destruct (f32_to_f64_correct y eq_refl) as (H1 & H2 & H3).
  pose proof (f64_to_f32_correct (f32_to_f64 y) H1) as H.
  rewrite H2 in H. rewrite Rlt_bool_true in H.
  - destruct H as (G1 & G2 & G3).
    apply Binary.B2R_Bsign_inj; auto.
    + rewrite G2. apply round_generic; [typeclasses eauto|]. apply (Binary.generic_format_B2R 24 128).
    + rewrite G3. exact H3.
  - apply Rle_lt_trans with (1 := Binary.abs_B2R_le_emax_minus_prec 24 128 Hprec32 y).
    unfold T32. assert (bpow radix2 103 < bpow radix2 (128 - 24))%R by (apply bpow_lt; reflexivity). lra.
Qed.

Lemma f32_to_f64_not_nan : forall y, Binary.is_nan 53 1024 (f32_to_f64 y) = false.
Proof.
  intros y. destruct y as [s|s|s pl Hpl|s m e Hb]; try reflexivity.
  destruct (f32_to_f64_correct (B754_finite 24 128 s m e Hb) eq_refl) as (H & _).
  apply finite_not_nan, H.
Qed.

Lemma f32_to_f64_is_inf : forall y, Binary.is_nan 24 128 y = false -> is_infb (f32_to_f64 y) = is_infb y.
Proof.
  intros y Hn. destruct y as [s|s|s pl Hpl|s m e Hb]; try reflexivity; try discriminate Hn.
  destruct (f32_to_f64_correct (B754_finite 24 128 s m e Hb) eq_refl) as (H & _).
  apply finite_not_infb, H.
Qed.

Lemma bits_of_b32_of_bits : forall u, 0 <= u < 2 ^ 32 -> bits_of_b32 (b32_of_bits u) = u.
Proof.
  intros u Hu. exact (bits_of_binary_float_of_bits 23 8 eq_refl eq_refl eq_refl u Hu).
Qed.

Lemma narrow_widen_nonnan : forall u, 0 <= u < 2 ^ 32 -> f32_is_nan u = false ->
  narrow_bits (widen_bits u) = u.
Proof.
  intros u Hu Hn. unfold widen_bits. rewrite Hn.
  assert (Hy : Binary.is_nan 24 128 (b32_of_bits (u mod two32)) = false) by (rewrite b32_of_bits_is_nan; exact Hn).
  unfold narrow_bits. rewrite f64_is_nan_bits, f32_to_f64_not_nan.
  rewrite b64_of_bits_of_b64, f64_to_f32_to_f64 by exact Hy.
  rewrite Z.mod_small by exact Hu. apply bits_of_b32_of_bits, Hu.
Qed.

Lemma f64_fields_of_join : forall (sb : bool) E M, 0 <= E < 2048 -> 0 <= M < 4503599627370496 ->
  let w := (if sb then two63 else 0) + E * 4503599627370496 + M in
  0 <= w < 2 ^ 64 /\ f64_sign w = sb /\ f64_exp w = E /\ f64_man w = M.
Proof.
  intros sb E M HE HM w.
  assert (Hw : 0 <= w < 2 ^ 64) by (unfold w, two63; destruct sb; lia).
  split; [exact Hw|].
  unfold f64_sign, f64_exp, f64_man, two64. rewrite Z.mod_small by exact Hw.
  replace w with (M + ((if sb then 2048 else 0) + E) * 4503599627370496)
    by (unfold w, two63; destruct sb; ring).
  rewrite Z.div_add, Z.mod_add, (Z.div_small M), (Z.mod_small M) by lia.
  split; [|split; [|reflexivity]].
  - unfold two63. destruct sb; [apply Z.leb_le | apply Z.leb_gt]; lia.
  - simpl (0 + _). destruct sb.
    + replace (2048 + E) with (E + 1 * 2048) by ring. rewrite Z.mod_add by lia. apply Z.mod_small; lia.
    + apply Z.mod_small; lia.
Qed.

Lemma f32_decompose : forall u, 0 <= u < 2 ^ 32 ->
  u = (if f32_sign u then two31 else 0) + f32_exp u * 8388608 + f32_man u.
Proof.
  intros u Hu. unfold f32_sign, f32_exp, f32_man, two32, two31.
  rewrite Z.mod_small by exact Hu.
  pose proof (Z.div_mod u 8388608 ltac:(lia)) as H1.
  pose proof (Z.div_mod (u / 8388608) 256 ltac:(lia)) as H2.
  assert (H3 : 0 <= u / 8388608 < 512) by (split; [apply Z.div_pos; lia | apply Z.div_lt_upper_bound; lia]).
  assert (H4 : 0 <= u / 8388608 / 256 < 2) by (split; [apply Z.div_pos; lia | apply Z.div_lt_upper_bound; lia]).
  pose proof (Z.mod_pos_bound u 8388608 eq_refl) as H5.
  pose proof (Z.mod_pos_bound (u / 8388608) 256 eq_refl) as H6.
  destruct (Z.leb_spec 2147483648 u); lia.
Qed.

Lemma widen_nan_form : forall u, f32_is_nan u = true ->
  widen_bits u = (if f32_sign u then two63 else 0) + 9221120237041090560 + (f32_man u * 536870912) mod 2251799813685248.
Proof.
  intros u H. unfold widen_bits. rewrite H.
  pose proof (f32_man_range u) as Hm.
  rewrite widen_nan_lor; [ring|]. lia.
Qed.

Lemma widen_bits_range : forall u, 0 <= widen_bits u < 2 ^ 64.
Proof.
  intros u. destruct (f32_is_nan u) eqn:Hn.
  - rewrite (widen_nan_form u Hn).
    pose proof (Z.mod_pos_bound (f32_man u * 536870912) 2251799813685248 eq_refl).
    unfold two63. destruct (f32_sign u); lia.
  - unfold widen_bits. rewrite Hn. apply bits_of_b64_range.
Qed.

Lemma widen_nan_fields : forall u, f32_is_nan u = true ->
  f64_sign (widen_bits u) = f32_sign u /\ f64_exp (widen_bits u) = 2047 /\
  f64_man (widen_bits u) = 2251799813685248 + (f32_man u * 536870912) mod 2251799813685248.
Proof.
  intros u Hn. rewrite (widen_nan_form u Hn).
  pose proof (Z.mod_pos_bound (f32_man u * 536870912) 2251799813685248 eq_refl) as Hq.
  set (q := (f32_man u * 536870912) mod 2251799813685248) in *.
  destruct (f64_fields_of_join (f32_sign u) 2047 (2251799813685248 + q)) as (_ & H1 & H2 & H3); try lia.
  replace ((if f32_sign u then two63 else 0) + 9221120237041090560 + q)
    with ((if f32_sign u then two63 else 0) + 2047 * 4503599627370496 + (2251799813685248 + q)) by ring.
  auto.
Qed.

Lemma narrow_widen_nan : forall u, 0 <= u < 2 ^ 32 -> f32_is_nan u = true -> 4194304 <= f32_man u ->
  narrow_bits (widen_bits u) = u.
Proof.
  intros u Hu Hn Hq.
  destruct (widen_nan_fields u Hn) as (H1 & H2 & H3).
  pose proof (f32_man_range u) as Hm.
  assert (Hmod : (f32_man u * 536870912) mod 2251799813685248 = (f32_man u - 4194304) * 536870912).
  { replace (f32_man u * 536870912) with ((f32_man u - 4194304) * 536870912 + 1 * 2251799813685248) by ring.
    rewrite Z.mod_add by lia. apply Z.mod_small. lia. }
  rewrite Hmod in H3.
  assert (Hwn : f64_is_nan (widen_bits u) = true).
  { unfold f64_is_nan. rewrite H2, H3. simpl (2047 =? 2047).
    replace (_ =? 0) with false by (symmetry; apply Z.eqb_neq; lia). reflexivity. }
  rewrite (narrow_nan_form _ Hwn), H1, H3.
  replace (2251799813685248 + (f32_man u - 4194304) * 536870912) with (f32_man u * 536870912) by ring.
  rewrite Z.div_mul by lia.
  replace (f32_man u) with ((f32_man u - 4194304) + 1 * 4194304) at 1 by ring.
  rewrite Z.mod_add, Z.mod_small by lia.
  pose proof (f32_decompose u Hu) as D.
  unfold f32_is_nan in Hn. apply andb_true_iff in Hn. destruct Hn as (Hn & _). apply Z.eqb_eq in Hn.
  rewrite Hn in D. unfold two31 in *. destruct (f32_sign u); lia.
Qed.

Lemma narrow_widen : forall u, 0 <= u < 2 ^ 32 -> (f32_is_nan u = true -> 4194304 <= f32_man u) ->
  narrow_bits (widen_bits u) = u.
Proof.
  intros u Hu Hq. destruct (f32_is_nan u) eqn:Hn.
  - apply narrow_widen_nan; auto.
  - apply narrow_widen_nonnan; auto.
Qed.

Lemma f32_nan_not_inf : forall u, f32_is_nan u = true -> f32_is_inf u = false.
Proof.
  intros u H. unfold f32_is_nan in H. unfold f32_is_inf.
  apply andb_true_iff in H. destruct H as (H1 & H2). rewrite H1.
  destruct (f32_man u =? 0); [discriminate H2 | reflexivity].
Qed.

Lemma widen_not_inf : forall u, 0 <= u < 2 ^ 32 -> f64_is_inf (widen_bits u) = f32_is_inf u.
Proof.
  intros u Hu. destruct (f32_is_nan u) eqn:Hn.
  - rewrite (f32_nan_not_inf u Hn).
    destruct (widen_nan_fields u Hn) as (H1 & H2 & H3).
    pose proof (Z.mod_pos_bound (f32_man u * 536870912) 2251799813685248 eq_refl) as Hq.
    unfold f64_is_inf. rewrite H2, H3. simpl (2047 =? 2047).
    replace (_ =? 0) with false by (symmetry; apply Z.eqb_neq; lia). reflexivity.
  - unfold widen_bits. rewrite Hn, f64_is_inf_bits.
    rewrite f32_to_f64_is_inf by (rewrite b32_of_bits_is_nan; exact Hn).
    apply b32_of_bits_is_inf.
Qed.
