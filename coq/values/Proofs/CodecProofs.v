(* C10: the dictionary and JSON round trips are the identity on images that satisfy the invariant of
   reachable images (Spec/CodecSpec.v: reach_inv) and the two recorded exclusions (strings_clean,
   nans_canonical).
   Structure: byte/list helpers; one lemma per leaf kind (value read through the descriptor, validated
   assignment of that value into a fresh image writes back exactly the extent); induction over the leaf
   list with the invariant "cur agrees with m outside the extents of the leaves still to be written and is
   zero on them". *)
From Coq Require Import ZArith List Bool Lia ZifyBool Arith.
From Val Require Import Gen.ValidatorTbl Model.Bytes Model.Floats Model.Values Model.Codec Spec.ValSpec Spec.CodecSpec
  Proofs.BytesProofs Proofs.ValuesProofs Proofs.RefuseProofs Proofs.ReadbackProofs Proofs.XnumProofs Proofs.FloatProofs.
Import ListNotations.
Open Scope Z_scope.

(* ------------------------------------------------------------------ *)
(* bytes                                                                *)

Definition bytes_P (bs : list Z) : Prop := Forall (fun b => 0 <= b < 256) bs.

Lemma all_bytes_Forall : forall bs, all_bytes bs = true -> bytes_P bs.
Proof.
  intros bs H. unfold all_bytes in H. eapply forallb_Forall_impl; [|exact H].
  intros x Hx. unfold byte_ok in Hx. lia.
Qed.

Lemma forallb_firstn : forall (A : Type) (p : A -> bool) n l, forallb p l = true -> forallb p (firstn n l) = true.
Proof.
  induction n; destruct l; cbn [firstn forallb]; auto. intros H.
  apply andb_true_iff in H as [H1 H2]. rewrite H1. cbn [andb]. auto.
Qed.

Lemma forallb_skipn : forall (A : Type) (p : A -> bool) n l, forallb p l = true -> forallb p (skipn n l) = true.
Proof.
  induction n; destruct l; cbn [skipn forallb]; auto. intros H.
  apply andb_true_iff in H as [H1 H2]. auto.
Qed.

Lemma all_bytes_sub : forall m off n, all_bytes m = true -> all_bytes (sub m off n) = true.
Proof. intros. unfold all_bytes, sub. now apply forallb_firstn, forallb_skipn. Qed.

Lemma le_encode_shift : forall w z k, le_encode w (z + k * 2 ^ (8 * Z.of_nat w)) = le_encode w z.
Proof.
  induction w; intros; cbn [le_encode]; [reflexivity|].
  replace (8 * Z.of_nat (S w)) with (8 * Z.of_nat w + 8) by lia.
  rewrite Z.pow_add_r by lia. change (2 ^ 8) with 256.
  replace (z + k * (2 ^ (8 * Z.of_nat w) * 256)) with (z + (k * 2 ^ (8 * Z.of_nat w)) * 256) by ring.
  rewrite Z_mod_plus_full, Z_div_plus_full by lia. f_equal. apply IHw.
Qed.

Lemma le_encode_load_int : forall s bs, bytes_P bs -> le_encode (length bs) (load_int s bs) = bs.
Proof.
  intros s bs H. unfold load_int, to_signed. destruct s; [|now apply le_encode_decode].
  destruct (_ <? _); [now apply le_encode_decode|].
  replace (le_decode bs - 2 ^ (8 * Z.of_nat (length bs)))
    with (le_decode bs + (-1) * 2 ^ (8 * Z.of_nat (length bs))) by ring.
  rewrite le_encode_shift. now apply le_encode_decode.
Qed.

Lemma load_int_range : forall r bs, irec_ok r = true -> length bs = irec_w r -> bytes_P bs ->
  v_min r <= load_int (irec_signed r) bs <= v_max r.
Proof.
  intros r bs Hr Hl Hb. pose proof (irec_ok_range r Hr) as [Hlo Hhi]. rewrite Hlo, Hhi.
  pose proof (le_decode_range bs Hb) as Hu. unfold irec_ok in Hr. unfold irec_w in Hl.
  assert (Hw : 0 < c_width r) by lia.
  assert (HB : 8 * Z.of_nat (length bs) = 8 * c_width r) by lia.
  unfold load_int, irec_signed, to_signed, c_lo, c_hi. rewrite HB in *.
  set (B := 8 * c_width r) in *. set (u := le_decode bs) in *.
  assert (H2 : 2 ^ B = 2 * 2 ^ (B - 1)).
  { replace B with (1 + (B - 1)) at 1 by lia. rewrite Z.pow_add_r by lia. reflexivity. }
  assert (0 < 2 ^ (B - 1)) by (apply Z.pow_pos_nonneg; lia).
  destruct (c_kind r =? 0); [|lia].
  destruct (u <? 2 ^ (B - 1)) eqn:E; lia.
Qed.

(* ------------------------------------------------------------------ *)
(* splice                                                               *)

Lemma splice_nth_inside : forall m off bs j d, (off + length bs <= length m)%nat ->
  (off <= j < off + length bs)%nat -> nth j (splice m off bs) d = nth (j - off) bs d.
Proof.
  intros m off bs j d Hl Hj. unfold splice.
  rewrite app_nth2 by (rewrite firstn_length; lia). rewrite firstn_length.
  replace (Nat.min off (length m)) with off by lia. rewrite app_nth1 by lia. reflexivity.
Qed.

Lemma splice_nil : forall m off, splice m off [] = m.
Proof. intros. unfold splice. cbn [length app]. rewrite Nat.add_0_r. apply firstn_skipn. Qed.

Lemma splice_splice_app : forall m o c r, (o + length c + length r <= length m)%nat ->
  splice (splice m o c) (o + length c) r = splice m o (c ++ r).
Proof.
  intros m o c r H. apply nth_ext_eq.
  - rewrite !splice_length; rewrite ?splice_length, ?app_length; lia.
  - intros j Hj. rewrite !splice_length in Hj by (rewrite ?splice_length; lia).
    assert (L1 : length (splice m o c) = length m) by (apply splice_length; lia).
    destruct (Nat.ltb_spec j o).
    { rewrite !splice_nth_outside by (rewrite ?app_length; lia). reflexivity. }
    destruct (Nat.ltb_spec j (o + length c)).
    { rewrite splice_nth_outside by lia. rewrite !splice_nth_inside by (rewrite ?app_length; lia).
      rewrite app_nth1 by lia. reflexivity. }
    destruct (Nat.ltb_spec j (o + length c + length r)).
    { rewrite !splice_nth_inside by (rewrite ?app_length; lia).
      rewrite app_nth2 by lia. f_equal. lia. }
    rewrite !splice_nth_outside by (rewrite ?app_length; lia). reflexivity.
Qed.

(* ------------------------------------------------------------------ *)
(* chunks                                                               *)

Lemma chunks_length : forall esz n bs, length (chunks esz n bs) = n.
Proof. induction n; intros; cbn [chunks length]; [reflexivity|now rewrite IHn]. Qed.

Lemma chunks_firstn : forall esz n l, chunks esz n (firstn (n * esz) l) = chunks esz n l.
Proof.
  induction n; intros l; cbn [chunks]; [reflexivity|].
  cbn [Nat.mul]. rewrite firstn_firstn. replace (Nat.min esz (esz + n * esz)) with esz by lia.
  f_equal. rewrite <- firstn_skipn_comm. apply IHn.
Qed.

Lemma concat_chunks : forall esz n bs, length bs = (n * esz)%nat -> concat (chunks esz n bs) = bs.
Proof.
  induction n; intros bs H; cbn [chunks concat].
  - destruct bs; [reflexivity|discriminate].
  - rewrite IHn by (rewrite skipn_length; lia). apply firstn_skipn.
Qed.

Lemma chunks_Forall : forall esz n bs, length bs = (n * esz)%nat -> all_bytes bs = true ->
  Forall (fun c => length c = esz /\ all_bytes c = true) (chunks esz n bs).
Proof.
  induction n; intros bs Hl Hb; cbn [chunks]; constructor.
  - split; [rewrite firstn_length; lia|]. now apply forallb_firstn.
  - apply IHn; [rewrite skipn_length; lia|]. now apply forallb_skipn.
Qed.

Lemma chunks1 : forall n bs, length bs = n -> chunks 1 n bs = map (fun b => [b]) bs.
Proof.
  induction n; intros bs H; destruct bs; try discriminate; cbn [chunks map firstn skipn]; [reflexivity|].
  f_equal. apply IHn. cbn [length] in H. lia.
Qed.

Lemma concat_length_const : forall esz (C : list (list Z)), Forall (fun c => length c = esz) C ->
  length (concat C) = (length C * esz)%nat.
Proof.
  induction 1; cbn [concat length]; [reflexivity|]. rewrite app_length. lia.
Qed.

Lemma skipn_add : forall (A : Type) a b (l : list A), skipn a (skipn b l) = skipn (b + a) l.
Proof.
  induction b; intros l; cbn [skipn Nat.add]; [reflexivity|]. destruct l; [now rewrite skipn_nil|]. apply IHb.
Qed.

Lemma map_at_chunks : forall (B : Type) (g : list Z -> B) esz off m k s,
  map (fun p => g (sub m (off + Z.to_nat p * esz) esz)) (positions (Z.of_nat s) 1 k) =
  map g (chunks esz k (skipn (off + s * esz) m)).
Proof.
  induction k; intros s; cbn [positions map chunks]; [reflexivity|]. f_equal.
  - rewrite Nat2Z.id. reflexivity.
  - replace (Z.of_nat s + 1) with (Z.of_nat (S s)) by lia. rewrite IHk. f_equal. f_equal.
    rewrite skipn_add. f_equal. lia.
Qed.

Lemma arr_get_chunks : forall ld join esz n off m,
  arr_get ld join esz n off m KAttr = inr (join (map ld (chunks esz n (sub m off (n * esz))))).
Proof.
  intros. unfold arr_get. do 2 f_equal. change 0 with (Z.of_nat 0).
  rewrite (map_at_chunks pyval ld esz off m n 0). unfold sub. rewrite chunks_firstn.
  do 2 f_equal. f_equal. lia.
Qed.

(* the element-by-element write of whole chunks is one splice *)
Lemma write_items_chunks : forall st esz off items C,
  Forall2 (fun x c => st x = inr c) items C -> Forall (fun c => length c = esz) C ->
  forall s cur, (off + (s + length C) * esz <= length cur)%nat ->
  write_items st esz off cur (positions (Z.of_nat s) 1 (length C)) items =
  (None, splice cur (off + s * esz) (concat C)).
Proof.
  intros st esz off items C H. induction H as [|x c items C Hx HF IH]; intros HC s cur Hl.
  - cbn [length positions write_items concat]. now rewrite splice_nil.
  - inversion HC as [|? ? Hc HC']; subst. cbn [length positions write_items concat]. rewrite Hx.
    rewrite Nat2Z.id. replace (Z.of_nat s + 1) with (Z.of_nat (S s)) by lia.
    pose proof (concat_length_const _ _ HC') as Hcl. cbn [length] in Hl.
    rewrite IH; [|exact HC'|rewrite splice_length; lia].
    f_equal. replace (off + S s * length c)%nat with (off + s * length c + length c)%nat by lia.
    apply splice_splice_app. lia.
Qed.

Lemma Forall2_map_same : forall (A B : Type) (R : B -> A -> Prop) (g : A -> B) l,
  Forall (fun c => R (g c) c) l -> Forall2 R (map g l) l.
Proof. induction 1; cbn [map]; constructor; auto. Qed.

Lemma Forall2_len : forall (A B : Type) (R : A -> B -> Prop) la lb, Forall2 R la lb -> length la = length lb.
Proof. induction 1; cbn [length]; congruence. Qed.

Lemma carr_assign_full : forall st esz n off cur items C,
  length C = n -> Forall (fun c => length c = esz) C -> Forall2 (fun x c => st x = inr c) items C ->
  (off + n * esz <= length cur)%nat ->
  carr_assign st esz n off cur (KSlice None None None) (PList items) = (None, splice cur off (concat C)).
Proof.
  intros st esz n off cur items C Hn HC HF Hl. unfold carr_assign. rewrite slice_full. cbn [iter_items].
  pose proof (Forall2_len _ _ _ _ _ HF) as Hil. rewrite Hil, Hn, Nat.eqb_refl. cbn [negb]. subst n.
  change 0 with (Z.of_nat 0). rewrite (write_items_chunks st esz off items C HF HC 0%nat cur) by lia.
  do 2 f_equal. lia.
Qed.

(* ------------------------------------------------------------------ *)
(* validate_many passes on lists of in-range values                     *)

Lemma fold_max_le : forall B l x, x <= B -> Forall (fun y => y <= B) l -> fold_left Z.max l x <= B.
Proof. induction l; intros x Hx H; cbn [fold_left]; [exact Hx|]. inversion H; subst. apply IHl; [lia|assumption]. Qed.
Lemma fold_min_ge : forall B l x, B <= x -> Forall (fun y => B <= y) l -> B <= fold_left Z.min l x.
Proof. induction l; intros x Hx H; cbn [fold_left]; [exact Hx|]. inversion H; subst. apply IHl; [lia|assumption]. Qed.

Lemma many_guard_pass : forall vmin vmax z zs, Forall (fun y => vmin <= y <= vmax) (z :: zs) ->
  (vmax <? zmax_list z zs) || (zmin_list z zs <? vmin) = false.
Proof.
  intros vmin vmax z zs H. inversion H as [|? ? Hz Hzs]; subst.
  assert (zmax_list z zs <= vmax).
  { unfold zmax_list. apply fold_max_le; [lia|]. eapply Forall_impl; [|exact Hzs]. cbv beta. intros; lia. }
  assert (vmin <= zmin_list z zs).
  { unfold zmin_list. apply fold_min_ge; [lia|]. eapply Forall_impl; [|exact Hzs]. cbv beta. intros; lia. }
  lia.
Qed.

Lemma forallb_intlike_PInt : forall zs, forallb is_intlike (map PInt zs) = true.
Proof. induction zs; cbn [map forallb is_intlike andb]; auto. Qed.
Lemma map_int_of_PInt : forall zs, map int_of (map PInt zs) = zs.
Proof. induction zs; cbn [map int_of]; congruence. Qed.

Lemma int_many_pass : forall r zs, zs <> [] -> Forall (fun y => v_min r <= y <= v_max r) zs ->
  int_validate_many r (map PInt zs) = None.
Proof.
  intros r zs Hne H. unfold int_validate_many. rewrite forallb_intlike_PInt, map_int_of_PInt. cbn [negb].
  destruct zs as [|z zs]; [congruence|]. unfold guard_int_many. now rewrite many_guard_pass.
Qed.

Lemma byte_many_pass : forall r zs, zs <> [] -> Forall (fun y => v_min r <= y <= v_max r) zs ->
  byte_validate_many r (PList (map PInt zs)) (map PInt zs) = None.
Proof.
  intros r zs Hne H. unfold byte_validate_many. rewrite forallb_intlike_PInt, map_int_of_PInt. cbn [negb].
  destruct zs as [|z zs]; [congruence|]. unfold guard_byte_many. now rewrite many_guard_pass.
Qed.

Lemma float_many_pass : forall ct items,
  Forall (fun y => float_isinf_conv (snd ct) y = inr false) items ->
  float_validate_many ct items = None.
Proof. induction 1; cbn [float_validate_many]; [reflexivity|]. now rewrite H. Qed.

(* ------------------------------------------------------------------ *)
(* one element: the loaded value passes validation and stores back the same bytes *)

Lemma int_store_load : forall r c, irec_ok r = true -> length c = irec_w r -> bytes_P c ->
  cstore (c_kind r) (c_width r) (PInt (load_int (irec_signed r) c)) = inr c.
Proof.
  intros r c Hr Hl Hb. unfold cstore. replace (c_kind r <=? 1) with true by (unfold irec_ok in Hr; lia).
  f_equal. unfold irec_w in Hl. rewrite <- Hl. now apply le_encode_load_int.
Qed.

Definition f_load (cw : Z) (c : list Z) : Z := if cw =? 4 then widen_bits (le_decode c) else le_decode c.

Lemma float_elem_ok : forall vid ct c, fct_ok ct = true -> length c = Z.to_nat (snd ct) -> bytes_P c ->
  elem_inv (EFloat vid ct) c = true ->
  float_isinf_conv (snd ct) (PFloat (f_load (snd ct) c)) = inr false /\
  float_bytes (snd ct) (f_load (snd ct) c) = c.
Proof.
  intros vid [k w] c Hok Hl Hb Hinv. cbn [fst snd] in *. unfold fct_ok in Hok. cbn [fst snd] in Hok.
  pose proof (le_decode_range c Hb) as Hu. pose proof (le_encode_decode c Hb) as Hed.
  unfold float_isinf_conv, float_bytes, f_load. cbn [num_to_f64 elem_inv snd] in *.
  destruct (w =? 4) eqn:E.
  - assert (w = 4) by lia. subst w. change (Z.to_nat 4) with 4%nat in Hl. rewrite Hl in Hu, Hed.
    change (2 ^ (8 * Z.of_nat 4)) with (2 ^ 32) in Hu.
    apply andb_true_iff in Hinv as [Hi Hq]. apply negb_true_iff in Hi.
    assert (Hnw : narrow_bits (widen_bits (le_decode c)) = le_decode c).
    { apply narrow_widen; [exact Hu|]. intros Hn. unfold f32_quiet_or_num in Hq. rewrite Hn in Hq.
      cbn [negb orb] in Hq. lia. }
    rewrite Hnw, Hi, Hed. split; reflexivity.
  - assert (w = 8) by lia. subst w. change (Z.to_nat 8) with 8%nat in Hl. rewrite Hl in Hed.
    apply negb_true_iff in Hinv. rewrite Hinv, Hed. split; reflexivity.
Qed.

Lemma float_store_load : forall ct c, fct_ok ct = true -> float_bytes (snd ct) (f_load (snd ct) c) = c ->
  cstore (fst ct) (snd ct) (PFloat (f_load (snd ct) c)) = inr c.
Proof.
  intros ct c Hok H. unfold fct_ok in Hok. unfold cstore.
  replace (fst ct <=? 1) with false by lia. replace (fst ct =? 2) with true by lia.
  cbn [num_to_f64]. now rewrite H.
Qed.

Lemma widen_not_nan : forall u, f32_is_nan u = false -> f64_is_nan (widen_bits u) = false.
Proof. intros u H. unfold widen_bits. rewrite H, f64_is_nan_bits. apply f32_to_f64_not_nan. Qed.

Lemma widen_canonical : widen_bits 2143289344 = canonical_nan64.
Proof. vm_compute. reflexivity. Qed.
Lemma canonical_is_nan : f64_is_nan canonical_nan64 = true.
Proof. vm_compute. reflexivity. Qed.

Lemma float_elem_jrt : forall vid ct c, fct_ok ct = true -> elem_nan_canon (EFloat vid ct) c = true ->
  jrt (PFloat (f_load (snd ct) c)) = PFloat (f_load (snd ct) c).
Proof.
  intros vid [k w] c Hok Hc. cbn [fst snd elem_nan_canon] in *. unfold f_load. cbn [jrt].
  destruct (w =? 4) eqn:E.
  - destruct (f32_is_nan (le_decode c)) eqn:En; cbn [negb orb] in Hc.
    + apply Z.eqb_eq in Hc. rewrite Hc, widen_canonical, canonical_is_nan. reflexivity.
    + now rewrite widen_not_nan.
  - destruct (f64_is_nan (le_decode c)) eqn:En; cbn [negb orb] in Hc; [|reflexivity].
    apply Z.eqb_eq in Hc. now rewrite Hc.
Qed.

(* ------------------------------------------------------------------ *)
(* strings                                                              *)

Lemma zl_eqb_eq : forall a b, zl_eqb a b = true -> a = b.
Proof.
  induction a; destruct b; cbn [zl_eqb]; intros H; try discriminate; [reflexivity|].
  apply andb_true_iff in H as [H1 H2]. f_equal; [lia|now apply IHa].
Qed.

Lemma take_idem : forall cs, take_until_nul (take_until_nul cs) = take_until_nul cs.
Proof.
  induction cs; cbn [take_until_nul]; [reflexivity|]. destruct (a =? 0) eqn:E; [reflexivity|].
  cbn [take_until_nul]. rewrite E. now rewrite IHcs.
Qed.

Lemma take_prefix : forall cs, firstn (length (take_until_nul cs)) cs = take_until_nul cs.
Proof.
  induction cs; cbn [take_until_nul]; [reflexivity|]. destruct (a =? 0); [reflexivity|].
  cbn [length firstn]. now rewrite IHcs.
Qed.

Lemma take_lt_last : forall cs, cs <> [] -> last cs 0 = 0 -> (length (take_until_nul cs) < length cs)%nat.
Proof.
  induction cs as [|a cs IH]; intros Hne Hl; [congruence|]. cbn [take_until_nul].
  destruct (a =? 0) eqn:E; [cbn [length]; lia|]. cbn [length].
  destruct cs as [|b cs]; [cbn [last] in Hl; lia|].
  assert ((length (take_until_nul (b :: cs)) < length (b :: cs))%nat) by (apply IH; [discriminate|exact Hl]).
  lia.
Qed.

Lemma splice_zero_tail : forall cur off p k, (1 <= k)%nat -> (off + length p + k <= length cur)%nat ->
  (forall j, (off <= j < off + length p + k)%nat -> nth j cur 0 = 0) ->
  splice cur off (p ++ [0]) = splice cur off (p ++ repeat 0 k).
Proof.
  intros cur off p k Hk Hl Hz. apply nth_ext_eq.
  - rewrite !splice_length; rewrite ?app_length, ?repeat_length; cbn [length]; lia.
  - intros j Hj. rewrite splice_length in Hj by (rewrite app_length; cbn [length]; lia).
    destruct (Nat.ltb_spec j off).
    { rewrite !splice_nth_outside by (rewrite ?app_length, ?repeat_length; cbn [length]; lia). reflexivity. }
    destruct (Nat.ltb_spec j (off + length p)).
    { rewrite !splice_nth_inside by (rewrite ?app_length, ?repeat_length; cbn [length]; lia).
      rewrite !app_nth1 by lia. reflexivity. }
    destruct (Nat.ltb_spec j (off + length p + k)).
    2:{ rewrite !splice_nth_outside by (rewrite ?app_length, ?repeat_length; cbn [length]; lia). reflexivity. }
    rewrite (splice_nth_inside cur off (p ++ repeat 0 k)) by (rewrite ?app_length, ?repeat_length; lia).
    rewrite (app_nth2 p (repeat 0 k)) by lia. rewrite nth_repeat.
    destruct (Nat.eqb_spec j (off + length p)).
    + rewrite splice_nth_inside by (rewrite ?app_length; cbn [length]; lia).
      rewrite app_nth2 by lia. replace (j - off - length p)%nat with 0%nat by lia. reflexivity.
    + rewrite splice_nth_outside by (rewrite ?app_length; cbn [length]; lia). apply Hz. lia.
Qed.

Lemma splice_zero_noop : forall cur off n, (off + n <= length cur)%nat ->
  (forall j, (off <= j < off + n)%nat -> nth j cur 0 = 0) -> splice cur off (repeat 0 n) = cur.
Proof.
  intros cur off n Hl Hz. apply nth_ext_eq.
  - apply splice_length. rewrite repeat_length. exact Hl.
  - intros j Hj. rewrite splice_length in Hj by (rewrite repeat_length; exact Hl).
    destruct (Nat.ltb_spec j off); [apply splice_nth_outside; rewrite repeat_length; lia|].
    destruct (Nat.ltb_spec j (off + n)); [|apply splice_nth_outside; rewrite repeat_length; lia].
    rewrite splice_nth_inside by (rewrite repeat_length; lia). rewrite nth_repeat. symmetry. apply Hz. lia.
Qed.

(* ------------------------------------------------------------------ *)
(* one leaf                                                             *)

Definition leaf_goal (f : field) (m cur : list Z) : Prop :=
  exists v, get f KAttr m = inr v /\
    set true f (leaf_key (f_ty f)) cur v = (None, splice cur (f_off f) (extent f m)) /\
    (leaf_nan_canon (f_ty f) (extent f m) = true ->
     set true f (leaf_key (f_ty f)) cur (jrt v) = (None, splice cur (f_off f) (extent f m))).

Lemma leaf_int : forall off r m cur, irec_ok r = true -> (off + irec_w r <= length m)%nat ->
  all_bytes m = true -> leaf_goal (mkField off (TInt r)) m cur.
Proof.
  intros off r m cur Hr Hm Hb. unfold leaf_goal, extent. cbn [f_ty f_off fsize leaf_key leaf_nan_canon].
  set (c := sub m off (irec_w r)).
  assert (Hl : length c = irec_w r) by (apply sub_length; lia).
  assert (Hbc : bytes_P c) by (apply all_bytes_Forall, all_bytes_sub; auto).
  exists (PInt (load_int (irec_signed r) c)). split; [reflexivity|].
  assert (Hs : set true (mkField off (TInt r)) KAttr cur (PInt (load_int (irec_signed r) c)) = (None, splice cur off c)).
  { unfold set. cbn [f_ty f_off]. unfold int_validate_one. cbn [is_cinst is_intlike negb int_of].
    pose proof (load_int_range r c Hr Hl Hbc). unfold guard_int_one.
    destruct (negb _) eqn:E; [lia|]. now rewrite int_store_load. }
  split; [exact Hs|intros _; exact Hs].
Qed.

Lemma leaf_byte : forall off r m cur, byte_irec_ok r = true -> (off + irec_w r <= length m)%nat ->
  all_bytes m = true -> leaf_goal (mkField off (TByte r)) m cur.
Proof.
  intros off r m cur Hr0 Hm Hb. assert (Hr : irec_ok r = true) by (unfold byte_irec_ok in Hr0; lia).
  unfold leaf_goal, extent. cbn [f_ty f_off fsize leaf_key leaf_nan_canon].
  set (c := sub m off (irec_w r)).
  assert (Hl : length c = irec_w r) by (apply sub_length; lia).
  assert (Hbc : bytes_P c) by (apply all_bytes_Forall, all_bytes_sub; auto).
  exists (PInt (load_int (irec_signed r) c)). split; [reflexivity|].
  assert (Hs : set true (mkField off (TByte r)) KAttr cur (PInt (load_int (irec_signed r) c)) = (None, splice cur off c)).
  { unfold set. cbn [f_ty f_off]. unfold byte_validate_one. cbn [is_cinst int_of].
    pose proof (load_int_range r c Hr Hl Hbc). unfold guard_byte_one.
    destruct (negb _) eqn:E; [lia|]. now rewrite int_store_load. }
  split; [exact Hs|intros _; exact Hs].
Qed.

Lemma leaf_float : forall off ct m cur, fct_ok ct = true -> (off + Z.to_nat (snd ct) <= length m)%nat ->
  all_bytes m = true -> leaf_inv (TFloat ct) (sub m off (Z.to_nat (snd ct))) = true ->
  leaf_goal (mkField off (TFloat ct)) m cur.
Proof.
  intros off ct m cur Hok Hm Hb Hinv. unfold leaf_goal, extent. cbn [f_ty f_off fsize leaf_key leaf_nan_canon leaf_inv] in *.
  set (c := sub m off (Z.to_nat (snd ct))) in *.
  assert (Hl : length c = Z.to_nat (snd ct)) by (apply sub_length; lia).
  assert (Hbc : bytes_P c) by (apply all_bytes_Forall, all_bytes_sub; auto).
  destruct (float_elem_ok 0 ct c Hok Hl Hbc Hinv) as [H1 H2].
  exists (PFloat (f_load (snd ct) c)). split; [reflexivity|].
  assert (Hs : set true (mkField off (TFloat ct)) KAttr cur (PFloat (f_load (snd ct) c)) = (None, splice cur off c)).
  { unfold set. cbn [f_ty f_off]. unfold float_validate_one. cbn [is_cinst]. rewrite H1.
    now rewrite float_store_load. }
  split; [exact Hs|]. intros Hc. rewrite (float_elem_jrt 0 ct c Hok Hc). exact Hs.
Qed.

Lemma leaf_char : forall off m cur, (off + 1 <= length m)%nat -> leaf_inv TChar (sub m off 1) = true ->
  leaf_goal (mkField off TChar) m cur.
Proof.
  intros off m cur Hm Hinv. unfold leaf_goal, extent. cbn [f_ty f_off fsize leaf_key leaf_nan_canon leaf_inv] in *.
  assert (Hl : length (sub m off 1) = 1%nat) by (apply sub_length; lia).
  unfold get. cbn [f_ty f_off]. revert Hinv Hl. generalize (sub m off 1) as c. intros c Hinv Hl.
  destruct c as [|x [|y c']]; try discriminate Hl.
  exists (PStr [x]). split; [unfold decode_ascii; now rewrite Hinv|].
  assert (Hs : set true (mkField off TChar) KAttr cur (PStr [x]) = (None, splice cur off [x])).
  { unfold set. cbn [f_ty f_off]. cbn [is_cinst]. unfold char_validate_one, encode_ascii. cbn [is_cinst].
    rewrite Hinv. reflexivity. }
  split; [exact Hs|intros _; exact Hs].
Qed.

Lemma leaf_string : forall off n m cur, (1 <= n)%nat -> (off + n <= length m)%nat -> length cur = length m ->
  leaf_inv (TString n) (sub m off n) = true -> string_clean (sub m off n) = true ->
  (forall j, (off <= j < off + n)%nat -> nth j cur 0 = 0) ->
  leaf_goal (mkField off (TString n)) m cur.
Proof.
  intros off n m cur Hn Hm Hc Hinv Hcl Hz. unfold leaf_goal, extent.
  cbn [f_ty f_off fsize leaf_key leaf_nan_canon leaf_inv] in *.
  assert (Hl : length (sub m off n) = n) by (apply sub_length; lia).
  unfold get, set. cbn [f_ty f_off]. revert Hinv Hcl Hl. generalize (sub m off n) as bs. intros bs Hinv Hcl Hl.
  apply andb_true_iff in Hinv as [Ha Hlast].
  unfold string_clean in Hcl. apply zl_eqb_eq in Hcl.
  assert (Hp : (length (take_until_nul bs) < n)%nat).
  { rewrite <- Hl. apply take_lt_last; [destruct bs; [cbn in Hl; lia|discriminate]|lia]. }
  pose proof (all_ascii_take bs Ha) as Hpa. pose proof (take_idem bs) as Hidem.
  assert (Hbs : bs = take_until_nul bs ++ repeat 0 (n - length (take_until_nul bs))).
  { rewrite <- (firstn_skipn (length (take_until_nul bs)) bs) at 1. rewrite Hcl, Hl. f_equal. apply take_prefix. }
  revert Hp Hpa Hidem Hbs. generalize (take_until_nul bs) as p. intros p Hp Hpa Hidem Hbs.
  exists (PStr p). split; [unfold decode_ascii; now rewrite Hpa|].
  assert (Hs : (match string_validate_one n (PStr p) with
                | Some x => (Some x, cur)
                | None => match encode_ascii (PStr p) with
                          | inl e => (Some e, cur)
                          | inr cs =>
                              let m0 := if (1 <? n)%nat && (length cs <? n)%nat
                                        then splice cur off (repeat 0 n) else cur in
                              ok_or m0 off (s_set n cs)
                          end
                end) = (None, splice cur off bs)).
  { unfold string_validate_one, guard_string_len, encode_ascii.
    replace (Z.of_nat n - 1 <? Z.of_nat (length p)) with false by lia. rewrite Hpa. cbn [negb]. cbv zeta.
    replace (if (1 <? n)%nat && (length p <? n)%nat then splice cur off (repeat 0 n) else cur) with cur
      by (destruct ((1 <? n)%nat && (length p <? n)%nat); [|reflexivity]; symmetry; apply splice_zero_noop; [lia|exact Hz]).
    unfold s_set. rewrite Hidem. replace (length p <? n)%nat with true by lia. cbn [ok_or]. f_equal.
    rewrite Hbs. apply splice_zero_tail; try lia. intros j Hj. apply Hz. lia. }
  split; [exact Hs|intros _; exact Hs].
Qed.

(* ------------------------------------------------------------------ *)
(* arrays                                                               *)

Lemma map_jrt_PInt : forall zs, map jrt (map PInt zs) = map PInt zs.
Proof. induction zs; cbn [map jrt]; congruence. Qed.

Lemma leaf_arr_int : forall off vid r n m cur, irec_ok r = true -> (1 <= n)%nat ->
  (off + n * irec_w r <= length m)%nat -> length cur = length m -> all_bytes m = true ->
  leaf_goal (mkField off (TArr (EInt vid r) n)) m cur.
Proof.
  intros off vid r n m cur Hr Hn Hm Hc Hb. unfold leaf_goal, extent.
  cbn [f_ty f_off fsize leaf_key leaf_nan_canon]. change (elem_size (EInt vid r)) with (irec_w r).
  set (esz := irec_w r) in *. set (bs := sub m off (n * esz)).
  assert (Hl : length bs = (n * esz)%nat) by (apply sub_length; lia).
  assert (Hbb : all_bytes bs = true) by (now apply all_bytes_sub).
  pose proof (chunks_Forall esz n bs Hl Hbb) as HC. pose proof (concat_chunks esz n bs Hl) as Hcc.
  pose proof (chunks_length esz n bs) as Hcl.
  assert (Hget : get (mkField off (TArr (EInt vid r) n)) KAttr m =
                 inr (PList (map PInt (map (load_int (irec_signed r)) (chunks esz n bs))))).
  { unfold get. cbn [f_ty f_off]. change (elem_size (EInt vid r)) with esz. rewrite arr_get_chunks.
    fold bs. rewrite map_map. reflexivity. }
  revert HC Hcc Hcl Hget. generalize (chunks esz n bs) as C. intros C HC Hcc Hcl Hget.
  eexists. split; [exact Hget|].
  assert (Hs : set true (mkField off (TArr (EInt vid r) n)) (KSlice None None None) cur
                 (PList (map PInt (map (load_int (irec_signed r)) C))) = (None, splice cur off bs)).
  { unfold set. cbn [f_ty f_off]. unfold arr_setitem. cbn [iter_items elem_validate_many bytearray_conv].
    rewrite int_many_pass.
    - change (elem_size (EInt vid r)) with esz. rewrite <- Hcc. apply carr_assign_full; auto.
      + eapply Forall_impl; [|exact HC]. cbv beta. tauto.
      + rewrite map_map. apply Forall2_map_same. eapply Forall_impl; [|exact HC]. cbv beta.
        intros c [Hcl' Hcb]. unfold elem_store. cbn [elem_ct fst snd].
        apply int_store_load; auto. now apply all_bytes_Forall.
      + lia.
    - destruct C; [cbn [length] in Hcl; lia|discriminate].
    - apply Forall_forall. intros z Hz. apply in_map_iff in Hz as (c & <- & Hin).
      rewrite Forall_forall in HC. destruct (HC c Hin) as [Hcl' Hcb].
      apply load_int_range; auto. now apply all_bytes_Forall. }
  split; [exact Hs|]. intros _. cbn [jrt]. rewrite map_jrt_PInt. exact Hs.
Qed.

Lemma leaf_arr_float : forall off vid ct n m cur, fct_ok ct = true -> (1 <= n)%nat ->
  (off + n * Z.to_nat (snd ct) <= length m)%nat -> length cur = length m -> all_bytes m = true ->
  leaf_inv (TArr (EFloat vid ct) n) (sub m off (n * Z.to_nat (snd ct))) = true ->
  leaf_goal (mkField off (TArr (EFloat vid ct) n)) m cur.
Proof.
  intros off vid ct n m cur Hok Hn Hm Hc Hb Hinv. unfold leaf_goal, extent.
  cbn [f_ty f_off fsize leaf_key leaf_nan_canon leaf_inv] in *.
  change (elem_size (EFloat vid ct)) with (Z.to_nat (snd ct)) in *.
  set (esz := Z.to_nat (snd ct)) in *. set (bs := sub m off (n * esz)) in *.
  assert (Hl : length bs = (n * esz)%nat) by (apply sub_length; lia).
  assert (Hbb : all_bytes bs = true) by (now apply all_bytes_sub).
  pose proof (chunks_Forall esz n bs Hl Hbb) as HC. pose proof (concat_chunks esz n bs Hl) as Hcc.
  pose proof (chunks_length esz n bs) as Hcl.
  assert (Hget : get (mkField off (TArr (EFloat vid ct) n)) KAttr m =
                 inr (PList (map (fun c => PFloat (f_load (snd ct) c)) (chunks esz n bs)))).
  { unfold get. cbn [f_ty f_off]. change (elem_size (EFloat vid ct)) with esz. rewrite arr_get_chunks.
    fold bs. reflexivity. }
  revert HC Hcc Hcl Hget Hinv. generalize (chunks esz n bs) as C. intros C HC Hcc Hcl Hget Hinv.
  rewrite Forall_forall in HC. rewrite forallb_forall in Hinv.
  assert (HE : forall c, In c C -> float_isinf_conv (snd ct) (PFloat (f_load (snd ct) c)) = inr false /\
                                   float_bytes (snd ct) (f_load (snd ct) c) = c).
  { intros c Hin. destruct (HC c Hin) as [Hcl' Hcb]. apply (float_elem_ok vid); auto. now apply all_bytes_Forall. }
  eexists. split; [exact Hget|].
  assert (Hs : set true (mkField off (TArr (EFloat vid ct) n)) (KSlice None None None) cur
                 (PList (map (fun c => PFloat (f_load (snd ct) c)) C)) = (None, splice cur off bs)).
  { unfold set. cbn [f_ty f_off]. unfold arr_setitem. cbn [iter_items elem_validate_many bytearray_conv].
    rewrite float_many_pass.
    - change (elem_size (EFloat vid ct)) with esz. rewrite <- Hcc. apply carr_assign_full; auto.
      + apply Forall_forall. intros c Hin. now apply HC.
      + apply Forall2_map_same. apply Forall_forall. intros c Hin. unfold elem_store. cbn [elem_ct].
        apply float_store_load; auto. now apply HE.
      + lia.
    - apply Forall_forall. intros y Hy. apply in_map_iff in Hy as (c & <- & Hin). now apply HE. }
  split; [exact Hs|]. intros Hcan. rewrite forallb_forall in Hcan. cbn [jrt]. rewrite map_map.
  rewrite (map_ext_in _ (fun c => PFloat (f_load (snd ct) c))); [exact Hs|].
  intros c Hin. apply (float_elem_jrt vid); auto.
Qed.

Lemma leaf_arr_byte : forall off r n m cur, byte_irec_ok r = true -> (2 <= n)%nat ->
  (off + n * irec_w r <= length m)%nat -> length cur = length m -> all_bytes m = true ->
  leaf_goal (mkField off (TArr (EByte r) n)) m cur.
Proof.
  intros off r n m cur Hr0 Hn Hm Hc Hb.
  assert (Hr : irec_ok r = true) by (unfold byte_irec_ok in Hr0; lia).
  assert (Hk : c_kind r <=? 1 = true) by (unfold byte_irec_ok in Hr0; lia).
  assert (Hw : irec_w r = 1%nat) by (unfold byte_irec_ok in Hr0; unfold irec_w; lia).
  pose proof (irec_ok_range r Hr) as [Hlo Hhi].
  assert (Hlo' : v_min r = 0).
  { rewrite Hlo. unfold c_lo. unfold byte_irec_ok in Hr0. replace (c_kind r =? 0) with false by lia. reflexivity. }
  assert (Hhi' : v_max r = 255).
  { rewrite Hhi. unfold c_hi. unfold byte_irec_ok in Hr0. replace (c_kind r =? 0) with false by lia.
    replace (c_width r) with 1 by lia. reflexivity. }
  unfold leaf_goal, extent. cbn [f_ty f_off fsize leaf_key leaf_nan_canon].
  change (elem_size (EByte r)) with (irec_w r). rewrite Hw in *. rewrite Nat.mul_1_r in *.
  set (bs := sub m off n).
  assert (Hl : length bs = n) by (apply sub_length; lia).
  assert (Hbb : bytes_P bs) by (now apply all_bytes_Forall, all_bytes_sub).
  assert (Hget : get (mkField off (TArr (EByte r) n)) KAttr m = inr (PBytes bs)).
  { unfold get. cbn [f_ty f_off]. change (elem_size (EByte r)) with (irec_w r). rewrite Hw.
    rewrite arr_get_chunks. rewrite Nat.mul_1_r. fold bs. unfold join_bytes. rewrite map_map. cbn [elem_load].
    rewrite map_id. now rewrite concat_chunks by lia. }
  clearbody bs.
  assert (Hcar : carr_assign (elem_store (EByte r)) 1 n off cur (KSlice None None None) (PList (map PInt bs)) =
                 (None, splice cur off bs)).
  { rewrite <- (concat_chunks 1 n bs) at 2 by lia. rewrite chunks1 by exact Hl.
    apply carr_assign_full.
    - now rewrite map_length.
    - apply Forall_forall. intros c Hin. apply in_map_iff in Hin as (b & <- & _). reflexivity.
    - assert (HF : Forall (fun b => elem_store (EByte r) (PInt b) = inr [b]) bs).
      { eapply Forall_impl; [|exact Hbb]. cbv beta. intros b Hb0.
        unfold elem_store. cbn [elem_ct fst snd]. unfold cstore. rewrite Hk.
        change (Z.to_nat (c_width r)) with (irec_w r). rewrite Hw. cbn [le_encode].
        now rewrite Z.mod_small by lia. }
      clear - HF. induction HF; cbn [map]; constructor; auto.
    - lia. }
  exists (PBytes bs). split; [exact Hget|]. split.
  - unfold set. cbn [f_ty f_off]. unfold arr_setitem. cbn [iter_items elem_validate_many byte_validate_many].
    change (elem_size (EByte r)) with (irec_w r). rewrite Hw.
    replace (bytearray_conv (EByte r) (PBytes bs)) with (PList (map PInt bs)); [exact Hcar|].
    destruct bs as [|b0 [|b1 bs']]; cbn [length] in Hl; try lia. reflexivity.
  - intros _. cbn [jrt]. unfold set. cbn [f_ty f_off]. unfold arr_setitem.
    cbn [iter_items elem_validate_many bytearray_conv].
    change (elem_size (EByte r)) with (irec_w r). rewrite Hw.
    rewrite byte_many_pass; [exact Hcar| |].
    + destruct bs; [cbn [length] in Hl; lia|discriminate].
    + rewrite Hlo', Hhi'. eapply Forall_impl; [|exact Hbb]. cbv beta. intros; lia.
Qed.

(* ------------------------------------------------------------------ *)
(* any admissible leaf                                                  *)

Lemma leaf_ok : forall f m cur,
  leaf_ty_ok (f_ty f) = true -> (f_end f <= length m)%nat -> length cur = length m -> all_bytes m = true ->
  leaf_inv (f_ty f) (extent f m) = true ->
  match f_ty f with TString _ => string_clean (extent f m) = true | _ => True end ->
  (forall j, (f_off f <= j < f_end f)%nat -> nth j cur 0 = 0) ->
  leaf_goal f m cur.
Proof.
  intros [off t] m cur Hty Hend Hc Hb Hinv Hcl Hz. unfold f_end, extent in *. cbn [f_off f_ty] in *.
  destruct t as [r|ct|r| |n|e n|cls size|cls esz n]; cbn [leaf_ty_ok fsize] in *; try discriminate.
  - now apply leaf_int.
  - now apply leaf_float.
  - now apply leaf_byte.
  - now apply leaf_char.
  - apply leaf_string; auto. lia.
  - destruct e as [vid r|vid ct|r]; cbn [elem_ok] in Hty; apply andb_true_iff in Hty as [H1 H2].
    + apply leaf_arr_int; auto. lia.
    + apply leaf_arr_float; auto. lia.
    + apply leaf_arr_byte; auto. lia.
Qed.

(* ------------------------------------------------------------------ *)
(* all leaves                                                           *)

Lemma covered_disjoint : forall f ls j, disjoint_from f ls = true -> covered ls j = true ->
  ~ (f_off f <= j < f_end f)%nat.
Proof.
  intros f ls j Hd Hcv Hj. unfold covered in Hcv. apply existsb_exists in Hcv as (g & Hin & Hg).
  unfold disjoint_from in Hd. rewrite forallb_forall in Hd. specialize (Hd g Hin). lia.
Qed.

Lemma covered_cons : forall f ls j,
  covered (f :: ls) j = ((f_off f <=? j)%nat && (j <? f_end f)%nat) || covered ls j.
Proof. reflexivity. Qed.

Lemma cover_step : forall f ls m cur, disjoint_from f ls = true -> (f_end f <= length m)%nat ->
  length cur = length m ->
  (forall j, (j < length m)%nat -> nth j cur 0 = if covered (f :: ls) j then 0 else nth j m 0) ->
  forall j, (j < length m)%nat ->
  nth j (splice cur (f_off f) (extent f m)) 0 = if covered ls j then 0 else nth j m 0.
Proof.
  intros f ls m cur Hdis Hend Hc Hcov j Hj.
  assert (Hel : length (extent f m) = fsize (f_ty f)) by (unfold extent; apply sub_length; exact Hend).
  specialize (Hcov j Hj). rewrite covered_cons in Hcov.
  pose proof (covered_disjoint f ls j Hdis) as Hcd. unfold extent in *. unfold f_end in *.
  revert Hel Hcov Hcd Hend. generalize (f_off f) as o. generalize (fsize (f_ty f)) as sz.
  generalize (covered ls j) as cv. intros cv sz o Hel Hcov Hcd Hend. clear Hdis.
  destruct (Nat.leb_spec o j) as [H1|H1]; [destruct (Nat.ltb_spec j (o + sz)) as [H2|H2]|].
  - destruct cv.
    + exfalso. apply Hcd; [reflexivity|lia].
    + rewrite splice_nth_inside by (rewrite Hel; lia).
      rewrite sub_nth; [f_equal; lia|exact Hend|lia].
  - rewrite splice_nth_outside; [|rewrite Hel, Hc; exact Hend|right; rewrite Hel; exact H2].
    rewrite Hcov. replace ((o <=? j)%nat && (j <? o + sz)%nat) with false by lia. reflexivity.
  - rewrite splice_nth_outside; [|rewrite Hel, Hc; exact Hend|left; exact H1].
    rewrite Hcov. replace ((o <=? j)%nat && (j <? o + sz)%nat) with false by lia. reflexivity.
Qed.

Lemma go_ok : forall m ls cur,
  layout_ok (length m) ls = true -> all_bytes m = true ->
  forallb (fun f => leaf_inv (f_ty f) (extent f m)) ls = true ->
  strings_clean ls m = true ->
  length cur = length m ->
  (forall j, (j < length m)%nat -> nth j cur 0 = if covered ls j then 0 else nth j m 0) ->
  exists vs, to_dict ls m = inr vs /\ from_dict_go ls vs cur = Some m /\
    (nans_canonical ls m = true -> from_dict_go ls (map jrt vs) cur = Some m).
Proof.
  intros m ls. induction ls as [|f ls IH]; intros cur Hlay Hb Hinv Hcl Hc Hcov.
  - assert (cur = m).
    { apply nth_ext_eq; [exact Hc|]. intros j Hj. rewrite Hc in Hj. now rewrite (Hcov j Hj). }
    subst cur. exists []. repeat split.
  - cbn [layout_ok forallb strings_clean] in Hlay, Hinv, Hcl.
    apply andb_true_iff in Hlay as [Hlay Hlay']. apply andb_true_iff in Hlay as [Hlay Hdis].
    apply andb_true_iff in Hlay as [Hty Hbnd]. apply andb_true_iff in Hinv as [Hinv Hinv'].
    unfold strings_clean in Hcl. cbn [forallb] in Hcl. apply andb_true_iff in Hcl as [Hcl Hcl'].
    unfold in_bounds in Hbnd. assert (Hend : (f_end f <= length m)%nat) by (now apply Nat.leb_le).
    assert (Hfz : forall j, (f_off f <= j < f_end f)%nat -> nth j cur 0 = 0).
    { intros j [Hj1 Hj2]. rewrite Hcov by (eapply Nat.lt_le_trans; eassumption). rewrite covered_cons.
      apply Nat.leb_le in Hj1. apply Nat.ltb_lt in Hj2. now rewrite Hj1, Hj2. }
    assert (Hcl1 : match f_ty f with TString _ => string_clean (extent f m) = true | _ => True end).
    { destruct (f_ty f); auto. }
    destruct (leaf_ok f m cur Hty Hend Hc Hb Hinv Hcl1 Hfz) as (v & Hget & Hset & Hjset).
    assert (Hel : length (extent f m) = fsize (f_ty f)) by (unfold extent; apply sub_length; exact Hend).
    set (cur' := splice cur (f_off f) (extent f m)) in *.
    assert (Hc' : length cur' = length m).
    { unfold cur'. rewrite splice_length; [exact Hc|]. rewrite Hel, Hc. exact Hend. }
    assert (Hcov' : forall j, (j < length m)%nat -> nth j cur' 0 = if covered ls j then 0 else nth j m 0).
    { unfold cur'. now apply cover_step. }
    destruct (IH cur' Hlay' Hb Hinv' Hcl' Hc' Hcov') as (vs & Hto & Hgo & Hjgo).
    exists (v :: vs). split; [cbn [to_dict]; now rewrite Hget, Hto|]. split.
    + cbn [from_dict_go]. now rewrite Hset.
    + intros Hnc. unfold nans_canonical in Hnc. cbn [forallb] in Hnc. apply andb_true_iff in Hnc as [Hn1 Hn2].
      cbn [map from_dict_go]. rewrite (Hjset Hn1). now apply Hjgo.
Qed.

Lemma go_start : forall leaves size m,
  layout_ok size leaves = true -> reach_inv leaves size m = true -> strings_clean leaves m = true ->
  exists vs, to_dict leaves m = inr vs /\ from_dict_go leaves vs (repeat 0 size) = Some m /\
    (nans_canonical leaves m = true -> from_dict_go leaves (map jrt vs) (repeat 0 size) = Some m).
Proof.
  intros leaves size m Hlay Hr Hcl. unfold reach_inv in Hr.
  apply andb_true_iff in Hr as [Hr Hunc]. apply andb_true_iff in Hr as [Hr Hinv].
  apply andb_true_iff in Hr as [Hsz Hb]. apply Nat.eqb_eq in Hsz. subst size.
  apply go_ok; auto.
  - apply repeat_length.
  - intros j Hj. rewrite nth_repeat. unfold uncovered_zero in Hunc. rewrite forallb_forall in Hunc.
    specialize (Hunc j). rewrite in_seq in Hunc. specialize (Hunc ltac:(lia)).
    destruct (covered leaves j); [reflexivity|]. cbn [orb] in Hunc. lia.
Qed.

Theorem dict_roundtrip_ok : forall leaves size m,
  layout_ok size leaves = true -> reach_inv leaves size m = true -> strings_clean leaves m = true ->
  dict_roundtrip leaves size m = inr m.
Proof.
  intros leaves size m Hlay Hr Hcl. destruct (go_start leaves size m Hlay Hr Hcl) as (vs & Hto & Hgo & _).
  unfold dict_roundtrip, from_dict. now rewrite Hto, Hgo.
Qed.

Theorem json_roundtrip_ok : forall leaves size m,
  layout_ok size leaves = true -> reach_inv leaves size m = true -> strings_clean leaves m = true ->
  nans_canonical leaves m = true ->
  json_roundtrip leaves size m = inr m.
Proof.
  intros leaves size m Hlay Hr Hcl Hnc. destruct (go_start leaves size m Hlay Hr Hcl) as (vs & Hto & _ & Hgo).
  unfold json_roundtrip, from_dict. now rewrite Hto, (Hgo Hnc).
Qed.
