(* Read-back: after an accepted (validated) assignment the value read through the same field is the
   normal form of the value assigned (Spec/ValSpec.v: norm_scalar / norm_elem).
   The one float fact used (narrow_bits is a 32-bit pattern) is a section hypothesis, proved in
   Proofs/FloatProofs.v and discharged in Proofs/FloatArrayProofs.v. *)
From Coq Require Import ZArith List Bool Lia ZifyBool Arith.
From Val Require Import Gen.ValidatorTbl Model.Bytes Model.Floats Model.Values Spec.ValSpec
  Proofs.BytesProofs Proofs.ValuesProofs Proofs.RefuseProofs.
Import ListNotations.
Open Scope Z_scope.

Lemma int_roundtrip : forall r z, irec_ok r = true -> v_min r <= z <= v_max r ->
  load_int (irec_signed r) (le_encode (irec_w r) z) = z.
Proof.
  intros r z Hr Hz. pose proof (irec_ok_range r Hr) as [Hlo Hhi]. unfold irec_ok in Hr.
  unfold irec_signed, irec_w. rewrite Hlo, Hhi in Hz. unfold c_lo, c_hi in Hz.
  assert (Hw : c_width r = 1 \/ c_width r = 2 \/ c_width r = 4 \/ c_width r = 8) by lia.
  assert (Hn : 8 * Z.of_nat (Z.to_nat (c_width r)) = 8 * c_width r) by lia.
  destruct (c_kind r =? 0) eqn:Ek.
  - apply load_store_signed; [lia|]. rewrite Hn. lia.
  - apply load_store_unsigned. rewrite Hn. lia.
Qed.

Lemma sub_splice_prefix : forall m off n bs, (off + n <= length m)%nat -> (length bs <= n)%nat ->
  sub (splice m off bs) off n = bs ++ sub m (off + length bs) (n - length bs).
Proof.
  intros m off n bs Hm Hb. apply nth_ext_eq.
  - rewrite app_length, !sub_length; try lia. rewrite splice_length; lia.
  - intros j Hj. rewrite sub_length in Hj by (rewrite splice_length; lia).
    rewrite sub_nth by (try rewrite splice_length; lia).
    destruct (Nat.ltb_spec j (length bs)).
    + rewrite app_nth1 by lia. unfold splice. rewrite app_nth2 by (rewrite firstn_length; lia).
      rewrite firstn_length. replace (Nat.min off (length m)) with off by lia.
      rewrite app_nth1 by lia. f_equal. lia.
    + rewrite app_nth2 by lia. rewrite sub_nth by lia.
      rewrite splice_nth_outside by lia. f_equal. lia.
Qed.

Lemma sub_splice_whole : forall m off bs, (off + length bs <= length m)%nat ->
  sub (splice m off bs) off (length bs) = bs.
Proof. exact sub_splice_same. Qed.

(* ------------------------------------------------------------------ *)
(* array writes followed by reads                                       *)

Lemma write_items_preserves_chunk : forall st esz n off ps items m m' p,
  (forall x bs, st x = inr bs -> length bs = esz) ->
  Forall (fun q => 0 <= q < Z.of_nat n) ps -> ~ In p ps -> 0 <= p < Z.of_nat n ->
  (off + n * esz <= length m)%nat ->
  snd (write_items st esz off m ps items) = m' ->
  sub m' (off + Z.to_nat p * esz) esz = sub m (off + Z.to_nat p * esz) esz.
Proof.
  intros st esz n off ps. induction ps as [|q ps IH]; intros items m m' p Hst Hps Hnin Hp Hm Hw; cbn [write_items] in Hw.
  - now subst.
  - destruct items as [|x items]; [now subst|].
    destruct (st x) as [e|bs] eqn:E; [now subst|]. cbn [snd] in Hw.
    inversion Hps as [|? ? Hq0 Hps']. pose proof (Hst _ _ E) as Hl.
    assert (Hq : (Z.to_nat q * esz + esz <= n * esz)%nat) by nia.
    assert (Hpp : (Z.to_nat p * esz + esz <= n * esz)%nat) by nia.
    assert (Hl2 : (off + n * esz <= length (splice m (off + Z.to_nat q * esz) bs))%nat)
      by (rewrite splice_length; lia).
    rewrite (IH items (splice m (off + Z.to_nat q * esz) bs) m' p Hst Hps'
               (fun Hin => Hnin (or_intror Hin)) Hp Hl2 Hw).
    apply sub_splice_disjoint; try lia.
    assert (p <> q) by (intros ->; apply Hnin; now left).
    destruct (Z_lt_le_dec p q); [left|right]; nia.
Qed.

Lemma write_items_read : forall st esz n off ps items m m',
  (forall x bs, st x = inr bs -> length bs = esz) ->
  Forall (fun q => 0 <= q < Z.of_nat n) ps -> NoDup ps -> length items = length ps ->
  (off + n * esz <= length m)%nat ->
  write_items st esz off m ps items = (None, m') ->
  Forall2 (fun p x => st x = inr (sub m' (off + Z.to_nat p * esz) esz)) ps items.
Proof.
  intros st esz n off ps. induction ps as [|q ps IH]; intros items m m' Hst Hps Hnd Hlen Hm Hw.
  - destruct items; [constructor|discriminate].
  - destruct items as [|x items]; [discriminate|]. cbn [write_items] in Hw.
    destruct (st x) as [e|bs] eqn:E; [discriminate|].
    inversion Hps as [|? ? Hq0 Hps']. inversion Hnd as [|? ? Hnin Hnd']. pose proof (Hst _ _ E) as Hl.
    assert (Hq : (Z.to_nat q * esz + esz <= n * esz)%nat) by nia.
    assert (Hl2 : (off + n * esz <= length (splice m (off + Z.to_nat q * esz) bs))%nat)
      by (rewrite splice_length; lia).
    constructor.
    + assert (Hw' : snd (write_items st esz off (splice m (off + Z.to_nat q * esz) bs) ps items) = m')
        by (rewrite Hw; reflexivity).
      rewrite (write_items_preserves_chunk st esz n off ps items _ m' q Hst Hps' Hnin Hq0 Hl2 Hw').
      rewrite <- Hl. rewrite sub_splice_same by lia. exact E.
    + eapply IH; eauto.
Qed.

Lemma Forall2_map_eq : forall (A B C : Type) (f : A -> C) (g : B -> C) la lb,
  Forall2 (fun a b => f a = g b) la lb -> map f la = map g lb.
Proof. induction 1; cbn [map]; congruence. Qed.

Lemma carr_assign_slice_ok : forall st esz n off m a b c v m',
  carr_assign st esz n off m (KSlice a b c) v = (None, m') ->
  exists start step len items, slice_indices (Z.of_nat n) a b c = Some (start, step, len) /\
    iter_items v = Some items /\ length items = len /\
    write_items st esz off m (positions start step len) items = (None, m').
Proof.
  intros st esz n off m a b c v m' H. unfold carr_assign in H.
  destruct (slice_indices (Z.of_nat n) a b c) as [[[start step] len]|]; [|discriminate].
  destruct (iter_items v) as [items|]; [|discriminate].
  destruct (length items =? len)%nat eqn:El; cbn [negb] in H; [|discriminate].
  exists start, step, len, items. repeat split; auto. now apply Nat.eqb_eq.
Qed.

(* reading a slice back after writing it *)
Lemma slice_write_read : forall st (ld : list Z -> pyval) (nm : pyval -> pyval) join esz n off m a b c v m' items,
  (forall x bs, st x = inr bs -> length bs = esz) -> (off + n * esz <= length m)%nat ->
  carr_assign st esz n off m (KSlice a b c) v = (None, m') ->
  iter_items v = Some items ->
  (forall x bs, In x items -> st x = inr bs -> ld bs = nm x) ->
  arr_get ld join esz n off m' (KSlice a b c) = inr (join (map nm items)).
Proof.
  intros st ld nm join esz n off m a b c v m' items Hst Hm H Hi Hnm.
  apply carr_assign_slice_ok in H as (start & step & len & items' & Hs & Hi' & Hl & Hw).
  rewrite Hi in Hi'. inversion Hi'; subst items'. clear Hi'.
  unfold arr_get. rewrite Hs.
  pose proof (slice_positions_bounds _ _ _ _ _ _ _ (Nat2Z.is_nonneg n) Hs) as [Hstep Hb].
  assert (Hpl : length items = length (positions start step len)) by (rewrite positions_length; lia).
  pose proof (write_items_read st esz n off _ items m m' Hst Hb (positions_NoDup _ _ _ Hstep) Hpl Hm Hw) as HF.
  f_equal. f_equal.
  clear Hw Hs Hb Hpl. revert HF Hnm. generalize (positions start step len). intros ps HF. clear Hl Hi.
  induction HF as [|p x ps' items' Hpx HF' IH]; intros Hnm; cbn [map]; [reflexivity|]. f_equal.
  - symmetry. rewrite <- (Hnm x _ (or_introl eq_refl) Hpx). reflexivity.
  - apply IH. intros z bs Hin. apply Hnm. now right.
Qed.

Lemma idx_write_read : forall st (ld : list Z -> pyval) join esz n off m i v m' bs,
  (forall x bs, st x = inr bs -> length bs = esz) -> (off + n * esz <= length m)%nat ->
  carr_assign st esz n off m (KIdx i) v = (None, m') -> st v = inr bs ->
  arr_get ld join esz n off m' (KIdx i) = inr (ld bs).
Proof.
  intros st ld join esz n off m i v m' bs Hst Hm H Hs. unfold carr_assign in H. unfold arr_get.
  set (i' := if i <? 0 then i + Z.of_nat n else i) in *.
  destruct ((i' <? 0) || (Z.of_nat n <=? i')) eqn:E; [discriminate|].
  rewrite Hs in H. inversion H; subst. pose proof (Hst _ _ Hs) as Hl.
  assert ((Z.to_nat i' * esz + esz <= n * esz)%nat) by nia.
  rewrite <- Hl. rewrite sub_splice_same by lia. reflexivity.
Qed.

(* ------------------------------------------------------------------ *)

Section Readback.
  Hypothesis narrow_range : forall b, 0 <= narrow_bits b < 2 ^ 32.

  Lemma elem_load_store_float : forall vid ct b, fct_ok ct = true ->
    elem_load (EFloat vid ct) (float_bytes (snd ct) b) =
    PFloat (if snd ct =? 4 then widen_bits (narrow_bits b) else b mod two64).
  Proof.
    intros vid ct b H. unfold fct_ok in H. cbn [elem_load]. unfold float_bytes.
    destruct (snd ct =? 4) eqn:E.
    - rewrite le_decode_encode. change (2 ^ (8 * Z.of_nat 4)) with (2 ^ 32).
      rewrite Z.mod_small by apply narrow_range. reflexivity.
    - rewrite le_decode_encode. reflexivity.
  Qed.

  (* the value loaded from the bytes a validated element store wrote *)
  Lemma elem_store_load_one : forall e v bs, elem_ok e = true -> wf_val v = true ->
    elem_validate_one e v = None -> elem_store e (bytearray_conv e v) = inr bs ->
    elem_load e bs = norm_elem e v.
  Proof.
    intros e v bs He Hwf Hv Hs. unfold elem_store in Hs.
    destruct e as [vid r|vid ct|r]; cbn [elem_ok elem_ct fst snd elem_validate_one bytearray_conv] in *.
    - replace (match v with _ => v end) with v in Hs by (destruct v; reflexivity).
      unfold int_validate_one in Hv. unfold cstore in Hs.
      destruct v; cbn [is_cinst is_intlike negb int_of] in *; try discriminate.
      + assert (c_kind r <=? 1 = true) by (unfold irec_ok in He; lia). rewrite H in Hs. inversion Hs; subst.
        cbn [norm_elem elem_load int_of]. f_equal. apply int_roundtrip; auto.
        unfold guard_int_one in Hv. destruct (negb _) eqn:E in Hv; [discriminate|]. lia.
      + assert (c_kind r <=? 1 = true) by (unfold irec_ok in He; lia). rewrite H in Hs. inversion Hs; subst.
        cbn [norm_elem elem_load int_of]. f_equal. apply int_roundtrip; auto.
        unfold guard_int_one in Hv. destruct (negb _) eqn:E in Hv; [discriminate|]. lia.
      + destruct (same_ct (c_kind r) (c_width r) ck cw raw); [|discriminate]. inversion Hs; subst. reflexivity.
    - replace (match v with _ => v end) with v in Hs by (destruct v; reflexivity).
      unfold float_validate_one in Hv. unfold cstore in Hs.
      assert (Hk1 : fst ct <=? 1 = false) by (unfold fct_ok in He; lia).
      assert (Hk2 : fst ct =? 2 = true) by (unfold fct_ok in He; lia).
      destruct v; cbn [is_cinst] in *; try discriminate;
        try (rewrite Hk1, Hk2 in Hs; destruct (num_to_f64 _) as [x|b'] eqn:En in Hs; [discriminate|];
             inversion Hs; subst; cbn [norm_elem]; rewrite En; now apply elem_load_store_float).
      destruct (same_ct (fst ct) (snd ct) ck cw raw); [|discriminate]. inversion Hs; subst. reflexivity.
    - unfold byte_irec_ok in He. assert (Hr : irec_ok r = true) by lia.
      assert (Hk : c_kind r <=? 1 = true) by lia.
      assert (Hw1 : irec_w r = 1%nat) by (unfold irec_w; lia).
      assert (Hsg : irec_signed r = false) by (unfold irec_signed; lia).
      unfold byte_validate_one in Hv. unfold cstore in Hs.
      destruct v; cbn [is_cinst int_of] in *; try discriminate.
      + rewrite Hk in Hs. inversion Hs; subst. cbn [norm_elem elem_load int_of]. f_equal.
        replace (Z.to_nat (c_width r)) with 1%nat by lia. cbn [le_encode]. f_equal.
        apply irec_ok_range in Hr as [Hlo Hhi]. unfold guard_byte_one in Hv. rewrite Hlo, Hhi in Hv.
        unfold c_lo, c_hi in Hv. replace (c_kind r =? 0) with false in Hv by lia. replace (c_width r) with 1 in Hv by lia.
        destruct (negb _) eqn:E in Hv; [discriminate|]. apply Z.mod_small. change (2 ^ (8 * 1)) with 256 in *. lia.
      + rewrite Hk in Hs. inversion Hs; subst. cbn [norm_elem elem_load int_of]. f_equal.
        replace (Z.to_nat (c_width r)) with 1%nat by lia. cbn [le_encode]. f_equal. destruct b; reflexivity.
      + unfold guard_byte_len in Hv. destruct (negb _) eqn:E in Hv; [discriminate|].
        destruct bs0 as [|b0 [|b1 r0]]; cbn [length] in E; try lia.
        cbn [bytearray_conv] in Hs. rewrite Hk in Hs. inversion Hs; subst. cbn [norm_elem elem_load]. f_equal.
        replace (Z.to_nat (c_width r)) with 1%nat by lia. cbn [le_encode]. f_equal.
        cbn [wf_val all_bytes forallb] in Hwf. unfold byte_ok in Hwf. apply Z.mod_small. lia.
      + destruct (same_ct (c_kind r) (c_width r) ck cw raw); [|discriminate]. inversion Hs; subst. reflexivity.
  Qed.

  (* items of a validated sequence *)
  Lemma int_many_range : forall (guard : Z -> Z -> Z -> Z -> bool) vmin vmax items x,
    (forall mx mn, guard vmin vmax mx mn = (vmax <? mx) || (mn <? vmin)) ->
    (if negb (forallb is_intlike items) then Some ETypeError
     else match map int_of items with
          | [] => Some EValueError
          | z :: zs => if guard vmin vmax (zmax_list z zs) (zmin_list z zs) then Some EValueError else None
          end) = None ->
    In x items -> is_intlike x = true /\ vmin <= int_of x <= vmax.
  Proof.
    intros guard vmin vmax items x Hg H Hin.
    destruct (forallb is_intlike items) eqn:Ef; cbn [negb] in H; [|discriminate].
    rewrite forallb_forall in Ef. split; [now apply Ef|].
    destruct (map int_of items) as [|z zs] eqn:Em; [discriminate|].
    assert (Hinz : In (int_of x) (z :: zs)) by (rewrite <- Em; now apply in_map).
    pose proof (zmax_list_ge _ _ _ Hinz). pose proof (zmin_list_le _ _ _ Hinz).
    rewrite Hg in H. destruct ((vmax <? zmax_list z zs) || (zmin_list z zs <? vmin)) eqn:E; [discriminate|]. lia.
  Qed.

  Lemma elem_store_load_many : forall e v items x bs, elem_ok e = true -> wf_val v = true ->
    iter_items v = Some items -> elem_validate_many e v items = None ->
    forall items', iter_items (bytearray_conv e v) = Some items' -> In x items' ->
    elem_store e x = inr bs -> elem_load e bs = norm_elem e x.
  Proof.
    intros e v items x bs He Hwf Hi Hv items' Hi' Hin Hs. unfold elem_store in Hs.
    destruct e as [vid r|vid ct|r]; cbn [elem_ok elem_ct fst snd elem_validate_many bytearray_conv] in *.
    - replace (match v with _ => v end) with v in Hi' by (destruct v; reflexivity).
      rewrite Hi in Hi'. inversion Hi'; subst items'.
      unfold int_validate_many in Hv.
      pose proof (int_many_range guard_int_many _ _ _ x ltac:(intros; reflexivity) Hv Hin) as [Hil Hrg].
      assert (c_kind r <=? 1 = true) by (unfold irec_ok in He; lia).
      unfold cstore in Hs. destruct x; try discriminate; rewrite H in Hs; inversion Hs; subst;
        cbn [norm_elem elem_load int_of] in *; f_equal; now apply int_roundtrip.
    - replace (match v with _ => v end) with v in Hi' by (destruct v; reflexivity).
      rewrite Hi in Hi'. inversion Hi'; subst items'.
      (* every element was converted by validate_many, so it is a number (not a ctypes instance) *)
      assert (Hconv : exists b0, num_to_f64 x = inr b0).
      { clear Hs. revert Hv Hin. clear. induction items as [|y r IH]; intros Hv Hin; [contradiction|].
        cbn [float_validate_many] in Hv. unfold float_isinf_conv in Hv at 1.
        destruct (num_to_f64 y) as [e|b0] eqn:En; [discriminate|].
        destruct Hin as [<-|Hin]; [eauto|]. apply IH; auto.
        destruct (if snd ct =? 4 then f32_is_inf (narrow_bits b0) else f64_is_inf b0); [discriminate|exact Hv]. }
      destruct Hconv as [b0 Hb0].
      assert (Hk1 : fst ct <=? 1 = false) by (unfold fct_ok in He; lia).
      assert (Hk2 : fst ct =? 2 = true) by (unfold fct_ok in He; lia).
      unfold cstore in Hs.
      destruct x; try (cbn [num_to_f64] in Hb0; discriminate);
        (rewrite Hk1, Hk2 in Hs; destruct (num_to_f64 _) as [y|b'] eqn:En in Hs; [discriminate|];
         inversion Hs; subst; cbn [norm_elem]; rewrite En; now apply elem_load_store_float).
    - unfold byte_irec_ok in He. assert (Hr : irec_ok r = true) by lia.
      assert (Hk : c_kind r <=? 1 = true) by lia.
      assert (Hrange : is_intlike x = true /\ 0 <= int_of x < 256).
      { destruct v; cbn [bytearray_conv] in Hi';
          try (rewrite Hi in Hi'; inversion Hi'; subst items'; unfold byte_validate_many in Hv;
               pose proof (int_many_range guard_byte_many _ _ _ x ltac:(intros; reflexivity) Hv Hin) as [Hil Hrg];
               split; [exact Hil|]; apply irec_ok_range in Hr as [Hlo Hhi]; rewrite Hlo, Hhi in Hrg;
               unfold c_lo, c_hi in Hrg; replace (c_kind r =? 0) with false in Hrg by lia;
               replace (c_width r) with 1 in Hrg by lia; change (2 ^ (8 * 1)) with 256 in Hrg; lia).
        (* value is a bytes object: its elements are bytes *)
        cbn [wf_val] in Hwf. unfold all_bytes in Hwf. rewrite forallb_forall in Hwf.
        destruct bs0 as [|b0 [|b1 r0]]; cbn [iter_items] in Hi'; try discriminate; inversion Hi'; subst items'.
        - contradiction.
        - change (PInt b0 :: PInt b1 :: map PInt r0) with (map PInt (b0 :: b1 :: r0)) in Hin.
          apply in_map_iff in Hin as (y & <- & Hy). specialize (Hwf y Hy). unfold byte_ok in Hwf.
          cbn [is_intlike int_of]. split; [reflexivity|lia]. }
      destruct Hrange as [Hil Hrg]. unfold cstore in Hs.
      destruct x; try discriminate; rewrite Hk in Hs; inversion Hs; subst; cbn [norm_elem elem_load int_of] in *; f_equal;
        replace (Z.to_nat (c_width r)) with 1%nat by lia; cbn [le_encode]; f_equal; apply Z.mod_small; lia.
  Qed.
End Readback.

Lemma arr_get_attr : forall ld join esz n off m,
  arr_get ld join esz n off m KAttr = arr_get ld join esz n off m (KSlice None None None).
Proof. intros. unfold arr_get. now rewrite slice_full. Qed.

Definition scalar_ty (t : ftype) : bool :=
  match t with TArr _ _ | TSArr _ _ _ => false | _ => true end.
Definition elem_join (e : elem) : list pyval -> pyval :=
  match e with EByte _ => join_bytes | _ => PList end.

Section ReadbackTop.
  Hypothesis narrow_range : forall b, 0 <= narrow_bits b < 2 ^ 32.

  Theorem readback_scalar : forall f m v m', ftype_ok (f_ty f) = true -> wf_field f m -> wf_val v = true ->
    scalar_ty (f_ty f) = true -> set true f KAttr m v = (None, m') ->
    get f KAttr m' = norm_scalar (f_ty f) v.
  Proof.
    intros f m v m' Hok Hwf Hv Hsc H. unfold wf_field in Hwf. unfold set in H. unfold get.
    destruct (f_ty f) as [r|ct|r| |n|e n|cls size|cls esz n] eqn:Et; cbn [ftype_ok fsize scalar_ty] in *; try discriminate.
    - (* TInt *)
      destruct (int_validate_one r v) eqn:Ev; [discriminate|].
      destruct (cstore (c_kind r) (c_width r) v) as [x|bs] eqn:Es; cbn [ok_or] in H; [discriminate|].
      inversion H; subst m'.
      pose proof (cstore_length _ _ _ _ (irec_ok_ct r Hok) Es) as Hl.
      pose proof (elem_store_load_one narrow_range (EInt 0 r) v bs Hok Hv Ev) as Hld.
      cbn [elem_store elem_ct fst snd bytearray_conv] in Hld.
      replace (match v with _ => v end) with v in Hld by (destruct v; reflexivity). specialize (Hld Es).
      unfold irec_w. rewrite <- Hl. rewrite sub_splice_same by (unfold irec_w in Hwf; lia).
      cbn [elem_load] in Hld. rewrite Hld. cbn [norm_scalar norm_elem].
      destruct v; reflexivity.
    - (* TFloat *)
      destruct (float_validate_one ct v) eqn:Ev; [discriminate|].
      destruct (cstore (fst ct) (snd ct) v) as [x|bs] eqn:Es; cbn [ok_or] in H; [discriminate|].
      inversion H; subst m'.
      pose proof (cstore_length _ _ _ _ (fct_ok_ct ct Hok) Es) as Hl.
      pose proof (elem_store_load_one narrow_range (EFloat 0 ct) v bs Hok Hv Ev) as Hld.
      cbn [elem_store elem_ct fst snd bytearray_conv] in Hld.
      replace (match v with _ => v end) with v in Hld by (destruct v; reflexivity). specialize (Hld Es).
      rewrite <- Hl. rewrite sub_splice_same by lia. cbn [elem_load] in Hld.
      cbn [norm_scalar]. rewrite <- Hld. reflexivity.
    - (* TByte *)
      destruct (byte_validate_one r v) eqn:Ev; [discriminate|].
      set (v' := match v with PBytes bs => PInt (le_decode bs) | _ => v end) in *.
      destruct (cstore (c_kind r) (c_width r) v') as [x|bs] eqn:Es; cbn [ok_or] in H; [discriminate|].
      inversion H; subst m'. unfold byte_irec_ok in Hok.
      assert (Hr : irec_ok r = true) by lia.
      pose proof (cstore_length _ _ _ _ (irec_ok_ct r Hr) Es) as Hl.
      assert (Hk : c_kind r <=? 1 = true) by lia.
      assert (Hsg : irec_signed r = false) by (unfold irec_signed; lia).
      unfold irec_w. rewrite <- Hl. rewrite sub_splice_same by (unfold irec_w in Hwf; lia).
      rewrite Hsg. unfold load_int. cbn [norm_scalar]. unfold byte_validate_one in Ev.
      pose proof (irec_ok_range r Hr) as [Hlo Hhi]. unfold c_lo, c_hi in *.
      replace (c_kind r =? 0) with false in * by lia. replace (c_width r) with 1 in * by lia.
      change (2 ^ (8 * 1)) with 256 in *. change (Z.to_nat 1) with 1%nat in *.
      destruct v; cbn [is_cinst int_of] in *; try discriminate; subst v'; unfold cstore in Es.
      + rewrite Hk in Es. inversion Es; subst. cbn [le_encode le_decode]. apply f_equal. apply f_equal.
        unfold guard_byte_one in Ev. rewrite Hlo, Hhi in Ev. destruct (negb _) eqn:E in Ev; [discriminate|].
        rewrite Z.mod_small by lia. lia.
      + rewrite Hk in Es. inversion Es; subst. cbn [le_encode le_decode]. apply f_equal. apply f_equal.
        destruct b; reflexivity.
      + rewrite Hk in Es. inversion Es; subst. cbn [le_encode le_decode]. apply f_equal. apply f_equal.
        unfold guard_byte_len in Ev. destruct (negb _) eqn:E in Ev; [discriminate|].
        destruct bs0 as [|b0 [|b1 r0]]; cbn [length] in E; try lia.
        cbn [wf_val all_bytes forallb] in Hv. unfold byte_ok in Hv. cbn [le_decode]. rewrite Z.mod_small by lia. lia.
      + destruct (same_ct (c_kind r) 1 ck cw raw) eqn:Ec; [|discriminate]. inversion Es; subst.
        unfold load_int. now rewrite Hsg.
    - (* TChar *)
      change (fst char_ctype) with 3 in *. change (snd char_ctype) with 1 in *.
      destruct (is_cinst 3 1 v) eqn:Ec.
      + destruct v; try discriminate. cbn [is_cinst] in Ec. unfold cstore in H. rewrite Ec in H. cbn [ok_or] in H.
        inversion H; subst m'. apply same_ct_length in Ec as (Hl & _ & _). cbn [norm_scalar].
        change 1%nat with (Z.to_nat 1). rewrite <- Hl. rewrite sub_splice_same by (cbn in Hwf; lia). reflexivity.
      + destruct (char_validate_one v) eqn:Ev; [discriminate|].
        unfold char_validate_one in Ev. change (fst char_ctype) with 3 in Ev. change (snd char_ctype) with 1 in Ev.
        rewrite Ec in Ev. destruct v; try discriminate. cbn [encode_ascii] in H.
        destruct (guard_char_len char_len (Z.of_nat (length cs))); [discriminate|].
        destruct (all_ascii cs) eqn:Ea; cbn [negb] in Ev; [|discriminate].
        unfold cstore in H. cbn [Z.leb Z.compare Z.eqb] in H.
        destruct cs as [|b0 [|b1 r0]]; cbn [ok_or] in H; try discriminate. inversion H; subst m'.
        cbn [norm_scalar]. change 1%nat with (length [b0]). rewrite sub_splice_same by (cbn in *; lia).
        unfold decode_ascii. now rewrite Ea.
    - (* TString *)
      destruct (is_chararr n v) eqn:Eca; [discriminate|].
      destruct (string_validate_one n v) eqn:Ev; [discriminate|]. unfold string_validate_one in Ev.
      destruct v; try discriminate. cbn [encode_ascii] in H.
      unfold guard_string_len in Ev. destruct (Z.of_nat n - 1 <? Z.of_nat (length cs)) eqn:El; [discriminate|].
      destruct (all_ascii cs) eqn:Ea; cbn [negb] in Ev; [|discriminate].
      unfold s_set in H. pose proof (take_until_nul_length cs) as Hpl.
      destruct (length (take_until_nul cs) <? n)%nat eqn:E1; [|lia]. cbn [ok_or] in H.
      set (m0 := if (1 <? n)%nat && (length cs <? n)%nat then splice m (f_off f) (repeat 0 n) else m) in H.
      assert (L0 : length m0 = length m).
      { unfold m0. destruct ((1 <? n)%nat && (length cs <? n)%nat); [|reflexivity].
        apply splice_length. rewrite repeat_length. lia. }
      inversion H; subst m'.
      cbn [norm_scalar].
      rewrite sub_splice_prefix by (rewrite ?app_length; cbn [length]; lia).
      rewrite <- app_assoc. cbn [app].
      rewrite take_until_nul_app_zero by apply take_until_nul_nozero.
      unfold decode_ascii. now rewrite all_ascii_take.
    - (* TStruct *)
      destruct (struct_validate_one cls size v) eqn:Ev; [discriminate|].
      unfold cstore_struct in H. destruct v; cbn [ok_or] in H; try discriminate.
      destruct ((cls =? cls0) && (length raw =? size)%nat) eqn:E; cbn [ok_or] in H; [|discriminate].
      inversion H; subst m'. cbn [norm_scalar]. replace size with (length raw) by lia.
      rewrite sub_splice_same by lia. reflexivity.
  Qed.

  Lemma elem_store_load_idx : forall e v bs, elem_ok e = true -> wf_val v = true ->
    match iter_items v with Some its => elem_validate_many e v its | None => elem_validate_one e v end = None ->
    elem_store e (bytearray_conv e v) = inr bs -> elem_load e bs = norm_elem e v.
  Proof.
    intros e v bs He Hwf Hv Hs. destruct (iter_items v) as [items|] eqn:Ei.
    - (* a sequence value stored into one element: only ByteArray[i] = b"x" succeeds *)
      pose proof (elem_ct_not_char e He) as Hk. unfold elem_store in Hs.
      assert (Hf : forall v', match v' with PList _ | PStr _ | PCArr _ _ _ _ | PArr _ _ _ | PSArr _ _ _ _ | PBytes _ | PNone | PStruct _ _ => True | _ => False end ->
                   cstore (fst (elem_ct e)) (snd (elem_ct e)) v' = inr bs -> False).
      { intros v' Hv' Hs'. destruct (cstore_seq_fails _ (snd (elem_ct e)) v' Hk Hv') as [x Hx]. congruence. }
      destruct v; try discriminate Ei; try (exfalso; eapply Hf; [|exact Hs]; destruct e; exact I).
      destruct e as [vid r|vid ct|r]; try (exfalso; eapply Hf; [|exact Hs]; exact I).
      destruct bs0 as [|b0 [|b1 r0]]; cbn [bytearray_conv] in Hs; try (exfalso; eapply Hf; [|exact Hs]; exact I).
      cbn [elem_ok] in He. unfold byte_irec_ok in He. cbn [elem_ct fst snd] in Hs. unfold cstore in Hs.
      replace (c_kind r <=? 1) with true in Hs by lia. inversion Hs; subst.
      cbn [norm_elem elem_load]. f_equal. replace (Z.to_nat (c_width r)) with 1%nat by lia. cbn [le_encode]. f_equal.
      cbn [wf_val all_bytes forallb] in Hwf. unfold byte_ok in Hwf. apply Z.mod_small. lia.
    - eapply elem_store_load_one; eauto.
  Qed.

  Theorem readback_index : forall f e n i m v m', f_ty f = TArr e n -> elem_ok e = true -> wf_field f m ->
    wf_val v = true -> set true f (KIdx i) m v = (None, m') ->
    get f (KIdx i) m' = inr (norm_elem e v).
  Proof.
    intros f e n i m v m' Et He Hwf Hv H. unfold wf_field in Hwf. unfold set in H. unfold get. rewrite Et in *.
    cbn [fsize] in Hwf.
    assert (Hs : arr_setitem true e n (f_off f) m (KIdx i) v = (None, m')) by (destruct v; exact H).
    clear H. unfold arr_setitem in Hs.
    destruct (match iter_items v with Some items => elem_validate_many e v items | None => elem_validate_one e v end) eqn:Ev;
      [discriminate|].
    assert (Hst : forall x bs, elem_store e x = inr bs -> length bs = elem_size e)
      by (intros; eapply elem_store_length; eauto).
    destruct (elem_store e (bytearray_conv e v)) as [x|bs] eqn:Es.
    { exfalso. pose proof (carr_idx_store_fails (elem_store e) (elem_size e) n (f_off f) m i _ x Es) as Hc.
      rewrite Hs in Hc. now apply Hc. }
    pose proof (elem_store_load_idx e v bs He Hv Ev Es) as Hld.
    destruct e; (erewrite idx_write_read; eauto; now rewrite Hld).
  Qed.

  Theorem readback_seq : forall f e n k m v m', f_ty f = TArr e n -> elem_ok e = true -> wf_field f m ->
    wf_val v = true -> (k = KAttr \/ exists a b c, k = KSlice a b c) ->
    (forall e' n' raw, v <> PArr e' n' raw) ->
    set true f k m v = (None, m') ->
    exists items, iter_items (bytearray_conv e v) = Some items /\
                  get f k m' = inr (elem_join e (map (norm_elem e) items)).
  Proof.
    intros f e n k m v m' Et He Hwf Hv Hk Hna H. unfold wf_field in Hwf. rewrite Et in Hwf. cbn [fsize] in Hwf.
    assert (Hs : exists a b c, (k = KAttr /\ a = None /\ b = None /\ c = None \/ k = KSlice a b c) /\
                               arr_setitem true e n (f_off f) m (KSlice a b c) v = (None, m')).
    { unfold set in H. rewrite Et in H. destruct Hk as [->|(a & b & c & ->)].
      - exists None, None, None. split; [left; auto|]. destruct v; try exact H. exfalso. eapply Hna. reflexivity.
      - exists a, b, c. split; [right; auto|]. destruct v; exact H. }
    destruct Hs as (a & b & c & Hkk & Hs). clear H. unfold arr_setitem in Hs.
    destruct (match iter_items v with Some items => elem_validate_many e v items | None => elem_validate_one e v end) eqn:Ev;
      [discriminate|].
    assert (Hst : forall x bs, elem_store e x = inr bs -> length bs = elem_size e)
      by (intros; eapply elem_store_length; eauto).
    pose proof (carr_assign_slice_ok _ _ _ _ _ _ _ _ _ _ Hs) as (start & step & len & items & _ & Hi & _ & _).
    exists items. split; [exact Hi|].
    assert (Hget : forall ld join, get f k m' = arr_get ld join (elem_size e) n (f_off f) m' (KSlice a b c) ->
                   True) by auto. clear Hget.
    assert (Hnm : forall x bs, In x items -> elem_store e x = inr bs -> elem_load e bs = norm_elem e x).
    { intros x bs Hin Hx. destruct (iter_items v) as [its|] eqn:Eiv.
      - eapply elem_store_load_many; eauto.
      - (* scalar value: bytearray_conv is the identity and iter_items fails: impossible *)
        assert (bytearray_conv e v = v) by (destruct e; try reflexivity; destruct v; try reflexivity; discriminate).
        congruence. }
    unfold get. rewrite Et.
    assert (Hgk : forall ld join, arr_get ld join (elem_size e) n (f_off f) m' k =
                                  arr_get ld join (elem_size e) n (f_off f) m' (KSlice a b c)).
    { intros. destruct Hkk as [(-> & -> & -> & ->)| ->]; [apply arr_get_attr|reflexivity]. }
    destruct e; rewrite Hgk; cbn [elem_join];
      eapply slice_write_read with (st := elem_store _) (nm := norm_elem _); eauto.
  Qed.

  (* struct arrays *)
  Theorem readback_sarr_index : forall f cls esz n i m v m', f_ty f = TSArr cls esz n -> wf_field f m ->
    set true f (KIdx i) m v = (None, m') -> get f (KIdx i) m' = inr v.
  Proof.
    intros f cls esz n i m v m' Et Hwf H. unfold wf_field in Hwf. unfold set in H. unfold get. rewrite Et in *.
    cbn [fsize] in Hwf.
    assert (Hs : sarr_setitem true cls esz n (f_off f) m (KIdx i) v = (None, m')) by (destruct v; exact H).
    clear H. unfold sarr_setitem in Hs.
    destruct (match iter_items v with Some items => struct_validate_many cls esz items
                                 | None => struct_validate_one cls esz v end); [discriminate|].
    destruct (cstore_struct cls esz v) as [x|bs] eqn:Es.
    { exfalso. pose proof (carr_idx_store_fails (cstore_struct cls esz) esz n (f_off f) m i _ x Es) as Hc.
      rewrite Hs in Hc. now apply Hc. }
    erewrite idx_write_read; eauto; [|intros; eapply cstore_struct_length; eauto].
    unfold cstore_struct in Es. destruct v; try discriminate.
    destruct ((cls =? cls0) && (length raw =? esz)%nat) eqn:E; [|discriminate]. inversion Es; subst.
    do 2 f_equal. lia.
  Qed.

  Theorem readback_sarr_seq : forall f cls esz n k m v m', f_ty f = TSArr cls esz n -> wf_field f m ->
    (k = KAttr \/ exists a b c, k = KSlice a b c) ->
    (forall c' e' n' raw, v <> PSArr c' e' n' raw) ->
    set true f k m v = (None, m') ->
    exists items, iter_items v = Some items /\ get f k m' = inr (PList items).
  Proof.
    intros f cls esz n k m v m' Et Hwf Hk Hna H. unfold wf_field in Hwf. rewrite Et in Hwf. cbn [fsize] in Hwf.
    assert (Hs : exists a b c, (k = KAttr /\ a = None /\ b = None /\ c = None \/ k = KSlice a b c) /\
                               sarr_setitem true cls esz n (f_off f) m (KSlice a b c) v = (None, m')).
    { unfold set in H. rewrite Et in H. destruct Hk as [->|(a & b & c & ->)].
      - exists None, None, None. split; [left; auto|]. destruct v; try exact H. exfalso. eapply Hna. reflexivity.
      - exists a, b, c. split; [right; auto|]. destruct v; exact H. }
    destruct Hs as (a & b & c & Hkk & Hs). clear H. unfold sarr_setitem in Hs.
    destruct (iter_items v) as [items|] eqn:Ei.
    2:{ destruct (struct_validate_one cls esz v); [discriminate|].
        exfalso. pose proof (carr_slice_noseq (cstore_struct cls esz) esz n (f_off f) m a b c v Ei) as Hc.
        rewrite Hs in Hc. now apply Hc. }
    unfold struct_validate_many in Hs. destruct (forallb (is_struct cls esz) items) eqn:Ef; [|discriminate].
    exists items. split; [reflexivity|]. unfold get. rewrite Et.
    assert (Hgk : arr_get (PStruct cls) PList esz n (f_off f) m' k =
                  arr_get (PStruct cls) PList esz n (f_off f) m' (KSlice a b c)).
    { destruct Hkk as [(-> & -> & -> & ->)| ->]; [apply arr_get_attr|reflexivity]. }
    rewrite Hgk. transitivity (@inr exn pyval (PList (map (fun x : pyval => x) items))); [|now rewrite map_id].
    eapply slice_write_read with (st := cstore_struct cls esz); eauto.
    - intros; eapply cstore_struct_length; eauto.
    - intros x bs Hin Hx. rewrite forallb_forall in Ef. specialize (Ef x Hin).
      unfold is_struct in Ef. unfold cstore_struct in Hx. destruct x; try discriminate.
      rewrite Ef in Hx. inversion Hx; subst. f_equal. lia.
  Qed.
End ReadbackTop.
