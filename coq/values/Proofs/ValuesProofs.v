(* Proofs about Model/Values.v: extent (frame), atomicity, read-back, refusal. *)
From Coq Require Import ZArith List Bool Lia ZifyBool Arith.
From Val Require Import Gen.ValidatorTbl Model.Bytes Model.Floats Model.Values Spec.ValSpec Proofs.BytesProofs.
Import ListNotations.
Open Scope Z_scope.

(* ------------------------------------------------------------------ *)
(* frame: same length, bytes outside [off, off+size) untouched          *)

Definition frame (off size : nat) (m m' : list Z) : Prop :=
  length m' = length m /\ forall j, (j < off \/ off + size <= j)%nat -> nth j m' 0 = nth j m 0.

Lemma frame_refl : forall off size m, frame off size m m.
Proof. split; auto. Qed.

Lemma frame_trans : forall off size a b c, frame off size a b -> frame off size b c -> frame off size a c.
Proof.
  intros off size a b c [L1 H1] [L2 H2]. split; [congruence|].
  intros j Hj. rewrite H2, H1; auto.
Qed.

Lemma frame_splice : forall off size m o bs,
  (off <= o)%nat -> (o + length bs <= off + size)%nat -> (off + size <= length m)%nat ->
  frame off size m (splice m o bs).
Proof.
  intros. split.
  - apply splice_length. lia.
  - intros j Hj. apply splice_nth_outside; lia.
Qed.

(* ------------------------------------------------------------------ *)
(* slices                                                               *)

Lemma positions_Forall : forall (P : Z -> Prop) len start step,
  (forall i, 0 <= i < Z.of_nat len -> P (start + i * step)) -> Forall P (positions start step len).
Proof.
  induction len; intros start step H; cbn [positions]; constructor.
  - specialize (H 0). rewrite Z.mul_0_l, Z.add_0_r in H. apply H. lia.
  - apply IHlen. intros i Hi. replace (start + step + i * step) with (start + (i + 1) * step) by lia.
    apply H. lia.
Qed.

Lemma positions_length : forall len start step, length (positions start step len) = len.
Proof. induction len; intros; cbn [positions length]; [reflexivity|now rewrite IHlen]. Qed.

Ltac case_ifs := cbv zeta; repeat match goal with |- context [if ?b then _ else _] => destruct b eqn:? end.

Lemma clamp_start_pos : forall n step a, 0 <= n -> 0 < step -> 0 <= clamp_start n step a <= n.
Proof. intros. unfold clamp_start. destruct a; case_ifs; lia. Qed.
Lemma clamp_stop_pos : forall n step a, 0 <= n -> 0 < step -> 0 <= clamp_stop n step a <= n.
Proof. intros. unfold clamp_stop. destruct a; case_ifs; lia. Qed.
Lemma clamp_start_neg : forall n step a, 0 <= n -> step < 0 -> -1 <= clamp_start n step a <= n - 1.
Proof. intros. unfold clamp_start. destruct a; case_ifs; lia. Qed.
Lemma clamp_stop_neg : forall n step a, 0 <= n -> step < 0 -> -1 <= clamp_stop n step a <= n - 1.
Proof. intros. unfold clamp_stop. destruct a; case_ifs; lia. Qed.

Lemma slice_positions_bounds : forall n a b c start step len, 0 <= n ->
  slice_indices n a b c = Some (start, step, len) ->
  step <> 0 /\ Forall (fun p => 0 <= p < n) (positions start step len).
Proof.
  intros n a b c start step len Hn H. unfold slice_indices in H.
  set (st := match c with Some s => s | None => 1 end) in *.
  destruct (st =? 0) eqn:E0; [discriminate|].
  inversion H; subst start step len; clear H.
  split; [lia|]. apply positions_Forall. intros i Hi.
  destruct (st <? 0) eqn:Es.
  - pose proof (clamp_start_neg n st a Hn ltac:(lia)) as Ha.
    pose proof (clamp_stop_neg n st b Hn ltac:(lia)) as Hb.
    set (s0 := clamp_start n st a) in *. set (s1 := clamp_stop n st b) in *.
    destruct (s1 <? s0) eqn:El.
    + rewrite Z2Nat.id in Hi by (pose proof (Z.div_pos (s0 - s1 - 1) (- st)); lia).
      pose proof (Z.mul_div_le (s0 - s1 - 1) (- st) ltac:(lia)). nia.
    + cbn in Hi. lia.
  - pose proof (clamp_start_pos n st a Hn ltac:(lia)) as Ha.
    pose proof (clamp_stop_pos n st b Hn ltac:(lia)) as Hb.
    set (s0 := clamp_start n st a) in *. set (s1 := clamp_stop n st b) in *.
    destruct (s0 <? s1) eqn:El.
    + rewrite Z2Nat.id in Hi by (pose proof (Z.div_pos (s1 - s0 - 1) st); lia).
      pose proof (Z.mul_div_le (s1 - s0 - 1) st ltac:(lia)). nia.
    + cbn in Hi. lia.
Qed.

(* positions of a slice are pairwise distinct *)
Lemma positions_In : forall len start step p, In p (positions start step len) ->
  exists i, 0 <= i < Z.of_nat len /\ p = start + i * step.
Proof.
  induction len; intros start step p H; cbn [positions] in H; [contradiction|].
  destruct H as [H|H].
  - exists 0. lia.
  - destruct (IHlen _ _ _ H) as (i & Hi & Hp). exists (i + 1). lia.
Qed.

Lemma positions_NoDup : forall len start step, step <> 0 -> NoDup (positions start step len).
Proof.
  induction len; intros start step Hs; cbn [positions]; constructor.
  - intros H. destruct (positions_In _ _ _ _ H) as (i & Hi & Hp). nia.
  - now apply IHlen.
Qed.

(* ------------------------------------------------------------------ *)
(* stores write exactly the element size                                *)

Definition ct_ok (ck cw : Z) : Prop :=
  ((ck = 0 \/ ck = 1) /\ 0 <= cw) \/ (ck = 2 /\ (cw = 4 \/ cw = 8)) \/ (ck = 3 /\ cw = 1).

Lemma same_ct_length : forall ck cw ck' cw' raw, same_ct ck cw ck' cw' raw = true ->
  length raw = Z.to_nat cw /\ ck = ck' /\ cw = cw'.
Proof. unfold same_ct. intros. lia. Qed.

Lemma float_bytes_length : forall cw b, cw = 4 \/ cw = 8 -> length (float_bytes cw b) = Z.to_nat cw.
Proof.
  intros cw b [H|H]; subst; unfold float_bytes; cbn [Z.eqb Pos.eqb]; rewrite le_encode_length; reflexivity.
Qed.

Lemma cstore_length : forall ck cw v bs, ct_ok ck cw -> cstore ck cw v = inr bs -> length bs = Z.to_nat cw.
Proof.
  intros ck cw v bs Hok H. unfold cstore in H.
  destruct v; try (destruct (same_ct ck cw ck0 cw0 raw) eqn:E;
                   [inversion H; subst; apply same_ct_length in E; tauto|discriminate]);
  destruct (ck <=? 1) eqn:E1;
  try (inversion H; subst; apply le_encode_length); try discriminate;
  destruct (ck =? 2) eqn:E2; try discriminate;
  try (unfold num_to_f64 in H;
       repeat match type of H with context [match ?x with _ => _ end] => destruct x eqn:? end;
       try discriminate; inversion H; subst; apply float_bytes_length;
       destruct Hok as [[? ?]|[[? ?]|[? ?]]]; lia).
  (* char *)
  destruct bs0 as [|b0 [|b1 r]]; try discriminate. inversion H; subst.
  destruct Hok as [[? ?]|[[? ?]|[? ?]]]; try lia. subst. reflexivity.
Qed.

Lemma irec_ok_ct : forall r, irec_ok r = true -> ct_ok (c_kind r) (c_width r).
Proof. unfold irec_ok, ct_ok. intros. left. lia. Qed.
Lemma fct_ok_ct : forall ct, fct_ok ct = true -> ct_ok (fst ct) (snd ct).
Proof. unfold fct_ok, ct_ok. intros. right. left. lia. Qed.
Lemma elem_ok_ct : forall e, elem_ok e = true -> ct_ok (fst (elem_ct e)) (snd (elem_ct e)).
Proof.
  destruct e; cbn [elem_ok elem_ct fst snd]; intros.
  - now apply irec_ok_ct.
  - now apply fct_ok_ct.
  - unfold byte_irec_ok in H. apply irec_ok_ct. lia.
Qed.

Lemma elem_store_length : forall e v bs, elem_ok e = true -> elem_store e v = inr bs -> length bs = elem_size e.
Proof. intros e v bs He H. unfold elem_store in H. apply cstore_length in H; [exact H|now apply elem_ok_ct]. Qed.

Lemma cstore_struct_length : forall cls size v bs, cstore_struct cls size v = inr bs -> length bs = size.
Proof.
  intros cls size v bs H. unfold cstore_struct in H. destruct v; try discriminate.
  destruct ((cls =? cls0) && (length raw =? size)%nat) eqn:E; [|discriminate]. inversion H; subst. lia.
Qed.

(* ------------------------------------------------------------------ *)
(* frame of the array write                                             *)

Lemma write_items_frame : forall st esz n off ps items m,
  (forall x bs, st x = inr bs -> length bs = esz) ->
  Forall (fun p => 0 <= p < Z.of_nat n) ps -> (off + n * esz <= length m)%nat ->
  frame off (n * esz) m (snd (write_items st esz off m ps items)).
Proof.
  intros st esz n off ps. induction ps as [|p ps IH]; intros items m Hst Hps Hm; cbn [write_items].
  - apply frame_refl.
  - destruct items as [|x items]; [apply frame_refl|].
    destruct (st x) as [e|bs] eqn:E; [apply frame_refl|].
    inversion Hps; subst. pose proof (Hst _ _ E) as Hl.
    assert (Hin : (Z.to_nat p * esz + esz <= n * esz)%nat) by nia.
    assert (F1 : frame off (n * esz) m (splice m (off + Z.to_nat p * esz) bs)).
    { apply frame_splice; lia. }
    eapply frame_trans; [exact F1|]. apply IH; auto. destruct F1 as [L _]. lia.
Qed.

Lemma carr_assign_frame : forall st esz n off m k v,
  (forall x bs, st x = inr bs -> length bs = esz) -> (off + n * esz <= length m)%nat ->
  frame off (n * esz) m (snd (carr_assign st esz n off m k v)).
Proof.
  intros st esz n off m k v Hst Hm. unfold carr_assign. destruct k as [|i|a b c].
  - apply frame_refl.
  - set (i' := if i <? 0 then i + Z.of_nat n else i).
    destruct ((i' <? 0) || (Z.of_nat n <=? i')) eqn:E; [apply frame_refl|].
    destruct (st v) as [e|bs] eqn:Es; [apply frame_refl|]. cbn [snd].
    pose proof (Hst _ _ Es). apply frame_splice; try lia. nia.
  - destruct (slice_indices (Z.of_nat n) a b c) as [[[start step] len]|] eqn:Es; [|apply frame_refl].
    destruct (iter_items v) as [items|]; [|apply frame_refl].
    destruct (negb (length items =? len)%nat); [apply frame_refl|].
    apply write_items_frame; auto.
    apply slice_positions_bounds in Es; [tauto|lia].
Qed.

Lemma ok_or_frame : forall off size m r,
  (forall bs, r = inr bs -> (length bs <= size)%nat) -> (off + size <= length m)%nat ->
  frame off size m (snd (ok_or m off r)).
Proof.
  intros off size m r H Hm. unfold ok_or. destruct r as [e|bs]; [apply frame_refl|].
  cbn [snd]. specialize (H bs eq_refl). apply frame_splice; lia.
Qed.

Lemma s_set_length : forall n cs bs, s_set n cs = inr bs -> (length bs <= n)%nat.
Proof.
  intros n cs bs H. unfold s_set in H.
  destruct (length (take_until_nul cs) <? n)%nat eqn:E1.
  - inversion H; subst. rewrite app_length. cbn [length]. lia.
  - destruct (n <? length (take_until_nul cs))%nat eqn:E2; [discriminate|]. inversion H; subst. lia.
Qed.

Theorem set_frame : forall en f k m v, ftype_ok (f_ty f) = true -> wf_field f m ->
  frame (f_off f) (fsize (f_ty f)) m (snd (set en f k m v)).
Proof.
  intros en f k m v Hok Hwf. unfold wf_field in Hwf. unfold set.
  destruct (f_ty f) as [r|ct|r| |n|e n|cls size|cls esz n] eqn:Et; cbn [fsize ftype_ok] in *.
  - (* TInt *) destruct k; try apply frame_refl.
    destruct (if en then int_validate_one r v else None); [apply frame_refl|].
    apply ok_or_frame; [|exact Hwf]. intros bs Hb. apply cstore_length in Hb; [|now apply irec_ok_ct].
    unfold irec_w. lia.
  - (* TFloat *) destruct k; try apply frame_refl.
    destruct (if en then float_validate_one ct v else None); [apply frame_refl|].
    apply ok_or_frame; [|exact Hwf]. intros bs Hb. apply cstore_length in Hb; [lia|now apply fct_ok_ct].
  - (* TByte *) destruct k; try apply frame_refl.
    destruct (if en then byte_validate_one r v else None); [apply frame_refl|].
    apply ok_or_frame; [|exact Hwf]. intros bs Hb. unfold byte_irec_ok in Hok.
    apply cstore_length in Hb; [|apply irec_ok_ct; lia]. unfold irec_w. lia.
  - (* TChar *) destruct k; try apply frame_refl.
    assert (Hc : ct_ok (fst char_ctype) (snd char_ctype)) by (right; right; cbn; lia).
    destruct (is_cinst (fst char_ctype) (snd char_ctype) v).
    + apply ok_or_frame; [|exact Hwf]. intros bs Hb. apply cstore_length in Hb; [|exact Hc]. cbn in Hb. lia.
    + destruct (if en then char_validate_one v else None); [apply frame_refl|].
      destruct (encode_ascii v); [apply frame_refl|].
      apply ok_or_frame; [|exact Hwf]. intros bs Hb. apply cstore_length in Hb; [|exact Hc]. cbn in Hb. lia.
  - (* TString *) destruct k; try apply frame_refl.
    destruct (is_chararr n v); [apply frame_refl|].
    destruct (if en then string_validate_one n v else None); [apply frame_refl|].
    destruct (encode_ascii v) as [x|cs]; [apply frame_refl|].
    set (m0 := if (1 <? n)%nat && (length cs <? n)%nat then splice m (f_off f) (repeat 0 n) else m).
    assert (F0 : frame (f_off f) n m m0).
    { unfold m0. destruct ((1 <? n)%nat && (length cs <? n)%nat); [|apply frame_refl].
      apply frame_splice; rewrite ?repeat_length; lia. }
    eapply frame_trans; [exact F0|]. destruct F0 as [L0 _].
    apply ok_or_frame; [|lia]. intros bs Hb. now apply s_set_length in Hb.
  - (* TArr *)
    assert (Hset : forall k' v', frame (f_off f) (n * elem_size e) m (snd (arr_setitem en e n (f_off f) m k' v'))).
    { intros k' v'. unfold arr_setitem.
      destruct (if en then match iter_items v' with Some items => elem_validate_many e v' items
                                                   | None => elem_validate_one e v' end else None);
        [apply frame_refl|].
      apply carr_assign_frame; [|exact Hwf]. intros x bs Hx. now apply elem_store_length in Hx. }
    destruct k; try apply Hset.
    destruct v; try apply Hset.
    destruct (if en then validate_array e n e0 n0 else None); [apply frame_refl|].
    match goal with |- context [if ?c then _ else _] => destruct c eqn:Ec end; [|apply frame_refl].
    cbn [snd]. apply frame_splice; lia.
  - (* TStruct *) destruct k; try apply frame_refl.
    destruct (if en then struct_validate_one cls size v else None); [apply frame_refl|].
    apply ok_or_frame; [|exact Hwf]. intros bs Hb. apply cstore_struct_length in Hb. lia.
  - (* TSArr *)
    assert (Hset : forall k' v', frame (f_off f) (n * esz) m (snd (sarr_setitem en cls esz n (f_off f) m k' v'))).
    { intros k' v'. unfold sarr_setitem.
      destruct (if en then match iter_items v' with Some items => struct_validate_many cls esz items
                                                   | None => struct_validate_one cls esz v' end else None);
        [apply frame_refl|].
      apply carr_assign_frame; [|exact Hwf]. intros x bs Hx. now apply cstore_struct_length in Hx. }
    destruct k; try apply Hset.
    destruct v; try apply Hset.
    match goal with |- context [match ?c with Some _ => _ | None => _ end] => destruct c end; [apply frame_refl|].
    match goal with |- context [if ?c then _ else _] => destruct c eqn:Ec end; [|apply frame_refl].
    cbn [snd]. apply frame_splice; lia.
Qed.

(* ------------------------------------------------------------------ *)
(* atomicity: an exception leaves the image unchanged                   *)

Definition store_ok (st : pyval -> exn + list Z) (x : pyval) : Prop := exists bs, st x = inr bs.

Lemma write_items_all_ok : forall st esz off ps items m,
  Forall (store_ok st) items -> fst (write_items st esz off m ps items) = None.
Proof.
  intros st esz off ps. induction ps as [|p ps IH]; intros items m H; cbn [write_items]; [reflexivity|].
  destruct items as [|x items]; [reflexivity|]. inversion H; subst.
  destruct H2 as [bs Hb]. rewrite Hb. now apply IH.
Qed.

Lemma carr_assign_atomic : forall st esz n off m k v e m',
  (forall items, iter_items v = Some items -> Forall (store_ok st) items) ->
  carr_assign st esz n off m k v = (Some e, m') -> m' = m.
Proof.
  intros st esz n off m k v e m' Hok H. unfold carr_assign in H. destruct k as [|i|a b c].
  - now inversion H.
  - destruct ((_ <? 0) || _); [now inversion H|]. destruct (st v); now inversion H.
  - destruct (slice_indices (Z.of_nat n) a b c) as [[[start step] len]|]; [|now inversion H].
    destruct (iter_items v) as [items|]; [|now inversion H].
    destruct (negb (length items =? len)%nat); [now inversion H|].
    pose proof (write_items_all_ok st esz off (positions start step len) items m (Hok _ eq_refl)) as Hn.
    rewrite H in Hn. discriminate.
Qed.

Lemma ok_or_atomic : forall m off r e m', ok_or m off r = (Some e, m') -> m' = m.
Proof. intros m off r e m' H. unfold ok_or in H. destruct r; now inversion H. Qed.

Lemma intlike_store_ok : forall ck cw x, ck <=? 1 = true -> is_intlike x = true -> store_ok (cstore ck cw) x.
Proof.
  intros ck cw x Hk Hx. unfold store_ok, cstore. destruct x; try discriminate; rewrite Hk; eexists; reflexivity.
Qed.

Lemma forallb_Forall_impl : forall (A : Type) (p : A -> bool) (P : A -> Prop) l,
  (forall x, p x = true -> P x) -> forallb p l = true -> Forall P l.
Proof.
  intros A p P l H. induction l; cbn [forallb]; intros Hl; constructor.
  - apply H. now apply andb_true_iff in Hl.
  - apply IHl. now apply andb_true_iff in Hl.
Qed.

(* the float-array obligation, discharged in Proofs/FloatArrayProofs.v *)
Definition float_items_ok_stmt : Prop := forall ct items,
  fct_ok ct = true -> float_validate_many ct items = None ->
  Forall (store_ok (cstore (fst ct) (snd ct))) items.

Lemma arr_items_ok : forall e v items, float_items_ok_stmt -> elem_ok e = true ->
  match iter_items v with Some its => elem_validate_many e v its | None => elem_validate_one e v end = None ->
  iter_items (bytearray_conv e v) = Some items -> Forall (store_ok (elem_store e)) items.
Proof.
  intros e v items HF He Hv Hi. unfold elem_store. destruct e as [vid r|vid ct|r]; cbn [elem_ct fst snd elem_ok] in *.
  - (* ints *) cbn [bytearray_conv] in Hi. replace (match v with _ => v end) with v in Hi by (destruct v; reflexivity).
    rewrite Hi in Hv. cbn [elem_validate_many] in Hv. unfold int_validate_many in Hv.
    destruct (forallb is_intlike items) eqn:Ef; [|discriminate].
    eapply forallb_Forall_impl; [|exact Ef]. intros x Hxx. apply intlike_store_ok; [|exact Hxx].
    unfold irec_ok in He. lia.
  - (* floats *) cbn [bytearray_conv] in Hi. replace (match v with _ => v end) with v in Hi by (destruct v; reflexivity).
    rewrite Hi in Hv. cbn [elem_validate_many] in Hv. apply HF; auto.
  - (* bytes *) unfold byte_irec_ok in He.
    assert (Hk : c_kind r <=? 1 = true) by lia.
    destruct v; cbn [bytearray_conv] in Hi;
      try (rewrite Hi in Hv; cbn [elem_validate_many byte_validate_many] in Hv;
           destruct (forallb is_intlike items) eqn:Ef; [|discriminate];
           eapply forallb_Forall_impl; [|exact Ef]; intros x Hxx; now apply intlike_store_ok).
    (* PBytes *)
    destruct bs as [|b [|b2 bs]]; cbn [iter_items] in Hi; try discriminate; inversion Hi; subst;
      repeat constructor; try (apply intlike_store_ok; [exact Hk|reflexivity]).
    apply Forall_forall. intros x Hin. apply in_map_iff in Hin as (y & <- & _).
    apply intlike_store_ok; [exact Hk|reflexivity].
Qed.

Lemma arr_setitem_atomic : forall e n off m k v x m', float_items_ok_stmt -> elem_ok e = true ->
  arr_setitem true e n off m k v = (Some x, m') -> m' = m.
Proof.
  intros e n off m k v x m' HF He H. unfold arr_setitem in H.
  destruct (match iter_items v with Some items => elem_validate_many e v items | None => elem_validate_one e v end) eqn:Ev;
    [now inversion H|].
  eapply carr_assign_atomic; [|exact H]. intros items Hi. eapply arr_items_ok; eauto.
Qed.

Lemma sarr_setitem_atomic : forall cls esz n off m k v x m',
  sarr_setitem true cls esz n off m k v = (Some x, m') -> m' = m.
Proof.
  intros cls esz n off m k v x m' H. unfold sarr_setitem in H.
  destruct (iter_items v) as [items|] eqn:Ei.
  - unfold struct_validate_many in H. destruct (forallb (is_struct cls esz) items) eqn:Ef; [|now inversion H].
    eapply carr_assign_atomic; [|exact H]. intros items' Hi. rewrite Ei in Hi. inversion Hi; subst.
    eapply forallb_Forall_impl; [|exact Ef]. intros y Hy. unfold store_ok, cstore_struct, is_struct in *.
    destruct y; try discriminate. rewrite Hy. eexists; reflexivity.
  - destruct (struct_validate_one cls esz v); [now inversion H|].
    eapply carr_assign_atomic; [|exact H]. intros items' Hi. congruence.
Qed.

Theorem set_atomic : forall f k m v e m', float_items_ok_stmt ->
  ftype_ok (f_ty f) = true ->
  set true f k m v = (Some e, m') -> m' = m.
Proof.
  intros f k m v e m' HF Hok H. unfold set in H.
  destruct (f_ty f) as [r|ct|r| |n|el n|cls size|cls esz n] eqn:Et; cbn [ftype_ok] in *.
  - destruct k; try now inversion H. destruct (int_validate_one r v); [now inversion H|]. eapply ok_or_atomic; eauto.
  - destruct k; try now inversion H. destruct (float_validate_one ct v); [now inversion H|]. eapply ok_or_atomic; eauto.
  - destruct k; try now inversion H. destruct (byte_validate_one r v); [now inversion H|]. eapply ok_or_atomic; eauto.
  - destruct k; try now inversion H.
    destruct (is_cinst (fst char_ctype) (snd char_ctype) v); [eapply ok_or_atomic; eauto|].
    destruct (char_validate_one v); [now inversion H|].
    destruct (encode_ascii v); [now inversion H|]. eapply ok_or_atomic; eauto.
  - destruct k; try now inversion H. destruct (is_chararr n v); [now inversion H|].
    destruct (string_validate_one n v); [now inversion H|].
    destruct (encode_ascii v) as [x|cs]; [now inversion H|].
    (* the clearing only happens when the store that follows cannot fail *)
    destruct ((1 <? n)%nat && (length cs <? n)%nat) eqn:Ec; [|eapply ok_or_atomic; eauto].
    exfalso. unfold s_set in H. pose proof (take_until_nul_length cs).
    destruct (length (take_until_nul cs) <? n)%nat eqn:E1; [discriminate H|]. lia.
  - assert (Hset : forall k', arr_setitem true el n (f_off f) m k' v = (Some e, m') -> m' = m).
    { intros k' H'. eapply arr_setitem_atomic; eauto. }
    destruct k; try (now apply Hset in H).
    destruct v; try (now apply Hset in H).
    destruct (validate_array el n e0 n0); [now inversion H|].
    match type of H with context [if ?c then _ else _] => destruct c end; now inversion H.
  - destruct k; try now inversion H. destruct (struct_validate_one cls size v); [now inversion H|].
    eapply ok_or_atomic; eauto.
  - destruct k; try (now apply sarr_setitem_atomic in H).
    destruct v; try (now apply sarr_setitem_atomic in H).
    match type of H with context [match ?c with Some _ => _ | None => _ end] => destruct c end; [now inversion H|].
    match type of H with context [if ?c then _ else _] => destruct c end; now inversion H.
Qed.
