(* Codec facts that do not depend on the leaf-by-leaf round-trip proof: bytes round trip, copy (fresh storage),
   the version check of Message.from_json, and header+data round trip from the two per-class round trips. *)
From Coq Require Import ZArith List Bool Lia ZifyBool Arith.
From Val Require Import Gen.ValidatorTbl Gen.CodecGuards Model.Bytes Model.Floats Model.Values Model.Codec.
Import ListNotations.
Open Scope Z_scope.

Theorem bytes_roundtrip : forall m, from_bytes (length m) (to_bytes m) = inr m.
Proof.
  intros m. unfold from_bytes, to_bytes. rewrite Nat.ltb_irrefl. now rewrite firstn_all.
Qed.

Theorem bytes_short_refused : forall size bs, (length bs < size)%nat -> from_bytes size bs = inl CValue.
Proof. intros. unfold from_bytes. destruct (Nat.ltb_spec (length bs) size); [reflexivity|lia]. Qed.

(* ---- heap ---- *)
Lemma nth_hupdate_other : forall h i j m d, i <> j -> nth i (hupdate h j m) d = nth i h d.
Proof.
  induction h as [|c r IH]; intros i j m d H; [reflexivity|].
  destruct j; destruct i; cbn [hupdate nth]; try reflexivity; try lia. apply IH. lia.
Qed.
Lemma nth_hupdate_same : forall h j m d, (j < length h)%nat -> nth j (hupdate h j m) d = m.
Proof.
  induction h as [|c r IH]; intros j m d H; cbn [length] in H; [lia|].
  destruct j; cbn [hupdate nth]; [reflexivity|]. apply IH. lia.
Qed.
Lemma hupdate_length : forall h j m, length (hupdate h j m) = length h.
Proof. induction h; intros; destruct j; cbn [hupdate length]; auto. Qed.

(* copy: equal bytes in a fresh cell; writing through either object never shows through the other *)
Theorem copy_fresh : forall h i, (i < length h)%nat ->
  let '(h', j) := hcopy h i in
  j <> i /\ (j < length h')%nat /\ nth j h' [] = nth i h [] /\ nth i h' [] = nth i h [] /\
  (forall en f k v, nth i (hset h' j en f k v) [] = nth i h []) /\
  (forall en f k v, nth j (hset h' i en f k v) [] = nth i h []).
Proof.
  intros h i Hi. unfold hcopy.
  assert (Hj : nth (length h) (h ++ [nth i h []]) [] = nth i h []).
  { rewrite app_nth2 by lia. now rewrite Nat.sub_diag. }
  assert (Hi' : nth i (h ++ [nth i h []]) [] = nth i h []) by (now rewrite app_nth1).
  repeat split.
  - lia.
  - rewrite app_length. cbn. lia.
  - exact Hj.
  - exact Hi'.
  - intros. unfold hset. rewrite nth_hupdate_other by lia. exact Hi'.
  - intros. unfold hset. rewrite nth_hupdate_other by lia. exact Hj.
Qed.

(* ---- version check ---- *)
Lemma guard_version_spec : forall v h, guard_version v h = true <-> (v <> 0 /\ v <> h).
Proof. intros. unfold guard_version. lia. Qed.

Theorem version_mismatch_refused : forall hc reg hvals dvals h c,
  from_dict (h_leaves hc) (h_size hc) hvals = inr h ->
  lookup (field_int (h_msg_type hc) h) reg = Some c ->
  field_int (h_version hc) h <> 0 -> field_int (h_version hc) h <> k_hash c ->
  msg_from_json hc reg hvals dvals = inl CInvalidMessageDefinition.
Proof.
  intros hc reg hvals dvals h c Hh Hl H0 H1. unfold msg_from_json. rewrite Hh, Hl.
  assert (G : guard_version (field_int (h_version hc) h) (k_hash c) = true) by (apply guard_version_spec; tauto).
  now rewrite G.
Qed.

Theorem unknown_type_refused : forall hc reg hvals dvals h,
  from_dict (h_leaves hc) (h_size hc) hvals = inr h ->
  lookup (field_int (h_msg_type hc) h) reg = None ->
  msg_from_json hc reg hvals dvals = inl CUnknownMessageType.
Proof. intros. unfold msg_from_json. now rewrite H, H0. Qed.

(* header + data round trip from the per-class JSON round trips *)
Theorem message_roundtrip : forall hc reg c h d,
  json_roundtrip (h_leaves hc) (h_size hc) h = inr h ->
  json_roundtrip (k_leaves c) (k_size c) d = inr d ->
  lookup (field_int (h_msg_type hc) h) reg = Some c ->
  (field_int (h_version hc) h = 0 \/ field_int (h_version hc) h = k_hash c) ->
  msg_json_roundtrip hc reg c h d = inr (h, d).
Proof.
  intros hc reg c h d Hh Hd Hl Hv. unfold msg_json_roundtrip, json_roundtrip in *.
  destruct (to_dict (h_leaves hc) h) as [e|hv]; [discriminate|].
  destruct (to_dict (k_leaves c) d) as [e|dv]; [discriminate|].
  unfold msg_from_json. rewrite Hh, Hl.
  assert (G : guard_version (field_int (h_version hc) h) (k_hash c) = false).
  { destruct (guard_version _ _) eqn:E; [|reflexivity]. apply guard_version_spec in E. lia. }
  now rewrite G, Hd.
Qed.

Theorem missing_data_refused : forall hc reg hvals, 
  (exists r, msg_from_json hc reg hvals None = inl r).
Proof.
  intros. unfold msg_from_json. destruct (from_dict _ _ hvals); [eauto|]. destruct (lookup _ reg); [|eauto].
  destruct (guard_version _ _); eauto.
Qed.
