(* Lemmas about the byte-level primitives: little-endian codecs and splicing. *)
From Coq Require Import ZArith List Bool Lia ZifyBool Arith.
From Val Require Import Model.Bytes.
Import ListNotations.
Open Scope Z_scope.

Lemma le_encode_length : forall w z, length (le_encode w z) = w.
Proof. induction w; intros; cbn [le_encode length]; [reflexivity|now rewrite IHw]. Qed.

Lemma le_encode_bytes : forall w z, Forall (fun b => 0 <= b < 256) (le_encode w z).
Proof.
  induction w; intros; cbn [le_encode]; constructor.
  - apply Z.mod_pos_bound. lia.
  - apply IHw.
Qed.

Lemma le_decode_encode : forall w z, le_decode (le_encode w z) = z mod 2 ^ (8 * Z.of_nat w).
Proof.
  induction w; intros z.
  - cbn. now rewrite Z.mod_1_r.
  - cbn [le_encode le_decode]. rewrite IHw.
    replace (8 * Z.of_nat (S w)) with (8 + 8 * Z.of_nat w) by lia.
    rewrite Z.pow_add_r by lia. change (2 ^ 8) with 256.
    rewrite Z.rem_mul_r by lia. lia.
Qed.

Lemma le_decode_range : forall bs, Forall (fun b => 0 <= b < 256) bs ->
  0 <= le_decode bs < 2 ^ (8 * Z.of_nat (length bs)).
Proof.
  induction 1.
  - cbn. lia.
  - cbn [le_decode length]. replace (8 * Z.of_nat (S (length l))) with (8 + 8 * Z.of_nat (length l)) by lia.
    rewrite Z.pow_add_r by lia. change (2 ^ 8) with 256. nia.
Qed.

Lemma le_encode_decode : forall bs, Forall (fun b => 0 <= b < 256) bs ->
  le_encode (length bs) (le_decode bs) = bs.
Proof.
  induction 1.
  - reflexivity.
  - cbn [le_decode length le_encode].
    replace (x + 256 * le_decode l) with (x + le_decode l * 256) by lia.
    rewrite Z_mod_plus_full, Z_div_plus_full by lia.
    rewrite Z.mod_small by lia. rewrite Z.div_small by lia. cbn [Z.add]. now rewrite IHForall.
Qed.

Lemma load_store_unsigned : forall w z, 0 <= z < 2 ^ (8 * Z.of_nat w) ->
  load_int false (le_encode w z) = z.
Proof. intros. unfold load_int. rewrite le_decode_encode. now apply Z.mod_small. Qed.

Lemma load_store_signed : forall w z, (0 < w)%nat ->
  - 2 ^ (8 * Z.of_nat w - 1) <= z < 2 ^ (8 * Z.of_nat w - 1) ->
  load_int true (le_encode w z) = z.
Proof.
  intros w z Hw Hz. unfold load_int, to_signed. rewrite le_decode_encode, le_encode_length.
  set (B := 8 * Z.of_nat w) in *.
  assert (HB : 2 ^ B = 2 * 2 ^ (B - 1)).
  { replace B with (1 + (B - 1)) at 1 by lia. rewrite Z.pow_add_r by lia. reflexivity. }
  assert (0 < 2 ^ (B - 1)) by (apply Z.pow_pos_nonneg; lia).
  destruct (Z_lt_le_dec z 0).
  - replace (z mod 2 ^ B) with (z + 2 ^ B).
    + destruct (z + 2 ^ B <? 2 ^ (B - 1)) eqn:E; lia.
    + apply Z.mod_unique with (-1); lia.
  - rewrite Z.mod_small by lia. destruct (z <? 2 ^ (B - 1)) eqn:E; lia.
Qed.

(* ---- splice / sub ---- *)

Lemma splice_length : forall m off bs, (off + length bs <= length m)%nat ->
  length (splice m off bs) = length m.
Proof.
  intros. unfold splice. rewrite !app_length, firstn_length, skipn_length. lia.
Qed.

Lemma splice_nth_outside : forall m off bs j d, (off + length bs <= length m)%nat ->
  (j < off \/ off + length bs <= j)%nat -> nth j (splice m off bs) d = nth j m d.
Proof.
  intros m off bs j d Hl [Hj|Hj]; unfold splice.
  - rewrite app_nth1 by (rewrite firstn_length; lia). rewrite <- (firstn_skipn off m) at 2.
    rewrite app_nth1 by (rewrite firstn_length; lia). reflexivity.
  - rewrite app_nth2 by (rewrite firstn_length; lia). rewrite firstn_length.
    rewrite app_nth2 by lia. replace (Nat.min off (length m)) with off by lia.
    rewrite <- (firstn_skipn (off + length bs) m) at 2.
    rewrite app_nth2 by (rewrite firstn_length; lia). rewrite firstn_length.
    f_equal. lia.
Qed.

Lemma sub_length : forall m off n, (off + n <= length m)%nat -> length (sub m off n) = n.
Proof. intros. unfold sub. rewrite firstn_length, skipn_length. lia. Qed.

Lemma sub_splice_same : forall m off bs, (off + length bs <= length m)%nat ->
  sub (splice m off bs) off (length bs) = bs.
Proof.
  intros. unfold sub, splice.
  rewrite skipn_app, firstn_length. replace (Nat.min off (length m)) with off by lia.
  rewrite skipn_all2 by (rewrite firstn_length; lia). rewrite Nat.sub_diag. cbn [skipn app].
  rewrite firstn_app, Nat.sub_diag, firstn_all. cbn [firstn]. now rewrite app_nil_r.
Qed.

Lemma nth_ext_eq : forall (a b : list Z), length a = length b ->
  (forall j, (j < length a)%nat -> nth j a 0 = nth j b 0) -> a = b.
Proof. intros. apply nth_ext with 0 0; assumption. Qed.

Lemma nth_firstn_lt : forall (l : list Z) n j d, (j < n)%nat -> nth j (firstn n l) d = nth j l d.
Proof.
  induction l; intros n j d H; destruct n, j; cbn; try reflexivity; try lia.
  apply IHl. lia.
Qed.

Lemma nth_skipn_add : forall (l : list Z) n j d, nth j (skipn n l) d = nth (n + j) l d.
Proof.
  induction l; intros n j d; destruct n; cbn [skipn nth Nat.add]; try reflexivity.
  - now destruct j.
  - apply IHl.
Qed.

Lemma sub_nth : forall m off n j, (off + n <= length m)%nat -> (j < n)%nat ->
  nth j (sub m off n) 0 = nth (off + j) m 0.
Proof. intros. unfold sub. rewrite nth_firstn_lt by assumption. apply nth_skipn_add. Qed.

Lemma sub_splice_disjoint : forall m off bs o n, (off + length bs <= length m)%nat ->
  (o + n <= length m)%nat -> (o + n <= off \/ off + length bs <= o)%nat ->
  sub (splice m off bs) o n = sub m o n.
Proof.
  intros m off bs o n H1 H2 H3. apply nth_ext_eq.
  - rewrite !sub_length; try lia. rewrite splice_length; lia.
  - intros j Hj. rewrite sub_length in Hj by (rewrite splice_length; lia).
    rewrite !sub_nth by (try rewrite splice_length; lia).
    apply splice_nth_outside; lia.
Qed.

Lemma sub_app_prefix : forall m off p q, (off + length p + length q <= length m)%nat ->
  sub (splice m off (p ++ q)) off (length p) = p.
Proof.
  intros. unfold sub, splice.
  rewrite skipn_app, firstn_length. replace (Nat.min off (length m)) with off by lia.
  rewrite skipn_all2 by (rewrite firstn_length; lia). rewrite Nat.sub_diag. cbn [skipn app].
  rewrite <- app_assoc. rewrite firstn_app, Nat.sub_diag, firstn_all. cbn [firstn]. now rewrite app_nil_r.
Qed.

Lemma splice_self : forall m off n, (off + n <= length m)%nat -> splice m off (sub m off n) = m.
Proof.
  intros. apply nth_ext_eq.
  - rewrite splice_length by (rewrite sub_length; lia). reflexivity.
  - intros j Hj. rewrite splice_length in Hj by (rewrite sub_length; lia).
    destruct (Nat.ltb_spec j off); [apply splice_nth_outside; rewrite ?sub_length; lia|].
    destruct (Nat.ltb_spec j (off + n)); [|apply splice_nth_outside; rewrite ?sub_length; lia].
    unfold splice. rewrite app_nth2 by (rewrite firstn_length; lia). rewrite firstn_length.
    replace (Nat.min off (length m)) with off by lia.
    rewrite app_nth1 by (rewrite sub_length; lia). rewrite sub_nth by lia. f_equal. lia.
Qed.

(* strings *)
Lemma take_until_nul_nozero : forall cs, Forall (fun c => c <> 0) (take_until_nul cs).
Proof.
  induction cs; cbn [take_until_nul]; [constructor|].
  destruct (a =? 0) eqn:E; [constructor|]. constructor; [lia|assumption].
Qed.

Lemma take_until_nul_app_zero : forall p r, Forall (fun c => c <> 0) p -> take_until_nul (p ++ 0 :: r) = p.
Proof.
  induction 1; cbn [app take_until_nul]; [reflexivity|].
  destruct (x =? 0) eqn:E; [lia|]. now rewrite IHForall.
Qed.

Lemma take_until_nul_length : forall cs, (length (take_until_nul cs) <= length cs)%nat.
Proof. induction cs; cbn [take_until_nul length]; [lia|]. destruct (a =? 0); cbn [length]; lia. Qed.

Lemma all_ascii_take : forall cs, all_ascii cs = true -> all_ascii (take_until_nul cs) = true.
Proof.
  induction cs; cbn [take_until_nul all_ascii forallb]; [reflexivity|]. intros H.
  apply andb_true_iff in H as [H1 H2]. destruct (a =? 0); [reflexivity|].
  cbn [forallb]. rewrite H1. now apply IHcs.
Qed.
