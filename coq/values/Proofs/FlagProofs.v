(* Proofs about the validation-flag machine (Model/Flag.v). *)
From Coq Require Import ZArith List Bool Lia Arith.
From Val Require Import Model.Flag.
Import ListNotations.

(* the flag state mirrors the stack of open blocks *)
Fixpoint rel (v : bool) (stk : list (option bool)) (st : list bool) : Prop :=
  match stk, st with
  | [], [] => v = true
  | Some old :: r, true :: st' => v = false /\ rel old r st'
  | None :: r, false :: st' => rel v r st'
  | _, _ => False
  end.

Lemma rel_var : forall stk st v, rel v stk st -> v = negb (existsb (fun b => b) st).
Proof.
  induction stk as [|tk r IH]; intros st v H; destruct st as [|b st']; cbn [rel] in H; try contradiction.
  - subst. reflexivity.
  - destruct tk; contradiction.
  - destruct tk as [old|]; destruct b; try contradiction.
    + destruct H as [-> _]. reflexivity.
    + cbn [existsb orb]. now apply IH.
Qed.

Lemma exit_rel : forall s b st0 e, (e = ExitNormal \/ e = ExitExc) ->
  rel (fvar s) (fstack s) (b :: st0) -> rel (fvar (fstep s e)) (fstack (fstep s e)) st0.
Proof.
  intros [v stk] b st0 e He HR. cbn [fvar fstack] in HR.
  destruct stk as [|tk r]; cbn [rel] in HR; [contradiction|].
  destruct tk as [old|]; destruct b; try contradiction; destruct He as [-> | ->]; cbn [fstep fvar fstack]; tauto.
Qed.

Lemma run_rel : forall t s st st', rel (fvar s) (fstack s) st ->
  open_blocks st t = Some st' -> rel (fvar (frun_from s t)) (fstack (frun_from s t)) st'.
Proof.
  induction t as [|e t IH]; intros s st st' HR Ho; cbn [frun_from fold_left] in *.
  - cbn [open_blocks] in Ho. inversion Ho; subst. exact HR.
  - cbn [open_blocks] in Ho. destruct e as [ig| |].
    + apply (IH (fstep s (Enter ig)) (negb ig :: st) st'); auto.
      destruct ig; cbn [fstep fvar fstack negb rel]; auto.
    + destruct st as [|b st0]; [discriminate|]. apply (IH (fstep s ExitNormal) st0 st'); auto.
      eapply exit_rel; eauto.
    + destruct st as [|b st0]; [discriminate|]. apply (IH (fstep s ExitExc) st0 st'); auto.
      eapply exit_rel; eauto.
Qed.

(* validation is on exactly when no disabling block is open - however the blocks were left *)
Theorem flag_correct : forall t, well_nested t = true -> enabled t = spec_enabled t.
Proof.
  intros t Hw. unfold well_nested in Hw. unfold enabled, spec_enabled, frun.
  destruct (open_blocks [] t) as [st'|] eqn:Eo; [|discriminate].
  apply (rel_var (fstack (frun_from finit t)) st'). eapply run_rel; eauto. reflexivity.
Qed.

(* a thread's observations are a function of its own events only *)
Lemma tget_other : forall s a x b, a <> b -> tget ((a, x) :: s) b = tget s b.
Proof. intros. cbn [tget]. destruct (Nat.eqb_spec a b); [contradiction|reflexivity]. Qed.
Lemma tget_same : forall s a x, tget ((a, x) :: s) a = x.
Proof. intros. cbn [tget]. now rewrite Nat.eqb_refl. Qed.

Theorem flag_threads_independent : forall tid t s,
  tprobes tid s t = fprobes (tget s tid) (project tid t).
Proof.
  intros tid t. induction t as [|[k x] t IH]; intros s; cbn [tprobes project]; [reflexivity|].
  destruct x as [e|].
  - rewrite IH. destruct (Nat.eqb_spec k tid) as [->|Hne].
    + cbn [fprobes]. now rewrite tget_same.
    + now rewrite tget_other.
  - destruct (Nat.eqb_spec k tid) as [->|Hne]; cbn [fprobes]; now rewrite IH.
Qed.
