(* Proofs about the validation-flag machine (Model/Flag.v). *)
From Coq Require Import ZArith List Bool Lia Arith.
From Val Require Import Model.Flag.
Import ListNotations.

(* the flag state mirrors the stack of open blocks as long as no block was left by exception *)
Fixpoint rel (v : bool) (stk : list (option bool)) (st : list bool) : Prop :=
  match stk, st with
  | [], [] => v = true
  | Some old :: r, true :: st' => v = false /\ rel old r st'
  | None :: r, false :: st' => rel v r st'
  | _, _ => False
  end.

Lemma rel_var : forall stk st v, rel v stk st -> v = negb (existsb (fun b => b) st).
Proof.
  induction stk as [|tk r IH]; intros st v H; destruct st as [|b st']; cbn [rel] in H; try contradiction.
  - subst. reflexivity.
  - destruct tk; contradiction.
  - destruct tk as [old|]; destruct b; try contradiction.
    + destruct H as [-> _]. reflexivity.
    + cbn [existsb orb]. now apply IH.
Qed.

Lemma run_rel : forall t s st st', rel (fvar s) (fstack s) st -> no_exit_exc t = true ->
  open_blocks st t = Some st' -> rel (fvar (frun_from s t)) (fstack (frun_from s t)) st'.
Proof.
  induction t as [|e t IH]; intros s st st' HR Hn Ho; cbn [frun_from fold_left] in *.
  - cbn [open_blocks] in Ho. inversion Ho; subst. exact HR.
  - cbn [no_exit_exc forallb] in Hn. apply andb_true_iff in Hn as [He Hn]. cbn [open_blocks] in Ho.
    destruct e as [ig| |]; try discriminate.
    + (* Enter *) apply (IH (fstep s (Enter ig)) (negb ig :: st) st'); auto.
      destruct ig; cbn [fstep fvar fstack negb rel]; auto.
    + (* ExitNormal *) destruct st as [|b st0]; [discriminate|].
      apply (IH (fstep s ExitNormal) st0 st'); auto.
      destruct s as [v stk]. cbn [fvar fstack] in HR. destruct stk as [|tk r]; cbn [rel] in HR; [contradiction|].
      destruct tk as [old|]; destruct b; try contradiction; cbn [fstep fvar fstack].
      * tauto.
      * exact HR.
Qed.

Theorem flag_partial : forall t, well_nested t = true -> no_exit_exc t = true -> enabled t = spec_enabled t.
Proof.
  intros t Hw Hn. unfold well_nested in Hw. unfold enabled, spec_enabled, frun.
  destruct (open_blocks [] t) as [st'|] eqn:Eo; [|discriminate].
  apply (rel_var (fstack (frun_from finit t)) st'). eapply run_rel; eauto. reflexivity.
Qed.

(* once the variable is False with only "restore False" tokens pending, it stays False forever *)
Definition stuck (s : fstate) : Prop :=
  fvar s = false /\ Forall (fun tk => tk = None \/ tk = Some false) (fstack s).

Lemma stuck_step : forall s e, stuck s -> stuck (fstep s e).
Proof.
  intros [v stk] e [Hv Hs]. cbn [fvar fstack] in *. subst v.
  destruct e as [ig| |]; cbn [fstep fvar fstack].
  - destruct ig; split; cbn [fvar fstack]; auto.
  - destruct stk as [|tk r]; [split; auto|]. inversion Hs as [|? ? Ht Hr]; subst.
    destruct tk as [old|]; split; cbn [fvar fstack]; auto. destruct Ht as [Ht|Ht]; [discriminate|]. now inversion Ht.
  - destruct stk as [|tk r]; [split; auto|]. inversion Hs; subst. split; auto.
Qed.

Lemma stuck_run : forall t s, stuck s -> stuck (frun_from s t).
Proof. induction t; intros s H; cbn [frun_from fold_left]; [exact H|]. apply IHt. now apply stuck_step. Qed.

Theorem flag_stuck_off : forall t, enabled ([Enter false; ExitExc] ++ t) = false.
Proof.
  intros t. unfold enabled, frun, frun_from. rewrite fold_left_app. cbn [fold_left fstep finit fvar fstack].
  assert (Hs : stuck (mkF false [])) by (split; [reflexivity|constructor]).
  destruct (stuck_run t (mkF false []) Hs) as [H _]. exact H.
Qed.

(* a thread's observations are a function of its own events only *)
Lemma tget_other : forall s a x b, a <> b -> tget ((a, x) :: s) b = tget s b.
Proof. intros. cbn [tget]. destruct (Nat.eqb_spec a b); [contradiction|reflexivity]. Qed.
Lemma tget_same : forall s a x, tget ((a, x) :: s) a = x.
Proof. intros. cbn [tget]. now rewrite Nat.eqb_refl. Qed.

Theorem flag_threads_independent : forall tid t s,
  tprobes tid s t = fprobes (tget s tid) (project tid t).
Proof.
  intros tid t. induction t as [|[k x] t IH]; intros s; cbn [tprobes project]; [reflexivity|].
  destruct x as [e|].
  - rewrite IH. destruct (Nat.eqb_spec k tid) as [->|Hne].
    + cbn [fprobes]. now rewrite tget_same.
    + now rewrite tget_other.
  - destruct (Nat.eqb_spec k tid) as [->|Hne]; cbn [fprobes]; now rewrite IH.
Qed.
