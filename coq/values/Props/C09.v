(* C09 - Field validation is sound, complete and atomic.
   Property theorems only; proofs live in Proofs/*.v.
   Model: Model/Values.v (descriptors of validators.py over message byte images), Model/Floats.v (IEEE-754 via
   Flocq), Model/Flag.v (disable_message_validation).  Tables/guards: Gen/ValidatorTbl.v (regenerated from /repo).
   Spec-side definitions (domain, normal form): Spec/ValSpec.v.

   History: on the tree first examined two parts of the property were false (float-array validation looked only
   at max()/min(), so a leading NaN masked an overflowing element and a slice write could stop half-way; the
   validation flag was not restored when a disable block was left by exception).  Both were repaired in /repo
   (known_findings.d/values.txt, `fixed:` lines); the model follows the repaired code and the statements below
   are proved in full, without exclusions. *)
From Coq Require Import ZArith List Bool Lia Reals.
From Flocq Require Import Core.Core IEEE754.BinarySingleNaN IEEE754.Binary IEEE754.Bits.
From Val Require Import Gen.ValidatorTbl Model.Bytes Model.Floats Model.Values Model.Flag Spec.ValSpec
  Proofs.BytesProofs Proofs.ValuesProofs Proofs.RefuseProofs Proofs.ReadbackProofs Proofs.XnumProofs
  Proofs.FloatProofs Proofs.FloatArrayProofs Proofs.FlagProofs.
Import ListNotations.
Open Scope Z_scope.

(* The regenerated table is sane: every integer validator's range is exactly the range of its ctypes type,
   Float/Double are c_float/c_double, Char is one c_char. *)
Theorem C09_table_ok : gen_ok = true.
Proof. vm_compute. reflexivity. Qed.

(* little-endian two's complement store/load is the identity on the validator's range *)
Theorem C09_int_roundtrip : forall r z, irec_ok r = true -> v_min r <= z <= v_max r ->
  load_int (irec_signed r) (le_encode (irec_w r) z) = z.
Proof. exact int_roundtrip. Qed.

(* Whatever the value, key and flag: the image keeps its length and every byte outside the field's extent. *)
Theorem C09_extent : forall en f k m v, ftype_ok (f_ty f) = true -> wf_field f m ->
  length (snd (set en f k m v)) = length m /\
  forall j, (j < f_off f \/ f_off f + fsize (f_ty f) <= j)%nat -> nth j (snd (set en f k m v)) 0 = nth j m 0.
Proof. intros. exact (set_frame en f k m v H H0). Qed.

(* Atomicity: a validated assignment that raises leaves every byte of the message unchanged.
   Its content for sequences: once validation has passed, no element store of the ctypes slice write can fail. *)
Theorem C09_atomic : forall f k m v e m', ftype_ok (f_ty f) = true ->
  set true f k m v = (Some e, m') -> m' = m.
Proof. intros f k m v e m' H1 H2. exact (set_atomic_full f k m v e m' H1 H2). Qed.

(* Read-back: an accepted assignment reads back as the normal form of the value (ints exactly, floats through
   binary64 -> binary32 -> binary64, strings up to the first NUL). *)
Theorem C09_readback_scalar : forall f m v m', ftype_ok (f_ty f) = true -> wf_field f m -> wf_val v = true ->
  scalar_ty (f_ty f) = true -> set true f KAttr m v = (None, m') ->
  get f KAttr m' = norm_scalar (f_ty f) v.
Proof. exact (readback_scalar narrow_bits_range). Qed.

Theorem C09_readback_index : forall f e n i m v m', f_ty f = TArr e n -> elem_ok e = true -> wf_field f m ->
  wf_val v = true -> set true f (KIdx i) m v = (None, m') ->
  get f (KIdx i) m' = inr (norm_elem e v).
Proof. exact (readback_index narrow_bits_range). Qed.

(* whole array or any slice (every start/stop/step, negative steps included) *)
Theorem C09_readback_whole : forall f e n k m v m', f_ty f = TArr e n -> elem_ok e = true -> wf_field f m ->
  wf_val v = true -> (k = KAttr \/ exists a b c, k = KSlice a b c) ->
  (forall e' n' raw, v <> PArr e' n' raw) ->
  set true f k m v = (None, m') ->
  exists items, iter_items (bytearray_conv e v) = Some items /\
                get f k m' = inr (elem_join e (map (norm_elem e) items)).
Proof. exact (readback_seq narrow_bits_range). Qed.

Theorem C09_readback_sarr_index : forall f cls esz n i m v m', f_ty f = TSArr cls esz n -> wf_field f m ->
  set true f (KIdx i) m v = (None, m') -> get f (KIdx i) m' = inr v.
Proof. exact readback_sarr_index. Qed.

Theorem C09_readback_sarr_whole : forall f cls esz n k m v m', f_ty f = TSArr cls esz n -> wf_field f m ->
  (k = KAttr \/ exists a b c, k = KSlice a b c) ->
  (forall c' e' n' raw, v <> PSArr c' e' n' raw) ->
  set true f k m v = (None, m') ->
  exists items, iter_items v = Some items /\ get f k m' = inr (PList items).
Proof. exact readback_sarr_seq. Qed.

(* Refusal: a value outside the field's domain always raises.
   out_of_domain (Spec/ValSpec.v): int out of the C range or not an int; finite float / int that rounds to
   +-infinity, non-number; string too long or non-ASCII or not a str; sequence of the wrong length or with an
   out-of-domain element AT ANY POSITION and whatever surrounds it (NaN included); struct of another class. *)
Theorem C09_refuse : forall f k m v, ftype_ok (f_ty f) = true ->
  out_of_domain (f_ty f) k v = true -> fst (set true f k m v) <> None.
Proof. exact set_refuse_full. Qed.

(* raw ctypes arrays (ctype * n) are sequences of their decoded elements ([iter_items] of [PCArr]): C09_refuse and
   C09_readback_whole therefore cover them - same element type, other signedness, other width alike *)
Example C09_ex_ctypes_array :
  let f := mkField 0 (TArr (EInt 0 v_Int8) 4) in let m := [9; 9; 9; 9] in
  (* (c_uint8*4)(1, 2, 200, 3) into an Int8 array: out of domain, refused, nothing written *)
  out_of_domain (f_ty f) KAttr (PCArr 1 1 4 [1; 2; 200; 3]) = true /\
  set true f KAttr m (PCArr 1 1 4 [1; 2; 200; 3]) = (Some EValueError, m) /\
  (* (c_uint8*4)(1, 2, 100, 3): in range, accepted, read back exactly *)
  set true f KAttr m (PCArr 1 1 4 [1; 2; 100; 3]) = (None, [1; 2; 100; 3]) /\
  get f KAttr [1; 2; 100; 3] = inr (PList [PInt 1; PInt 2; PInt 100; PInt 3]) /\
  (* (c_int16*2)(-1, 300) into the slice [2:4] *)
  set true f (KSlice (Some 2) (Some 4) None) m (PCArr 0 2 2 [255; 255; 44; 1]) = (Some EValueError, m).
Proof. repeat split; vm_compute; reflexivity. Qed.

(* the two inputs that defeated the old max()/min() check *)
Example C09_ex_nan_neighbour :
  let f := mkField 0 (TArr (EFloat 8 v_Float) 2) in let m := [0;0;0;0;0;0;0;0] in
  set true f KAttr m (PList [PFloat canonical_nan64; PFloat 5190260616003865117]) = (Some EValueError, m) /\
  set true f KAttr m (PList [PFloat canonical_nan64; PInt (10 ^ 400)]) = (Some EOverflowError, m).
Proof. split; vm_compute; reflexivity. Qed.

(* Floats: the model's conversion of a non-NaN double IS Flocq's round-to-nearest-even to binary32 ... *)
Theorem C09_narrow_is_flocq : forall b, f64_is_nan b = false ->
  narrow_bits b = bits_of_b32 (f64_to_f32 (b64_of_bits (b mod two64))).
Proof. intros b H. unfold narrow_bits. now rewrite H. Qed.

(* ... which yields the nearest representable FINITE binary32 exactly when |x| < FLT_MAX + ulp/2, and the
   infinity of the same sign otherwise (derived from Flocq's binary_normalize_correct). *)
Theorem C09_float_nearest : forall x : binary64, Binary.is_finite 53 1024 x = true ->
  if Rlt_bool (Rabs (Binary.B2R 53 1024 x)) T32
  then Binary.is_finite 24 128 (f64_to_f32 x) = true /\
       Binary.B2R 24 128 (f64_to_f32 x) = round radix2 (FLT_exp (-149) 24) ZnearestE (Binary.B2R 53 1024 x) /\
       Binary.Bsign 24 128 (f64_to_f32 x) = Binary.Bsign 53 1024 x
  else f64_to_f32 x = B754_infinity 24 128 (Binary.Bsign 53 1024 x).
Proof. exact f64_to_f32_correct. Qed.

(* a finite double that rounds to +-infinity is refused by a Float field, an accepted one never reads back infinite *)
Theorem C09_float_overflow_refused : forall f m b, f_ty f = TFloat v_Float ->
  f64_is_nan b = false -> f64_is_inf b = false -> xabs_ge (xnum_of_f64 b) T32z = true ->
  fst (set true f KAttr m (PFloat b)) <> None.
Proof.
  intros f m b Ht Hn Hi Hx. apply set_refuse_full; rewrite Ht; try reflexivity.
  cbn [out_of_domain ood_float is_cinst negb andb]. rewrite Hn, Hi, Hx. reflexivity.
Qed.

(* an explicit +-infinity is out of domain for Float and Double fields alike, scalar or at any position of a
   sequence (instances of C09_refuse) *)
Theorem C09_float_inf_refused : forall f ct m b, f_ty f = TFloat ct -> fct_ok ct = true ->
  f64_is_inf b = true -> fst (set true f KAttr m (PFloat b)) <> None.
Proof.
  intros f ct m b Ht Hct Hi. apply set_refuse_full; rewrite Ht; [exact Hct|].
  cbn [out_of_domain ood_float is_cinst negb andb].
  assert (Hn : f64_is_nan b = false).
  { unfold f64_is_inf, f64_is_nan in *. destruct (f64_exp b =? 2047); [|discriminate].
    destruct (f64_man b =? 0); [reflexivity|discriminate]. }
  rewrite Hn. cbn [negb andb]. destruct (snd ct =? 4) eqn:E4; [|exact Hi].
  destruct (xnum_of_f64 b) as [|sg|mm ee] eqn:Ex.
  - apply xnum_of_f64_nan in Ex. congruence.
  - destruct sg; reflexivity.
  - exfalso. assert (Hx : xnum_of_f64 b = XInf (f64_sign b)) by (apply xnum_of_f64_inf; auto). congruence.
Qed.

Example C09_ex_inf_in_sequence :
  let fd := mkField 0 (TArr (EFloat 9 v_Double) 3) in let m := repeat 7 24 in
  (* [1.0, nan, -inf] into a double[3]; [inf, 1.0] into the slice [1:3] *)
  out_of_domain (f_ty fd) KAttr (PList [PFloat 4607182418800017408; PFloat canonical_nan64; PFloat 18442240474082181120]) = true /\
  set true fd KAttr m (PList [PFloat 4607182418800017408; PFloat canonical_nan64; PFloat 18442240474082181120]) = (Some EValueError, m) /\
  set true fd (KSlice (Some 1) (Some 3) None) m (PList [PFloat 9218868437227405312; PFloat 4607182418800017408]) = (Some EValueError, m).
Proof. repeat split; vm_compute; reflexivity. Qed.

(* The validation flag: for every well-nested sequence of enter / exit / exit-by-exception events, validation
   is on exactly when no disabling block is open - in particular after a block has been left by exception. *)
Theorem C09_flag : forall t, well_nested t = true -> enabled t = spec_enabled t.
Proof. exact flag_correct. Qed.

(* a thread's flag depends on its own enter/exit events only (ContextVar semantics) *)
Theorem C09_flag_threads_independent : forall tid t s, tprobes tid s t = fprobes (tget s tid) (project tid t).
Proof. exact flag_threads_independent. Qed.

(* ---- non-vacuity ---- *)
Example C09_ex_accept :
  let f := mkField 1 (TInt v_Int8) in let m := [17; 17; 17] in
  ftype_ok (f_ty f) = true /\ wf_field f m /\
  set true f KAttr m (PInt (-5)) = (None, [17; 251; 17]) /\ get f KAttr [17; 251; 17] = inr (PInt (-5)).
Proof. repeat split; try reflexivity. unfold wf_field; vm_compute; lia. Qed.

Example C09_ex_refuse :
  let f := mkField 1 (TInt v_Int8) in let m := [17; 17; 17] in
  out_of_domain (f_ty f) KAttr (PInt 128) = true /\ set true f KAttr m (PInt 128) = (Some EValueError, m).
Proof. split; vm_compute; reflexivity. Qed.

Example C09_ex_slice :
  let f := mkField 1 (TArr (EInt 1 v_Int16) 3) in let m := [9;9;9;9;9;9;9;9] in
  elem_ok (EInt 1 v_Int16) = true /\ wf_field f m /\
  set true f (KSlice None None (Some (-2))) m (PList [PInt (-2); PBool true]) = (None, [9;1;0;9;9;254;255;9]) /\
  get f (KSlice None None (Some (-2))) [9;1;0;9;9;254;255;9] = inr (PList [PInt (-2); PInt 1]).
Proof. repeat split; try reflexivity. unfold wf_field; vm_compute; lia. Qed.

(* a float sequence led by NaN: accepted when every element is representable, out of domain otherwise *)
Example C09_ex_float_array :
  let f := mkField 0 (TArr (EFloat 8 v_Float) 3) in
  fst (set true f KAttr (repeat 0 12)
         (PList [PFloat canonical_nan64; PFloat 4609434218613702656; PFloat 5183643170566569984])) = None /\
  out_of_domain (f_ty f) KAttr (PList [PFloat canonical_nan64; PFloat 4609434218613702656; PFloat 5190260616003865117]) = true.
Proof. split; vm_compute; reflexivity. Qed.

Example C09_ex_flag :
  let t := [Enter false; Enter true; Enter false; ExitExc; ExitNormal] in
  well_nested t = true /\ enabled t = false /\ enabled (t ++ [ExitExc]) = true /\
  enabled [Enter false; ExitExc] = true.
Proof. repeat split; reflexivity. Qed.
