(* C10 - Serialisation round trips are the identity.
   Property theorems only; proofs live in Proofs/*.v.
   Model: Model/Codec.v (_to_dict / _from_dict / JSON value tree / Message.from_json / copy) over Model/Values.v.
   Spec-side definitions: Spec/CodecSpec.v (layouts, ApiReachable = [reach], invariant, the NaN exclusion).

   One clause of the property is FALSE of the code for a class of API-constructible values; its full statement is
   kept visible, a witness is proved (_refuted) and the statement is proved under a decidable exclusion (_partial):
     * [nans_canonical] (JSON only): every NaN is the canonical quiet NaN (violated by m.d = -nan: JSON has one NaN).
   [reach] excludes ctypes instances as assigned values ([plain]): they bypass validate_one (recorded finding).
   History: the stale-bytes-after-NUL defect of char arrays (m.s = "abc"; m.s = "a") and Message.copy raising were
   repaired in /repo (known_findings.d/values.txt, `fixed:` lines); the dictionary round trip is now proved in full. *)
From Coq Require Import ZArith List Bool Lia.
From Val Require Import Gen.ValidatorTbl Gen.CodecGuards Model.Bytes Model.Floats Model.Values Model.Codec
  Spec.ValSpec Spec.CodecSpec Proofs.CodecMisc Proofs.CodecProofs Proofs.ReachProofs.
Import ListNotations.
Open Scope Z_scope.

(* bytes(msg) -> from_buffer_copy *)
Theorem C10_bytes : forall m, from_bytes (length m) (to_bytes m) = inr m.
Proof. exact bytes_roundtrip. Qed.

(* every image reachable through the validated API satisfies the invariant the codecs need
   (finite floats, quiet binary32 NaNs, ASCII char data, NUL-terminated strings, zero padding) *)
Theorem C10_reach_invariant : forall leaves size m,
  layout_ok size leaves = true -> reach leaves size m -> reach_inv leaves size m = true.
Proof. exact reach_invariant. Qed.

(* ... and has no stale bytes after the first NUL of any char array *)
Theorem C10_reach_strings_clean : forall leaves size m,
  layout_ok size leaves = true -> reach leaves size m -> strings_clean leaves m = true.
Proof. exact reach_strings_clean. Qed.

(* to_dict / from_dict: the identity on every image reachable through the validated API *)
Theorem C10_dict : forall leaves size m,
  layout_ok size leaves = true -> reach leaves size m -> dict_roundtrip leaves size m = inr m.
Proof.
  intros leaves size m Hl Hr. apply dict_roundtrip_ok; auto;
    [now apply reach_invariant|now apply (reach_strings_clean leaves size)].
Qed.

(* to_json / from_json (message data alone).  FULL STATEMENT (false, see C10_json_refuted):
     forall leaves size m, layout_ok size leaves = true -> reach leaves size m -> json_roundtrip leaves size m = inr m. *)
Theorem C10_json_partial : forall leaves size m,
  layout_ok size leaves = true -> reach leaves size m -> nans_canonical leaves m = true ->
  json_roundtrip leaves size m = inr m.
Proof.
  intros leaves size m Hl Hr Hn.
  apply json_roundtrip_ok; auto; [now apply reach_invariant|now apply (reach_strings_clean leaves size)].
Qed.

Theorem C10_json_refuted : exists leaves size m,
  layout_ok size leaves = true /\ reach leaves size m /\
  dict_roundtrip leaves size m = inr m /\ json_roundtrip leaves size m <> inr m.
Proof.
  (* Double: m.d = -nan : to_dict/from_dict keeps the sign bit, JSON does not *)
  set (f := mkField 0 (TFloat v_Double)).
  exists [f], 8%nat, (snd (set true f KAttr (repeat 0 8) (PFloat 18444492273895866368))).
  split; [reflexivity|]. split.
  - apply reach_set; [apply reach_zero|now left|reflexivity].
  - split; [vm_compute; reflexivity|vm_compute; discriminate].
Qed.

(* the input that used to break the dictionary round trip: a shorter string over a longer one *)
Example C10_ex_string_history :
  let f := mkField 0 (TString 4) in
  let m := snd (set true f KAttr (snd (set true f KAttr (repeat 0 4) (PStr [97; 98; 99]))) (PStr [97])) in
  m = [97; 0; 0; 0] /\ dict_roundtrip [f] 4 m = inr m.
Proof. split; vm_compute; reflexivity. Qed.

(* copy: equal bytes, fresh storage - a write through either object never shows through the other *)
Theorem C10_copy : forall h i, (i < length h)%nat ->
  let '(h', j) := hcopy h i in
  j <> i /\ (j < length h')%nat /\ nth j h' [] = nth i h [] /\ nth i h' [] = nth i h [] /\
  (forall en f k v, nth i (hset h' j en f k v) [] = nth i h []) /\
  (forall en f k v, nth j (hset h' i en f k v) [] = nth i h []).
Proof. exact copy_fresh. Qed.

(* header + data JSON whose header carries a non-zero version different from the local hash is refused
   (guard_version is regenerated from Message.from_json) *)
Theorem C10_version : forall hc reg hvals dvals h c,
  from_dict (h_leaves hc) (h_size hc) hvals = inr h ->
  lookup (field_int (h_msg_type hc) h) reg = Some c ->
  field_int (h_version hc) h <> 0 -> field_int (h_version hc) h <> k_hash c ->
  msg_from_json hc reg hvals dvals = inl CInvalidMessageDefinition.
Proof. exact version_mismatch_refused. Qed.

(* header + data round trip (Message.to_json / Message.from_json) *)
Theorem C10_message_partial : forall hc reg c h d,
  layout_ok (h_size hc) (h_leaves hc) = true -> reach (h_leaves hc) (h_size hc) h ->
  nans_canonical (h_leaves hc) h = true ->
  layout_ok (k_size c) (k_leaves c) = true -> reach (k_leaves c) (k_size c) d ->
  nans_canonical (k_leaves c) d = true ->
  lookup (field_int (h_msg_type hc) h) reg = Some c ->
  (field_int (h_version hc) h = 0 \/ field_int (h_version hc) h = k_hash c) ->
  msg_json_roundtrip hc reg c h d = inr (h, d).
Proof.
  intros. apply message_roundtrip; auto; apply C10_json_partial; auto.
Qed.

(* ---- non-vacuity: a layout with every leaf kind, an image built by validated assignments ---- *)
Definition ex_leaves : list field :=
  [mkField 0 (TInt v_Int8); mkField 4 (TFloat v_Float); mkField 8 (TString 4); mkField 12 (TArr (EByte v_Byte) 2);
   mkField 14 (TArr (EInt 1 v_Int16) 2); mkField 20 (TArr (EFloat 8 v_Float) 2); mkField 28 TChar;
   mkField 29 (TByte v_Byte); mkField 32 (TFloat v_Double)].
Definition ex_sets : list (field * pyval) :=
  [(mkField 0 (TInt v_Int8), PInt (-5)); (mkField 4 (TFloat v_Float), PFloat 4607632778762754458);
   (mkField 8 (TString 4), PStr [97; 98]); (mkField 12 (TArr (EByte v_Byte) 2), PBytes [255; 1]);
   (mkField 14 (TArr (EInt 1 v_Int16) 2), PList [PInt (-32768); PInt 7]);
   (mkField 20 (TArr (EFloat 8 v_Float) 2), PList [PFloat 4607632778762754458; PFloat canonical_nan64]);
   (mkField 28 TChar, PStr [0]); (mkField 29 (TByte v_Byte), PBytes [200]);
   (mkField 32 (TFloat v_Double), PFloat 9223372036854775808)].
Definition ex_image : list Z :=
  fold_left (fun m s => snd (set true (fst s) KAttr m (snd s))) ex_sets (repeat 0 40).

Lemma reach_fold : forall leaves size sets m, reach leaves size m ->
  Forall (fun s => In (fst s) leaves /\ plain (snd s) = true) sets ->
  reach leaves size (fold_left (fun m s => snd (set true (fst s) KAttr m (snd s))) sets m).
Proof.
  intros leaves size sets. induction sets as [|s r IH]; intros m Hm Hs; cbn [fold_left]; [exact Hm|].
  inversion Hs as [|? ? (H1 & H2) Hr]; subst. apply IH; [|exact Hr]. now apply reach_set.
Qed.

Example C10_ex_canonical :
  layout_ok 40 ex_leaves = true /\ reach ex_leaves 40 ex_image /\
  nans_canonical ex_leaves ex_image = true /\
  ex_image <> repeat 0 40 /\ json_roundtrip ex_leaves 40 ex_image = inr ex_image.
Proof.
  split; [reflexivity|]. split.
  - apply reach_fold; [apply reach_zero|].
    repeat (constructor; [split; [cbn; tauto|reflexivity]|]). constructor.
  - split; [vm_compute; reflexivity|]. split; [vm_compute; discriminate|].
    vm_compute. reflexivity.
Qed.

Example C10_ex_message :
  let hc := mkHdr [mkField 0 (TInt v_Int32); mkField 4 (TInt v_Uint32)] 8 (mkField 0 (TInt v_Int32)) (mkField 4 (TInt v_Uint32)) in
  let c := mkClass [mkField 0 (TInt v_Int16)] 2 4660 in
  msg_json_roundtrip hc [(77, c)] c [77; 0; 0; 0; 52; 18; 0; 0] [254; 255] = inr ([77; 0; 0; 0; 52; 18; 0; 0], [254; 255]) /\
  msg_json_roundtrip hc [(77, c)] c [77; 0; 0; 0; 53; 18; 0; 0] [254; 255] = inl CInvalidMessageDefinition /\
  msg_json_roundtrip hc [(77, c)] c [78; 0; 0; 0; 0; 0; 0; 0] [254; 255] = inl CUnknownMessageType.
Proof. repeat split; vm_compute; reflexivity. Qed.
