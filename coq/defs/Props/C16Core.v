(* C16(c) - the shipped core definitions are current: Gen/CoreYaml.v (the three shipped YAML files, regenerated
   every run) pushed through the model of parse + layout + Python emission equals Gen/CoreDefs.v (what the shipped
   core_defs.py contains, regenerated every run) on constants, host/module/message ids, aliases, class names and
   order, type ids, type sizes and every field's name, descriptor class (width, signed/unsigned/float/char),
   array length and nested class.  Closed computation by vm_compute.
   NOT in this computation: type_hash (SHA-256 is not modelled here; compared on the implementation side). *)
From Coq Require Import ZArith List Bool String.
From Defs Require Import Gen.TypeTables Gen.CoreYaml Gen.CoreDefs Model.Layout Model.Emit.
Import ListNotations.
Open Scope string_scope. Open Scope list_scope. Open Scope Z_scope.

Definition F5 : Type := string * Z * Z * Z * string.
Definition f5_eqb (a b : F5) : bool :=
  let '(n1, w1, k1, c1, r1) := a in let '(n2, w2, k2, c2, r2) := b in
  String.eqb n1 n2 && (w1 =? w2) && (k1 =? k2) && (c1 =? c2) && String.eqb r1 r2.
Fixpoint list_eqb {A B} (eqb : A -> B -> bool) (a : list A) (b : list B) : bool :=
  match a, b with [], [] => true | x :: r, y :: s => eqb x y && list_eqb eqb r s | _, _ => false end.
Definition sz_eqb (a b : string * Z) : bool := String.eqb (fst a) (fst b) && (snd a =? snd b).
Definition ss_eqb (a b : string * string) : bool := String.eqb (fst a) (fst b) && String.eqb (snd a) (snd b).
(* a constant of the shipped module is an int: the parsed constant must be that int (not a float of the same value) *)
Definition cz_eqb (a : string * cval) (b : string * Z) : bool :=
  String.eqb (fst a) (fst b) && match snd a with VInt n => n =? snd b | VFlt _ => false end.

(* one field as the Python back end prints it: descriptor class through python.py's desctype_map *)
Definition py_field (p : pfield) : F5 :=
  match class_via pydesc_types p with
  | ECNat w k => (pf_name p, w, k, count_py p, "")
  | ECRef false n => (pf_name p, -1, -1, count_py p, n)
  | ECRef true n => (pf_name p, -1, -2, count_py p, n)
  | ECUnknown => (pf_name p, -9, -9, count_py p, "")
  end.
Definition py_def (d : pdef) : string * Z * Z * list F5 :=
  (pd_name d, match pd_id d with Some i => i | None => -1 end, pd_size d, map py_field (pd_fields d)).
Definition def_eqb (a : string * Z * Z * list F5) (b : string * Z * Z * Z * list F5) : bool :=
  let '(n1, i1, s1, f1) := a in let '(n2, i2, s2, _, f2) := b in
  String.eqb n1 n2 && (i1 =? i2) && (s1 =? s2) && list_eqb f5_eqb f1 f2.
Definition py_alias (a : palias) : string * (Z * Z) :=
  (pa_name a, match pa_target a with
              | ANat k => match tlookup k py_types with Some v => v | None => (-9, -9) end
              | AStruct _ => (-1, -1) end).
Definition alias_eqb (a b : string * (Z * Z)) : bool :=
  String.eqb (fst a) (fst b) && (fst (snd a) =? fst (snd b)) && (snd (snd a) =? snd (snd b)).

(* which component differs: 0 = none *)
Definition core_diff : Z :=
  match parse_closure true core_closure with
  | POk st =>
    if negb (list_eqb cz_eqb (ps_consts st) core_py_constants) then 1
    else if negb (list_eqb ss_eqb (ps_strs st) core_py_strings) then 2
    else if negb (list_eqb alias_eqb (map py_alias (ps_aliases st)) core_py_aliases) then 3
    else if negb (list_eqb sz_eqb (ps_hids st) core_py_hids) then 4
    else if negb (list_eqb sz_eqb (ps_mids st) core_py_mids) then 5
    else if negb (list_eqb sz_eqb (ps_mts st) core_py_mts) then 6
    else if negb (list_eqb def_eqb (map py_def (ps_structs st ++ ps_msgs st)) core_py_defs) then 7
    else 0
  | PReject k => 100 + k
  | PCrash k => 200 + k
  end.

Theorem C16_core_current : core_diff = 0.
Proof. vm_compute. reflexivity. Qed.

(* non-vacuity: the computation really covers the protocol *)
Example C16_core_nonempty :
  (List.length core_py_defs >= 60)%nat /\ (List.length core_py_constants >= 17)%nat /\
  exists st, parse_closure true core_closure = POk st /\
             (exists d, find_def "TIMING_MESSAGE" (ps_msgs st) = Some d /\ pd_size d = 20808) /\
             (exists d, find_def "RTMA_MSG_HEADER" (ps_structs st) = Some d /\ pd_size d = 48).
Proof.
  split; [vm_compute; repeat constructor|]. split; [vm_compute; repeat constructor|].
  eexists. split; [vm_compute; reflexivity|]. split; eexists; split; vm_compute; reflexivity.
Qed.
