(* C16 - Compilation is deterministic; the combined-YAML round trip; the shipped core definitions are current.
   (a) determinism: NO theorem - a Gallina function is deterministic by construction; this clause is decided by
       differential execution of the real compiler (vlib/props/C16.py), not by proof.
   (b) C16_combined: theorem below (Proofs/EmitCombined.v).
   (c) core definitions: closed computation over Gen/CoreYaml.v and Gen/CoreDefs.v (regenerated every run) in
       Props/C16Core.v, plus the comparison of the real compiler's output with the shipped core_defs.py. *)
From Coq Require Import ZArith List Bool String Lia.
From Defs Require Import Gen.TypeTables Model.Layout Model.Emit Proofs.EmitCombined.
Import ListNotations.
Open Scope string_scope. Open Scope list_scope. Open Scope Z_scope.

(* ---------------------------------------------------------------- C16_combined
   l = the items of the closure in parse order (DFS over imports, imports before own sections).
   combined_items l = what YAMLCompiler dumps: every section merged in that order (dict.update; the _RESERVED_
   blocks of all files merged into one block listing all their ids, at the place of the first), re-read by
   parse_text section by section.
   same_defs st st' (Proofs/EmitCombined.v) = the same ids, hashes - any function of the source declaration kept
   in pd_body -, sizes and layouts: constants, strings, aliases, host ids, module ids and structs are identical
   lists; message_ids and message_defs hold the same entries (a permutation) and the user's own entries come in the
   same order - only the _RESERVED_nnnnnn placeholders of several files gather where the first block was.
   FULL: forall ap l st, parse_items ap l = POk st -> exists st', reparse_combined ap l = POk st' /\ same_defs st st'.
   Stated condition (the two emission-order findings that stay open): backward_uses l - no alias names a struct of the
   closure and no struct body names a message of the closure, i.e. every use goes from a later section to an
   earlier-or-equal one.
   legal_names l is not an exclusion of accepted inputs: Parser.check_name rejects every declared name that does
   not start with a letter (tied by the C12 guards translator); Model/Emit.v's step does not model that check, so
   it appears here as a hypothesis on the source items. *)
Theorem C16_combined : forall ap l st,
  backward_uses l = true -> legal_names l = true ->
  parse_items ap l = POk st -> exists st', reparse_combined ap l = POk st' /\ same_defs st st'.
Proof. exact combined_roundtrip. Qed.

Corollary C16_combined_closure : forall ap c l st,
  closure_items c = Some l -> backward_uses l = true -> legal_names l = true ->
  parse_closure ap c = POk st -> exists st', reparse_combined ap l = POk st' /\ same_defs st st'.
Proof.
  intros ap c l st Hl Hb Hn H. unfold parse_closure in H. rewrite Hl in H. apply combined_roundtrip; assumption.
Qed.

(* with at most one _RESERVED_ block in the closure nothing moves: the re-read state is THE SAME state *)
Theorem C16_combined_exact : forall ap l st,
  backward_uses l = true -> (count_reserved l <= 1)%nat ->
  parse_items ap l = POk st -> reparse_combined ap l = POk st.
Proof. exact combined_roundtrip_exact. Qed.

(* witnesses against the full statement *)
Definition alias_of_struct_closure : closure :=
  [mkFile [1]%nat [IAlias "B" "S0"; IStruct "S1" (BFields [mkFd "a" "int32" None])];
   mkFile [] [IStruct "S0" (BFields [mkFd "q" "uint16" (Some (CLit 2))])]].
Definition struct_of_msg_closure : closure :=
  [mkFile [1]%nat [IStruct "S1" (BFields [mkFd "a" "M0" None])];
   mkFile [] [IMsg "M0" 10 (Some (BFields [mkFd "q" "uint16" (Some (CLit 2))]))]].
Definition two_reserved_closure : closure :=
  [mkFile [1]%nat [IMsg "M1" 5 (Some (BFields [mkFd "a" "int32" None])); IReserved [10; 12]];
   mkFile [] [IReserved [100; 101]]].

Definition roundtrip (c : closure) : option (pres pstate * pres pstate) :=
  match closure_items c with Some l => Some (parse_items true l, reparse_combined true l) | None => None end.

Theorem C16_combined_refuted_alias_of_struct : exists st,
  roundtrip alias_of_struct_closure = Some (POk st, PReject RSyntax).
Proof. eexists. vm_compute. reflexivity. Qed.

Theorem C16_combined_refuted_struct_of_msg : exists st,
  roundtrip struct_of_msg_closure = Some (POk st, PReject RSyntax).
Proof. eexists. vm_compute. reflexivity. Qed.

(* several _RESERVED_ blocks (bcffd4b): every reserved id survives the round trip; the placeholders of the file read
   first and of the root file end up side by side, the user's message keeps its id *)
Example C16_two_reserved_roundtrip : exists l st st',
  closure_items two_reserved_closure = Some l /\ backward_uses l = true /\ legal_names l = true /\
  count_reserved l = 2%nat /\
  roundtrip two_reserved_closure = Some (POk st, POk st') /\
  map snd (ps_mts st) = [100; 101; 5; 10; 12] /\ map snd (ps_mts st') = [100; 101; 10; 12; 5] /\
  map fst (ps_mts st') = ["_RESERVED_000100"; "_RESERVED_000101"; "_RESERVED_000010"; "_RESERVED_000012"; "M1"] /\
  map pd_name (ps_msgs st') = map fst (ps_mts st').
Proof.
  eexists. eexists. eexists. split; [vm_compute; reflexivity|]. split; [vm_compute; reflexivity|].
  split; [vm_compute; reflexivity|]. split; [vm_compute; reflexivity|]. split; [vm_compute; reflexivity|].
  repeat split; reflexivity.
Qed.

(* non-vacuity: a three-file closure whose merge really reorders the items *)
Definition ex_closure : closure :=
  [mkFile [1; 2]%nat
     [IConst "N" (CAdd (CRef "K") (CLit 2)); IAlias "AA" "A16";
      IStruct "S1" (BFields [mkFd "a" "char" (Some (CRef "N")); mkFd "b" "int32" None; mkFd "e" "S0" None; mkFd "f" "AA" None]);
      IMsg "M1" 1000 (Some (BFields [mkFd "s" "S1" None; mkFd "m" "M0" (Some (CRef "K"))]));
      IMsg "RU" 1003 (Some (BReuse "M0")); IReserved [2000; 2001]];
   mkFile [2]%nat [IConst "K" (CLit 2); IAlias "A16" "int16"; IHid "H1" 11;
                   IStruct "S0" (BFields [mkFd "q" "A16" (Some (CLit 2)); mkFd "r" "long" None]);
                   IMsg "M0" 900 (Some (BFields [mkFd "x" "S0" None])); IMsg "SIG" 901 None];
   mkFile [0]%nat [IStr "greet" "hello"; IMid "D1" 21]].

Example C16_ex_roundtrip : exists l st,
  closure_items ex_closure = Some l /\ backward_uses l = true /\ legal_names l = true /\ (count_reserved l <= 1)%nat /\
  combined_items l <> l /\ parse_closure true ex_closure = POk st /\ reparse_combined true l = POk st /\
  map pd_size (ps_structs st ++ ps_msgs st) = [8; 20; 8; 0; 36; 8; 0; 0].
Proof.
  eexists. eexists. split; [vm_compute; reflexivity|]. split; [vm_compute; reflexivity|]. split; [vm_compute; reflexivity|].
  split; [vm_compute; lia|]. split; [vm_compute; discriminate|]. split; [vm_compute; reflexivity|].
  split; vm_compute; reflexivity.
Qed.
