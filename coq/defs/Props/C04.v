(* C04 - All language outputs of the compiler describe the same wire format.
   Property theorems only; proofs live in Proofs/TablesProofs.v, Proofs/EmitTotal.v.
   Model: Model/Emit.v (parse + emission), Model/Layout.v (check_alignment, natural C layout).
   Tables: Gen/TypeTables.v, regenerated from /repo on every run - a slip in ONE table breaks C04_tables_*. *)
From Coq Require Import ZArith List Bool String Lia.
From Defs Require Import Gen.TypeTables Model.Layout Model.Emit Proofs.LayoutProofs Proofs.TablesProofs
  Proofs.EmitCombined Proofs.EmitScope Proofs.EmitTotal.
Import ListNotations.
Open Scope string_scope. Open Scope list_scope. Open Scope Z_scope.

(* ---------------------------------------------------------------- C04_tables (finite, complete)
   for every name of parser.supported_types (domain: the generated list parser_types): the struct-format letter,
   get_ctype_cls's table (keyed by NativeType.name), python type_map and desctype_map, the C, MATLAB and JavaScript
   tables all have the entry with the same width and signed/unsigned/float/char class (MATLAB: char as int8;
   JavaScript: char or not). *)
Theorem C04_tables : forall k sz kd, tlookup k parser_types = Some (sz, kd) -> key_agrees k sz kd.
Proof. exact tables_agree. Qed.

Theorem C04_tables_sweep : forallb entry_ok parser_types = true.
Proof. exact tables_sweep. Qed.

Example C04_tables_domain : List.length parser_types = 27%nat /\ key_agrees "unsigned long long" 8 1 /\
  key_agrees "char" 1 3 /\ key_agrees "signed char" 1 0.
Proof. split; [reflexivity|]. repeat split; apply tables_agree; vm_compute; reflexivity. Qed.

(* ---------------------------------------------------------------- C04_sig
   for EVERY accepted closure (parse_items ap l = POk st: the model of Parser.parse accepted), per struct / message:
   field names, order, element class (width, signed/unsigned/float/char or the nested struct / message) and array
   length read from the Python, C, JavaScript and MATLAB emissions are the same function of the parsed model
   (JavaScript carries no widths; MATLAB stores char as int8). *)
Theorem C04_sig : forall ap l st d,
  parse_items ap l = POk st -> In d (all_defs st) ->
  sig_fields pydesc_types count_py (fun c => c) d = sig_fields parser_types count_model (fun c => c) d /\
  sig_fields c_types count_c (fun c => c) d = sig_fields parser_types count_model (fun c => c) d /\
  sig_fields js_types count_c erase_js d = sig_fields parser_types count_model erase_js d /\
  sig_fields matlab_types count_c norm_matlab d = sig_fields parser_types count_model norm_matlab d.
Proof. intros ap l st d H Hd. destruct (parsed_invw _ _ _ H) as [I P]. apply (signatures_agree st d I P Hd). Qed.

(* ---------------------------------------------------------------- C04_layout
   for EVERY accepted closure: the natural C layout of the emitted C struct (c99.py's table), the ctypes layout of
   the emitted Python class (python.py's table) and the explicit layout the parser recorded have the same offsets,
   and sizeof = ctypes.sizeof = type_size.  Corollary of C11 (check_alignment_spec) and C04_tables. *)
Theorem C04_layout : forall ap l st d,
  parse_items ap l = POk st -> In d (all_defs st) -> is_signal d = false ->
  let offs := explicit_offsets (lay_model d) 0 in
  c_offsets (lay_c d) 0 = (offs, pd_size d) /\ c_offsets (lay_py d) 0 = (offs, pd_size d) /\
  c_sizeof (lay_c d) = pd_size d /\ c_sizeof (lay_py d) = pd_size d /\ total_size (lay_model d) = pd_size d.
Proof. intros ap l st d H Hd Hs. destruct (parsed_invw _ _ _ H) as [I P]. apply (layouts_agree st d I P Hd Hs). Qed.

(* array lengths below 1 are rejected (RTMASyntaxError), which is what makes the two statements total *)
Example C04_len0_rejected :
  parse_items true [IStruct "S" (BFields [mkFd "a" "int32" (Some (CLit 0)); mkFd "b" "int32" None])] = PReject RSyntax /\
  parse_items true [IConst "N" (CLit 2); IStruct "S" (BFields [mkFd "a" "int8" (Some (CSub (CRef "N") (CLit 3)))])] = PReject RSyntax.
Proof. split; vm_compute; reflexivity. Qed.

(* ---------------------------------------------------------------- hash literal forms
   Python prints 0x + upper-case hex, C 0x + lower-case, JavaScript and MATLAB quoted lower-case: same number. *)
Lemma hexval_acc_forms ds : Forall (fun d => 0 <= d < 16) ds -> forall acc,
  hexval_acc (hexstr true ds) acc = hexval_acc (hexstr false ds) acc.
Proof.
  induction 1 as [|d r Hd Hr IH]; intros acc; simpl; auto.
  assert (E : hexdigit_val (hexdigit true d) = hexdigit_val (hexdigit false d)).
  { assert (C : d = 0 \/ d = 1 \/ d = 2 \/ d = 3 \/ d = 4 \/ d = 5 \/ d = 6 \/ d = 7 \/ d = 8 \/ d = 9 \/ d = 10 \/ d = 11
                \/ d = 12 \/ d = 13 \/ d = 14 \/ d = 15) by lia.
    repeat (destruct C as [C|C]; [subst; reflexivity|]). subst; reflexivity. }
  rewrite E. apply IH.
Qed.
Theorem C04_hash_forms : forall ds, Forall (fun d => 0 <= d < 16) ds -> hexval (hexstr true ds) = hexval (hexstr false ds).
Proof. intros ds H. apply hexval_acc_forms. exact H. Qed.

(* ---------------------------------------------------------------- non-vacuity *)
Definition ex_items : list item :=
  [IConst "N" (CLit 3); IAlias "A16" "int16"; IAlias "AA" "A16";
   IStruct "S0" (BFields [mkFd "q" "unsigned short" (Some (CLit 2)); mkFd "r" "long" None; mkFd "s" "signed char" (Some (CLit 4))]);
   IStruct "S1" (BFields [mkFd "a" "char" (Some (CRef "N")); mkFd "b" "int32" None; mkFd "c" "uint8" None;
                          mkFd "d" "AA" None; mkFd "e" "S0" (Some (CMul (CRef "N") (CLit 2)))]);
   IMsg "M1" 1000 (Some (BFields [mkFd "s" "S1" None; mkFd "t" "float" (Some (CLit 6)); mkFd "u" "double" None]));
   IMsg "M0" 900 (Some (BFields [mkFd "m" "M1" (Some (CLit 2))]));
   IMsg "SIG" 1002 None; IMsg "RU" 1003 (Some (BReuse "M1"))].

Example C04_ex_accepted :
  exists st, parse_items true ex_items = POk st /\ List.length (all_defs st) = 6%nat /\
             map pd_size (all_defs st) = [12; 84; 120; 240; 0; 120] /\
             (* auto-inserted interior and trailing padding is part of what every language prints *)
             map (fun d => List.length (pd_fields d)) (all_defs st) = [3; 7; 4; 1; 0; 4]%nat.
Proof. eexists. split; [vm_compute; reflexivity|]. vm_compute. repeat split; reflexivity. Qed.
