(* C13 - The version hash identifies the definition text, everywhere the same.
   Property theorems only; proofs live in Proofs/HashProofs.v.
   Model: Model/HashText.v (the `raw` builders of handle_message_def / handle_signal / handle_struct,
   textwrap.dedent, the literal each back end prints), Lib/Sha256.v.

   What is proved, and what is not.  The hash is sha256 of a TEXT.  Proved: which inputs the text
   has; that on well-formed definitions the text determines the definition (so every single edit -
   rename, id change, field rename, type-text change, insertion, deletion, REORDERING,
   signal <-> message <-> struct - changes the text); that the four
   emitted literals denote the same number, first32(sha256 text).  NOT proved, for any technique:
   that different texts have different 32-bit digests prefixes (pigeonhole) - that is the SHA-256
   collision assumption, named in the evidence.
   Stated, not a Coq theorem (checked structurally in client.py and on captured frames by
   vlib/props/C13.py): Client.send_message writes header.version := type_hash of the message object;
   Client.send_signal writes header.version := type_hash of the definition registered for the signal
   type, for every DEFINED type (an id with no registered definition leaves version 0);
   forward_message sends the header it is given unchanged. *)
From Coq Require Import ZArith NArith List Bool String Ascii Lia.
From Defs Require Import Gen.Guards Lib.Sha256 Model.HashText Proofs.HashProofs.
Import ListNotations.
Open Scope string_scope. Open Scope list_scope.

(* the elements of a definition the property names: kind, name, id, the ORDERED list of
   (field name, type text) - or the NAME of the reuse target for `fields: OTHER` *)
Definition elements (d : defn)
  : nat * string * option Z * option (list (string * string)) * option string :=
  match d with
  | DSignal n i => (0%nat, n, Some i, None, None)
  | DMessage n i (FDict fs) => (1%nat, n, Some i, Some fs, None)
  | DMessage n i (FReuse t) => (1%nat, n, Some i, None, Some t)
  | DStruct n (FDict fs) => (2%nat, n, None, Some fs, None)
  | DStruct n (FReuse t) => (2%nat, n, None, None, Some t)
  end.

(* the text, the digest and the 32-bit version depend on nothing else (by construction of the model;
   that the implementation's text has no other input - file, directory, import position, comments,
   blank lines, neighbours, working directory, padding options, hash seed - is what the
   correspondence observes on every run) *)
Theorem C13_depends_only : forall d1 d2, elements d1 = elements d2 ->
  raw d1 = raw d2 /\ hash_hex d1 = hash_hex d2 /\ hash32 d1 = hash32 d2.
Proof.
  intros d1 d2 H. assert (d1 = d2); [|subst; auto].
  destruct d1 as [n1 i1|n1 i1 [f1|t1]|n1 [f1|t1]], d2 as [n2 i2|n2 i2 [f2|t2]|n2 [f2|t2]];
    simpl in H; inversion H; subst; reflexivity.
Qed.

(* the text in closed form: textwrap.dedent changes nothing, except for a struct written
   `fields: OTHER`, whose text is the characters of "    fields: OTHER" one per line with the
   blank ones emptied *)
Theorem C13_raw_shapes : forall d, wf d = true ->
  raw d = join (canon_lines d) /\
  (match d with DStruct _ (FReuse _) => True | _ => raw d = raw_pre d end).
Proof.
  intros d W. split; [exact (raw_canon d W)|].
  destruct d as [n i|n i [fs|t]|n [fs|t]]; try exact I;
    rewrite (raw_canon _ W), raw_pre_lines; reflexivity.
Qed.

(* well-formed = names are identifiers, no field carries a name add_fields reserves (the regenerated
   list, which contains `fields`), type texts contain no newline *)
Theorem C13_wf_excludes_reserved_field_names :
  In "fields" reserved_field_names /\
  forall n i fn ty rest, str_mem fn reserved_field_names = true -> wf (DMessage n i (FDict ((fn, ty) :: rest))) = false.
Proof.
  split; [vm_compute; tauto|]. intros n i fn ty rest H. unfold wf, wf_fspec. cbn [forallb]. unfold wf_field. cbn [fst].
  rewrite H. cbn [negb]. rewrite andb_false_r. cbn [andb]. apply andb_false_r.
Qed.

(* the hashed text determines the definition, distinguishing signal from message from struct *)
Theorem C13_injective : forall d1 d2, wf d1 = true -> wf d2 = true -> raw d1 = raw d2 -> d1 = d2.
Proof. exact raw_inj_wf. Qed.

(* every single edit changes the hashed text *)
Theorem C13_every_edit_changes_text : forall d1 d2, wf d1 = true -> wf d2 = true -> d1 <> d2 -> raw d1 <> raw d2.
Proof. intros d1 d2 W1 W2 N H. exact (N (raw_inj_wf d1 d2 W1 W2 H)). Qed.

(* ... in particular reordering two different fields, and turning a message into a signal *)
Theorem C13_reordering_changes_text : forall n i a b pre post,
  wf (DMessage n i (FDict (pre ++ a :: b :: post))) = true -> a <> b ->
  raw (DMessage n i (FDict (pre ++ a :: b :: post))) <> raw (DMessage n i (FDict (pre ++ b :: a :: post))).
Proof.
  intros n i a b pre post W N.
  assert (W2 : wf (DMessage n i (FDict (pre ++ b :: a :: post))) = true).
  { simpl in *. rewrite andb_true_iff in *. destruct W as [A B]. split; [exact A|].
    rewrite forallb_app in *. simpl in *. rewrite !andb_true_iff in *. tauto. }
  apply C13_every_edit_changes_text; auto. intros E. inversion E as [E1].
  apply app_inv_head in E1. inversion E1. auto.
Qed.
Theorem C13_signal_message_struct_differ : forall n i f, wf (DMessage n i f) = true ->
  raw (DSignal n i) <> raw (DMessage n i f) /\ raw (DStruct n f) <> raw (DMessage n i f).
Proof.
  intros n i f W. pose proof W as W'. simpl in W'. apply andb_true_iff in W'. destruct W' as [A B].
  split; apply C13_every_edit_changes_text; auto; try discriminate; simpl; rewrite A; auto.
Qed.

(* the former look-alike: `fields: S` against a single field called `fields` of type S give the same
   text, but the second is no longer a definition the parser accepts *)
Example C13_ex_former_lookalike :
  raw (DMessage "M" 5 (FReuse "S")) = raw (DMessage "M" 5 (FDict [("fields", "S")])) /\
  wf (DMessage "M" 5 (FReuse "S")) = true /\ wf (DMessage "M" 5 (FDict [("fields", "S")])) = false.
Proof. split; [|split]; vm_compute; reflexivity. Qed.

(* over all sixteen nibble values the lower-case digit and its upper-case form denote the nibble *)
Theorem C13_hex_case_all_nibbles : forall n, (n < 16)%N ->
  hexval (hexchar n) = Some n /\ hexval (upper_char (hexchar n)) = Some n.
Proof. exact hexval_hexchar. Qed.

(* the literal in the Python (0x%UPPER), C (0x%lower), JavaScript and MATLAB ("%lower") outputs
   denotes one and the same number: the first 32 bits of sha256(raw) *)
Theorem C13_same_everywhere : forall d,
  lit0x_value (py_literal (hash_hex d)) = Some (hash32 d) /\
  lit0x_value (c_literal (hash_hex d)) = Some (hash32 d) /\
  hex_value (js_literal (hash_hex d)) = Some (hash32 d) /\
  hex_value (matlab_literal (hash_hex d)) = Some (hash32 d) /\
  (hash32 d < 2 ^ 32)%N.
Proof. exact literals_agree. Qed.

Theorem C13_sha256_vectors :
  sha256_hex "abc" = "ba7816bf8f01cfea414140de5dae2223b00361a396177a9cb410ff61f20015ad" /\
  sha256_hex "" = "e3b0c44298fc1c149afbf4c8996fb92427ae41e4649b934ca495991b7852b855" /\
  sha256_hex "abcdbcdecdefdefgefghfghighijhijkijkljklmklmnlmnomnopnopq"
    = "248d6a61d20638b8e5c026930c3e6039a33ce45964ff2167f6ecedd419db06c1".
Proof. split; [exact sha256_abc|split; [exact sha256_empty|exact sha256_448]]. Qed.

(* ---- non-vacuity ------------------------------------------------------------------------------ *)

Example C13_ex_wf :
  let d := DMessage "TRIAL_DATA" 1234 (FDict [("count", "int32"); ("pos", "double[3]"); ("label", "char[ MAX_LEN ]")]) in
  wf d = true /\ lookalike d = false /\
  raw d = "TRIAL_DATA:" +++ nl +++ "  id: 1234" +++ nl +++ "  fields:" +++ nl +++ "    count: int32" +++ nl
          +++ "    pos: double[3]" +++ nl +++ "    label: char[ MAX_LEN ]" /\
  py_literal (hash_hex d) = "0xBA182756" /\ c_literal (hash_hex d) = "0xba182756".
Proof. split; [|split; [|split; [|split]]]; vm_compute; reflexivity. Qed.

Example C13_ex_struct_reuse :
  wf (DStruct "T" (FReuse "S")) = true /\
  raw (DStruct "T" (FReuse "S")) = join ["T:"; "  fields:"; ""; ""; ""; ""; "f"; "i"; "e"; "l"; "d"; "s"; ":"; ""; "S"].
Proof. split; vm_compute; reflexivity. Qed.
