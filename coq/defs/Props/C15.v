(* C15 - Accepted definitions always yield outputs that load in their language.
   Property theorems only; proofs live in Proofs/EmitScope.v, EmitJs.v, EmitTotal.v.
   Model: Model/Emit.v.  "loads" = the ordered definition/use event list of the back end is well scoped
   (every Use preceded by its Def), every call made in a JavaScript factory targets a function, the Python
   module defines (and the decorator registers) one class per message, JavaScript factory results share no object.

   C15_total, C15_js_fresh hold in full (after the fixes 55760b3, f7d117e, 4581550, 35347c0, cf903f5 in /repo);
   the MATLAB statement no longer needs the core definitions (3dda184).
   The scoping statements (over every accepted closure) are still false of the current code for the emission-order
   construct classes; each is kept as `*_refuted` (witness by vm_compute, replayed on the real loaders by
   vlib/props/C15.py) next to a `*_partial` theorem under a decidable exclusion naming the construct class. *)
From Coq Require Import ZArith List Bool String Lia.
From Defs Require Import Gen.TypeTables Gen.EmitGuards Model.Layout Model.Emit Proofs.LayoutProofs Proofs.TablesProofs
  Proofs.EmitCombined Proofs.EmitScope Proofs.EmitJs Proofs.EmitTotal.
Import ListNotations.
Open Scope string_scope. Open Scope list_scope. Open Scope Z_scope.

(* ---------------------------------------------------------------- C15_total: no internal error
   for EVERY closure: the model of Parser.parse (add_fields, check_alignment, the final ctypes size assert with
   get_ctype_cls's own table and its alias branches) accepts or rejects with a parser error; it never crashes.
   Universe of constant / array-length expressions (cexpr): integer literals, references to constants of any file
   read earlier, + - *, and TRUE division by a positive integer literal (`A / 2`, `(A + B) / 2`, `5 / 2`).  A
   division makes the value a Python float (8.0, 2.5); the length of a field is int() of the evaluated expression
   (truncation toward zero; Gen/EmitGuards.v is regenerated from add_fields on every run and the translator fails
   closed when the int() conversion or the `< 1` test is no longer there), so every length the layout, the ctypes
   size assert and the back ends see is an integer >= 1. *)
Theorem C15_total : forall ap l k, parse_items ap l <> PCrash k.
Proof. exact parse_never_crashes. Qed.

Corollary C15_total_closure : forall ap c k, parse_closure ap c <> PCrash k.
Proof. intros ap c k. unfold parse_closure. destruct (closure_items c); [apply parse_never_crashes|discriminate]. Qed.

(* a file without any section (an empty YAML document) defines nothing (bebb1a6; it used to end in AttributeError):
   imported, the closure parses to the state of the other files; as the root, to the empty state; an error in
   another file is still reported *)
Definition empty_import_closure : closure :=
  [mkFile [1; 2]%nat [IStruct "S1" (BFields [mkFd "a" "S0" None])];
   mkFile [] [IStruct "S0" (BFields [mkFd "q" "uint16" (Some (CLit 3))])]; mkFile [] []].
Example C15_empty_file_ex :
  empty_file (mkFile [] []) = true /\
  (exists st, parse_closure true empty_import_closure = POk st /\ map pd_name (ps_structs st) = ["S0"; "S1"] /\
              map pd_size (ps_structs st) = [6; 6]) /\
  parse_closure true [mkFile [] []] = POk ps_empty /\
  parse_closure true [mkFile [1; 2]%nat []; mkFile [] [IAlias "A" "NOPE"]; mkFile [] []] = PReject RSyntax.
Proof. split; [reflexivity|]. split; [eexists; repeat split; vm_compute; reflexivity|]. split; vm_compute; reflexivity. Qed.

(* the two shapes that used to crash are accepted: `signed char`, and a field whose type is an alias of a struct *)
Definition signed_char_items : list item :=
  [IAlias "SC" "signed char"; IStruct "S" (BFields [mkFd "a" "signed char" None; mkFd "b" "SC" (Some (CLit 3))])].
Definition alias_struct_field_closure : closure :=
  [mkFile [1]%nat [IAlias "B" "S0"; IStruct "T" (BFields [mkFd "x" "B" (Some (CLit 2)); mkFd "y" "int8" None])];
   mkFile [] [IStruct "S0" (BFields [mkFd "a" "int32" None])]].
Example C15_total_ex : (exists st, parse_items true signed_char_items = POk st /\ map pd_size (ps_structs st) = [4]) /\
  (exists st, parse_closure true alias_struct_field_closure = POk st /\ map pd_size (ps_structs st) = [4; 12]).
Proof. split; eexists; split; vm_compute; reflexivity. Qed.

(* lengths and constants written with a true division: constants keep the float (H = 8.0, Q = 10.5, T = 24.0,
   N = -9.5), lengths are truncated integers (char[H] = 8, int16[Q] = 10, double[5 / 2] = 2, int8[T / 16] = 1);
   a length that truncates to 0 is rejected with RTMASyntaxError (1 / 2; M + 2 with M = -1.5) *)
Definition div_items : list item :=
  [IConst "W" (CLit 16); IConst "H" (CDiv (CRef "W") 2); IConst "Q" (CDiv (CAdd (CRef "W") (CLit 5)) 2);
   IConst "T" (CMul (CRef "H") (CLit 3)); IConst "N" (CSub (CLit 1) (CRef "Q"));
   IStruct "S" (BFields [mkFd "a" "char" (Some (CRef "H")); mkFd "b" "int16" (Some (CRef "Q"));
                         mkFd "c" "double" (Some (CDiv (CLit 5) 2)); mkFd "d" "int8" (Some (CDiv (CRef "T") 16))])].
Example C15_total_div_ex :
  (exists st, parse_items true div_items = POk st /\
     map snd (ps_consts st) = [VInt 16; VFlt (mkRat 8 1); VFlt (mkRat 21 2); VFlt (mkRat 24 1); VFlt (mkRat (-19) 2)] /\
     map (fun d => (pd_size d, map (fun p => (pf_name p, pf_len p)) (pd_fields d))) (ps_structs st) =
       [(56, [("a", Some 8); ("b", Some 10); ("padding_0_", Some 4); ("c", Some 2); ("d", Some 1); ("padding_1_", Some 7)])] /\
     (scoped [] (events_py st), scoped [] (events_c st), scoped [] (events_matlab st), js_import_ok st) = (true, true, true, true)) /\
  parse_items true [IStruct "S" (BFields [mkFd "a" "int8" (Some (CDiv (CLit 1) 2))])] = PReject RSyntax /\
  parse_items true [IConst "M" (CDiv (CLit (-3)) 2); IStruct "S" (BFields [mkFd "a" "int8" (Some (CAdd (CRef "M") (CLit 2)))])]
    = PReject RSyntax /\
  add_fields_length_min = 1.
Proof. split; [eexists; repeat split; vm_compute; reflexivity|]. repeat split; vm_compute; reflexivity. Qed.

(* ---------------------------------------------------------------- C15_scoped, per back end
   FULL: forall ap l st, parse_items ap l = POk st -> scoped [] (events_b st) = true. *)
Theorem C15_scoped_py_partial : forall ap l st, parse_items ap l = POk st ->
  no_alias_of_struct st = true -> no_msg_in_struct st = true -> scoped [] (events_py st) = true.
Proof. intros ap l st H. apply scoped_py. exact (parsed_inv _ _ _ H). Qed.

Theorem C15_scoped_c_partial : forall ap l st, parse_items ap l = POk st ->
  no_alias_of_struct st = true -> no_msg_in_struct st = true -> scoped [] (events_c st) = true.
Proof. intros ap l st H. apply scoped_c. exact (parsed_inv _ _ _ H). Qed.

(* MATLAB: the script reads RTMA.typedefs.RTMA_MSG_HEADER only when a typedef of that name is emitted (3dda184);
   no exclusion for closures without the core definitions any more *)
Theorem C15_scoped_matlab_partial : forall ap l st, parse_items ap l = POk st ->
  no_alias_of_struct st = true -> no_msg_in_struct st = true -> scoped [] (events_matlab st) = true.
Proof. intros ap l st H. apply scoped_matlab. exact (parsed_inv _ _ _ H). Qed.

(* JavaScript: the module imports, and every call inside a factory targets a function (type_map.<native>,
   RTMA.aliases.<alias of a native>, RTMA.SDF.<struct>, RTMA.MDF.<message>) *)
Theorem C15_scoped_js_partial : forall ap l st, parse_items ap l = POk st ->
  no_alias_of_struct st = true -> js_import_ok st = true /\ js_calls_ok st = true.
Proof.
  intros ap l st H Ha. split.
  - apply scoped_js_load. unfold no_alias_of_struct in Ha. apply andb_true_iff in Ha. tauto.
  - apply js_static_ok; auto; [exact (parsed_inv _ _ _ H)|]. apply parsed_js_natives. exact (proj1 (parsed_invw _ _ _ H)).
Qed.

(* the Python module defines one decorated class per message (what pyrtma.message_def registers) *)
Theorem C15_py_registers_every_message : forall st d, In d (ps_msgs st) -> In (Def NMsg (pd_name d)) (events_py st).
Proof.
  intros st d Hd. unfold events_py. apply in_or_app. right. apply in_or_app. right.
  apply in_flat_map. exists d. split; auto. unfold def_events_after. apply in_or_app. right. left. reflexivity.
Qed.

(* witnesses: the cross-file shapes the section order cannot serve *)
Definition alias_of_struct_closure : closure :=
  [mkFile [1]%nat [IAlias "B" "S0"; IStruct "S1" (BFields [mkFd "a" "int32" None])];
   mkFile [] [IStruct "S0" (BFields [mkFd "q" "uint16" (Some (CLit 2))])]].
Definition struct_of_msg_closure : closure :=
  [mkFile [1]%nat [IStruct "S1" (BFields [mkFd "a" "M0" None])];
   mkFile [] [IMsg "M0" 10 (Some (BFields [mkFd "q" "uint16" (Some (CLit 2))]))]].
Definition struct_reuses_msg_closure : closure :=
  [mkFile [1]%nat [IStruct "S1" (BReuse "M1")];
   mkFile [] [IMsg "M0" 10 (Some (BFields [mkFd "q" "uint16" None]));
              IMsg "M1" 11 (Some (BFields [mkFd "m" "M0" None]))]].
Definition alias_field_items : list item :=
  [IAlias "A32" "int32"; IStruct "S1" (BFields [mkFd "a" "A32" None])].
Definition no_header_items : list item := [IStruct "S1" (BFields [mkFd "a" "int32" None])].

Definition loads4 (st : pstate) : bool * bool * bool * bool :=
  (scoped [] (events_py st), scoped [] (events_c st), scoped [] (events_matlab st), js_import_ok st).

Theorem C15_scoped_refuted_alias_of_struct : exists st,
  parse_closure true alias_of_struct_closure = POk st /\ loads4 st = (false, false, false, false).
Proof. eexists. split; vm_compute; reflexivity. Qed.

Theorem C15_scoped_refuted_struct_of_msg : exists st st',
  parse_closure true struct_of_msg_closure = POk st /\ scoped [] (events_py st) = false /\ scoped [] (events_c st) = false /\
  parse_closure true struct_reuses_msg_closure = POk st' /\ scoped [] (events_py st') = false /\ scoped [] (events_c st') = false.
Proof. eexists. eexists. repeat split; vm_compute; reflexivity. Qed.

(* an alias of a native type used as a field type: the factory now calls a function *)
Example C15_js_alias_field_ok : exists st,
  parse_items true alias_field_items = POk st /\ js_import_ok st = true /\ js_calls_ok st = true /\
  js_factory st (JSdf "S1") = (true, true).
Proof. eexists. repeat split; vm_compute; reflexivity. Qed.

(* without the core definitions and without a user typedef RTMA_MSG_HEADER the script has no MESSAGE_HEADER line and
   loads; with a struct (or an alias) of that name the line is there and reads something already assigned *)
Definition header_alias_items : list item := [IAlias "RTMA_MSG_HEADER" "int32"; IStruct "S1" (BFields [mkFd "a" "int32" None])].
Example C15_matlab_header_only_when_defined :
  (exists st, parse_items true no_header_items = POk st /\ has_msg_header st = false /\
              matlab_header_events st = [] /\ scoped [] (events_matlab st) = true) /\
  (exists st, parse_items true (no_header_items ++ [IStruct "RTMA_MSG_HEADER" (BFields [mkFd "msg_type" "int32" None])]) = POk st /\
              matlab_header_events st = [Use NStruct "RTMA_MSG_HEADER"] /\ scoped [] (events_matlab st) = true) /\
  (exists st, parse_items true header_alias_items = POk st /\
              matlab_header_events st = [Use NAlias "RTMA_MSG_HEADER"] /\ scoped [] (events_matlab st) = true).
Proof. repeat split; eexists; repeat split; vm_compute; reflexivity. Qed.

(* ---------------------------------------------------------------- C15_js_fresh
   for EVERY parsed state and every successful factory call: no object is reachable twice in the result
   (array elements are pairwise distinct objects), and two calls never share an object. *)
Theorem C15_js_fresh : forall st fuel c cnt v cnt', js_call st fuel c cnt = JOk (v, cnt') -> js_fresh v = true.
Proof. exact js_fresh_always. Qed.

Theorem C15_js_calls_disjoint : forall st f1 f2 c1 c2 v1 v2 n1 n2,
  js_call st f1 c1 0 = JOk (v1, n1) -> js_call st f2 c2 n1 = JOk (v2, n2) ->
  forall id, In id (obj_ids v1) -> ~ In id (obj_ids v2).
Proof. exact js_calls_disjoint. Qed.

Definition struct_array_items : list item :=
  [IStruct "S0" (BFields [mkFd "q" "uint16" None]); IStruct "S1" (BFields [mkFd "a" "S0" (Some (CLit 3))])].
Example C15_js_fresh_ex : exists st v n,
  parse_items true struct_array_items = POk st /\ js_call st (js_fuel st) (JSdf "S1") 0 = JOk (v, n) /\
  List.length (obj_ids v) = 5%nat /\ js_fresh v = true.
Proof. eexists. eexists. eexists. split; [vm_compute; reflexivity|]. split; [vm_compute; reflexivity|]. split; reflexivity. Qed.

(* ---------------------------------------------------------------- non-vacuity: a closure with every construct the
   exclusions leave (constants, expressions, aliases of natives and of aliases used as field types, `signed char`,
   nested structs and messages, arrays of natives and of structs, signals, reuse, reserved ids, two files, auto padding, a user RTMA_MSG_HEADER) loads everywhere *)
Definition ex_closure : closure :=
  [mkFile [1]%nat
     [IConst "N" (CLit 3); IConst "M" (CAdd (CMul (CRef "N") (CLit 2)) (CRef "K"));
      IAlias "A16" "int16"; IAlias "AA" "A16"; IHid "H1" 11; IMid "D1" 21;
      IStruct "S1" (BFields [mkFd "a" "char" (Some (CRef "N")); mkFd "b" "int32" None; mkFd "c" "uint8" None;
                             mkFd "d" "AA" None; mkFd "e" "S0" (Some (CLit 2)); mkFd "f" "signed char" None]);
      IStruct "RTMA_MSG_HEADER" (BFields [mkFd "msg_type" "int32" None; mkFd "n" "int32" None]);
      IMsg "M1" 1000 (Some (BFields [mkFd "s" "S1" None; mkFd "t" "float" (Some (CRef "M")); mkFd "u" "double" None]));
      IMsg "M0" 900 (Some (BFields [mkFd "m" "M1" None; mkFd "h" "RTMA_MSG_HEADER" None]));
      IMsg "SIG" 1002 None; IMsg "RU" 1003 (Some (BReuse "M1")); IReserved [2000; 2001]];
   mkFile [0]%nat [IConst "K" (CLit 1); IStr "greet" "hello";
                   IStruct "S0" (BFields [mkFd "q" "unsigned short" (Some (CLit 2)); mkFd "r" "long" None])]].

Example C15_ex_loads_everywhere : exists l st,
  closure_items ex_closure = Some l /\ parse_closure true ex_closure = POk st /\
  no_alias_of_struct st = true /\ no_msg_in_struct st = true /\ has_msg_header st = true /\
  loads4 st = (true, true, true, true) /\ js_calls_ok st = true /\
  forallb (fun d => let '(ok, fr) := js_factory st (JSdf (pd_name d)) in ok && fr) (ps_structs st) = true /\
  forallb (fun d => let '(ok, fr) := js_factory st (JMdf (pd_name d)) in ok && fr) (ps_msgs st) = true.
Proof. eexists. eexists. split; [vm_compute; reflexivity|]. split; [vm_compute; reflexivity|]. vm_compute. repeat split; reflexivity. Qed.
