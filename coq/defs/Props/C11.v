(* C11 - Accepted layouts are naturally aligned with only explicit padding.
   Property theorems only; proofs live in Proofs/LayoutProofs.v.
   Model: Model/Layout.v (check_alignment / validate_msg_def of parser.py).
   Tables: Gen/TypeTables.v (regenerated from /repo on every run). *)
From Coq Require Import ZArith List Bool String Lia.
From Defs Require Import Gen.TypeTables Model.Layout Proofs.LayoutProofs.
Import ListNotations.
Open Scope Z_scope.

(* every native type of the parser's table has size (= alignment) 1, 2, 4 or 8 *)
Definition native_ok (e : string * (Z * Z)) : bool :=
  let s := fst (snd e) in (s =? 1) || (s =? 2) || (s =? 4) || (s =? 8).
Theorem C11_natives_wf : forallb native_ok parser_types = true.
Proof. vm_compute. reflexivity. Qed.

(* accepted => every field at a multiple of its alignment, recorded offsets are the
   running sums, struct alignment = strictest member alignment and divides the size,
   and the C / ctypes natural layout of the emitted field list coincides with the
   explicit one (no hidden padding, same sizeof). *)
Theorem C11_aligned : forall ap fs fs' a,
  fs <> [] -> Forall wf_field fs -> check_alignment ap fs = Ok (fs', a) -> good_layout fs' a.
Proof. intros ap fs fs' a H1 H2 H3. exact (proj1 (check_alignment_spec ap fs fs' a H1 H2 H3)). Qed.

(* auto padding only inserts char fields; user fields keep identity, order, type, length *)
Theorem C11_autopad_only_adds_char_padding : forall ap fs fs' a,
  fs <> [] -> Forall wf_field fs -> Forall user_field fs -> check_alignment ap fs = Ok (fs', a) ->
  map strip (filter (fun f => negb (is_pad f)) fs') = map strip fs /\ Forall char_pad fs'.
Proof. intros ap fs fs' a H1 H2 H3 H4. exact (proj2 (proj2 (check_alignment_spec ap fs fs' a H1 H2 H4)) H3). Qed.

(* auto padding off: accepted exactly when the natural layout needs no padding, and then unchanged *)
Theorem C11_nopad_iff : forall fs, fs <> [] -> Forall wf_field fs ->
  ((exists fs' a, check_alignment false fs = Ok (fs', a)) <-> no_hidden_padding fs).
Proof.
  intros fs H1 H2. split.
  - intros (fs' & a & H). exact (accepted_nopad_needs_none fs fs' a H1 H2 H).
  - intros H. destruct (nopad_accepts fs H1 H2 H) as (fs' & E & _). exists fs', (max_align fs). exact E.
Qed.

Theorem C11_nopad_unchanged : forall fs fs' a, fs <> [] -> Forall wf_field fs ->
  check_alignment false fs = Ok (fs', a) -> map strip fs' = map strip fs.
Proof. intros fs fs' a H1 H2 H3. exact (proj1 (proj2 (check_alignment_spec false fs fs' a H1 H2 H3)) eq_refl). Qed.

(* auto padding on: every well-formed field list is accepted (no internal error) *)
Theorem C11_autopad_total : forall fs, fs <> [] -> Forall wf_field fs ->
  exists r, check_alignment true fs = Ok r.
Proof.
  intros fs H1 H2. destruct (check_alignment_total true fs H1 H2) as [H|[H _]]; [exact H|discriminate].
Qed.

(* the only rejection with auto padding off is AlignmentError *)
Theorem C11_only_alignment_error : forall ap fs e, fs <> [] -> Forall wf_field fs ->
  check_alignment ap fs = Raise e -> ap = false /\ e = EAlignment.
Proof.
  intros ap fs e H1 H2 H3. destruct (check_alignment_total ap fs H1 H2) as [[r H]|[Ha H]].
  - rewrite H in H3. discriminate.
  - rewrite H in H3. inversion H3. split; [exact Ha|reflexivity].
Qed.

(* size limit (the generated constant) *)
Theorem C11_size : forall ap fs fs' a,
  validate max_msg_size true ap fs = Ok (fs', a) -> total_size fs' <= max_msg_size.
Proof.
  intros ap fs fs' a H. unfold validate in H. destruct fs as [|f r]; [discriminate|].
  destruct (check_alignment ap (f :: r)) as [[g b]|e]; [|discriminate].
  destruct (max_msg_size <? total_size g) eqn:E; [discriminate|].
  inversion H; subst. apply Z.ltb_ge in E. exact E.
Qed.

Theorem C11_size_rejects : forall ap fs fs' a,
  check_alignment ap fs = Ok (fs', a) -> fs <> [] -> max_msg_size < total_size fs' ->
  validate max_msg_size true ap fs = Raise EMessageSize.
Proof.
  intros ap fs fs' a H Hne Hgt. unfold validate. destruct fs as [|f r]; [congruence|].
  rewrite H. apply Z.ltb_lt in Hgt. rewrite Hgt. reflexivity.
Qed.

(* an accepted struct is a well-formed element type for an enclosing struct:
   the theorems above therefore hold at every nesting depth *)
Theorem C11_nested_closed : forall ap fs fs' a id len off,
  fs <> [] -> Forall wf_field fs -> check_alignment ap fs = Ok (fs', a) ->
  match len with Some n => 1 <= n | None => True end ->
  wf_field (mkField id (total_size fs') a len off).
Proof. exact accepted_is_wf_type. Qed.

(* non-vacuity: a field list that needs inline and trailing padding, and one that needs none *)
Example C11_ex_padded :
  let fs := [mkField 0 1 1 (Some 3) (-1); mkField 1 4 4 None (-1); mkField 2 8 8 None (-1); mkField 3 2 2 None (-1)] in
  Forall wf_field fs /\
  exists fs', check_alignment true fs = Ok (fs', 8) /\ total_size fs' = 24 /\ List.length fs' = 6%nat.
Proof.
  split.
  - repeat (apply Forall_cons || apply Forall_nil); unfold wf_field, pow2_8; simpl;
      (split; [lia|split; [lia|split; [apply Z.divide_refl|try lia; exact I]]]).
  - eexists. split; [vm_compute; reflexivity|split; reflexivity].
Qed.

Example C11_ex_nopad :
  let fs := [mkField 0 8 8 None (-1); mkField 1 4 4 (Some 2) (-1)] in
  no_hidden_padding fs /\ exists fs', check_alignment false fs = Ok (fs', 8).
Proof. split; [split; vm_compute; reflexivity|eexists; vm_compute; reflexivity]. Qed.

Example C11_ex_rejected :
  check_alignment false [mkField 0 1 1 None (-1); mkField 1 4 4 None (-1)] = Raise EAlignment.
Proof. vm_compute. reflexivity. Qed.
