(* C12 - Id and name conflicts are always detected, never invented, across the whole
   import closure.  Property theorems only; proofs live in Proofs/Registry*.v.
   Model: Model/Registry.v (Parser.parse / parse_file / parse_text / handle_* of parser.py).
   Guards, namespaces, section order: Gen/Guards.v (regenerated from /repo on every run).

   Vocabulary.  G : list file is the closure (file identity = index).  [trace G roots] is the
   list of handler calls in the order Parser.parse makes them.  [events_of G R] are the handler
   calls of the files R.  [enumerates G roots R]: R lists, without repetition, exactly the files
   reachable from the roots through imports.  [conflict_free E]: no name declared twice in the
   namespace shared by constants / string constants / aliases / structs / messages, no message id
   declared twice (messages, signals and every expanded reserved id), no host name or value and
   no module name or value declared twice.  [in_range icd e]: the id of e passes its range guard
   (host and module guards apply when import_coredefs is on and the file is not the package's own
   core_defs.yaml, [f_core] - Parser.is_core_file compares resolved paths, so a user file that
   merely has that name is checked like any other). *)
From Coq Require Import ZArith List Bool String Lia Permutation.
From Defs Require Import Gen.TypeTables Gen.Guards Model.Registry
  Proofs.RegistryProofs Proofs.RegistryGraph Proofs.RegistryTop.
Import ListNotations.
Open Scope string_scope. Open Scope list_scope. Open Scope Z_scope.

(* the hand-written skeleton of the model agrees with what the translator read in parser.py *)
Theorem C12_ties_to_code :
  let sh := ["constants"; "string_constants"; "aliases"; "struct_defs"; "message_defs"] in
  ns_handle_expression = sh /\ ns_handle_string = sh /\ ns_handle_alias = sh /\ ns_handle_struct = sh /\
  ns_handle_message_def = sh /\ ns_handle_host_id = ["host_ids"] /\ ns_handle_module_id = ["module_ids"] /\
  section_order = ["metadata"; "imports"; "constants"; "string_constants"; "aliases"; "host_ids";
                   "module_ids"; "struct_defs"; "message_defs"] /\
  core_file_name = "core_defs.yaml".
Proof. repeat split; reflexivity. Qed.

(* the visited list cuts every cycle: fuel = number of files + 1 is never exhausted *)
Theorem C12_fuel_sufficient : forall G icd roots, parse G icd roots <> RErr KFuel.
Proof. exact parse_no_fuel. Qed.

Theorem C12_parse_is_run_of_trace : forall G icd roots, parse G icd roots = run icd st0 (trace G roots).
Proof. exact parse_is_run. Qed.

(* any finite import graph: every reachable file is entered exactly once, nothing else is *)
Theorem C12_trace_visits_reachable_once : forall G roots,
  NoDup (files_of (trace G roots)) /\
  (forall j, In j (files_of (trace G roots)) <-> reach G roots j) /\
  Permutation (trace G roots) (events_of G (files_of (trace G roots))).
Proof. exact trace_spec. Qed.

(* DETECTED, with the error of the FIRST conflict in traversal order *)
Theorem C12_first_conflict : forall G icd roots pre e post s1 k,
  trace G roots = pre ++ e :: post -> run icd st0 pre = ROk s1 -> conflict icd pre e k ->
  parse G icd roots = RErr k.
Proof. exact parse_first_conflict. Qed.

(* DETECTED: accepted closures have no conflict and every id in range *)
Theorem C12_complete : forall G icd roots R s, enumerates G roots R -> parse G icd roots = ROk s ->
  conflict_free (events_of G R) /\ Forall (fun e => in_range icd e = true) (events_of G R).
Proof. intros G icd roots R s. exact (parse_ok_clean G icd roots s R). Qed.

Lemma rejects G icd roots : (forall s, parse G icd roots <> ROk s) ->
  exists k, parse G icd roots = RErr k /\ k <> KFuel.
Proof.
  intros H. destruct (parse G icd roots) as [s|k] eqn:E; [exfalso; exact (H s eq_refl)|].
  exists k. split; [reflexivity|]. intros ->. exact (parse_no_fuel G icd roots E).
Qed.

(* two declarations of one message id anywhere in the reachable files (message, signal, or an id
   produced by a reserved entry written n, a-b or a to b) => rejected *)
Theorem C12_complete_msg_id : forall G icd roots R a e1 b e2 c id, enumerates G roots R ->
  events_of G R = a ++ e1 :: b ++ e2 :: c -> In id (msgid_decl e1) -> In id (msgid_decl e2) ->
  exists k, parse G icd roots = RErr k /\ k <> KFuel.
Proof.
  intros G icd roots R a e1 b e2 c id E T H1 H2. apply rejects. intros s Hs.
  destruct (parse_ok_clean G icd roots s R E Hs) as [[_ C _ _ _ _] _].
  rewrite T in C. replace (a ++ e1 :: b ++ e2 :: c) with ((a ++ e1 :: b) ++ e2 :: c) in C
    by (rewrite <- List.app_assoc; reflexivity).
  refine (dup_flat msgid_decl _ e2 c id _ H2 C). unfold msg_ids. rewrite flat_map_app. simpl.
  apply in_or_app. right. apply in_or_app. left. exact H1.
Qed.

(* two declarations of one name in the shared namespace (any two of the five kinds) => rejected *)
Theorem C12_complete_name : forall G icd roots R a e1 b e2 c n, enumerates G roots R ->
  events_of G R = a ++ e1 :: b ++ e2 :: c -> In n (shared_decl e1) -> In n (shared_decl e2) ->
  exists k, parse G icd roots = RErr k /\ k <> KFuel.
Proof.
  intros G icd roots R a e1 b e2 c n E T H1 H2. apply rejects. intros s Hs.
  destruct (parse_ok_clean G icd roots s R E Hs) as [[C _ _ _ _ _] _].
  rewrite T in C. replace (a ++ e1 :: b ++ e2 :: c) with ((a ++ e1 :: b) ++ e2 :: c) in C
    by (rewrite <- List.app_assoc; reflexivity).
  refine (dup_flat shared_decl _ e2 c n _ H2 C). rewrite flat_map_app. simpl.
  apply in_or_app. right. apply in_or_app. left. exact H1.
Qed.

(* two hosts (two modules) with one id => rejected *)
Theorem C12_complete_host_module_id : forall G icd roots R a b c c1 n1 c2 n2 v, enumerates G roots R ->
  (events_of G R = a ++ EHost c1 n1 v :: b ++ EHost c2 n2 v :: c \/
   events_of G R = a ++ EMod c1 n1 v :: b ++ EMod c2 n2 v :: c) ->
  exists k, parse G icd roots = RErr k /\ k <> KFuel.
Proof.
  intros G icd roots R a b c c1 n1 c2 n2 v E T. apply rejects. intros s Hs.
  destruct (parse_ok_clean G icd roots s R E Hs) as [[_ _ _ C4 _ C6] _].
  unfold host_vals in C4. unfold mod_vals in C6. rewrite map_flat_map in C4. rewrite map_flat_map in C6.
  destruct T as [T|T]; rewrite T in *.
  - replace (a ++ EHost c1 n1 v :: b ++ EHost c2 n2 v :: c) with ((a ++ EHost c1 n1 v :: b) ++ EHost c2 n2 v :: c) in C4
      by (rewrite <- List.app_assoc; reflexivity).
    refine (dup_flat _ _ (EHost c2 n2 v) c v _ _ C4); [|left; reflexivity]. rewrite flat_map_app. simpl.
    apply in_or_app. right. left. reflexivity.
  - replace (a ++ EMod c1 n1 v :: b ++ EMod c2 n2 v :: c) with ((a ++ EMod c1 n1 v :: b) ++ EMod c2 n2 v :: c) in C6
      by (rewrite <- List.app_assoc; reflexivity).
    refine (dup_flat _ _ (EMod c2 n2 v) c v _ _ C6); [|left; reflexivity]. rewrite flat_map_app. simpl.
    apply in_or_app. right. left. reflexivity.
Qed.

(* an id outside its permitted range => rejected *)
Theorem C12_complete_range : forall G icd roots R e, enumerates G roots R ->
  In e (events_of G R) -> in_range icd e = false -> exists k, parse G icd roots = RErr k /\ k <> KFuel.
Proof.
  intros G icd roots R e E I F. apply rejects. intros s Hs.
  destruct (parse_ok_clean G icd roots s R E Hs) as [_ A]. rewrite Forall_forall in A.
  rewrite (A e I) in F. discriminate.
Qed.
(* ... where the guards are the regenerated ones; for any file other than the package's core file, core defs imported: *)
Theorem C12_range_guards : forall n v id,
  (in_range true (EHost false n v) = false <-> (v < 1 \/ 32767 < v)) /\
  (in_range true (EMod false n v) = false <-> ((v < 10 \/ (99 < v /\ v < 200)) /\ v <> 0)) /\
  (in_range true (EMsg n id) = false <-> (id < 0 \/ max_message_types < id)) /\
  (in_range true (ESigR id) = false <-> (id < 0 \/ max_message_types < id)).
Proof.
  intros n v id. unfold in_range, host_id_out_of_range, host_id_range_enforced, module_id_out_of_range,
    module_id_range_enforced, msg_id_out_of_range. simpl negb.
  rewrite !negb_false_iff, !andb_true_iff, !orb_true_iff, !andb_true_iff, !negb_true_iff,
    !Z.ltb_lt, !Z.eqb_neq. repeat split; try tauto; intros; intuition.
Qed.

(* NEVER INVENTED: an error of a conflict kind is raised only when the reachable files really contain
   a conflict *)
Theorem C12_no_false_conflict : forall G icd roots k R, enumerates G roots R ->
  parse G icd roots = RErr k -> conflict_kind k = true ->
  ~ (conflict_free (events_of G R) /\ Forall (fun e => in_range icd e = true) (events_of G R)).
Proof. intros G icd roots k R. exact (parse_no_false_conflict G icd roots k R). Qed.

(* NEVER INVENTED, and the registered set: conflict-free, in range and otherwise well formed (names valid
   in the parser's own sense) => accepted, and every registry holds exactly the items of the distinct
   reachable files, each once (a file reached by several import paths, or through a cycle, contributes once) *)
Theorem C12_sound : forall G icd roots R, enumerates G roots R ->
  let E := events_of G R in
  conflict_free E -> Forall (fun e => in_range icd e = true) E -> Forall (fun e => ev_wf e = true) E ->
  exists s, parse G icd roots = ROk s /\
    Permutation (inc s) R /\
    Permutation (consts s) (flat_map d_consts E) /\ Permutation (strs s) (flat_map d_strs E) /\
    Permutation (aliases s) (flat_map d_aliases E) /\ Permutation (hosts s) (flat_map d_hosts E) /\
    Permutation (mods s) (flat_map d_mods E) /\ Permutation (structs s) (flat_map d_structs E) /\
    Permutation (msgs s) (flat_map d_msgs E).
Proof.
  intros G icd roots R En E C F W.
  destruct (parse_sound G icd roots R En C F W) as (s & Hs & [R1 R2 R3 _ R5 R6 R7 R8] & A).
  pose proof (enum_perm G roots R En) as P.
  exists s. split; [exact Hs|]. rewrite R1, R2, R3, A, R5, R6, R7, R8.
  split; [exact (enum_files G roots R En)|].
  repeat split; apply Permutation_flat_map; exact P.
Qed.
(* [ev_wf] is exactly what check_name accepts: the validity test of every handler succeeds iff the name
   starts with a letter, the `_RESERVED_` directive of message_defs apart *)
Theorem C12_wf_is_check_name : forall n, name_ok n = starts_with_letter n /\
  (name_ok_msg n = true <-> (n = reserved_key \/ starts_with_letter n = true)).
Proof.
  intros n. split; [reflexivity|]. unfold name_ok_msg. rewrite orb_true_iff, String.eqb_eq. tauto.
Qed.

(* `_RESERVED_` is a directive of message_defs only: as the name of a constant (string constant, alias,
   struct, host, module) it is an invalid name, whatever the reading order *)
Example C12_ex_reserved_is_not_a_name :
  let blk := MReserved [RInt 5; RRange 7 9] in
  parse [mkFile false [] [("_RESERVED_", 1)] [] [] [] [] [] [blk]] false [0%nat] = RErr KName /\
  parse [mkFile false [1%nat] [("_RESERVED_", 1)] [] [] [] [] [] []; mkFile false [] [] [] [] [] [] [] [blk]]
        false [0%nat] = RErr KName /\
  parse [mkFile false [] [] [] [] [("_RESERVED_", 3)] [] [] []] false [0%nat] = RErr KName /\
  exists s, parse [mkFile false [1%nat] [] [] [] [] [] [] [blk]; mkFile false [] [] [] [] [] [] [] [MReserved [RInt 6]]]
                  false [0%nat] = ROk s /\ map snd (msgs s) = [6; 5; 7; 8; 9].
Proof. split; [|split; [|split]]; try (vm_compute; reflexivity). eexists. split; vm_compute; reflexivity. Qed.

(* the range exemption belongs to the package's core file alone: the same ids in a user file (whatever
   its name) are rejected when the core definitions are imported *)
Example C12_ex_core_file_identity :
  let ids := mkFile false [] [] [] [] [("HX", -4)] [("MX", 7)] [] [] in
  parse [mkFile false [1%nat] [] [] [] [] [] [] []; ids] true [0%nat] = RErr KHostRange /\
  parse [mkFile false [1%nat] [] [] [] [] [] [] []; mkFile false [] [] [] [] [] [("MX", 7)] [] []] true [0%nat]
    = RErr KModRange /\
  exists s, parse [mkFile false [1%nat] [] [] [] [] [] [] []; mkFile true [] [] [] [] [("HX", -4)] [("MX", 7)] [] []]
                  true [0%nat] = ROk s.
Proof. split; [|split]; try (vm_compute; reflexivity). eexists. vm_compute. reflexivity. Qed.

(* python keeps the registries in dicts keyed by name; the model appends to lists.  Generated
   placeholder names are distinct for distinct ids, so no dict entry is overwritten *)
Theorem C12_reserved_name_inj : forall a b, 0 <= a -> 0 <= b -> reserved_name a = reserved_name b -> a = b.
Proof. exact reserved_name_inj. Qed.

(* ---- non-vacuity -------------------------------------------------------------------------- *)

(* diamond 0 -> 1, 0 -> 2, 1 -> 3, 2 -> 3 (file 3 imported twice by file 0 as well): file 3 read once *)
Definition ex_leaf : file := mkFile false [] [("K", 4)] ["S"] [("A", "int32")] [("H", 3)] [("M", 20)] ["T"]
                                 [MDef "X" 5 false; MDef "Y" 6 true; MReserved [RInt 9; RRange 20 22]].
Definition ex_diamond : list file :=
  [mkFile false [1; 2; 3; 3]%nat [] [] [] [] [] [] [MDef "ROOT" 1 true];
   mkFile false [3]%nat [("K1", 1)] [] [] [] [] [] [];
   mkFile false [3]%nat [("K2", 2)] [] [] [] [] [] [];
   ex_leaf].
Example C12_ex_diamond_once :
  enumerates ex_diamond [0%nat] [0; 1; 3; 2]%nat /\
  conflict_free (events_of ex_diamond [0; 1; 3; 2]%nat) /\
  Forall (fun e => ev_wf e = true) (events_of ex_diamond [0; 1; 3; 2]%nat) /\
  exists s, parse ex_diamond true [0%nat] = ROk s /\ inc s = [0; 1; 3; 2]%nat /\
            map snd (msgs s) = [5; 6; 9; 20; 21; 22; 1].
Proof.
  split.
  - pose proof (trace_enumerates ex_diamond [0%nat]) as T.
    replace (files_of (trace ex_diamond [0%nat])) with [0; 1; 3; 2]%nat in T by (vm_compute; reflexivity). exact T.
  - split; [apply cf_b_sound; vm_compute; reflexivity|].
    split; [apply forallb_Forall; vm_compute; reflexivity|].
    eexists. split; [vm_compute; reflexivity|]. split; vm_compute; reflexivity.
Qed.

(* cycle 0 -> 1 -> 0, and a self import: accepted, each file once *)
Example C12_ex_cycle :
  let G := [mkFile false [1; 0]%nat [] [] [] [] [] [] [MDef "A" 1 true];
            mkFile false [0; 1]%nat [] [] [] [] [] [] [MDef "B" 2 true]] in
  exists s, parse G false [0%nat] = ROk s /\ inc s = [0; 1]%nat /\ msgs s = [("B", 2); ("A", 1)].
Proof. eexists. repeat split; vm_compute; reflexivity. Qed.

(* a reserved range in one file overlapping a message of a sibling file: MessageIDError, and the
   first conflict decides (the invalid host id later in the traversal is not what is reported) *)
Example C12_ex_reserved_overlap :
  let G := [mkFile false [1; 2]%nat [] [] [] [("H", 0)] [] [] [];
            mkFile false [] [] [] [] [] [] [] [MReserved [RRange 10 12]];
            mkFile false [] [] [] [] [] [] [] [MDef "M" 11 false]] in
  parse G true [0%nat] = RErr KMsgDup /\
  exists pre post s1, trace G [0%nat] = pre ++ EMsg "M" 11 :: post /\ run true st0 pre = ROk s1 /\
                      conflict true pre (EMsg "M" 11) KMsgDup.
Proof.
  split; [vm_compute; reflexivity|].
  exists [EFile 0 true; EFile 1 true; EResHead [RRange 10 12]; ESigR 10; ESigR 11; ESigR 12; EFile 2 true],
         [EHost false "H" 0].
  eexists. split; [vm_compute; reflexivity|]. split; [vm_compute; reflexivity|].
  apply cx_msg_dup; try (vm_compute; reflexivity); try (vm_compute; intuition discriminate).
Qed.
