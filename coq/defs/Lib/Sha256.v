(* SHA-256 (FIPS 180-4) over byte lists, executable (vm_compute); 32-bit words as N.
   Checked below against the FIPS / NIST example vectors, and against hashlib on every
   check run (vlib/props/C13.py). *)
From Coq Require Import NArith List String Ascii.
Import ListNotations.
Open Scope N_scope.

Definition w32 : N := 4294967296.
Definition add32 (a b : N) : N := (a + b) mod w32.
Definition rotr (n x : N) : N := N.lor (N.shiftr x n) ((N.shiftl x (32 - n)) mod w32).
Definition shr (n x : N) : N := N.shiftr x n.
Definition not32 (x : N) : N := N.lxor x 4294967295.
Definition ch (x y z : N) : N := N.lxor (N.land x y) (N.land (not32 x) z).
Definition maj (x y z : N) : N := N.lxor (N.lxor (N.land x y) (N.land x z)) (N.land y z).
Definition bsig0 x := N.lxor (N.lxor (rotr 2 x) (rotr 13 x)) (rotr 22 x).
Definition bsig1 x := N.lxor (N.lxor (rotr 6 x) (rotr 11 x)) (rotr 25 x).
Definition ssig0 x := N.lxor (N.lxor (rotr 7 x) (rotr 18 x)) (shr 3 x).
Definition ssig1 x := N.lxor (N.lxor (rotr 17 x) (rotr 19 x)) (shr 10 x).

Definition K : list N := [
  0x428a2f98; 0x71374491; 0xb5c0fbcf; 0xe9b5dba5; 0x3956c25b; 0x59f111f1; 0x923f82a4; 0xab1c5ed5;
  0xd807aa98; 0x12835b01; 0x243185be; 0x550c7dc3; 0x72be5d74; 0x80deb1fe; 0x9bdc06a7; 0xc19bf174;
  0xe49b69c1; 0xefbe4786; 0x0fc19dc6; 0x240ca1cc; 0x2de92c6f; 0x4a7484aa; 0x5cb0a9dc; 0x76f988da;
  0x983e5152; 0xa831c66d; 0xb00327c8; 0xbf597fc7; 0xc6e00bf3; 0xd5a79147; 0x06ca6351; 0x14292967;
  0x27b70a85; 0x2e1b2138; 0x4d2c6dfc; 0x53380d13; 0x650a7354; 0x766a0abb; 0x81c2c92e; 0x92722c85;
  0xa2bfe8a1; 0xa81a664b; 0xc24b8b70; 0xc76c51a3; 0xd192e819; 0xd6990624; 0xf40e3585; 0x106aa070;
  0x19a4c116; 0x1e376c08; 0x2748774c; 0x34b0bcb5; 0x391c0cb3; 0x4ed8aa4a; 0x5b9cca4f; 0x682e6ff3;
  0x748f82ee; 0x78a5636f; 0x84c87814; 0x8cc70208; 0x90befffa; 0xa4506ceb; 0xbef9a3f7; 0xc67178f2].

(* the eight working variables / the hash value *)
Record h8 := mkH { ha : N; hb : N; hc : N; hd : N; he : N; hf : N; hg : N; hh : N }.
Definition H0 : h8 := mkH 0x6a09e667 0xbb67ae85 0x3c6ef372 0xa54ff53a 0x510e527f 0x9b05688c 0x1f83d9ab 0x5be0cd19.

(* padding: 0x80, zeros up to 56 mod 64, 64-bit big-endian bit length *)
Definition be_bytes (nbytes : nat) (x : N) : list N :=
  map (fun k => (N.shiftr x (8 * N.of_nat k)) mod 256) (rev (seq 0 nbytes)).
Definition pad (msg : list N) : list N :=
  let l := N.of_nat (List.length msg) in
  let z := N.to_nat ((119 - (l mod 64)) mod 64) in     (* (55 - l) mod 64 *)
  msg ++ [128] ++ repeat 0 z ++ be_bytes 8 (8 * l).

Fixpoint words (fuel : nat) (bs : list N) : list N :=
  match fuel, bs with
  | S k, b0 :: b1 :: b2 :: b3 :: r => (((b0 * 256 + b1) * 256 + b2) * 256 + b3) :: words k r
  | _, _ => []
  end.

(* message schedule with a 16-word window, newest first *)
Fixpoint sched (n : nat) (win acc : list N) : list N :=
  match n with
  | O => rev acc
  | S k => let w := add32 (add32 (ssig1 (nth 1 win 0)) (nth 6 win 0)) (add32 (ssig0 (nth 14 win 0)) (nth 15 win 0)) in
           sched k (w :: firstn 15 win) (w :: acc)
  end.

Definition round (s : h8) (kw : N * N) : h8 :=
  let '(k, w) := kw in
  let t1 := add32 (add32 (add32 (hh s) (bsig1 (he s))) (add32 (ch (he s) (hf s) (hg s)) k)) w in
  let t2 := add32 (bsig0 (ha s)) (maj (ha s) (hb s) (hc s)) in
  mkH (add32 t1 t2) (ha s) (hb s) (hc s) (add32 (hd s) t1) (he s) (hf s) (hg s).

Definition compress (h : h8) (block : list N) : h8 :=
  let w := block ++ sched 48 (rev block) [] in
  let s := fold_left round (combine K w) h in
  mkH (add32 (ha h) (ha s)) (add32 (hb h) (hb s)) (add32 (hc h) (hc s)) (add32 (hd h) (hd s))
      (add32 (he h) (he s)) (add32 (hf h) (hf s)) (add32 (hg h) (hg s)) (add32 (hh h) (hh s)).

Fixpoint blocks (fuel : nat) (h : h8) (ws : list N) : h8 :=
  match fuel, ws with
  | S k, _ :: _ => blocks k (compress h (firstn 16 ws)) (skipn 16 ws)
  | _, _ => h
  end.

Definition sha256 (msg : list N) : h8 :=
  let p := pad msg in
  let ws := words (List.length p) p in
  blocks (List.length ws) H0 ws.

Definition h8_words (h : h8) : list N := [ha h; hb h; hc h; hd h; he h; hf h; hg h; hh h].

(* lower-case hexadecimal *)
Definition hexchar (n : N) : ascii :=
  match n with
  | 0 => "0" | 1 => "1" | 2 => "2" | 3 => "3" | 4 => "4" | 5 => "5" | 6 => "6" | 7 => "7"
  | 8 => "8" | 9 => "9" | 10 => "a" | 11 => "b" | 12 => "c" | 13 => "d" | 14 => "e" | _ => "f"
  end%char.
(* eight nibbles, most significant first *)
Definition hex8 (w : N) : string :=
  let q1 := w / 16 in let q2 := q1 / 16 in let q3 := q2 / 16 in let q4 := q3 / 16 in
  let q5 := q4 / 16 in let q6 := q5 / 16 in let q7 := q6 / 16 in
  String (hexchar (q7 mod 16)) (String (hexchar (q6 mod 16)) (String (hexchar (q5 mod 16)) (String (hexchar (q4 mod 16))
  (String (hexchar (q3 mod 16)) (String (hexchar (q2 mod 16)) (String (hexchar (q1 mod 16)) (String (hexchar (w mod 16))
  EmptyString))))))).
Definition hexdigest (h : h8) : string :=
  (hex8 (ha h) ++ hex8 (hb h) ++ hex8 (hc h) ++ hex8 (hd h) ++ hex8 (he h) ++ hex8 (hf h) ++ hex8 (hg h) ++ hex8 (hh h))%string.

Definition bytes_of_string (s : string) : list N := map N_of_ascii (list_ascii_of_string s).
Definition sha256_hex (s : string) : string := hexdigest (sha256 (bytes_of_string s)).

(* FIPS 180-4 / NIST examples: "abc", "", the 448-bit message (two blocks), and lengths 55 / 56 / 64
   around the padding boundary (values from hashlib, re-checked at run time) *)
Example sha256_abc : sha256_hex "abc" = "ba7816bf8f01cfea414140de5dae2223b00361a396177a9cb410ff61f20015ad"%string.
Proof. vm_compute. reflexivity. Qed.
Example sha256_empty : sha256_hex "" = "e3b0c44298fc1c149afbf4c8996fb92427ae41e4649b934ca495991b7852b855"%string.
Proof. vm_compute. reflexivity. Qed.
Example sha256_448 : sha256_hex "abcdbcdecdefdefgefghfghighijhijkijkljklmklmnlmnomnopnopq"
  = "248d6a61d20638b8e5c026930c3e6039a33ce45964ff2167f6ecedd419db06c1"%string.
Proof. vm_compute. reflexivity. Qed.
Example sha256_896 : sha256_hex
  "abcdefghbcdefghicdefghijdefghijkefghijklfghijklmghijklmnhijklmnoijklmnopjklmnopqklmnopqrlmnopqrsmnopqrstnopqrstu"
  = "cf5b16a778af8380036ce59e7b0492370b249b11e8f07a51afac45037afee9d1"%string.
Proof. vm_compute. reflexivity. Qed.
