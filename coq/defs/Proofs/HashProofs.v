(* Proofs about Model/HashText.v: the hashed text determines the definition (on well-formed
   definitions, one recorded shape apart), and the four literals denote first32(sha256 raw). *)
From Coq Require Import ZArith NArith List Bool String Ascii Lia DecimalString DecimalZ DecimalPos Decimal.
From Defs Require Import Gen.Guards Lib.Sha256 Model.HashText.
Import ListNotations.
Open Scope string_scope. Open Scope list_scope.

(* ---- well-formed definitions ----------------------------------------------------------- *)

Definition ident_char (c : ascii) : bool :=
  let n := nat_of_ascii c in
  (((65 <=? n) && (n <=? 90)) || ((97 <=? n) && (n <=? 122)) || ((48 <=? n) && (n <=? 57)) || (n =? 95))%nat.
Fixpoint all_chars (p : ascii -> bool) (s : string) : bool :=
  match s with EmptyString => true | String c r => p c && all_chars p r end.
(* identifiers: non-empty, letters / digits / underscore *)
Definition identb (s : string) : bool := nonempty s && all_chars ident_char s.
Definition not_nl (c : ascii) : bool := negb (Ascii.eqb c nlc).
Definition no_nl (s : string) : bool := all_chars not_nl s.
Fixpoint str_mem (x : string) (l : list string) : bool :=
  match l with [] => false | y :: r => String.eqb x y || str_mem x r end.
(* a field: its name is an identifier that add_fields does not reserve (Gen/Guards.v, regenerated), its
   type text has no newline *)
Definition wf_field (f : string * string) : bool :=
  identb (fst f) && negb (str_mem (fst f) reserved_field_names) && no_nl (snd f).
Definition wf_fspec (f : fspec) : bool :=
  match f with FDict fs => forallb wf_field fs | FReuse t => identb t end.
(* names are identifiers, type texts contain no newline *)
Definition wf (d : defn) : bool :=
  match d with
  | DSignal n _ => identb n
  | DMessage n _ f | DStruct n f => identb n && wf_fspec f
  end.
(* the one shape that reads like `fields: OTHER`: a message whose only field is called `fields`;
   add_fields reserves that field name, so no well-formed definition has it (wf_not_lookalike) *)
Definition lookalike (d : defn) : bool :=
  match d with DMessage _ _ (FDict [(fn, _)]) => String.eqb fn "fields" | _ => false end.

(* ---- strings ----------------------------------------------------------------------------- *)

Lemma app_assoc_s a b c : (a +++ b) +++ c = a +++ b +++ c.
Proof. induction a; simpl; [reflexivity|rewrite IHa; reflexivity]. Qed.
Lemma app_inj_l a b c : a +++ b = a +++ c -> b = c.
Proof. induction a; simpl; intros H; [exact H|inversion H; auto]. Qed.
Lemma all_chars_app p a b : all_chars p (a +++ b) = all_chars p a && all_chars p b.
Proof. induction a; simpl; [reflexivity|rewrite IHa, andb_assoc; reflexivity]. Qed.
Lemma all_chars_weaken (p q : ascii -> bool) s : (forall c, p c = true -> q c = true) ->
  all_chars p s = true -> all_chars q s = true.
Proof.
  intros H. induction s; simpl; [reflexivity|]. rewrite !andb_true_iff. intros [A B]. split; [apply H, A|apply IHs, B].
Qed.

Lemma ident_not_nl c : ident_char c = true -> not_nl c = true.
Proof.
  unfold ident_char, not_nl, nlc. intros H. apply negb_true_iff, Ascii.eqb_neq. intros ->.
  rewrite nat_ascii_embedding in H by lia. discriminate.
Qed.
Lemma ident_not_ws c : ident_char c = true -> is_ws c = false.
Proof.
  unfold ident_char, is_ws. intros H. apply orb_false_iff. split; apply Ascii.eqb_neq; intros ->;
    [|rewrite nat_ascii_embedding in H by lia]; discriminate.
Qed.
Lemma ident_not_colon c : ident_char c = true -> Ascii.eqb c ":" = false.
Proof. unfold ident_char. intros H. apply Ascii.eqb_neq. intros ->. discriminate. Qed.
Lemma ident_no_nl s : identb s = true -> no_nl s = true.
Proof. unfold identb. rewrite andb_true_iff. intros [_ H]. exact (all_chars_weaken _ _ s ident_not_nl H). Qed.

(* cutting a text at the first occurrence of a character that the prefixes do not contain *)
Lemma cut_at (c : ascii) a1 : forall a2 r1 r2,
  all_chars (fun x => negb (Ascii.eqb x c)) a1 = true -> all_chars (fun x => negb (Ascii.eqb x c)) a2 = true ->
  a1 +++ String c r1 = a2 +++ String c r2 -> a1 = a2 /\ r1 = r2.
Proof.
  induction a1 as [|x a1 IH]; intros a2 r1 r2 H1 H2 E; destruct a2 as [|y a2]; simpl in *.
  - inversion E. auto.
  - inversion E; subst. rewrite Ascii.eqb_refl in H2. discriminate.
  - inversion E; subst. rewrite Ascii.eqb_refl in H1. discriminate.
  - inversion E as [[Ey Er]]; subst. apply andb_true_iff in H1. apply andb_true_iff in H2.
    destruct (IH a2 r1 r2 (proj2 H1) (proj2 H2) Er) as [-> ->]. auto.
Qed.
Lemma ident_no_colon s : identb s = true -> all_chars (fun x => negb (Ascii.eqb x ":")) s = true.
Proof.
  unfold identb. rewrite andb_true_iff. intros [_ H]. apply (all_chars_weaken ident_char); [|exact H].
  intros c Hc. rewrite (ident_not_colon c Hc). reflexivity.
Qed.

(* ---- str(int) is injective and has no newline ------------------------------------------------ *)

Lemma dec_inj a b : dec a = dec b -> a = b.
Proof.
  unfold dec. intros H.
  assert (N1 : forall z, Z.to_int z <> Pos Nil /\ Z.to_int z <> Neg Nil).
  { intros z. destruct z; simpl; split; intros E; inversion E; exact (Unsigned.to_uint_nonnil _ H1). }
  pose proof (NilZero.isi _ (proj1 (N1 a)) (proj2 (N1 a))) as A.
  pose proof (NilZero.isi _ (proj1 (N1 b)) (proj2 (N1 b))) as B.
  rewrite H in A. rewrite A in B. inversion B as [E]. apply (f_equal Z.of_int) in E.
  rewrite !DecimalZ.of_to in E. exact E.
Qed.

Lemma uint_no_nl d : no_nl (NilEmpty.string_of_uint d) = true.
Proof. induction d; simpl; try reflexivity; exact IHd. Qed.
Lemma dec_no_nl z : no_nl (dec z) = true.
Proof.
  unfold dec. destruct (Z.to_int z) as [d|d]; simpl.
  - destruct d; try reflexivity; apply (uint_no_nl (_ d)) || exact (uint_no_nl _).
  - destruct d; try reflexivity; exact (uint_no_nl _).
Qed.

(* ---- split / join ------------------------------------------------------------------------------ *)

Lemma join_cons a r : r <> [] -> join (a :: r) = a +++ nl +++ join r.
Proof. destruct r; [congruence|reflexivity]. Qed.

Lemma split_no_nl a : no_nl a = true -> split_lines a = [a].
Proof.
  induction a as [|c r IH]; simpl; [reflexivity|]. unfold no_nl in *. simpl. rewrite andb_true_iff.
  intros [C R]. unfold not_nl in C. apply negb_true_iff in C. rewrite C, (IH R). reflexivity.
Qed.
Lemma split_app a b : no_nl a = true -> split_lines (a +++ nl +++ b) = a :: split_lines b.
Proof.
  induction a as [|c r IH]; simpl.
  - intros _. rewrite ?Ascii.eqb_refl. reflexivity.
  - unfold no_nl. simpl. rewrite andb_true_iff. intros [C R]. unfold not_nl in C. apply negb_true_iff in C.
    rewrite C. change (r +++ String nlc b) with (r +++ nl +++ b). rewrite (IH R). reflexivity.
Qed.
Lemma split_join ls : ls <> [] -> Forall (fun l => no_nl l = true) ls -> split_lines (join ls) = ls.
Proof.
  induction ls as [|l r IH]; intros N F; [congruence|]. inversion F; subst.
  destruct r as [|m r]; [simpl; apply split_no_nl; assumption|].
  rewrite join_cons by discriminate. rewrite split_app by assumption. rewrite IH; [reflexivity|discriminate|assumption].
Qed.
Lemma join_inj l1 l2 : l1 <> [] -> l2 <> [] -> Forall (fun l => no_nl l = true) l1 ->
  Forall (fun l => no_nl l = true) l2 -> join l1 = join l2 -> l1 = l2.
Proof. intros N1 N2 F1 F2 H. rewrite <- (split_join l1 N1 F1), <- (split_join l2 N2 F2), H. reflexivity. Qed.

(* ---- dedent when the first line starts at column 0 ------------------------------------------------ *)

Lemma fold_cp_empty r : fold_left common_prefix r EmptyString = EmptyString.
Proof. induction r; simpl; [reflexivity|exact IHr]. Qed.

Lemma dedent_first c r ls : is_ws c = false ->
  dedent_lines (String c r :: ls) = map blank_ws (String c r :: ls).
Proof.
  intros H. unfold dedent_lines.
  assert (B : blank_ws (String c r) = String c r) by (unfold blank_ws; simpl; rewrite H; reflexivity).
  assert (M : margin_of (map blank_ws (String c r :: ls)) = EmptyString).
  { unfold margin_of. simpl map at 2. rewrite B. simpl. rewrite H. apply fold_cp_empty. }
  rewrite M. simpl strip_prefix. rewrite map_map. apply map_ext. reflexivity.
Qed.

Lemma blank_keep l c : In c (list_ascii_of_string l) -> is_ws c = false -> blank_ws l = l.
Proof.
  intros I W. unfold blank_ws. replace (all_ws l) with false; [reflexivity|].
  symmetry. induction l as [|x r IH]; simpl in *; [contradiction|].
  destruct I as [->|I]; [rewrite W; reflexivity|rewrite (IH I); apply andb_false_r].
Qed.
Lemma blank_no_nl l : no_nl l = true -> no_nl (blank_ws l) = true.
Proof. unfold blank_ws. destruct (all_ws l); [reflexivity|auto]. Qed.

(* ---- the lines of the text ------------------------------------------------------------------------------ *)

Definition flines (fs : list (string * string)) : list string :=
  match fs with [] => [EmptyString] | _ => map field_line fs end.

Definition raw_lines (d : defn) : list string :=
  match d with
  | DSignal n i => [n +++ ":"; "  id: " +++ dec i; "  fields: null"]
  | DMessage n i (FDict fs) => [n +++ ":"; "  id: " +++ dec i; "  fields:"] ++ flines fs
  | DMessage n i (FReuse t) => [n +++ ":"; "  id: " +++ dec i; "  fields:"; "    fields: " +++ t]
  | DStruct n (FDict fs) => [n +++ ":"; "  fields:"] ++ flines fs
  | DStruct n (FReuse t) => [n +++ ":"; "  fields:"] ++ chars ("    fields: " +++ t)
  end.

(* after dedent: only the struct `fields: OTHER` shape changes (its one-blank lines become empty) *)
Definition canon_lines (d : defn) : list string :=
  match d with
  | DStruct n (FReuse t) =>
      [n +++ ":"; "  fields:"; ""; ""; ""; ""; "f"; "i"; "e"; "l"; "d"; "s"; ":"; ""] ++ chars t
  | _ => raw_lines d
  end.

Lemma join_flines fs : join (flines fs) = join (map field_line fs).
Proof. destruct fs; reflexivity. Qed.
Lemma flines_nonnil fs : flines fs <> [].
Proof. destruct fs; discriminate. Qed.

Lemma raw_pre_lines d : raw_pre d = join (raw_lines d).
Proof.
  destruct d as [n i|n i [fs|t]|n [fs|t]]; unfold raw_pre, raw_lines.
  - simpl. rewrite !app_assoc_s. reflexivity.
  - change ([n +++ ":"; "  id: " +++ dec i; "  fields:"] ++ flines fs)
      with ((n +++ ":") :: ("  id: " +++ dec i) :: "  fields:" :: flines fs).
    rewrite !join_cons by (try discriminate; apply flines_nonnil). rewrite join_flines, !app_assoc_s. reflexivity.
  - simpl. rewrite !app_assoc_s. reflexivity.
  - change ([n +++ ":"; "  fields:"] ++ flines fs) with ((n +++ ":") :: "  fields:" :: flines fs).
    rewrite !join_cons by (try discriminate; apply flines_nonnil). rewrite join_flines, !app_assoc_s. reflexivity.
  - change ([n +++ ":"; "  fields:"] ++ chars ("    fields: " +++ t))
      with ((n +++ ":") :: "  fields:" :: chars ("    fields: " +++ t)).
    rewrite !join_cons by (simpl; discriminate). rewrite !app_assoc_s. reflexivity.
Qed.

Lemma chars_no_nl t : no_nl t = true -> Forall (fun l => no_nl l = true) (chars t).
Proof.
  unfold chars. induction t as [|c r IH]; simpl; [constructor|]. unfold no_nl. simpl. rewrite andb_true_iff.
  intros [C R]. constructor; [simpl; rewrite C; reflexivity|exact (IH R)].
Qed.

Lemma name_line_no_nl n : identb n = true -> no_nl (n +++ ":") = true.
Proof. intros H. unfold no_nl. rewrite all_chars_app. fold (no_nl n). rewrite (ident_no_nl n H). reflexivity. Qed.
Lemma id_line_no_nl i : no_nl ("  id: " +++ dec i) = true.
Proof. unfold no_nl. rewrite all_chars_app. fold (no_nl (dec i)). rewrite dec_no_nl. reflexivity. Qed.
Lemma field_line_no_nl f : wf_field f = true -> no_nl (field_line f) = true.
Proof.
  unfold wf_field, field_line. rewrite !andb_true_iff. intros [[A _] B]. unfold no_nl.
  rewrite !all_chars_app. fold (no_nl (fst f)) (no_nl (snd f)). rewrite (ident_no_nl _ A), B. reflexivity.
Qed.
Lemma flines_no_nl fs : forallb wf_field fs = true -> Forall (fun l => no_nl l = true) (flines fs).
Proof.
  destruct fs as [|f r]; [intros _; repeat constructor|]. unfold flines. generalize (f :: r). clear.
  induction l as [|g r IH]; simpl; [constructor|]. rewrite andb_true_iff. intros [A B].
  constructor; [exact (field_line_no_nl g A)|exact (IH B)].
Qed.
Lemma reuse_line_no_nl t : identb t = true -> no_nl ("    fields: " +++ t) = true.
Proof. intros H. unfold no_nl. rewrite all_chars_app. fold (no_nl t). rewrite (ident_no_nl t H). reflexivity. Qed.

Lemma raw_lines_no_nl d : wf d = true -> Forall (fun l => no_nl l = true) (raw_lines d).
Proof.
  destruct d as [n i|n i [fs|t]|n [fs|t]]; simpl wf; rewrite ?andb_true_iff; intros H; unfold raw_lines.
  - repeat constructor; [exact (name_line_no_nl n H)|exact (id_line_no_nl i)].
  - destruct H as [A B]. apply Forall_app. split; [|exact (flines_no_nl fs B)].
    repeat constructor; [exact (name_line_no_nl n A)|exact (id_line_no_nl i)].
  - destruct H as [A B]. repeat constructor; [exact (name_line_no_nl n A)|exact (id_line_no_nl i)|exact (reuse_line_no_nl t B)].
  - destruct H as [A B]. apply Forall_app. split; [|exact (flines_no_nl fs B)].
    repeat constructor. exact (name_line_no_nl n A).
  - destruct H as [A B]. apply Forall_app. split; [repeat constructor; exact (name_line_no_nl n A)|].
    apply chars_no_nl, reuse_line_no_nl, B.
Qed.

Lemma raw_lines_nonnil d : raw_lines d <> [].
Proof. destruct d as [n i|n i [fs|t]|n [fs|t]]; discriminate. Qed.

Lemma ident_head n : identb n = true -> exists c r, n = String c r /\ is_ws c = false.
Proof.
  unfold identb. destruct n as [|c r]; simpl; [discriminate|]. rewrite andb_true_iff. intros [A _].
  exists c, r. split; [reflexivity|exact (ident_not_ws c A)].
Qed.

Lemma blank_chars_ident t : all_chars ident_char t = true -> map blank_ws (chars t) = chars t.
Proof.
  unfold chars. induction t as [|c r IH]; simpl; [reflexivity|]. rewrite andb_true_iff. intros [A B].
  rewrite (IH B). unfold blank_ws at 1. simpl. rewrite (ident_not_ws c A). reflexivity.
Qed.

Lemma blank_field_line f : wf_field f = true -> blank_ws (field_line f) = field_line f.
Proof.
  unfold wf_field. rewrite !andb_true_iff. intros [[A _] _]. destruct (ident_head _ A) as (c & r & E & W).
  apply (blank_keep _ c); [|exact W]. unfold field_line. rewrite E. simpl. right. right. right. right. left. reflexivity.
Qed.
Lemma blank_flines fs : forallb wf_field fs = true -> map blank_ws (flines fs) = flines fs.
Proof.
  destruct fs as [|f r]; [reflexivity|]. unfold flines. generalize (f :: r). clear.
  induction l as [|g r IH]; simpl; [reflexivity|]. rewrite andb_true_iff. intros [A B].
  rewrite (blank_field_line g A), (IH B). reflexivity.
Qed.
Lemma blank_name_line n : identb n = true -> blank_ws (n +++ ":") = n +++ ":".
Proof.
  intros A. destruct (ident_head _ A) as (c & r & E & W). apply (blank_keep _ c); [|exact W].
  rewrite E. simpl. left. reflexivity.
Qed.
Lemma blank_id_line i : blank_ws ("  id: " +++ dec i) = "  id: " +++ dec i.
Proof. apply (blank_keep _ "i"%char); [simpl; auto|reflexivity]. Qed.
Lemma blank_reuse_line t : blank_ws ("    fields: " +++ t) = "    fields: " +++ t.
Proof. apply (blank_keep _ "f"%char); [simpl; auto 6|reflexivity]. Qed.

Lemma blank_raw_lines d : wf d = true -> map blank_ws (raw_lines d) = canon_lines d.
Proof.
  destruct d as [n i|n i [fs|t]|n [fs|t]]; simpl wf; rewrite ?andb_true_iff; intros H; unfold raw_lines, canon_lines.
  - cbn [map]. rewrite (blank_name_line n H), blank_id_line. reflexivity.
  - destruct H as [A B]. rewrite map_app, (blank_flines fs B). cbn [map].
    rewrite (blank_name_line n A), blank_id_line. reflexivity.
  - destruct H as [A B]. cbn [map]. rewrite (blank_name_line n A), blank_id_line, blank_reuse_line. reflexivity.
  - destruct H as [A B]. rewrite map_app, (blank_flines fs B). cbn [map]. rewrite (blank_name_line n A). reflexivity.
  - destruct H as [A B]. rewrite map_app. cbn [map List.app]. rewrite (blank_name_line n A).
    unfold identb in B. apply andb_true_iff in B. destruct B as [_ B].
    change (chars ("    fields: " +++ t)) with (chars "    fields: " ++ chars t) at 1.
    + rewrite map_app, (blank_chars_ident t B). reflexivity.
Qed.

(* ---- raw in closed form ------------------------------------------------------------------------------- *)

Lemma raw_lines_head d : wf d = true -> exists n r, identb n = true /\ raw_lines d = (n +++ ":") :: r.
Proof.
  destruct d as [n i|n i [fs|t]|n [fs|t]]; simpl wf; rewrite ?andb_true_iff; intros W;
    eexists n, _; (split; [first [exact W|exact (proj1 W)]|reflexivity]).
Qed.

Theorem raw_canon d : wf d = true -> raw d = join (canon_lines d).
Proof.
  intros W. unfold raw, dedent. rewrite raw_pre_lines, (split_join _ (raw_lines_nonnil d) (raw_lines_no_nl d W)).
  rewrite <- (blank_raw_lines d W). f_equal.
  destruct (raw_lines_head d W) as (n & r & I & L). destruct (ident_head n I) as (c & s & E & Wc).
  rewrite L, E. cbn [String.append]. apply dedent_first. exact Wc.
Qed.

Lemma canon_no_nl d : wf d = true -> Forall (fun l => no_nl l = true) (canon_lines d).
Proof.
  intros W. rewrite <- (blank_raw_lines d W). pose proof (raw_lines_no_nl d W) as F.
  induction F; simpl; constructor; [apply blank_no_nl; assumption|assumption].
Qed.
Lemma canon_nonnil d : canon_lines d <> [].
Proof. destruct d as [n i|n i [fs|t]|n [fs|t]]; discriminate. Qed.

(* ---- the lines determine the definition ------------------------------------------------------------------ *)

Lemma name_line_inj a b : identb a = true -> identb b = true -> a +++ ":" = b +++ ":" -> a = b.
Proof. intros A B H. exact (proj1 (cut_at ":" a b "" "" (ident_no_colon a A) (ident_no_colon b B) H)). Qed.

Lemma field_line_inj f g : wf_field f = true -> wf_field g = true -> field_line f = field_line g -> f = g.
Proof.
  unfold wf_field, field_line. rewrite !andb_true_iff. intros [[A _] _] [[B _] _] H.
  apply (app_inj_l "    ") in H. change (": " +++ snd f) with (String ":" (" " +++ snd f)) in H.
  change (": " +++ snd g) with (String ":" (" " +++ snd g)) in H.
  destruct (cut_at ":" _ _ _ _ (ident_no_colon _ A) (ident_no_colon _ B) H) as [E1 E2].
  apply (app_inj_l " ") in E2. destruct f, g; simpl in *; congruence.
Qed.

Lemma cons_eq {A} (a b : A) l m : a :: l = b :: m -> a = b /\ l = m.
Proof. intros H. inversion H. auto. Qed.

Lemma field_line_nonempty f : field_line f <> "".
Proof. unfold field_line. simpl. discriminate. Qed.

Lemma map_field_line_inj fs gs : forallb wf_field fs = true -> forallb wf_field gs = true ->
  map field_line fs = map field_line gs -> fs = gs.
Proof.
  revert gs. induction fs as [|f r IH]; intros [|g s]; cbn [map forallb]; try discriminate; [reflexivity|].
  rewrite !andb_true_iff. intros [A1 A2] [B1 B2] H. destruct (cons_eq _ _ _ _ H) as [H1 H2].
  f_equal; [apply field_line_inj; assumption|apply IH; assumption].
Qed.
Lemma flines_inj fs gs : forallb wf_field fs = true -> forallb wf_field gs = true -> flines fs = flines gs -> fs = gs.
Proof.
  intros A B H. destruct fs as [|f r], gs as [|g s]; [reflexivity| | |apply map_field_line_inj; assumption].
  - cbn [flines map] in H. destruct (cons_eq _ _ _ _ H) as [H1 _]. exfalso. exact (field_line_nonempty g (eq_sym H1)).
  - cbn [flines map] in H. destruct (cons_eq _ _ _ _ H) as [H1 _]. exfalso. exact (field_line_nonempty f H1).
Qed.

Lemma chars_inj a b : chars a = chars b -> a = b.
Proof.
  unfold chars. revert b. induction a as [|x r IH]; intros [|y s]; simpl; try discriminate; [reflexivity|].
  intros H. inversion H. f_equal. apply IH. assumption.
Qed.

Lemma id_line_inj i j : "  id: " +++ dec i = "  id: " +++ dec j -> i = j.
Proof. intros H. apply (app_inj_l "  id: ") in H. exact (dec_inj i j H). Qed.

(* a single field line equal to the `fields: OTHER` line: the field is called `fields` *)
Lemma field_line_is_reuse f t : wf_field f = true -> field_line f = "    fields: " +++ t -> fst f = "fields".
Proof.
  unfold wf_field, field_line. rewrite !andb_true_iff. intros [[A _] _] H.
  apply (app_inj_l "    ") in H. change (": " +++ snd f) with (String ":" (" " +++ snd f)) in H.
  change ("fields: " +++ t) with ("fields" +++ String ":" (" " +++ t)) in H.
  exact (proj1 (cut_at ":" (fst f) "fields" (" " +++ snd f) (" " +++ t) (ident_no_colon _ A) eq_refl H)).
Qed.

Ltac heads H :=
  repeat match type of H with
  | _ :: _ = _ :: _ => let E := fresh "E" in apply cons_eq in H; destruct H as [E H]
  end.

Lemma flines_not_reuse fs t : forallb wf_field fs = true ->
  flines fs = ["    fields: " +++ t] -> exists ty, fs = [("fields", ty)].
Proof.
  intros B H. destruct fs as [|f [|g r]]; cbn [flines map] in H.
  - destruct (cons_eq _ _ _ _ H) as [E _]. simpl in E. discriminate E.
  - destruct (cons_eq _ _ _ _ H) as [E _]. cbn [forallb] in B. rewrite andb_true_r in B.
    pose proof (field_line_is_reuse f t B E) as F. destruct f as [fn ty]. simpl in F. subst fn. eauto.
  - destruct (cons_eq _ _ _ _ H) as [_ E]. discriminate E.
Qed.

Lemma flines_not_chars fs r : flines fs <> "" :: "" :: r.
Proof.
  destruct fs as [|f s]; cbn [flines map]; intros H.
  - destruct (cons_eq _ _ _ _ H) as [_ E]. discriminate E.
  - destruct (cons_eq _ _ _ _ H) as [E _]. exact (field_line_nonempty f E).
Qed.

Lemma flines_not_null fs r : flines fs <> "  fields: null" :: r -> True.
Proof. trivial. Qed.

Theorem canon_inj d1 d2 : wf d1 = true -> wf d2 = true -> lookalike d1 = false -> lookalike d2 = false ->
  canon_lines d1 = canon_lines d2 -> d1 = d2.
Proof.
  intros W1 W2 L1 L2 H.
  destruct d1 as [n1 i1|n1 i1 [fs1|t1]|n1 [fs1|t1]], d2 as [n2 i2|n2 i2 [fs2|t2]|n2 [fs2|t2]];
    simpl in W1, W2; rewrite ?andb_true_iff in W1, W2; unfold canon_lines, raw_lines in H;
    cbn [List.app] in H; heads H.
  all: try match goal with E : "  id: " +++ _ = "  fields:" |- _ => simpl in E; discriminate E end.
  all: try match goal with E : "  fields:" = "  id: " +++ _ |- _ => simpl in E; discriminate E end.
  all: try match goal with E : "  fields: null" = "  fields:" |- _ => discriminate E end.
  all: try match goal with E : "  fields:" = "  fields: null" |- _ => discriminate E end.
  - (* signal / signal *) rewrite (name_line_inj n1 n2 W1 W2 E), (id_line_inj _ _ E0). reflexivity.
  - (* message dict / message dict *)
    destruct W1 as [A1 B1], W2 as [A2 B2].
    rewrite (name_line_inj n1 n2 A1 A2 E), (id_line_inj _ _ E0), (flines_inj fs1 fs2 B1 B2 H). reflexivity.
  - (* message dict / message reuse: only a single field called `fields` reads the same *)
    exfalso. destruct (flines_not_reuse fs1 t2 (proj2 W1) H) as (ty & ->). simpl in L1. discriminate L1.
  - exfalso. destruct (flines_not_reuse fs2 t1 (proj2 W2) (eq_sym H)) as (ty & ->). simpl in L2. discriminate L2.
  - (* message reuse / message reuse *)
    destruct W1 as [A1 B1], W2 as [A2 B2].
    rewrite (name_line_inj n1 n2 A1 A2 E), (id_line_inj _ _ E0), (app_inj_l _ _ _ E2). reflexivity.
  - (* struct dict / struct dict *)
    destruct W1 as [A1 B1], W2 as [A2 B2].
    rewrite (name_line_inj n1 n2 A1 A2 E), (flines_inj fs1 fs2 B1 B2 H). reflexivity.
  - (* struct dict / struct reuse *) exfalso. exact (flines_not_chars fs1 _ H).
  - exfalso. exact (flines_not_chars fs2 _ (eq_sym H)).
  - (* struct reuse / struct reuse *)
    destruct W1 as [A1 B1], W2 as [A2 B2]. rewrite (name_line_inj n1 n2 A1 A2 E), (chars_inj _ _ H). reflexivity.
Qed.

(* the hashed text determines the definition *)
Theorem raw_inj d1 d2 : wf d1 = true -> wf d2 = true -> lookalike d1 = false -> lookalike d2 = false ->
  raw d1 = raw d2 -> d1 = d2.
Proof.
  intros W1 W2 L1 L2 H. rewrite (raw_canon d1 W1), (raw_canon d2 W2) in H.
  apply (canon_inj d1 d2 W1 W2 L1 L2).
  exact (join_inj _ _ (canon_nonnil d1) (canon_nonnil d2) (canon_no_nl d1 W1) (canon_no_nl d2 W2) H).
Qed.

(* a well-formed definition has no field called `fields` (reserved by add_fields) *)
Lemma wf_not_lookalike d : wf d = true -> lookalike d = false.
Proof.
  destruct d as [n i|n i [fs|t]|n [fs|t]]; try reflexivity. destruct fs as [|[fn ty] [|g r]]; try reflexivity.
  unfold wf, wf_fspec, lookalike. cbn [forallb]. unfold wf_field. cbn [fst snd].
  rewrite !andb_true_iff. intros (_ & ((_ & R) & _) & _).
  destruct (String.eqb fn "fields") eqn:E; [|reflexivity]. apply String.eqb_eq in E. subst fn.
  vm_compute in R. discriminate R.
Qed.

Theorem raw_inj_wf d1 d2 : wf d1 = true -> wf d2 = true -> raw d1 = raw d2 -> d1 = d2.
Proof. intros W1 W2. exact (raw_inj d1 d2 W1 W2 (wf_not_lookalike d1 W1) (wf_not_lookalike d2 W2)). Qed.

(* ---- hexadecimal literals ------------------------------------------------------------------------- *)
Open Scope N_scope.

Lemma nibble_cases n : n < 16 ->
  n = 0 \/ n = 1 \/ n = 2 \/ n = 3 \/ n = 4 \/ n = 5 \/ n = 6 \/ n = 7 \/ n = 8 \/ n = 9 \/ n = 10 \/
  n = 11 \/ n = 12 \/ n = 13 \/ n = 14 \/ n = 15.
Proof. lia. Qed.

(* over all sixteen nibble values: the lower-case digit, and its upper-case form, denote the nibble *)
Lemma hexval_hexchar n : n < 16 -> hexval (hexchar n) = Some n /\ hexval (upper_char (hexchar n)) = Some n.
Proof.
  intros H. destruct (nibble_cases n H) as [->|[->|[->|[->|[->|[->|[->|[->|[->|[->|[->|[->|[->|[->|[->| ->]]]]]]]]]]]]]]];
    split; reflexivity.
Qed.

Lemma dm x : x = 16 * (x / 16) + x mod 16 /\ x mod 16 < 16.
Proof. split; [apply N.div_mod'|apply N.mod_lt; discriminate]. Qed.

Lemma nib_sum w : w < 4294967296 ->
  let q1 := w / 16 in let q2 := q1 / 16 in let q3 := q2 / 16 in let q4 := q3 / 16 in
  let q5 := q4 / 16 in let q6 := q5 / 16 in let q7 := q6 / 16 in
  (((((((0 * 16 + q7 mod 16) * 16 + q6 mod 16) * 16 + q5 mod 16) * 16 + q4 mod 16) * 16 + q3 mod 16) * 16
     + q2 mod 16) * 16 + q1 mod 16) * 16 + w mod 16 = w.
Proof.
  intros H q1 q2 q3 q4 q5 q6 q7.
  destruct (dm w) as [E0 L0]. fold q1 in E0. destruct (dm q1) as [E1 L1]. fold q2 in E1.
  destruct (dm q2) as [E2 L2]. fold q3 in E2. destruct (dm q3) as [E3 L3]. fold q4 in E3.
  destruct (dm q4) as [E4 L4]. fold q5 in E4. destruct (dm q5) as [E5 L5]. fold q6 in E5.
  destruct (dm q6) as [E6 L6]. fold q7 in E6. destruct (dm q7) as [E7 L7].
  generalize dependent (q7 / 16). generalize dependent (q7 mod 16). generalize dependent (q6 mod 16).
  generalize dependent (q5 mod 16). generalize dependent (q4 mod 16). generalize dependent (q3 mod 16).
  generalize dependent (q2 mod 16). generalize dependent (q1 mod 16). generalize dependent (w mod 16).
  clearbody q1 q2 q3 q4 q5 q6 q7. intros. lia.
Qed.

Lemma hex8_value w : w < 4294967296 -> hex_value (hex8 w) = Some w /\ hex_value (upper (hex8 w)) = Some w.
Proof.
  intros H. pose proof (nib_sum w H) as S. cbv zeta in S. unfold hex8. cbv zeta.
  assert (M : forall x, x mod 16 < 16) by (intros; apply N.mod_lt; discriminate).
  split; unfold hex_value; cbn [upper hex_value_acc];
    repeat match goal with |- context [hexval (upper_char (hexchar (?x mod 16)))] =>
             rewrite (proj2 (hexval_hexchar (x mod 16) (M x))) end;
    repeat match goal with |- context [hexval (hexchar (?x mod 16))] =>
             rewrite (proj1 (hexval_hexchar (x mod 16) (M x))) end;
    cbn [hex_value_acc]; f_equal; exact S.
Qed.

Lemma first8_hexdigest h : first8 (hexdigest h) = hex8 (ha h).
Proof. reflexivity. Qed.

Lemma add32_lt a b : add32 a b < w32.
Proof. apply N.mod_lt. discriminate. Qed.

Lemma blocks_lt fuel : forall h ws, ha h < w32 -> ha (blocks fuel h ws) < w32.
Proof.
  induction fuel as [|k IH]; intros h ws H; simpl; [exact H|].
  destruct ws as [|x r]; [exact H|]. apply IH. apply add32_lt.
Qed.
Lemma sha256_word_lt msg : ha (sha256 msg) < w32.
Proof. unfold sha256. apply blocks_lt. reflexivity. Qed.

(* the four literals denote the first 32 bits of sha256(raw) *)
Theorem literals_agree d :
  lit0x_value (py_literal (hash_hex d)) = Some (hash32 d) /\
  lit0x_value (c_literal (hash_hex d)) = Some (hash32 d) /\
  hex_value (js_literal (hash_hex d)) = Some (hash32 d) /\
  hex_value (matlab_literal (hash_hex d)) = Some (hash32 d) /\
  hash32 d < 2 ^ 32.
Proof.
  unfold py_literal, c_literal, js_literal, matlab_literal, hash_hex, hash32. rewrite first8_hexdigest.
  pose proof (sha256_word_lt (bytes_of_string (raw d))) as L. fold (digest d) in L.
  destruct (hex8_value _ L) as [A B]. cbn [String.append lit0x_value].
  repeat split; assumption.
Qed.
