(* C15_total (no internal error), C04_layout and C04_sig: sizes, the final ctypes assert of check_alignment,
   and the per-language layouts/signatures.  Rests on C11 (Proofs/LayoutProofs.v) and on the table sweep
   (Proofs/TablesProofs.v). *)
From Coq Require Import ZArith List Bool String Lia.
From Defs Require Import Gen.TypeTables Gen.EmitGuards Model.Layout Model.Emit Proofs.LayoutProofs Proofs.TablesProofs
  Proofs.EmitCombined Proofs.EmitScope.
Import ListNotations.
Open Scope string_scope. Open Scope list_scope. Open Scope Z_scope.

(* ------------------------------------------------------------------ "plain" fields
   (an invariant of every parsed state, see plain_run_always: array length >= 1 when given - add_fields rejects
   anything else - and native keys known to the parser's table) *)
Definition key_plain (k : string) : bool :=
  match tlookup k parser_types with Some _ => true | None => false end.
Definition field_plain (p : pfield) : bool :=
  (match pf_len p with Some n => 1 <=? n | None => true end) &&
  match pf_kind p with
  | FNat => key_plain (pf_ty p)
  | FAlias (ANat k) => key_plain k
  | FAlias (AStruct _) | FStruct | FMsg => true
  end.
Definition state_plain (st : pstate) : bool := forallb (fun d => forallb field_plain (pd_fields d)) (all_defs st).

(* the fields a definition item resolves to, before layout *)
Definition resolved_fields (st : pstate) (i : item) : list pfield :=
  match i with
  | IStruct _ b | IMsg _ _ (Some b) =>
    match resolve_body (ps_consts st) (ps_aliases st) (ps_structs st) (ps_msgs st) b with POk ps => ps | _ => [] end
  | _ => []
  end.
(* evaluated along the traversal: every definition processed so far resolves to plain fields (always true:
   plain_run_always) *)
Fixpoint plain_run (ap : bool) (l : list item) (st : pstate) : bool :=
  match l with
  | [] => true
  | i :: r => forallb field_plain (resolved_fields st i)
              && match step ap st i with POk st' => plain_run ap r st' | _ => true end
  end.

(* ------------------------------------------------------------------ size invariants *)
Definition wf_sz (sz a : Z) : Prop := 1 <= sz /\ pow2_8 a /\ (a | sz).

Definition field_szok (p : pfield) : Prop :=
  wf_sz (pf_esize p) (pf_align p) /\
  match pf_kind p with
  | FNat => exists kd, tlookup (pf_ty p) parser_types = Some (pf_esize p, kd) /\ pf_align p = pf_esize p
  | FAlias (ANat k) => exists kd, tlookup k parser_types = Some (pf_esize p, kd) /\ pf_align p = pf_esize p
  | _ => True
  end.
Definition alias_szok (a : palias) : Prop :=
  wf_sz (pa_size a) (pa_align a) /\
  match pa_target a with
  | ANat k => exists kd, tlookup k parser_types = Some (pa_size a, kd) /\ pa_align a = pa_size a
  | AStruct _ => True
  end.

Definition s2 (f : field) : Z * Z := (f_align f, fsize f).
(* what is recorded for a definition is a layout accepted by check_alignment *)
Definition def_layout (d : pdef) : Prop :=
  exists fs', good_layout fs' (pd_align d) /\ pd_size d = total_size fs' /\
              map s2 fs' = map s2 (lay_model d) /\
              Forall2 (fun f p => is_pad f = true \/ f_off f = pf_off p) fs' (pd_fields d).
Definition def_szok (d : pdef) : Prop :=
  Forall field_szok (pd_fields d) /\ (is_signal d = true \/ (wf_sz (pd_size d) (pd_align d) /\ def_layout d)).

Record InvW (st : pstate) : Prop := {
  invw_a : Forall alias_szok (ps_aliases st);
  invw_s : Forall (fun d => def_szok d /\ is_signal d = false) (ps_structs st);
  invw_m : Forall def_szok (ps_msgs st) }.

Lemma native_wf k sz kd : tlookup k parser_types = Some (sz, kd) -> wf_sz sz sz.
Proof.
  intros H. apply native_size_ok in H. unfold wf_sz, pow2_8. repeat split; try tauto; [lia|apply Z.divide_refl].
Qed.

Lemma find_alias_some_in n l a : find_alias n l = Some a -> In a l.
Proof.
  induction l as [|x r IH]; simpl; [discriminate|].
  destruct (String.eqb (pa_name x) n); [intros H; inversion H; left; reflexivity|intros H; right; auto].
Qed.

Lemma resolve_ftype_szok st t k sz a nm ln o :
  InvW st -> resolve_ftype (ps_aliases st) (ps_structs st) (ps_msgs st) t = POk (k, sz, a) ->
  field_szok (mkPF nm t k ln sz a o).
Proof.
  intros [Ha Hs Hm]. unfold resolve_ftype. destruct (tlookup t parser_types) as [[s0 kd]|] eqn:Et.
  - intros H; inversion H; subst. split; simpl; [eapply native_wf; eauto|eauto].
  - destruct (find_alias t (ps_aliases st)) as [a0|] eqn:Ea.
    + intros H; inversion H; subst. apply find_alias_some_in in Ea.
      pose proof (proj1 (Forall_forall _ _) Ha _ Ea) as [W T]. split; simpl; auto.
    + destruct (find_def t (ps_structs st)) as [s|] eqn:Es.
      * intros H; inversion H; subst. apply find_def_some_in in Es.
        pose proof (proj1 (Forall_forall _ _) Hs _ Es) as [[_ [W|[W _]]] Sg]; [congruence|]. split; simpl; auto.
      * destruct (find_def t (ps_msgs st)) as [m|] eqn:Em; [|discriminate].
        destruct (is_signal m) eqn:Esig; [discriminate|]. intros H; inversion H; subst. apply find_def_some_in in Em.
        pose proof (proj1 (Forall_forall _ _) Hm _ Em) as [_ [W|[W _]]]; [congruence|]. split; simpl; auto.
Qed.

Lemma resolve_fields_szok st l ps :
  InvW st -> resolve_fields (ps_consts st) (ps_aliases st) (ps_structs st) (ps_msgs st) l = POk ps -> Forall field_szok ps.
Proof.
  intros Hi. revert ps. induction l as [|d r IH]; simpl; intros ps H; [inversion H; constructor|].
  destruct (resolve_field (ps_consts st) (ps_aliases st) (ps_structs st) (ps_msgs st) d) as [p|k|k] eqn:E; try discriminate.
  destruct (resolve_fields (ps_consts st) (ps_aliases st) (ps_structs st) (ps_msgs st) r) as [qs|k|k] eqn:E2; try discriminate.
  inversion H; subst. constructor; [|apply IH; reflexivity].
  unfold resolve_field in E. destruct (existsb (String.eqb (fd_name d)) reserved_field_names); [discriminate|].
  destruct (resolve_ftype (ps_aliases st) (ps_structs st) (ps_msgs st) (fd_type d)) as [[[k sz] a]|k|k] eqn:Et; try discriminate.
  destruct (fd_len d) as [e|].
  - destruct (leval (ps_consts st) e) as [v|]; [|discriminate]. destruct (v <? add_fields_length_min); [discriminate|].
    inversion E; subst. eapply resolve_ftype_szok; eauto.
  - inversion E; subst. eapply resolve_ftype_szok; eauto.
Qed.

Lemma resolve_body_szok st b ps :
  InvW st -> resolve_body (ps_consts st) (ps_aliases st) (ps_structs st) (ps_msgs st) b = POk ps -> Forall field_szok ps.
Proof.
  intros Hi. destruct b as [l|n]; simpl; [apply resolve_fields_szok; exact Hi|].
  destruct Hi as [Ha Hs Hm].
  destruct (find_def n (ps_msgs st)) as [m|] eqn:Em.
  - intros H; inversion H; subst. apply find_def_some_in in Em. exact (proj1 (proj1 (Forall_forall _ _) Hm _ Em)).
  - destruct (find_def n (ps_structs st)) as [s|] eqn:Es; [|discriminate].
    intros H; inversion H; subst. apply find_def_some_in in Es. exact (proj1 (proj1 (proj1 (Forall_forall _ _) Hs _ Es))).
Qed.

(* ------------------------------------------------------------------ Layout fields of a plain, well-sized field list *)
Lemma to_lfields_wf i ps : Forall field_szok ps -> forallb field_plain ps = true -> Forall wf_field (to_lfields i ps).
Proof.
  revert i. induction ps as [|p r IH]; simpl; intros i Hs Hp; [constructor|].
  inversion Hs as [|? ? [(W1 & W2 & W3) _] Hr]; subst. apply andb_true_iff in Hp. destruct Hp as [Hp Hpr].
  constructor; [|apply IH; assumption].
  unfold wf_field; simpl. repeat split; auto.
  unfold field_plain in Hp. apply andb_true_iff in Hp. destruct Hp as [Hl _].
  destruct (pf_len p); [apply Z.leb_le in Hl; exact Hl|exact I].
Qed.

Lemma to_lfields_user i ps : 0 <= i -> Forall user_field (to_lfields i ps).
Proof.
  revert i. induction ps as [|p r IH]; simpl; intros i Hi; constructor; [unfold user_field; simpl; lia|apply IH; lia].
Qed.

Lemma to_lfields_nil i ps : to_lfields i ps = [] -> ps = [].
Proof. destruct ps; simpl; [auto|discriminate]. Qed.

(* rebuilt parser fields vs the Layout fields they were read from *)
Definition rel (p : pfield) (f : field) : Prop :=
  pf_esize p = f_esize f /\ pf_align p = f_align f /\ pf_len p = f_len f /\ pf_off p = f_off f.

Lemma rebuild_rel (P : pfield -> Prop) orig out i n :
  map strip (filter (fun f => negb (is_pad f)) out) = map strip (to_lfields i orig) -> Forall char_pad out ->
  Forall P orig -> (forall p o, P p -> P (set_poff p o)) ->
  (forall f k, In f out -> is_pad f = true -> P (mkPF (pad_name k) "char" FNat (f_len f) 1 1 (f_off f))) ->
  Forall2 rel (rebuild orig out n) out /\ Forall P (rebuild orig out n).
Proof.
  revert orig i n. induction out as [|f r IH]; intros orig i n Hm Hc Ho Hs Hp; simpl; [split; constructor|].
  inversion Hc as [|? ? Hcf Hcr]; subst. simpl in Hm.
  destruct (is_pad f) eqn:Ef; simpl in Hm.
  - destruct (IH orig i (n + 1) Hm Hcr Ho Hs) as [I1 I2]; [intros; apply Hp; auto; right; auto|].
    destruct (Hcf Ef) as [C1 C2]. split; constructor; auto.
    + unfold rel; simpl. repeat split; auto.
    + apply Hp; auto. left; reflexivity.
  - destruct orig as [|p orig']; simpl in Hm; [discriminate|].
    assert (E1 : strip f = strip (mkField i (pf_esize p) (pf_align p) (pf_len p) (-1))) by (inversion Hm; reflexivity).
    assert (E2 : map strip (filter (fun f0 => negb (is_pad f0)) r) = map strip (to_lfields (i + 1) orig')) by (inversion Hm; reflexivity).
    pose proof (Forall_inv Ho) as Hp0. pose proof (Forall_inv_tail Ho) as Ho'.
    destruct (IH orig' (i + 1) n E2 Hcr Ho' Hs) as [I1 I2]; [intros; apply Hp; auto; right; auto|].
    unfold strip in E1. simpl in E1.
    assert (A1 : f_esize f = pf_esize p) by congruence. assert (A2 : f_align f = pf_align p) by congruence.
    assert (A3 : f_len f = pf_len p) by congruence.
    split; constructor; auto. unfold rel; simpl. repeat split; auto.
Qed.

Lemma c_offsets_s2 a b : map s2 a = map s2 b -> forall ptr, c_offsets a ptr = c_offsets b ptr.
Proof.
  revert b. induction a as [|f r IH]; intros b H ptr; destruct b as [|g q]; simpl in H; try discriminate; auto.
  inversion H as [[E1 E2 E3]]. simpl. rewrite E1, E2. rewrite (IH _ E3). reflexivity.
Qed.
Lemma max_align_s2 a b : map s2 a = map s2 b -> max_align a = max_align b.
Proof.
  revert b. induction a as [|f r IH]; intros b H; destruct b as [|g q]; simpl in H; try discriminate; auto.
  inversion H as [[E1 E2 E3]]. simpl. rewrite E1, (IH _ E3). reflexivity.
Qed.
Lemma c_sizeof_s2 a b : map s2 a = map s2 b -> c_sizeof a = c_sizeof b.
Proof. intros H. unfold c_sizeof. rewrite (c_offsets_s2 _ _ H), (max_align_s2 _ _ H). reflexivity. Qed.
Lemma total_size_s2 a b : map s2 a = map s2 b -> total_size a = total_size b.
Proof.
  revert b. induction a as [|f r IH]; intros b H; destruct b as [|g q]; simpl in H; try discriminate; auto.
  inversion H as [[E1 E2 E3]]. simpl. rewrite E2, (IH _ E3). reflexivity.
Qed.

Lemma key_plain_ct k sz kd : tlookup k parser_types = Some (sz, kd) -> exists kd', ctype_of_native k = Some (sz, kd').
Proof.
  intros E. destruct (ka_ct _ _ _ (tables_agree _ _ _ E)) as (nm & E1 & E2). unfold ctype_of_native. rewrite E1, E2. eauto.
Qed.

(* get_ctype_cls succeeds on plain fields and builds members of the recorded sizes *)
Lemma ct_fields_ok ps : Forall field_szok ps ->
  forall i, exists cts, ct_fields i ps = POk cts /\
                        map s2 cts = map (fun p => (pf_align p, pf_esize p * len_or_1 (pf_len p))) ps.
Proof.
  induction ps as [|p r IH]; intros Hs i; simpl; [exists []; auto|].
  inversion Hs as [|? ? [W K] Hr]; subst.
  destruct (IH Hr (i + 1)) as (cts & E1 & E2).
  destruct (pf_kind p) as [|[k|s0]| |] eqn:Ek.
  - destruct K as (kd & T & A). destruct (key_plain_ct _ _ _ T) as (kd' & C). rewrite C. rewrite E1.
    eexists; split; eauto. simpl. rewrite E2. unfold s2, fsize. simpl. rewrite A. reflexivity.
  - destruct K as (kd & T & A). destruct (key_plain_ct _ _ _ T) as (kd' & C). rewrite C. rewrite E1.
    eexists; split; eauto. simpl. rewrite E2. unfold s2, fsize. simpl. rewrite A. reflexivity.
  - rewrite E1. eexists; split; eauto. simpl. rewrite E2. reflexivity.
  - rewrite E1. eexists; split; eauto. simpl. rewrite E2. reflexivity.
  - rewrite E1. eexists; split; eauto. simpl. rewrite E2. reflexivity.
Qed.

Lemma rel_s2 ps fs : Forall2 rel ps fs -> map s2 fs = map (fun p => (pf_align p, pf_esize p * len_or_1 (pf_len p))) ps.
Proof.
  induction 1 as [|p f ps fs (R1 & R2 & R3 & R4) H IH]; simpl; auto.
  rewrite IH. unfold s2, fsize. rewrite R1, R2, R3. reflexivity.
Qed.

Lemma field_szok_set_poff p o : field_szok p -> field_szok (set_poff p o).
Proof. intros [W K]. split; simpl; auto. Qed.
Lemma field_plain_set_poff p o : field_plain (set_poff p o) = field_plain p.
Proof. reflexivity. Qed.

Lemma char_entry : tlookup "char" parser_types = Some (1, 3) /\ key_plain "char" = true.
Proof. split; vm_compute; reflexivity. Qed.

Definition crashed {A} (r : pres A) : Prop := exists k, r = PCrash k.

Lemma Forall2_len {A B} (R : A -> B -> Prop) l m : Forall2 R l m -> List.length l = List.length m.
Proof. induction 1; simpl; auto. Qed.

(* validate_msg_def on plain well-sized fields: accepted or rejected with a parser error, never a crash *)
Lemma finish_def_plain ap ps :
  Forall field_szok ps -> forallb field_plain ps = true ->
  match finish_def ap ps with
  | PCrash _ => False
  | PReject _ => True
  | POk (ps', sz, a) =>
    Forall field_szok ps' /\ forallb field_plain ps' = true /\ wf_sz sz a /\ ps' <> [] /\
    def_layout (mkPD "" None ps' sz a None)
  end.
Proof.
  intros Hs Hp. unfold finish_def. destruct ps as [|p0 r0] eqn:Eps; [exact I|]. rewrite <- Eps in *.
  assert (Hne : to_lfields 0 ps <> []) by (subst ps; simpl; discriminate).
  pose proof (to_lfields_wf 0 ps Hs Hp) as Hwf.
  destruct (check_alignment_total ap _ Hne Hwf) as [[[fs' a] Hok]|[Hap Herr]].
  2:{ rewrite Herr. exact I. }
  rewrite Hok.
  destruct (check_alignment_spec _ _ _ _ Hne Hwf Hok) as (G & _ & Gu).
  destruct (Gu (to_lfields_user 0 ps ltac:(lia))) as [Gs Gc].
  pose proof G as (_ & G2 & Ga & Gp & Gd & Go & Gsz & Gwf & Gpos).
  destruct (rebuild_rel (fun p => field_szok p /\ field_plain p = true) ps fs' 0 0 Gs Gc) as [R1 R2].
  { apply Forall_forall. intros p Hin. split; [exact (proj1 (Forall_forall _ _) Hs p Hin)|exact (proj1 (forallb_forall _ _) Hp p Hin)]. }
  { intros p o [A B]. split; [apply field_szok_set_poff; exact A|exact B]. }
  { intros f k Hin Hpad. pose proof (proj1 (Forall_forall _ _) Gwf f Hin) as (_ & _ & _ & Wl).
    destruct char_entry as [C1 C2]. split.
    - split; simpl; [unfold wf_sz, pow2_8; repeat split; [lia|tauto|apply Z.divide_refl]|]. exists 3. split; [exact C1|reflexivity].
    - unfold field_plain; simpl. rewrite C2, andb_true_r. destruct (f_len f); [apply Z.leb_le; exact Wl|reflexivity]. }
  set (ps' := rebuild ps fs' 0) in *.
  assert (S' : Forall field_szok ps') by (eapply Forall_impl; [|exact R2]; intros q [A _]; exact A).
  assert (P' : forallb field_plain ps' = true) by (apply forallb_forall; intros q Hq; exact (proj2 (proj1 (Forall_forall _ _) R2 q Hq))).
  destruct (ct_fields_ok ps' S' 0) as (cts & C1 & C2). rewrite C1.
  assert (Es2 : map s2 cts = map s2 fs') by (rewrite C2; symmetry; apply rel_s2; exact R1).
  rewrite (c_sizeof_s2 _ _ Es2), Gsz, Z.eqb_refl.
  destruct (max_msg_size <? total_size fs'); [exact I|].
  repeat split; auto.
  - intro E. assert (Hl : List.length ps' = List.length fs') by (eapply Forall2_len; eauto).
    rewrite E in Hl. destruct fs'; [simpl in Gpos; lia|discriminate].
  - exists fs'. simpl. split; [exact G|]. split; [reflexivity|]. split.
    + unfold lay_model. simpl. rewrite (rel_s2 _ _ R1). rewrite map_map. apply map_ext. intros q. reflexivity.
    + clear -R1. induction R1 as [|q f qs fs (_ & _ & _ & R4) H IH]; constructor; auto.
Qed.

(* ------------------------------------------------------------------ preservation, no crash *)
Lemma InvW_empty : InvW ps_empty.
Proof. constructor; simpl; constructor. Qed.

Lemma def_layout_rename n id ps sz a b : def_layout (mkPD "" None ps sz a None) -> def_layout (mkPD n id ps sz a b).
Proof. intros (fs' & H). exists fs'. exact H. Qed.

Lemma is_signal_false_fields (d : pdef) : pd_fields d <> [] -> is_signal d = false.
Proof. unfold is_signal. destruct (pd_fields d); [congruence|reflexivity]. Qed.

Lemma resolve_ftype_nocrash al ss ms t k : resolve_ftype al ss ms t <> PCrash k.
Proof.
  unfold resolve_ftype. destruct (tlookup t parser_types) as [[? ?]|]; [discriminate|].
  destruct (find_alias t al); [discriminate|]. destruct (find_def t ss); [discriminate|].
  destruct (find_def t ms) as [m|]; [destruct (is_signal m)|]; discriminate.
Qed.
Lemma resolve_field_nocrash cs al ss ms d k : resolve_field cs al ss ms d <> PCrash k.
Proof.
  unfold resolve_field. destruct (existsb (String.eqb (fd_name d)) reserved_field_names); [discriminate|].
  destruct (resolve_ftype al ss ms (fd_type d)) as [[[k0 sz] a]|k0|k0] eqn:E; [|discriminate|].
  - destruct (fd_len d) as [e|]; [|discriminate]. destruct (leval cs e) as [v|]; [|discriminate]. destruct (v <? add_fields_length_min); discriminate.
  - exfalso. exact (resolve_ftype_nocrash _ _ _ _ _ E).
Qed.
Lemma resolve_fields_nocrash cs al ss ms l k : resolve_fields cs al ss ms l <> PCrash k.
Proof.
  induction l as [|d r IH]; simpl; [discriminate|].
  destruct (resolve_field cs al ss ms d) as [p|k0|k0] eqn:E; [|discriminate|].
  - destruct (resolve_fields cs al ss ms r) as [qs|k0|k0]; try discriminate. intro H. apply IH. exact H.
  - exfalso. exact (resolve_field_nocrash _ _ _ _ _ _ E).
Qed.
Lemma resolve_body_nocrash cs al ss ms b k : resolve_body cs al ss ms b <> PCrash k.
Proof.
  destruct b as [l|n]; simpl; [apply resolve_fields_nocrash|].
  destruct (find_def n ms); [discriminate|]. destruct (find_def n ss); discriminate.
Qed.

Lemma define_plain ap st b :
  InvW st -> forallb field_plain (resolved_fields st (IStruct "" b)) = true ->
  match define ap st b with
  | PCrash _ => False
  | PReject _ => True
  | POk (ps', sz, a) => Forall field_szok ps' /\ forallb field_plain ps' = true /\ wf_sz sz a /\ ps' <> [] /\
                        def_layout (mkPD "" None ps' sz a None)
  end.
Proof.
  intros Hi Hp. unfold define. simpl in Hp.
  destruct (resolve_body (ps_consts st) (ps_aliases st) (ps_structs st) (ps_msgs st) b) as [ps|k|k] eqn:Eb; auto.
  - apply finish_def_plain; auto. eapply resolve_body_szok; eauto.
  - exfalso. exact (resolve_body_nocrash _ _ _ _ _ _ Eb).
Qed.

Lemma step_plain ap st i :
  InvW st -> forallb field_plain (resolved_fields st i) = true ->
  match step ap st i with PCrash _ => False | PReject _ => True | POk st' => InvW st' end.
Proof.
  intros Hi Hp. unfold step.
  destruct (match item_name i with Some n => used st n | None => false end); [exact I|].
  destruct i as [n e|n v|n t|n v|n v|n b|n id [b|]|ids]; simpl.
  - destruct (ceval (ps_consts st) e); [|exact I]. destruct Hi; constructor; simpl; auto.
  - destruct Hi; constructor; simpl; auto.
  - unfold resolve_alias. destruct Hi as [Ha Hs Hm].
    destruct (tlookup t parser_types) as [[sz kd]|] eqn:Et.
    + constructor; simpl; auto. apply Forall_app. split; auto. constructor; [|constructor].
      split; simpl; [eapply native_wf; eauto|eauto].
    + destruct (find_def t (ps_structs st)) as [s|] eqn:Es.
      * constructor; simpl; auto. apply Forall_app. split; auto. constructor; [|constructor].
        apply find_def_some_in in Es. pose proof (proj1 (Forall_forall _ _) Hs _ Es) as [[_ [W|[W _]]] Sg]; [congruence|].
        split; simpl; auto.
      * destruct (find_alias t (ps_aliases st)) as [a0|] eqn:Ea; [|exact I].
        constructor; simpl; auto. apply Forall_app. split; auto. constructor; [|constructor].
        apply find_alias_some_in in Ea. pose proof (proj1 (Forall_forall _ _) Ha _ Ea) as [W T]. split; simpl; auto.
  - destruct Hi; constructor; simpl; auto.
  - destruct Hi; constructor; simpl; auto.
  - pose proof (define_plain ap st b Hi Hp) as D.
    destruct (define ap st b) as [[[ps' sz] a]|k|k]; auto.
    destruct D as (D1 & D2 & D3 & D4 & D5). destruct Hi as [Ha Hs Hm]. constructor; simpl; auto.
    apply Forall_app. split; auto. constructor; [|constructor]. split.
    + split; simpl; auto; try (right; split; auto; eapply def_layout_rename; eauto).
    + apply is_signal_false_fields. exact D4.
  - pose proof (define_plain ap st b Hi Hp) as D.
    destruct (define ap st b) as [[[ps' sz] a]|k|k]; auto.
    destruct D as (D1 & D2 & D3 & D4 & D5). destruct Hi as [Ha Hs Hm]. constructor; simpl; auto.
    apply Forall_app. split; auto. constructor; [|constructor].
    split; simpl; auto; try (right; split; auto; eapply def_layout_rename; eauto).
  - destruct Hi as [Ha Hs Hm]. constructor; simpl; auto.
    apply Forall_app. split; auto. constructor; [|constructor]. split; simpl; [constructor|left; reflexivity].
  - destruct Hi as [Ha Hs Hm]. constructor; simpl; auto.
    apply Forall_app. split; auto. apply Forall_forall. intros d Hd. apply in_map_iff in Hd. destruct Hd as (z & E & _). subst d.
    split; simpl; [constructor|left; reflexivity].
Qed.

Theorem run_plain_no_crash ap l st :
  InvW st -> plain_run ap l st = true ->
  match run ap l st with PCrash _ => False | PReject _ => True | POk st' => InvW st' end.
Proof.
  revert st. induction l as [|i r IH]; simpl; intros st Hi Hp; [exact Hi|].
  apply andb_true_iff in Hp. destruct Hp as [Hp1 Hp2].
  pose proof (step_plain ap st i Hi Hp1) as S. destruct (step ap st i) as [s1|k|k]; auto.
  apply IH; assumption.
Qed.

(* plain fields stay plain in the state *)
Lemma run_plain_state ap l st st' :
  InvW st -> state_plain st = true -> plain_run ap l st = true -> run ap l st = POk st' -> state_plain st' = true.
Proof.
  revert st. induction l as [|i r IH]; simpl; intros st Hi Hsp Hp H; [inversion H; subst; exact Hsp|].
  apply andb_true_iff in Hp. destruct Hp as [Hp1 Hp2].
  pose proof (step_plain ap st i Hi Hp1) as S.
  destruct (step ap st i) as [s1|k|k] eqn:Es; try discriminate.
  apply (IH s1 S); auto.
  (* the new state is plain *)
  destruct (step_inv _ _ _ _ Es) as (_ & d & Hc & E). subst s1.
  unfold state_plain, all_defs in *.
  destruct i as [n e|n v|n t|n v|n v|n b|n id [b|]|ids]; simpl in Hc.
  - destruct (ceval (ps_consts st) e); inversion Hc; subst; exact Hsp.
  - inversion Hc; subst; exact Hsp.
  - destruct (resolve_alias (ps_aliases st) (ps_structs st) t) as [[[tg sz] a]|]; inversion Hc; subst; exact Hsp.
  - inversion Hc; subst; exact Hsp.
  - inversion Hc; subst; exact Hsp.
  - pose proof (define_plain ap st b Hi Hp1) as D.
    destruct (define ap st b) as [[[ps' sz] a]|k|k]; inversion Hc; subst. destruct D as (_ & D2 & _).
    simpl. rewrite forallb_app in *. apply andb_true_iff in Hsp. destruct Hsp as [H1 H2].
    rewrite forallb_app. simpl. rewrite H1, H2, D2. reflexivity.
  - pose proof (define_plain ap st b Hi Hp1) as D.
    destruct (define ap st b) as [[[ps' sz] a]|k|k]; inversion Hc; subst. destruct D as (_ & D2 & _).
    simpl. rewrite forallb_app in *. apply andb_true_iff in Hsp. destruct Hsp as [H1 H2].
    rewrite forallb_app. simpl. rewrite H1, H2, D2. reflexivity.
  - inversion Hc; subst. simpl. rewrite forallb_app in *. apply andb_true_iff in Hsp. destruct Hsp as [H1 H2].
    rewrite forallb_app. simpl. rewrite H1, H2. reflexivity.
  - inversion Hc; subst. simpl. rewrite forallb_app in *. apply andb_true_iff in Hsp. destruct Hsp as [H1 H2].
    rewrite forallb_app. rewrite H1, H2. simpl. apply forallb_forall. intros d Hd. apply in_map_iff in Hd.
    destruct Hd as (z & E & _). subst d. reflexivity.
Qed.

(* ------------------------------------------------------------------ layouts in the four languages *)
Lemma key_plain_tables k sz kd : key_plain k = true -> tlookup k parser_types = Some (sz, kd) -> key_agrees k sz kd.
Proof. intros _ E. apply tables_agree. exact E. Qed.

Lemma lay_s2 (tbl : list (string * (Z * Z))) (cnt : pfield -> Z) (d : pdef) :
  (forall k sz kd, key_plain k = true -> tlookup k parser_types = Some (sz, kd) -> exists kd', tlookup k tbl = Some (sz, kd')) ->
  (forall p, field_plain p = true -> (cnt p =? 0) = false /\
                                     len_or_1 (if (cnt p =? 1) || (cnt p =? 0) then None else Some (cnt p)) = len_or_1 (pf_len p)) ->
  Forall field_szok (pd_fields d) -> forallb field_plain (pd_fields d) = true ->
  map s2 (lay tbl cnt d) = map s2 (lay_model d).
Proof.
  intros Ht Hc Hs Hp. unfold lay, lay_model. rewrite !map_map. apply map_ext_in. intros p Hin.
  pose proof (proj1 (Forall_forall _ _) Hs p Hin) as [W K]. pose proof (proj1 (forallb_forall _ _) Hp p Hin) as P.
  unfold s2, fsize. simpl. destruct (Hc p P) as [Hc0 Hc1]. rewrite Hc1, Hc0.
  unfold field_plain in P. apply andb_true_iff in P. destruct P as [_ P]. unfold base_key.
  destruct (pf_kind p) as [|[k|s0]| |]; try discriminate; auto.
  - destruct K as (kd & T & A). destruct (Ht _ _ _ P T) as (kd' & E). rewrite E, A. reflexivity.
  - destruct K as (kd & T & A). destruct (Ht _ _ _ P T) as (kd' & E). rewrite E, A. reflexivity.
Qed.

Lemma count_c_len p : field_plain p = true ->
  (count_c p =? 0) = false /\ len_or_1 (if (count_c p =? 1) || (count_c p =? 0) then None else Some (count_c p)) = len_or_1 (pf_len p).
Proof.
  unfold field_plain, count_c. intros P. apply andb_true_iff in P. destruct P as [P _].
  destruct (pf_len p) as [n|]; simpl; [|split; reflexivity]. apply Z.leb_le in P.
  assert (E0 : (n =? 0) = false) by (apply Z.eqb_neq; lia). rewrite E0, orb_false_r. split; [reflexivity|].
  destruct (n =? 1) eqn:E; simpl; [apply Z.eqb_eq in E; subst; reflexivity|rewrite E0; reflexivity].
Qed.

Lemma count_py_eq p : field_plain p = true -> count_py p = count_c p.
Proof.
  unfold field_plain, count_py, count_c. intros P. apply andb_true_iff in P. destruct P as [P _].
  destruct (pf_len p) as [n|]; auto. apply Z.leb_le in P.
  destruct (base_key p).
  - destruct (n <=? 1) eqn:E; auto. apply Z.leb_le in E. lia.
  - destruct (n =? 0) eqn:E; auto. apply Z.eqb_eq in E. lia.
Qed.

(* C04_layout: the natural C layout of the emitted C struct, the ctypes layout of the emitted Python class and
   the recorded layout coincide: same offsets, same sizeof = recorded type_size *)
Theorem layouts_agree st d :
  InvW st -> state_plain st = true -> In d (all_defs st) -> is_signal d = false ->
  let offs := explicit_offsets (lay_model d) 0 in
  c_offsets (lay_c d) 0 = (offs, pd_size d) /\ c_offsets (lay_py d) 0 = (offs, pd_size d) /\
  c_sizeof (lay_c d) = pd_size d /\ c_sizeof (lay_py d) = pd_size d /\ total_size (lay_model d) = pd_size d.
Proof.
  intros [Ha Hs Hm] Hsp Hd Hsig offs.
  assert (Hdef : def_szok d).
  { unfold all_defs in Hd. apply in_app_or in Hd. destruct Hd as [Hd|Hd].
    - exact (proj1 (proj1 (Forall_forall _ _) Hs d Hd)).
    - exact (proj1 (Forall_forall _ _) Hm d Hd). }
  destruct Hdef as [Fs [Sg|[W (fs' & G & Esz & Es2 & Eoff)]]]; [congruence|].
  assert (Fp : forallb field_plain (pd_fields d) = true) by (exact (proj1 (forallb_forall _ _) Hsp d Hd)).
  assert (Ec : map s2 (lay_c d) = map s2 fs').
  { rewrite Es2. apply lay_s2; auto.
    - intros k sz kd P T. exists kd. exact (ka_c _ _ _ (key_plain_tables _ _ _ P T)).
    - apply count_c_len. }
  assert (Ep : map s2 (lay_py d) = map s2 fs').
  { rewrite Es2. apply lay_s2; auto.
    - intros k sz kd P T. exists kd. exact (ka_py _ _ _ (key_plain_tables _ _ _ P T)).
    - intros p P. rewrite (count_py_eq p P). apply count_c_len. exact P. }
  destruct G as (_ & _ & _ & _ & _ & Go & Gsz & _ & _).
  assert (Eo : explicit_offsets fs' 0 = offs).
  { unfold offs. clear -Es2. generalize 0. revert Es2. generalize (lay_model d). induction fs' as [|f r IH]; intros l E z;
      destruct l as [|g q]; simpl in E; try discriminate; auto. inversion E as [[E1 E2 E3]]. simpl. rewrite E2. f_equal. apply IH. exact E3. }
  rewrite (c_offsets_s2 _ _ Ec), (c_offsets_s2 _ _ Ep), (c_sizeof_s2 _ _ Ec), (c_sizeof_s2 _ _ Ep).
  rewrite <- (total_size_s2 _ _ Es2). rewrite Go, Gsz, Eo, <- Esz. repeat split; reflexivity.
Qed.

(* ------------------------------------------------------------------ signatures in the four languages *)
Lemma class_via_tables tbl (f : eclass -> eclass) p :
  (forall k sz kd, key_plain k = true -> tlookup k parser_types = Some (sz, kd) -> f (class_via tbl (mkPF "" k FNat None 0 0 0)) = f (ECNat sz kd)) ->
  field_szok p -> field_plain p = true -> f (class_via tbl p) = f (class_via parser_types p).
Proof.
  intros Ht [W K] P. unfold field_plain in P. apply andb_true_iff in P. destruct P as [_ P].
  unfold class_via, base_key in *. destruct (pf_kind p) as [|[k|s0]| |]; try discriminate; auto.
  - destruct K as (kd & T & A). rewrite T. specialize (Ht _ _ _ P T). simpl in Ht. exact Ht.
  - destruct K as (kd & T & A). rewrite T. specialize (Ht _ _ _ P T). simpl in Ht. exact Ht.
Qed.

Definition sig_fields (tbl : list (string * (Z * Z))) (cnt : pfield -> Z) (f : eclass -> eclass) (d : pdef) :=
  map (fun p => (pf_name p, f (class_via tbl p), cnt p)) (pd_fields d).

Lemma sig_fields_eq tbl cnt f d :
  (forall k sz kd, key_plain k = true -> tlookup k parser_types = Some (sz, kd) -> f (class_via tbl (mkPF "" k FNat None 0 0 0)) = f (ECNat sz kd)) ->
  (forall p, field_plain p = true -> cnt p = count_model p) ->
  Forall field_szok (pd_fields d) -> forallb field_plain (pd_fields d) = true ->
  sig_fields tbl cnt f d = sig_fields parser_types count_model f d.
Proof.
  intros Ht Hc Hs Hp. unfold sig_fields. apply map_ext_in. intros p Hin.
  pose proof (proj1 (Forall_forall _ _) Hs p Hin) as S. pose proof (proj1 (forallb_forall _ _) Hp p Hin) as P.
  rewrite (class_via_tables tbl f p Ht S P), (Hc p P). reflexivity.
Qed.

Lemma count_c_model p : field_plain p = true -> count_c p = count_model p.
Proof.
  unfold field_plain, count_c, count_model, len_or_1. intros P. apply andb_true_iff in P. destruct P as [P _].
  destruct (pf_len p) as [n|]; auto. apply Z.leb_le in P. destruct (n =? 0) eqn:E; auto. apply Z.eqb_eq in E. lia.
Qed.

Lemma class_plain_nat tbl k : class_via tbl (mkPF "" k FNat None 0 0 0) = match tlookup k tbl with Some (w, kd) => ECNat w kd | None => ECUnknown end.
Proof. reflexivity. Qed.

(* C04_sig: field names, order, element classes and array lengths of every struct and message are the same
   function of the parsed model in all four outputs (JavaScript modulo widths, MATLAB modulo char = int8) *)
Theorem signatures_agree st d :
  InvW st -> state_plain st = true -> In d (all_defs st) ->
  sig_fields pydesc_types count_py (fun c => c) d = sig_fields parser_types count_model (fun c => c) d /\
  sig_fields c_types count_c (fun c => c) d = sig_fields parser_types count_model (fun c => c) d /\
  sig_fields js_types count_c erase_js d = sig_fields parser_types count_model erase_js d /\
  sig_fields matlab_types count_c norm_matlab d = sig_fields parser_types count_model norm_matlab d.
Proof.
  intros [Ha Hs Hm] Hsp Hd.
  assert (Hdef : def_szok d).
  { unfold all_defs in Hd. apply in_app_or in Hd. destruct Hd as [Hd|Hd].
    - exact (proj1 (proj1 (Forall_forall _ _) Hs d Hd)).
    - exact (proj1 (Forall_forall _ _) Hm d Hd). }
  destruct Hdef as [Fs _].
  assert (Fp : forallb field_plain (pd_fields d) = true) by (exact (proj1 (forallb_forall _ _) Hsp d Hd)).
  repeat split; apply sig_fields_eq; auto.
  - intros k sz kd P T. rewrite class_plain_nat, (ka_pyd _ _ _ (key_plain_tables _ _ _ P T)). reflexivity.
  - intros p P. rewrite (count_py_eq p P). apply count_c_model. exact P.
  - intros k sz kd P T. rewrite class_plain_nat, (ka_c _ _ _ (key_plain_tables _ _ _ P T)). reflexivity.
  - apply count_c_model.
  - intros k sz kd P T. rewrite class_plain_nat, (ka_js _ _ _ (key_plain_tables _ _ _ P T)). simpl.
    destruct (kd =? 3) eqn:E; simpl; rewrite ?E; reflexivity.
  - apply count_c_model.
  - intros k sz kd P T. rewrite class_plain_nat, (ka_m _ _ _ (key_plain_tables _ _ _ P T)). simpl.
    destruct (kd =? 3) eqn:E; simpl; rewrite ?E; reflexivity.
  - apply count_c_model.
Qed.

(* ------------------------------------------------------------------ every parsed state is plain *)
Lemma szok_plain p : field_szok p -> match pf_len p with Some n => 1 <= n | None => True end -> field_plain p = true.
Proof.
  intros [W K] Hl. unfold field_plain. apply andb_true_iff. split.
  - destruct (pf_len p); [apply Z.leb_le; exact Hl|reflexivity].
  - unfold key_plain. destruct (pf_kind p) as [|[k|s0]| |]; auto; destruct K as (kd & T & _); rewrite T; reflexivity.
Qed.

Lemma resolve_fields_len cs al ss ms l ps : resolve_fields cs al ss ms l = POk ps ->
  Forall (fun p => match pf_len p with Some n => 1 <= n | None => True end) ps.
Proof.
  revert ps. induction l as [|d r IH]; simpl; intros ps H; [inversion H; constructor|].
  destruct (resolve_field cs al ss ms d) as [p|k|k] eqn:E; try discriminate.
  destruct (resolve_fields cs al ss ms r) as [qs|k|k] eqn:E2; try discriminate.
  inversion H; subst. constructor; [|apply IH; reflexivity].
  unfold resolve_field in E. destruct (existsb (String.eqb (fd_name d)) reserved_field_names); [discriminate|].
  destruct (resolve_ftype al ss ms (fd_type d)) as [[[k sz] a]|k|k]; try discriminate.
  destruct (fd_len d) as [e|]; [|inversion E; subst; exact I].
  destruct (leval cs e) as [v|]; [|discriminate]. destruct (v <? add_fields_length_min) eqn:Ev; [discriminate|].
  inversion E; subst. simpl. apply Z.ltb_ge in Ev. unfold add_fields_length_min in Ev. exact Ev.
Qed.

Lemma resolved_plain st i : InvW st -> state_plain st = true -> forallb field_plain (resolved_fields st i) = true.
Proof.
  intros Hi Hsp.
  assert (Hb : forall b, forallb field_plain
                 (match resolve_body (ps_consts st) (ps_aliases st) (ps_structs st) (ps_msgs st) b with POk ps => ps | _ => [] end) = true).
  { intros b. destruct (resolve_body (ps_consts st) (ps_aliases st) (ps_structs st) (ps_msgs st) b) as [ps|k|k] eqn:Eb; auto.
    destruct b as [l|n].
    - pose proof (resolve_body_szok _ _ _ Hi Eb) as S. simpl in Eb. pose proof (resolve_fields_len _ _ _ _ _ _ Eb) as Ln.
      apply forallb_forall. intros p Hp. apply szok_plain.
      + exact (proj1 (Forall_forall _ _) S p Hp).
      + exact (proj1 (Forall_forall _ _) Ln p Hp).
    - simpl in Eb. unfold state_plain, all_defs in Hsp. rewrite forallb_app in Hsp. apply andb_true_iff in Hsp. destruct Hsp as [H1 H2].
      destruct (find_def n (ps_msgs st)) as [m|] eqn:Em.
      + inversion Eb; subst. apply find_def_some_in in Em. exact (proj1 (forallb_forall _ _) H2 _ Em).
      + destruct (find_def n (ps_structs st)) as [s|] eqn:Es; [|discriminate].
        inversion Eb; subst. apply find_def_some_in in Es. exact (proj1 (forallb_forall _ _) H1 _ Es). }
  destruct i as [n e|n v|n t|n v|n v|n b|n id [b|]|ids]; simpl; auto.
Qed.

Lemma plain_run_always ap l : forall st, InvW st -> state_plain st = true -> plain_run ap l st = true.
Proof.
  induction l as [|i r IH]; simpl; intros st Hi Hsp; auto.
  pose proof (resolved_plain st i Hi Hsp) as Hp. rewrite Hp. simpl.
  destruct (step ap st i) as [s1|k|k] eqn:Es; auto.
  apply IH.
  - pose proof (step_plain ap st i Hi Hp) as S. rewrite Es in S. exact S.
  - apply (run_plain_state ap [i] st s1 Hi Hsp).
    + simpl. rewrite Hp, Es. reflexivity.
    + simpl. rewrite Es. reflexivity.
Qed.

(* C15_total: the model of Parser.parse never ends in an internal error *)
Theorem parse_never_crashes ap l k : parse_items ap l <> PCrash k.
Proof.
  intro E. pose proof (run_plain_no_crash ap l ps_empty InvW_empty (plain_run_always ap l ps_empty InvW_empty eq_refl)) as G.
  unfold parse_items in E. rewrite E in G. exact G.
Qed.

Theorem parsed_invw ap l st : parse_items ap l = POk st -> InvW st /\ state_plain st = true.
Proof.
  intros H. pose proof (plain_run_always ap l ps_empty InvW_empty eq_refl) as Hp. split.
  - pose proof (run_plain_no_crash ap l ps_empty InvW_empty Hp) as G. unfold parse_items in H. rewrite H in G. exact G.
  - exact (run_plain_state ap l ps_empty st InvW_empty eq_refl Hp H).
Qed.

(* every native key a parsed field reaches has a JavaScript default value (tables) *)
Lemma parsed_js_natives st : InvW st -> js_natives_known st = true.
Proof.
  intros [Ha Hs Hm]. unfold js_natives_known. apply forallb_forall. intros d Hd. apply forallb_forall. intros p Hp.
  assert (Hdef : def_szok d).
  { unfold all_defs in Hd. apply in_app_or in Hd. destruct Hd as [Hd|Hd].
    - exact (proj1 (proj1 (Forall_forall _ _) Hs d Hd)).
    - exact (proj1 (Forall_forall _ _) Hm d Hd). }
  destruct Hdef as [Fs _]. pose proof (proj1 (Forall_forall _ _) Fs p Hp) as [_ K].
  unfold field_js_native, js_has. destruct (pf_kind p) as [|[k|s0]| |]; auto;
    destruct K as (kd & T & _); rewrite (ka_js _ _ _ (tables_agree _ _ _ T)); reflexivity.
Qed.
