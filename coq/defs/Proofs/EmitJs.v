(* C15_js_fresh: a JavaScript factory returns an object tree without shared objects, unless some field is
   `Array(n).fill(f())` with n >= 2 and f a struct/message factory (one evaluation, n references). *)
From Coq Require Import ZArith List Bool String Lia.
From Defs Require Import Gen.TypeTables Model.Layout Model.Emit Proofs.EmitCombined Proofs.EmitScope.
Import ListNotations.
Open Scope string_scope. Open Scope list_scope. Open Scope Z_scope.

Definition field_no_shared_fill (p : pfield) : bool :=
  match js_form p with
  | JFill n (JTypeMap _) => true
  | JFill n _ => n <=? 1
  | _ => true
  end.
(* construct class 4 (JavaScript): "array of structs or messages" *)
Definition no_shared_fill (st : pstate) : bool :=
  forallb (fun d => forallb field_no_shared_fill (pd_fields d)) (all_defs st).

Definition good (cnt : Z) (v : jsval) (cnt' : Z) : Prop :=
  cnt <= cnt' /\ Forall (fun id => cnt <= id < cnt') (obj_ids v) /\ NoDup (obj_ids v).

Lemma nodup_app_range (a b : list Z) lo mid hi :
  Forall (fun id => lo <= id < mid) a -> Forall (fun id => mid <= id < hi) b -> NoDup a -> NoDup b -> NoDup (a ++ b).
Proof.
  induction a as [|x r IH]; simpl; intros Ha Hb Na Nb; auto.
  inversion Ha; subst. inversion Na; subst. constructor; [|apply IH; auto].
  intro Hin. apply in_app_or in Hin. destruct Hin as [Hin|Hin]; [contradiction|].
  pose proof (proj1 (Forall_forall _ _) Hb _ Hin). simpl in *. lia.
Qed.

Lemma Forall_range_weaken (l : list Z) lo hi lo' hi' :
  lo' <= lo -> hi <= hi' -> Forall (fun id => lo <= id < hi) l -> Forall (fun id => lo' <= id < hi') l.
Proof. intros H1 H2 H. eapply Forall_impl; [|exact H]. simpl. intros. lia. Qed.

Lemma jrepeat_one {A} (l : list A) : jrepeat 1 l = l.
Proof. simpl. apply app_nil_r. Qed.

Section Fields.
  Variable call : jcallee -> Z -> jres (jsval * Z).
  Hypothesis call_good : forall c cnt v cnt', call c cnt = JOk (v, cnt') -> good cnt v cnt'.
  Hypothesis call_prim : forall k cnt v cnt', call (JTypeMap k) cnt = JOk (v, cnt') -> obj_ids v = [].

  Lemma js_fields_good ps cnt fs c2 :
    forallb field_no_shared_fill ps = true -> js_fields call ps cnt = JOk (fs, c2) ->
    cnt <= c2 /\ Forall (fun id => cnt <= id < c2) (flat_map (fun x => obj_ids (snd x)) fs)
    /\ NoDup (flat_map (fun x => obj_ids (snd x)) fs).
  Proof.
    revert cnt fs c2. induction ps as [|p r IH]; simpl; intros cnt fs c2 Hx H.
    - inversion H; subst. simpl. repeat split; [lia|constructor|constructor].
    - apply andb_true_iff in Hx. destruct Hx as [Hp Hr].
      assert (Hv : forall v c1, (match js_form p with
                                 | JScalar c' => call c' cnt
                                 | JString _ => JOk (JPrim true, cnt)
                                 | JFill n c' => match call c' cnt with JOk (v, cnt') => JOk (JArr cnt' n v, cnt' + 1) | JErr => JErr end
                                 end) = JOk (v, c1) -> good cnt v c1).
      { intros v c1 Hv. unfold field_no_shared_fill in Hp. destruct (js_form p) as [c'|n c'|n].
        - apply call_good in Hv. exact Hv.
        - destruct (call c' cnt) as [[v0 c0]|] eqn:Ec; [|discriminate]. inversion Hv; subst. clear Hv.
          pose proof (call_good _ _ _ _ Ec) as (G1 & G2 & G3).
          assert (Hids : obj_ids (JArr c0 n v0) = c0 :: obj_ids v0 \/ obj_ids (JArr c0 n v0) = [c0]).
          { simpl. destruct c' as [k|a|sn|mn].
            - right. rewrite (call_prim _ _ _ _ Ec). induction (Z.to_nat n); simpl; auto.
            - apply Z.leb_le in Hp. destruct (Z.to_nat n) as [|[|m]] eqn:En; simpl; [right; auto|left; rewrite app_nil_r; auto|exfalso; lia].
            - apply Z.leb_le in Hp. destruct (Z.to_nat n) as [|[|m]] eqn:En; simpl; [right; auto|left; rewrite app_nil_r; auto|exfalso; lia].
            - apply Z.leb_le in Hp. destruct (Z.to_nat n) as [|[|m]] eqn:En; simpl; [right; auto|left; rewrite app_nil_r; auto|exfalso; lia]. }
          unfold good. destruct Hids as [E|E]; rewrite E.
          + repeat split; [lia| |].
            * constructor; [lia|]. eapply Forall_range_weaken; [| |exact G2]; lia.
            * constructor; auto. intro Hin. pose proof (proj1 (Forall_forall _ _) G2 _ Hin). simpl in *. lia.
          + repeat split; [lia|constructor; [lia|constructor]|constructor; [intros []|constructor]].
        - inversion Hv; subst. unfold good. simpl. repeat split; [lia|constructor|constructor]. }
      destruct (match js_form p with
                | JScalar c' => call c' cnt
                | JString _ => JOk (JPrim true, cnt)
                | JFill n c' => match call c' cnt with JOk (v, cnt') => JOk (JArr cnt' n v, cnt' + 1) | JErr => JErr end
                end) as [[v c1]|] eqn:Ev; [|discriminate].
      destruct (Hv _ _ eq_refl) as (V1 & V2 & V3).
      destruct (js_fields call r c1) as [[fs' c2']|] eqn:Er; [|discriminate]. inversion H; subst. clear H.
      destruct (IH _ _ _ Hr Er) as (R1 & R2 & R3). simpl. repeat split; [lia| |].
      + apply Forall_app. split.
        * apply (Forall_range_weaken _ cnt c1 cnt c2); [lia|lia|exact V2].
        * apply (Forall_range_weaken _ c1 c2 cnt c2); [lia|lia|exact R2].
      + apply (nodup_app_range _ _ cnt c1 c2); assumption.
  Qed.
End Fields.

Lemma js_call_good st : no_shared_fill st = true ->
  forall fuel c cnt v cnt', js_call st fuel c cnt = JOk (v, cnt') ->
  good cnt v cnt' /\ (forall k, c = JTypeMap k -> obj_ids v = []).
Proof.
  intros Hx. induction fuel as [|k IH]; intros c cnt v cnt' H; [discriminate|].
  simpl in H. destruct c as [key|a|n|n].
  - unfold js_prim in H. destruct (tlookup key js_types) as [[w kd]|]; [|discriminate]. inversion H; subst.
    split; [|reflexivity]. unfold good. simpl. repeat split; [lia|constructor|constructor].
  - discriminate.
  - destruct (find_def n (ps_structs st)) as [d|] eqn:Ed; [|discriminate].
    destruct (js_fields (js_call st k) (pd_fields d) (cnt + 1)) as [[fs c2]|] eqn:Ef; [|discriminate]. inversion H; subst.
    split; [|intros k0 E; discriminate].
    assert (Hd : forallb field_no_shared_fill (pd_fields d) = true).
    { unfold no_shared_fill in Hx. apply (proj1 (forallb_forall _ _) Hx d). unfold all_defs. apply in_or_app. left.
      eapply find_def_some_in; eauto. }
    destruct (js_fields_good (js_call st k) (fun c0 cn v0 cn' E => proj1 (IH c0 cn v0 cn' E))
                (fun k0 cn v0 cn' E => proj2 (IH _ cn v0 cn' E) k0 eq_refl) _ _ _ _ Hd Ef) as (F1 & F2 & F3).
    unfold good. simpl. repeat split; [lia| |].
    + constructor; [lia|]. eapply Forall_range_weaken; [| |exact F2]; lia.
    + constructor; auto. intro Hin. pose proof (proj1 (Forall_forall _ _) F2 _ Hin). simpl in *. lia.
  - destruct (find_def n (ps_msgs st)) as [d|] eqn:Ed; [|discriminate].
    destruct (js_fields (js_call st k) (pd_fields d) (cnt + 1)) as [[fs c2]|] eqn:Ef; [|discriminate]. inversion H; subst.
    split; [|intros k0 E; discriminate].
    assert (Hd : forallb field_no_shared_fill (pd_fields d) = true).
    { unfold no_shared_fill in Hx. apply (proj1 (forallb_forall _ _) Hx d). unfold all_defs. apply in_or_app. right.
      eapply find_def_some_in; eauto. }
    destruct (js_fields_good (js_call st k) (fun c0 cn v0 cn' E => proj1 (IH c0 cn v0 cn' E))
                (fun k0 cn v0 cn' E => proj2 (IH _ cn v0 cn' E) k0 eq_refl) _ _ _ _ Hd Ef) as (F1 & F2 & F3).
    unfold good. simpl. repeat split; [lia| |].
    + constructor; [lia|]. eapply Forall_range_weaken; [| |exact F2]; lia.
    + constructor; auto. intro Hin. pose proof (proj1 (Forall_forall _ _) F2 _ Hin). simpl in *. lia.
Qed.

Lemma nodupb_true l : NoDup l -> nodupb l = true.
Proof.
  induction 1 as [|x r Hn Hd IH]; simpl; auto. rewrite IH, andb_true_r. apply negb_true_iff.
  destruct (existsb (Z.eqb x) r) eqn:E; auto. apply existsb_exists in E. destruct E as (y & Hy & Exy).
  apply Z.eqb_eq in Exy. subst. contradiction.
Qed.

Theorem js_fresh_partial st : no_shared_fill st = true ->
  forall fuel c cnt v cnt', js_call st fuel c cnt = JOk (v, cnt') -> js_fresh v = true.
Proof.
  intros Hx fuel c cnt v cnt' H. destruct (proj1 (js_call_good st Hx fuel c cnt v cnt' H)) as (_ & _ & N).
  apply nodupb_true. exact N.
Qed.

(* two calls of a factory never share an object: the second call allocates from where the first stopped *)
Theorem js_calls_disjoint st : no_shared_fill st = true ->
  forall f1 f2 c1 c2 v1 v2 n1 n2, js_call st f1 c1 0 = JOk (v1, n1) -> js_call st f2 c2 n1 = JOk (v2, n2) ->
  forall id, In id (obj_ids v1) -> ~ In id (obj_ids v2).
Proof.
  intros Hx f1 f2 c1 c2 v1 v2 n1 n2 H1 H2 id I1 I2.
  destruct (proj1 (js_call_good st Hx _ _ _ _ _ H1)) as (_ & G1 & _).
  destruct (proj1 (js_call_good st Hx _ _ _ _ _ H2)) as (_ & G2 & _).
  pose proof (proj1 (Forall_forall _ _) G1 _ I1). pose proof (proj1 (Forall_forall _ _) G2 _ I2). simpl in *. lia.
Qed.
