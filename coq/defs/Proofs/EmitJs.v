(* C15_js_fresh: a JavaScript factory returns an object tree without shared objects: every object and array
   literal is a new allocation, and `Array.from({length: n}, () => f())` evaluates f once per element. *)
From Coq Require Import ZArith List Bool String Lia.
From Defs Require Import Gen.TypeTables Model.Layout Model.Emit Proofs.EmitCombined Proofs.EmitScope.
Import ListNotations.
Open Scope string_scope. Open Scope list_scope. Open Scope Z_scope.

Definition in_range (lo hi : Z) (l : list Z) : Prop := Forall (fun id => lo <= id < hi) l.
Definition good (cnt : Z) (v : jsval) (cnt' : Z) : Prop :=
  cnt <= cnt' /\ in_range cnt cnt' (obj_ids v) /\ NoDup (obj_ids v).

Lemma nodup_app_range (a b : list Z) lo mid hi :
  in_range lo mid a -> in_range mid hi b -> NoDup a -> NoDup b -> NoDup (a ++ b).
Proof.
  induction a as [|x r IH]; simpl; intros Ha Hb Na Nb; auto.
  inversion Ha; subst. inversion Na; subst. constructor; [|apply IH; auto].
  intro Hin. apply in_app_or in Hin. destruct Hin as [Hin|Hin]; [contradiction|].
  pose proof (proj1 (Forall_forall _ _) Hb _ Hin). simpl in *. lia.
Qed.

Lemma range_weaken (l : list Z) lo hi lo' hi' : lo' <= lo -> hi <= hi' -> in_range lo hi l -> in_range lo' hi' l.
Proof. intros H1 H2 H. eapply Forall_impl; [|exact H]. simpl. intros. lia. Qed.

Lemma js_rep_good (call : Z -> jres (jsval * Z)) :
  (forall cnt v c1, call cnt = JOk (v, c1) -> good cnt v c1) ->
  forall n cnt vs c2, js_rep call n cnt = JOk (vs, c2) ->
  cnt <= c2 /\ in_range cnt c2 (flat_map obj_ids vs) /\ NoDup (flat_map obj_ids vs).
Proof.
  intros Hc. induction n as [|k IH]; simpl; intros cnt vs c2 H.
  - inversion H; subst. simpl. repeat split; [lia|constructor|constructor].
  - destruct (call cnt) as [[v c1]|] eqn:E; [|discriminate].
    destruct (js_rep call k c1) as [[vs' c2']|] eqn:Er; [|discriminate]. inversion H; subst.
    destruct (Hc _ _ _ E) as (V1 & V2 & V3). destruct (IH _ _ _ Er) as (R1 & R2 & R3). simpl. repeat split; [lia| |].
    + apply Forall_app. split.
      * apply (range_weaken _ cnt c1 cnt c2); [lia|lia|exact V2].
      * apply (range_weaken _ c1 c2 cnt c2); [lia|lia|exact R2].
    + apply (nodup_app_range _ _ cnt c1 c2); assumption.
Qed.

Section Fields.
  Variable call : jcallee -> Z -> jres (jsval * Z).
  Hypothesis call_good : forall c cnt v cnt', call c cnt = JOk (v, cnt') -> good cnt v cnt'.

  Lemma js_fields_good ps cnt fs c2 :
    js_fields call ps cnt = JOk (fs, c2) ->
    cnt <= c2 /\ in_range cnt c2 (flat_map (fun x => obj_ids (snd x)) fs) /\ NoDup (flat_map (fun x => obj_ids (snd x)) fs).
  Proof.
    revert cnt fs c2. induction ps as [|p r IH]; simpl; intros cnt fs c2 H.
    - inversion H; subst. simpl. repeat split; [lia|constructor|constructor].
    - assert (Hv : forall v c1, (match js_form p with
                                 | JScalar c' => call c' cnt
                                 | JString _ => JOk (JPrim true, cnt)
                                 | JFill n c' => match js_rep (call c') (Z.to_nat n) cnt with
                                                 | JOk (vs, cnt') => JOk (JArr cnt' vs, cnt' + 1) | JErr => JErr end
                                 end) = JOk (v, c1) -> good cnt v c1).
      { intros v c1 Hv. destruct (js_form p) as [c'|n c'|n].
        - apply call_good in Hv. exact Hv.
        - destruct (js_rep (call c') (Z.to_nat n) cnt) as [[vs c0]|] eqn:Ec; [|discriminate]. inversion Hv; subst. clear Hv.
          destruct (js_rep_good (call c') (call_good c') _ _ _ _ Ec) as (G1 & G2 & G3).
          unfold good. simpl. repeat split; [lia| |].
          + constructor; [lia|]. apply (range_weaken _ cnt c0 cnt (c0 + 1)); [lia|lia|exact G2].
          + constructor; auto. intro Hin. pose proof (proj1 (Forall_forall _ _) G2 _ Hin). simpl in *. lia.
        - inversion Hv; subst. unfold good. simpl. repeat split; [lia|constructor|constructor]. }
      destruct (match js_form p with
                | JScalar c' => call c' cnt
                | JString _ => JOk (JPrim true, cnt)
                | JFill n c' => match js_rep (call c') (Z.to_nat n) cnt with
                                | JOk (vs, cnt') => JOk (JArr cnt' vs, cnt' + 1) | JErr => JErr end
                end) as [[v c1]|] eqn:Ev; [|discriminate].
      destruct (Hv _ _ eq_refl) as (V1 & V2 & V3).
      destruct (js_fields call r c1) as [[fs' c2']|] eqn:Er; [|discriminate]. inversion H; subst. clear H.
      destruct (IH _ _ _ Er) as (R1 & R2 & R3). simpl. repeat split; [lia| |].
      + apply Forall_app. split.
        * apply (range_weaken _ cnt c1 cnt c2); [lia|lia|exact V2].
        * apply (range_weaken _ c1 c2 cnt c2); [lia|lia|exact R2].
      + apply (nodup_app_range _ _ cnt c1 c2); assumption.
  Qed.
End Fields.

Lemma js_call_good st : forall fuel c cnt v cnt', js_call st fuel c cnt = JOk (v, cnt') -> good cnt v cnt'.
Proof.
  induction fuel as [|k IH]; intros c cnt v cnt' H; [discriminate|].
  simpl in H. destruct c as [key|a|n|n].
  - unfold js_prim in H. destruct (tlookup key js_types) as [[w kd]|]; [|discriminate]. inversion H; subst.
    unfold good. simpl. repeat split; [lia|constructor|constructor].
  - destruct (find_alias a (ps_aliases st)) as [al|]; [|discriminate]. destruct (pa_target al) as [key|s0]; [|discriminate].
    unfold js_prim in H. destruct (tlookup key js_types) as [[w kd]|]; [|discriminate]. inversion H; subst.
    unfold good. simpl. repeat split; [lia|constructor|constructor].
  - destruct (find_def n (ps_structs st)) as [d|] eqn:Ed; [|discriminate].
    destruct (js_fields (js_call st k) (pd_fields d) (cnt + 1)) as [[fs c2]|] eqn:Ef; [|discriminate]. inversion H; subst.
    destruct (js_fields_good (js_call st k) IH _ _ _ _ Ef) as (F1 & F2 & F3).
    unfold good. simpl. repeat split; [lia| |].
    + constructor; [lia|]. apply (range_weaken _ (cnt + 1) cnt' cnt cnt'); [lia|lia|exact F2].
    + constructor; auto. intro Hin. pose proof (proj1 (Forall_forall _ _) F2 _ Hin). simpl in *. lia.
  - destruct (find_def n (ps_msgs st)) as [d|] eqn:Ed; [|discriminate].
    destruct (js_fields (js_call st k) (pd_fields d) (cnt + 1)) as [[fs c2]|] eqn:Ef; [|discriminate]. inversion H; subst.
    destruct (js_fields_good (js_call st k) IH _ _ _ _ Ef) as (F1 & F2 & F3).
    unfold good. simpl. repeat split; [lia| |].
    + constructor; [lia|]. apply (range_weaken _ (cnt + 1) cnt' cnt cnt'); [lia|lia|exact F2].
    + constructor; auto. intro Hin. pose proof (proj1 (Forall_forall _ _) F2 _ Hin). simpl in *. lia.
Qed.

Lemma nodupb_true l : NoDup l -> nodupb l = true.
Proof.
  induction 1 as [|x r Hn Hd IH]; simpl; auto. rewrite IH, andb_true_r. apply negb_true_iff.
  destruct (existsb (Z.eqb x) r) eqn:E; auto. apply existsb_exists in E. destruct E as (y & Hy & Exy).
  apply Z.eqb_eq in Exy. subst. contradiction.
Qed.

(* every successful call of every callee, for every parsed state: no object is reachable twice *)
Theorem js_fresh_always st fuel c cnt v cnt' : js_call st fuel c cnt = JOk (v, cnt') -> js_fresh v = true.
Proof.
  intros H. destruct (js_call_good st fuel c cnt v cnt' H) as (_ & _ & N). apply nodupb_true. exact N.
Qed.

(* two calls never share an object: the second allocates from where the first stopped *)
Theorem js_calls_disjoint st :
  forall f1 f2 c1 c2 v1 v2 n1 n2, js_call st f1 c1 0 = JOk (v1, n1) -> js_call st f2 c2 n1 = JOk (v2, n2) ->
  forall id, In id (obj_ids v1) -> ~ In id (obj_ids v2).
Proof.
  intros f1 f2 c1 c2 v1 v2 n1 n2 H1 H2 id I1 I2.
  destruct (js_call_good st _ _ _ _ _ H1) as (_ & G1 & _). destruct (js_call_good st _ _ _ _ _ H2) as (_ & G2 & _).
  pose proof (proj1 (Forall_forall _ _) G1 _ I1). pose proof (proj1 (Forall_forall _ _) G2 _ I2). simpl in *. lia.
Qed.
