(* C15 (scoping): invariants of the parsed state and well-scopedness of the emission event lists. *)
From Coq Require Import ZArith List Bool String Lia Arith PeanoNat.
From Defs Require Import Gen.TypeTables Gen.EmitGuards Model.Layout Model.Emit Proofs.EmitCombined.
Import ListNotations.
Open Scope string_scope. Open Scope list_scope. Open Scope Z_scope.

(* ------------------------------------------------------------------ what a field refers to *)
Definition kind_struct_in (names : list string) (p : pfield) : Prop := pf_kind p = FStruct -> In (pf_ty p) names.
Definition kind_msg_in (names : list string) (p : pfield) : Prop := pf_kind p = FMsg -> In (pf_ty p) names.
Definition kind_alias_in (al : list palias) (p : pfield) : Prop :=
  forall t, pf_kind p = FAlias t -> exists a, find_alias (pf_ty p) al = Some a /\ pa_target a = t.
Definition aext (al al' : list palias) : Prop := forall n a, find_alias n al = Some a -> find_alias n al' = Some a.
Lemma aext_refl al : aext al al.
Proof. intros n a H. exact H. Qed.
Lemma aext_app al x : aext al (al ++ x).
Proof. intros n a H. apply find_alias_app_some. exact H. Qed.
Definition kind_nat_ok (p : pfield) : Prop := pf_kind p = FNat -> exists v, tlookup (pf_ty p) parser_types = Some v.
Definition fin (an : list palias) (sn mn : list string) (p : pfield) : Prop :=
  kind_struct_in sn p /\ kind_msg_in mn p /\ kind_alias_in an p /\ kind_nat_ok p.

Definition prefix_ok (R : list pdef -> pdef -> Prop) (ds : list pdef) : Prop :=
  forall earlier d later, ds = earlier ++ d :: later -> R earlier d.

Lemma prefix_ok_nil R : prefix_ok R [].
Proof. intros e d l H. destruct e; discriminate. Qed.

Lemma prefix_ok_snoc R ds d : prefix_ok R ds -> R ds d -> prefix_ok R (ds ++ [d]).
Proof.
  intros H Hd e d0 l E.
  destruct (exists_last (l:=d0 :: l) ltac:(discriminate)) as (l' & z & El).
  destruct l as [|y l2].
  - assert (E' : ds ++ [d] = e ++ [d0]) by exact E. apply app_inj_tail in E'. destruct E' as [E1 E2]. subst. exact Hd.
  - destruct (exists_last (l:=y :: l2) ltac:(discriminate)) as (l3 & z3 & El3). rewrite El3 in E.
    assert (E' : ds ++ [d] = (e ++ d0 :: l3) ++ [z3]) by (rewrite <- app_assoc; exact E).
    apply app_inj_tail in E'. destruct E' as [E1 E2]. subst. apply (H e d0 l3). reflexivity.
Qed.

Lemma prefix_ok_app_signals R ds sg : prefix_ok R ds -> (forall e d, In d sg -> R e d) -> prefix_ok R (ds ++ sg).
Proof.
  revert ds. induction sg as [|s r IH]; intros ds H Hs; [rewrite app_nil_r; exact H|].
  replace (ds ++ s :: r) with ((ds ++ [s]) ++ r) by (rewrite <- app_assoc; reflexivity).
  apply IH.
  - apply prefix_ok_snoc; auto. apply Hs. left; reflexivity.
  - intros e d Hd. apply Hs. right. exact Hd.
Qed.

Definition names (ds : list pdef) : list string := map pd_name ds.
Definition anames (al : list palias) : list string := map pa_name al.
Definition nonsig (d : pdef) : bool := negb (is_signal d).
(* names of the messages that have fields (a signal cannot be a field type) *)
Definition mnames (ms : list pdef) : list string := names (filter nonsig ms).

Record InvS (al : list palias) (ss ms : list pdef) : Prop := {
  inv_all : Forall (fun d => Forall (fin al (names ss) (mnames ms)) (pd_fields d)) (ss ++ ms);
  inv_ss : prefix_ok (fun earlier d => Forall (kind_struct_in (names earlier)) (pd_fields d)) ss;
  inv_mm : prefix_ok (fun earlier d => Forall (kind_msg_in (mnames earlier)) (pd_fields d)) ms }.
Definition InvSt (st : pstate) : Prop := InvS (ps_aliases st) (ps_structs st) (ps_msgs st).

Lemma fin_mono an sn mn an' sn' mn' p :
  aext an an' -> incl sn sn' -> incl mn mn' -> fin an sn mn p -> fin an' sn' mn' p.
Proof.
  intros Ha Hs Hm (H1 & H2 & H3 & H4). split; [|split; [|split]].
  - intro H. apply Hs, H1. exact H.
  - intro H. apply Hm, H2. exact H.
  - intros t H. destruct (H3 t H) as (a & E & T). exists a. split; auto.
  - exact H4.
Qed.

Lemma all_mono an sn mn an' sn' mn' (ds : list pdef) :
  aext an an' -> incl sn sn' -> incl mn mn' ->
  Forall (fun d => Forall (fin an sn mn) (pd_fields d)) ds -> Forall (fun d => Forall (fin an' sn' mn') (pd_fields d)) ds.
Proof.
  intros Ha Hs Hm H. eapply Forall_impl; [|exact H]. intros d Hd.
  eapply Forall_impl; [|exact Hd]. intros p. apply fin_mono; assumption.
Qed.

(* ------------------------------------------------------------------ fields produced by define *)
Lemma find_def_some_in n l d : find_def n l = Some d -> In d l.
Proof.
  induction l as [|x r IH]; simpl; [discriminate|].
  destruct (String.eqb (pd_name x) n); [intros H; inversion H; left; reflexivity|intros H; right; auto].
Qed.
Lemma find_alias_in n l a : find_alias n l = Some a -> In n (map pa_name l).
Proof.
  induction l as [|x r IH]; simpl; [discriminate|].
  destruct (String.eqb (pa_name x) n) eqn:E; [apply String.eqb_eq in E; auto|auto].
Qed.

Lemma find_def_in_filter (P : pdef -> bool) n l d : find_def n l = Some d -> P d = true -> In n (names (filter P l)).
Proof.
  induction l as [|x r IH]; simpl; [discriminate|].
  destruct (String.eqb (pd_name x) n) eqn:E.
  - intros H Hp. inversion H; subst. rewrite Hp. simpl. left. apply String.eqb_eq. exact E.
  - intros H Hp. destruct (P x); simpl; [right|]; apply IH; assumption.
Qed.

Lemma mnames_app a b : mnames (a ++ b) = mnames a ++ mnames b.
Proof. unfold mnames, names. rewrite filter_app, map_app. reflexivity. Qed.
Lemma mnames_incl ms : incl (mnames ms) (names ms).
Proof. unfold mnames, names. intros n H. apply in_map_iff in H. destruct H as (d & E & H). apply filter_In in H. apply in_map_iff. exists d. tauto. Qed.

Ltac fin_cases := unfold fin, kind_struct_in, kind_msg_in, kind_alias_in, kind_nat_ok; simpl;
  split; [|split; [|split]]; (let G := fresh "G" in intro G; try discriminate; try (intro; discriminate)).

Lemma resolve_ftype_fin al ss ms t k sz a nm ln o :
  resolve_ftype al ss ms t = POk (k, sz, a) -> fin al (names ss) (mnames ms) (mkPF nm t k ln sz a o).
Proof.
  unfold resolve_ftype. destruct (tlookup t parser_types) as [[s0 kd]|] eqn:Et.
  - intros H; inversion H; subst. fin_cases. eauto.
  - destruct (find_alias t al) as [a0|] eqn:Ea.
    + intros H; inversion H; subst. fin_cases. intros E; inversion E; subst. eauto.
    + destruct (find_def t ss) as [s|] eqn:Es.
      * intros H; inversion H; subst. fin_cases. eapply find_def_in; eauto.
      * destruct (find_def t ms) as [m|] eqn:Em; [|discriminate].
        destruct (is_signal m) eqn:Esig; [discriminate|].
        intros H; inversion H; subst. fin_cases.
        eapply find_def_in_filter; eauto. unfold nonsig. rewrite Esig. reflexivity.
Qed.

Lemma resolve_fields_fin cs al ss ms l ps :
  resolve_fields cs al ss ms l = POk ps -> Forall (fin al (names ss) (mnames ms)) ps.
Proof.
  revert ps. induction l as [|d r IH]; simpl; intros ps H; [inversion H; constructor|].
  destruct (resolve_field cs al ss ms d) as [p|k|k] eqn:E; try discriminate.
  destruct (resolve_fields cs al ss ms r) as [qs|k|k] eqn:E2; try discriminate.
  inversion H; subst. constructor; [|apply IH; reflexivity].
  unfold resolve_field in E. destruct (existsb (String.eqb (fd_name d)) reserved_field_names); [discriminate|].
  destruct (resolve_ftype al ss ms (fd_type d)) as [[[k sz] a]|k|k] eqn:Et; try discriminate.
  destruct (fd_len d) as [e|].
  - destruct (leval cs e) as [v|]; [|discriminate]. destruct (v <? add_fields_length_min); [discriminate|].
    inversion E; subst. eapply resolve_ftype_fin; eauto.
  - inversion E; subst. eapply resolve_ftype_fin; eauto.
Qed.

Lemma rebuild_Forall (P : pfield -> Prop) orig out n :
  Forall P orig -> (forall p o, P p -> P (set_poff p o)) ->
  (forall k l o, P (mkPF (pad_name k) "char" FNat l 1 1 o)) -> Forall P (rebuild orig out n).
Proof.
  intros Ho Hs Hp. revert orig n Ho. induction out as [|f r IH]; intros orig n Ho; simpl; [constructor|].
  destruct (is_pad f).
  - constructor; [apply Hp|apply IH; exact Ho].
  - destruct orig as [|p orig']; [constructor|]. inversion Ho; subst. constructor; [apply Hs; assumption|apply IH; assumption].
Qed.

Lemma finish_def_shape ap ps ps' sz a :
  finish_def ap ps = POk (ps', sz, a) -> exists fs', check_alignment ap (to_lfields 0 ps) = Ok (fs', a) /\ ps' = rebuild ps fs' 0 /\ sz = total_size fs' /\ ps <> [].
Proof.
  unfold finish_def. destruct ps as [|p0 r]; [discriminate|].
  destruct (check_alignment ap (to_lfields 0 (p0 :: r))) as [[fs' a']|e]; [|destruct e; discriminate].
  destruct (ct_fields 0 (rebuild (p0 :: r) fs' 0)) as [cts|k|k]; try discriminate.
  destruct (total_size fs' =? c_sizeof cts); [|discriminate].
  destruct (max_msg_size <? total_size fs'); [discriminate|].
  intros H; inversion H; subst. exists fs'. repeat split; auto. discriminate.
Qed.

Lemma fin_set_poff an sn mn p o : fin an sn mn p -> fin an sn mn (set_poff p o).
Proof. intros (H1 & H2 & H3 & H4). split; [|split; [|split]]; [exact H1|exact H2|exact H3|exact H4]. Qed.
Lemma fin_pad an sn mn k l o : fin an sn mn (mkPF (pad_name k) "char" FNat l 1 1 o).
Proof. fin_cases. eexists. vm_compute. reflexivity. Qed.

Lemma find_def_split n l d : find_def n l = Some d -> exists e r, l = e ++ d :: r.
Proof. intros H. apply find_def_some_in in H. apply in_split in H. exact H. Qed.

Lemma names_app a b : names (a ++ b) = names a ++ names b.
Proof. apply map_app. Qed.

Lemma define_fin ap st b ps' sz a :
  InvSt st -> define ap st b = POk (ps', sz, a) ->
  Forall (fin (ps_aliases st) (names (ps_structs st)) (mnames (ps_msgs st))) ps'.
Proof.
  intros [Hall Hss Hmm] H. unfold define in H.
  destruct (resolve_body (ps_consts st) (ps_aliases st) (ps_structs st) (ps_msgs st) b) as [ps|k|k] eqn:Eb; try discriminate.
  destruct (finish_def_shape _ _ _ _ _ H) as (fs' & _ & E & _ & _). subst ps'.
  apply rebuild_Forall; [|intros; apply fin_set_poff; assumption|intros; apply fin_pad].
  destruct b as [l|n]; simpl in Eb.
  - eapply resolve_fields_fin; eauto.
  - rewrite Forall_app in Hall. destruct Hall as [Hs Hm].
    destruct (find_def n (ps_msgs st)) as [m|] eqn:Em.
    + inversion Eb; subst. apply find_def_some_in in Em. exact (proj1 (Forall_forall _ _) Hm _ Em).
    + destruct (find_def n (ps_structs st)) as [s|] eqn:Es; [|discriminate].
      inversion Eb; subst. apply find_def_some_in in Es. exact (proj1 (Forall_forall _ _) Hs _ Es).
Qed.

(* ------------------------------------------------------------------ the invariant is preserved *)
Lemma InvS_empty : InvSt ps_empty.
Proof. constructor; simpl; [constructor|apply prefix_ok_nil|apply prefix_ok_nil]. Qed.

Lemma InvS_step ap st i st' : InvSt st -> step ap st i = POk st' -> InvSt st'.
Proof.
  intros Hi Hs. destruct (step_inv _ _ _ _ Hs) as (_ & d & Hc & E). subst st'.
  destruct i as [n e|n v|n t|n v|n v|n b|n id [b|]|ids]; simpl in Hc.
  - destruct (ceval (ps_consts st) e); inversion Hc; subst. exact Hi.
  - inversion Hc; subst. exact Hi.
  - destruct (resolve_alias (ps_aliases st) (ps_structs st) t) as [[[tg sz] a]|]; inversion Hc; subst.
    destruct Hi as [Hall Hss Hmm]. constructor; simpl; auto.
    eapply all_mono; [| | |exact Hall]; auto using incl_refl, incl_appl, aext_refl, aext_app.
  - inversion Hc; subst. exact Hi.
  - inversion Hc; subst. exact Hi.
  - (* struct *)
    destruct (define ap st b) as [[[ps' sz] a]|k|k] eqn:Ed; inversion Hc; subst. clear Hc.
    pose proof (define_fin _ _ _ _ _ _ Hi Ed) as Hf. destruct Hi as [Hall Hss Hmm].
    unfold InvSt. simpl. constructor.
    + rewrite Forall_app in Hall. destruct Hall as [Ha1 Ha2].
      rewrite <- app_assoc. simpl. apply Forall_app. split; [|constructor].
      * eapply all_mono; [| | |exact Ha1]; try rewrite names_app; try rewrite mnames_app; auto using incl_refl, incl_appl, aext_refl, aext_app.
      * simpl. eapply Forall_impl; [|exact Hf]. intros p. apply fin_mono; try rewrite names_app; try rewrite mnames_app; auto using incl_refl, incl_appl, aext_refl, aext_app.
      * eapply all_mono; [| | |exact Ha2]; try rewrite names_app; try rewrite mnames_app; auto using incl_refl, incl_appl, aext_refl, aext_app.
    + apply prefix_ok_snoc; auto. simpl. eapply Forall_impl; [|exact Hf]. intros p (H1 & _). exact H1.
    + exact Hmm.
  - (* message *)
    destruct (define ap st b) as [[[ps' sz] a]|k|k] eqn:Ed; inversion Hc; subst. clear Hc.
    pose proof (define_fin _ _ _ _ _ _ Hi Ed) as Hf. destruct Hi as [Hall Hss Hmm].
    unfold InvSt. simpl. constructor.
    + rewrite Forall_app in Hall. destruct Hall as [Ha1 Ha2].
      apply Forall_app. split; [|apply Forall_app; split; [|constructor; [|constructor]]].
      * eapply all_mono; [| | |exact Ha1]; try rewrite names_app; try rewrite mnames_app; auto using incl_refl, incl_appl, aext_refl, aext_app.
      * eapply all_mono; [| | |exact Ha2]; try rewrite names_app; try rewrite mnames_app; auto using incl_refl, incl_appl, aext_refl, aext_app.
      * simpl. eapply Forall_impl; [|exact Hf]. intros p. apply fin_mono; try rewrite names_app; try rewrite mnames_app; auto using incl_refl, incl_appl, aext_refl, aext_app.
    + exact Hss.
    + apply prefix_ok_snoc; auto. simpl. eapply Forall_impl; [|exact Hf]. intros p (_ & H2 & _). exact H2.
  - (* signal *)
    inversion Hc; subst. clear Hc. destruct Hi as [Hall Hss Hmm]. unfold InvSt. simpl. constructor.
    + rewrite Forall_app in Hall. destruct Hall as [Ha1 Ha2].
      apply Forall_app. split; [|apply Forall_app; split; [|constructor; [constructor|constructor]]].
      * eapply all_mono; [| | |exact Ha1]; try rewrite names_app; try rewrite mnames_app; auto using incl_refl, incl_appl, aext_refl, aext_app.
      * eapply all_mono; [| | |exact Ha2]; try rewrite names_app; try rewrite mnames_app; auto using incl_refl, incl_appl, aext_refl, aext_app.
    + exact Hss.
    + apply prefix_ok_snoc; auto. simpl. constructor.
  - (* reserved block: signals *)
    inversion Hc; subst. clear Hc. destruct Hi as [Hall Hss Hmm]. unfold InvSt. simpl. constructor.
    + rewrite Forall_app in Hall. destruct Hall as [Ha1 Ha2].
      apply Forall_app. split; [|apply Forall_app; split].
      * eapply all_mono; [| | |exact Ha1]; try rewrite names_app; try rewrite mnames_app; auto using incl_refl, incl_appl, aext_refl, aext_app.
      * eapply all_mono; [| | |exact Ha2]; try rewrite names_app; try rewrite mnames_app; auto using incl_refl, incl_appl, aext_refl, aext_app.
      * apply Forall_forall. intros d Hd. apply in_map_iff in Hd. destruct Hd as (z & Ez & _). subst d. simpl. constructor.
    + exact Hss.
    + apply prefix_ok_app_signals; auto. intros e d Hd. apply in_map_iff in Hd. destruct Hd as (z & Ez & _). subst d. simpl. constructor.
Qed.

Lemma InvS_run ap l st st' : InvSt st -> run ap l st = POk st' -> InvSt st'.
Proof.
  revert st. induction l as [|i r IH]; simpl; intros st Hi H; [inversion H; subst; exact Hi|].
  destruct (step ap st i) as [s1|k|k] eqn:E; try discriminate. eapply IH; [|exact H]. eapply InvS_step; eauto.
Qed.

Theorem parsed_inv ap l st : parse_items ap l = POk st -> InvSt st.
Proof. apply InvS_run. apply InvS_empty. Qed.

(* ------------------------------------------------------------------ scoped event lists *)
Fixpoint after (D : list (ns * string)) (evs : list event) : list (ns * string) :=
  match evs with
  | [] => D
  | Def s n :: r => after ((s, n) :: D) r
  | Use _ _ :: r => after D r
  end.

Lemma scoped_app D a b : scoped D (a ++ b) = scoped D a && scoped (after D a) b.
Proof.
  revert D. induction a as [|e r IH]; simpl; intros D; auto.
  destruct e as [s n|s n]; [apply IH|]. rewrite IH. rewrite andb_assoc. reflexivity.
Qed.

Lemma mem_id_cons s n s' n' D : mem_id s n ((s', n') :: D) = (ns_eqb s' s && String.eqb n' n) || mem_id s n D.
Proof. reflexivity. Qed.

Lemma ns_eqb_refl s : ns_eqb s s = true.
Proof. destruct s; reflexivity. Qed.
Lemma ns_eqb_eq a b : ns_eqb a b = true -> a = b.
Proof. destruct a, b; simpl; intros; congruence. Qed.

Lemma mem_id_in s n D : mem_id s n D = true <-> In (s, n) D.
Proof.
  unfold mem_id. rewrite existsb_exists. split.
  - intros ([s' n'] & Hin & H). simpl in H. apply andb_true_iff in H. destruct H as [H1 H2].
    apply ns_eqb_eq in H1. apply String.eqb_eq in H2. subst. exact Hin.
  - intros H. exists (s, n). split; auto. simpl. rewrite ns_eqb_refl, String.eqb_refl. reflexivity.
Qed.

Lemma after_in D evs x : In x (after D evs) <-> In x D \/ exists s n, x = (s, n) /\ In (Def s n) evs.
Proof.
  revert D. induction evs as [|e r IH]; simpl; intros D.
  - split; [auto|intros [H|(s & n & _ & [])]; auto].
  - destruct e as [s n|s n]; rewrite IH; simpl.
    + split.
      * intros [[H|H]|(s0 & n0 & E & H)]; auto.
        -- right. exists s, n. auto.
        -- right. exists s0, n0. auto.
      * intros [H|(s0 & n0 & E & [H|H])]; auto.
        -- inversion H; subst. auto.
        -- right. exists s0, n0. auto.
    + split.
      * intros [H|(s0 & n0 & E & H)]; auto. right. exists s0, n0. auto.
      * intros [H|(s0 & n0 & E & [H|H])]; auto; [discriminate|]. right. exists s0, n0. auto.
Qed.

Lemma scoped_ext D D' e : (forall x, In x D -> In x D') -> scoped D e = true -> scoped D' e = true.
Proof.
  revert D D'. induction e as [|x r IH]; simpl; intros D D' Hsub H; auto.
  destruct x as [s n|s n].
  - eapply IH; [|exact H]. intros y [Hy|Hy]; [left; auto|right; auto].
  - apply andb_true_iff in H. destruct H as [H1 H2]. apply andb_true_iff. split.
    + apply mem_id_in. apply Hsub. apply mem_id_in. exact H1.
    + eapply IH; eauto.
Qed.

Definition is_use_in (D : list (ns * string)) (e : event) : Prop := exists s n, e = Use s n /\ In (s, n) D.

Lemma scoped_uses D us : Forall (is_use_in D) us -> scoped D us = true /\ after D us = D.
Proof.
  induction us as [|e r IH]; simpl; intros H; auto. inversion H as [|? ? (s & n & E & Hin) Hr]; subst.
  destruct (IH Hr) as [I1 I2]. split; auto. apply andb_true_iff. split; auto. apply mem_id_in. exact Hin.
Qed.

Lemma scoped_defs_only D evs : Forall (fun e => exists s n, e = Def s n) evs -> scoped D evs = true.
Proof.
  revert D. induction evs as [|e r IH]; simpl; intros D H; auto. inversion H as [|? ? (s & n & E) Hr]; subst. apply IH. exact Hr.
Qed.

(* a section of definitions whose uses are either already defined or defined EARLIER IN THE SAME SECTION *)
Definition uses_ok (uses : pfield -> list event) (s : ns) (D : list (ns * string)) (earlier : list pdef) (d : pdef) : Prop :=
  Forall (fun e => exists s' n, e = Use s' n /\ (In (s', n) D \/ (s' = s /\ In n (names earlier)))) (flat_map uses (pd_fields d)).

Lemma uses_ok_weaken uses s D D' e1 e2 d :
  (forall x, In x D -> In x D') -> (forall n, In n (names e1) -> In (s, n) D' \/ In n (names e2)) ->
  uses_ok uses s D e1 d -> uses_ok uses s D' e2 d.
Proof.
  intros HD He H. eapply Forall_impl; [|exact H]. intros e (s' & n & E & [G|[G1 G2]]); exists s', n; split; auto.
  subst s'. destruct (He _ G2); auto.
Qed.

Lemma after_app D a b : after D (a ++ b) = after (after D a) b.
Proof. revert D. induction a as [|e r IH]; simpl; intros D; auto. destruct e; apply IH. Qed.

Lemma scoped_section_after uses s ds D :
  prefix_ok (uses_ok uses s D) ds ->
  scoped D (flat_map (def_events_after uses s) ds) = true /\
  (forall x, In x (after D (flat_map (def_events_after uses s) ds)) <-> In x D \/ exists n, x = (s, n) /\ In n (names ds)).
Proof.
  revert D. induction ds as [|d r IH]; intros D H.
  - simpl. split; auto. intros x. split; [auto|intros [G|(n & _ & [])]; auto].
  - assert (H0 : uses_ok uses s D [] d) by (apply (H [] d r); reflexivity).
    assert (Hu : Forall (is_use_in D) (flat_map uses (pd_fields d))).
    { eapply Forall_impl; [|exact H0]. intros e (s' & n & E & [G|[_ []]]). exists s', n. auto. }
    destruct (scoped_uses _ _ Hu) as [U1 U2].
    assert (Hr : prefix_ok (uses_ok uses s ((s, pd_name d) :: D)) r).
    { intros e d' l E. subst r. pose proof (H (d :: e) d' l eq_refl) as G.
      eapply uses_ok_weaken; [| |exact G].
      - intros x Hx. right. exact Hx.
      - intros n [Hn|Hn]; [left; left; rewrite Hn; reflexivity|right; exact Hn]. }
    destruct (IH _ Hr) as [I1 I2].
    assert (E : flat_map (def_events_after uses s) (d :: r)
                = flat_map uses (pd_fields d) ++ Def s (pd_name d) :: flat_map (def_events_after uses s) r).
    { simpl. unfold def_events_after at 1. rewrite <- app_assoc. reflexivity. }
    rewrite E. clear E. rewrite scoped_app, U1, after_app, U2. simpl. split; [exact I1|].
    intros x. rewrite I2. simpl. split.
    + intros [[G|G]|(n & E & G)]; auto.
      * right. exists (pd_name d). split; auto.
      * right. exists n. split; auto.
    + intros [G|(n & E & [G|G])]; auto.
      * left. left. rewrite E, G. reflexivity.
      * right. exists n. split; auto.
Qed.

(* the same for the MATLAB order: the name is bound first, then the field assignments read *)
Lemma scoped_section_before uses s ds D :
  prefix_ok (uses_ok uses s D) ds ->
  scoped D (flat_map (def_events_before uses s) ds) = true /\
  (forall x, In x (after D (flat_map (def_events_before uses s) ds)) <-> In x D \/ exists n, x = (s, n) /\ In n (names ds)).
Proof.
  revert D. induction ds as [|d r IH]; intros D H.
  - simpl. split; auto. intros x. split; [auto|intros [G|(n & _ & [])]; auto].
  - assert (H0 : uses_ok uses s D [] d) by (apply (H [] d r); reflexivity).
    assert (Hu : Forall (is_use_in ((s, pd_name d) :: D)) (flat_map uses (pd_fields d))).
    { eapply Forall_impl; [|exact H0]. intros e (s' & n & E & [G|[_ []]]). exists s', n. split; auto. right. exact G. }
    destruct (scoped_uses _ _ Hu) as [U1 U2].
    assert (Hr : prefix_ok (uses_ok uses s ((s, pd_name d) :: D)) r).
    { intros e d' l E. subst r. pose proof (H (d :: e) d' l eq_refl) as G.
      eapply uses_ok_weaken; [| |exact G].
      - intros x Hx. right. exact Hx.
      - intros n [Hn|Hn]; [left; left; rewrite Hn; reflexivity|right; exact Hn]. }
    destruct (IH _ Hr) as [I1 I2].
    assert (E : flat_map (def_events_before uses s) (d :: r)
                = Def s (pd_name d) :: (flat_map uses (pd_fields d) ++ flat_map (def_events_before uses s) r)).
    { reflexivity. }
    rewrite E. clear E. simpl. rewrite scoped_app, U1, after_app, U2. simpl. split; [exact I1|].
    intros x. rewrite I2. simpl. split.
    + intros [[G|G]|(n & E & G)]; auto.
      * right. exists (pd_name d). split; auto.
      * right. exists n. split; auto.
    + intros [G|(n & E & [G|G])]; auto.
      * left. left. rewrite E, G. reflexivity.
      * right. exists n. split; auto.
Qed.

Lemma uses_ok_from_fields uses s D earlier d :
  (forall p, In p (pd_fields d) -> forall e, In e (uses p) ->
     exists s' n, e = Use s' n /\ (In (s', n) D \/ (s' = s /\ In n (names earlier)))) ->
  uses_ok uses s D earlier d.
Proof.
  intros H. unfold uses_ok. apply Forall_forall. intros e He. apply in_flat_map in He. destruct He as (p & Hp & He). eauto.
Qed.

(* ------------------------------------------------------------------ decidable exclusions (on the parsed state) *)
Definition alias_is_nat (a : palias) : bool := match pa_target a with ANat _ => true | AStruct _ => false end.
Definition field_no_alias_struct (p : pfield) : bool := match pf_kind p with FAlias (AStruct _) => false | _ => true end.
Definition field_not_msg (p : pfield) : bool := match pf_kind p with FMsg => false | _ => true end.
Definition field_not_alias (p : pfield) : bool := match pf_kind p with FAlias _ => false | _ => true end.
Definition all_defs (st : pstate) : list pdef := ps_structs st ++ ps_msgs st.

(* construct class 1: "alias whose target is a struct" *)
Definition no_alias_of_struct (st : pstate) : bool :=
  forallb alias_is_nat (ps_aliases st) && forallb (fun d => forallb field_no_alias_struct (pd_fields d)) (all_defs st).
(* construct class 2: "struct field whose type is a message" (directly or by `fields: MESSAGE`) *)
Definition no_msg_in_struct (st : pstate) : bool := forallb (fun d => forallb field_not_msg (pd_fields d)) (ps_structs st).
(* construct class 3 (JavaScript): "field whose type is an alias" *)
Definition no_alias_field (st : pstate) : bool := forallb (fun d => forallb field_not_alias (pd_fields d)) (all_defs st).
(* MATLAB reads RTMA.typedefs.RTMA_MSG_HEADER only when it is emitted: has_msg_header / has_header_alias are in Model/Emit.v *)

Lemma alias_section al : forallb alias_is_nat al = true ->
  Forall (fun e => exists s n, e = Def s n) (flat_map alias_events al) /\
  (forall x, In x (after [] (flat_map alias_events al)) <-> exists n, x = (NAlias, n) /\ In n (anames al)).
Proof.
  intros H. assert (E : flat_map alias_events al = map (fun a => Def NAlias (pa_name a)) al).
  { induction al as [|a r IH]; simpl in *; auto. apply andb_true_iff in H. destruct H as [H1 H2].
    unfold alias_is_nat in H1. unfold alias_events at 1. destruct (pa_target a); [|discriminate]. simpl. rewrite IH; auto. }
  rewrite E. split.
  - apply Forall_forall. intros e He. apply in_map_iff in He. destruct He as (a & Ea & _). eauto.
  - intros x. rewrite after_in. split.
    + intros [[]|(s & n & Ex & Hin)]. apply in_map_iff in Hin. destruct Hin as (a & Ea & Ha). inversion Ea; subst.
      exists (pa_name a). split; auto. unfold anames. apply in_map. exact Ha.
    + intros (n & Ex & Hn). right. exists NAlias, n. split; auto. unfold anames in Hn. apply in_map_iff in Hn.
      destruct Hn as (a & Ea & Ha). apply in_map_iff. exists a. subst. auto.
Qed.

Lemma in_split_in {A} (l e r : list A) d : l = e ++ d :: r -> In d l.
Proof. intros ->. apply in_elt. Qed.

Lemma forallb_defs_field (f : pfield -> bool) ds d p :
  forallb (fun d => forallb f (pd_fields d)) ds = true -> In d ds -> In p (pd_fields d) -> f p = true.
Proof.
  intros H Hd Hp. pose proof (proj1 (forallb_forall _ _) H d Hd) as G. exact (proj1 (forallb_forall _ _) G p Hp).
Qed.

(* ------------------------------------------------------------------ Python *)
Theorem scoped_py st : InvSt st -> no_alias_of_struct st = true -> no_msg_in_struct st = true ->
  scoped [] (events_py st) = true.
Proof.
  intros [Hall Hss Hmm] Hna Hnm. unfold no_alias_of_struct in Hna. apply andb_true_iff in Hna. destruct Hna as [Ha Hfa].
  unfold all_defs in Hfa. rewrite forallb_app in Hfa. apply andb_true_iff in Hfa. destruct Hfa as [Hfs Hfm].
  rewrite Forall_app in Hall. destruct Hall as [Hall_s Hall_m].
  destruct (alias_section _ Ha) as [A1 A2].
  unfold events_py. rewrite scoped_app, (scoped_defs_only _ _ A1). simpl.
  set (DA := after [] (flat_map alias_events (ps_aliases st))) in *.
  assert (PS : prefix_ok (uses_ok py_field_uses NStruct DA) (ps_structs st)).
  { intros e d l E. apply uses_ok_from_fields. intros p Hp ev Hev.
    pose proof (in_split_in _ _ _ _ E) as Hd.
    pose proof (forallb_defs_field _ _ _ _ Hfs Hd Hp) as F1. pose proof (forallb_defs_field _ _ _ _ Hnm Hd Hp) as F2.
    pose proof (Hss e d l E) as G. pose proof (proj1 (Forall_forall _ _) G p Hp) as G1.
    unfold py_field_uses in Hev. unfold field_no_alias_struct in F1. unfold field_not_msg in F2.
    destruct (pf_kind p) as [|[k|s0]| |] eqn:K; simpl in Hev; try contradiction; try discriminate.
    destruct Hev as [Hev|[]]. subst ev. exists NStruct, (pf_ty p). split; [reflexivity|]. right. split; [reflexivity|]. apply G1. exact K. }
  destruct (scoped_section_after _ _ _ _ PS) as [S1 S2].
  rewrite scoped_app, S1. simpl.
  set (DS := after DA (flat_map (def_events_after py_field_uses NStruct) (ps_structs st))) in *.
  assert (PM : prefix_ok (uses_ok py_field_uses NMsg DS) (ps_msgs st)).
  { intros e d l E. apply uses_ok_from_fields. intros p Hp ev Hev.
    pose proof (in_split_in _ _ _ _ E) as Hd.
    pose proof (forallb_defs_field _ _ _ _ Hfm Hd Hp) as F1.
    pose proof (Hmm e d l E) as G. pose proof (proj1 (Forall_forall _ _) G p Hp) as G1.
    pose proof (proj1 (Forall_forall _ _) (proj1 (Forall_forall _ _) Hall_m d Hd) p Hp) as (G2 & _ & _).
    unfold py_field_uses in Hev. unfold field_no_alias_struct in F1.
    destruct (pf_kind p) as [|[k|s0]| |] eqn:K; simpl in Hev; try contradiction; try discriminate.
    - destruct Hev as [Hev|[]]. subst ev. exists NStruct, (pf_ty p). split; [reflexivity|]. left. apply S2. right.
      exists (pf_ty p). split; [reflexivity|]. apply G2. exact K.
    - destruct Hev as [Hev|[]]. subst ev. exists NMsg, (pf_ty p). split; [reflexivity|]. right. split; [reflexivity|].
      apply mnames_incl. apply G1. exact K. }
  destruct (scoped_section_after _ _ _ _ PM) as [M1 _]. exact M1.
Qed.

(* ------------------------------------------------------------------ C *)
Lemma flat_map_filter_sig (f : pdef -> list event) l :
  flat_map (fun d => if is_signal d then [] else f d) l = flat_map f (filter nonsig l).
Proof.
  induction l as [|d r IH]; simpl; auto. unfold nonsig at 1. destruct (is_signal d); simpl; rewrite IH; reflexivity.
Qed.

Lemma filter_split (P : pdef -> bool) l e' d l' :
  filter P l = e' ++ d :: l' -> exists e r, l = e ++ d :: r /\ filter P e = e'.
Proof.
  revert e'. induction l as [|x r IH]; simpl; intros e' H; [destruct e'; discriminate|].
  destruct (P x) eqn:Px.
  - destruct e' as [|y e2]; simpl in H; inversion H; subst.
    + exists [], r. split; auto.
    + destruct (IH _ H2) as (e & r' & E1 & E2). exists (y :: e), r'. subst. simpl. rewrite Px. split; auto.
  - destruct (IH _ H) as (e & r' & E1 & E2). exists (x :: e), r'. subst. simpl. rewrite Px. split; auto.
Qed.

Theorem scoped_c st : InvSt st -> no_alias_of_struct st = true -> no_msg_in_struct st = true ->
  scoped [] (events_c st) = true.
Proof.
  intros [Hall Hss Hmm] Hna Hnm. unfold no_alias_of_struct in Hna. apply andb_true_iff in Hna. destruct Hna as [Ha Hfa].
  rewrite Forall_app in Hall. destruct Hall as [Hall_s Hall_m].
  destruct (alias_section _ Ha) as [A1 A2].
  unfold events_c. rewrite scoped_app, (scoped_defs_only _ _ A1). simpl.
  set (DA := after [] (flat_map alias_events (ps_aliases st))) in *.
  assert (PS : prefix_ok (uses_ok c_field_uses NStruct DA) (ps_structs st)).
  { intros e d l E. apply uses_ok_from_fields. intros p Hp ev Hev.
    pose proof (in_split_in _ _ _ _ E) as Hd.
    pose proof (forallb_defs_field _ _ _ _ Hnm Hd Hp) as F2.
    pose proof (Hss e d l E) as G. pose proof (proj1 (Forall_forall _ _) G p Hp) as G1.
    pose proof (proj1 (Forall_forall _ _) (proj1 (Forall_forall _ _) Hall_s d Hd) p Hp) as (_ & _ & G3 & _).
    unfold c_field_uses in Hev. unfold field_not_msg in F2.
    destruct (pf_kind p) as [|tg| |] eqn:K; simpl in Hev; try contradiction; try discriminate.
    - destruct Hev as [Hev|[]]. subst ev. exists NAlias, (pf_ty p). split; [reflexivity|]. left. apply A2.
      exists (pf_ty p). split; [reflexivity|]. destruct (G3 _ K) as (a0 & Fa & _). eapply find_alias_in; eauto.
    - destruct Hev as [Hev|[]]. subst ev. exists NStruct, (pf_ty p). split; [reflexivity|]. right. split; [reflexivity|]. apply G1. exact K. }
  destruct (scoped_section_after _ _ _ _ PS) as [S1 S2].
  rewrite scoped_app, S1. simpl.
  set (DS := after DA (flat_map (def_events_after c_field_uses NStruct) (ps_structs st))) in *.
  rewrite flat_map_filter_sig.
  assert (PM : prefix_ok (uses_ok c_field_uses NMsg DS) (filter nonsig (ps_msgs st))).
  { intros e' d l' E. destruct (filter_split _ _ _ _ _ E) as (e & l & E2 & E3).
    apply uses_ok_from_fields. intros p Hp ev Hev.
    pose proof (in_split_in _ _ _ _ E2) as Hd.
    pose proof (Hmm e d l E2) as G. pose proof (proj1 (Forall_forall _ _) G p Hp) as G1.
    pose proof (proj1 (Forall_forall _ _) (proj1 (Forall_forall _ _) Hall_m d Hd) p Hp) as (G2 & _ & G3 & _).
    unfold c_field_uses in Hev.
    destruct (pf_kind p) as [|tg| |] eqn:K; simpl in Hev; try contradiction.
    - destruct Hev as [Hev|[]]. subst ev. exists NAlias, (pf_ty p). split; [reflexivity|]. left. apply S2. left. apply A2.
      exists (pf_ty p). split; [reflexivity|]. destruct (G3 _ K) as (a0 & Fa & _). eapply find_alias_in; eauto.
    - destruct Hev as [Hev|[]]. subst ev. exists NStruct, (pf_ty p). split; [reflexivity|]. left. apply S2. right.
      exists (pf_ty p). split; [reflexivity|]. apply G2. exact K.
    - destruct Hev as [Hev|[]]. subst ev. exists NMsg, (pf_ty p). split; [reflexivity|]. right. split; [reflexivity|].
      rewrite <- E3. apply G1. exact K. }
  destruct (scoped_section_after _ _ _ _ PM) as [M1 _]. exact M1.
Qed.

(* ------------------------------------------------------------------ MATLAB *)
Theorem scoped_matlab st : InvSt st -> no_alias_of_struct st = true -> no_msg_in_struct st = true ->
  scoped [] (events_matlab st) = true.
Proof.
  intros [Hall Hss Hmm] Hna Hnm. unfold no_alias_of_struct in Hna. apply andb_true_iff in Hna. destruct Hna as [Ha Hfa].
  rewrite Forall_app in Hall. destruct Hall as [Hall_s Hall_m].
  destruct (alias_section _ Ha) as [A1 A2].
  unfold events_matlab. rewrite scoped_app, (scoped_defs_only _ _ A1). simpl.
  set (DA := after [] (flat_map alias_events (ps_aliases st))) in *.
  assert (PS : prefix_ok (uses_ok c_field_uses NStruct DA) (ps_structs st)).
  { intros e d l E. apply uses_ok_from_fields. intros p Hp ev Hev.
    pose proof (in_split_in _ _ _ _ E) as Hd.
    pose proof (forallb_defs_field _ _ _ _ Hnm Hd Hp) as F2.
    pose proof (Hss e d l E) as G. pose proof (proj1 (Forall_forall _ _) G p Hp) as G1.
    pose proof (proj1 (Forall_forall _ _) (proj1 (Forall_forall _ _) Hall_s d Hd) p Hp) as (_ & _ & G3 & _).
    unfold c_field_uses in Hev. unfold field_not_msg in F2.
    destruct (pf_kind p) as [|tg| |] eqn:K; simpl in Hev; try contradiction; try discriminate.
    - destruct Hev as [Hev|[]]. subst ev. exists NAlias, (pf_ty p). split; [reflexivity|]. left. apply A2.
      exists (pf_ty p). split; [reflexivity|]. destruct (G3 _ K) as (a0 & Fa & _). eapply find_alias_in; eauto.
    - destruct Hev as [Hev|[]]. subst ev. exists NStruct, (pf_ty p). split; [reflexivity|]. right. split; [reflexivity|]. apply G1. exact K. }
  destruct (scoped_section_before _ _ _ _ PS) as [S1 S2].
  rewrite scoped_app, S1. simpl.
  set (DS := after DA (flat_map (def_events_before c_field_uses NStruct) (ps_structs st))) in *.
  assert (PM : prefix_ok (uses_ok c_field_uses NMsg DS) (ps_msgs st)).
  { intros e d l E. apply uses_ok_from_fields. intros p Hp ev Hev.
    pose proof (in_split_in _ _ _ _ E) as Hd.
    pose proof (Hmm e d l E) as G. pose proof (proj1 (Forall_forall _ _) G p Hp) as G1.
    pose proof (proj1 (Forall_forall _ _) (proj1 (Forall_forall _ _) Hall_m d Hd) p Hp) as (G2 & _ & G3 & _).
    unfold c_field_uses in Hev.
    destruct (pf_kind p) as [|tg| |] eqn:K; simpl in Hev; try contradiction.
    - destruct Hev as [Hev|[]]. subst ev. exists NAlias, (pf_ty p). split; [reflexivity|]. left. apply S2. left. apply A2.
      exists (pf_ty p). split; [reflexivity|]. destruct (G3 _ K) as (a0 & Fa & _). eapply find_alias_in; eauto.
    - destruct Hev as [Hev|[]]. subst ev. exists NStruct, (pf_ty p). split; [reflexivity|]. left. apply S2. right.
      exists (pf_ty p). split; [reflexivity|]. apply G2. exact K.
    - destruct Hev as [Hev|[]]. subst ev. exists NMsg, (pf_ty p). split; [reflexivity|]. right. split; [reflexivity|].
      apply mnames_incl. apply G1. exact K. }
  destruct (scoped_section_before _ _ _ _ PM) as [M1 M2].
  rewrite scoped_app, M1. simpl. unfold matlab_header_events.
  destruct (has_msg_header st) eqn:Hh; [|destruct (has_header_alias st) eqn:Hal; [|reflexivity]].
  - simpl. rewrite andb_true_r. apply mem_id_in. apply M2. left. apply S2. right.
    exists "RTMA_MSG_HEADER". split; [reflexivity|].
    unfold has_msg_header in Hh. apply existsb_exists in Hh. destruct Hh as (d & Hd & Hn). apply String.eqb_eq in Hn.
    unfold names. rewrite <- Hn. apply in_map. exact Hd.
  - simpl. rewrite andb_true_r. apply mem_id_in. apply M2. left. apply S2. left. apply A2.
    exists "RTMA_MSG_HEADER". split; [reflexivity|].
    unfold has_header_alias in Hal. apply existsb_exists in Hal. destruct Hal as (a & Hain & Hn). apply String.eqb_eq in Hn.
    unfold anames. rewrite <- Hn. apply in_map. exact Hain.
Qed.

(* ------------------------------------------------------------------ JavaScript *)
Theorem scoped_js_load st : forallb alias_is_nat (ps_aliases st) = true -> js_import_ok st = true.
Proof.
  intros Ha. unfold js_import_ok, events_js_load. apply scoped_defs_only.
  repeat (apply Forall_app; split); repeat constructor; eauto.
  - apply Forall_forall. intros e He. apply in_flat_map in He. destruct He as (a & Ha' & He).
    pose proof (proj1 (forallb_forall _ _) Ha a Ha') as N. unfold alias_is_nat in N. unfold js_alias_events in He.
    destruct (pa_target a); [|discriminate]. destruct He as [He|[]]. eauto.
  - apply Forall_forall. intros e He. apply in_map_iff in He. destruct He as (d & E & _). eauto.
  - apply Forall_forall. intros e He. apply in_map_iff in He. destruct He as (d & E & _). eauto.
Qed.

(* every call made inside a factory targets a function: type_map.<native>, RTMA.aliases.<alias of a native>
   (bound to type_map.<native>), RTMA.SDF.<struct>, RTMA.MDF.<message> *)
Definition js_has (k : string) : bool := match tlookup k js_types with Some _ => true | None => false end.
Definition js_callee_ok (st : pstate) (c : jcallee) : bool :=
  match c with
  | JTypeMap k => js_has k
  | JAliasV n => match find_alias n (ps_aliases st) with
                 | Some a => match pa_target a with ANat k => js_has k | AStruct _ => false end
                 | None => false
                 end
  | JSdf n => match find_def n (ps_structs st) with Some _ => true | None => false end
  | JMdf n => match find_def n (ps_msgs st) with Some _ => true | None => false end
  end.
Definition js_form_ok (st : pstate) (f : jform) : bool :=
  match f with JScalar c | JFill _ c => js_callee_ok st c | JString _ => true end.
Definition js_calls_ok (st : pstate) : bool :=
  forallb (fun d => forallb (fun p => js_form_ok st (js_form p)) (pd_fields d)) (all_defs st).

(* the native keys a field reaches have a JavaScript default value *)
Definition field_js_native (p : pfield) : bool :=
  match pf_kind p with FNat => js_has (pf_ty p) | FAlias (ANat k) => js_has k | _ => true end.
Definition js_natives_known (st : pstate) : bool := forallb (fun d => forallb field_js_native (pd_fields d)) (all_defs st).

Lemma in_names_find n l : In n (names l) -> exists d, find_def n l = Some d.
Proof.
  induction l as [|x r IH]; simpl; [intros []|]. destruct (String.eqb (pd_name x) n) eqn:E; [eauto|].
  intros [H|H]; [apply String.eqb_neq in E; contradiction|auto].
Qed.

Theorem js_static_ok st : InvSt st -> no_alias_of_struct st = true -> js_natives_known st = true -> js_calls_ok st = true.
Proof.
  intros [Hall _ _] Hna Hk. unfold js_calls_ok. apply forallb_forall. intros d Hd. apply forallb_forall. intros p Hp.
  unfold no_alias_of_struct in Hna. apply andb_true_iff in Hna. destruct Hna as [_ Hfa].
  pose proof (forallb_defs_field _ _ _ _ Hfa Hd Hp) as F1. pose proof (forallb_defs_field _ _ _ _ Hk Hd Hp) as F2.
  pose proof (proj1 (Forall_forall _ _) (proj1 (Forall_forall _ _) Hall d Hd) p Hp) as (G1 & G2 & G3 & _).
  unfold field_no_alias_struct in F1. unfold field_js_native in F2.
  assert (C : js_callee_ok st (js_callee p) = true).
  { unfold js_callee. destruct (pf_kind p) as [|[k|s0]| |] eqn:K; simpl; try discriminate.
    - exact F2.
    - destruct (G3 _ K) as (a & Fa & Ta). rewrite Fa, Ta. exact F2.
    - destruct (in_names_find _ _ (G1 K)) as (d0 & E). rewrite E. reflexivity.
    - destruct (in_names_find _ _ (mnames_incl _ _ (G2 K))) as (d0 & E). rewrite E. reflexivity. }
  unfold js_form. destruct (pf_len p) as [n|]; simpl; [|exact C].
  destruct (String.eqb (pf_ty p) "char" && (1 <? n)); simpl; [reflexivity|exact C].
Qed.
