(* Proofs about Model/Layout.v : C11 *)
From Coq Require Import ZArith List Bool Lia ZifyBool.
From Defs Require Import Model.Layout.
Import ListNotations.
Open Scope Z_scope.

Definition pow2_8 (a : Z) : Prop := a = 1 \/ a = 2 \/ a = 4 \/ a = 8.

Definition wf_field (f : field) : Prop :=
  1 <= f_esize f /\ pow2_8 (f_align f) /\ (f_align f | f_esize f) /\
  match f_len f with Some n => 1 <= n | None => True end.

Definition user_field (f : field) : Prop := 0 <= f_id f.

(* running-sum ("explicit", no hidden padding) offsets *)
Fixpoint explicit_offsets (fs : list field) (ptr : Z) : list Z :=
  match fs with [] => [] | f :: r => ptr :: explicit_offsets r (ptr + fsize f) end.

(* what check_alignment must not change in a user field *)
Definition strip (f : field) : Z * Z * Z * option Z := (f_id f, f_esize f, f_align f, f_len f).

Definition char_pad (f : field) : Prop := is_pad f = true -> f_esize f = 1 /\ f_align f = 1.

Ltac p28 H := destruct H as [H|[H|[H|H]]].

Lemma len_or_1_pos l : match l with Some n => 1 <= n | None => True end -> 1 <= len_or_1 l.
Proof.
  destruct l as [n|]; simpl; intros H; [|lia].
  destruct (n =? 0) eqn:E; lia.
Qed.

Lemma wf_fsize f : wf_field f -> 1 <= fsize f /\ (f_align f | fsize f).
Proof.
  intros (He & _ & Hd & Hl). unfold fsize. pose proof (len_or_1_pos _ Hl) as Hp. split.
  - nia.
  - apply Z.divide_mul_l; exact Hd.
Qed.

Lemma pow2_8_nz a : pow2_8 a -> 0 < a.
Proof. intros H; p28 H; lia. Qed.

Lemma mod0_divide a x : pow2_8 a -> (x mod a =? 0) = true <-> (a | x).
Proof.
  intros Ha. rewrite Z.eqb_eq. pose proof (pow2_8_nz _ Ha).
  symmetry. split; intro; apply Z.mod_divide; auto; lia.
Qed.

Lemma mod0_divide_false a x : pow2_8 a -> (x mod a =? 0) = false <-> ~ (a | x).
Proof.
  intros Ha. rewrite <- (mod0_divide a x Ha). destruct (x mod a =? 0); split; intros; try congruence; tauto.
Qed.

Lemma pad_makes_aligned a p : pow2_8 a -> (a | p + (a - p mod a)).
Proof.
  intros Ha. pose proof (pow2_8_nz _ Ha).
  exists (p / a + 1). pose proof (Z.div_mod p a ltac:(lia)). lia.
Qed.

Lemma pad_len_range a p : pow2_8 a -> ~ (a | p) -> 1 <= a - p mod a <= 7.
Proof.
  intros Ha Hn. pose proof (pow2_8_nz _ Ha) as H.
  pose proof (Z.mod_pos_bound p a H).
  assert (p mod a <> 0) by (intro E; apply Hn; apply Z.mod_divide; lia).
  p28 Ha; lia.
Qed.

Lemma wf_pad l o : match l with Some n => 1 <= n | None => True end -> wf_field (pad_field l o).
Proof. intros H. unfold wf_field, pad_field; simpl. repeat split; try lia; [left; reflexivity|exists 1; lia|exact H]. Qed.

(* ---------------- the first loop --------------------------------------- *)

Definition placed_ok (f : field) (o : Z) : Prop := (f_align f | o) /\ f_off f = o.

Lemma place_spec ap : forall fs ptr fs' p',
  Forall wf_field fs -> place ap fs ptr = Ok (fs', p') ->
  Forall2 placed_ok fs' (explicit_offsets fs' ptr) /\
  p' = ptr + total_size fs' /\
  Forall wf_field fs' /\
  (ap = false -> map strip fs' = map strip fs) /\
  (Forall user_field fs ->
     map strip (filter (fun f => negb (is_pad f)) fs') = map strip fs /\ Forall char_pad fs') /\
  (fs <> [] -> fs' <> []).
Proof.
  induction fs as [|f r IH]; intros ptr fs' p' Hwf H; simpl in H.
  - inversion H; subst. simpl. repeat split; auto; try lia; try constructor; congruence.
  - inversion Hwf as [|? ? Hf Hr]; subst.
    pose proof Hf as (He & Ha & Hd & Hl).
    destruct (ptr mod f_align f =? 0) eqn:E.
    + destruct (place ap r (ptr + fsize f)) as [[r' q]|e] eqn:Hp; [|discriminate].
      inversion H; subst; clear H.
      destruct (IH _ _ _ Hr Hp) as (I1 & I2 & I3 & I4 & I5 & _).
      apply mod0_divide in E; auto.
      assert (Hs : fsize (set_off f ptr) = fsize f) by reflexivity.
      split; [|split; [|split; [|split; [|split]]]].
      * simpl. rewrite Hs. constructor; [split; [exact E|reflexivity]|exact I1].
      * simpl. rewrite Hs. lia.
      * constructor; [exact Hf|exact I3].
      * intros Hap. simpl. rewrite (I4 Hap). reflexivity.
      * intros Hu. inversion Hu as [|? ? Hu1 Hu2]; subst.
        destruct (I5 Hu2) as (J1 & J2). unfold user_field in Hu1.
        assert (Ei : is_pad (set_off f ptr) = false) by (unfold is_pad; simpl; apply Z.ltb_ge; lia).
        split.
        -- simpl. rewrite Ei. simpl. rewrite J1. reflexivity.
        -- constructor; [|exact J2]. unfold char_pad. rewrite Ei. discriminate.
      * discriminate.
    + destruct ap; [|discriminate].
      apply mod0_divide_false in E; auto.
      set (pl := f_align f - ptr mod f_align f) in *.
      destruct (place true r (ptr + pl + fsize f)) as [[r' q]|e] eqn:Hp; [|discriminate].
      inversion H; subst; clear H.
      destruct (IH _ _ _ Hr Hp) as (I1 & I2 & I3 & I4 & I5 & _).
      pose proof (pad_len_range _ _ Ha E) as Hrange. fold pl in Hrange.
      assert (Hps : fsize (pad_field (Some pl) ptr) = pl).
      { unfold fsize, pad_field, len_or_1; cbn [f_esize f_len]. destruct (pl =? 0) eqn:Z0; lia. }
      assert (Hs : fsize (set_off f (ptr + pl)) = fsize f) by reflexivity.
      split; [|split; [|split; [|split; [|split]]]].
      * simpl explicit_offsets. rewrite Hps, Hs. constructor.
        { split; [exists ptr; simpl; lia|reflexivity]. }
        constructor; [|exact I1].
        split; [|reflexivity]. simpl. unfold pl. apply pad_makes_aligned; auto.
      * simpl total_size. rewrite Hps, Hs. lia.
      * constructor; [apply wf_pad; lia|]. constructor; [exact Hf|exact I3].
      * discriminate.
      * intros Hu. inversion Hu as [|? ? Hu1 Hu2]; subst.
        destruct (I5 Hu2) as (J1 & J2). unfold user_field in Hu1.
        assert (Ei : is_pad (set_off f (ptr + pl)) = false) by (unfold is_pad; simpl; apply Z.ltb_ge; lia).
        split.
        -- simpl. rewrite Ei. simpl. rewrite J1. reflexivity.
        -- constructor; [intros _; split; reflexivity|].
           constructor; [|exact J2]. unfold char_pad. rewrite Ei. discriminate.
      * discriminate.
Qed.

(* place with auto_pad = false succeeds exactly when every running-sum offset is aligned *)
Lemma place_false_complete : forall fs ptr,
  Forall wf_field fs ->
  Forall2 (fun f o => (f_align f | o)) fs (explicit_offsets fs ptr) ->
  exists fs', place false fs ptr = Ok (fs', ptr + total_size fs) /\ map strip fs' = map strip fs.
Proof.
  induction fs as [|f r IH]; intros ptr Hwf H; simpl.
  - exists []. split; [f_equal; f_equal; lia|reflexivity].
  - inversion Hwf as [|? ? Hf Hr]; subst. simpl in H. inversion H as [|? ? ? ? H1 H2]; subst.
    destruct Hf as (_ & Ha & _).
    apply (mod0_divide _ _ Ha) in H1. rewrite H1.
    destruct (IH _ Hr H2) as (r' & E & Es). rewrite E.
    exists (set_off f ptr :: r'). split; [f_equal; f_equal; lia|simpl; rewrite Es; reflexivity].
Qed.

(* ---------------- alignment bookkeeping --------------------------------- *)

Lemma max_align_pow2 fs : Forall wf_field fs -> fs <> [] -> pow2_8 (max_align fs).
Proof.
  induction fs as [|f r IH]; intros Hwf Hne; [congruence|].
  inversion Hwf as [|? ? Hf Hr]; subst. destruct Hf as (_ & Ha & _). simpl.
  destruct r as [|g r'].
  - simpl. replace (Z.max (f_align f) 0) with (f_align f) by (p28 Ha; lia). exact Ha.
  - assert (Hm : pow2_8 (max_align (g :: r'))) by (apply IH; [exact Hr|discriminate]).
    unfold pow2_8 in *. lia.
Qed.

Lemma max_align_ge fs f : In f fs -> f_align f <= max_align fs.
Proof.
  induction fs as [|g r IH]; simpl; intros H; [contradiction|].
  destruct H as [->|H]; [lia|]. specialize (IH H). lia.
Qed.

Lemma pow2_divides a m : pow2_8 a -> pow2_8 m -> a <= m -> (a | m).
Proof.
  intros Ha Hm Hle. p28 Ha; p28 Hm; subst; try lia;
    first [exists 1; lia|exists 2; lia|exists 4; lia|exists 8; lia].
Qed.

Lemma divides_pow2_le a m : pow2_8 a -> pow2_8 m -> (a | m) -> a <= m.
Proof. intros Ha Hm [k Hk]. p28 Ha; p28 Hm; subst; lia. Qed.

(* all fields aligned at x  <->  strictest alignment divides x *)
Lemma all_divide_iff fs x : Forall wf_field fs -> fs <> [] ->
  (Forall (fun f => (f_align f | x)) fs <-> (max_align fs | x)).
Proof.
  intros Hwf Hne. pose proof (max_align_pow2 _ Hwf Hne) as Hm. split.
  - (* the maximum is attained *)
    intros Hall.
    assert (Hex : exists f, In f fs /\ f_align f = max_align fs).
    { clear Hall Hm. induction fs as [|f r IH]; [congruence|].
      inversion Hwf as [|? ? Hf Hr]; subst. destruct Hf as (_ & Ha & _).
      destruct r as [|g r'].
      - exists f. split; [left; reflexivity|]. simpl. p28 Ha; lia.
      - destruct (IH Hr ltac:(discriminate)) as (h & Hin & Hh).
        simpl max_align. simpl max_align in Hh.
        destruct (Z_le_gt_dec (f_align f) (Z.max (f_align g) (max_align r'))).
        + exists h. split; [right; exact Hin|]. rewrite Hh. lia.
        + exists f. split; [left; reflexivity|]. lia. }
    destruct Hex as (f & Hin & Hf). rewrite <- Hf.
    rewrite Forall_forall in Hall. apply Hall; exact Hin.
  - intros Hd. apply Forall_forall. intros f Hin.
    rewrite Forall_forall in Hwf. destruct (Hwf f Hin) as (_ & Ha & _).
    apply Z.divide_trans with (max_align fs); [|exact Hd].
    apply pow2_divides; auto. apply max_align_ge; exact Hin.
Qed.

Lemma misaligned_at_spec fs ptr pad :
  Forall wf_field fs -> Forall (fun f => (f_align f | f_off f)) fs ->
  misaligned_at fs ptr pad = false <-> Forall (fun f => (f_align f | pad + ptr)) fs.
Proof.
  intros Hwf Hoff. unfold misaligned_at. induction fs as [|f r IH]; simpl.
  - split; [constructor|reflexivity].
  - inversion Hwf as [|? ? Hf Hr]; subst. inversion Hoff as [|? ? Ho Hor]; subst.
    destruct Hf as (_ & Ha & _).
    rewrite orb_false_iff, negb_false_iff, (mod0_divide _ _ Ha), (IH Hr Hor).
    split.
    + intros [H1 H2]. constructor; [|exact H2].
      destruct H1 as [k Hk], Ho as [j Hj]. exists (k - j). lia.
    + intros H. inversion H as [|? ? H1 H2]; subst. split; [|exact H2].
      destruct H1 as [k Hk], Ho as [j Hj]. exists (k + j). lia.
Qed.

Lemma find_pad_spec fs ptr : Forall wf_field fs -> fs <> [] ->
  Forall (fun f => (f_align f | f_off f)) fs ->
  forall fuel pad, (exists d, 0 <= d < Z.of_nat fuel /\ (max_align fs | pad + d + ptr)) ->
  exists p, find_pad fuel fs ptr pad = Some p /\ pad <= p /\ (max_align fs | p + ptr) /\
            (forall q, pad <= q < p -> ~ (max_align fs | q + ptr)).
Proof.
  intros Hwf Hne Hoff. induction fuel as [|k IH]; intros pad (d & Hd & Hdiv); [lia|].
  simpl. destruct (misaligned_at fs ptr pad) eqn:E.
  - assert (Hn : ~ (max_align fs | pad + ptr)).
    { intro Hc. apply (all_divide_iff fs (pad + ptr) Hwf Hne) in Hc.
      apply (misaligned_at_spec fs ptr pad Hwf Hoff) in Hc. congruence. }
    assert (d <> 0) by (intro; subst d; apply Hn; replace (pad + ptr) with (pad + 0 + ptr) by lia; exact Hdiv).
    destruct (IH (pad + 1)) as (p & Hp & Hle & Hdv & Hmin).
    { exists (d - 1). split; [lia|]. replace (pad + 1 + (d - 1) + ptr) with (pad + d + ptr) by lia. exact Hdiv. }
    exists p. repeat split; auto; try lia.
    intros q Hq. destruct (Z.eq_dec q pad) as [->|]; [exact Hn|apply Hmin; lia].
  - exists pad. apply (misaligned_at_spec fs ptr pad Hwf Hoff) in E.
    apply (all_divide_iff fs (pad + ptr) Hwf Hne) in E.
    repeat split; auto; try lia.
Qed.

Lemma pad_exists m ptr : pow2_8 m -> exists d, 0 <= d < 9 /\ (m | 0 + d + ptr).
Proof.
  intros Hm. exists ((m - ptr mod m) mod m).
  assert (Hgoal : 0 <= (m - ptr mod m) mod m < 9 /\ (0 + (m - ptr mod m) mod m + ptr) mod m = 0).
  { p28 Hm; subst m; split;
      try (pose proof (Z.mod_pos_bound (8 - ptr mod 8) 8 ltac:(lia)));
      try (pose proof (Z.mod_pos_bound (4 - ptr mod 4) 4 ltac:(lia)));
      try (pose proof (Z.mod_pos_bound (2 - ptr mod 2) 2 ltac:(lia)));
      try (pose proof (Z.mod_pos_bound (1 - ptr mod 1) 1 ltac:(lia)));
      try lia;
      (rewrite Z.add_0_l, Z.add_mod_idemp_l by lia;
       match goal with |- (?a - ptr mod ?a + ptr) mod ?a = 0 =>
         replace (a - ptr mod a + ptr) with (ptr - ptr mod a + 1 * a) by lia;
         rewrite Z.mod_add by lia;
         rewrite Zminus_mod_idemp_r, Z.sub_diag; reflexivity
       end). }
  destruct Hgoal as [H1 H2]. split; [exact H1|].
  apply Z.mod_divide; [p28 Hm; lia|exact H2].
Qed.

(* ---------------- C natural layout = explicit layout --------------------- *)

Lemma align_up_id a o : pow2_8 a -> (align_up o a = o <-> (a | o)).
Proof.
  intros Ha. unfold align_up. pose proof (pow2_8_nz _ Ha). split.
  - intros E. exists ((o + a - 1) / a). lia.
  - intros [k ->]. replace (k * a + a - 1) with ((a - 1) + k * a) by lia.
    rewrite Z.div_add by lia. rewrite Z.div_small by lia. lia.
Qed.

Lemma c_offsets_explicit : forall fs ptr, Forall wf_field fs ->
  Forall2 (fun f o => (f_align f | o)) fs (explicit_offsets fs ptr) ->
  c_offsets fs ptr = (explicit_offsets fs ptr, ptr + total_size fs).
Proof.
  induction fs as [|f r IH]; intros ptr Hwf H; simpl.
  - f_equal; lia.
  - inversion Hwf as [|? ? Hf Hr]; subst. simpl in H. inversion H as [|? ? ? ? H1 H2]; subst.
    destruct Hf as (_ & Ha & _). apply (align_up_id _ _ Ha) in H1. rewrite H1.
    rewrite (IH _ Hr H2). f_equal; lia.
Qed.

Lemma c_offsets_explicit_conv : forall fs ptr e, Forall wf_field fs ->
  c_offsets fs ptr = (explicit_offsets fs ptr, e) ->
  Forall2 (fun f o => (f_align f | o)) fs (explicit_offsets fs ptr) /\ e = ptr + total_size fs.
Proof.
  induction fs as [|f r IH]; intros ptr e Hwf H; simpl in *.
  - inversion H; subst. split; [constructor|lia].
  - inversion Hwf as [|? ? Hf Hr]; subst. destruct Hf as (_ & Ha & _).
    destruct (c_offsets r (align_up ptr (f_align f) + fsize f)) as [os e'] eqn:E.
    injection H as Hal Hos He. subst e'. rewrite Hal in E. rewrite Hos in E.
    destruct (IH _ _ Hr E) as [I1 I2]. split.
    + constructor; [apply (align_up_id _ _ Ha); exact Hal|exact I1].
    + lia.
Qed.

Lemma total_size_app a b : total_size (a ++ b) = total_size a + total_size b.
Proof. induction a; simpl; lia. Qed.

Lemma explicit_offsets_app a b p :
  explicit_offsets (a ++ b) p = explicit_offsets a p ++ explicit_offsets b (p + total_size a).
Proof.
  revert p; induction a as [|f r IH]; intros p; simpl.
  - f_equal; lia.
  - rewrite IH. rewrite Z.add_assoc. reflexivity.
Qed.

Lemma max_align_app a b : max_align (a ++ b) = Z.max (max_align a) (max_align b).
Proof. induction a; simpl; [|lia]. induction b; simpl; lia. Qed.

Lemma max_align_nonneg fs : 0 <= max_align fs.
Proof. induction fs; simpl; lia. Qed.

Lemma pick_align_spec ptr m : pow2_8 m -> (m | ptr) -> pick_align ptr m = Some m.
Proof.
  intros Hm Hd. unfold pick_align.
  assert (H8 : pow2_8 8) by (unfold pow2_8; lia).
  assert (H4 : pow2_8 4) by (unfold pow2_8; lia).
  assert (H2 : pow2_8 2) by (unfold pow2_8; lia).
  assert (H1 : pow2_8 1) by (unfold pow2_8; lia).
  destruct (ptr mod 8 =? 0) eqn:E8; [f_equal; p28 Hm; lia|].
  apply (mod0_divide_false _ _ H8) in E8.
  destruct (ptr mod 4 =? 0) eqn:E4.
  { f_equal. p28 Hm; try lia. subst m. contradiction. }
  apply (mod0_divide_false _ _ H4) in E4.
  destruct (ptr mod 2 =? 0) eqn:E2.
  { f_equal. p28 Hm; try lia; subst m; contradiction. }
  apply (mod0_divide_false _ _ H2) in E2.
  destruct (ptr mod 1 =? 0) eqn:E1.
  { f_equal. p28 Hm; try lia; subst m; contradiction. }
  apply (mod0_divide_false _ _ H1) in E1. exfalso. apply E1. exists ptr. lia.
Qed.

Lemma Forall2_placed_div fs os : Forall2 placed_ok fs os -> Forall2 (fun f o => (f_align f | o)) fs os.
Proof. induction 1; constructor; auto. destruct H; auto. Qed.

Lemma Forall2_placed_off : forall fs p, Forall2 placed_ok fs (explicit_offsets fs p) ->
  Forall (fun f => (f_align f | f_off f)) fs.
Proof.
  induction fs as [|f r IH]; intros p H; simpl in H; [constructor|].
  inversion H as [|? ? ? ? Hpo H3]; subst. destruct Hpo as [Hp1 Hp2].
  constructor; [rewrite Hp2; exact Hp1|eapply IH; eauto].
Qed.

Lemma Forall2_app_inv {A B} (P : A -> B -> Prop) l1 l2 m1 m2 :
  Forall2 P l1 m1 -> Forall2 P l2 m2 -> Forall2 P (l1 ++ l2) (m1 ++ m2).
Proof. induction 1; simpl; auto. Qed.

(* ---------------- check_alignment --------------------------------------- *)

Definition good_layout (fs' : list field) (a : Z) : Prop :=
  let offs := explicit_offsets fs' 0 in
  Forall2 (fun f o => (f_align f | o)) fs' offs /\
  Forall2 (fun f o => is_pad f = true \/ f_off f = o) fs' offs /\
  a = max_align fs' /\ pow2_8 a /\ (a | total_size fs') /\
  c_offsets fs' 0 = (offs, total_size fs') /\ c_sizeof fs' = total_size fs' /\
  Forall wf_field fs' /\ 1 <= total_size fs'.

Lemma total_size_pos fs : Forall wf_field fs -> fs <> [] -> 1 <= total_size fs.
Proof.
  induction fs as [|f r IH]; intros Hwf Hne; [congruence|].
  inversion Hwf as [|? ? Hf Hr]; subst. simpl. destruct (wf_fsize _ Hf) as [H1 _].
  destruct r; [simpl; lia|]. specialize (IH Hr ltac:(discriminate)). lia.
Qed.

Lemma check_alignment_spec ap fs fs' a :
  fs <> [] -> Forall wf_field fs -> check_alignment ap fs = Ok (fs', a) ->
  good_layout fs' a /\
  (ap = false -> map strip fs' = map strip fs) /\
  (Forall user_field fs ->
     map strip (filter (fun f => negb (is_pad f)) fs') = map strip fs /\ Forall char_pad fs').
Proof.
  intros Hne Hwf H. unfold check_alignment in H.
  destruct (place ap fs 0) as [[fs1 ptr]|e] eqn:Hp; [|discriminate].
  destruct (place_spec ap _ _ _ _ Hwf Hp) as (P1 & P2 & P3 & P4 & P5 & P6).
  specialize (P6 Hne). simpl in P2.
  pose proof (Forall2_placed_off _ _ P1) as Hoff.
  pose proof (max_align_pow2 _ P3 P6) as Hm1.
  destruct (pad_exists (max_align fs1) ptr Hm1) as (d & Hd & Hdd).
  destruct (find_pad_spec fs1 ptr P3 P6 Hoff 9%nat 0 (ex_intro _ d (conj Hd Hdd)))
    as (pad & Hfp & Hp0 & Hpd & Hmin).
  rewrite Hfp in H.
  assert (Hpad_lt : pad <= d).
  { destruct (Z_le_gt_dec pad d); auto. exfalso. apply (Hmin d); [lia|].
    replace (d + ptr) with (0 + d + ptr) by lia. exact Hdd. }
  destruct (pad =? 0) eqn:Epad.
  - (* no trailing padding *)
    assert (pad = 0) by lia. subst pad. simpl in Hpd.
    rewrite (pick_align_spec ptr (max_align fs1) Hm1 Hpd) in H.
    assert (Hc : c_offsets fs1 0 = (explicit_offsets fs1 0, total_size fs1)).
    { rewrite (c_offsets_explicit fs1 0 P3 (Forall2_placed_div _ _ P1)). f_equal. }
    assert (Hsz : c_sizeof fs1 = total_size fs1).
    { unfold c_sizeof. rewrite Hc. rewrite Z.max_r by (p28 Hm1; lia).
      apply align_up_id; auto. rewrite <- P2. exact Hpd. }
    rewrite Hsz, Z.eqb_refl in H. inversion H; subst fs' a. clear H.
    split; [|split; auto].
    unfold good_layout. repeat split; auto.
    + apply Forall2_placed_div; exact P1.
    + clear -P1. induction P1; constructor; auto. destruct H; auto.
    + rewrite <- P2. exact Hpd.
    + apply total_size_pos; auto.
  - (* trailing padding *)
    destruct ap; [|discriminate]. simpl in H.
    set (l := if pad =? 1 then None else Some pad) in *.
    set (tp := pad_field l (-1)) in *.
    assert (Hpadpos : 1 <= pad) by lia.
    assert (Htps : fsize tp = pad).
    { unfold tp, l, fsize, pad_field, len_or_1; cbn [f_esize f_len].
      destruct (pad =? 1) eqn:E1; [lia|]. rewrite Epad. lia. }
    assert (Hwtp : wf_field tp).
    { apply wf_pad. unfold l. destruct (pad =? 1); [exact I|lia]. }
    assert (Hma : max_align (fs1 ++ [tp]) = max_align fs1).
    { rewrite max_align_app. simpl. p28 Hm1; lia. }
    assert (Hts : total_size (fs1 ++ [tp]) = ptr + pad).
    { rewrite total_size_app. simpl. lia. }
    assert (Hd2 : (max_align fs1 | ptr + pad)) by (rewrite Z.add_comm; exact Hpd).
    rewrite Hma in H. rewrite (pick_align_spec _ _ Hm1 Hd2) in H.
    assert (Hwf2 : Forall wf_field (fs1 ++ [tp])) by (apply Forall_app; split; auto).
    assert (Hdiv2 : Forall2 (fun f o => (f_align f | o)) (fs1 ++ [tp]) (explicit_offsets (fs1 ++ [tp]) 0)).
    { rewrite explicit_offsets_app. apply Forall2_app_inv; [apply Forall2_placed_div; exact P1|].
      simpl. constructor; [|constructor]. exists (0 + total_size fs1). simpl. lia. }
    assert (Hc : c_offsets (fs1 ++ [tp]) 0 = (explicit_offsets (fs1 ++ [tp]) 0, total_size (fs1 ++ [tp]))).
    { rewrite (c_offsets_explicit _ 0 Hwf2 Hdiv2). f_equal. }
    assert (Hsz : c_sizeof (fs1 ++ [tp]) = total_size (fs1 ++ [tp])).
    { unfold c_sizeof. rewrite Hc, Hma. rewrite Z.max_r by (p28 Hm1; lia).
      apply align_up_id; auto. rewrite Hts. exact Hd2. }
    rewrite Hsz, Z.eqb_refl in H. inversion H; subst fs' a. clear H.
    split; [|split; [discriminate|]].
    + unfold good_layout. rewrite Hma. repeat split; auto.
      * rewrite explicit_offsets_app. apply Forall2_app_inv.
        -- clear -P1. induction P1; constructor; auto. destruct H; auto.
        -- simpl. constructor; [left; reflexivity|constructor].
      * rewrite Hts. exact Hd2.
      * rewrite Hts. pose proof (total_size_pos _ P3 P6). lia.
    + intros Hu. destruct (P5 Hu) as [J1 J2]. split.
      * rewrite filter_app. simpl. rewrite app_nil_r. exact J1.
      * apply Forall_app; split; auto. constructor; [|constructor]. intros _. split; reflexivity.
Qed.

(* with auto padding off: accepted  <->  the natural C layout needs no padding *)
Definition no_hidden_padding (fs : list field) : Prop :=
  c_offsets fs 0 = (explicit_offsets fs 0, total_size fs) /\ c_sizeof fs = total_size fs.

Lemma nopad_accepts fs : fs <> [] -> Forall wf_field fs -> no_hidden_padding fs ->
  exists fs', check_alignment false fs = Ok (fs', max_align fs) /\ map strip fs' = map strip fs.
Proof.
  intros Hne Hwf [Hc Hs].
  destruct (c_offsets_explicit_conv _ _ _ Hwf Hc) as [Hdiv _].
  destruct (place_false_complete fs 0 Hwf Hdiv) as (fs1 & Hp & Hst).
  pose proof (max_align_pow2 _ Hwf Hne) as Hm.
  assert (Hdm : (max_align fs | total_size fs)).
  { unfold c_sizeof in Hs. rewrite Hc in Hs. rewrite Z.max_r in Hs by (p28 Hm; lia).
    apply (align_up_id _ _ Hm). exact Hs. }
  (* fs1 has the same sizes/alignments as fs *)
  destruct (place_spec false _ _ _ _ Hwf Hp) as (P1 & P2 & P3 & P4 & _ & P6).
  specialize (P6 Hne).
  assert (Hsame : forall g1 g2 : list field, map strip g1 = map strip g2 ->
            max_align g1 = max_align g2 /\ total_size g1 = total_size g2).
  { induction g1 as [|x xs IHx]; destruct g2 as [|y ys]; simpl; intros E; try discriminate; [split; reflexivity|].
    inversion E as [[E1 E2 E3 E4 E5]]. destruct (IHx _ E5) as [I1 I2]. unfold fsize.
    rewrite E2, E3, E4, I1, I2. split; reflexivity. }
  destruct (Hsame _ _ Hst) as [Hma Hts].
  unfold check_alignment. rewrite Hp.
  pose proof (Forall2_placed_off _ _ P1) as Hoff.
  assert (Hm1 : pow2_8 (max_align fs1)) by (rewrite Hma; exact Hm).
  destruct (find_pad_spec fs1 (0 + total_size fs) P3 P6 Hoff 9%nat 0) as (pad & Hfp & Hp0 & Hpd & Hmin).
  { exists 0. split; [lia|]. rewrite Hma. simpl. exact Hdm. }
  assert (pad = 0).
  { destruct (Z.eq_dec pad 0); auto. exfalso. apply (Hmin 0); [lia|]. rewrite Hma. simpl. exact Hdm. }
  subst pad. rewrite Hfp. simpl (0 =? 0). cbv iota.
  rewrite Hma. simpl (0 + total_size fs). rewrite (pick_align_spec _ _ Hm Hdm).
  assert (Hc1 : c_sizeof fs1 = total_size fs1).
  { unfold c_sizeof. rewrite (c_offsets_explicit fs1 0 P3 (Forall2_placed_div _ _ P1)).
    rewrite Hma, Hts. rewrite Z.max_r by (p28 Hm; lia). apply align_up_id; auto. }
  rewrite Hc1, Z.eqb_refl. exists fs1. split; [reflexivity|exact Hst].
Qed.

Lemma accepted_nopad_needs_none fs fs' a : fs <> [] -> Forall wf_field fs ->
  check_alignment false fs = Ok (fs', a) -> no_hidden_padding fs.
Proof.
  intros Hne Hwf H.
  destruct (check_alignment_spec false fs fs' a Hne Hwf H) as (G & Hst & _).
  specialize (Hst eq_refl).
  destruct G as (G1 & _ & _ & _ & _ & G6 & G7 & G8 & _).
  (* transport along equal strips *)
  assert (Htr : forall g1 g2 : list field, map strip g1 = map strip g2 -> forall p,
            c_offsets g1 p = c_offsets g2 p /\ explicit_offsets g1 p = explicit_offsets g2 p
            /\ total_size g1 = total_size g2 /\ max_align g1 = max_align g2).
  { induction g1 as [|x xs IHx]; destruct g2 as [|y ys]; simpl; intros E p; try discriminate; [repeat split|].
    inversion E as [[E1 E2 E3 E4 E5]]. unfold fsize. rewrite E2, E3, E4.
    destruct (IHx _ E5 (align_up p (f_align y) + f_esize y * len_or_1 (f_len y))) as (I1 & _).
    destruct (IHx _ E5 (p + f_esize y * len_or_1 (f_len y))) as (_ & I2 & I3 & I4).
    rewrite I1, I2, I3, I4. repeat split. }
  destruct (Htr _ _ Hst 0) as (T1 & T2 & T3 & T4).
  unfold no_hidden_padding, c_sizeof in *. rewrite <- T1, <- T2, <- T3, <- T4. split; auto.
Qed.

(* ---------------- totality: the model's internal errors are unreachable --- *)

Lemma place_true_total : forall fs ptr, Forall wf_field fs -> exists r, place true fs ptr = Ok r.
Proof.
  induction fs as [|f r IH]; intros ptr Hwf; simpl; [eexists; reflexivity|].
  inversion Hwf as [|? ? Hf Hr]; subst.
  destruct (ptr mod f_align f =? 0).
  - destruct (IH (ptr + fsize f) Hr) as [[r' q] E]. rewrite E. eexists; reflexivity.
  - destruct (IH (ptr + (f_align f - ptr mod f_align f) + fsize f) Hr) as [[r' q] E]. rewrite E.
    eexists; reflexivity.
Qed.

Lemma place_false_err : forall fs ptr e, place false fs ptr = Raise e -> e = EAlignment.
Proof.
  induction fs as [|f r IH]; intros ptr e H; simpl in H; [discriminate|].
  destruct (ptr mod f_align f =? 0).
  - destruct (place false r (ptr + fsize f)) as [[r' q]|e'] eqn:E; [discriminate|].
    inversion H; subst. eapply IH; eauto.
  - inversion H; reflexivity.
Qed.

Lemma check_alignment_total ap fs : fs <> [] -> Forall wf_field fs ->
  (exists r, check_alignment ap fs = Ok r) \/ (ap = false /\ check_alignment ap fs = Raise EAlignment).
Proof.
  intros Hne Hwf. unfold check_alignment.
  destruct (place ap fs 0) as [[fs1 ptr]|e] eqn:Hp.
  2:{ destruct ap.
      - destruct (place_true_total fs 0 Hwf) as [r Hr]. congruence.
      - right. split; auto. rewrite (place_false_err _ _ _ Hp). reflexivity. }
  destruct (place_spec ap _ _ _ _ Hwf Hp) as (P1 & P2 & P3 & P4 & P5 & P6).
  specialize (P6 Hne). simpl in P2.
  pose proof (Forall2_placed_off _ _ P1) as Hoff.
  pose proof (max_align_pow2 _ P3 P6) as Hm1.
  destruct (pad_exists (max_align fs1) ptr Hm1) as (d & Hd & Hdd).
  destruct (find_pad_spec fs1 ptr P3 P6 Hoff 9%nat 0 (ex_intro _ d (conj Hd Hdd)))
    as (pad & Hfp & Hp0 & Hpd & Hmin).
  rewrite Hfp.
  destruct (pad =? 0) eqn:Epad.
  - assert (pad = 0) by lia. subst pad. simpl in Hpd.
    rewrite (pick_align_spec ptr (max_align fs1) Hm1 Hpd).
    assert (Hsz : c_sizeof fs1 = total_size fs1).
    { unfold c_sizeof. rewrite (c_offsets_explicit fs1 0 P3 (Forall2_placed_div _ _ P1)).
      rewrite Z.max_r by (p28 Hm1; lia). apply align_up_id; auto. rewrite <- P2. exact Hpd. }
    rewrite Hsz, Z.eqb_refl. left. eexists; reflexivity.
  - destruct ap; simpl.
    2:{ right. split; reflexivity. }
    set (l := if pad =? 1 then None else Some pad).
    set (tp := pad_field l (-1)).
    assert (Hpadpos : 1 <= pad) by lia.
    assert (Htps : fsize tp = pad).
    { unfold tp, l, fsize, pad_field, len_or_1; cbn [f_esize f_len].
      destruct (pad =? 1) eqn:E1; [lia|]. rewrite Epad. lia. }
    assert (Hwtp : wf_field tp).
    { apply wf_pad. unfold l. destruct (pad =? 1); [exact I|lia]. }
    assert (Hma : max_align (fs1 ++ [tp]) = max_align fs1).
    { rewrite max_align_app. simpl. p28 Hm1; lia. }
    assert (Hts : total_size (fs1 ++ [tp]) = ptr + pad).
    { rewrite total_size_app. simpl. lia. }
    assert (Hd2 : (max_align fs1 | ptr + pad)) by (rewrite Z.add_comm; exact Hpd).
    rewrite Hma. rewrite (pick_align_spec _ _ Hm1 Hd2).
    assert (Hwf2 : Forall wf_field (fs1 ++ [tp])) by (apply Forall_app; split; auto).
    assert (Hdiv2 : Forall2 (fun f o => (f_align f | o)) (fs1 ++ [tp]) (explicit_offsets (fs1 ++ [tp]) 0)).
    { rewrite explicit_offsets_app. apply Forall2_app_inv; [apply Forall2_placed_div; exact P1|].
      simpl. constructor; [|constructor]. exists (0 + total_size fs1). simpl. lia. }
    assert (Hsz : c_sizeof (fs1 ++ [tp]) = total_size (fs1 ++ [tp])).
    { unfold c_sizeof. rewrite (c_offsets_explicit _ 0 Hwf2 Hdiv2), Hma. rewrite Z.max_r by (p28 Hm1; lia).
      apply align_up_id; auto. rewrite Hts. exact Hd2. }
    rewrite Hsz, Z.eqb_refl. left. eexists; reflexivity.
Qed.

(* an accepted struct is itself a well-formed field type (closure under nesting) *)
Lemma accepted_is_wf_type ap fs fs' a id len off :
  fs <> [] -> Forall wf_field fs -> check_alignment ap fs = Ok (fs', a) ->
  match len with Some n => 1 <= n | None => True end ->
  wf_field (mkField id (total_size fs') a len off).
Proof.
  intros Hne Hwf H Hl. destruct (check_alignment_spec _ _ _ _ Hne Hwf H) as (G & _).
  destruct G as (_ & _ & _ & Ga & Gd & _ & _ & _ & Gp).
  unfold wf_field; simpl. repeat split; auto.
Qed.
