(* Proofs about Model/Registry.v : the per-event checks against a declarative
   notion of conflict over the traversal (event) list. *)
From Coq Require Import ZArith List Bool String Ascii Lia Permutation.
From Defs Require Import Gen.TypeTables Gen.Guards Model.Registry.
Import ListNotations.
Open Scope string_scope. Open Scope list_scope. Open Scope Z_scope.

(* ---- membership ---------------------------------------------------------- *)

Lemma mems_In x l : mems x l = true <-> In x l.
Proof.
  induction l as [|y r IH]; simpl; [split; [discriminate|tauto]|].
  rewrite orb_true_iff, IH, String.eqb_eq. split; intros [H|H]; auto.
Qed.
Lemma mems_false x l : mems x l = false <-> ~ In x l.
Proof. rewrite <- mems_In. destruct (mems x l); split; congruence. Qed.
Lemma memz_In x l : memz x l = true <-> In x l.
Proof.
  induction l as [|y r IH]; simpl; [split; [discriminate|tauto]|].
  rewrite orb_true_iff, IH, Z.eqb_eq. split; intros [H|H]; auto.
Qed.
Lemma memz_false x l : memz x l = false <-> ~ In x l.
Proof. rewrite <- memz_In. destruct (memz x l); split; congruence. Qed.
Lemma memn_In x l : memn x l = true <-> In x l.
Proof.
  induction l as [|y r IH]; simpl; [split; [discriminate|tauto]|].
  rewrite orb_true_iff, IH, Nat.eqb_eq. split; intros [H|H]; auto.
Qed.
Lemma memn_false x l : memn x l = false <-> ~ In x l.
Proof. rewrite <- memn_In. destruct (memn x l); split; congruence. Qed.
Lemma nodups_NoDup l : nodups l = true <-> NoDup l.
Proof.
  induction l as [|x r IH]; simpl; [split; [constructor|reflexivity]|].
  rewrite andb_true_iff, negb_true_iff, mems_false, IH. split.
  - intros [A B]. constructor; assumption.
  - intros H. inversion H; subst. split; assumption.
Qed.

Lemma NoDup_app_iff {A} (l1 l2 : list A) :
  NoDup (l1 ++ l2) <-> NoDup l1 /\ NoDup l2 /\ (forall x, In x l1 -> ~ In x l2).
Proof.
  induction l1 as [|a r IH]; simpl.
  - split; [intros H; repeat split; [constructor|exact H|tauto]|tauto].
  - split.
    + intros H. inversion H as [|? ? Hn Hd]; subst. apply IH in Hd. destruct Hd as (A1 & A2 & A3).
      repeat split; [constructor; [intros C; apply Hn, in_or_app; auto|exact A1]|exact A2|].
      intros x [->|Hx] C; [apply Hn, in_or_app; auto|exact (A3 x Hx C)].
    + intros (H1 & H2 & H3). inversion H1; subst. constructor.
      * intros C. apply in_app_or in C. destruct C as [C|C]; [auto|exact (H3 a (or_introl eq_refl) C)].
      * apply IH. repeat split; auto.
Qed.

Lemma in_map_flat_map {A B C} (f : B -> C) (g : A -> list B) l x :
  In x (map f (flat_map g l)) <-> exists e, In e l /\ In x (map f (g e)).
Proof.
  rewrite in_map_iff. split.
  - intros (b & <- & Hb). apply in_flat_map in Hb. destruct Hb as (e & He & Hb).
    exists e. split; [exact He|apply in_map; exact Hb].
  - intros (e & He & Hx). apply in_map_iff in Hx. destruct Hx as (b & <- & Hb).
    exists b. split; [reflexivity|apply in_flat_map; eauto].
Qed.

Lemma map_flat_map {A B C} (f : B -> C) (g : A -> list B) l :
  map f (flat_map g l) = flat_map (fun e => map f (g e)) l.
Proof. induction l; simpl; [reflexivity|rewrite map_app, IHl; reflexivity]. Qed.

(* ---- what an event declares ------------------------------------------------- *)

Definition d_files (e : ev) : list nat := match e with EFile i _ | ENoFile i => [i] | _ => [] end.
Definition d_consts (e : ev) : list (string * Z) := match e with EConst n v => [(n, v)] | _ => [] end.
Definition d_strs (e : ev) : list string := match e with EStr n => [n] | _ => [] end.
Definition d_aliases (e : ev) : list (string * string) := match e with EAlias n t => [(n, t)] | _ => [] end.
Definition d_hosts (e : ev) : list (string * Z) := match e with EHost _ n v => [(n, v)] | _ => [] end.
Definition d_mods (e : ev) : list (string * Z) := match e with EMod _ n v => [(n, v)] | _ => [] end.
Definition d_structs (e : ev) : list string := match e with EStruct n => [n] | _ => [] end.
Definition d_msgs (e : ev) : list (string * Z) :=
  match e with EMsg n id => [(n, id)] | ESigR id => [(reserved_name id, id)] | _ => [] end.

(* names declared by the user in the namespace shared by constants, string constants,
   aliases, structs and messages *)
Definition shared_decl (e : ev) : list string :=
  match e with EConst n _ | EStr n | EAlias n _ | EStruct n | EMsg n _ => [n] | _ => [] end.
Definition msgid_decl (e : ev) : list Z := match e with EMsg _ id | ESigR id => [id] | _ => [] end.

Definition files_of := flat_map d_files.
Definition shared := flat_map shared_decl.
Definition msg_ids := flat_map msgid_decl.
Definition host_names (l : list ev) := map fst (flat_map d_hosts l).
Definition host_vals (l : list ev) := map snd (flat_map d_hosts l).
Definition mod_names (l : list ev) := map fst (flat_map d_mods l).
Definition mod_vals (l : list ev) := map snd (flat_map d_mods l).

Record conflict_free (evs : list ev) : Prop := mkCF {
  cf_shared : NoDup (shared evs);
  cf_msg : NoDup (msg_ids evs);
  cf_hn : NoDup (host_names evs);
  cf_hv : NoDup (host_vals evs);
  cf_mn : NoDup (mod_names evs);
  cf_mv : NoDup (mod_vals evs)
}.

Definition in_range (icd : bool) (e : ev) : bool :=
  match e with
  | EHost core _ v => negb (host_id_out_of_range v && host_id_range_enforced core icd v)
  | EMod core _ v => negb (module_id_out_of_range v && module_id_range_enforced core icd v)
  | EMsg _ id | ESigR id => negb (msg_id_out_of_range id)
  | _ => true
  end.

(* everything else that must be right for a file to be accepted: valid names (check_name: a leading
   letter; the directive `_RESERVED_` is not a name), duplicate-free YAML mappings, existing files,
   well-formed reserved entries, aliases of native types *)
Definition ev_wf (e : ev) : bool :=
  match e with
  | EFile _ y => y
  | ENoFile _ => false
  | EConst n _ | EStr n | EStruct n | EMsg n _ => starts_with_letter n
  | EAlias n ty => starts_with_letter n && mems ty native_keys
  | EHost _ n _ | EMod _ n _ => starts_with_letter n
  | EResHead es => forallb entry_ok es
  | ESigR _ => true
  end.

(* ---- representation invariant: the state holds what the past events declared ---- *)

Record Rep (s : st) (pre : list ev) : Prop := mkRep {
  r_inc : inc s = files_of pre;
  r_consts : consts s = flat_map d_consts pre;
  r_strs : strs s = flat_map d_strs pre;
  r_aliases : map fst (aliases s) = map fst (flat_map d_aliases pre);
  r_hosts : hosts s = flat_map d_hosts pre;
  r_mods : mods s = flat_map d_mods pre;
  r_structs : structs s = flat_map d_structs pre;
  r_msgs : msgs s = flat_map d_msgs pre
}.

Lemma Rep_st0 : Rep st0 [].
Proof. constructor; reflexivity. Qed.

(* string facts about generated names *)
Lemma length_append a b : String.length (String.append a b) = (String.length a + String.length b)%nat.
Proof. induction a; simpl; [reflexivity|rewrite IHa; reflexivity]. Qed.
Lemma length_zeros n : String.length (zeros n) = n.
Proof. induction n; simpl; congruence. Qed.
Lemma length_pad6 s : (6 <= String.length (pad6 s))%nat.
Proof. unfold pad6. rewrite length_append, length_zeros. lia. Qed.

Lemma name_ok_not_generated n id : name_ok_msg n = true -> n <> reserved_name id.
Proof.
  unfold name_ok_msg. rewrite orb_true_iff, String.eqb_eq. intros [H|H] E.
  - subst n. apply (f_equal String.length) in E. unfold reserved_name in E.
    rewrite length_append in E. pose proof (length_pad6 (dec id)). unfold reserved_key in *. simpl in E. lia.
  - subst n. unfold reserved_name, reserved_key in H. simpl in H. discriminate.
Qed.

Lemma starts_letter_name_ok n : starts_with_letter n = true -> name_ok n = true.
Proof. unfold name_ok. auto. Qed.
Lemma name_ok_letter n : name_ok n = true -> starts_with_letter n = true.
Proof. unfold name_ok. auto. Qed.
Lemma name_ok_msg_letter n : name_ok_msg n = true -> String.eqb n reserved_key = false -> starts_with_letter n = true.
Proof. unfold name_ok_msg. intros H E. rewrite E in H. exact H. Qed.
Lemma name_ok_msg_of n : name_ok n = true -> name_ok_msg n = true.
Proof. unfold name_ok, name_ok_msg. intros ->. apply orb_true_r. Qed.
Lemma starts_letter_not_key n : starts_with_letter n = true -> n <> reserved_key.
Proof. intros H E. subst n. discriminate. Qed.

(* names held in the five shared tables of the state *)
Definition names_all (e : ev) : list string :=
  map fst (d_consts e) ++ d_strs e ++ map fst (d_aliases e) ++ d_structs e ++ map fst (d_msgs e).

Lemma in_flat_map_id {A B} (g : A -> list B) l x : In x (flat_map g l) <-> exists e, In e l /\ In x (g e).
Proof. apply in_flat_map. Qed.

Lemma shared_names_rep s pre n : Rep s pre -> name_ok_msg n = true ->
  (In n (shared_names s) <-> In n (shared pre)).
Proof.
  intros R Hn. unfold shared_names. destruct R as [_ Rc Rs Ra _ _ Rt Rm]. rewrite Rc, Rs, Ra, Rt, Rm.
  assert (E : forall e, In n (names_all e) <-> In n (shared_decl e)).
  { intros e. destruct e; simpl; try tauto.
    split; [intros [H|[]]; exfalso; exact (name_ok_not_generated n id Hn (eq_sym H))|tauto]. }
  unfold shared. rewrite in_flat_map. rewrite !in_app_iff, !in_map_flat_map, !in_flat_map. split.
  - intros H. assert (exists e, In e pre /\ In n (names_all e)) as (e & He & Hx).
    { unfold names_all. destruct H as [(e&?&?)|[(e&?&?)|[(e&?&?)|[(e&?&?)|(e&?&?)]]]]; exists e; (split; [assumption|]);
        rewrite !in_app_iff; tauto. }
    exists e. split; [exact He|apply E; exact Hx].
  - intros (e & He & Hx). apply E in Hx. unfold names_all in Hx. rewrite !in_app_iff in Hx.
    destruct Hx as [H|[H|[H|[H|H]]]]; [left|right;left|right;right;left|right;right;right;left|right;right;right;right]; eauto.
Qed.

Lemma msgs_ids_rep s pre : Rep s pre -> map snd (msgs s) = msg_ids pre.
Proof.
  intros R. rewrite (r_msgs _ _ R). unfold msg_ids. clear R.
  induction pre as [|e r IH]; simpl; [reflexivity|]. rewrite map_app, IH. f_equal. destruct e; reflexivity.
Qed.

(* ---- one event ----------------------------------------------------------------- *)

Local Opaque resolve_alias host_id_out_of_range host_id_range_enforced module_id_out_of_range
  module_id_range_enforced msg_id_out_of_range reserved_name name_ok name_ok_msg reserved_key.

Ltac split_ifs H :=
  repeat first
    [ discriminate H
    | match type of H with context [if ?c then _ else _] => destruct c eqn:?; simpl in H end
    | match type of H with context [match ?c with ROk _ => _ | RErr _ => _ end] => destruct c eqn:?; simpl in H end ].

Ltac rep_tac R :=
  destruct R as [R1 R2 R3 R4 R5 R6 R7 R8]; constructor; unfold files_of in *; simpl;
  rewrite ?flat_map_app; simpl; rewrite ?app_nil_r, ?map_app; simpl; congruence.

Lemma step_rep icd s pre e s' : Rep s pre -> step icd s e = ROk s' -> Rep s' (pre ++ [e]).
Proof.
  intros R H. destruct e; simpl in H; unfold chk_shared, reg_msg in H; split_ifs H;
    inversion H; subst; clear H; rep_tac R.
Qed.

Lemma run_app icd s a b :
  run icd s (a ++ b) = match run icd s a with ROk s' => run icd s' b | RErr k => RErr k end.
Proof.
  revert s. induction a as [|e r IH]; intros s; simpl; [reflexivity|].
  destruct (step icd s e); [apply IH|reflexivity].
Qed.

Lemma run_rep icd evs : forall s pre s', Rep s pre -> run icd s evs = ROk s' -> Rep s' (pre ++ evs).
Proof.
  induction evs as [|e r IH]; intros s pre s' R H; simpl in H.
  - inversion H; subst. rewrite app_nil_r. exact R.
  - destruct (step icd s e) as [s1|k] eqn:E; [|discriminate].
    replace (pre ++ e :: r) with ((pre ++ [e]) ++ r) by (rewrite <- app_assoc; reflexivity).
    eapply IH; [eapply step_rep; eassumption|exact H].
Qed.

(* ---- freshness of what an event declares w.r.t. the past ------------------------- *)

Definition fresh (pre : list ev) (e : ev) : Prop :=
  (forall n, In n (shared_decl e) -> ~ In n (shared pre)) /\
  (forall i, In i (msgid_decl e) -> ~ In i (msg_ids pre)) /\
  (forall p, In p (d_hosts e) -> ~ In (fst p) (host_names pre) /\ ~ In (snd p) (host_vals pre)) /\
  (forall p, In p (d_mods e) -> ~ In (fst p) (mod_names pre) /\ ~ In (snd p) (mod_vals pre)).

Lemma NoDup_snoc_small {A} (l d : list A) : (List.length d <= 1)%nat ->
  (NoDup (l ++ d) <-> NoDup l /\ forall x, In x d -> ~ In x l).
Proof.
  intros Hd. rewrite NoDup_app_iff. split.
  - intros (A1 & _ & A3). split; [exact A1|]. intros x Hx C. exact (A3 x C Hx).
  - intros (A1 & A3). split; [exact A1|]. split.
    + destruct d as [|a [|b r]]; [constructor|constructor; [intros []|constructor]|simpl in Hd; lia].
    + intros x Hx C. exact (A3 x C Hx).
Qed.

Lemma cf_snoc pre e : conflict_free (pre ++ [e]) <-> conflict_free pre /\ fresh pre e.
Proof.
  assert (L1 : (List.length (shared_decl e) <= 1)%nat) by (destruct e; simpl; lia).
  assert (L2 : (List.length (msgid_decl e) <= 1)%nat) by (destruct e; simpl; lia).
  assert (L3 : (List.length (d_hosts e) <= 1)%nat) by (destruct e; simpl; lia).
  assert (L4 : (List.length (d_mods e) <= 1)%nat) by (destruct e; simpl; lia).
  assert (L3a : (List.length (map fst (d_hosts e)) <= 1)%nat) by (rewrite map_length; exact L3).
  assert (L3b : (List.length (map snd (d_hosts e)) <= 1)%nat) by (rewrite map_length; exact L3).
  assert (L4a : (List.length (map fst (d_mods e)) <= 1)%nat) by (rewrite map_length; exact L4).
  assert (L4b : (List.length (map snd (d_mods e)) <= 1)%nat) by (rewrite map_length; exact L4).
  split.
  - intros [C1 C2 C3 C4 C5 C6]. unfold shared, msg_ids, host_names, host_vals, mod_names, mod_vals in *.
    rewrite flat_map_app in *. simpl in *. rewrite app_nil_r in *. rewrite map_app in *.
    apply NoDup_snoc_small in C1, C2, C3, C4, C5, C6; try assumption.
    destruct C1, C2, C3 as [? C3], C4 as [? C4], C5 as [? C5], C6 as [? C6].
    split; [constructor; assumption|]. split; [assumption|]. split; [assumption|]. split.
    + intros p Hp. split; [apply C3, in_map, Hp|apply C4, in_map, Hp].
    + intros p Hp. split; [apply C5, in_map, Hp|apply C6, in_map, Hp].
  - intros [[C1 C2 C3 C4 C5 C6] (F1 & F2 & F3 & F4)].
    constructor; unfold shared, msg_ids, host_names, host_vals, mod_names, mod_vals in *;
      rewrite flat_map_app; simpl; rewrite app_nil_r, ?map_app; apply NoDup_snoc_small; try assumption;
      (split; [assumption|]); try assumption.
    + intros x Hx. apply in_map_iff in Hx. destruct Hx as (p & <- & Hp). apply (F3 p Hp).
    + intros x Hx. apply in_map_iff in Hx. destruct Hx as (p & <- & Hp). apply (F3 p Hp).
    + intros x Hx. apply in_map_iff in Hx. destruct Hx as (p & <- & Hp). apply (F4 p Hp).
    + intros x Hx. apply in_map_iff in Hx. destruct Hx as (p & <- & Hp). apply (F4 p Hp).
Qed.

Lemma host_names_rep s pre : Rep s pre -> map fst (hosts s) = host_names pre.
Proof. intros R. rewrite (r_hosts _ _ R). reflexivity. Qed.
Lemma host_vals_rep s pre : Rep s pre -> map snd (hosts s) = host_vals pre.
Proof. intros R. rewrite (r_hosts _ _ R). reflexivity. Qed.
Lemma mod_names_rep s pre : Rep s pre -> map fst (mods s) = mod_names pre.
Proof. intros R. rewrite (r_mods _ _ R). reflexivity. Qed.
Lemma mod_vals_rep s pre : Rep s pre -> map snd (mods s) = mod_vals pre.
Proof. intros R. rewrite (r_mods _ _ R). reflexivity. Qed.

Lemma key_name_ok : name_ok_msg reserved_key = true.
Proof. Local Transparent name_ok_msg reserved_key. reflexivity. Qed.
Local Opaque name_ok_msg reserved_key.

(* turn the boolean tests left in the context by split_ifs into facts about the past *)
Ltac norm_tests R :=
  repeat match goal with
  | H : negb _ = false |- _ => apply negb_false_iff in H
  | H : negb _ = true |- _ => apply negb_true_iff in H
  | H : mems reserved_key (shared_names _) = _ |- _ =>
      first [rewrite mems_false in H | rewrite mems_In in H]; rewrite (shared_names_rep _ _ _ R key_name_ok) in H
  | H : mems _ (shared_names _) = _, N : name_ok_msg _ = true |- _ =>
      first [rewrite mems_false in H | rewrite mems_In in H]; rewrite (shared_names_rep _ _ _ R N) in H
  | H : mems _ (shared_names _) = _, N : name_ok _ = true |- _ =>
      first [rewrite mems_false in H | rewrite mems_In in H]; rewrite (shared_names_rep _ _ _ R (name_ok_msg_of _ N)) in H
  | H : mems _ (map fst (hosts _)) = _ |- _ =>
      first [rewrite mems_false in H | rewrite mems_In in H]; rewrite (host_names_rep _ _ R) in H
  | H : mems _ (map fst (mods _)) = _ |- _ =>
      first [rewrite mems_false in H | rewrite mems_In in H]; rewrite (mod_names_rep _ _ R) in H
  | H : memz _ (map snd (hosts _)) = _ |- _ =>
      first [rewrite memz_false in H | rewrite memz_In in H]; rewrite (host_vals_rep _ _ R) in H
  | H : memz _ (map snd (mods _)) = _ |- _ =>
      first [rewrite memz_false in H | rewrite memz_In in H]; rewrite (mod_vals_rep _ _ R) in H
  | H : memz _ (map snd (msgs _)) = _ |- _ =>
      first [rewrite memz_false in H | rewrite memz_In in H]; rewrite (msgs_ids_rep _ _ R) in H
  end.

Lemma step_ok_inv icd s pre e s' : Rep s pre -> step icd s e = ROk s' ->
  fresh pre e /\ in_range icd e = true.
Proof.
  intros R H. destruct e; simpl in H; unfold chk_shared, reg_msg in H; split_ifs H; norm_tests R;
    (split; [unfold fresh; simpl; (split; [|split; [|split]]);
               first [intros ? [<-|[]]; simpl; first [assumption | split; assumption] | intros ? []]
            |simpl; try reflexivity; try (apply negb_true_iff; assumption)]).
Qed.

Lemma run_ok_inv icd evs : forall s pre s', Rep s pre -> conflict_free pre -> run icd s evs = ROk s' ->
  conflict_free (pre ++ evs) /\ Forall (fun e => in_range icd e = true) evs.
Proof.
  induction evs as [|e r IH]; intros s pre s' R C H; simpl in H.
  - rewrite app_nil_r. split; [exact C|constructor].
  - destruct (step icd s e) as [s1|k] eqn:E; [|discriminate].
    destruct (step_ok_inv _ _ _ _ _ R E) as [F G].
    replace (pre ++ e :: r) with ((pre ++ [e]) ++ r) by (rewrite <- app_assoc; reflexivity).
    destruct (IH s1 (pre ++ [e]) s') as [A B]; [eapply step_rep; eassumption|apply cf_snoc; split; assumption|exact H|].
    split; [exact A|constructor; assumption].
Qed.

(* ---- soundness of one event: nothing declared twice, ranges and shape fine => accepted ---- *)

Lemma resolve_alias_native s ty : mems ty native_keys = true -> resolve_alias 11 s ty ty 0 = ROk ty.
Proof.
  Local Transparent resolve_alias. intros H. cbn [resolve_alias].
  change (10 <=? 0)%nat with false. cbv iota. rewrite H. reflexivity.
Qed.
Local Opaque resolve_alias.

Lemma wf_no_key pre : Forall (fun e => ev_wf e = true) pre -> ~ In reserved_key (shared pre).
Proof.
  intros F C. unfold shared in C. apply in_flat_map in C. destruct C as (e & He & Hn).
  rewrite Forall_forall in F. specialize (F e He).
  assert (L : starts_with_letter reserved_key = true).
  { destruct e; simpl in F, Hn; try contradiction; destruct Hn as [<-|[]];
      first [exact F | apply andb_true_iff in F; exact (proj1 F)]. }
  exact (starts_letter_not_key _ L eq_refl).
Qed.

Lemma step_sound icd s pre e : Rep s pre -> ~ In reserved_key (shared pre) ->
  fresh pre e -> in_range icd e = true -> ev_wf e = true ->
  exists s', step icd s e = ROk s' /\ aliases s' = aliases s ++ d_aliases e.
Proof.
  intros R NK (F1 & F2 & F3 & F4) G W.
  destruct e; simpl in *; unfold chk_shared, reg_msg;
    try (rewrite andb_true_iff in W; destruct W as [W W2]);
    try (pose proof (starts_letter_name_ok _ W) as N; pose proof (starts_letter_not_key _ W) as K).
  - rewrite W. eexists; split; [reflexivity|simpl; rewrite app_nil_r; reflexivity].
  - discriminate.
  - rewrite N. simpl. pose proof (F1 n (or_introl eq_refl)) as A.
    rewrite <- (shared_names_rep _ _ _ R (name_ok_msg_of _ N)), <- mems_false in A. rewrite A.
    eexists; split; [reflexivity|simpl; rewrite app_nil_r; reflexivity].
  - rewrite N. simpl. pose proof (F1 n (or_introl eq_refl)) as A.
    rewrite <- (shared_names_rep _ _ _ R (name_ok_msg_of _ N)), <- mems_false in A. rewrite A.
    eexists; split; [reflexivity|simpl; rewrite app_nil_r; reflexivity].
  - rewrite N. simpl. pose proof (F1 n (or_introl eq_refl)) as A.
    rewrite <- (shared_names_rep _ _ _ R (name_ok_msg_of _ N)), <- mems_false in A. rewrite A.
    rewrite (resolve_alias_native _ _ W2). eexists; split; reflexivity.
  - rewrite N. simpl. destruct (F3 (n, v) (or_introl eq_refl)) as [A B]. simpl in A, B.
    rewrite <- (host_names_rep _ _ R), <- mems_false in A. rewrite <- (host_vals_rep _ _ R), <- memz_false in B.
    rewrite A. apply negb_true_iff in G. rewrite G, B.
    eexists; split; [reflexivity|simpl; rewrite app_nil_r; reflexivity].
  - rewrite N. simpl. destruct (F4 (n, v) (or_introl eq_refl)) as [A B]. simpl in A, B.
    rewrite <- (mod_names_rep _ _ R), <- mems_false in A. rewrite <- (mod_vals_rep _ _ R), <- memz_false in B.
    rewrite A. apply negb_true_iff in G. rewrite G, B.
    eexists; split; [reflexivity|simpl; rewrite app_nil_r; reflexivity].
  - rewrite N. simpl. pose proof (F1 n (or_introl eq_refl)) as A.
    rewrite <- (shared_names_rep _ _ _ R (name_ok_msg_of _ N)), <- mems_false in A. rewrite A.
    eexists; split; [reflexivity|simpl; rewrite app_nil_r; reflexivity].
  - rewrite (name_ok_msg_of _ N). simpl. pose proof (F1 n (or_introl eq_refl)) as A.
    rewrite <- (shared_names_rep _ _ _ R (name_ok_msg_of _ N)), <- mems_false in A. rewrite A.
    apply String.eqb_neq in K. rewrite K. apply negb_true_iff in G. rewrite G.
    pose proof (F2 id (or_introl eq_refl)) as B. rewrite <- (msgs_ids_rep _ _ R), <- memz_false in B. rewrite B.
    eexists; split; [reflexivity|simpl; rewrite app_nil_r; reflexivity].
  - (* EResHead: no shared-namespace item of the past is called _RESERVED_ *) 
    destruct (mems reserved_key (shared_names s)) eqn:A.
    + exfalso. rewrite mems_In, (shared_names_rep _ _ _ R key_name_ok) in A. exact (NK A).
    + rewrite W. eexists; split; [reflexivity|simpl; rewrite app_nil_r; reflexivity].
  - apply negb_true_iff in G. rewrite G.
    pose proof (F2 id (or_introl eq_refl)) as B. rewrite <- (msgs_ids_rep _ _ R), <- memz_false in B. rewrite B.
    eexists; split; [reflexivity|simpl; rewrite app_nil_r; reflexivity].
Qed.

Lemma NoDup_app_l {A} (a b : list A) : NoDup (a ++ b) -> NoDup a.
Proof. intros H. apply NoDup_app_iff in H. exact (proj1 H). Qed.

Lemma run_sound icd evs : forall s pre, Rep s pre -> Forall (fun e => ev_wf e = true) pre ->
  conflict_free (pre ++ evs) -> Forall (fun e => in_range icd e = true) evs -> Forall (fun e => ev_wf e = true) evs ->
  exists s', run icd s evs = ROk s' /\ aliases s' = aliases s ++ flat_map d_aliases evs.
Proof.
  induction evs as [|e r IH]; intros s pre R Wp C G W; simpl.
  - exists s. split; [reflexivity|rewrite app_nil_r; reflexivity].
  - inversion G; subst. inversion W; subst.
    replace (pre ++ e :: r) with ((pre ++ [e]) ++ r) in C by (rewrite <- app_assoc; reflexivity).
    assert (C1 : conflict_free (pre ++ [e])).
    { destruct C as [C1 C2 C3 C4 C5 C6]. unfold shared, msg_ids, host_names, host_vals, mod_names, mod_vals in *.
      rewrite flat_map_app in C1, C2, C3, C4, C5, C6. rewrite map_app in C3, C4, C5, C6.
      constructor; unfold shared, msg_ids, host_names, host_vals, mod_names, mod_vals;
        eapply NoDup_app_l; eassumption. }
    apply cf_snoc in C1. destruct C1 as [_ F].
    destruct (step_sound icd s pre e R (wf_no_key _ Wp) F H1 H3) as (s1 & E & A1). rewrite E.
    destruct (IH s1 (pre ++ [e])) as (s' & E' & A2); try assumption.
    + eapply step_rep; eassumption.
    + apply Forall_app. split; [exact Wp|constructor; [exact H3|constructor]].
    + exists s'. split; [exact E'|]. rewrite A2, A1, <- app_assoc. reflexivity.
Qed.

(* ---- which error: the conflict an event has with the past ------------------------------ *)

Definition checked_name (e : ev) : option string :=
  match e with
  | EConst n _ | EStr n | EAlias n _ | EStruct n | EMsg n _ | EHost _ n _ | EMod _ n _ => Some n
  | _ => None
  end.
Definition is_shared_ev (e : ev) : bool :=
  match e with EConst _ _ | EStr _ | EAlias _ _ | EStruct _ | EMsg _ _ => true | _ => false end.

(* the name check an event is subject to: only handle_message_def lets the directive through *)
Definition ev_name_ok (e : ev) (n : string) : bool :=
  match e with EMsg _ _ => name_ok_msg n | _ => name_ok n end.

Inductive conflict (icd : bool) (pre : list ev) : ev -> kind -> Prop :=
| cx_yaml i : conflict icd pre (EFile i false) KYaml
| cx_nofile i : conflict icd pre (ENoFile i) KNoFile
| cx_badname e n : checked_name e = Some n -> ev_name_ok e n = false -> conflict icd pre e KName
| cx_dupname e n : is_shared_ev e = true -> checked_name e = Some n -> ev_name_ok e n = true ->
    In n (shared pre) -> conflict icd pre e KDupName
| cx_block_vs_item es : In reserved_key (shared pre) -> conflict icd pre (EResHead es) KDupName
| cx_res_range es : ~ In reserved_key (shared pre) -> forallb entry_ok es = false ->
    conflict icd pre (EResHead es) KResRange
| cx_res_shape id : ~ In reserved_key (shared pre) -> conflict icd pre (EMsg reserved_key id) KResShape
| cx_host_name c n v : name_ok n = true -> In n (host_names pre) -> conflict icd pre (EHost c n v) KDupName
| cx_host_range c n v : name_ok n = true -> ~ In n (host_names pre) -> in_range icd (EHost c n v) = false ->
    conflict icd pre (EHost c n v) KHostRange
| cx_host_dup c n v : name_ok n = true -> ~ In n (host_names pre) -> in_range icd (EHost c n v) = true ->
    In v (host_vals pre) -> conflict icd pre (EHost c n v) KHostDup
| cx_mod_name c n v : name_ok n = true -> In n (mod_names pre) -> conflict icd pre (EMod c n v) KDupName
| cx_mod_range c n v : name_ok n = true -> ~ In n (mod_names pre) -> in_range icd (EMod c n v) = false ->
    conflict icd pre (EMod c n v) KModRange
| cx_mod_dup c n v : name_ok n = true -> ~ In n (mod_names pre) -> in_range icd (EMod c n v) = true ->
    In v (mod_vals pre) -> conflict icd pre (EMod c n v) KModDup
| cx_msg_range n id : name_ok_msg n = true -> n <> reserved_key -> ~ In n (shared pre) ->
    msg_id_out_of_range id = true -> conflict icd pre (EMsg n id) KMsgRange
| cx_msg_dup n id : name_ok_msg n = true -> n <> reserved_key -> ~ In n (shared pre) ->
    msg_id_out_of_range id = false -> In id (msg_ids pre) -> conflict icd pre (EMsg n id) KMsgDup
| cx_sig_range id : msg_id_out_of_range id = true -> conflict icd pre (ESigR id) KMsgRange
| cx_sig_dup id : msg_id_out_of_range id = false -> In id (msg_ids pre) -> conflict icd pre (ESigR id) KMsgDup.

Lemma step_conflict icd s pre e k : Rep s pre -> conflict icd pre e k -> step icd s e = RErr k.
Proof.
  intros R C. inversion C; subst; clear C; simpl; unfold chk_shared, reg_msg.
  - reflexivity.
  - reflexivity.
  - destruct e; simpl in H, H0; inversion H; subst; simpl; unfold chk_shared; rewrite H0; reflexivity.
  - destruct e; simpl in H, H0, H1; try discriminate; inversion H0; subst;
      (assert (M : name_ok_msg n = true) by first [exact H1 | exact (name_ok_msg_of _ H1)]);
      rewrite <- (shared_names_rep _ _ _ R M), <- mems_In in H2; simpl; unfold chk_shared;
      rewrite H1, H2; reflexivity.
  - rewrite <- (shared_names_rep _ _ _ R key_name_ok), <- mems_In in H. rewrite H. reflexivity.
  - rewrite <- (shared_names_rep _ _ _ R key_name_ok), <- mems_false in H. rewrite H, H0. reflexivity.
  - rewrite <- (shared_names_rep _ _ _ R key_name_ok), <- mems_false in H. rewrite key_name_ok, H. simpl.
    rewrite String.eqb_refl. reflexivity.
  - rewrite <- (host_names_rep _ _ R), <- mems_In in H0. rewrite H, H0. reflexivity.
  - rewrite <- (host_names_rep _ _ R), <- mems_false in H0. simpl in H1. apply negb_false_iff in H1.
    rewrite H, H0, H1. reflexivity.
  - rewrite <- (host_names_rep _ _ R), <- mems_false in H0. simpl in H1. apply negb_true_iff in H1.
    rewrite <- (host_vals_rep _ _ R), <- memz_In in H2. rewrite H, H0, H1, H2. reflexivity.
  - rewrite <- (mod_names_rep _ _ R), <- mems_In in H0. rewrite H, H0. reflexivity.
  - rewrite <- (mod_names_rep _ _ R), <- mems_false in H0. simpl in H1. apply negb_false_iff in H1.
    rewrite H, H0, H1. reflexivity.
  - rewrite <- (mod_names_rep _ _ R), <- mems_false in H0. simpl in H1. apply negb_true_iff in H1.
    rewrite <- (mod_vals_rep _ _ R), <- memz_In in H2. rewrite H, H0, H1, H2. reflexivity.
  - rewrite <- (shared_names_rep _ _ _ R H), <- mems_false in H1. apply String.eqb_neq in H0.
    rewrite H, H1, H0, H2. reflexivity.
  - rewrite <- (shared_names_rep _ _ _ R H), <- mems_false in H1. apply String.eqb_neq in H0.
    rewrite <- (msgs_ids_rep _ _ R), <- memz_In in H3. rewrite H, H1, H0, H2, H3. reflexivity.
  - rewrite H. reflexivity.
  - rewrite <- (msgs_ids_rep _ _ R), <- memz_In in H0. rewrite H, H0. reflexivity.
Qed.

Lemma resolve_alias_err fuel : forall s a b n k, resolve_alias fuel s a b n = RErr k ->
  k = KAlias \/ k = KAliasRec \/ k = KFuel.
Proof.
  Local Transparent resolve_alias.
  induction fuel as [|f IH]; intros s a b n k H; cbn [resolve_alias] in H.
  - inversion H; auto.
  - destruct (10 <=? n)%nat; [inversion H; auto|].
    destruct (mems a native_keys); [discriminate|]. destruct (mems a (structs s)); [discriminate|].
    destruct (alias_pass (aliases s) a n) as [ft n']. destruct (String.eqb ft b); [inversion H; auto|].
    eapply IH; eassumption.
Qed.
Local Opaque resolve_alias.

(* conversely every error of one event is such a conflict, or an alias that does not resolve *)
Lemma step_err_inv icd s pre e k : Rep s pre -> step icd s e = RErr k ->
  conflict icd pre e k \/ k = KAlias \/ k = KAliasRec \/ k = KFuel.
Proof.
  intros R H. destruct e; simpl in H; unfold chk_shared, reg_msg in H.
  - destruct yaml_ok; inversion H. left; constructor.
  - inversion H. left; constructor.
  - split_ifs H; inversion H; subst; norm_tests R; left;
      [eapply cx_badname; [reflexivity|assumption]|eapply cx_dupname; [reflexivity|reflexivity|assumption|assumption]].
  - split_ifs H; inversion H; subst; norm_tests R; left;
      [eapply cx_badname; [reflexivity|assumption]|eapply cx_dupname; [reflexivity|reflexivity|assumption|assumption]].
  - destruct (negb (name_ok n)) eqn:N; simpl in H.
    { inversion H; subst. norm_tests R. left. eapply cx_badname; [reflexivity|assumption]. }
    destruct (mems n (shared_names s)) eqn:M; simpl in H.
    { inversion H; subst. norm_tests R. left. eapply cx_dupname; [reflexivity|reflexivity|assumption|assumption]. }
    destruct (resolve_alias 11 s ty ty 0) eqn:A; [discriminate|]. inversion H; subst.
    right. eapply resolve_alias_err; eassumption.
  - split_ifs H; inversion H; subst; norm_tests R; left.
    + eapply cx_badname; [reflexivity|assumption].
    + apply cx_host_name; assumption.
    + apply cx_host_range; try assumption. simpl. apply negb_false_iff. assumption.
    + apply cx_host_dup; try assumption. simpl. apply negb_true_iff. assumption.
  - split_ifs H; inversion H; subst; norm_tests R; left.
    + eapply cx_badname; [reflexivity|assumption].
    + apply cx_mod_name; assumption.
    + apply cx_mod_range; try assumption. simpl. apply negb_false_iff. assumption.
    + apply cx_mod_dup; try assumption. simpl. apply negb_true_iff. assumption.
  - split_ifs H; inversion H; subst; norm_tests R; left;
      [eapply cx_badname; [reflexivity|assumption]|eapply cx_dupname; [reflexivity|reflexivity|assumption|assumption]].
  - split_ifs H; inversion H; subst; norm_tests R; left.
    + eapply cx_badname; [reflexivity|assumption].
    + eapply cx_dupname; [reflexivity|reflexivity|assumption|assumption].
    + apply String.eqb_eq in Heqb1. subst n. apply cx_res_shape. assumption.
    + apply String.eqb_neq in Heqb1. apply cx_msg_range; assumption.
    + apply String.eqb_neq in Heqb1. apply cx_msg_dup; assumption.
  - split_ifs H; inversion H; subst; norm_tests R; left.
    + apply cx_block_vs_item. assumption.
    + apply cx_res_range; assumption.
  - split_ifs H; inversion H; subst; norm_tests R; left.
    + apply cx_sig_range. assumption.
    + apply cx_sig_dup; assumption.
Qed.

Lemma run_err_split icd evs : forall s k, run icd s evs = RErr k ->
  exists pre e post s1, evs = pre ++ e :: post /\ run icd s pre = ROk s1 /\ step icd s1 e = RErr k.
Proof.
  induction evs as [|e r IH]; intros s k H; simpl in H; [discriminate|].
  destruct (step icd s e) as [s1|k1] eqn:E.
  - destruct (IH s1 k H) as (pre & e' & post & s2 & A & B & C).
    exists (e :: pre), e', post, s2. split; [rewrite A; reflexivity|]. split; [simpl; rewrite E; exact B|exact C].
  - inversion H; subst. exists [], e, r, s. split; [reflexivity|]. split; [reflexivity|exact E].
Qed.

(* ---- boolean versions, for closed examples ----------------------------------------------------- *)
Fixpoint nodupz (l : list Z) : bool :=
  match l with [] => true | x :: r => negb (memz x r) && nodupz r end.
Lemma nodupz_NoDup l : nodupz l = true -> NoDup l.
Proof.
  induction l as [|x r IH]; simpl; [constructor|]. rewrite andb_true_iff, negb_true_iff, memz_false.
  intros [A B]. constructor; [exact A|exact (IH B)].
Qed.
Definition cf_b (evs : list ev) : bool :=
  nodups (shared evs) && nodupz (msg_ids evs) && nodups (host_names evs) && nodupz (host_vals evs)
  && nodups (mod_names evs) && nodupz (mod_vals evs).
Lemma cf_b_sound evs : cf_b evs = true -> conflict_free evs.
Proof.
  unfold cf_b. rewrite !andb_true_iff. intros [[[[[A B] C] D] E] F].
  constructor; first [apply nodups_NoDup; assumption | apply nodupz_NoDup; assumption].
Qed.
Lemma forallb_Forall {A} (p : A -> bool) l : forallb p l = true -> Forall (fun x => p x = true) l.
Proof. intros H. apply Forall_forall. exact (proj1 (forallb_forall p l) H). Qed.

(* ---- names accepted by check_name start with a letter: nothing registered is called _RESERVED_ ---- *)
Lemma step_ok_letter icd s e s' : step icd s e = ROk s' ->
  forall n, In n (shared_decl e) -> starts_with_letter n = true.
Proof.
  intros H. destruct e; simpl in H; unfold chk_shared, reg_msg in H; split_ifs H; simpl;
    first [ intros ? [<-|[]];
            repeat match goal with X : negb _ = false |- _ => apply negb_false_iff in X end;
            first [apply name_ok_letter; assumption | apply name_ok_msg_letter; assumption]
          | intros ? [] ].
Qed.
Lemma run_ok_letter icd evs : forall s s', run icd s evs = ROk s' ->
  forall n, In n (shared evs) -> starts_with_letter n = true.
Proof.
  induction evs as [|e r IH]; intros s s' H n I; simpl in *; [contradiction|].
  destruct (step icd s e) as [s1|] eqn:E; [|discriminate]. unfold shared in I. simpl in I.
  apply in_app_or in I. destruct I as [I|I]; [exact (step_ok_letter _ _ _ _ E n I)|exact (IH _ _ H n I)].
Qed.
Lemma run_ok_no_key icd evs s s' : run icd s evs = ROk s' -> ~ In reserved_key (shared evs).
Proof. intros H C. pose proof (run_ok_letter icd evs s s' H _ C) as L. exact (starts_letter_not_key _ L eq_refl). Qed.
