(* Closure-level statements: Parser.parse against the set of files reachable from the
   roots, enumerated in any order. *)
From Coq Require Import ZArith List Bool String Ascii Lia Permutation.
From Defs Require Import Gen.TypeTables Gen.Guards Model.Registry Proofs.RegistryProofs Proofs.RegistryGraph.
Import ListNotations.
Open Scope string_scope. Open Scope list_scope. Open Scope Z_scope.

(* ---- the spec predicates do not depend on the order of the events ------------------- *)

Lemma cf_perm a b : Permutation a b -> conflict_free a -> conflict_free b.
Proof.
  intros P [C1 C2 C3 C4 C5 C6].
  constructor; unfold shared, msg_ids, host_names, host_vals, mod_names, mod_vals in *.
  - eapply Permutation_NoDup; [apply Permutation_flat_map; exact P|exact C1].
  - eapply Permutation_NoDup; [apply Permutation_flat_map; exact P|exact C2].
  - eapply Permutation_NoDup; [apply Permutation_map, Permutation_flat_map; exact P|exact C3].
  - eapply Permutation_NoDup; [apply Permutation_map, Permutation_flat_map; exact P|exact C4].
  - eapply Permutation_NoDup; [apply Permutation_map, Permutation_flat_map; exact P|exact C5].
  - eapply Permutation_NoDup; [apply Permutation_map, Permutation_flat_map; exact P|exact C6].
Qed.

Lemma forall_perm {A} (P : A -> Prop) a b : Permutation a b -> Forall P a -> Forall P b.
Proof. intros H F. eapply Permutation_Forall; eassumption. Qed.

Lemma cf_nil : conflict_free [].
Proof. constructor; constructor. Qed.

(* a value declared by the past and again by the event breaks NoDup *)
Lemma dup_flat {A B} (g : A -> list B) pre e post x :
  In x (flat_map g pre) -> In x (g e) -> ~ NoDup (flat_map g (pre ++ e :: post)).
Proof.
  intros H1 H2 N. rewrite flat_map_app in N. simpl in N. apply NoDup_app_iff in N.
  destruct N as (_ & _ & D). apply (D x H1). apply in_or_app. left. exact H2.
Qed.

Definition conflict_kind (k : kind) : bool :=
  match k with
  | KDupName | KHostRange | KHostDup | KModRange | KModDup | KMsgRange | KMsgDup => true
  | _ => false
  end.

(* a conflict reported for an event is a genuine one *)
Lemma conflict_genuine icd pre e post k : conflict icd pre e k -> conflict_kind k = true ->
  ~ In reserved_key (shared pre) ->
  ~ (conflict_free (pre ++ e :: post) /\ Forall (fun x => in_range icd x = true) (pre ++ e :: post)).
Proof.
  intros C K NK [[C1 C2 C3 C4 C5 C6] F].
  assert (Fe : in_range icd e = true).
  { rewrite Forall_forall in F. apply F. apply in_or_app. right. left. reflexivity. }
  unfold host_names, host_vals, mod_names, mod_vals in *. rewrite map_flat_map in C3; rewrite map_flat_map in C4; rewrite map_flat_map in C5; rewrite map_flat_map in C6.
  inversion C; subst; simpl in K; try discriminate.
  - (* duplicate name in the shared namespace *)
    apply (dup_flat shared_decl pre e post n H2); [|exact C1].
    destruct e; simpl in H, H0; try discriminate; inversion H0; subst; left; reflexivity.
  - exact (NK H).
  - unfold host_names in H0. rewrite map_flat_map in H0.
    apply (dup_flat _ pre (EHost c n v) post n H0); [left; reflexivity|exact C3].
  - congruence.
  - unfold host_vals in H2. rewrite map_flat_map in H2.
    apply (dup_flat _ pre (EHost c n v) post v H2); [left; reflexivity|exact C4].
  - unfold mod_names in H0. rewrite map_flat_map in H0.
    apply (dup_flat _ pre (EMod c n v) post n H0); [left; reflexivity|exact C5].
  - congruence.
  - unfold mod_vals in H2. rewrite map_flat_map in H2.
    apply (dup_flat _ pre (EMod c n v) post v H2); [left; reflexivity|exact C6].
  - simpl in Fe. rewrite H2 in Fe. discriminate.
  - apply (dup_flat msgid_decl pre (EMsg n id) post id H3); [left; reflexivity|exact C2].
  - simpl in Fe. rewrite H in Fe. discriminate.
  - apply (dup_flat msgid_decl pre (ESigR id) post id H0); [left; reflexivity|exact C2].
Qed.

Section Top.
Variables (G : list file) (icd : bool) (roots : list nat).

Definition events_of (R : list nat) : list ev := flat_map (fe G) R.
Definition enumerates (R : list nat) : Prop := NoDup R /\ forall j, In j R <-> reach G roots j.

Lemma enum_files R : enumerates R -> Permutation (files_of (trace G roots)) R.
Proof.
  intros [N I]. destruct (trace_spec G roots) as (Nt & It & _).
  apply NoDup_Permutation; [exact Nt|exact N|]. intros j. rewrite It, I. tauto.
Qed.

Lemma enum_perm R : enumerates R -> Permutation (trace G roots) (events_of R).
Proof.
  intros E. destruct (trace_spec G roots) as (_ & _ & P).
  eapply Permutation_trans; [exact P|]. apply Permutation_flat_map, enum_files, E.
Qed.

Lemma trace_enumerates : enumerates (files_of (trace G roots)).
Proof. destruct (trace_spec G roots) as (N & I & _). split; assumption. Qed.

(* accepted => no conflict and every id in range, over the files reachable from the roots *)
Lemma parse_ok_clean s R : enumerates R -> parse G icd roots = ROk s ->
  conflict_free (events_of R) /\ Forall (fun e => in_range icd e = true) (events_of R).
Proof.
  intros E H. rewrite parse_is_run in H.
  destruct (run_ok_inv icd (trace G roots) st0 [] s Rep_st0 cf_nil H) as [C F]. simpl in C.
  split; [exact (cf_perm _ _ (enum_perm R E) C)|exact (forall_perm _ _ _ (enum_perm R E) F)].
Qed.

Lemma parse_ok_rep s : parse G icd roots = ROk s -> Rep s (trace G roots).
Proof. intros H. rewrite parse_is_run in H. exact (run_rep icd _ st0 [] s Rep_st0 H). Qed.

(* no conflict, ids in range, everything well formed => accepted, registries = declared items *)
Lemma parse_sound R : enumerates R -> conflict_free (events_of R) ->
  Forall (fun e => in_range icd e = true) (events_of R) -> Forall (fun e => ev_wf e = true) (events_of R) ->
  exists s, parse G icd roots = ROk s /\ Rep s (trace G roots) /\ aliases s = flat_map d_aliases (trace G roots).
Proof.
  intros E C F W. pose proof (Permutation_sym (enum_perm R E)) as P.
  destruct (run_sound icd (trace G roots) st0 [] Rep_st0 (Forall_nil _) (cf_perm _ _ P C)
              (forall_perm _ _ _ P F) (forall_perm _ _ _ P W)) as (s & Hs & A).
  exists s. rewrite parse_is_run. split; [exact Hs|]. split; [exact (run_rep icd _ st0 [] s Rep_st0 Hs)|exact A].
Qed.

(* the error reported is that of the first conflict in traversal order *)
Lemma parse_first_conflict pre e post s1 k : trace G roots = pre ++ e :: post ->
  run icd st0 pre = ROk s1 -> conflict icd pre e k -> parse G icd roots = RErr k.
Proof.
  intros T H C. rewrite parse_is_run, T, run_app, H. simpl.
  rewrite (step_conflict icd s1 pre e k (run_rep icd _ st0 [] s1 Rep_st0 H) C). reflexivity.
Qed.

(* every error is the conflict of a definite event with the events before it *)
Lemma parse_err_is_conflict k : parse G icd roots = RErr k ->
  exists pre e post s1, trace G roots = pre ++ e :: post /\ run icd st0 pre = ROk s1 /\
    (conflict icd pre e k \/ k = KAlias \/ k = KAliasRec \/ k = KFuel).
Proof.
  intros H. rewrite parse_is_run in H. destruct (run_err_split icd _ _ _ H) as (pre & e & post & s1 & T & A & B).
  exists pre, e, post, s1. split; [exact T|]. split; [exact A|].
  exact (step_err_inv icd s1 pre e k (run_rep icd _ st0 [] s1 Rep_st0 A) B).
Qed.

Lemma parse_no_false_conflict k R : enumerates R -> parse G icd roots = RErr k -> conflict_kind k = true ->
  ~ (conflict_free (events_of R) /\ Forall (fun e => in_range icd e = true) (events_of R)).
Proof.
  intros E H K [C F]. destruct (parse_err_is_conflict k H) as (pre & e & post & s1 & T & A & B).
  pose proof (Permutation_sym (enum_perm R E)) as P.
  destruct B as [B|[B|[B|B]]]; try (subst k; discriminate).
  apply (conflict_genuine icd pre e post k B K).
  - exact (run_ok_no_key icd pre st0 s1 A).
  - rewrite <- T. split; [exact (cf_perm _ _ P C)|exact (forall_perm _ _ _ P F)].
Qed.

End Top.

(* ---- the fuel of the two bounded loops is never exhausted ------------------------------ *)

Lemma alias_pass_mono al : forall ft n ft' n', alias_pass al ft n = (ft', n') -> (n <= n')%nat.
Proof.
  induction al as [|[an ty] r IH]; intros ft n ft' n' H; simpl in H; [inversion H; lia|].
  destruct (String.eqb ft an); apply IH in H; lia.
Qed.
Lemma alias_pass_hop al : forall ft n ft' n', alias_pass al ft n = (ft', n') -> ft' <> ft -> (n < n')%nat.
Proof.
  induction al as [|[an ty] r IH]; intros ft n ft' n' H D; simpl in H; [inversion H; congruence|].
  destruct (String.eqb ft an); [apply alias_pass_mono in H; lia|exact (IH _ _ _ _ H D)].
Qed.

Lemma resolve_alias_fuel fuel : forall s a n, (1 <= fuel)%nat -> (11 <= fuel + n)%nat ->
  resolve_alias fuel s a a n <> RErr KFuel.
Proof.
  induction fuel as [|f IH]; intros s a n F1 F2 H; [lia|]. cbn [resolve_alias] in H.
  destruct (10 <=? n)%nat eqn:L; [discriminate H|]. apply Nat.leb_gt in L.
  destruct (mems a native_keys); [discriminate H|]. destruct (mems a (structs s)); [discriminate H|].
  destruct (alias_pass (aliases s) a n) as [ft n'] eqn:P.
  destruct (String.eqb ft a) eqn:E; [discriminate H|]. apply String.eqb_neq in E.
  pose proof (alias_pass_hop _ _ _ _ _ P E). revert H. apply IH; lia.
Qed.

Local Opaque resolve_alias.
Lemma step_no_fuel icd s pre e : Rep s pre -> step icd s e <> RErr KFuel.
Proof.
  intros R H. destruct e; simpl in H; unfold chk_shared, reg_msg in H;
    repeat first
      [ discriminate H
      | match type of H with context [if ?c then _ else _] => destruct c eqn:?; simpl in H end ].
  destruct (resolve_alias 11 s ty ty 0) eqn:A; [discriminate H|]. inversion H; subst.
  revert A. apply resolve_alias_fuel; lia.
Qed.

Lemma parse_no_fuel G icd roots : parse G icd roots <> RErr KFuel.
Proof.
  intros H. rewrite parse_is_run in H. destruct (run_err_split icd _ _ _ H) as (pre & e & post & s1 & T & A & B).
  exact (step_no_fuel icd s1 pre e (run_rep icd _ st0 [] s1 Rep_st0 A) B).
Qed.

(* ---- generated placeholder names are distinct for distinct ids ----------------------------- *)
Require Import DecimalString DecimalZ DecimalN DecimalPos Decimal.

Lemma append_inj_l a b c : String.append a b = String.append a c -> b = c.
Proof. induction a; simpl; intros H; [exact H|inversion H; auto]. Qed.

Lemma uint_of_zeros k s d : NilEmpty.uint_of_string s = Some d ->
  exists d', NilEmpty.uint_of_string (String.append (zeros k) s) = Some d' /\ N.of_uint d' = N.of_uint d.
Proof.
  intros H. induction k as [|k (d' & A & B)]; simpl; [exists d; auto|].
  rewrite A. simpl. exists (D0 d'). split; [reflexivity|]. exact B.
Qed.

Lemma dec_nonneg z : 0 <= z -> exists d, NilEmpty.uint_of_string (dec z) = Some d /\ Z.of_N (N.of_uint d) = z.
Proof.
  intros H. unfold dec. destruct z as [|p|p]; [exists (D0 Nil); split; reflexivity| |lia].
  simpl. exists (Pos.to_uint p). split.
  - unfold NilZero.string_of_uint. destruct (Pos.to_uint p) eqn:E; try apply NilEmpty.usu.
    exfalso. exact (Unsigned.to_uint_nonnil p E).
  - pose proof (DecimalPos.Unsigned.of_to p) as Q. unfold N.of_uint. rewrite Q. reflexivity.
Qed.

Lemma reserved_name_inj a b : 0 <= a -> 0 <= b -> reserved_name a = reserved_name b -> a = b.
Proof.
  intros Ha Hb H. unfold reserved_name in H. apply append_inj_l in H. unfold pad6 in H.
  destruct (dec_nonneg a Ha) as (da & A1 & A2). destruct (dec_nonneg b Hb) as (db & B1 & B2).
  destruct (uint_of_zeros (6 - String.length (dec a)) _ _ A1) as (da' & A3 & A4).
  destruct (uint_of_zeros (6 - String.length (dec b)) _ _ B1) as (db' & B3 & B4).
  rewrite H in A3. rewrite A3 in B3. inversion B3; subst. congruence.
Qed.
