(* C16(b): re-reading the combined YAML (all sections merged in DFS order, then read section by
   section) gives the same parsed state, PROVIDED every cross-item use goes from a later section to an
   earlier-or-equal one.  Proof: by_section is a stable sort by section rank; a stable sort is a
   sequence of adjacent swaps (x, y) -> (y, x) with rank y < rank x; each such swap preserves the result
   of an accepted run when y does not read what x defines. *)
From Coq Require Import ZArith List Bool String Lia Arith PeanoNat Sorted.
From Defs Require Import Gen.TypeTables Model.Layout Model.Emit.
Import ListNotations.
Open Scope string_scope. Open Scope list_scope. Open Scope Z_scope.

(* ------------------------------------------------------------------ lookups under extension *)
Lemma find_def_app_some n l l' d : find_def n l = Some d -> find_def n (l ++ l') = Some d.
Proof. induction l as [|x r IH]; simpl; [discriminate|]. destruct (String.eqb (pd_name x) n); auto. Qed.

Lemma find_def_app_none n l l' : find_def n l = None -> find_def n (l ++ l') = find_def n l'.
Proof. induction l as [|x r IH]; simpl; auto. destruct (String.eqb (pd_name x) n); [discriminate|auto]. Qed.

Lemma find_def_notin n l : ~ In n (map pd_name l) -> find_def n l = None.
Proof.
  induction l as [|x r IH]; simpl; auto. intros H.
  destruct (String.eqb (pd_name x) n) eqn:E.
  - apply String.eqb_eq in E. exfalso. apply H. left. exact E.
  - apply IH. intro. apply H. right. assumption.
Qed.

Lemma find_def_in n l d : find_def n l = Some d -> In n (map pd_name l).
Proof.
  induction l as [|x r IH]; simpl; [discriminate|].
  destruct (String.eqb (pd_name x) n) eqn:E; [apply String.eqb_eq in E; auto|auto].
Qed.

Lemma find_def_app_fresh n l l' : ~ In n (map pd_name l') -> find_def n (l ++ l') = find_def n l.
Proof.
  intros H. destruct (find_def n l) as [d|] eqn:E.
  - apply find_def_app_some. exact E.
  - rewrite (find_def_app_none _ _ _ E). apply find_def_notin. exact H.
Qed.

Lemma find_alias_app_some n l l' a : find_alias n l = Some a -> find_alias n (l ++ l') = Some a.
Proof. induction l as [|x r IH]; simpl; [discriminate|]. destruct (String.eqb (pa_name x) n); auto. Qed.

Lemma find_alias_app_none n l l' : find_alias n l = None -> find_alias n (l ++ l') = find_alias n l'.
Proof. induction l as [|x r IH]; simpl; auto. destruct (String.eqb (pa_name x) n); [discriminate|auto]. Qed.

Lemma zlookup_app_some n l l' v : zlookup n l = Some v -> zlookup n (l ++ l') = Some v.
Proof. induction l as [|[k x] r IH]; simpl; [discriminate|]. destruct (String.eqb k n); auto. Qed.

Lemma ceval_mono cs cs' e v : ceval cs e = Some v -> ceval (cs ++ cs') e = Some v.
Proof.
  revert v. induction e as [n|c|a IHa b IHb|a IHa b IHb|a IHa b IHb]; simpl; intros v H; auto.
  - apply zlookup_app_some. exact H.
  - destruct (ceval cs a) as [x|]; [|discriminate]. destruct (ceval cs b) as [y|]; [|discriminate].
    rewrite (IHa _ eq_refl), (IHb _ eq_refl). exact H.
  - destruct (ceval cs a) as [x|]; [|discriminate]. destruct (ceval cs b) as [y|]; [|discriminate].
    rewrite (IHa _ eq_refl), (IHb _ eq_refl). exact H.
  - destruct (ceval cs a) as [x|]; [|discriminate]. destruct (ceval cs b) as [y|]; [|discriminate].
    rewrite (IHa _ eq_refl), (IHb _ eq_refl). exact H.
Qed.

(* ------------------------------------------------------------------ resolution under extension *)
Section Ext.
  Variables (cs cs' : list (string * Z)) (al al' : list palias) (ss ss' ms ms' : list pdef).
  Hypothesis Hc : forall e v, ceval cs e = Some v -> ceval cs' e = Some v.
  Hypothesis Ht : forall t r, resolve_ftype al ss ms t = POk r -> resolve_ftype al' ss' ms' t = POk r.
  Hypothesis Hr : forall n ps, resolve_body cs al ss ms (BReuse n) = POk ps -> resolve_body cs' al' ss' ms' (BReuse n) = POk ps.

  Lemma resolve_field_ext d p : resolve_field cs al ss ms d = POk p -> resolve_field cs' al' ss' ms' d = POk p.
  Proof.
    unfold resolve_field. destruct (existsb (String.eqb (fd_name d)) reserved_field_names); [discriminate|].
    destruct (resolve_ftype al ss ms (fd_type d)) as [[[k sz] a]|k|k] eqn:E; try discriminate.
    rewrite (Ht _ _ E). destruct (fd_len d) as [e|]; auto.
    destruct (ceval cs e) as [v|] eqn:Ev; [|discriminate]. rewrite (Hc _ _ Ev). auto.
  Qed.

  Lemma resolve_fields_ext l ps : resolve_fields cs al ss ms l = POk ps -> resolve_fields cs' al' ss' ms' l = POk ps.
  Proof.
    revert ps. induction l as [|d r IH]; simpl; intros ps H; auto.
    destruct (resolve_field cs al ss ms d) as [p|k|k] eqn:E; try discriminate.
    rewrite (resolve_field_ext _ _ E).
    destruct (resolve_fields cs al ss ms r) as [qs|k|k] eqn:E2; try discriminate.
    rewrite (IH _ eq_refl). exact H.
  Qed.

  Lemma resolve_body_ext b ps : resolve_body cs al ss ms b = POk ps -> resolve_body cs' al' ss' ms' b = POk ps.
  Proof. destruct b as [l|n]; [apply resolve_fields_ext|apply Hr]. Qed.
End Ext.

(* the messages of a later item are invisible to a body that does not name them *)
Lemma resolve_ftype_msgs_fresh al ss ms ds t :
  ~ In t (map pd_name ds) -> resolve_ftype al ss (ms ++ ds) t = resolve_ftype al ss ms t.
Proof. intros H. unfold resolve_ftype. rewrite (find_def_app_fresh _ _ _ H). reflexivity. Qed.

Lemma resolve_fields_msgs_fresh cs al ss ms ds l :
  Forall (fun t => ~ In t (map pd_name ds)) (map fd_type l) ->
  resolve_fields cs al ss (ms ++ ds) l = resolve_fields cs al ss ms l.
Proof.
  induction l as [|d r IH]; simpl; intros H; auto. inversion H as [|? ? H1 H2]; subst.
  unfold resolve_field. rewrite (resolve_ftype_msgs_fresh _ _ _ _ _ H1). rewrite (IH H2). reflexivity.
Qed.

(* ------------------------------------------------------------------ items, deltas *)
Definition body_type_names (b : body) : list string :=
  match b with BFields l => map fd_type l | BReuse n => [n] end.
(* names an item adds to struct_defs / message_defs *)
Definition item_defines (i : item) : list string :=
  match i with
  | IStruct n _ => [n] | IMsg n _ _ => [n] | IReserved ids => map reserved_name ids | _ => []
  end.
(* x currently precedes y; y may be moved in front of x only if y does not read what x defines *)
Definition compat (x y : item) : bool :=
  match x, y with
  | IStruct n _, IAlias _ t => negb (String.eqb t n)
  | IMsg _ _ _, IStruct _ b | IReserved _, IStruct _ b =>
      forallb (fun t => negb (existsb (String.eqb t) (item_defines x))) (body_type_names b)
  | _, _ => true
  end.
(* the stated condition: no alias names a struct of the closure, no struct body names a message of
   the closure -- i.e. every use goes from a later section to an earlier-or-equal one *)
Definition backward_uses (l : list item) : bool := forallb (fun x => forallb (compat x) l) l.

Definition drank (d : delta) : nat :=
  match d with DConst _ => 0 | DStr _ => 1 | DAlias _ => 2 | DHid _ => 3 | DMid _ => 4 | DStruct _ => 5 | DMsg _ _ => 6 end%nat.
Definition delta_names (d : delta) : list string :=
  match d with
  | DConst c => [fst c] | DStr s => [fst s] | DAlias a => [pa_name a] | DHid _ | DMid _ => []
  | DStruct d => [pd_name d] | DMsg _ ds => map pd_name ds
  end.

Lemma contrib_rank ap st i d : contrib ap st i = POk d -> drank d = rank i.
Proof.
  destruct i as [n e|n v|n t|n v|n v|n b|n id [b|]|ids]; simpl; intros H.
  - destruct (ceval (ps_consts st) e); inversion H; reflexivity.
  - inversion H; reflexivity.
  - destruct (resolve_alias (ps_aliases st) (ps_structs st) t) as [[[tg sz] a]|]; inversion H; reflexivity.
  - inversion H; reflexivity.
  - inversion H; reflexivity.
  - destruct (define ap st b) as [[[ps sz] a]|k|k]; inversion H; reflexivity.
  - destruct (define ap st b) as [[[ps sz] a]|k|k]; inversion H; reflexivity.
  - inversion H; reflexivity.
  - inversion H; reflexivity.
Qed.

(* the names a delta brings = the name the item submits to the duplicate check, or what it defines *)
Lemma contrib_names ap st i d : contrib ap st i = POk d ->
  delta_names d = match item_name i with Some n => [n] | None => item_defines i end.
Proof.
  destruct i as [n e|n v|n t|n v|n v|n b|n id [b|]|ids]; simpl; intros H.
  - destruct (ceval (ps_consts st) e); inversion H; reflexivity.
  - inversion H; reflexivity.
  - destruct (resolve_alias (ps_aliases st) (ps_structs st) t) as [[[tg sz] a]|]; inversion H; reflexivity.
  - inversion H; reflexivity.
  - inversion H; reflexivity.
  - destruct (define ap st b) as [[[ps sz] a]|k|k]; inversion H; reflexivity.
  - destruct (define ap st b) as [[[ps sz] a]|k|k]; inversion H; reflexivity.
  - inversion H; reflexivity.
  - inversion H; subst. simpl. rewrite map_map. reflexivity.
Qed.

Lemma apply_delta_comm st d1 d2 : drank d1 <> drank d2 ->
  apply_delta (apply_delta st d1) d2 = apply_delta (apply_delta st d2) d1.
Proof. destruct d1, d2; simpl; intros H; try reflexivity; exfalso; apply H; reflexivity. Qed.

Lemma existsb_app_s (f : string -> bool) a b : existsb f (a ++ b) = existsb f a || existsb f b.
Proof. apply existsb_app. Qed.

Lemma used_apply st d n : used (apply_delta st d) n = used st n || existsb (String.eqb n) (delta_names d).
Proof.
  unfold used, all_names, type_names.
  destruct d; simpl; repeat rewrite map_app; repeat rewrite existsb_app; simpl;
    repeat match goal with |- context [existsb ?f ?l] => destruct (existsb f l) end;
    repeat match goal with |- context [String.eqb ?a ?b] => destruct (String.eqb a b) end; reflexivity.
Qed.

Lemma step_inv ap st i s : step ap st i = POk s ->
  (match item_name i with Some n => used st n | None => false end) = false /\
  exists d, contrib ap st i = POk d /\ s = apply_delta st d.
Proof.
  unfold step. destruct (match item_name i with Some n => used st n | None => false end); [discriminate|].
  destruct (contrib ap st i) as [d|k|k]; try discriminate. intros H; inversion H; subst. split; auto. exists d; auto.
Qed.

Lemma step_intro ap st i d :
  (match item_name i with Some n => used st n | None => false end) = false ->
  contrib ap st i = POk d -> step ap st i = POk (apply_delta st d).
Proof. intros H1 H2. unfold step. rewrite H1, H2. reflexivity. Qed.

(* projections of a state after a delta of another rank *)
Lemma consts_apply st d : drank d <> 0%nat -> ps_consts (apply_delta st d) = ps_consts st.
Proof. destruct d; simpl; intros H; try reflexivity; exfalso; apply H; reflexivity. Qed.
Lemma aliases_apply st d : drank d <> 2%nat -> ps_aliases (apply_delta st d) = ps_aliases st.
Proof. destruct d; simpl; intros H; try reflexivity; exfalso; apply H; reflexivity. Qed.
Lemma structs_apply st d : drank d <> 5%nat -> ps_structs (apply_delta st d) = ps_structs st.
Proof. destruct d; simpl; intros H; try reflexivity; exfalso; apply H; reflexivity. Qed.
Lemma msgs_apply st d : drank d <> 6%nat -> ps_msgs (apply_delta st d) = ps_msgs st.
Proof. destruct d; simpl; intros H; try reflexivity; exfalso; apply H; reflexivity. Qed.

Lemma define_eq ap st st' b :
  resolve_body (ps_consts st') (ps_aliases st') (ps_structs st') (ps_msgs st') b
  = resolve_body (ps_consts st) (ps_aliases st) (ps_structs st) (ps_msgs st) b -> define ap st' b = define ap st b.
Proof. unfold define. intros H. rewrite H. reflexivity. Qed.

Lemma not_in_existsb t l : existsb (String.eqb t) l = false -> ~ In t l.
Proof.
  intros H Hin. assert (existsb (String.eqb t) l = true); [|congruence].
  apply existsb_exists. exists t. split; auto. apply String.eqb_refl.
Qed.

Lemma rank_le6 x : (rank x <= 6)%nat.
Proof. destruct x; simpl; lia. Qed.

(* (a) y does not see what x added *)
Lemma contrib_after_later ap st x y dx :
  (rank y < rank x)%nat -> compat x y = true -> contrib ap st x = POk dx ->
  contrib ap (apply_delta st dx) y = contrib ap st y.
Proof.
  intros Hr Hc Hx. pose proof (contrib_rank _ _ _ _ Hx) as Rx. pose proof (rank_le6 x) as R6.
  destruct y as [n e|n v|n t|n v|n v|n b|n id [b|]|ids]; simpl in Hr |- *; try reflexivity; try lia.
  - rewrite consts_apply by lia. reflexivity.
  - (* alias: reads aliases and structs *)
    rewrite aliases_apply by lia.
    destruct dx as [c|s|a|h|m|d|ids ds]; simpl in Rx |- *; try reflexivity; try lia.
    destruct x as [n0 e0|n0 v0|n0 t0|n0 v0|n0 v0|n0 b0|n0 id0 b0|ids0]; simpl in Rx; try lia.
    simpl in Hc. simpl in Hx. destruct (define ap st b0) as [[[ps sz] a]|k|k]; try discriminate. inversion Hx; subst.
    unfold resolve_alias. destruct (tlookup t parser_types) as [[sz0 kd]|]; [reflexivity|].
    rewrite find_def_app_fresh; [reflexivity|]. simpl. intros [E|[]].
    apply negb_true_iff in Hc. apply String.eqb_neq in Hc. congruence.
  - (* struct: reads consts, aliases, structs, msgs; x is a message or a reserved block *)
    destruct dx as [c|s|a|h|m|d|ids ds]; simpl in Rx; try lia.
    apply (f_equal (fun r : pres (list pfield * Z * Z) => match r with
                      | POk (ps', sz, a) => POk (DStruct (mkPD n None ps' sz a (Some b))) | PReject k => PReject k | PCrash k => PCrash k end)).
    apply define_eq. simpl.
    assert (Hn : map pd_name ds = item_defines x).
    { pose proof (contrib_names _ _ _ _ Hx) as E. simpl in E.
      destruct x as [n0 e0|n0 v0|n0 t0|n0 v0|n0 v0|n0 b0|n0 id0 b0|ids0]; simpl in Rx; try lia; simpl in E |- *; exact E. }
    assert (Hf : Forall (fun t => ~ In t (map pd_name ds)) (body_type_names b)).
    { rewrite Hn. apply Forall_forall. intros t Ht.
      assert (G : forallb (fun t => negb (existsb (String.eqb t) (item_defines x))) (body_type_names b) = true).
      { destruct x as [n0 e0|n0 v0|n0 t0|n0 v0|n0 v0|n0 b0|n0 id0 b0|ids0]; simpl in Rx; try lia; exact Hc. }
      pose proof (proj1 (forallb_forall _ _) G t Ht) as G2. apply negb_true_iff in G2. apply not_in_existsb. exact G2. }
    destruct b as [l|m]; simpl.
    + apply resolve_fields_msgs_fresh. exact Hf.
    + simpl in Hf. inversion Hf; subst. rewrite find_def_app_fresh by assumption. reflexivity.
Qed.

(* type names resolved through struct_defs / message_defs are names of the state *)
Lemma used_of_struct st t : In t (map pd_name (ps_structs st)) -> used st t = true.
Proof.
  intros H. unfold used, all_names, type_names. apply existsb_exists. exists t. split; [|apply String.eqb_refl].
  apply in_or_app; right. apply in_or_app; right. apply in_or_app; right. apply in_or_app; left. exact H.
Qed.
Lemma used_of_msg st t : In t (map pd_name (ps_msgs st)) -> used st t = true.
Proof.
  intros H. unfold used, all_names, type_names. apply existsb_exists. exists t. split; [|apply String.eqb_refl].
  apply in_or_app; right. apply in_or_app; right. apply in_or_app; right. apply in_or_app; right. exact H.
Qed.

(* (b) x, accepted, gives the same contribution when the earlier-section item y is already there *)
Lemma contrib_with_earlier ap st x y dx dy ny :
  (rank y < rank x)%nat -> contrib ap st x = POk dx -> contrib ap st y = POk dy ->
  item_name y = Some ny -> used st ny = false ->
  contrib ap (apply_delta st dy) x = POk dx.
Proof.
  intros Hr Hx Hy Hny Hu. pose proof (contrib_rank _ _ _ _ Hy) as Ry. pose proof (rank_le6 x) as R6.
  assert (Hdn : delta_names dy = [ny]) by (rewrite (contrib_names _ _ _ _ Hy), Hny; reflexivity).
  assert (Hbody : forall b ps,
             (rank y < 5)%nat \/ (rank y = 5%nat /\ ~ (exists n, x = IStruct n b)) ->
             resolve_body (ps_consts st) (ps_aliases st) (ps_structs st) (ps_msgs st) b = POk ps ->
             resolve_body (ps_consts (apply_delta st dy)) (ps_aliases (apply_delta st dy))
                          (ps_structs (apply_delta st dy)) (ps_msgs (apply_delta st dy)) b = POk ps).
  { intros b ps _ Hb. rewrite msgs_apply by lia. revert Hb. apply resolve_body_ext.
    - (* constants *)
      intros e v He. destruct dy; simpl; auto. apply ceval_mono. exact He.
    - (* field types *)
      intros t r Ht. destruct dy as [c|s|a|h|m|d|ids ds]; simpl in *; auto; try lia.
      + (* one more alias *)
        unfold resolve_ftype in *. destruct (tlookup t parser_types) as [[sz kd]|]; auto.
        destruct (find_alias t (ps_aliases st)) as [a0|] eqn:Ea.
        * rewrite (find_alias_app_some _ _ _ _ Ea). exact Ht.
        * rewrite (find_alias_app_none _ _ _ Ea). simpl.
          destruct (String.eqb (pa_name a) t) eqn:En; auto.
          exfalso. apply String.eqb_eq in En. inversion Hdn; subst ny. rewrite En in Hu.
          destruct (find_def t (ps_structs st)) as [sd|] eqn:Es.
          -- rewrite (used_of_struct _ _ (find_def_in _ _ _ Es)) in Hu. discriminate.
          -- destruct (find_def t (ps_msgs st)) as [md|] eqn:Em; [|discriminate].
             rewrite (used_of_msg _ _ (find_def_in _ _ _ Em)) in Hu. discriminate.
      + (* one more struct *)
        unfold resolve_ftype in *. destruct (tlookup t parser_types) as [[sz kd]|]; auto.
        destruct (find_alias t (ps_aliases st)) as [a0|]; auto.
        destruct (find_def t (ps_structs st)) as [sd|] eqn:Es.
        * rewrite (find_def_app_some _ _ _ _ Es). exact Ht.
        * rewrite (find_def_app_none _ _ _ Es). simpl.
          destruct (String.eqb (pd_name d) t) eqn:En; auto.
          exfalso. apply String.eqb_eq in En. inversion Hdn; subst ny. rewrite En in Hu.
          destruct (find_def t (ps_msgs st)) as [md|] eqn:Em; [|destruct (find_def t (ps_msgs st)); discriminate].
          rewrite (used_of_msg _ _ (find_def_in _ _ _ Em)) in Hu. discriminate.
    - (* reuse *)
      intros n ps' Hb. simpl in *. destruct (find_def n (ps_msgs st)) as [m|]; auto.
      destruct dy as [c|s|a|h|m|d|ids ds]; simpl in *; auto; try lia.
      destruct (find_def n (ps_structs st)) as [sd|] eqn:Es; [|discriminate].
      rewrite (find_def_app_some _ _ _ _ Es). exact Hb. }
  destruct x as [n e|n v|n t|n v|n v|n b|n id [b|]|ids]; simpl in Hr, Hx |- *; auto; try lia.
  - (* alias *)
    rewrite aliases_apply by lia. rewrite structs_apply by lia. exact Hx.
  - (* struct *)
    unfold define in *.
    destruct (resolve_body (ps_consts st) (ps_aliases st) (ps_structs st) (ps_msgs st) b) as [ps|k|k] eqn:Eb; try discriminate.
    assert (Hy5 : (rank y < 5)%nat \/ (rank y = 5%nat /\ ~ (exists n0, IStruct n b = IStruct n0 b))) by (left; lia).
    rewrite (Hbody b ps Hy5 Eb). exact Hx.
  - (* message *)
    unfold define in *.
    destruct (resolve_body (ps_consts st) (ps_aliases st) (ps_structs st) (ps_msgs st) b) as [ps|k|k] eqn:Eb; try discriminate.
    assert (Hy5 : (rank y < 5)%nat \/ (rank y = 5%nat /\ ~ (exists n0, IMsg n id (Some b) = IStruct n0 b))).
    { destruct (Nat.eq_dec (rank y) 5); [right; split; auto; intros [n0 E]; discriminate|left; lia]. }
    rewrite (Hbody b ps Hy5 Eb). exact Hx.
Qed.

(* items of rank < 6 with no name (host and module ids) *)
Lemma contrib_with_earlier_unnamed ap st x y dx dy :
  (rank y < rank x)%nat -> contrib ap st x = POk dx -> contrib ap st y = POk dy ->
  item_name y = None -> contrib ap (apply_delta st dy) x = POk dx.
Proof.
  intros Hr Hx Hy Hn. pose proof (rank_le6 x) as R6.
  destruct y as [n e|n v|n t|n v|n v|n b|n id b|ids]; simpl in Hn; try discriminate; simpl in Hy; inversion Hy; subst;
    try (simpl in Hr; lia);
    (destruct x as [n0 e0|n0 v0|n0 t0|n0 v0|n0 v0|n0 b0|n0 id0 [b0|]|ids0]; simpl in *; auto; try lia).
Qed.

(* ------------------------------------------------------------------ the adjacent swap *)
Lemma step_swap ap st x y s1 s2 :
  (rank y < rank x)%nat -> compat x y = true ->
  step ap st x = POk s1 -> step ap s1 y = POk s2 ->
  exists s1', step ap st y = POk s1' /\ step ap s1' x = POk s2.
Proof.
  intros Hr Hc H1 H2.
  destruct (step_inv _ _ _ _ H1) as (Ux & dx & Cx & E1). subst s1.
  destruct (step_inv _ _ _ _ H2) as (Uy & dy & Cy & E2). subst s2.
  rewrite (contrib_after_later _ _ _ _ _ Hr Hc Cx) in Cy.
  pose proof (contrib_rank _ _ _ _ Cx) as Rx. pose proof (contrib_rank _ _ _ _ Cy) as Ry.
  assert (Uy' : (match item_name y with Some n => used st n | None => false end) = false).
  { destruct (item_name y) as [ny|]; auto. rewrite used_apply in Uy. apply orb_false_iff in Uy. tauto. }
  exists (apply_delta st dy). split; [apply step_intro; assumption|].
  rewrite (apply_delta_comm st dx dy) by lia.
  apply step_intro.
  - destruct (item_name x) as [nx|] eqn:Enx; auto.
    rewrite used_apply. rewrite Ux. simpl.
    rewrite (contrib_names _ _ _ _ Cy).
    destruct (item_name y) as [ny|] eqn:Eny.
    + simpl. rewrite orb_false_r. rewrite used_apply in Uy. apply orb_false_iff in Uy. destruct Uy as [_ Uy].
      rewrite (contrib_names _ _ _ _ Cx), Enx in Uy. simpl in Uy. rewrite orb_false_r in Uy.
      rewrite String.eqb_sym. exact Uy.
    + destruct y as [n e|n v|n t|n v|n v|n b|n id b|ids]; simpl in Eny; try discriminate; try reflexivity.
      simpl in Hr. destruct x; simpl in Hr; lia.
  - destruct (item_name y) as [ny|] eqn:Eny.
    + eapply contrib_with_earlier; eauto.
    + eapply contrib_with_earlier_unnamed; eauto.
Qed.

(* ------------------------------------------------------------------ runs *)
Lemma run_app ap a b st : run ap (a ++ b) st = match run ap a st with POk s => run ap b s | PReject k => PReject k | PCrash k => PCrash k end.
Proof.
  revert st. induction a as [|i r IH]; simpl; intros st; auto.
  destruct (step ap st i); auto.
Qed.

Lemma run_swap_head ap st x y r s :
  (rank y < rank x)%nat -> compat x y = true ->
  run ap (x :: y :: r) st = POk s -> run ap (y :: x :: r) st = POk s.
Proof.
  intros Hr Hc. simpl.
  destruct (step ap st x) as [s1|k|k] eqn:E1; try discriminate.
  destruct (step ap s1 y) as [s2|k|k] eqn:E2; try discriminate.
  destruct (step_swap _ _ _ _ _ _ Hr Hc E1 E2) as (s1' & F1 & F2). rewrite F1, F2. auto.
Qed.

(* ------------------------------------------------------------------ stable sort by rank *)
Fixpoint insert (x : item) (l : list item) : list item :=
  match l with
  | [] => [x]
  | y :: r => if (rank y <? rank x)%nat then y :: insert x r else x :: y :: r
  end.
Definition isort (l : list item) : list item := fold_right insert [] l.

Lemma insert_app_lt x a b : Forall (fun y => (rank y < rank x)%nat) a -> insert x (a ++ b) = a ++ insert x b.
Proof.
  induction a as [|y r IH]; simpl; intros H; auto. inversion H; subst.
  apply Nat.ltb_lt in H2. rewrite H2. rewrite IH; auto.
Qed.
Lemma insert_ge x b : Forall (fun y => (rank x <= rank y)%nat) b -> insert x b = x :: b.
Proof.
  destruct b as [|y r]; simpl; intros H; auto. inversion H; subst.
  assert ((rank y <? rank x)%nat = false) by (apply Nat.ltb_ge; assumption). rewrite H0. reflexivity.
Qed.

Lemma sec_cons r x l : sec r (x :: l) = if Nat.eqb (rank x) r then x :: sec r l else sec r l.
Proof. reflexivity. Qed.
Lemma sec_rank r l : Forall (fun y => rank y = r) (sec r l).
Proof.
  unfold sec. apply Forall_forall. intros y Hy. apply filter_In in Hy. destruct Hy as [_ H]. apply Nat.eqb_eq in H. exact H.
Qed.

Definition bsec (rs : list nat) (l : list item) : list item := flat_map (fun r => sec r l) rs.

Lemma bsec_cons r rs l : bsec (r :: rs) l = sec r l ++ bsec rs l.
Proof. reflexivity. Qed.
Lemma bsec_nil l : bsec [] l = [].
Proof. reflexivity. Qed.

Lemma bsec_ranks rs l : Forall (fun y => In (rank y) rs) (bsec rs l).
Proof.
  induction rs as [|r rs IH]; [rewrite bsec_nil; constructor|]. rewrite bsec_cons. apply Forall_app. split.
  - eapply Forall_impl; [|apply sec_rank]. intros y Hy. left. auto.
  - eapply Forall_impl; [|exact IH]. intros y Hy. right. exact Hy.
Qed.

Lemma bsec_not_in rs x l : ~ In (rank x) rs -> bsec rs (x :: l) = bsec rs l.
Proof.
  induction rs as [|r rs IH]; intros H; [reflexivity|]. rewrite !bsec_cons.
  rewrite sec_cons. destruct (Nat.eqb (rank x) r) eqn:E.
  - apply Nat.eqb_eq in E. exfalso. apply H. left. auto.
  - rewrite IH; auto. intro. apply H. right. assumption.
Qed.

Lemma bsec_insert rs x l :
  Sorted.StronglySorted lt rs -> In (rank x) rs -> bsec rs (x :: l) = insert x (bsec rs l).
Proof.
  induction rs as [|r rs IH]; intros Hs Hin; [contradiction|].
  inversion Hs as [|? ? Hs' Hlt]; subst. rewrite !bsec_cons.
  rewrite sec_cons. destruct (Nat.eqb (rank x) r) eqn:E.
  - apply Nat.eqb_eq in E. subst r.
    assert (Hn : ~ In (rank x) rs).
    { intro Hi. pose proof (proj1 (Forall_forall _ _) Hlt _ Hi). lia. }
    rewrite bsec_not_in by assumption.
    symmetry. change ((x :: sec (rank x) l) ++ bsec rs l) with (x :: (sec (rank x) l ++ bsec rs l)).
    apply insert_ge. apply Forall_app. split.
    + eapply Forall_impl; [|apply sec_rank]. intros y Hy. simpl in Hy. lia.
    + eapply Forall_impl; [|apply bsec_ranks]. intros y Hy. simpl in Hy.
      pose proof (proj1 (Forall_forall _ _) Hlt _ Hy). lia.
  - apply Nat.eqb_neq in E. destruct Hin as [Hin|Hin]; [congruence|].
    rewrite IH by assumption. symmetry. apply insert_app_lt.
    eapply Forall_impl; [|apply sec_rank]. intros y Hy. simpl in Hy.
    pose proof (proj1 (Forall_forall _ _) Hlt _ Hin). lia.
Qed.

Lemma ranks_sorted : Sorted.StronglySorted lt ranks.
Proof. unfold ranks. repeat constructor; lia. Qed.
Lemma rank_in_ranks x : In (rank x) ranks.
Proof. destruct x; simpl; tauto. Qed.

Lemma by_section_isort l : by_section l = isort l.
Proof.
  change (by_section l) with (bsec ranks l).
  induction l as [|x r IH].
  - reflexivity.
  - rewrite (bsec_insert ranks x r ranks_sorted (rank_in_ranks x)). rewrite IH. reflexivity.
Qed.

(* ------------------------------------------------------------------ runs are preserved by the sort *)
Lemma insert_In x l y : In y (insert x l) <-> y = x \/ In y l.
Proof.
  induction l as [|z r IH]; simpl.
  - split; intros [H|H]; auto; contradiction.
  - destruct (rank z <? rank x)%nat; simpl.
    + rewrite IH. split; intros H; intuition auto.
    + split; intros H; intuition auto.
Qed.

Lemma run_insert ap x l st s :
  Forall (fun y => compat x y = true) l ->
  run ap (x :: l) st = POk s -> run ap (insert x l) st = POk s.
Proof.
  revert st. induction l as [|y r IH]; intros st Hc H; [exact H|].
  simpl insert. inversion Hc as [|? ? Hcy Hcr]; subst.
  destruct (rank y <? rank x)%nat eqn:E; [|exact H].
  apply Nat.ltb_lt in E. apply (run_swap_head _ _ _ _ _ _ E Hcy) in H.
  simpl in H |- *. destruct (step ap st y) as [s1|k|k]; try discriminate.
  apply IH; assumption.
Qed.

Lemma isort_In l y : In y (isort l) <-> In y l.
Proof.
  induction l as [|x r IH]; simpl; [tauto|]. rewrite insert_In, IH. split; intros [H|H]; auto.
Qed.

Lemma run_isort ap l st s :
  backward_uses l = true -> run ap l st = POk s -> run ap (isort l) st = POk s.
Proof.
  intros Hb. assert (Hall : forall x y, In x l -> In y l -> compat x y = true).
  { intros x y Hx Hy. unfold backward_uses in Hb.
    exact (proj1 (forallb_forall _ _) (proj1 (forallb_forall _ _) Hb x Hx) y Hy). }
  clear Hb. revert st s. induction l as [|x r IH]; intros st s H; [exact H|].
  simpl isort. apply run_insert.
  - apply Forall_forall. intros y Hy. apply (proj1 (isort_In _ _)) in Hy. apply Hall; simpl; auto.
  - simpl in H |- *. destruct (step ap st x) as [s1|k|k]; try discriminate.
    apply IH; auto. intros a b Ha Hb'. apply Hall; simpl; auto.
Qed.

(* ------------------------------------------------------------------ _RESERVED_ blocks *)
Definition count_reserved (l : list item) : nat := List.length (filter is_reserved l).

Lemma merge_reserved_none l o : count_reserved l = 0%nat -> merge_reserved l o false = l.
Proof.
  induction l as [|i r IH]; simpl; auto. unfold count_reserved in *. simpl.
  destruct (is_reserved i); simpl; [discriminate|]. intros H. rewrite IH; auto.
Qed.
Lemma merge_reserved_seen l o : count_reserved l = 0%nat -> merge_reserved l o true = l.
Proof.
  induction l as [|i r IH]; simpl; auto. unfold count_reserved in *. simpl.
  destruct (is_reserved i); simpl; [discriminate|]. intros H. rewrite IH; auto.
Qed.
Lemma last_reserved_acc l acc : count_reserved l = 0%nat -> fold_left (fun a i => if is_reserved i then Some i else a) l acc = acc.
Proof.
  revert acc. induction l as [|i r IH]; simpl; auto. unfold count_reserved in *. simpl.
  destruct (is_reserved i); simpl; [discriminate|]. intros acc H. apply IH. exact H.
Qed.

(* at most one _RESERVED_ block in the closure: the merge keeps every item *)
Lemma merge_reserved_one l : (count_reserved l <= 1)%nat -> merge_reserved l (last_reserved l) false = l.
Proof.
  unfold last_reserved. generalize (@None item) as acc.
  induction l as [|i r IH]; simpl; intros acc H; auto.
  unfold count_reserved in H. simpl in H. destruct (is_reserved i) eqn:E; simpl in H.
  - assert (Hr : count_reserved r = 0%nat) by (unfold count_reserved; lia).
    rewrite (last_reserved_acc _ _ Hr). rewrite merge_reserved_seen by assumption. reflexivity.
  - rewrite IH; auto.
Qed.

(* ------------------------------------------------------------------ the round trip *)
Theorem combined_roundtrip ap l st :
  backward_uses l = true -> (count_reserved l <= 1)%nat ->
  parse_items ap l = POk st -> reparse_combined ap l = POk st.
Proof.
  intros Hb Hr H. unfold reparse_combined, combined_items, parse_items in *.
  rewrite (merge_reserved_one _ Hr). rewrite by_section_isort. apply run_isort; assumption.
Qed.
