(* C16(b): re-reading the combined YAML (all sections merged in DFS order, then read section by
   section) gives the same parsed state, PROVIDED every cross-item use goes from a later section to an
   earlier-or-equal one.  Proof: by_section is a stable sort by section rank; a stable sort is a
   sequence of adjacent swaps (x, y) -> (y, x) with rank y < rank x; each such swap preserves the result
   of an accepted run when y does not read what x defines. *)
From Coq Require Import ZArith NArith List Bool String Ascii Lia Arith PeanoNat Sorted Permutation.
From Defs Require Import Gen.TypeTables Model.Layout Model.Emit.
Import ListNotations.
Open Scope string_scope. Open Scope list_scope. Open Scope Z_scope.

(* ------------------------------------------------------------------ lookups under extension *)
Lemma find_def_app_some n l l' d : find_def n l = Some d -> find_def n (l ++ l') = Some d.
Proof. induction l as [|x r IH]; simpl; [discriminate|]. destruct (String.eqb (pd_name x) n); auto. Qed.

Lemma find_def_app_none n l l' : find_def n l = None -> find_def n (l ++ l') = find_def n l'.
Proof. induction l as [|x r IH]; simpl; auto. destruct (String.eqb (pd_name x) n); [discriminate|auto]. Qed.

Lemma find_def_notin n l : ~ In n (map pd_name l) -> find_def n l = None.
Proof.
  induction l as [|x r IH]; simpl; auto. intros H.
  destruct (String.eqb (pd_name x) n) eqn:E.
  - apply String.eqb_eq in E. exfalso. apply H. left. exact E.
  - apply IH. intro. apply H. right. assumption.
Qed.

Lemma find_def_in n l d : find_def n l = Some d -> In n (map pd_name l).
Proof.
  induction l as [|x r IH]; simpl; [discriminate|].
  destruct (String.eqb (pd_name x) n) eqn:E; [apply String.eqb_eq in E; auto|auto].
Qed.

Lemma find_def_app_fresh n l l' : ~ In n (map pd_name l') -> find_def n (l ++ l') = find_def n l.
Proof.
  intros H. destruct (find_def n l) as [d|] eqn:E.
  - apply find_def_app_some. exact E.
  - rewrite (find_def_app_none _ _ _ E). apply find_def_notin. exact H.
Qed.

Lemma find_alias_app_some n l l' a : find_alias n l = Some a -> find_alias n (l ++ l') = Some a.
Proof. induction l as [|x r IH]; simpl; [discriminate|]. destruct (String.eqb (pa_name x) n); auto. Qed.

Lemma find_alias_app_none n l l' : find_alias n l = None -> find_alias n (l ++ l') = find_alias n l'.
Proof. induction l as [|x r IH]; simpl; auto. destruct (String.eqb (pa_name x) n); [discriminate|auto]. Qed.

Lemma clookup_app_some n l l' v : clookup n l = Some v -> clookup n (l ++ l') = Some v.
Proof. induction l as [|[k x] r IH]; simpl; [discriminate|]. destruct (String.eqb k n); auto. Qed.

Lemma ceval_mono cs cs' e v : ceval cs e = Some v -> ceval (cs ++ cs') e = Some v.
Proof.
  revert v. induction e as [n|c|a IHa b IHb|a IHa b IHb|a IHa b IHb|a IHa d]; simpl; intros v H; auto.
  - apply clookup_app_some. exact H.
  - destruct (ceval cs a) as [x|]; [|discriminate]. destruct (ceval cs b) as [y|]; [|discriminate].
    rewrite (IHa _ eq_refl), (IHb _ eq_refl). exact H.
  - destruct (ceval cs a) as [x|]; [|discriminate]. destruct (ceval cs b) as [y|]; [|discriminate].
    rewrite (IHa _ eq_refl), (IHb _ eq_refl). exact H.
  - destruct (ceval cs a) as [x|]; [|discriminate]. destruct (ceval cs b) as [y|]; [|discriminate].
    rewrite (IHa _ eq_refl), (IHb _ eq_refl). exact H.
  - destruct (ceval cs a) as [x|]; [|discriminate]. rewrite (IHa _ eq_refl). exact H.
Qed.

Lemma leval_mono cs cs' e v : leval cs e = Some v -> leval (cs ++ cs') e = Some v.
Proof.
  unfold leval. destruct (ceval cs e) as [x|] eqn:E; [|discriminate]. rewrite (ceval_mono _ cs' _ _ E). auto.
Qed.

(* ------------------------------------------------------------------ resolution under extension *)
Section Ext.
  Variables (cs cs' : list (string * cval)) (al al' : list palias) (ss ss' ms ms' : list pdef).
  Hypothesis Hc : forall e v, leval cs e = Some v -> leval cs' e = Some v.
  Hypothesis Ht : forall t r, resolve_ftype al ss ms t = POk r -> resolve_ftype al' ss' ms' t = POk r.
  Hypothesis Hr : forall n ps, resolve_body cs al ss ms (BReuse n) = POk ps -> resolve_body cs' al' ss' ms' (BReuse n) = POk ps.

  Lemma resolve_field_ext d p : resolve_field cs al ss ms d = POk p -> resolve_field cs' al' ss' ms' d = POk p.
  Proof.
    unfold resolve_field. destruct (existsb (String.eqb (fd_name d)) reserved_field_names); [discriminate|].
    destruct (resolve_ftype al ss ms (fd_type d)) as [[[k sz] a]|k|k] eqn:E; try discriminate.
    rewrite (Ht _ _ E). destruct (fd_len d) as [e|]; auto.
    destruct (leval cs e) as [v|] eqn:Ev; [|discriminate]. rewrite (Hc _ _ Ev). auto.
  Qed.

  Lemma resolve_fields_ext l ps : resolve_fields cs al ss ms l = POk ps -> resolve_fields cs' al' ss' ms' l = POk ps.
  Proof.
    revert ps. induction l as [|d r IH]; simpl; intros ps H; auto.
    destruct (resolve_field cs al ss ms d) as [p|k|k] eqn:E; try discriminate.
    rewrite (resolve_field_ext _ _ E).
    destruct (resolve_fields cs al ss ms r) as [qs|k|k] eqn:E2; try discriminate.
    rewrite (IH _ eq_refl). exact H.
  Qed.

  Lemma resolve_body_ext b ps : resolve_body cs al ss ms b = POk ps -> resolve_body cs' al' ss' ms' b = POk ps.
  Proof. destruct b as [l|n]; [apply resolve_fields_ext|apply Hr]. Qed.
End Ext.

(* the messages of a later item are invisible to a body that does not name them *)
Lemma resolve_ftype_msgs_fresh al ss ms ds t :
  ~ In t (map pd_name ds) -> resolve_ftype al ss (ms ++ ds) t = resolve_ftype al ss ms t.
Proof. intros H. unfold resolve_ftype. rewrite (find_def_app_fresh _ _ _ H). reflexivity. Qed.

Lemma resolve_fields_msgs_fresh cs al ss ms ds l :
  Forall (fun t => ~ In t (map pd_name ds)) (map fd_type l) ->
  resolve_fields cs al ss (ms ++ ds) l = resolve_fields cs al ss ms l.
Proof.
  induction l as [|d r IH]; simpl; intros H; auto. inversion H as [|? ? H1 H2]; subst.
  unfold resolve_field. rewrite (resolve_ftype_msgs_fresh _ _ _ _ _ H1). rewrite (IH H2). reflexivity.
Qed.

(* ------------------------------------------------------------------ items, deltas *)
Definition body_type_names (b : body) : list string :=
  match b with BFields l => map fd_type l | BReuse n => [n] end.
(* names an item adds to struct_defs / message_defs *)
Definition item_defines (i : item) : list string :=
  match i with
  | IStruct n _ => [n] | IMsg n _ _ => [n] | IReserved ids => map reserved_name ids | _ => []
  end.
(* x currently precedes y; y may be moved in front of x only if y does not read what x defines *)
Definition compat (x y : item) : bool :=
  match x, y with
  | IStruct n _, IAlias _ t => negb (String.eqb t n)
  | IMsg _ _ _, IStruct _ b | IReserved _, IStruct _ b =>
      forallb (fun t => negb (existsb (String.eqb t) (item_defines x))) (body_type_names b)
  | _, _ => true
  end.
(* the stated condition: no alias names a struct of the closure, no struct body names a message of
   the closure -- i.e. every use goes from a later section to an earlier-or-equal one *)
Definition backward_uses (l : list item) : bool := forallb (fun x => forallb (compat x) l) l.

Definition drank (d : delta) : nat :=
  match d with DConst _ => 0 | DStr _ => 1 | DAlias _ => 2 | DHid _ => 3 | DMid _ => 4 | DStruct _ => 5 | DMsg _ _ => 6 end%nat.
Definition delta_names (d : delta) : list string :=
  match d with
  | DConst c => [fst c] | DStr s => [fst s] | DAlias a => [pa_name a] | DHid _ | DMid _ => []
  | DStruct d => [pd_name d] | DMsg _ ds => map pd_name ds
  end.

Lemma contrib_rank ap st i d : contrib ap st i = POk d -> drank d = rank i.
Proof.
  destruct i as [n e|n v|n t|n v|n v|n b|n id [b|]|ids]; simpl; intros H.
  - destruct (ceval (ps_consts st) e); inversion H; reflexivity.
  - inversion H; reflexivity.
  - destruct (resolve_alias (ps_aliases st) (ps_structs st) t) as [[[tg sz] a]|]; inversion H; reflexivity.
  - inversion H; reflexivity.
  - inversion H; reflexivity.
  - destruct (define ap st b) as [[[ps sz] a]|k|k]; inversion H; reflexivity.
  - destruct (define ap st b) as [[[ps sz] a]|k|k]; inversion H; reflexivity.
  - inversion H; reflexivity.
  - inversion H; reflexivity.
Qed.

(* the names a delta brings = the name the item submits to the duplicate check, or what it defines *)
Lemma contrib_names ap st i d : contrib ap st i = POk d ->
  delta_names d = match item_name i with Some n => [n] | None => item_defines i end.
Proof.
  destruct i as [n e|n v|n t|n v|n v|n b|n id [b|]|ids]; simpl; intros H.
  - destruct (ceval (ps_consts st) e); inversion H; reflexivity.
  - inversion H; reflexivity.
  - destruct (resolve_alias (ps_aliases st) (ps_structs st) t) as [[[tg sz] a]|]; inversion H; reflexivity.
  - inversion H; reflexivity.
  - inversion H; reflexivity.
  - destruct (define ap st b) as [[[ps sz] a]|k|k]; inversion H; reflexivity.
  - destruct (define ap st b) as [[[ps sz] a]|k|k]; inversion H; reflexivity.
  - inversion H; reflexivity.
  - inversion H; subst. simpl. rewrite map_map. reflexivity.
Qed.

Lemma apply_delta_comm st d1 d2 : drank d1 <> drank d2 ->
  apply_delta (apply_delta st d1) d2 = apply_delta (apply_delta st d2) d1.
Proof. destruct d1, d2; simpl; intros H; try reflexivity; exfalso; apply H; reflexivity. Qed.

Lemma existsb_app_s (f : string -> bool) a b : existsb f (a ++ b) = existsb f a || existsb f b.
Proof. apply existsb_app. Qed.

Lemma used_apply st d n : used (apply_delta st d) n = used st n || existsb (String.eqb n) (delta_names d).
Proof.
  unfold used, all_names, type_names.
  destruct d; simpl; repeat rewrite map_app; repeat rewrite existsb_app; simpl;
    repeat match goal with |- context [existsb ?f ?l] => destruct (existsb f l) end;
    repeat match goal with |- context [String.eqb ?a ?b] => destruct (String.eqb a b) end; reflexivity.
Qed.

Lemma step_inv ap st i s : step ap st i = POk s ->
  (match item_name i with Some n => used st n | None => false end) = false /\
  exists d, contrib ap st i = POk d /\ s = apply_delta st d.
Proof.
  unfold step. destruct (match item_name i with Some n => used st n | None => false end); [discriminate|].
  destruct (contrib ap st i) as [d|k|k]; try discriminate. intros H; inversion H; subst. split; auto. exists d; auto.
Qed.

Lemma step_intro ap st i d :
  (match item_name i with Some n => used st n | None => false end) = false ->
  contrib ap st i = POk d -> step ap st i = POk (apply_delta st d).
Proof. intros H1 H2. unfold step. rewrite H1, H2. reflexivity. Qed.

(* projections of a state after a delta of another rank *)
Lemma consts_apply st d : drank d <> 0%nat -> ps_consts (apply_delta st d) = ps_consts st.
Proof. destruct d; simpl; intros H; try reflexivity; exfalso; apply H; reflexivity. Qed.
Lemma aliases_apply st d : drank d <> 2%nat -> ps_aliases (apply_delta st d) = ps_aliases st.
Proof. destruct d; simpl; intros H; try reflexivity; exfalso; apply H; reflexivity. Qed.
Lemma structs_apply st d : drank d <> 5%nat -> ps_structs (apply_delta st d) = ps_structs st.
Proof. destruct d; simpl; intros H; try reflexivity; exfalso; apply H; reflexivity. Qed.
Lemma msgs_apply st d : drank d <> 6%nat -> ps_msgs (apply_delta st d) = ps_msgs st.
Proof. destruct d; simpl; intros H; try reflexivity; exfalso; apply H; reflexivity. Qed.

Lemma define_eq ap st st' b :
  resolve_body (ps_consts st') (ps_aliases st') (ps_structs st') (ps_msgs st') b
  = resolve_body (ps_consts st) (ps_aliases st) (ps_structs st) (ps_msgs st) b -> define ap st' b = define ap st b.
Proof. unfold define. intros H. rewrite H. reflexivity. Qed.

Lemma not_in_existsb t l : existsb (String.eqb t) l = false -> ~ In t l.
Proof.
  intros H Hin. assert (existsb (String.eqb t) l = true); [|congruence].
  apply existsb_exists. exists t. split; auto. apply String.eqb_refl.
Qed.

Lemma rank_le6 x : (rank x <= 6)%nat.
Proof. destruct x; simpl; lia. Qed.

(* (a) y does not see what x added *)
Lemma contrib_after_later ap st x y dx :
  (rank y < rank x)%nat -> compat x y = true -> contrib ap st x = POk dx ->
  contrib ap (apply_delta st dx) y = contrib ap st y.
Proof.
  intros Hr Hc Hx. pose proof (contrib_rank _ _ _ _ Hx) as Rx. pose proof (rank_le6 x) as R6.
  destruct y as [n e|n v|n t|n v|n v|n b|n id [b|]|ids]; simpl in Hr |- *; try reflexivity; try lia.
  - rewrite consts_apply by lia. reflexivity.
  - (* alias: reads aliases and structs *)
    rewrite aliases_apply by lia.
    destruct dx as [c|s|a|h|m|d|ids ds]; simpl in Rx |- *; try reflexivity; try lia.
    destruct x as [n0 e0|n0 v0|n0 t0|n0 v0|n0 v0|n0 b0|n0 id0 b0|ids0]; simpl in Rx; try lia.
    simpl in Hc. simpl in Hx. destruct (define ap st b0) as [[[ps sz] a]|k|k]; try discriminate. inversion Hx; subst.
    unfold resolve_alias. destruct (tlookup t parser_types) as [[sz0 kd]|]; [reflexivity|].
    rewrite find_def_app_fresh; [reflexivity|]. simpl. intros [E|[]].
    apply negb_true_iff in Hc. apply String.eqb_neq in Hc. congruence.
  - (* struct: reads consts, aliases, structs, msgs; x is a message or a reserved block *)
    destruct dx as [c|s|a|h|m|d|ids ds]; simpl in Rx; try lia.
    apply (f_equal (fun r : pres (list pfield * Z * Z) => match r with
                      | POk (ps', sz, a) => POk (DStruct (mkPD n None ps' sz a (Some b))) | PReject k => PReject k | PCrash k => PCrash k end)).
    apply define_eq. simpl.
    assert (Hn : map pd_name ds = item_defines x).
    { pose proof (contrib_names _ _ _ _ Hx) as E. simpl in E.
      destruct x as [n0 e0|n0 v0|n0 t0|n0 v0|n0 v0|n0 b0|n0 id0 b0|ids0]; simpl in Rx; try lia; simpl in E |- *; exact E. }
    assert (Hf : Forall (fun t => ~ In t (map pd_name ds)) (body_type_names b)).
    { rewrite Hn. apply Forall_forall. intros t Ht.
      assert (G : forallb (fun t => negb (existsb (String.eqb t) (item_defines x))) (body_type_names b) = true).
      { destruct x as [n0 e0|n0 v0|n0 t0|n0 v0|n0 v0|n0 b0|n0 id0 b0|ids0]; simpl in Rx; try lia; exact Hc. }
      pose proof (proj1 (forallb_forall _ _) G t Ht) as G2. apply negb_true_iff in G2. apply not_in_existsb. exact G2. }
    destruct b as [l|m]; simpl.
    + apply resolve_fields_msgs_fresh. exact Hf.
    + simpl in Hf. inversion Hf; subst. rewrite find_def_app_fresh by assumption. reflexivity.
Qed.

(* type names resolved through struct_defs / message_defs are names of the state *)
Lemma used_of_struct st t : In t (map pd_name (ps_structs st)) -> used st t = true.
Proof.
  intros H. unfold used, all_names, type_names. apply existsb_exists. exists t. split; [|apply String.eqb_refl].
  apply in_or_app; right. apply in_or_app; right. apply in_or_app; right. apply in_or_app; left. exact H.
Qed.
Lemma used_of_msg st t : In t (map pd_name (ps_msgs st)) -> used st t = true.
Proof.
  intros H. unfold used, all_names, type_names. apply existsb_exists. exists t. split; [|apply String.eqb_refl].
  apply in_or_app; right. apply in_or_app; right. apply in_or_app; right. apply in_or_app; right. exact H.
Qed.

(* (b) x, accepted, gives the same contribution when the earlier-section item y is already there *)
Lemma contrib_with_earlier ap st x y dx dy ny :
  (rank y < rank x)%nat -> contrib ap st x = POk dx -> contrib ap st y = POk dy ->
  item_name y = Some ny -> used st ny = false ->
  contrib ap (apply_delta st dy) x = POk dx.
Proof.
  intros Hr Hx Hy Hny Hu. pose proof (contrib_rank _ _ _ _ Hy) as Ry. pose proof (rank_le6 x) as R6.
  assert (Hdn : delta_names dy = [ny]) by (rewrite (contrib_names _ _ _ _ Hy), Hny; reflexivity).
  assert (Hbody : forall b ps,
             (rank y < 5)%nat \/ (rank y = 5%nat /\ ~ (exists n, x = IStruct n b)) ->
             resolve_body (ps_consts st) (ps_aliases st) (ps_structs st) (ps_msgs st) b = POk ps ->
             resolve_body (ps_consts (apply_delta st dy)) (ps_aliases (apply_delta st dy))
                          (ps_structs (apply_delta st dy)) (ps_msgs (apply_delta st dy)) b = POk ps).
  { intros b ps _ Hb. rewrite msgs_apply by lia. revert Hb. apply resolve_body_ext.
    - (* constants *)
      intros e v He. destruct dy; simpl; auto. apply leval_mono. exact He.
    - (* field types *)
      intros t r Ht. destruct dy as [c|s|a|h|m|d|ids ds]; simpl in *; auto; try lia.
      + (* one more alias *)
        unfold resolve_ftype in *. destruct (tlookup t parser_types) as [[sz kd]|]; auto.
        destruct (find_alias t (ps_aliases st)) as [a0|] eqn:Ea.
        * rewrite (find_alias_app_some _ _ _ _ Ea). exact Ht.
        * rewrite (find_alias_app_none _ _ _ Ea). simpl.
          destruct (String.eqb (pa_name a) t) eqn:En; auto.
          exfalso. apply String.eqb_eq in En. inversion Hdn; subst ny. rewrite En in Hu.
          destruct (find_def t (ps_structs st)) as [sd|] eqn:Es.
          -- rewrite (used_of_struct _ _ (find_def_in _ _ _ Es)) in Hu. discriminate.
          -- destruct (find_def t (ps_msgs st)) as [md|] eqn:Em; [|discriminate].
             rewrite (used_of_msg _ _ (find_def_in _ _ _ Em)) in Hu. discriminate.
      + (* one more struct *)
        unfold resolve_ftype in *. destruct (tlookup t parser_types) as [[sz kd]|]; auto.
        destruct (find_alias t (ps_aliases st)) as [a0|]; auto.
        destruct (find_def t (ps_structs st)) as [sd|] eqn:Es.
        * rewrite (find_def_app_some _ _ _ _ Es). exact Ht.
        * rewrite (find_def_app_none _ _ _ Es). simpl.
          destruct (String.eqb (pd_name d) t) eqn:En; auto.
          exfalso. apply String.eqb_eq in En. inversion Hdn; subst ny. rewrite En in Hu.
          destruct (find_def t (ps_msgs st)) as [md|] eqn:Em; [|destruct (find_def t (ps_msgs st)); discriminate].
          rewrite (used_of_msg _ _ (find_def_in _ _ _ Em)) in Hu. discriminate.
    - (* reuse *)
      intros n ps' Hb. simpl in *. destruct (find_def n (ps_msgs st)) as [m|]; auto.
      destruct dy as [c|s|a|h|m|d|ids ds]; simpl in *; auto; try lia.
      destruct (find_def n (ps_structs st)) as [sd|] eqn:Es; [|discriminate].
      rewrite (find_def_app_some _ _ _ _ Es). exact Hb. }
  destruct x as [n e|n v|n t|n v|n v|n b|n id [b|]|ids]; simpl in Hr, Hx |- *; auto; try lia.
  - (* alias *)
    rewrite aliases_apply by lia. rewrite structs_apply by lia. exact Hx.
  - (* struct *)
    unfold define in *.
    destruct (resolve_body (ps_consts st) (ps_aliases st) (ps_structs st) (ps_msgs st) b) as [ps|k|k] eqn:Eb; try discriminate.
    assert (Hy5 : (rank y < 5)%nat \/ (rank y = 5%nat /\ ~ (exists n0, IStruct n b = IStruct n0 b))) by (left; lia).
    rewrite (Hbody b ps Hy5 Eb). exact Hx.
  - (* message *)
    unfold define in *.
    destruct (resolve_body (ps_consts st) (ps_aliases st) (ps_structs st) (ps_msgs st) b) as [ps|k|k] eqn:Eb; try discriminate.
    assert (Hy5 : (rank y < 5)%nat \/ (rank y = 5%nat /\ ~ (exists n0, IMsg n id (Some b) = IStruct n0 b))).
    { destruct (Nat.eq_dec (rank y) 5); [right; split; auto; intros [n0 E]; discriminate|left; lia]. }
    rewrite (Hbody b ps Hy5 Eb). exact Hx.
Qed.

(* items of rank < 6 with no name (host and module ids) *)
Lemma contrib_with_earlier_unnamed ap st x y dx dy :
  (rank y < rank x)%nat -> contrib ap st x = POk dx -> contrib ap st y = POk dy ->
  item_name y = None -> contrib ap (apply_delta st dy) x = POk dx.
Proof.
  intros Hr Hx Hy Hn. pose proof (rank_le6 x) as R6.
  destruct y as [n e|n v|n t|n v|n v|n b|n id b|ids]; simpl in Hn; try discriminate; simpl in Hy; inversion Hy; subst;
    try (simpl in Hr; lia);
    (destruct x as [n0 e0|n0 v0|n0 t0|n0 v0|n0 v0|n0 b0|n0 id0 [b0|]|ids0]; simpl in *; auto; try lia).
Qed.

(* ------------------------------------------------------------------ the adjacent swap *)
Lemma step_swap ap st x y s1 s2 :
  (rank y < rank x)%nat -> compat x y = true ->
  step ap st x = POk s1 -> step ap s1 y = POk s2 ->
  exists s1', step ap st y = POk s1' /\ step ap s1' x = POk s2.
Proof.
  intros Hr Hc H1 H2.
  destruct (step_inv _ _ _ _ H1) as (Ux & dx & Cx & E1). subst s1.
  destruct (step_inv _ _ _ _ H2) as (Uy & dy & Cy & E2). subst s2.
  rewrite (contrib_after_later _ _ _ _ _ Hr Hc Cx) in Cy.
  pose proof (contrib_rank _ _ _ _ Cx) as Rx. pose proof (contrib_rank _ _ _ _ Cy) as Ry.
  assert (Uy' : (match item_name y with Some n => used st n | None => false end) = false).
  { destruct (item_name y) as [ny|]; auto. rewrite used_apply in Uy. apply orb_false_iff in Uy. tauto. }
  exists (apply_delta st dy). split; [apply step_intro; assumption|].
  rewrite (apply_delta_comm st dx dy) by lia.
  apply step_intro.
  - destruct (item_name x) as [nx|] eqn:Enx; auto.
    rewrite used_apply. rewrite Ux. simpl.
    rewrite (contrib_names _ _ _ _ Cy).
    destruct (item_name y) as [ny|] eqn:Eny.
    + simpl. rewrite orb_false_r. rewrite used_apply in Uy. apply orb_false_iff in Uy. destruct Uy as [_ Uy].
      rewrite (contrib_names _ _ _ _ Cx), Enx in Uy. simpl in Uy. rewrite orb_false_r in Uy.
      rewrite String.eqb_sym. exact Uy.
    + destruct y as [n e|n v|n t|n v|n v|n b|n id b|ids]; simpl in Eny; try discriminate; try reflexivity.
      simpl in Hr. destruct x; simpl in Hr; lia.
  - destruct (item_name y) as [ny|] eqn:Eny.
    + eapply contrib_with_earlier; eauto.
    + eapply contrib_with_earlier_unnamed; eauto.
Qed.

(* ------------------------------------------------------------------ runs *)
Lemma run_app ap a b st : run ap (a ++ b) st = match run ap a st with POk s => run ap b s | PReject k => PReject k | PCrash k => PCrash k end.
Proof.
  revert st. induction a as [|i r IH]; simpl; intros st; auto.
  destruct (step ap st i); auto.
Qed.

Lemma run_swap_head ap st x y r s :
  (rank y < rank x)%nat -> compat x y = true ->
  run ap (x :: y :: r) st = POk s -> run ap (y :: x :: r) st = POk s.
Proof.
  intros Hr Hc. simpl.
  destruct (step ap st x) as [s1|k|k] eqn:E1; try discriminate.
  destruct (step ap s1 y) as [s2|k|k] eqn:E2; try discriminate.
  destruct (step_swap _ _ _ _ _ _ Hr Hc E1 E2) as (s1' & F1 & F2). rewrite F1, F2. auto.
Qed.

(* ------------------------------------------------------------------ stable sort by rank *)
Fixpoint insert (x : item) (l : list item) : list item :=
  match l with
  | [] => [x]
  | y :: r => if (rank y <? rank x)%nat then y :: insert x r else x :: y :: r
  end.
Definition isort (l : list item) : list item := fold_right insert [] l.

Lemma insert_app_lt x a b : Forall (fun y => (rank y < rank x)%nat) a -> insert x (a ++ b) = a ++ insert x b.
Proof.
  induction a as [|y r IH]; simpl; intros H; auto. inversion H; subst.
  apply Nat.ltb_lt in H2. rewrite H2. rewrite IH; auto.
Qed.
Lemma insert_ge x b : Forall (fun y => (rank x <= rank y)%nat) b -> insert x b = x :: b.
Proof.
  destruct b as [|y r]; simpl; intros H; auto. inversion H; subst.
  assert ((rank y <? rank x)%nat = false) by (apply Nat.ltb_ge; assumption). rewrite H0. reflexivity.
Qed.

Lemma sec_cons r x l : sec r (x :: l) = if Nat.eqb (rank x) r then x :: sec r l else sec r l.
Proof. reflexivity. Qed.
Lemma sec_rank r l : Forall (fun y => rank y = r) (sec r l).
Proof.
  unfold sec. apply Forall_forall. intros y Hy. apply filter_In in Hy. destruct Hy as [_ H]. apply Nat.eqb_eq in H. exact H.
Qed.

Definition bsec (rs : list nat) (l : list item) : list item := flat_map (fun r => sec r l) rs.

Lemma bsec_cons r rs l : bsec (r :: rs) l = sec r l ++ bsec rs l.
Proof. reflexivity. Qed.
Lemma bsec_nil l : bsec [] l = [].
Proof. reflexivity. Qed.

Lemma bsec_ranks rs l : Forall (fun y => In (rank y) rs) (bsec rs l).
Proof.
  induction rs as [|r rs IH]; [rewrite bsec_nil; constructor|]. rewrite bsec_cons. apply Forall_app. split.
  - eapply Forall_impl; [|apply sec_rank]. intros y Hy. left. auto.
  - eapply Forall_impl; [|exact IH]. intros y Hy. right. exact Hy.
Qed.

Lemma bsec_not_in rs x l : ~ In (rank x) rs -> bsec rs (x :: l) = bsec rs l.
Proof.
  induction rs as [|r rs IH]; intros H; [reflexivity|]. rewrite !bsec_cons.
  rewrite sec_cons. destruct (Nat.eqb (rank x) r) eqn:E.
  - apply Nat.eqb_eq in E. exfalso. apply H. left. auto.
  - rewrite IH; auto. intro. apply H. right. assumption.
Qed.

Lemma bsec_insert rs x l :
  Sorted.StronglySorted lt rs -> In (rank x) rs -> bsec rs (x :: l) = insert x (bsec rs l).
Proof.
  induction rs as [|r rs IH]; intros Hs Hin; [contradiction|].
  inversion Hs as [|? ? Hs' Hlt]; subst. rewrite !bsec_cons.
  rewrite sec_cons. destruct (Nat.eqb (rank x) r) eqn:E.
  - apply Nat.eqb_eq in E. subst r.
    assert (Hn : ~ In (rank x) rs).
    { intro Hi. pose proof (proj1 (Forall_forall _ _) Hlt _ Hi). lia. }
    rewrite bsec_not_in by assumption.
    symmetry. change ((x :: sec (rank x) l) ++ bsec rs l) with (x :: (sec (rank x) l ++ bsec rs l)).
    apply insert_ge. apply Forall_app. split.
    + eapply Forall_impl; [|apply sec_rank]. intros y Hy. simpl in Hy. lia.
    + eapply Forall_impl; [|apply bsec_ranks]. intros y Hy. simpl in Hy.
      pose proof (proj1 (Forall_forall _ _) Hlt _ Hy). lia.
  - apply Nat.eqb_neq in E. destruct Hin as [Hin|Hin]; [congruence|].
    rewrite IH by assumption. symmetry. apply insert_app_lt.
    eapply Forall_impl; [|apply sec_rank]. intros y Hy. simpl in Hy.
    pose proof (proj1 (Forall_forall _ _) Hlt _ Hin). lia.
Qed.

Lemma ranks_sorted : Sorted.StronglySorted lt ranks.
Proof. unfold ranks. repeat constructor; lia. Qed.
Lemma rank_in_ranks x : In (rank x) ranks.
Proof. destruct x; simpl; tauto. Qed.

Lemma by_section_isort l : by_section l = isort l.
Proof.
  change (by_section l) with (bsec ranks l).
  induction l as [|x r IH].
  - reflexivity.
  - rewrite (bsec_insert ranks x r ranks_sorted (rank_in_ranks x)). rewrite IH. reflexivity.
Qed.

(* ------------------------------------------------------------------ runs are preserved by the sort *)
Lemma insert_In x l y : In y (insert x l) <-> y = x \/ In y l.
Proof.
  induction l as [|z r IH]; simpl.
  - split; intros [H|H]; auto; contradiction.
  - destruct (rank z <? rank x)%nat; simpl.
    + rewrite IH. split; intros H; intuition auto.
    + split; intros H; intuition auto.
Qed.

Lemma run_insert ap x l st s :
  Forall (fun y => compat x y = true) l ->
  run ap (x :: l) st = POk s -> run ap (insert x l) st = POk s.
Proof.
  revert st. induction l as [|y r IH]; intros st Hc H; [exact H|].
  simpl insert. inversion Hc as [|? ? Hcy Hcr]; subst.
  destruct (rank y <? rank x)%nat eqn:E; [|exact H].
  apply Nat.ltb_lt in E. apply (run_swap_head _ _ _ _ _ _ E Hcy) in H.
  simpl in H |- *. destruct (step ap st y) as [s1|k|k]; try discriminate.
  apply IH; assumption.
Qed.

Lemma isort_In l y : In y (isort l) <-> In y l.
Proof.
  induction l as [|x r IH]; simpl; [tauto|]. rewrite insert_In, IH. split; intros [H|H]; auto.
Qed.

Lemma run_isort ap l st s :
  backward_uses l = true -> run ap l st = POk s -> run ap (isort l) st = POk s.
Proof.
  intros Hb. assert (Hall : forall x y, In x l -> In y l -> compat x y = true).
  { intros x y Hx Hy. unfold backward_uses in Hb.
    exact (proj1 (forallb_forall _ _) (proj1 (forallb_forall _ _) Hb x Hx) y Hy). }
  clear Hb. revert st s. induction l as [|x r IH]; intros st s H; [exact H|].
  simpl isort. apply run_insert.
  - apply Forall_forall. intros y Hy. apply (proj1 (isort_In _ _)) in Hy. apply Hall; simpl; auto.
  - simpl in H |- *. destruct (step ap st x) as [s1|k|k]; try discriminate.
    apply IH; auto. intros a b Ha Hb'. apply Hall; simpl; auto.
Qed.

(* ------------------------------------------------------------------ _RESERVED_ blocks
   The combined file carries ONE _RESERVED_ block, at the place of the first one, listing the ids of all blocks
   (parse_text since bcffd4b).  Re-reading it defines the same placeholders, but all at that one place: the parsed
   state is the same up to the position of the placeholder entries in message_ids / message_defs. *)
Definition count_reserved (l : list item) : nat := List.length (filter is_reserved l).
Definition rmts (ids : list Z) : list (string * Z) := map (fun id => (reserved_name id, id)) ids.
Definition rdefs (ids : list Z) : list pdef := map (fun id => mkPD (reserved_name id) (Some id) [] 0 8 None) ids.
Definition rnames (ids : list Z) : list string := map reserved_name ids.

(* Parser.check_name (not part of Model/Emit.v's step): a declared name starts with a letter; the type names a
   definition refers to are native names or declared names.  legal_names states it for the source items. *)
Definition is_letter (c : ascii) : bool :=
  let n := N_of_ascii c in ((65 <=? n) && (n <=? 90) || (97 <=? n) && (n <=? 122))%N.
Definition starts_with_letter (s : string) : bool :=
  match s with String c _ => is_letter c | EmptyString => false end.
Definition item_idents (i : item) : list string :=
  match i with
  | IConst n _ | IStr n _ => [n]
  | IAlias n t => [n; t]
  | IStruct n b => n :: body_type_names b
  | IMsg n _ (Some b) => n :: body_type_names b
  | IMsg n _ None => [n]
  | IHid _ _ | IMid _ _ | IReserved _ => []
  end.
Definition legal_item (i : item) : bool := forallb starts_with_letter (item_idents i).
Definition legal_names (l : list item) : bool := forallb legal_item l.

Lemma reserved_not_letter id : starts_with_letter (reserved_name id) = false.
Proof. reflexivity. Qed.

Lemma letter_not_reserved t A : starts_with_letter t = true -> ~ In t (rnames A).
Proof.
  intros H Hin. unfold rnames in Hin. apply in_map_iff in Hin. destruct Hin as (id & E & _). subst t.
  rewrite reserved_not_letter in H. discriminate.
Qed.

(* the user's entries: everything whose name starts with a letter *)
Definition user_mt (x : string * Z) : bool := starts_with_letter (fst x).
Definition user_def (d : pdef) : bool := starts_with_letter (pd_name d).

Lemma user_rmts ids : filter user_mt (rmts ids) = [].
Proof. induction ids as [|i r IH]; simpl; auto. Qed.
Lemma user_rdefs ids : filter user_def (rdefs ids) = [].
Proof. induction ids as [|i r IH]; simpl; auto. Qed.
Lemma names_rdefs ids : map pd_name (rdefs ids) = rnames ids.
Proof. unfold rdefs, rnames. rewrite map_map. reflexivity. Qed.

(* "the same ids, hashes, sizes and layouts": every component but message_ids / message_defs is identical; those two
   hold the same entries (a permutation), and the user's own entries - everything except the _RESERVED_nnnnnn
   placeholders - come in the same order. *)
Record same_defs (st st' : pstate) : Prop := {
  sd_consts : ps_consts st = ps_consts st';
  sd_strs : ps_strs st = ps_strs st';
  sd_aliases : ps_aliases st = ps_aliases st';
  sd_hids : ps_hids st = ps_hids st';
  sd_mids : ps_mids st = ps_mids st';
  sd_structs : ps_structs st = ps_structs st';
  sd_mts : Permutation (ps_mts st) (ps_mts st');
  sd_msgs : Permutation (ps_msgs st) (ps_msgs st');
  sd_user_mts : filter user_mt (ps_mts st) = filter user_mt (ps_mts st');
  sd_user_msgs : filter user_def (ps_msgs st) = filter user_def (ps_msgs st') }.

Lemma same_defs_refl st : same_defs st st.
Proof. constructor; auto. Qed.

(* so: state of the original run; sm: state of the run over the merged list; pend: reserved ids the original run
   has still to meet (the merged run has them already) *)
Record RInv (RN : list string) (so sm : pstate) (pend : list Z) : Prop := {
  ri_consts : ps_consts so = ps_consts sm;
  ri_strs : ps_strs so = ps_strs sm;
  ri_aliases : ps_aliases so = ps_aliases sm;
  ri_hids : ps_hids so = ps_hids sm;
  ri_mids : ps_mids so = ps_mids sm;
  ri_structs : ps_structs so = ps_structs sm;
  ri_find : forall t, ~ In t RN -> find_def t (ps_msgs sm) = find_def t (ps_msgs so);
  ri_mts : Permutation (ps_mts so ++ rmts pend) (ps_mts sm);
  ri_msgs : Permutation (ps_msgs so ++ rdefs pend) (ps_msgs sm);
  ri_user_mts : filter user_mt (ps_mts so) = filter user_mt (ps_mts sm);
  ri_user_msgs : filter user_def (ps_msgs so) = filter user_def (ps_msgs sm) }.

Lemma RInv_refl RN st : RInv RN st st [].
Proof. constructor; auto; simpl; rewrite app_nil_r; apply Permutation_refl. Qed.

Lemma RInv_same RN so sm : RInv RN so sm [] -> same_defs so sm.
Proof.
  intros [H1 H2 H3 H4 H5 H6 _ H8 H9 H10 H11]. simpl in H8, H9. rewrite app_nil_r in H8, H9.
  constructor; assumption.
Qed.

Lemma perm_add {A} (a p m x : list A) : Permutation (a ++ p) m -> Permutation ((a ++ x) ++ p) (m ++ x).
Proof.
  intros H. rewrite <- app_assoc. apply Permutation_trans with (a ++ p ++ x).
  - apply Permutation_app_head. apply Permutation_app_comm.
  - rewrite app_assoc. apply Permutation_app_tail. exact H.
Qed.

Lemma find_def_app_congr t a a' x : find_def t a = find_def t a' -> find_def t (a ++ x) = find_def t (a' ++ x).
Proof.
  intros H. destruct (find_def t a) as [d|] eqn:E.
  - rewrite (find_def_app_some _ _ _ _ E). symmetry in H. rewrite (find_def_app_some _ _ _ _ H). reflexivity.
  - rewrite (find_def_app_none _ _ _ E). symmetry in H. rewrite (find_def_app_none _ _ _ H). reflexivity.
Qed.

(* both runs add the same messages *)
Lemma RInv_add RN so sm pend ids ds :
  RInv RN so sm pend -> RInv RN (apply_delta so (DMsg ids ds)) (apply_delta sm (DMsg ids ds)) pend.
Proof.
  intros [H1 H2 H3 H4 H5 H6 H7 H8 H9 H10 H11]. constructor; simpl; auto.
  - intros t Ht. apply find_def_app_congr. apply H7. exact Ht.
  - apply perm_add. exact H8.
  - apply perm_add. exact H9.
  - rewrite !filter_app, H10. reflexivity.
  - rewrite !filter_app, H11. reflexivity.
Qed.

(* the original run meets a later _RESERVED_ block; the merged run has nothing to do *)
Lemma RInv_reserved A so sm ids pend :
  incl ids A -> RInv (rnames A) so sm (ids ++ pend) ->
  RInv (rnames A) (apply_delta so (DMsg (rmts ids) (rdefs ids))) sm pend.
Proof.
  intros Hi [H1 H2 H3 H4 H5 H6 H7 H8 H9 H10 H11]. constructor; simpl; auto.
  - intros t Ht. rewrite (H7 t Ht). symmetry. apply find_def_app_fresh. rewrite names_rdefs. intros Hin. apply Ht.
    unfold rnames in *. apply in_map_iff in Hin. destruct Hin as (id & E & Hid). apply in_map_iff. exists id. split; auto.
  - unfold rmts in *. rewrite map_app in H8. rewrite <- app_assoc. exact H8.
  - unfold rdefs in *. rewrite map_app in H9. rewrite <- app_assoc. exact H9.
  - rewrite filter_app, user_rmts, app_nil_r. exact H10.
  - rewrite filter_app, user_rdefs, app_nil_r. exact H11.
Qed.

(* the first _RESERVED_ block: the original run defines its ids, the merged run the ids of all blocks *)
Lemma RInv_first st ids pend :
  RInv (rnames (ids ++ pend)) (apply_delta st (DMsg (rmts ids) (rdefs ids)))
       (apply_delta st (DMsg (rmts (ids ++ pend)) (rdefs (ids ++ pend)))) pend.
Proof.
  constructor; simpl; auto.
  - intros t Ht. rewrite find_def_app_fresh by (rewrite names_rdefs; exact Ht).
    symmetry. apply find_def_app_fresh. rewrite names_rdefs. intros Hin. apply Ht.
    unfold rnames in *. rewrite map_app. apply in_or_app. left. exact Hin.
  - unfold rmts. rewrite map_app, app_assoc. apply Permutation_refl.
  - unfold rdefs. rewrite map_app, app_assoc. apply Permutation_refl.
  - rewrite !filter_app, !user_rmts. reflexivity.
  - rewrite !filter_app, !user_rdefs. reflexivity.
Qed.

(* field types / reuse targets are looked up the same way in two message tables that agree on them *)
Lemma resolve_fields_msgs_eq cs al ss ms ms' l :
  Forall (fun t => find_def t ms' = find_def t ms) (map fd_type l) ->
  resolve_fields cs al ss ms' l = resolve_fields cs al ss ms l.
Proof.
  induction l as [|d r IH]; simpl; intros H; auto. inversion H as [|? ? H1 H2]; subst.
  unfold resolve_field, resolve_ftype. rewrite H1. rewrite (IH H2). reflexivity.
Qed.

Lemma resolve_body_msgs_eq cs al ss ms ms' b :
  Forall (fun t => find_def t ms' = find_def t ms) (body_type_names b) ->
  resolve_body cs al ss ms' b = resolve_body cs al ss ms b.
Proof.
  destruct b as [l|n]; simpl; intros H.
  - apply resolve_fields_msgs_eq. exact H.
  - inversion H; subst. rewrite H2. reflexivity.
Qed.

Lemma find_def_none_existsb n l : existsb (String.eqb n) (map pd_name l) = match find_def n l with Some _ => true | None => false end.
Proof.
  induction l as [|x r IH]; simpl; auto. rewrite (String.eqb_sym n (pd_name x)).
  destruct (String.eqb (pd_name x) n); simpl; auto.
Qed.

Lemma used_split st n :
  used st n = existsb (String.eqb n) (map fst (ps_consts st) ++ map fst (ps_strs st) ++ map pa_name (ps_aliases st)
                                      ++ map pd_name (ps_structs st))
              || existsb (String.eqb n) (map pd_name (ps_msgs st)).
Proof.
  unfold used, all_names, type_names. rewrite !existsb_app. rewrite !orb_assoc. reflexivity.
Qed.

Lemma used_rinv RN so sm pend n : RInv RN so sm pend -> ~ In n RN -> used sm n = used so n.
Proof.
  intros [H1 H2 H3 H4 H5 H6 H7 _ _ _ _] Hn. rewrite !used_split. rewrite H1, H2, H3, H6.
  rewrite !find_def_none_existsb. rewrite (H7 n Hn). reflexivity.
Qed.

Lemma contrib_msg_rinv ap RN so sm pend n id b :
  RInv RN so sm pend -> Forall (fun t => ~ In t RN) (match b with Some b' => body_type_names b' | None => [] end) ->
  contrib ap sm (IMsg n id b) = contrib ap so (IMsg n id b).
Proof.
  intros R Hb. destruct b as [b|]; [|reflexivity]. simpl.
  assert (E : define ap sm b = define ap so b).
  { apply define_eq. destruct R as [H1 H2 H3 H4 H5 H6 H7 _ _ _ _]. rewrite <- H1, <- H3, <- H6.
    apply resolve_body_msgs_eq. eapply Forall_impl; [|exact Hb]. intros t Ht. apply H7. exact Ht. }
  rewrite E. reflexivity.
Qed.

Lemma step_msg_rinv ap RN so sm pend n id b so' :
  RInv RN so sm pend -> ~ In n RN ->
  Forall (fun t => ~ In t RN) (match b with Some b' => body_type_names b' | None => [] end) ->
  step ap so (IMsg n id b) = POk so' ->
  exists sm', step ap sm (IMsg n id b) = POk sm' /\ RInv RN so' sm' pend.
Proof.
  intros R Hn Hb Hs. destruct (step_inv _ _ _ _ Hs) as (U & d & C & E). subst so'. simpl in U.
  pose proof (contrib_rank _ _ _ _ C) as Rk. simpl in Rk.
  destruct d as [c|s|a|h|m|d|ids ds]; simpl in Rk; try discriminate.
  exists (apply_delta sm (DMsg ids ds)). split.
  - apply step_intro.
    + simpl. rewrite (used_rinv _ _ _ _ _ R Hn). exact U.
    + rewrite (contrib_msg_rinv ap _ _ _ _ n id b R Hb). exact C.
  - apply RInv_add. exact R.
Qed.

Lemma step_reserved ap st ids : step ap st (IReserved ids) = POk (apply_delta st (DMsg (rmts ids) (rdefs ids))).
Proof. reflexivity. Qed.

Definition rank6 (i : item) : Prop := rank i = 6%nat.

Lemma legal_msg_parts A n id b : legal_item (IMsg n id b) = true ->
  ~ In n (rnames A) /\ Forall (fun t => ~ In t (rnames A)) (match b with Some b' => body_type_names b' | None => [] end).
Proof.
  unfold legal_item. intros H. destruct b as [b|]; simpl in H; apply andb_true_iff in H; destruct H as [H1 H2].
  - split; [apply letter_not_reserved; exact H1|]. apply Forall_forall. intros t Ht. apply letter_not_reserved.
    exact (proj1 (forallb_forall _ _) H2 t Ht).
  - split; [apply letter_not_reserved; exact H1|constructor].
Qed.

(* after the first block *)
Lemma hoist_seen ap A m : forall so sm s,
  Forall rank6 m -> legal_names m = true -> incl (all_reserved m) A ->
  RInv (rnames A) so sm (all_reserved m) -> run ap m so = POk s ->
  exists s', run ap (merge_reserved m A true) sm = POk s' /\ RInv (rnames A) s s' [].
Proof.
  induction m as [|i r IH]; intros so sm s Hr Hl Hi R H.
  - simpl in H. inversion H; subst. exists sm. split; [reflexivity|exact R].
  - inversion Hr as [|? ? Hr1 Hr2]; subst. simpl in Hl. apply andb_true_iff in Hl. destruct Hl as [Hl1 Hl2].
    simpl in H. destruct (step ap so i) as [so1|k|k] eqn:Es; try discriminate.
    destruct i as [n e|n v|n t|n v|n v|n b|n id b|ids]; unfold rank6 in Hr1; simpl in Hr1; try discriminate.
    + (* a message: both runs take the same step *)
      simpl in Hi, R. destruct (legal_msg_parts A _ _ _ Hl1) as [Hn Hb].
      destruct (step_msg_rinv _ _ _ _ _ _ _ _ _ R Hn Hb Es) as (sm1 & Em & R1).
      simpl. rewrite Em. apply (IH so1 sm1 s Hr2 Hl2 Hi R1 H).
    + (* a later _RESERVED_ block: dropped from the merged list *)
      simpl in Hi, R. rewrite step_reserved in Es. injection Es as Es. subst so1.
      simpl. refine (IH _ sm s Hr2 Hl2 _ _ H).
      * intros x Hx. apply Hi. apply in_or_app. right. exact Hx.
      * apply RInv_reserved; [|exact R]. intros x Hx. apply Hi. apply in_or_app. left. exact Hx.
Qed.

(* up to and including the first block *)
Lemma hoist_unseen ap A m : forall st s,
  Forall rank6 m -> legal_names m = true -> all_reserved m = A -> run ap m st = POk s ->
  exists s', run ap (merge_reserved m A false) st = POk s' /\ RInv (rnames A) s s' [].
Proof.
  induction m as [|i r IH]; intros st s Hr Hl HA H.
  - simpl in H. inversion H; subst. exists s. split; [reflexivity|apply RInv_refl].
  - inversion Hr as [|? ? Hr1 Hr2]; subst. simpl in Hl. apply andb_true_iff in Hl. destruct Hl as [Hl1 Hl2].
    simpl in H. destruct (step ap st i) as [s1|k|k] eqn:Es; try discriminate.
    destruct i as [n e|n v|n t|n v|n v|n b|n id b|ids]; unfold rank6 in Hr1; simpl in Hr1; try discriminate.
    + simpl. rewrite Es. apply (IH s1 s Hr2 Hl2); [reflexivity|exact H].
    + simpl. rewrite step_reserved in Es. injection Es as Es. subst s1.
      refine (hoist_seen ap _ r _ _ s Hr2 Hl2 _ _ H).
      * simpl. intros x Hx. apply in_or_app. right. exact Hx.
      * simpl. apply RInv_first.
Qed.

(* ------------------------------------------------------------------ the merge and the section sort commute *)
Lemma sec_merge_other r l A seen : r <> 6%nat -> sec r (merge_reserved l A seen) = sec r l.
Proof.
  intros Hr. revert seen. induction l as [|i t IH]; intros seen; [reflexivity|].
  destruct i as [n e|n v|n t0|n v|n v|n b|n id b|ids]; simpl merge_reserved;
    try (rewrite !sec_cons; rewrite IH; reflexivity).
  destruct seen; rewrite !sec_cons; simpl rank; destruct (Nat.eqb 6 r) eqn:E;
    try (apply Nat.eqb_eq in E; congruence); apply IH.
Qed.

Lemma sec_merge_6 l A seen : sec 6 (merge_reserved l A seen) = merge_reserved (sec 6 l) A seen.
Proof.
  revert seen. induction l as [|i t IH]; intros seen; [reflexivity|].
  destruct i as [n e|n v|n t0|n v|n v|n b|n id b|ids]; simpl merge_reserved; rewrite ?sec_cons; simpl; rewrite ?IH; try reflexivity.
  destruct seen; rewrite ?sec_cons; simpl; rewrite ?IH; reflexivity.
Qed.

Lemma all_reserved_sec6 l : all_reserved (sec 6 l) = all_reserved l.
Proof.
  induction l as [|i t IH]; [reflexivity|].
  destruct i as [n e|n v|n t0|n v|n v|n b|n id b|ids]; rewrite sec_cons; simpl; rewrite ?IH; reflexivity.
Qed.

Definition ranks_lt6 : list nat := [0; 1; 2; 3; 4; 5]%nat.
Lemma by_section_split l : by_section l = bsec ranks_lt6 l ++ sec 6 l.
Proof. unfold by_section, bsec, ranks, ranks_lt6. simpl. rewrite !app_nil_r. rewrite <- !app_assoc. reflexivity. Qed.

Lemma bsec_merge_lt6 l A seen : bsec ranks_lt6 (merge_reserved l A seen) = bsec ranks_lt6 l.
Proof. unfold bsec, ranks_lt6. simpl. rewrite !sec_merge_other by lia. reflexivity. Qed.

Lemma combined_items_split l :
  combined_items l = bsec ranks_lt6 l ++ merge_reserved (sec 6 l) (all_reserved (sec 6 l)) false.
Proof.
  unfold combined_items. rewrite by_section_split, bsec_merge_lt6, sec_merge_6, all_reserved_sec6. reflexivity.
Qed.

Lemma legal_names_sec r l : legal_names l = true -> legal_names (sec r l) = true.
Proof.
  unfold legal_names, sec. intros H. apply forallb_forall. intros x Hx. apply filter_In in Hx.
  exact (proj1 (forallb_forall _ _) H x (proj1 Hx)).
Qed.

(* ------------------------------------------------------------------ the round trip *)
Theorem combined_roundtrip ap l st :
  backward_uses l = true -> legal_names l = true ->
  parse_items ap l = POk st -> exists st', reparse_combined ap l = POk st' /\ same_defs st st'.
Proof.
  intros Hb Hl H. unfold reparse_combined, parse_items in *.
  apply (run_isort _ _ _ _ Hb) in H. rewrite <- by_section_isort in H.
  rewrite by_section_split in H. rewrite run_app in H.
  destruct (run ap (bsec ranks_lt6 l) ps_empty) as [sP|k|k] eqn:EP; try discriminate.
  destruct (hoist_unseen ap (all_reserved (sec 6 l)) (sec 6 l) sP st) as (st' & E & R); auto.
  - eapply Forall_impl; [|apply sec_rank]. intros x Hx. exact Hx.
  - apply legal_names_sec. exact Hl.
  - exists st'. split; [|eapply RInv_same; exact R].
    rewrite combined_items_split, run_app, EP. exact E.
Qed.

(* at most one _RESERVED_ block in the closure: the merge keeps every item, and the state is the same one *)
Lemma merge_reserved_seen l A : count_reserved l = 0%nat -> merge_reserved l A true = l.
Proof.
  induction l as [|i r IH]; simpl; auto. unfold count_reserved in *. simpl.
  destruct (is_reserved i); simpl; [discriminate|]. intros H. rewrite IH; auto.
Qed.
Lemma all_reserved_cons i r : all_reserved (i :: r) = reserved_ids_of i ++ all_reserved r.
Proof. reflexivity. Qed.
Lemma all_reserved_none l : count_reserved l = 0%nat -> all_reserved l = [].
Proof.
  induction l as [|i r IH]; [reflexivity|]. rewrite all_reserved_cons. unfold count_reserved in *.
  destruct i; simpl; try discriminate; intros H; apply IH; exact H.
Qed.
Lemma merge_reserved_one_gen l : forall A, all_reserved l = A -> (count_reserved l <= 1)%nat -> merge_reserved l A false = l.
Proof.
  induction l as [|i r IH]; intros A HA H; [reflexivity|].
  unfold count_reserved in H. simpl in H. rewrite all_reserved_cons in HA. destruct (is_reserved i) eqn:E; simpl in H.
  - assert (Hr : count_reserved r = 0%nat) by (unfold count_reserved; lia).
    destruct i; try discriminate. simpl in HA. rewrite (all_reserved_none _ Hr), app_nil_r in HA. subst A.
    simpl. rewrite (merge_reserved_seen _ _ Hr). reflexivity.
  - simpl. rewrite E. rewrite (IH A); auto.
    destruct i; simpl in HA, E; try discriminate; exact HA.
Qed.
Lemma merge_reserved_one l : (count_reserved l <= 1)%nat -> merge_reserved l (all_reserved l) false = l.
Proof. apply merge_reserved_one_gen. reflexivity. Qed.

Theorem combined_roundtrip_exact ap l st :
  backward_uses l = true -> (count_reserved l <= 1)%nat ->
  parse_items ap l = POk st -> reparse_combined ap l = POk st.
Proof.
  intros Hb Hr H. unfold reparse_combined, combined_items, parse_items in *.
  rewrite (merge_reserved_one _ Hr). rewrite by_section_isort. apply run_isort; assumption.
Qed.
