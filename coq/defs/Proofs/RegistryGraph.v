(* The import closure: parse_file is a depth-first traversal with a visited list.
   [dfs] is the same traversal without the registries (it only lists the handler
   calls); this file proves that parse = run over that list, that the fuel suffices,
   and that the list consists of the events of every file reachable from the roots,
   each file once. *)
From Coq Require Import ZArith List Bool String Ascii Lia Permutation.
From Defs Require Import Gen.TypeTables Gen.Guards Model.Registry Proofs.RegistryProofs.
Import ListNotations.
Open Scope string_scope. Open Scope list_scope. Open Scope Z_scope.

Lemma in_assoc1 {A} (x : A) a b c : In x (a ++ b) -> In x (a ++ b ++ c).
Proof. rewrite !in_app_iff. tauto. Qed.
Lemma in_assoc2 {A} (x : A) a b c : In x ((a ++ b) ++ c) -> In x (a ++ b ++ c).
Proof. rewrite !in_app_iff. tauto. Qed.
Lemma nodup_assoc {A} (a b c : list A) : NoDup ((a ++ b) ++ c) -> NoDup (a ++ b ++ c).
Proof. intros H. rewrite <- List.app_assoc in H. exact H. Qed.

Section Graph.
Variable G : list file.

(* the handler calls one file contributes by itself *)
Definition fe (i : nat) : list ev :=
  match nth_error G i with
  | Some f => EFile i (yaml_ok f) :: file_events f
  | None => [ENoFile i]
  end.

Definition walk := list nat -> nat -> option (list nat * list ev).

Fixpoint dfs_list (d : walk) (vis : list nat) (l : list nat) : option (list nat * list ev) :=
  match l with
  | [] => Some (vis, [])
  | j :: r => match d vis j with
              | None => None
              | Some (v1, e1) => match dfs_list d v1 r with
                                 | None => None
                                 | Some (v2, e2) => Some (v2, e1 ++ e2)
                                 end
              end
  end.

Fixpoint dfs (fuel : nat) (vis : list nat) (i : nat) : option (list nat * list ev) :=
  match fuel with
  | O => None
  | S n =>
    if memn i vis then Some (vis, [])
    else match nth_error G i with
         | None => Some (vis ++ [i], [ENoFile i])
         | Some f => match dfs_list (dfs n) (vis ++ [i]) (f_imports f) with
                     | None => None
                     | Some (v, es) => Some (v, EFile i (yaml_ok f) :: es ++ file_events f)
                     end
         end
  end.

(* the traversal order of Parser.parse *)
Definition trace (roots : list nat) : list ev :=
  match dfs_list (dfs (S (List.length G))) [] roots with Some (_, evs) => evs | None => [] end.

(* reachability through imports *)
Inductive reach (roots : list nat) : nat -> Prop :=
| reach_root r : In r roots -> reach roots r
| reach_step j f k : reach roots j -> nth_error G j = Some f -> In k (f_imports f) -> reach roots k.

Lemma reach_incl r1 r2 j : incl r1 r2 -> reach r1 j -> reach r2 j.
Proof. intros I H. induction H; [apply reach_root, I; assumption|eapply reach_step; eassumption]. Qed.
Lemma reach_trans R l j : (forall r, In r l -> reach R r) -> reach l j -> reach R j.
Proof. intros I H. induction H; [apply I; assumption|eapply reach_step; eassumption]. Qed.

(* ---- file_events contains no file marker ---------------------------------------- *)

Lemma files_of_nil l : (forall e, In e l -> d_files e = []) -> files_of l = [].
Proof.
  induction l as [|e r IH]; intros H; simpl; [reflexivity|].
  rewrite (H e (or_introl eq_refl)). simpl. apply IH. intros x Hx. apply H. right. exact Hx.
Qed.

Lemma file_events_no_files f : files_of (file_events f) = [].
Proof.
  apply files_of_nil. intros e H. unfold file_events in H. rewrite !in_app_iff, !in_map_iff in H.
  destruct H as [(x&<-&_)|[(x&<-&_)|[(x&<-&_)|[(x&<-&_)|[(x&<-&_)|[(x&<-&_)|H]]]]]]; try reflexivity.
  apply in_flat_map in H. destruct H as (m & _ & Hm). destruct m; simpl in Hm.
  - destruct Hm as [<-|[]]. reflexivity.
  - destruct Hm as [<-|Hm]; [reflexivity|]. destruct (forallb entry_ok es); [|contradiction].
    apply in_map_iff in Hm. destruct Hm as (x & <- & _). reflexivity.
Qed.

Lemma files_of_app a b : files_of (a ++ b) = files_of a ++ files_of b.
Proof. apply flat_map_app. Qed.

(* ---- the visited list is the initial one plus the files entered ------------------- *)

Definition vis_ok (d : walk) := forall vis i v evs, d vis i = Some (v, evs) -> v = vis ++ files_of evs.

Lemma dfs_list_vis d : vis_ok d -> forall l vis v evs, dfs_list d vis l = Some (v, evs) -> v = vis ++ files_of evs.
Proof.
  intros Hd. induction l as [|j r IH]; intros vis v evs H; simpl in H.
  - inversion H; subst. rewrite app_nil_r. reflexivity.
  - destruct (d vis j) as [[v1 e1]|] eqn:E1; [|discriminate].
    destruct (dfs_list d v1 r) as [[v2 e2]|] eqn:E2; [|discriminate]. inversion H; subst.
    rewrite (IH _ _ _ E2), (Hd _ _ _ _ E1), files_of_app, List.app_assoc. reflexivity.
Qed.

Lemma dfs_vis fuel : vis_ok (dfs fuel).
Proof.
  induction fuel as [|n IH]; intros vis i v evs H; simpl in H; [discriminate|].
  destruct (memn i vis); [inversion H; subst; rewrite app_nil_r; reflexivity|].
  destruct (nth_error G i) as [f|]; [|inversion H; subst; reflexivity].
  destruct (dfs_list (dfs n) (vis ++ [i]) (f_imports f)) as [[v1 es]|] eqn:E; [|discriminate].
  inversion H; subst. rewrite (dfs_list_vis _ IH _ _ _ _ E). simpl.
  rewrite files_of_app, file_events_no_files, app_nil_r, <- List.app_assoc. reflexivity.
Qed.

(* ---- parse_file = run over the traversal ---------------------------------------------- *)

Lemma step_inc icd s e s' : step icd s e = ROk s' -> inc s' = inc s ++ d_files e.
Proof.
  intros H. destruct e; simpl in H; unfold chk_shared, reg_msg in H;
    repeat first
      [ discriminate H
      | match type of H with context [if ?c then _ else _] => destruct c eqn:?; simpl in H end
      | match type of H with context [match ?c with ROk _ => _ | RErr _ => _ end] => destruct c eqn:?; simpl in H end ];
    inversion H; subst; simpl; rewrite ?app_nil_r; reflexivity.
Qed.

Lemma run_inc icd evs : forall s s', run icd s evs = ROk s' -> inc s' = inc s ++ files_of evs.
Proof.
  induction evs as [|e r IH]; intros s s' H; simpl in H.
  - inversion H; subst. rewrite app_nil_r. reflexivity.
  - destruct (step icd s e) as [s1|] eqn:E; [|discriminate].
    rewrite (IH _ _ H), (step_inc _ _ _ _ E). simpl. unfold files_of. rewrite <- List.app_assoc. reflexivity.
Qed.

Section Equiv.
Variable icd : bool.

Definition agrees (p : st -> nat -> res st) (d : walk) :=
  forall s i v evs, d (inc s) i = Some (v, evs) -> p s i = run icd s evs.

Lemma fold_agrees p d : agrees p d -> vis_ok d ->
  forall l s v evs, dfs_list d (inc s) l = Some (v, evs) -> fold_res p s l = run icd s evs.
Proof.
  intros A V. induction l as [|j r IH]; intros s v evs H; simpl in H.
  - inversion H; subst. reflexivity.
  - destruct (d (inc s) j) as [[v1 e1]|] eqn:E1; [|discriminate].
    destruct (dfs_list d v1 r) as [[v2 e2]|] eqn:E2; [|discriminate]. inversion H; subst.
    simpl. rewrite (A _ _ _ _ E1), run_app. destruct (run icd s e1) as [s1|k] eqn:R1; [|reflexivity].
    apply (IH s1 v). rewrite (run_inc _ _ _ _ R1), <- (V _ _ _ _ E1). exact E2.
Qed.

Lemma parse_file_agrees fuel : agrees (parse_file G icd fuel) (dfs fuel).
Proof.
  induction fuel as [|n IH]; intros s i v evs H; simpl in H; [discriminate|].
  simpl. destruct (memn i (inc s)); [inversion H; subst; reflexivity|].
  destruct (nth_error G i) as [f|]; [|inversion H; subst; reflexivity].
  destruct (dfs_list (dfs n) (inc s ++ [i]) (f_imports f)) as [[v1 es]|] eqn:E; [|discriminate].
  inversion H; subst. simpl. destruct (yaml_ok f); [|reflexivity].
  rewrite run_app.
  rewrite (fold_agrees _ _ IH (dfs_vis n) (f_imports f) (with_inc s (inc s ++ [i])) v es E). reflexivity.
Qed.
End Equiv.

(* ---- the fuel suffices: fuel > number of files not yet visited ---------------------------- *)

Definition unvis (vis : list nat) : nat :=
  List.length (filter (fun j => negb (memn j vis)) (seq 0 (List.length G))).

Lemma filter_len_le {A} (f g : A -> bool) l : (forall x, In x l -> f x = true -> g x = true) ->
  (List.length (filter f l) <= List.length (filter g l))%nat.
Proof.
  induction l as [|a r IH]; intros H; simpl; [lia|].
  assert (IH' := IH (fun x Hx => H x (or_intror Hx))).
  destruct (f a) eqn:Fa; [rewrite (H a (or_introl eq_refl) Fa); simpl; lia|destruct (g a); simpl; lia].
Qed.
Lemma filter_len_lt {A} (f g : A -> bool) l x0 : (forall x, In x l -> f x = true -> g x = true) ->
  In x0 l -> f x0 = false -> g x0 = true -> (List.length (filter f l) < List.length (filter g l))%nat.
Proof.
  induction l as [|a r IH]; intros H I F0 G0; simpl; [contradiction|].
  assert (Hr := fun x Hx => H x (or_intror Hx)).
  destruct I as [->|I].
  - rewrite F0, G0. simpl. pose proof (filter_len_le f g r Hr). lia.
  - specialize (IH Hr I F0 G0). destruct (f a) eqn:Fa; [rewrite (H a (or_introl eq_refl) Fa); simpl; lia|destruct (g a); simpl; lia].
Qed.

Lemma unvis_mono vis v : incl vis v -> (unvis v <= unvis vis)%nat.
Proof.
  intros I. apply filter_len_le. intros x _ Hx. rewrite negb_true_iff, memn_false in *.
  intros C. apply Hx, I, C.
Qed.

Lemma unvis_add vis i : (i < List.length G)%nat -> ~ In i vis -> (unvis (vis ++ [i]) < unvis vis)%nat.
Proof.
  intros L N. apply (filter_len_lt _ _ _ i).
  - intros x _ Hx. rewrite negb_true_iff, memn_false in *. intros C. apply Hx, in_or_app. left. exact C.
  - apply in_seq. lia.
  - rewrite negb_false_iff, memn_In. apply in_or_app. right. left. reflexivity.
  - rewrite negb_true_iff, memn_false. exact N.
Qed.

Definition total_on (n : nat) (d : walk) := forall vis i, (unvis vis < n)%nat -> d vis i <> None.

Lemma dfs_list_total n d : total_on n d -> vis_ok d ->
  forall l vis, (unvis vis < n)%nat -> dfs_list d vis l <> None.
Proof.
  intros T V. induction l as [|j r IH]; intros vis U; simpl; [discriminate|].
  destruct (d vis j) as [[v1 e1]|] eqn:E1; [|exfalso; exact (T vis j U E1)].
  assert (U1 : (unvis v1 < n)%nat).
  { rewrite (V _ _ _ _ E1). pose proof (unvis_mono vis (vis ++ files_of e1) (incl_appl _ (incl_refl _))). lia. }
  specialize (IH v1 U1). destruct (dfs_list d v1 r) as [[v2 e2]|]; [discriminate|exact IH].
Qed.

Lemma dfs_total fuel : total_on fuel (dfs fuel).
Proof.
  induction fuel as [|n IH]; intros vis i U; [lia|]. simpl.
  destruct (memn i vis) eqn:M; [discriminate|]. destruct (nth_error G i) as [f|] eqn:Ni; [|discriminate].
  assert (U1 : (unvis (vis ++ [i]) < n)%nat).
  { assert (i < List.length G)%nat by (apply nth_error_Some; congruence).
    apply memn_false in M. pose proof (unvis_add vis i H M). lia. }
  pose proof (dfs_list_total n _ IH (dfs_vis n) (f_imports f) _ U1) as T.
  destruct (dfs_list (dfs n) (vis ++ [i]) (f_imports f)) as [[v es]|]; [discriminate|exact T].
Qed.

Lemma unvis_nil : unvis [] = List.length G.
Proof.
  unfold unvis. rewrite <- (seq_length (List.length G) 0) at 2. f_equal.
  induction (seq 0 (List.length G)) as [|a r IH]; [reflexivity|].
  change (filter (fun j => negb (memn j [])) (a :: r)) with (a :: filter (fun j => negb (memn j [])) r).
  rewrite IH. reflexivity.
Qed.

(* Parser.parse is the run of the handler calls in traversal order *)
Theorem parse_is_run icd roots : parse G icd roots = run icd st0 (trace roots).
Proof.
  unfold parse, trace.
  pose proof (dfs_list_total _ _ (dfs_total (S (List.length G))) (dfs_vis _) roots []) as T.
  rewrite unvis_nil in T. specialize (T (Nat.lt_succ_diag_r _)).
  destruct (dfs_list (dfs (S (List.length G))) [] roots) as [[v evs]|] eqn:E; [|congruence].
  exact (fold_agrees icd _ _ (parse_file_agrees icd _) (dfs_vis _) roots st0 v evs E).
Qed.

(* ---- what the traversal visits -------------------------------------------------------------- *)

Record good (vis : list nat) (from : list nat) (evs : list ev) : Prop := mkGood {
  g_nodup : NoDup (vis ++ files_of evs);
  g_reach : forall j, In j (files_of evs) -> reach from j;
  g_closed : forall j f k, In j (files_of evs) -> nth_error G j = Some f -> In k (f_imports f) ->
             In k (vis ++ files_of evs);
  g_perm : Permutation evs (flat_map fe (files_of evs))
}.

Definition single_ok (d : walk) := forall vis i v evs, d vis i = Some (v, evs) -> NoDup vis ->
  In i (vis ++ files_of evs) /\ good vis [i] evs.

Lemma dfs_list_good d : vis_ok d -> single_ok d ->
  forall l vis v evs, dfs_list d vis l = Some (v, evs) -> NoDup vis ->
  (forall j, In j l -> In j (vis ++ files_of evs)) /\ good vis l evs.
Proof.
  intros V S. induction l as [|j r IH]; intros vis v evs H N; simpl in H.
  - inversion H; subst. split; [intros ? []|]. constructor; simpl; rewrite ?app_nil_r; try (intros; contradiction); auto.
  - destruct (d vis j) as [[v1 e1]|] eqn:E1; [|discriminate].
    destruct (dfs_list d v1 r) as [[v2 e2]|] eqn:E2; [|discriminate]. inversion H; subst. clear H.
    destruct (S _ _ _ _ E1 N) as [I1 G1]. pose proof (V _ _ _ _ E1) as Hv1. subst v1.
    destruct (IH _ _ _ E2 (g_nodup _ _ _ G1)) as [I2 G2].
    rewrite files_of_app. split.
    + intros x [<-|Hx].
      * apply in_assoc1. exact I1.
      * apply in_assoc2. exact (I2 x Hx).
    + constructor; rewrite ?files_of_app.
      * apply nodup_assoc. exact (g_nodup _ _ _ G2).
      * intros x Hx. apply in_app_or in Hx. destruct Hx as [Hx|Hx].
        -- apply (reach_incl [j]); [intros y [<-|[]]; left; reflexivity|exact (g_reach _ _ _ G1 x Hx)].
        -- apply (reach_incl r); [intros y Hy; right; exact Hy|exact (g_reach _ _ _ G2 x Hx)].
      * intros x f k Hx Hf Hk. apply in_app_or in Hx. destruct Hx as [Hx|Hx].
        -- apply in_assoc1. exact (g_closed _ _ _ G1 x f k Hx Hf Hk).
        -- apply in_assoc2. exact (g_closed _ _ _ G2 x f k Hx Hf Hk).
      * rewrite flat_map_app. apply Permutation_app; [exact (g_perm _ _ _ G1)|exact (g_perm _ _ _ G2)].
Qed.

Lemma dfs_good fuel : single_ok (dfs fuel).
Proof.
  induction fuel as [|n IH]; intros vis i v evs H N; simpl in H; [discriminate|].
  destruct (memn i vis) eqn:M.
  { inversion H; subst. apply memn_In in M. simpl. rewrite app_nil_r. split; [exact M|].
    constructor; simpl; rewrite ?app_nil_r; try (intros; contradiction); auto. }
  apply memn_false in M.
  destruct (nth_error G i) as [f|] eqn:Ni.
  2:{ inversion H; subst. simpl. split; [apply in_or_app; right; left; reflexivity|].
      constructor; simpl.
      - apply NoDup_app_iff. split; [exact N|]. split; [constructor; [intros []|constructor]|].
        intros x Hx [<-|[]]. exact (M Hx).
      - intros j [<-|[]]. apply reach_root. left. reflexivity.
      - intros j f k [<-|[]] Hf. congruence.
      - unfold fe. rewrite Ni. simpl. apply Permutation_refl. }
  destruct (dfs_list (dfs n) (vis ++ [i]) (f_imports f)) as [[v1 es]|] eqn:E; [|discriminate].
  inversion H; subst. clear H.
  assert (N1 : NoDup (vis ++ [i])).
  { apply NoDup_app_iff. split; [exact N|]. split; [constructor; [intros []|constructor]|].
    intros x Hx [<-|[]]. exact (M Hx). }
  destruct (dfs_list_good _ (dfs_vis n) IH _ _ _ _ E N1) as [I1 G1].
  assert (F : files_of (EFile i (yaml_ok f) :: es ++ file_events f) = i :: files_of es).
  { simpl. rewrite files_of_app, file_events_no_files, app_nil_r. reflexivity. }
  rewrite F. split; [apply in_or_app; right; left; reflexivity|].
  constructor; rewrite ?F.
  - apply (nodup_assoc vis [i]). exact (g_nodup _ _ _ G1).
  - intros j [<-|Hj]; [apply reach_root; left; reflexivity|].
    apply (reach_trans [i] (f_imports f)); [|exact (g_reach _ _ _ G1 j Hj)].
    intros r Hr. eapply reach_step; [apply reach_root; left; reflexivity|exact Ni|exact Hr].
  - intros j f' k [<-|Hj] Hf Hk.
    + rewrite Ni in Hf. inversion Hf; subst f'. apply (in_assoc2 k vis [i]). exact (I1 k Hk).
    + apply (in_assoc2 k vis [i]). exact (g_closed _ _ _ G1 j f' k Hj Hf Hk).
  - simpl. unfold fe at 1. rewrite Ni. simpl. apply perm_skip.
    eapply Permutation_trans; [apply Permutation_app_comm|].
    apply Permutation_app_head. exact (g_perm _ _ _ G1).
Qed.

(* the traversal enters exactly the files reachable from the roots, each once, and its events
   are those files' own events *)
Theorem trace_spec roots :
  NoDup (files_of (trace roots)) /\
  (forall j, In j (files_of (trace roots)) <-> reach roots j) /\
  Permutation (trace roots) (flat_map fe (files_of (trace roots))).
Proof.
  unfold trace.
  pose proof (dfs_list_total _ _ (dfs_total (S (List.length G))) (dfs_vis _) roots []) as T.
  rewrite unvis_nil in T. specialize (T (Nat.lt_succ_diag_r _)).
  destruct (dfs_list (dfs (S (List.length G))) [] roots) as [[v evs]|] eqn:E; [|congruence].
  destruct (dfs_list_good _ (dfs_vis _) (dfs_good _) _ _ _ _ E (NoDup_nil _)) as [I Gd].
  simpl in I. split; [exact (g_nodup _ _ _ Gd)|]. split; [|exact (g_perm _ _ _ Gd)].
  intros j. split; [exact (g_reach _ _ _ Gd j)|].
  intros R. induction R as [r Hr|j f k _ IH Hf Hk]; [exact (I r Hr)|].
  exact (g_closed _ _ _ Gd j f k IH Hf Hk).
Qed.

End Graph.
