(* C04_tables: the native-type tables of the parser and of every back end, as regenerated into
   Gen/TypeTables.v on every run, agree entry by entry.  Finite, complete sweep by vm_compute,
   lifted to a statement over the table's domain with forallb_forall. *)
From Coq Require Import ZArith List Bool String.
From Defs Require Import Gen.TypeTables Model.Layout Model.Emit.
Import ListNotations.
Open Scope string_scope. Open Scope list_scope. Open Scope Z_scope.

Definition pair_eqb (a b : Z * Z) : bool := (fst a =? fst b) && (snd a =? snd b).
Definition has (t : list (string * (Z * Z))) (k : string) (v : Z * Z) : bool :=
  match tlookup k t with Some x => pair_eqb x v | None => false end.

(* what "agree" means for one entry (key k, size sz, kind kd) of parser.supported_types:
   the struct-format letter has that width and class; get_ctype_cls (keyed by NativeType.name) maps it to a
   ctypes type of that width and class; the Python ctypes table and descriptor table, and the C table, do too;
   MATLAB has the same width (char is stored as int8: class signed); JavaScript has an entry of the same
   char / not-char class (it carries no widths). *)
Definition entry_ok (e : string * (Z * Z)) : bool :=
  let '(k, (sz, kd)) := e in
  has parser_format_widths k (sz, kd)
  && match slookup k parser_type_names with Some nm => has ctype_cls_types nm (sz, kd) | None => false end
  && has py_types k (sz, kd) && has pydesc_types k (sz, kd) && has c_types k (sz, kd)
  && has matlab_types k (sz, if kd =? 3 then 0 else kd)
  && has js_types k (0, if kd =? 3 then 3 else 0).

Lemma tlookup_in k v t : tlookup k t = Some v -> In (k, v) t.
Proof.
  induction t as [|[k' v'] r IH]; simpl; [discriminate|].
  destruct (String.eqb k' k) eqn:E.
  - intros H; inversion H; subst. apply String.eqb_eq in E. subst. left; reflexivity.
  - intros H. right. exact (IH H).
Qed.

Lemma has_true t k v : has t k v = true -> tlookup k t = Some v.
Proof.
  unfold has, pair_eqb. destruct (tlookup k t) as [[a b]|]; [|discriminate].
  destruct v as [c d]. simpl. intros H. apply andb_true_iff in H. destruct H as [H1 H2].
  apply Z.eqb_eq in H1. apply Z.eqb_eq in H2. subst. reflexivity.
Qed.

(* the sweep over the generated table: every name of parser.supported_types *)
Lemma tables_sweep : forallb entry_ok parser_types = true.
Proof. vm_compute. reflexivity. Qed.

(* what the other proofs use: for every native key the parser knows *)
Record key_agrees (k : string) (sz kd : Z) : Prop := {
  ka_fmt : tlookup k parser_format_widths = Some (sz, kd);
  ka_ct : exists nm, slookup k parser_type_names = Some nm /\ tlookup nm ctype_cls_types = Some (sz, kd);
  ka_py : tlookup k py_types = Some (sz, kd);
  ka_pyd : tlookup k pydesc_types = Some (sz, kd);
  ka_c : tlookup k c_types = Some (sz, kd);
  ka_m : tlookup k matlab_types = Some (sz, if kd =? 3 then 0 else kd);
  ka_js : tlookup k js_types = Some (0, if kd =? 3 then 3 else 0) }.

Lemma entry_ok_agrees k sz kd : entry_ok (k, (sz, kd)) = true -> key_agrees k sz kd.
Proof.
  unfold entry_ok. intros H.
  repeat (apply andb_true_iff in H; let H2 := fresh "H" in destruct H as [H H2]).
  destruct (slookup k parser_type_names) as [nm|] eqn:En; [|discriminate].
  constructor; try (apply has_true; assumption).
  exists nm. split; [exact En|apply has_true; assumption].
Qed.

Lemma tables_agree k sz kd : tlookup k parser_types = Some (sz, kd) -> key_agrees k sz kd.
Proof.
  intros H. apply tlookup_in in H.
  apply entry_ok_agrees. exact (proj1 (forallb_forall _ _) tables_sweep _ H).
Qed.

(* sizes of the parser's table (C11_natives_wf restated for lookups) *)
Lemma native_size_ok k sz kd : tlookup k parser_types = Some (sz, kd) -> sz = 1 \/ sz = 2 \/ sz = 4 \/ sz = 8.
Proof.
  intros H. apply tlookup_in in H.
  assert (E : forallb (fun e : string * (Z * Z) => let s := fst (snd e) in (s =? 1) || (s =? 2) || (s =? 4) || (s =? 8)) parser_types = true)
    by (vm_compute; reflexivity).
  pose proof (proj1 (forallb_forall _ _) E _ H) as G. simpl in G.
  repeat (apply orb_true_iff in G; destruct G as [G|G]); apply Z.eqb_eq in G; auto.
Qed.
