(* Model of the definition compiler from the parsed closure to its outputs
   (src/pyrtma/parser.py: parse_file / parse_text / handle_* / add_fields / get_ctype_cls;
    src/pyrtma/compilers/{python,c99,javascript,matlab,yaml}.py).  Executable, proof-free.

   1. closure -> ordered item list (DFS over imports, imports before the file's own sections,
      sections in the fixed order of parse_text)
   2. item list -> parsed state (name resolution of aliases and field types, constant
      expressions, layout through Model/Layout.v, the final ctypes size assert of
      check_alignment with get_ctype_cls's own table)
   3. parsed state -> per back end: ordered definition/use events, JavaScript factories
      evaluated with an allocation counter, field signatures through the back end's own
      generated native-type table
   4. combined YAML = the same items regrouped section by section.

   NOT modelled here (owned by C12/C13): id/host/module range and duplicate-id checks, the
   hashed text (a hash is any function of the source declaration, see [hash_of] users). *)
From Coq Require Import ZArith List Bool String Ascii.
From Defs Require Import Gen.TypeTables Gen.EmitGuards Model.Layout.
Import ListNotations.
Open Scope string_scope.
Open Scope list_scope.
Open Scope Z_scope.

(* ------------------------------------------------------------------ source closure *)
(* constant expressions: integer literals, references, + - *, and TRUE division by a positive integer literal
   (`A / 2`, `(A + B) / 2`, `5 / 2`): Python's `/`, whose result is a float *)
Inductive cexpr := CLit (n : Z) | CRef (c : string) | CAdd (a b : cexpr) | CSub (a b : cexpr) | CMul (a b : cexpr)
                 | CDiv (a : cexpr) (d : positive).
Record fdecl := mkFd { fd_name : string; fd_type : string; fd_len : option cexpr }.
Inductive body := BFields (l : list fdecl) | BReuse (n : string).
Inductive item :=
| IConst (n : string) (e : cexpr)
| IStr (n v : string)
| IAlias (n t : string)
| IHid (n : string) (v : Z)
| IMid (n : string) (v : Z)
| IStruct (n : string) (b : body)
| IMsg (n : string) (id : Z) (b : option body)       (* None: signal *)
| IReserved (ids : list Z).                          (* _RESERVED_: id: [...] (ranges expanded) *)
Record file := mkFile { f_imports : list nat; f_items : list item }.
Definition closure := list file.                     (* root = file 0 *)

(* section rank = position of the section in parse_text *)
Definition rank (i : item) : nat :=
  match i with
  | IConst _ _ => 0 | IStr _ _ => 1 | IAlias _ _ => 2 | IHid _ _ => 3 | IMid _ _ => 4
  | IStruct _ _ => 5 | IMsg _ _ _ => 6 | IReserved _ => 6
  end%nat.
Definition sec (r : nat) (l : list item) : list item := filter (fun i => Nat.eqb (rank i) r) l.
Definition ranks : list nat := [0; 1; 2; 3; 4; 5; 6]%nat.
(* what parse_text does with one file's text: sections in fixed order, YAML order inside *)
Definition by_section (l : list item) : list item := flat_map (fun r => sec r l) ranks.

(* DFS of parse_file: included_files is extended BEFORE the imports are followed; the file's own
   sections come after all of its imports.  st = (visited, order). None = missing file / fuel *)
Fixpoint visit (fuel : nat) (c : closure) (fid : nat) (st : list nat * list nat) : option (list nat * list nat) :=
  match fuel with
  | O => None
  | S k =>
    let '(vis, ord) := st in
    if existsb (Nat.eqb fid) vis then Some st
    else match nth_error c fid with
         | None => None
         | Some f =>
           match fold_left (fun acc i => match acc with Some s => visit k c i s | None => None end)
                           (f_imports f) (Some (fid :: vis, ord)) with
           | Some (vis', ord') => Some (vis', ord' ++ [fid])
           | None => None
           end
         end
  end.
Definition file_order (c : closure) : option (list nat) :=
  match visit (S (List.length c)) c 0%nat ([], []) with Some (_, o) => Some o | None => None end.
Definition closure_items (c : closure) : option (list item) :=
  match file_order c with
  | Some o => Some (flat_map (fun k => match nth_error c k with Some f => by_section (f_items f) | None => [] end) o)
  | None => None
  end.

(* ------------------------------------------------------------------ values of constant expressions
   expand_expression substitutes str(value) for every constant and evals the text: the value is a Python int, or a
   Python float as soon as a true division (or a float constant) takes part - and it STAYS a float when the result
   is a whole number (16 / 2 = 8.0).  A float is modelled by the exact rational it stands for (lowest terms);
   that is the float Python computes whenever every intermediate result is a dyadic rational below 2^53 (divisors
   2, 4, 8, 16, ...: what the correspondence generates); other divisors are exercised on the implementation only. *)
Record rat := mkRat { rnum : Z; rden : positive }.
Definition rnorm (n : Z) (d : positive) : rat :=
  let g := Z.gcd n (Zpos d) in mkRat (n / g) (Z.to_pos (Zpos d / g)).
Inductive cval := VInt (n : Z) | VFlt (q : rat).
Definition to_rat (v : cval) : rat := match v with VInt n => mkRat n 1 | VFlt q => q end.
Definition radd (a b : rat) : rat := rnorm (rnum a * Zpos (rden b) + rnum b * Zpos (rden a)) (rden a * rden b).
Definition rsub (a b : rat) : rat := rnorm (rnum a * Zpos (rden b) - rnum b * Zpos (rden a)) (rden a * rden b).
Definition rmul (a b : rat) : rat := rnorm (rnum a * rnum b) (rden a * rden b).
(* int op int is an int; anything else is a float *)
Definition cbin (zop : Z -> Z -> Z) (rop : rat -> rat -> rat) (a b : cval) : cval :=
  match a, b with VInt x, VInt y => VInt (zop x y) | _, _ => VFlt (rop (to_rat a) (to_rat b)) end.
Definition cdiv (a : cval) (d : positive) : cval := let q := to_rat a in VFlt (rnorm (rnum q) (rden q * d)).
(* int(): truncation toward zero *)
Definition cval_int (v : cval) : Z := match v with VInt n => n | VFlt q => Z.quot (rnum q) (Zpos (rden q)) end.

(* ------------------------------------------------------------------ parsed state *)
Inductive atarget := ANat (key : string) | AStruct (sname : string).
Record palias := mkPA { pa_name : string; pa_target : atarget; pa_size : Z; pa_align : Z }.
Inductive fkind := FNat | FAlias (t : atarget) | FStruct | FMsg.
Record pfield := mkPF { pf_name : string; pf_ty : string; pf_kind : fkind; pf_len : option Z;
                        pf_esize : Z; pf_align : Z; pf_off : Z }.
Record pdef := mkPD { pd_name : string; pd_id : option Z; pd_fields : list pfield; pd_size : Z; pd_align : Z;
                      pd_body : option body }.
Record pstate := mkPS {
  ps_consts : list (string * cval); ps_strs : list (string * string); ps_aliases : list palias;
  ps_hids : list (string * Z); ps_mids : list (string * Z); ps_mts : list (string * Z);
  ps_structs : list pdef; ps_msgs : list pdef }.
Definition ps_empty : pstate := mkPS [] [] [] [] [] [] [] [].

Inductive pres (A : Type) := POk (a : A) | PReject (k : Z) | PCrash (k : Z).
Arguments POk {A} a. Arguments PReject {A} k. Arguments PCrash {A} k.
(* rejections (ParserError subclasses and the two user-facing asserts) *)
Definition RSyntax := 10. Definition RExpand := 11. Definition RAlign := 12. Definition RSize := 13.
Definition RAssert := 14. Definition RFile := 15. Definition RDup := 16.
(* internal errors *)
Definition XKey := 1. Definition XAssert := 3. Definition XLayout := 4.

Fixpoint tlookup (n : string) (t : list (string * (Z * Z))) : option (Z * Z) :=
  match t with [] => None | (k, v) :: r => if String.eqb k n then Some v else tlookup n r end.
Fixpoint slookup (n : string) (t : list (string * string)) : option string :=
  match t with [] => None | (k, v) :: r => if String.eqb k n then Some v else slookup n r end.
Fixpoint zlookup (n : string) (t : list (string * Z)) : option Z :=
  match t with [] => None | (k, v) :: r => if String.eqb k n then Some v else zlookup n r end.
Fixpoint clookup (n : string) (t : list (string * cval)) : option cval :=
  match t with [] => None | (k, v) :: r => if String.eqb k n then Some v else clookup n r end.
Fixpoint find_def (n : string) (l : list pdef) : option pdef :=
  match l with [] => None | d :: r => if String.eqb (pd_name d) n then Some d else find_def n r end.
Fixpoint find_alias (n : string) (l : list palias) : option palias :=
  match l with [] => None | a :: r => if String.eqb (pa_name a) n then Some a else find_alias n r end.

(* expand_expression + eval on the documented arithmetic *)
Fixpoint ceval (cs : list (string * cval)) (e : cexpr) : option cval :=
  match e with
  | CLit n => Some (VInt n)
  | CRef c => clookup c cs
  | CAdd a b => match ceval cs a, ceval cs b with Some x, Some y => Some (cbin Z.add radd x y) | _, _ => None end
  | CSub a b => match ceval cs a, ceval cs b with Some x, Some y => Some (cbin Z.sub rsub x y) | _, _ => None end
  | CMul a b => match ceval cs a, ceval cs b with Some x, Some y => Some (cbin Z.mul rmul x y) | _, _ => None end
  | CDiv a d => match ceval cs a with Some x => Some (cdiv x d) | None => None end
  end.
(* add_fields: the length of a field is int(value of the length expression) (Gen/EmitGuards.v) *)
Definition leval (cs : list (string * cval)) (e : cexpr) : option Z :=
  match ceval cs e with Some v => Some (cval_int v) | None => None end.

(* check_duplicate_name over constants, string_constants, aliases, struct_defs, message_defs *)
Definition type_names (st : pstate) : list string :=
  map pa_name (ps_aliases st) ++ map pd_name (ps_structs st) ++ map pd_name (ps_msgs st).
Definition all_names (st : pstate) : list string :=
  map fst (ps_consts st) ++ map fst (ps_strs st) ++ type_names st.
Definition used (st : pstate) (n : string) : bool := existsb (String.eqb n) (all_names st).

(* handle_alias: native, then struct, then another alias (whose type_name is already a base) *)
Definition resolve_alias (al : list palias) (ss : list pdef) (t : string) : option (atarget * Z * Z) :=
  match tlookup t parser_types with
  | Some (sz, _) => Some (ANat t, sz, sz)
  | None => match find_def t ss with
            | Some s => Some (AStruct t, pd_size s, pd_align s)
            | None => match find_alias t al with
                      | Some a => Some (pa_target a, pa_size a, pa_align a)
                      | None => None
                      end
            end
  end.

Definition is_signal (d : pdef) : bool := match pd_fields d with [] => true | _ => false end.

(* add_fields: native, alias, struct, message *)
Definition resolve_ftype (al : list palias) (ss ms : list pdef) (t : string) : pres (fkind * Z * Z) :=
  match tlookup t parser_types with
  | Some (sz, _) => POk (FNat, sz, sz)
  | None => match find_alias t al with
            | Some a => POk (FAlias (pa_target a), pa_size a, pa_align a)
            | None => match find_def t ss with
                      | Some s => POk (FStruct, pd_size s, pd_align s)
                      | None => match find_def t ms with
                                | Some m => if is_signal m then PReject RAssert else POk (FMsg, pd_size m, pd_align m)
                                | None => PReject RSyntax
                                end
                      end
            end
  end.

Definition reserved_field_names : list string :=
  ["type_id"; "type_name"; "type_hash"; "type_source"; "type_def"; "type_size"; "hexdump"]%string.

Definition resolve_field (cs : list (string * cval)) (al : list palias) (ss ms : list pdef) (d : fdecl) : pres pfield :=
  if existsb (String.eqb (fd_name d)) reserved_field_names then PReject RSyntax else
  match resolve_ftype al ss ms (fd_type d) with
  | POk (k, sz, a) =>
    match fd_len d with
    | None => POk (mkPF (fd_name d) (fd_type d) k None sz a (-1))
    | Some e => match leval cs e with
                | Some v => if v <? add_fields_length_min then PReject RSyntax   (* "Array length must be at least 1" *)
                            else POk (mkPF (fd_name d) (fd_type d) k (Some v) sz a (-1))
                | None => PReject RExpand
                end
    end
  | PReject k => PReject k
  | PCrash k => PCrash k
  end.

Fixpoint resolve_fields (cs : list (string * cval)) (al : list palias) (ss ms : list pdef) (l : list fdecl)
  : pres (list pfield) :=
  match l with
  | [] => POk []
  | d :: r => match resolve_field cs al ss ms d with
              | POk p => match resolve_fields cs al ss ms r with
                         | POk ps => POk (p :: ps) | PReject k => PReject k | PCrash k => PCrash k
                         end
              | PReject k => PReject k
              | PCrash k => PCrash k
              end
  end.

(* `fields: OTHER`: message_defs.get(OTHER) or struct_defs.get(OTHER); the Field objects are copied *)
Definition resolve_body (cs : list (string * cval)) (al : list palias) (ss ms : list pdef) (b : body)
  : pres (list pfield) :=
  match b with
  | BFields l => resolve_fields cs al ss ms l
  | BReuse n => match find_def n ms with
                | Some m => POk (pd_fields m)
                | None => match find_def n ss with Some s => POk (pd_fields s) | None => PReject RSyntax end
                end
  end.

(* ------------------------------------------------------------------ layout + final ctypes assert *)
Fixpoint to_lfields (i : Z) (ps : list pfield) : list field :=
  match ps with [] => [] | p :: r => mkField i (pf_esize p) (pf_align p) (pf_len p) (-1) :: to_lfields (i + 1) r end.

Definition zdigit (d : Z) : ascii := ascii_of_N (Z.to_N (48 + d)).
Fixpoint dec_fuel (fuel : nat) (n : Z) (acc : string) : string :=
  match fuel with
  | O => acc
  | S k => let acc' := String (zdigit (n mod 10)) acc in
           if n / 10 =? 0 then acc' else dec_fuel k (n / 10) acc'
  end.
Definition dec (n : Z) : string := dec_fuel 24 n "".
Definition pad_name (k : Z) : string := ("padding_" ++ dec k ++ "_")%string.
Definition dec6 (n : Z) : string :=
  let s := dec n in
  (match (6 - String.length s)%nat with
   | 5%nat => "00000" | 4%nat => "0000" | 3%nat => "000" | 2%nat => "00" | 1%nat => "0" | _ => "" end ++ s)%string.
Definition reserved_name (id : Z) : string := ("_RESERVED_" ++ dec6 id)%string.

Definition set_poff (p : pfield) (o : Z) : pfield :=
  mkPF (pf_name p) (pf_ty p) (pf_kind p) (pf_len p) (pf_esize p) (pf_align p) o.

(* read the padded Layout field list back into parser Fields (padding_k_ : char[..]); the user fields keep
   their order, so they are taken from the declaration list one by one *)
Fixpoint rebuild (orig : list pfield) (out : list field) (npad : Z) : list pfield :=
  match out with
  | [] => []
  | f :: r =>
    if is_pad f then mkPF (pad_name npad) "char" FNat (f_len f) 1 1 (f_off f) :: rebuild orig r (npad + 1)
    else match orig with
         | p :: orig' => set_poff p (f_off f) :: rebuild orig' r npad
         | [] => []
         end
  end.

(* get_ctype_cls: type_map[field.type_obj.name] with ITS OWN table, keyed by NativeType.name *)
Definition ctype_of_native (key : string) : option (Z * Z) :=
  match slookup key parser_type_names with Some nm => tlookup nm ctype_cls_types | None => None end.

(* one ctypes member per field (an alias of a struct, a struct, a message: the nested ctypes class, whose
   size and alignment are the recorded ones - it passed this same check when it was defined) *)
Fixpoint ct_fields (i : Z) (ps : list pfield) : pres (list field) :=
  match ps with
  | [] => POk []
  | p :: r =>
    let m : option (Z * Z) :=
      match pf_kind p with
      | FNat => match ctype_of_native (pf_ty p) with Some (w, _) => Some (w, w) | None => None end
      | FAlias (ANat k) => match ctype_of_native k with Some (w, _) => Some (w, w) | None => None end
      | FAlias (AStruct _) | FStruct | FMsg => Some (pf_esize p, pf_align p)
      end in
    match m with
    | None => PCrash XKey
    | Some (w, a) =>
      match ct_fields (i + 1) r with
      | POk cts => POk (mkField i w a (pf_len p) (-1) :: cts)
      | PReject k => PReject k
      | PCrash k => PCrash k
      end
    end
  end.

(* validate_msg_def (validate_alignment on) *)
Definition finish_def (ap : bool) (ps : list pfield) : pres (list pfield * Z * Z) :=
  match ps with
  | [] => PReject RAssert
  | _ =>
    match check_alignment ap (to_lfields 0 ps) with
    | Raise EAlignment => PReject RAlign
    | Raise _ => PCrash XLayout
    | Ok (fs', a) =>
      let ps' := rebuild ps fs' 0 in
      match ct_fields 0 ps' with
      | PCrash k => PCrash k
      | PReject k => PReject k
      | POk cts =>
        if total_size fs' =? c_sizeof cts then
          (if max_msg_size <? total_size fs' then PReject RSize else POk (ps', total_size fs', a))
        else PCrash XAssert
      end
    end
  end.

(* ------------------------------------------------------------------ one item *)
Inductive delta :=
| DConst (c : string * cval) | DStr (s : string * string) | DAlias (a : palias) | DHid (h : string * Z)
| DMid (m : string * Z) | DStruct (d : pdef) | DMsg (ids : list (string * Z)) (ds : list pdef).

Definition apply_delta (st : pstate) (d : delta) : pstate :=
  match d with
  | DConst c => mkPS (ps_consts st ++ [c]) (ps_strs st) (ps_aliases st) (ps_hids st) (ps_mids st) (ps_mts st) (ps_structs st) (ps_msgs st)
  | DStr s => mkPS (ps_consts st) (ps_strs st ++ [s]) (ps_aliases st) (ps_hids st) (ps_mids st) (ps_mts st) (ps_structs st) (ps_msgs st)
  | DAlias a => mkPS (ps_consts st) (ps_strs st) (ps_aliases st ++ [a]) (ps_hids st) (ps_mids st) (ps_mts st) (ps_structs st) (ps_msgs st)
  | DHid h => mkPS (ps_consts st) (ps_strs st) (ps_aliases st) (ps_hids st ++ [h]) (ps_mids st) (ps_mts st) (ps_structs st) (ps_msgs st)
  | DMid m => mkPS (ps_consts st) (ps_strs st) (ps_aliases st) (ps_hids st) (ps_mids st ++ [m]) (ps_mts st) (ps_structs st) (ps_msgs st)
  | DStruct d => mkPS (ps_consts st) (ps_strs st) (ps_aliases st) (ps_hids st) (ps_mids st) (ps_mts st) (ps_structs st ++ [d]) (ps_msgs st)
  | DMsg ids ds => mkPS (ps_consts st) (ps_strs st) (ps_aliases st) (ps_hids st) (ps_mids st) (ps_mts st ++ ids) (ps_structs st) (ps_msgs st ++ ds)
  end.

(* the name an item submits to check_duplicate_name (None: no check) *)
Definition item_name (i : item) : option string :=
  match i with
  | IConst n _ | IStr n _ | IAlias n _ | IStruct n _ | IMsg n _ _ => Some n
  | IHid _ _ | IMid _ _ | IReserved _ => None
  end.

(* add_fields + validate_msg_def on the current registries *)
Definition define (ap : bool) (st : pstate) (b : body) : pres (list pfield * Z * Z) :=
  match resolve_body (ps_consts st) (ps_aliases st) (ps_structs st) (ps_msgs st) b with
  | POk ps => finish_def ap ps
  | PReject k => PReject k
  | PCrash k => PCrash k
  end.

Definition contrib (ap : bool) (st : pstate) (i : item) : pres delta :=
  match i with
  | IConst n e => match ceval (ps_consts st) e with Some v => POk (DConst (n, v)) | None => PReject RExpand end
  | IStr n v => POk (DStr (n, v))
  | IAlias n t => match resolve_alias (ps_aliases st) (ps_structs st) t with
                  | Some (tg, sz, a) => POk (DAlias (mkPA n tg sz a))
                  | None => PReject RSyntax
                  end
  | IHid n v => POk (DHid (n, v))
  | IMid n v => POk (DMid (n, v))
  | IStruct n b =>
    match define ap st b with
    | POk (ps', sz, a) => POk (DStruct (mkPD n None ps' sz a (Some b)))
    | PReject k => PReject k | PCrash k => PCrash k
    end
  | IMsg n id None => POk (DMsg [(n, id)] [mkPD n (Some id) [] 0 8 None])
  | IMsg n id (Some b) =>
    match define ap st b with
    | POk (ps', sz, a) => POk (DMsg [(n, id)] [mkPD n (Some id) ps' sz a (Some b)])
    | PReject k => PReject k | PCrash k => PCrash k
    end
  | IReserved ids => POk (DMsg (map (fun id => (reserved_name id, id)) ids)
                               (map (fun id => mkPD (reserved_name id) (Some id) [] 0 8 None) ids))
  end.

Definition step (ap : bool) (st : pstate) (i : item) : pres pstate :=
  if (match item_name i with Some n => used st n | None => false end) then PReject RDup
  else match contrib ap st i with
       | POk d => POk (apply_delta st d)
       | PReject k => PReject k
       | PCrash k => PCrash k
       end.

Fixpoint run (ap : bool) (l : list item) (st : pstate) : pres pstate :=
  match l with
  | [] => POk st
  | i :: r => match step ap st i with POk st' => run ap r st' | PReject k => PReject k | PCrash k => PCrash k end
  end.

Definition parse_items (ap : bool) (l : list item) : pres pstate := run ap l ps_empty.
(* a file without any section (no imports, no items: an empty YAML document, or comments only): yaml.load returns
   None, which parse_text / parse_options_text read as an empty mapping (since bebb1a6) - the file defines nothing,
   exactly what closure_items gives for it *)
Definition empty_file (f : file) : bool :=
  match f_imports f, f_items f with [], [] => true | _, _ => false end.
Definition parse_closure (ap : bool) (c : closure) : pres pstate :=
  match closure_items c with Some l => parse_items ap l | None => PReject RFile end.

(* ------------------------------------------------------------------ combined YAML *)
(* yaml_dict[section].update(data[section]) per file in DFS completion order, dumped as ONE file that
   parse_text re-reads section by section.  The only key that can repeat across files is _RESERVED_
   (every other duplicate name is a DuplicateNameError): dict.update keeps the position of the first
   occurrence; parse_text (since bcffd4b) stores under that key the id list of the block already there
   followed by the id list of the file just read, i.e. the concatenation of all blocks in parse order. *)
Definition is_reserved (i : item) : bool := match i with IReserved _ => true | _ => false end.
Definition reserved_ids_of (i : item) : list Z := match i with IReserved ids => ids | _ => [] end.
Definition all_reserved (l : list item) : list Z := flat_map reserved_ids_of l.
(* allr = every reserved id of the closure; the one surviving block sits where the first block was *)
Fixpoint merge_reserved (l : list item) (allr : list Z) (seen : bool) : list item :=
  match l with
  | [] => []
  | i :: r => if is_reserved i then
                (if seen then merge_reserved r allr true else IReserved allr :: merge_reserved r allr true)
              else i :: merge_reserved r allr seen
  end.
Definition combined_items (l : list item) : list item :=
  by_section (merge_reserved l (all_reserved l) false).
Definition reparse_combined (ap : bool) (l : list item) : pres pstate := parse_items ap (combined_items l).

(* ------------------------------------------------------------------ emission: events *)
Inductive ns := NAlias | NStruct | NMsg | NCont.
Inductive event := Def (s : ns) (n : string) | Use (s : ns) (n : string).

Definition ns_eqb (a b : ns) : bool :=
  match a, b with NAlias, NAlias | NStruct, NStruct | NMsg, NMsg | NCont, NCont => true | _, _ => false end.
Definition mem_id (s : ns) (n : string) (l : list (ns * string)) : bool :=
  existsb (fun x => ns_eqb (fst x) s && String.eqb (snd x) n) l.
(* "loads": every use is preceded by its definition *)
Fixpoint scoped (defined : list (ns * string)) (evs : list event) : bool :=
  match evs with
  | [] => true
  | Def s n :: r => scoped ((s, n) :: defined) r
  | Use s n :: r => mem_id s n defined && scoped defined r
  end.

(* python.py: get_descriptor resolves an alias field down to its base type *)
Definition py_field_uses (p : pfield) : list event :=
  match pf_kind p with
  | FNat | FAlias (ANat _) => []
  | FAlias (AStruct s) => [Use NStruct s]
  | FStruct => [Use NStruct (pf_ty p)]
  | FMsg => [Use NMsg (pf_ty p)]
  end.
(* c99.py / matlab.py / javascript.py print the field's own type name *)
Definition c_field_uses (p : pfield) : list event :=
  match pf_kind p with
  | FNat => []
  | FAlias _ => [Use NAlias (pf_ty p)]
  | FStruct => [Use NStruct (pf_ty p)]
  | FMsg => [Use NMsg (pf_ty p)]
  end.
Definition alias_events (a : palias) : list event :=
  match pa_target a with
  | ANat _ => [Def NAlias (pa_name a)]
  | AStruct s => [Use NStruct s; Def NAlias (pa_name a)]
  end.
(* class body / struct body first, then the name is bound *)
Definition def_events_after (uses : pfield -> list event) (s : ns) (d : pdef) : list event :=
  flat_map uses (pd_fields d) ++ [Def s (pd_name d)].
(* matlab: RTMA.x.NAME = struct(); first, then the field assignments *)
Definition def_events_before (uses : pfield -> list event) (s : ns) (d : pdef) : list event :=
  Def s (pd_name d) :: flat_map uses (pd_fields d).

Definition events_py (st : pstate) : list event :=
  flat_map alias_events (ps_aliases st)
  ++ flat_map (def_events_after py_field_uses NStruct) (ps_structs st)
  ++ flat_map (def_events_after py_field_uses NMsg) (ps_msgs st).
(* signals are only a comment in the C header *)
Definition events_c (st : pstate) : list event :=
  flat_map alias_events (ps_aliases st)
  ++ flat_map (def_events_after c_field_uses NStruct) (ps_structs st)
  ++ flat_map (fun d => if is_signal d then [] else def_events_after c_field_uses NMsg d) (ps_msgs st).
(* generate_message_header (since 3dda184): `RTMA.MESSAGE_HEADER = RTMA.typedefs.RTMA_MSG_HEADER;` is written only
   when a struct or an alias of that name is among the emitted typedefs (core definitions imported, or a user
   typedef); otherwise RTMA.MESSAGE_HEADER keeps the [] it was initialised with *)
Definition has_msg_header (st : pstate) : bool := existsb (fun d => String.eqb (pd_name d) "RTMA_MSG_HEADER") (ps_structs st).
Definition has_header_alias (st : pstate) : bool := existsb (fun a => String.eqb (pa_name a) "RTMA_MSG_HEADER") (ps_aliases st).
Definition matlab_header_events (st : pstate) : list event :=
  if has_msg_header st then [Use NStruct "RTMA_MSG_HEADER"]
  else if has_header_alias st then [Use NAlias "RTMA_MSG_HEADER"] else [].
Definition events_matlab (st : pstate) : list event :=
  flat_map alias_events (ps_aliases st)
  ++ flat_map (def_events_before c_field_uses NStruct) (ps_structs st)
  ++ flat_map (def_events_before c_field_uses NMsg) (ps_msgs st)
  ++ matlab_header_events st.
(* javascript module load: only the alias statements read anything; RTMA.SDF = {} comes later *)
Definition js_alias_events (a : palias) : list event :=
  match pa_target a with
  | ANat _ => [Def NAlias (pa_name a)]
  | AStruct s => [Use NCont "SDF"; Def NStruct (pa_name a)]
  end.
Definition events_js_load (st : pstate) : list event :=
  [Def NCont "aliases"] ++ flat_map js_alias_events (ps_aliases st)
  ++ [Def NCont "HID"; Def NCont "MID"; Def NCont "MT"; Def NCont "SDF"]
  ++ map (fun d => Def NStruct (pd_name d)) (ps_structs st)
  ++ [Def NCont "MDF"] ++ map (fun d => Def NMsg (pd_name d)) (ps_msgs st) ++ [Def NCont "HASH"].

(* ------------------------------------------------------------------ emission: JavaScript factories *)
Inductive jcallee := JTypeMap (key : string) | JAliasV (n : string) | JSdf (n : string) | JMdf (n : string).
Inductive jform := JScalar (c : jcallee) | JFill (n : Z) (c : jcallee) | JString (n : Z).
Definition js_callee (p : pfield) : jcallee :=
  match pf_kind p with
  | FNat => JTypeMap (pf_ty p) | FAlias _ => JAliasV (pf_ty p) | FStruct => JSdf (pf_ty p) | FMsg => JMdf (pf_ty p)
  end.
Definition js_form (p : pfield) : jform :=
  match pf_len p with
  | None => JScalar (js_callee p)
  | Some n => if String.eqb (pf_ty p) "char" && (1 <? n) then JString n else JFill n (js_callee p)
  end.

(* values with object identity: every object/array literal gets the next allocation number;
   Array.from({length: n}, () => f()) evaluates f once per element *)
Inductive jsval := JPrim (isstr : bool) | JObj (id : Z) (fs : list (string * jsval)) | JArr (id : Z) (es : list jsval).
Inductive jres (A : Type) := JOk (a : A) | JErr.
Arguments JOk {A} a. Arguments JErr {A}.

(* n evaluations of one callee, left to right *)
Fixpoint js_rep (call : Z -> jres (jsval * Z)) (n : nat) (cnt : Z) : jres (list jsval * Z) :=
  match n with
  | O => JOk ([], cnt)
  | S k => match call cnt with
           | JOk (v, c1) => match js_rep call k c1 with JOk (vs, c2) => JOk (v :: vs, c2) | JErr => JErr end
           | JErr => JErr
           end
  end.

(* the fields of one object literal, evaluated left to right; [call] evaluates a callee *)
Fixpoint js_fields (call : jcallee -> Z -> jres (jsval * Z)) (ps : list pfield) (cnt : Z)
  : jres (list (string * jsval) * Z) :=
  match ps with
  | [] => JOk ([], cnt)
  | p :: r =>
    let v := match js_form p with
             | JScalar c' => call c' cnt
             | JString _ => JOk (JPrim true, cnt)
             | JFill n c' => match js_rep (call c') (Z.to_nat n) cnt with
                             | JOk (vs, cnt') => JOk (JArr cnt' vs, cnt' + 1)
                             | JErr => JErr
                             end
             end in
    match v with
    | JOk (v, cnt') => match js_fields call r cnt' with JOk (fs, c2) => JOk ((pf_name p, v) :: fs, c2) | JErr => JErr end
    | JErr => JErr
    end
  end.

Definition js_prim (key : string) : jres jsval :=
  match tlookup key js_types with Some (_, k) => JOk (JPrim (k =? 3)) | None => JErr end.

Fixpoint js_call (st : pstate) (fuel : nat) (c : jcallee) (cnt : Z) : jres (jsval * Z) :=
  match fuel with
  | O => JErr
  | S k =>
    match c with
    | JTypeMap key => match js_prim key with JOk v => JOk (v, cnt) | JErr => JErr end
    | JAliasV n =>                      (* RTMA.aliases.N = type_map.<native>  (a function) *)
      match find_alias n (ps_aliases st) with
      | Some a => match pa_target a with
                  | ANat key => match js_prim key with JOk v => JOk (v, cnt) | JErr => JErr end
                  | AStruct _ => JErr   (* emitted as RTMA.SDF.N = RTMA.SDF.S: RTMA.aliases.N is undefined *)
                  end
      | None => JErr
      end
    | JSdf n => match find_def n (ps_structs st) with
                | Some d => match js_fields (js_call st k) (pd_fields d) (cnt + 1) with
                            | JOk (fs, c2) => JOk (JObj cnt fs, c2) | JErr => JErr end
                | None => JErr
                end
    | JMdf n => match find_def n (ps_msgs st) with
                | Some d => match js_fields (js_call st k) (pd_fields d) (cnt + 1) with
                            | JOk (fs, c2) => JOk (JObj cnt fs, c2) | JErr => JErr end
                | None => JErr
                end
    end
  end.

Fixpoint obj_ids (v : jsval) : list Z :=
  match v with
  | JPrim _ => []
  | JObj id fs => id :: flat_map (fun x => obj_ids (snd x)) fs
  | JArr id es => id :: flat_map obj_ids es
  end.
Fixpoint nodupb (l : list Z) : bool :=
  match l with [] => true | x :: r => negb (existsb (Z.eqb x) r) && nodupb r end.
Definition js_fresh (v : jsval) : bool := nodupb (obj_ids v).
Definition js_fuel (st : pstate) : nat := S (S (List.length (ps_structs st) + List.length (ps_msgs st))).
(* (call succeeded, result has no shared object) for one factory *)
Definition js_factory (st : pstate) (c : jcallee) : bool * bool :=
  match js_call st (js_fuel st) c 0 with JOk (v, _) => (true, js_fresh v) | JErr => (false, false) end.

(* ------------------------------------------------------------------ emission: signatures *)
Inductive eclass := ECNat (w k : Z) | ECRef (ismsg : bool) (n : string) | ECUnknown.
Definition sfield : Type := string * eclass * Z.

Definition base_key (p : pfield) : option string :=
  match pf_kind p with FNat => Some (pf_ty p) | FAlias (ANat k) => Some k | _ => None end.
Definition ref_class (p : pfield) : eclass :=
  match pf_kind p with
  | FAlias (AStruct s) => ECRef false s
  | FStruct => ECRef false (pf_ty p)
  | FMsg => ECRef true (pf_ty p)
  | _ => ECUnknown
  end.
Definition class_via (tbl : list (string * (Z * Z))) (p : pfield) : eclass :=
  match base_key p with
  | Some k => match tlookup k tbl with Some (w, kd) => ECNat w kd | None => ECUnknown end
  | None => ref_class p
  end.
Definition count_c (p : pfield) : Z := match pf_len p with None => 1 | Some n => n end.
(* python.py: `field.length or 0`; natives: flen <= 1 is a scalar; structs: flen == 0 is a scalar *)
Definition count_py (p : pfield) : Z :=
  match pf_len p with
  | None => 1
  | Some n => match base_key p with
              | Some _ => if n <=? 1 then 1 else n
              | None => if n =? 0 then 1 else n
              end
  end.
Definition sig_field (tbl : list (string * (Z * Z))) (cnt : pfield -> Z) (p : pfield) : sfield :=
  (pf_name p, class_via tbl p, cnt p).
Definition sig_def (tbl : list (string * (Z * Z))) (cnt : pfield -> Z) (d : pdef) : string * option Z * list sfield :=
  (pd_name d, pd_id d, map (sig_field tbl cnt) (pd_fields d)).
Definition sig_defs tbl cnt (st : pstate) := map (sig_def tbl cnt) (ps_structs st ++ ps_msgs st).

(* the parser's own view: Field.size = type size * (length or 1) *)
Definition count_model (p : pfield) : Z := len_or_1 (pf_len p).
Definition sig_model (st : pstate) := sig_defs parser_types count_model st.
Definition sig_py (st : pstate) := sig_defs pydesc_types count_py st.
Definition sig_c (st : pstate) := sig_defs c_types count_c st.
Definition sig_matlab (st : pstate) := sig_defs matlab_types count_c st.
Definition sig_js (st : pstate) := sig_defs js_types count_c st.
(* JavaScript carries no widths: only char / not char; MATLAB stores char as int8 *)
Definition erase_js (c : eclass) : eclass := match c with ECNat _ k => ECNat 0 (if k =? 3 then 3 else 0) | x => x end.
Definition norm_matlab (c : eclass) : eclass := match c with ECNat w k => ECNat w (if k =? 3 then 0 else k) | x => x end.
Definition map_class (f : eclass -> eclass) (s : list (string * option Z * list sfield)) :=
  map (fun d => (fst d, map (fun x => (fst (fst x), f (snd (fst x)), snd x)) (snd d))) s.

(* hash literal forms: python 0xUPPER, C 0xlower, javascript / matlab "lower" *)
Definition hexdigit (upper : bool) (d : Z) : ascii :=
  if d <? 10 then zdigit d else ascii_of_N (Z.to_N ((if upper then 55 else 87) + d)).
Fixpoint hexstr (upper : bool) (ds : list Z) : string :=
  match ds with [] => EmptyString | d :: r => String (hexdigit upper d) (hexstr upper r) end.
Definition hexdigit_val (c : ascii) : Z :=
  let n := Z.of_N (N_of_ascii c) in
  if (48 <=? n) && (n <=? 57) then n - 48
  else if (65 <=? n) && (n <=? 70) then n - 55
  else if (97 <=? n) && (n <=? 102) then n - 87 else 0.
Fixpoint hexval_acc (s : string) (acc : Z) : Z :=
  match s with EmptyString => acc | String c r => hexval_acc r (16 * acc + hexdigit_val c) end.
Definition hexval (s : string) : Z := hexval_acc s 0.

(* ------------------------------------------------------------------ observation for the correspondence *)
Definition code_of {A} (r : pres A) : Z :=
  match r with POk _ => 0 | PReject k => k | PCrash k => k end.
Definition olen (l : option Z) : Z := match l with Some n => n | None => -1 end.
Definition kind_code (k : fkind) : Z :=
  match k with FNat => 0 | FAlias (ANat _) => 1 | FAlias (AStruct _) => 2 | FStruct => 3 | FMsg => 4 end.
Definition flat_field (p : pfield) : list Z := [olen (pf_len p); pf_esize p; pf_align p; pf_off p; kind_code (pf_kind p)].
Definition flat_def (d : pdef) : list Z :=
  [match pd_id d with Some i => i | None => -1 end; pd_size d; pd_align d; Z.of_nat (List.length (pd_fields d))]
  ++ flat_map flat_field (pd_fields d).
(* a constant: (0, n, 1) for an int, (1, numerator, denominator) for a float *)
Definition cval_flat (v : cval) : list Z :=
  match v with VInt n => [0; n; 1] | VFlt q => [1; rnum q; Zpos (rden q)] end.
Definition flat_state (st : pstate) : list Z :=
  flat_map (fun c => cval_flat (snd c)) (ps_consts st) ++ [-7] ++ flat_map (fun a => [pa_size a; pa_align a; match pa_target a with ANat _ => 0 | AStruct _ => 1 end]) (ps_aliases st)
  ++ [-7] ++ map snd (ps_hids st) ++ [-7] ++ map snd (ps_mids st) ++ [-7] ++ map snd (ps_mts st)
  ++ [-7] ++ flat_map flat_def (ps_structs st) ++ [-7] ++ flat_map flat_def (ps_msgs st).
Definition names_field (p : pfield) : list string := [pf_name p; pf_ty p].
Definition names_def (d : pdef) : list string := pd_name d :: flat_map names_field (pd_fields d).
Definition names_state (st : pstate) : list string :=
  map fst (ps_consts st) ++ flat_map (fun x => [fst x; snd x]) (ps_strs st)
  ++ flat_map (fun a => [pa_name a; match pa_target a with ANat k => k | AStruct s => s end]) (ps_aliases st)
  ++ map fst (ps_hids st) ++ map fst (ps_mids st) ++ map fst (ps_mts st)
  ++ flat_map names_def (ps_structs st) ++ flat_map names_def (ps_msgs st).

Definition ns_code (s : ns) : Z := match s with NAlias => 0 | NStruct => 1 | NMsg => 2 | NCont => 3 end.
Definition flat_event (e : event) : Z * Z * string :=
  match e with Def s n => (0, ns_code s, n) | Use s n => (1, ns_code s, n) end.

Definition b2z (b : bool) : Z := if b then 1 else 0.
Definition js_import_ok (st : pstate) : bool := scoped [] (events_js_load st).
Definition verdicts (st : pstate) : list Z :=
  [b2z (scoped [] (events_py st)); b2z (scoped [] (events_c st)); b2z (scoped [] (events_matlab st)); b2z (js_import_ok st)]
  ++ flat_map (fun d => let '(ok, fr) := js_factory st (JSdf (pd_name d)) in [b2z ok; b2z fr]) (ps_structs st)
  ++ flat_map (fun d => let '(ok, fr) := js_factory st (JMdf (pd_name d)) in [b2z ok; b2z fr]) (ps_msgs st).

Definition class_code (c : eclass) : list Z :=
  match c with ECNat w k => [w; k] | ECRef false _ => [-1; -1] | ECRef true _ => [-1; -2] | ECUnknown => [-9; -9] end.
Definition flat_sig (s : list (string * option Z * list sfield)) : list Z :=
  flat_map (fun d => flat_map (fun x => class_code (snd (fst x)) ++ [snd x]) (snd d) ++ [-7]) s.

(* ------------------------------------------------------------------ layouts as each language sees them *)
(* the struct a C compiler / ctypes lays out from the emitted text: member width through the back end's table
   (nested structs: their recorded size and alignment), member count as printed *)
Definition lay (tbl : list (string * (Z * Z))) (cnt : pfield -> Z) (d : pdef) : list field :=
  map (fun p =>
         let w := match base_key p with
                  | Some k => match tlookup k tbl with Some (w, _) => w | None => 0 end
                  | None => pf_esize p
                  end in
         let a := match base_key p with Some _ => w | None => pf_align p end in
         let n := cnt p in
         (* a member printed `T x[0]` occupies no bytes (GNU C zero-length array) but keeps T's alignment *)
         mkField 0 (if n =? 0 then 0 else w) a (if (n =? 1) || (n =? 0) then None else Some n) (-1)) (pd_fields d).
Definition lay_c (d : pdef) : list field := lay c_types count_c d.
Definition lay_py (d : pdef) : list field := lay py_types count_py d.
(* what the parser recorded *)
Definition lay_model (d : pdef) : list field :=
  map (fun p => mkField 0 (pf_esize p) (pf_align p) (pf_len p) (pf_off p)) (pd_fields d).
