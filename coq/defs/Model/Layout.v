(* Model of pyrtma.parser.Parser.check_alignment / validate_msg_def
   (src/pyrtma/parser.py).  Executable, proof-free.

   A field is described by what the layout algorithm looks at:
   element size, alignment, optional array length; plus an id so that the
   identity of user fields can be followed through auto-padding. *)
From Coq Require Import ZArith List Bool.
Import ListNotations.
Open Scope Z_scope.

Inductive err :=
| EAlignment      (* AlignmentError *)
| EMessageSize    (* InvalidMessageSize *)
| EAssert         (* AssertionError: final ctypes size assert / empty field list *)
| ERuntime        (* RuntimeError "Unable to determine alignment" *)
| EFuel.          (* model artefact: trailing-pad search exhausted (never for alignments dividing 8) *)

Inductive result (A : Type) := Ok (a : A) | Raise (e : err).
Arguments Ok {A} a.
Arguments Raise {A} e.

Record field := mkField {
  f_id    : Z;          (* >= 0 : index of the user field; -1 : inserted padding *)
  f_esize : Z;          (* type_obj.size *)
  f_align : Z;          (* Field.alignment *)
  f_len   : option Z;   (* Field.length *)
  f_off   : Z           (* Field.offset, -1 until placed *)
}.

(* Field.size = type_obj.size * (length or 1); python's `or` maps 0 to 1 *)
Definition len_or_1 (l : option Z) : Z :=
  match l with Some n => if n =? 0 then 1 else n | None => 1 end.
Definition fsize (f : field) : Z := f_esize f * len_or_1 (f_len f).

Definition is_pad (f : field) : bool := f_id f <? 0.

Definition set_off (f : field) (o : Z) : field :=
  mkField (f_id f) (f_esize f) (f_align f) (f_len f) o.

(* padding field: type char (size 1, alignment 1) *)
Definition pad_field (len : option Z) (off : Z) : field := mkField (-1) 1 1 len off.

(* first loop of check_alignment *)
Fixpoint place (auto_pad : bool) (fs : list field) (ptr : Z) : result (list field * Z) :=
  match fs with
  | [] => Ok ([], ptr)
  | f :: r =>
    if ptr mod f_align f =? 0 then
      match place auto_pad r (ptr + fsize f) with
      | Ok (r', p') => Ok (set_off f ptr :: r', p')
      | Raise e => Raise e
      end
    else if auto_pad then
      let pl := f_align f - ptr mod f_align f in
      match place auto_pad r (ptr + pl + fsize f) with
      | Ok (r', p') => Ok (pad_field (Some pl) ptr :: set_off f (ptr + pl) :: r', p')
      | Raise e => Raise e
      end
    else Raise EAlignment
  end.

(* any([(pad_len + ptr + f.offset) % f.alignment for f in s.fields]) *)
Definition misaligned_at (fs : list field) (ptr pad : Z) : bool :=
  existsb (fun f => negb ((pad + ptr + f_off f) mod f_align f =? 0)) fs.

Fixpoint find_pad (fuel : nat) (fs : list field) (ptr pad : Z) : option Z :=
  match fuel with
  | O => None
  | S k => if misaligned_at fs ptr pad then find_pad k fs ptr (pad + 1) else Some pad
  end.

Definition max_align (fs : list field) : Z := fold_right (fun f m => Z.max (f_align f) m) 0 fs.

Definition pick_align (ptr strictest : Z) : option Z :=
  if ptr mod 8 =? 0 then Some (Z.min 8 strictest)
  else if ptr mod 4 =? 0 then Some (Z.min 4 strictest)
  else if ptr mod 2 =? 0 then Some (Z.min 2 strictest)
  else if ptr mod 1 =? 0 then Some (Z.min 1 strictest)
  else None.

Definition total_size (fs : list field) : Z := fold_right (fun f s => fsize f + s) 0 fs.

(* -------- specification of the C / ctypes natural layout (System V x86-64) ------ *)
Definition align_up (p a : Z) : Z := ((p + a - 1) / a) * a.

(* returns (offsets, end pointer) *)
Fixpoint c_offsets (fs : list field) (ptr : Z) : list Z * Z :=
  match fs with
  | [] => ([], ptr)
  | f :: r => let o := align_up ptr (f_align f) in
              let '(os, e) := c_offsets r (o + fsize f) in (o :: os, e)
  end.
Definition c_sizeof (fs : list field) : Z :=
  let '(_, e) := c_offsets fs 0 in align_up e (Z.max 1 (max_align fs)).

(* check_alignment; returns the new field list and the struct alignment *)
Definition check_alignment (auto_pad : bool) (fs : list field) : result (list field * Z) :=
  match place auto_pad fs 0 with
  | Raise e => Raise e
  | Ok (fs1, ptr) =>
    match find_pad 9 fs1 ptr 0 with
    | None => Raise EFuel
    | Some pad =>
      let tail : result (list field * Z) :=
        if pad =? 0 then Ok (fs1, ptr)
        else if negb auto_pad then Raise EAlignment
        else let l := if pad =? 1 then None else Some pad in
             Ok (fs1 ++ [pad_field l (-1)], ptr + pad) in
      match tail with
      | Raise e => Raise e
      | Ok (fs2, ptr2) =>
        match pick_align ptr2 (max_align fs2) with
        | None => Raise ERuntime
        | Some a =>
          (* assert s.size == ctypes.sizeof(...) *)
          if total_size fs2 =? c_sizeof fs2 then Ok (fs2, a) else Raise EAssert
        end
      end
    end
  end.

(* validate_msg_def with validate_alignment = true; size limit from Gen *)
Definition validate (limit : Z) (validate_alignment auto_pad : bool) (fs : list field)
  : result (list field * Z) :=
  match fs with
  | [] => Raise EAssert
  | _ =>
    let r := if validate_alignment then check_alignment auto_pad fs else Ok (fs, 8) in
    match r with
    | Raise e => Raise e
    | Ok (fs', a) => if limit <? total_size fs' then Raise EMessageSize else Ok (fs', a)
    end
  end.
