(* The text that handle_message_def / handle_signal / handle_struct hash (`raw`), including
   textwrap.dedent, the digest, and the hash literal each back end prints (C13).
   Executable, proof-free.  Strings are byte strings (UTF-8): every character the builders
   and dedent look at (space, tab, newline, colon) is a single ASCII byte, so building the
   text and encoding it commute. *)
From Coq Require Import ZArith NArith List Bool String Ascii DecimalString.
From Defs Require Import Lib.Sha256.
Import ListNotations.
Open Scope string_scope.
Open Scope list_scope.

(* what a definition consists of, as far as `raw` can see *)
Inductive fspec :=
| FDict (fs : list (string * string))     (* ordered (field name, type text) pairs *)
| FReuse (target : string).                (* fields: OTHER *)
Inductive defn :=
| DSignal (name : string) (id : Z)                     (* fields: null *)
| DMessage (name : string) (id : Z) (f : fspec)
| DStruct (name : string) (f : fspec).

Definition nlc : ascii := ascii_of_nat 10.
Definition nl : string := String nlc EmptyString.
Definition app := String.append.
Infix "+++" := String.append (at level 60, right associativity).

(* str(int) *)
Definition dec (z : Z) : string := NilZero.string_of_int (Z.to_int z).

(* "\n".join(list) *)
Fixpoint join (ls : list string) : string :=
  match ls with
  | [] => EmptyString
  | [l] => l
  | l :: r => l +++ nl +++ join r
  end.
(* "\n".join(str): the characters of the string, newline separated *)
Definition chars (s : string) : list string := map (fun c => String c EmptyString) (list_ascii_of_string s).

Definition field_line (f : string * string) : string := "    " +++ fst f +++ ": " +++ snd f.

(* the f-strings of the three builders, before dedent *)
Definition raw_pre (d : defn) : string :=
  match d with
  | DSignal n i => n +++ ":" +++ nl +++ "  id: " +++ dec i +++ nl +++ "  fields: null"
  | DMessage n i (FDict fs) =>
      n +++ ":" +++ nl +++ "  id: " +++ dec i +++ nl +++ "  fields:" +++ nl +++ join (map field_line fs)
  | DMessage n i (FReuse t) =>
      n +++ ":" +++ nl +++ "  id: " +++ dec i +++ nl +++ "  fields:" +++ nl +++ ("    fields: " +++ t)
  | DStruct n (FDict fs) => n +++ ":" +++ nl +++ "  fields:" +++ nl +++ join (map field_line fs)
  (* handle_struct joins AFTER the if/else: for `fields: OTHER` the string itself is joined,
     character by character *)
  | DStruct n (FReuse t) => n +++ ":" +++ nl +++ "  fields:" +++ nl +++ join (chars ("    fields: " +++ t))
  end.

(* ---- textwrap.dedent (CPython 3.12) ------------------------------------------------------ *)

(* text.split("\n") *)
Fixpoint split_lines (s : string) : list string :=
  match s with
  | EmptyString => [EmptyString]
  | String c r =>
    if Ascii.eqb c nlc then EmptyString :: split_lines r
    else match split_lines r with
         | h :: t => String c h :: t
         | [] => [String c EmptyString]
         end
  end.

Definition is_ws (c : ascii) : bool := Ascii.eqb c " " || Ascii.eqb c (ascii_of_nat 9).
Fixpoint all_ws (s : string) : bool :=
  match s with EmptyString => true | String c r => is_ws c && all_ws r end.
(* _whitespace_only_re.sub('', text): a line of blanks and tabs becomes empty *)
Definition blank_ws (l : string) : string := if all_ws l then EmptyString else l.

Fixpoint leading_ws (s : string) : string :=
  match s with
  | String c r => if is_ws c then String c (leading_ws r) else EmptyString
  | EmptyString => EmptyString
  end.
Fixpoint common_prefix (a b : string) : string :=
  match a, b with
  | String x r, String y s => if Ascii.eqb x y then String x (common_prefix r s) else EmptyString
  | _, _ => EmptyString
  end.
Fixpoint strip_prefix (m l : string) : option string :=
  match m, l with
  | EmptyString, _ => Some l
  | String x r, String y s => if Ascii.eqb x y then strip_prefix r s else None
  | _, _ => None
  end.
Definition nonempty (s : string) : bool := match s with EmptyString => false | _ => true end.

Definition margin_of (ls : list string) : string :=
  match map leading_ws (filter nonempty ls) with
  | [] => EmptyString
  | i :: r => fold_left common_prefix r i
  end.

Definition dedent_lines (ls : list string) : list string :=
  let ls1 := map blank_ws ls in
  let m := margin_of ls1 in
  map (fun l => match strip_prefix m l with Some r => r | None => l end) ls1.

Definition dedent (t : string) : string := join (dedent_lines (split_lines t)).

(* ---- raw, hash, literals ------------------------------------------------------------------- *)

Definition raw (d : defn) : string := dedent (raw_pre d).
Definition digest (d : defn) : h8 := sha256 (bytes_of_string (raw d)).
Definition hash_hex (d : defn) : string := hexdigest (digest d).       (* MDF.hash / SDF.hash *)
Definition hash32 (d : defn) : N := ha (digest d).                     (* first 32 bits of the digest *)

Definition first8 (h : string) : string := substring 0 8 h.            (* hash[:8] *)
Definition upper_char (c : ascii) : ascii :=
  let n := nat_of_ascii c in if ((97 <=? n) && (n <=? 122))%nat then ascii_of_nat (n - 32) else c.
Fixpoint upper (s : string) : string :=
  match s with EmptyString => EmptyString | String c r => String (upper_char c) (upper r) end.

(* what each back end writes after the name *)
Definition py_literal (h : string) : string := "0x" +++ upper (first8 h).      (* type_hash: ClassVar[int] = 0x%s *)
Definition c_literal (h : string) : string := "0x" +++ first8 h.               (* #define HASH_%-48s 0x%s *)
Definition js_literal (h : string) : string := first8 h.                       (* RTMA.HASH.%s = "%s"; *)
Definition matlab_literal (h : string) : string := first8 h.                   (* RTMA.hash.%s = "%s"; *)

(* the number a hexadecimal literal denotes (either case) *)
Definition hexval (c : ascii) : option N :=
  let n := nat_of_ascii c in
  if ((48 <=? n) && (n <=? 57))%nat then Some (N.of_nat (n - 48))
  else if ((97 <=? n) && (n <=? 102))%nat then Some (N.of_nat (n - 87))
  else if ((65 <=? n) && (n <=? 70))%nat then Some (N.of_nat (n - 55))
  else None.
Fixpoint hex_value_acc (acc : N) (s : string) : option N :=
  match s with
  | EmptyString => Some acc
  | String c r => match hexval c with Some v => hex_value_acc (acc * 16 + v)%N r | None => None end
  end.
Definition hex_value (s : string) : option N :=
  match s with EmptyString => None | _ => hex_value_acc 0%N s end.
Definition lit0x_value (s : string) : option N :=
  match s with String "0" (String "x" r) => hex_value r | _ => None end.

(* ---- observable encoding for the correspondence check ---------------------------------------- *)
Definition enc_string (s : string) : list Z := map (fun a => Z.of_nat (nat_of_ascii a)) (list_ascii_of_string s).
