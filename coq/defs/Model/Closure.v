(* Sequential evaluation of a list of struct declarations through the layout
   model, the way Parser.handle_struct -> add_fields -> validate_msg_def sees
   them.  Used by the correspondence check (C11, C04). *)
From Coq Require Import ZArith List Bool String.
From Defs Require Import Gen.TypeTables Model.Layout.
Import ListNotations.
Open Scope Z_scope.

Inductive ftype := TNat (name : string) | TRef (k : nat).
Record fdecl := mkFdecl { fd_ty : ftype; fd_len : option Z }.
Inductive sdecl := SFields (l : list fdecl) | SReuse (k : nat).

Record sinfo := mkSinfo { si_fields : list field; si_size : Z; si_align : Z }.

Fixpoint lookup (n : string) (t : list (string * (Z * Z))) : option (Z * Z) :=
  match t with
  | [] => None
  | (k, v) :: r => if String.eqb k n then Some v else lookup n r
  end.

Definition mk_field (env : list sinfo) (i : Z) (d : fdecl) : option field :=
  match fd_ty d with
  | TNat n => match lookup n parser_types with
              | Some (sz, _) => Some (mkField i sz sz (fd_len d) (-1))
              | None => None
              end
  | TRef k => match nth_error env k with
              | Some s => Some (mkField i (si_size s) (si_align s) (fd_len d) (-1))
              | None => None
              end
  end.

Fixpoint mk_fields (env : list sinfo) (i : Z) (ds : list fdecl) : option (list field) :=
  match ds with
  | [] => Some []
  | d :: r => match mk_field env i d, mk_fields env (i + 1) r with
              | Some f, Some fs => Some (f :: fs)
              | _, _ => None
              end
  end.

Definition err_code (e : err) : Z :=
  match e with EAlignment => 1 | EMessageSize => 2 | EAssert => 3 | ERuntime => 4 | EFuel => 5 end.

Definition enc_len (l : option Z) : Z := match l with Some n => n | None => -1 end.
Definition enc_field (f : field) : list Z :=
  [if is_pad f then 1 else 0; f_esize f; f_align f; enc_len (f_len f); f_off f].

(* output: one flat list; per accepted struct  1 align size nfields fields... ;
   at the first rejection  0 errcode index  and stop (the parser raises). 9 = unknown type/ref *)
Fixpoint run_closure (valign auto_pad : bool) (env : list sinfo) (idx : Z) (ds : list sdecl) : list Z :=
  match ds with
  | [] => []
  | d :: r =>
    let ofs := match d with
               | SFields l => mk_fields env 0 l
               | SReuse k => match nth_error env k with Some s => Some (si_fields s) | None => None end
               end in
    match ofs with
    | None => [0; 9; idx]
    | Some fs =>
      match validate max_msg_size valign auto_pad fs with
      | Raise e => [0; err_code e; idx]
      | Ok (fs', a) =>
        [1; a; total_size fs'; Z.of_nat (List.length fs')] ++ flat_map enc_field fs'
        ++ run_closure valign auto_pad (env ++ [mkSinfo fs' (total_size fs') a]) (idx + 1) r
      end
    end
  end.
