(* Model of pyrtma.parser.Parser.parse / parse_file / parse_text and the handle_*
   functions, restricted to what decides id / name conflicts (C12).
   Executable, proof-free.  Numeric guards come from Gen/Guards.v (regenerated
   from parser.py on every run).

   File identity (pathlib.resolve) is an abstract file index into the closure
   [G : list file]; an import of an index outside G is a missing file.

   Not modelled here (kept out of the inputs by the correspondence generator and
   by the hypotheses of the theorems): field type resolution and layout
   (Model/Layout.v, C11), constant expressions (constants are integer literals),
   YAML typing errors (InvalidTypeError), the key/value separation pre-check.

   A file is processed as a list of *events*: one per handler call, in the order
   parse_text makes them (imports first - they recurse - then constants,
   string_constants, aliases, host_ids, module_ids, struct_defs, message_defs).
   A `_RESERVED_` block is the event of handle_reserve's own checks followed by one
   handle_signal event per expanded id (handle_reserve expands every entry first and
   only then registers). *)
From Coq Require Import ZArith List Bool String Ascii DecimalString.
From Defs Require Import Gen.TypeTables Gen.Guards.
Import ListNotations.
Open Scope string_scope.
Open Scope list_scope.
Open Scope Z_scope.

(* ---- results ------------------------------------------------------------ *)

Inductive kind :=
| KYaml      (* YAMLSyntaxError: ruamel rejects a duplicate key inside one mapping *)
| KName      (* RTMASyntaxError: check_name *)
| KDupName   (* DuplicateNameError: check_duplicate_name *)
| KHostRange (* RTMASyntaxError: host id outside [1,32767] *)
| KHostDup   (* HostIDError *)
| KModRange  (* RTMASyntaxError: module id outside its range *)
| KModDup    (* ModuleIDError *)
| KMsgRange  (* RTMASyntaxError: message id outside [0,MAX_MESSAGE_TYPES] *)
| KMsgDup    (* MessageIDError *)
| KResRange  (* RTMASyntaxError: reserved range start > end or wider than 100 *)
| KResShape  (* RTMASyntaxError: `_RESERVED_` written as an ordinary definition *)
| KAlias     (* RTMASyntaxError: unable to resolve alias *)
| KAliasRec  (* RecursionError (builtin): alias chain limit *)
| KNoFile    (* FileNotFoundError *)
| KFuel.     (* model artefact, excluded by parse_fuel_sufficient *)

(* exception class observed at Parser.parse *)
Definition kind_class (k : kind) : Z :=
  match k with
  | KYaml => 1
  | KName | KHostRange | KModRange | KMsgRange | KResRange | KResShape | KAlias => 2
  | KDupName => 3 | KHostDup => 4 | KModDup => 5 | KMsgDup => 6
  | KAliasRec => 7 | KNoFile => 8 | KFuel => 99
  end.

Inductive res (A : Type) := ROk (a : A) | RErr (k : kind).
Arguments ROk {A} a.
Arguments RErr {A} k.

(* ---- membership (python `==` on str / int) ------------------------------- *)

Fixpoint mems (x : string) (l : list string) : bool :=
  match l with [] => false | y :: r => String.eqb x y || mems x r end.
Fixpoint memz (x : Z) (l : list Z) : bool :=
  match l with [] => false | y :: r => Z.eqb x y || memz x r end.
Fixpoint memn (x : nat) (l : list nat) : bool :=
  match l with [] => false | y :: r => Nat.eqb x y || memn x r end.
Fixpoint nodups (l : list string) : bool :=
  match l with [] => true | x :: r => negb (mems x r) && nodups r end.

(* ---- inputs ---------------------------------------------------------------- *)

Inductive rentry := RInt (n : Z) | RRange (a b : Z).       (* `n`  |  `a-b` / `a to b` *)
Inductive mitem :=
| MDef (name : string) (id : Z) (signal : bool)             (* message with fields, or signal *)
| MReserved (es : list rentry).                             (* the key `_RESERVED_` *)

Record file := mkFile {
  f_core : bool;                         (* Parser.is_core_file: this file IS the package's own core_defs.yaml
                                            (resolved-path identity; a user file of that name has false) *)
  f_imports : list nat;
  f_constants : list (string * Z);
  f_strings : list string;
  f_aliases : list (string * string);    (* alias -> type text *)
  f_hosts : list (string * Z);
  f_modules : list (string * Z);
  f_structs : list string;
  f_messages : list mitem
}.

(* ---- parser state ------------------------------------------------------------ *)

Record st := mkSt {
  inc : list nat;                        (* included_files *)
  consts : list (string * Z);
  strs : list string;
  aliases : list (string * string);      (* alias -> resolved type_name *)
  hosts : list (string * Z);
  mods : list (string * Z);
  structs : list string;
  msgs : list (string * Z)               (* message_defs / message_ids: name -> id *)
}.
Definition st0 : st := mkSt [] [] [] [] [] [] [] [].

(* the five namespaces check_duplicate_name walks for constants, string constants,
   aliases, structs and messages, in its order *)
Definition shared_names (s : st) : list string :=
  map fst (consts s) ++ strs s ++ map fst (aliases s) ++ structs s ++ map fst (msgs s).

(* ---- check_name ---------------------------------------------------------------- *)

Definition is_letter (a : ascii) : bool :=
  let n := nat_of_ascii a in
  ((65 <=? n)%nat && (n <=? 90)%nat) || ((97 <=? n)%nat && (n <=? 122)%nat).
Definition starts_with_letter (n : string) : bool :=
  match n with String a _ => is_letter a | EmptyString => false end.
Definition reserved_key : string := "_RESERVED_".
(* check_name(name): names start with a letter *)
Definition name_ok (n : string) : bool := starts_with_letter n.
(* check_name(name, allow_reserved=True), handle_message_def only: the directive `_RESERVED_` passes too *)
Definition name_ok_msg (n : string) : bool := String.eqb n reserved_key || starts_with_letter n.

(* ---- reserved ranges -------------------------------------------------------------- *)

Fixpoint zrange (a : Z) (n : nat) : list Z :=
  match n with O => [] | S k => a :: zrange (a + 1) k end.
Definition expand_entry (e : rentry) : list Z :=
  match e with RInt n => [n] | RRange a b => zrange a (Z.to_nat (b + 1 - a)) end.
Definition entry_ok (e : rentry) : bool :=
  match e with
  | RInt _ => true
  | RRange a b => negb (reserved_bad_order a b) && negb (reserved_too_wide a b)
  end.

(* f"_RESERVED_{id:06d}" for id >= 0 (a negative id is rejected before the name is used) *)
Definition dec (z : Z) : string := DecimalString.NilZero.string_of_int (Z.to_int z).
Fixpoint zeros (n : nat) : string := match n with O => EmptyString | S k => String "0" (zeros k) end.
Definition pad6 (s : string) : string := String.append (zeros (6 - String.length s)) s.
Definition reserved_name (id : Z) : string := String.append reserved_key (pad6 (dec id)).

(* ---- alias resolution (handle_alias) -------------------------------------------------- *)

Definition native_keys : list string := map fst parser_types.

(* `for a in self.aliases.values(): if ftype == a.name: n += 1; ftype = a.type_name` *)
Fixpoint alias_pass (al : list (string * string)) (ftype : string) (n : nat) : string * nat :=
  match al with
  | [] => (ftype, n)
  | (an, ty) :: r => if String.eqb ftype an then alias_pass r ty (S n) else alias_pass r ftype n
  end.

(* `while n < 10:`; every iteration that does not leave the loop increments n, so 11 units of
   fuel are never exhausted *)
Fixpoint resolve_alias (fuel : nat) (s : st) (ftype prev : string) (n : nat) : res string :=
  match fuel with
  | O => RErr KFuel
  | S fuel' =>
    if (10 <=? n)%nat then RErr KAliasRec
    else if mems ftype native_keys then ROk ftype
    else if mems ftype (structs s) then ROk ftype
    else let '(ft, n') := alias_pass (aliases s) ftype n in
         if String.eqb ft prev then RErr KAlias else resolve_alias fuel' s ft ft n'
  end.

(* ---- events --------------------------------------------------------------------------- *)

Inductive ev :=
| EFile (i : nat) (yaml_ok : bool)   (* parse_file got past the visited test: append, read, yaml.load *)
| ENoFile (i : nat)                  (* ... and the file does not exist *)
| EConst (n : string) (v : Z)        (* handle_expression *)
| EStr (n : string)                  (* handle_string *)
| EAlias (n ty : string)             (* handle_alias *)
| EHost (core : bool) (n : string) (v : Z)   (* handle_host_id *)
| EMod (core : bool) (n : string) (v : Z)    (* handle_module_id *)
| EStruct (n : string)               (* handle_struct *)
| EMsg (n : string) (id : Z)         (* handle_message_def, key other than a well-formed _RESERVED_ block *)
| EResHead (es : list rentry)        (* handle_message_def("_RESERVED_") up to the end of the expansion loop *)
| ESigR (id : Z).                    (* handle_signal(f"_RESERVED_{id:06d}") from handle_reserve *)

Definition with_inc (s : st) (x : list nat) : st :=
  mkSt x (consts s) (strs s) (aliases s) (hosts s) (mods s) (structs s) (msgs s).
Definition with_consts (s : st) (x : list (string * Z)) : st :=
  mkSt (inc s) x (strs s) (aliases s) (hosts s) (mods s) (structs s) (msgs s).
Definition with_strs (s : st) (x : list string) : st :=
  mkSt (inc s) (consts s) x (aliases s) (hosts s) (mods s) (structs s) (msgs s).
Definition with_aliases (s : st) (x : list (string * string)) : st :=
  mkSt (inc s) (consts s) (strs s) x (hosts s) (mods s) (structs s) (msgs s).
Definition with_hosts (s : st) (x : list (string * Z)) : st :=
  mkSt (inc s) (consts s) (strs s) (aliases s) x (mods s) (structs s) (msgs s).
Definition with_mods (s : st) (x : list (string * Z)) : st :=
  mkSt (inc s) (consts s) (strs s) (aliases s) (hosts s) x (structs s) (msgs s).
Definition with_structs (s : st) (x : list string) : st :=
  mkSt (inc s) (consts s) (strs s) (aliases s) (hosts s) (mods s) x (msgs s).
Definition with_msgs (s : st) (x : list (string * Z)) : st :=
  mkSt (inc s) (consts s) (strs s) (aliases s) (hosts s) (mods s) (structs s) x.

(* check_name then check_duplicate_name over the shared namespaces *)
Definition chk_shared (allow_reserved : bool) (s : st) (n : string) : option kind :=
  if negb (if allow_reserved then name_ok_msg n else name_ok n) then Some KName
  else if mems n (shared_names s) then Some KDupName
  else None.

(* validate_msg_id, then message_ids[name] / message_defs[name] *)
Definition reg_msg (s : st) (n : string) (id : Z) : res st :=
  if msg_id_out_of_range id then RErr KMsgRange
  else if memz id (map snd (msgs s)) then RErr KMsgDup
  else ROk (with_msgs s (msgs s ++ [(n, id)])).

Definition step (icd : bool) (s : st) (e : ev) : res st :=
  match e with
  | EFile i yok => if yok then ROk (with_inc s (inc s ++ [i])) else RErr KYaml
  | ENoFile _ => RErr KNoFile
  | EConst n v =>
    match chk_shared false s n with Some k => RErr k | None => ROk (with_consts s (consts s ++ [(n, v)])) end
  | EStr n =>
    match chk_shared false s n with Some k => RErr k | None => ROk (with_strs s (strs s ++ [n])) end
  | EAlias n ty =>
    match chk_shared false s n with
    | Some k => RErr k
    | None => match resolve_alias 11 s ty ty 0 with
              | RErr k => RErr k
              | ROk r => ROk (with_aliases s (aliases s ++ [(n, r)]))
              end
    end
  | EHost core n v =>
    if negb (name_ok n) then RErr KName
    else if mems n (map fst (hosts s)) then RErr KDupName
    else if host_id_out_of_range v && host_id_range_enforced core icd v then RErr KHostRange
    else if memz v (map snd (hosts s)) then RErr KHostDup
    else ROk (with_hosts s (hosts s ++ [(n, v)]))
  | EMod core n v =>
    if negb (name_ok n) then RErr KName
    else if mems n (map fst (mods s)) then RErr KDupName
    else if module_id_out_of_range v && module_id_range_enforced core icd v then RErr KModRange
    else if memz v (map snd (mods s)) then RErr KModDup
    else ROk (with_mods s (mods s ++ [(n, v)]))
  | EStruct n =>
    match chk_shared false s n with Some k => RErr k | None => ROk (with_structs s (structs s ++ [n])) end
  | EMsg n id =>
    match chk_shared true s n with
    | Some k => RErr k
    | None => if String.eqb n reserved_key then RErr KResShape else reg_msg s n id
    end
  | EResHead es =>
    if mems reserved_key (shared_names s) then RErr KDupName
    else if forallb entry_ok es then ROk s else RErr KResRange
  | ESigR id => reg_msg s (reserved_name id) id
  end.

Fixpoint run (icd : bool) (s : st) (evs : list ev) : res st :=
  match evs with
  | [] => ROk s
  | e :: r => match step icd s e with ROk s' => run icd s' r | RErr k => RErr k end
  end.

(* ---- one file -------------------------------------------------------------------------- *)

Definition msg_events (m : mitem) : list ev :=
  match m with
  | MDef n id _ => [EMsg n id]
  | MReserved es => EResHead es :: (if forallb entry_ok es then map ESigR (flat_map expand_entry es) else [])
  end.

(* the handler calls of parse_text after the imports, in its section order *)
Definition file_events (f : file) : list ev :=
  map (fun c => EConst (fst c) (snd c)) (f_constants f)
  ++ map EStr (f_strings f)
  ++ map (fun a => EAlias (fst a) (snd a)) (f_aliases f)
  ++ map (fun h => EHost (f_core f) (fst h) (snd h)) (f_hosts f)
  ++ map (fun m => EMod (f_core f) (fst m) (snd m)) (f_modules f)
  ++ map EStruct (f_structs f)
  ++ flat_map msg_events (f_messages f).

Definition mkey (m : mitem) : string :=
  match m with MDef n _ _ => n | MReserved _ => reserved_key end.

(* ruamel's safe loader refuses a mapping with a repeated key *)
Definition yaml_ok (f : file) : bool :=
  nodups (map fst (f_constants f)) && nodups (f_strings f) && nodups (map fst (f_aliases f))
  && nodups (map fst (f_hosts f)) && nodups (map fst (f_modules f)) && nodups (f_structs f)
  && nodups (map mkey (f_messages f)).

(* ---- the import closure: parse_file / handle_import ---------------------------------------- *)

Fixpoint fold_res {A : Type} (f : st -> A -> res st) (s : st) (l : list A) : res st :=
  match l with
  | [] => ROk s
  | x :: r => match f s x with ROk s' => fold_res f s' r | RErr k => RErr k end
  end.

Fixpoint parse_file (G : list file) (icd : bool) (fuel : nat) (s : st) (i : nat) : res st :=
  match fuel with
  | O => RErr KFuel
  | S n =>
    if memn i (inc s) then ROk s                               (* already parsed: skip *)
    else match nth_error G i with
         | None => run icd s [ENoFile i]
         | Some f =>
           match step icd s (EFile i (yaml_ok f)) with
           | RErr k => RErr k
           | ROk s1 =>
             match fold_res (parse_file G icd n) s1 (f_imports f) with     (* imports section *)
             | RErr k => RErr k
             | ROk s2 => run icd s2 (file_events f)                        (* remaining sections *)
             end
           end
         end
  end.

(* Parser.parse: roots = [core_defs.yaml; root] when import_coredefs, else [root] *)
Definition parse (G : list file) (icd : bool) (roots : list nat) : res st :=
  fold_res (parse_file G icd (S (List.length G))) st0 roots.

(* ---- observable encoding for the correspondence check --------------------------------------- *)

Definition enc_str (s : string) : list Z :=
  Z.of_nat (String.length s) :: map (fun a => Z.of_nat (nat_of_ascii a)) (list_ascii_of_string s).
Definition enc_list {A : Type} (f : A -> list Z) (l : list A) : list Z :=
  Z.of_nat (List.length l) :: flat_map f l.
Definition enc_sz (p : string * Z) : list Z := enc_str (fst p) ++ [snd p].
Definition enc_ss (p : string * string) : list Z := enc_str (fst p) ++ enc_str (snd p).

Definition observe (r : res st) : list Z :=
  match r with
  | RErr k => [0; kind_class k]
  | ROk s => 1 :: enc_list (fun i => [Z.of_nat i]) (inc s) ++ enc_list enc_sz (consts s) ++ enc_list enc_str (strs s)
             ++ enc_list enc_ss (aliases s) ++ enc_list enc_sz (hosts s) ++ enc_list enc_sz (mods s)
             ++ enc_list enc_str (structs s) ++ enc_list enc_sz (msgs s)
  end.
