(* C07, unconditionally: however a client leaves, exactly one CLIENT_CLOSED describing it is published.
   (1) liveness: when remove_module c returns, every healthy subscriber of CLIENT_CLOSED has received exactly one
       whole CLIENT_CLOSED frame describing c as it was - whatever the log level, the other subscribers, the nesting;
   (2) safety over whole histories: no connection is ever written two CLIENT_CLOSED payloads about the same uid.
   A CLIENT_CLOSED payload about uid c is `PClient true c ...`; it is only ever created by remove_module c, after c
   has been closed, once: c was open when the removal started (a registered module that is not in flight is open),
   is in no subscriber list while its notice is out, is unregistered afterwards, and uids are never reused. *)
From Coq Require Import ZArith List Bool Lia ZifyBool.
From Mgr Require Import Gen.MgrDefs Model.Manager Proofs.ListLemmas Proofs.Hoare Proofs.RegInv Proofs.Frame
                        Proofs.RegTraverse Proofs.RegTop Proofs.Connect Proofs.StepInv Proofs.Routing Proofs.OutInv
                        Proofs.C05Inv Proofs.Exact Proofs.ExactTop Proofs.AckExact Proofs.Fuel Proofs.DepartExact
                        Proofs.FailExact Proofs.CtrlExact Proofs.OnlyRecipients Proofs.HealthyServed.
Import ListNotations.
Open Scope Z_scope.

(* ---------- CLIENT_CLOSED payloads and who received them ---------- *)

Definition ccuid (q : payload) : option Z := match q with PClient true uid _ _ _ _ _ => Some uid | _ => None end.
Definition ccp (c : Z) (q : payload) : bool := match ccuid q with Some u => u =? c | None => false end.
Definition is_cc (c : Z) (it : item) : bool := match it with OPay q => ccp c q | OHdr _ => false end.

(* the connections that were written a CLIENT_CLOSED about uid c *)
Definition ccs (c : Z) (o : list (Z * item)) : list Z := map fst (filter (fun ci => is_cc c (snd ci)) o).

Lemma ccs_app c a b : ccs c (a ++ b) = ccs c a ++ ccs c b.
Proof. unfold ccs. rewrite filter_app, map_app. reflexivity. Qed.

Lemma ccs_hdr c x h : ccs c [(x, OHdr h)] = [].
Proof. reflexivity. Qed.

Lemma ccs_frame c x h q : ccs c [(x, OHdr h); (x, OPay q)] = if ccp c q then [x] else [].
Proof. unfold ccs. cbn [filter snd is_cc]. destruct (ccp c q); reflexivity. Qed.

Lemma ccs_count c g o : NoDup (ccs c o) -> (length (filter (is_cc c) (proj g o)) <= 1)%nat.
Proof.
  assert (A : forall o, ~ In g (ccs c o) -> filter (is_cc c) (proj g o) = []).
  { induction o0 as [|[x it] r IH]; intros Hn; [reflexivity|]. cbn [proj].
    assert (Hr : ~ In g (ccs c r)).
    { intros Hin. apply Hn. change ((x, it) :: r) with ([(x, it)] ++ r). rewrite ccs_app. apply in_or_app. right. exact Hin. }
    destruct (x =? g) eqn:E; [|apply IH; exact Hr]. apply Z.eqb_eq in E. subst x. cbn [filter].
    destruct (is_cc c it) eqn:Ei; [|apply IH; exact Hr]. exfalso. apply Hn. unfold ccs. cbn [filter snd]. rewrite Ei. left. reflexivity. }
  induction o as [|[x it] r IH]; intros Hnd; [cbn; lia|].
  change ((x, it) :: r) with ([(x, it)] ++ r) in Hnd. rewrite ccs_app in Hnd.
  assert (Hr : NoDup (ccs c r)).
  { unfold ccs at 1 in Hnd. cbn [filter snd] in Hnd. destruct (is_cc c it); [cbn [map fst app] in Hnd; apply NoDup_cons_iff in Hnd; tauto|exact Hnd]. }
  cbn [proj]. destruct (x =? g) eqn:E; [|apply IH; exact Hr]. apply Z.eqb_eq in E. subst x. cbn [filter].
  destruct (is_cc c it) eqn:Ei; [|apply IH; exact Hr].
  unfold ccs at 1 in Hnd. cbn [filter snd] in Hnd. rewrite Ei in Hnd. cbn [map fst app] in Hnd. apply NoDup_cons_iff in Hnd.
  destruct Hnd as [Hn _]. rewrite (A r Hn). cbn. lia.
Qed.

(* ---------- the invariant, relative to a prefix o0 of the output ---------- *)
Section Rel.
Variable o0 : list (Z * item).

Definition Ex (s : mstate) : Prop := exists suf, out s = o0 ++ suf.
Definition W (s : mstate) : list (Z * item) := skipn (length o0) (out s).

Lemma W_of s suf : out s = o0 ++ suf -> W s = suf.
Proof. intros E. unfold W. rewrite E, skipn_app, skipn_all, Nat.sub_diag. reflexivity. Qed.

Lemma W_step s s' items : Ex s -> out s' = out s ++ items -> Ex s' /\ W s' = W s ++ items.
Proof.
  intros (suf & E) E'. split; [exists (suf ++ items); rewrite E', E, app_assoc; reflexivity|].
  rewrite (W_of s suf E), (W_of s' (suf ++ items)); [reflexivity|]. rewrite E', E, app_assoc. reflexivity.
Qed.

Lemma W_same s s' : out s' = out s -> W s' = W s.
Proof. intros E. unfold W. rewrite E. reflexivity. Qed.

Definition okc (s : mstate) (c : Z) : Prop :=
  NoDup (ccs c (W s)) /\ (ccs c (W s) <> [] -> m_closed (find_mod c (mods s)) = true /\ c <= next_uid s).
Definition Q (s : mstate) : Prop := Ex s /\ forall c, okc s c.
Definition Qc (s : mstate) : Prop := Ex s /\ forall c, NoDup (ccs c (W s)).

Lemma Q_Qc s : Q s -> Qc s.
Proof. intros [E H]. split; [exact E|]. intros c. apply (H c). Qed.

(* a step that writes nothing about any closed client and only moves the state forward *)
Lemma Q_frame s s' : Q s -> Frame s s' -> Ex s' -> (forall c, ccs c (W s') = ccs c (W s)) -> Q s'.
Proof.
  intros [E H] F E' Hc. split; [exact E'|]. intros c. destruct (H c) as [A B]. unfold okc. rewrite Hc. split; [exact A|].
  intros Hne. destruct (B Hne) as [B1 B2]. split; [apply (fm_closed _ _ (Frame_find s s' c F) B1)|rewrite (fr_uid _ _ F); exact B2].
Qed.

Lemma Q_quiet s s' : Q s -> Frame s s' -> out s' = out s -> Q s'.
Proof.
  intros HQ F E. apply (Q_frame s s' HQ F).
  - destruct HQ as [(suf & Es) _]. exists suf. congruence.
  - intros c. rewrite (W_same s s' E). reflexivity.
Qed.

(* judgement for the closure: under the registry invariant with in-flight set X, the invariant is kept and nothing
   about an in-flight client is written *)
Definition OC {A} (X : list Z) (m : M A) : Prop :=
  forall s, RegInvX X s -> Q s ->
  match m s with
  | Ok _ s' => Q s' /\ forall c0, In c0 X -> ccs c0 (W s') = ccs c0 (W s)
  | Crash _ s' => Qc s'
  end.

Lemma oc_ret {A} X (a : A) : OC X (ret a).
Proof. intros s _ HQ. cbn [ret]. auto. Qed.

Lemma oc_bind {A B} X (m : M A) (k : A -> M B) : J X m -> OC X m -> (forall a, OC X (k a)) -> OC X (bind m k).
Proof.
  intros HJ Hm Hk s H HQ. unfold bind. specialize (HJ s H). specialize (Hm s H HQ).
  destruct (m s) as [a s1|e s1]; [|exact Hm]. destruct HJ as [H1 _]. destruct Hm as [Q1 U1].
  specialize (Hk a s1 H1 Q1). destruct (k a s1) as [b s2|e s2]; [|exact Hk]. destruct Hk as [Q2 U2].
  split; [exact Q2|]. intros c0 Hc. rewrite (U2 c0 Hc). apply U1. exact Hc.
Qed.

Lemma oc_get {A} X (k : mstate -> M A) : (forall s0, OC X (k s0)) -> OC X (bind get k).
Proof. intros H s Hs HQ. unfold bind, get. apply H; auto. Qed.

(* an operation that writes nothing *)
Lemma oc_quiet {A} X (m : M A) :
  J X m -> (forall s, match m s with Ok _ s' => out s' = out s | Crash _ s' => out s' = out s end) -> OC X m.
Proof.
  intros HJ Ho s H HQ. specialize (HJ s H). specialize (Ho s). destruct (m s) as [a s'|e s'].
  - destruct HJ as [_ F]. split; [apply (Q_quiet s s' HQ F Ho)|]. intros c0 _. rewrite (W_same s s' Ho). reflexivity.
  - destruct HQ as [(suf & Es) Hc]. split; [exists suf; congruence|]. intros c. rewrite (W_same s s' Ho). apply (Hc c).
Qed.

Lemma oc_set_mod X c f : J X (set_mod c f) -> OC X (set_mod c f).
Proof. intros HJ. apply oc_quiet; [exact HJ|]. intros s. reflexivity. Qed.

End Rel.

(* ---------- the closure of forward_message keeps the invariant ---------- *)
Section Clo.
Variable o0 : list (Z * item).
Variable cfg : config.

Notation Wr := (W o0).
Notation Qr := (Q o0).
Notation Qcr := (Qc o0).
Notation OCr := (OC o0).

Lemma Q_append s s' items : Qr s -> Frame s s' -> out s' = out s ++ items ->
  (forall c, NoDup (ccs c (Wr s) ++ ccs c items)) ->
  (forall c, ccs c items <> [] -> m_closed (find_mod c (mods s')) = true /\ c <= next_uid s') -> Qr s'.
Proof.
  intros [E H] F Eo Hnd Hnew. destruct (W_step o0 s s' items E Eo) as [E' EW]. split; [exact E'|].
  intros c. unfold okc. rewrite EW, ccs_app. split; [apply Hnd|]. intros Hne.
  destruct (ccs c items) eqn:Ei.
  - rewrite app_nil_r in Hne. destruct (H c) as [_ B]. destruct (B Hne) as [B1 B2].
    split; [apply (fm_closed _ _ (Frame_find s s' c F) B1)|rewrite (fr_uid _ _ F); exact B2].
  - apply Hnew. rewrite Ei. discriminate.
Qed.

(* the payload being delivered, if it is a CLIENT_CLOSED about c0: c0 is in flight and only members of `done`
   have received it so far *)
Definition pubpre (X done : list Z) (q : payload) (s : mstate) : Prop :=
  forall c0, ccp c0 q = true -> In c0 X /\ c0 <= next_uid s /\ forall y, In y (ccs c0 (Wr s)) -> In y done.

Lemma ccp_plain q c : ccuid q = None -> ccp c q = false.
Proof. intros H. unfold ccp. rewrite H. reflexivity. Qed.

Lemma q_mod_send X done x h q s :
  RegInvX X s -> Qr s -> pubpre X done q s -> (ccuid q = None \/ ~ In x done) ->
  match mod_send x h q s with
  | Ok r s' => (exists n, snd r = set_count h n) /\ RegInvX X s' /\ Frame s s' /\ Qr s' /\
               (forall c1, ccp c1 q = false -> ccs c1 (Wr s') = ccs c1 (Wr s)) /\
               (forall c0, ccp c0 q = true -> forall y, In y (ccs c0 (Wr s')) -> In y (done ++ [x]))
  | Crash _ _ => False
  end.
Proof.
  intros H HQ Hp Hx. pose proof (mod_send_trace x h q s) as T. pose proof (J_mod_send X x h q s H) as HJ.
  destruct (mod_send x h q s) as [r s'|e s']; [|destruct T]. destruct T as [Er Hcase]. destruct HJ as [H' F].
  split; [eexists; exact Er|]. split; [exact H'|]. split; [exact F|].
  assert (Hsub : forall c0 y, ccp c0 q = true -> In y (ccs c0 (Wr s)) -> In y (done ++ [x])).
  { intros c0 y Hc Hy. destruct (Hp c0 Hc) as (_ & _ & Hd). apply in_or_app. left. apply Hd. exact Hy. }
  pose proof HQ as [E _].
  destruct Hcase as [Eo|[Eo|Eo]].
  - assert (EW : Wr s' = Wr s) by (apply W_same; exact Eo). split; [apply (Q_quiet o0 s s' HQ F Eo)|]. rewrite EW.
    split; [reflexivity|]. intros c0 Hc0 y Hy. eapply Hsub; eauto.
  - destruct (W_step o0 s s' _ E Eo) as [E' EW].
    assert (Hc : forall c, ccs c (Wr s') = ccs c (Wr s)) by (intros c; rewrite EW, ccs_app, ccs_hdr, app_nil_r; reflexivity).
    split; [apply (Q_frame o0 s s' HQ F E' Hc)|]. split; [intros c1 _; apply Hc|]. intros c0 Hc0 y. rewrite Hc. apply (Hsub c0 y Hc0).
  - destruct (W_step o0 s s' _ E Eo) as [E' EW].
    assert (Hc : forall c, ccs c (Wr s') = ccs c (Wr s) ++ (if ccp c q then [x] else [])) by (intros c; rewrite EW, ccs_app, ccs_frame; reflexivity).
    split; [|split].
    + apply (Q_append s s' _ HQ F Eo).
      * intros c. rewrite ccs_frame. destruct (ccp c q) eqn:Ec; [|rewrite app_nil_r; apply (proj2 HQ c)].
        apply NoDup_snoc; [apply (proj2 HQ c)|]. intros Hin. destruct (Hp c Ec) as (_ & _ & Hd).
        destruct Hx as [Hx|Hx]; [rewrite (ccp_plain q c Hx) in Ec; discriminate|]. apply Hx. apply Hd. exact Hin.
      * intros c. rewrite ccs_frame. destruct (ccp c q) eqn:Ec; [|intros Hn; exfalso; apply Hn; reflexivity]. intros _.
        destruct (Hp c Ec) as (HcX & Hb & _). destruct (ro_xreg _ _ _ _ _ H' c HcX) as [_ Hcl].
        split; [exact Hcl|rewrite (fr_uid _ _ F); exact Hb].
    + intros c1 Hc1. rewrite Hc, Hc1, app_nil_r. reflexivity.
    + intros c0 Hc0 y. rewrite Hc, Hc0. intros Hy. apply in_app_or in Hy. destruct Hy as [Hy|[<-|[]]].
      * apply (Hsub c0 y Hc0 Hy).
      * apply in_or_app. right. left. reflexivity.
Qed.

(* judgement for a forward: the general case *)
Definition OF {A} (X : list Z) (h : hdr) (q : payload) (m : M A) : Prop :=
  forall s, RegInvX X s -> Qr s -> pubpre X [] q s -> (ccuid q = None \/ h_type h <> ALL_MESSAGE_TYPES) ->
  match m s with
  | Ok _ s' => Qr s' /\ forall c1, In c1 X -> ccp c1 q = false -> ccs c1 (Wr s') = ccs c1 (Wr s)
  | Crash _ s' => Qcr s'
  end.

Lemma cc_type_not_all : h_type (mgr_hdr MT_CLIENT_CLOSED SZ_CLIENT_CLOSED 0) <> ALL_MESSAGE_TYPES.
Proof. change (MT_CLIENT_CLOSED <> ALL_MESSAGE_TYPES). discriminate. Qed.

Lemma pubpre_plain X done q s : ccuid q = None -> pubpre X done q s.
Proof. intros H c0 Hc. rewrite (ccp_plain q c0 H) in Hc. discriminate. Qed.

Section WithRec.
Variable rec : hdr -> payload -> M unit.
Hypothesis HrecJ : forall X h q, J X (rec h q).
Hypothesis HrecO : forall X h q, OF X h q (rec h q).

Lemma oc_rec_plain X h q : ccuid q = None -> OCr X (rec h q).
Proof.
  intros Hp s H HQ. pose proof (HrecO X h q s H HQ (pubpre_plain X [] q s Hp) (or_introl Hp)) as R.
  destruct (rec h q s) as [u s'|e s']; [|exact R]. destruct R as [Q' U]. split; [exact Q'|].
  intros c0 Hc. apply U; [exact Hc|apply ccp_plain; exact Hp].
Qed.

Lemma oc_mlog X lvl : OCr X (mlog_with cfg rec lvl).
Proof.
  intros s H HQ. unfold mlog_with. destruct ((loglevel cfg <=? lvl) && rtma_log s); [|split; [exact HQ|reflexivity]].
  pose proof (oc_rec_plain X (mgr_hdr (log_type lvl) SZ_RTMA_LOG 0) (PLog lvl) eq_refl s H HQ) as R.
  pose proof (HrecJ X (mgr_hdr (log_type lvl) SZ_RTMA_LOG 0) (PLog lvl) s H) as HJ.
  destruct (rec (mgr_hdr (log_type lvl) SZ_RTMA_LOG 0) (PLog lvl) s) as [u s'|e s']; [exact R|]. subst e. exact R.
Qed.

Lemma oc_send_failed X x hh : OCr X (send_failed_with rec x hh).
Proof.
  unfold send_failed_with. destruct (zmem (h_type hh) no_notice_types); [apply oc_ret|].
  apply oc_get. intros s0. unfold send_mgr_with. apply oc_rec_plain. reflexivity.
Qed.

(* the publication: c is open at entry, so nothing about it has been written; it is closed first, and stays in
   flight - hence out of every subscriber list - while its CLIENT_CLOSED is delivered *)
Lemma oc_remove_module X c : ~ In c X -> OCr X (remove_module_with cfg rec c).
Proof.
  intros HcX s H HQ. destruct (m_reg (find_mod c (mods s))) eqn:Hreg.
  2:{ unfold remove_module_with. unfold bind at 1. unfold get. rewrite Hreg. cbn [negb ret]. auto. }
  destruct (closed_state_inv X c s HcX H Hreg) as (H3 & Hpos & Hopen).
  rewrite (remove_unfold_explicit cfg rec c s Hreg). set (s3 := closed_state s c) in *.
  assert (F3 : Frame s s3) by apply Frame_closed_state.
  assert (Q3 : Qr s3) by (apply (Q_quiet o0 s s3 HQ F3); reflexivity).
  assert (W3 : Wr s3 = Wr s) by (apply W_same; reflexivity).
  assert (Hnone : ccs c (Wr s) = []).
  { destruct (ccs c (Wr s)) eqn:E; [reflexivity|]. destruct (proj2 HQ c) as [_ B]. rewrite E in B.
    destruct (B ltac:(discriminate)) as [Hcl _]. congruence. }
  unfold rm_rest. unfold bind at 1.
  pose proof (oc_mlog (c :: X) 10 s3 H3 Q3) as R4. pose proof (J_mlog cfg rec HrecJ (c :: X) 10 s3 H3) as J4.
  destruct (mlog_with cfg rec 10 s3) as [u4 s4|e4 s4]; [|exact R4]. destruct R4 as [Q4 U4]. destruct J4 as [H4 F4].
  unfold bind at 1. unfold get. unfold bind at 1. unfold send_mgr_with.
  destruct (ro_xreg _ _ _ _ _ H4 c (or_introl eq_refl)) as [Hr4 Hc4].
  destruct (find_mod_reg_In c _ Hr4) as [Hi4 Hcc4].
  set (q := client_payload true (find_mod c (mods s4))).
  assert (Hq : forall c1, ccp c1 q = (c =? c1)).
  { intros c1. unfold q, client_payload, ccp, ccuid. rewrite Hcc4. reflexivity. }
  assert (Hpre : pubpre (c :: X) [] q s4).
  { intros c1 Hc1. rewrite Hq in Hc1. apply Z.eqb_eq in Hc1. subst c1. split; [left; reflexivity|].
    split; [rewrite <- Hcc4; apply (ro_bound _ _ _ _ _ H4 _ Hi4)|]. rewrite (U4 c (or_introl eq_refl)), W3, Hnone. intros y []. }
  pose proof (HrecO (c :: X) (mgr_hdr MT_CLIENT_CLOSED SZ_CLIENT_CLOSED 0) q s4 H4 Q4 Hpre (or_intror cc_type_not_all)) as R5.
  pose proof (HrecJ (c :: X) (mgr_hdr MT_CLIENT_CLOSED SZ_CLIENT_CLOSED 0) q s4 H4) as J5.
  destruct (rec (mgr_hdr MT_CLIENT_CLOSED SZ_CLIENT_CLOSED 0) q s4) as [u5 s5|e5 s5]; [|exact R5].
  destruct R5 as [Q5 U5]. destruct J5 as [H5 F5]. unfold bind at 1. unfold get.
  destruct (ro_xreg _ _ _ _ _ H5 c (or_introl eq_refl)) as [Hr5 Hc5]. rewrite Hr5. unfold set_mod, modify.
  set (s6 := with_mods s5 (upd_mod c mm_unreg (mods s5))).
  assert (F6 : Frame s5 s6) by (apply Frame_upd; intro; apply fm_unreg).
  split; [apply (Q_quiet o0 s5 s6 Q5 F6); reflexivity|].
  intros c0 Hc0. assert (Hne : c0 <> c) by (intro; subst; contradiction).
  assert (W6 : Wr s6 = Wr s5) by (apply W_same; reflexivity).
  rewrite W6, (U5 c0 (or_intror Hc0)), (U4 c0 (or_intror Hc0)), W3; [reflexivity|]. rewrite Hq. lia.
Qed.

Lemma oc_on_conn_err X x hh : ~ In x X -> OCr X (on_conn_err_with cfg rec x hh).
Proof.
  intros Hx. unfold on_conn_err_with.
  apply oc_bind; [apply J_remove_module; auto|apply oc_remove_module; exact Hx|]. intros _.
  apply oc_bind; [apply J_mlog; auto|apply oc_mlog|]. intros _. apply oc_send_failed.
Qed.

(* one recipient of a delivery loop *)
Definition ODpost (X done : list Z) (x : Z) (q : payload) (s s' : mstate) : Prop :=
  Qr s' /\ (forall c1, In c1 X -> ccp c1 q = false -> ccs c1 (Wr s') = ccs c1 (Wr s)) /\
  (forall c0, ccp c0 q = true -> forall y, In y (ccs c0 (Wr s')) -> In y (done ++ [x])).

Lemma ODpost_refl X done x q s : Qr s -> pubpre X done q s -> ODpost X done x q s s.
Proof.
  intros HQ Hp. split; [exact HQ|]. split; [reflexivity|]. intros c0 Hc y Hy. destruct (Hp c0 Hc) as (_ & _ & Hd).
  apply in_or_app. left. apply Hd. exact Hy.
Qed.

Lemma od_send_checked X done x hh q s :
  ~ In x X -> RegInvX X s -> Qr s -> pubpre X done q s -> (ccuid q = None \/ ~ In x done) ->
  match send_checked_with cfg rec x hh q s with
  | Ok _ s' => ODpost X done x q s s'
  | Crash _ s' => Qcr s'
  end.
Proof.
  intros Hx H HQ Hp Hd. unfold send_checked_with. unfold bind at 1.
  pose proof (q_mod_send X done x hh q s H HQ Hp Hd) as R.
  destruct (mod_send x hh q s) as [[r h'] s1|e s1]; [|destruct R]. cbn [fst snd] in *.
  destruct R as (_ & H1 & F1 & Q1 & U1 & S1).
  assert (K : forall (m : M unit), OCr X m ->
              match (m ;;; ret h') s1 with Ok _ s' => ODpost X done x q s s' | Crash _ s' => Qcr s' end).
  { intros m Hm. unfold bind. specialize (Hm s1 H1 Q1). destruct (m s1) as [u s2|e s2]; [|exact Hm]. cbn [ret].
    destruct Hm as [Q2 U2]. split; [exact Q2|]. split.
    - intros c1 Hc1 Hp1. rewrite (U2 c1 Hc1). apply U1. exact Hp1.
    - intros c0 Hc0 y. destruct (Hp c0 Hc0) as (HcX & _). rewrite (U2 c0 HcX). apply S1. exact Hc0. }
  destruct r.
  - apply K. apply oc_set_mod. apply (J_set_drops X x (fun _ => 0)).
  - apply K. apply oc_on_conn_err. exact Hx.
  - apply K. apply oc_on_conn_err. exact Hx.
Qed.

Lemma od_deliver X done x hh q s :
  ~ In x X -> RegInvX X s -> Qr s -> pubpre X done q s -> (ccuid q = None \/ ~ In x done) ->
  match deliver_with cfg rec q hh x s with
  | Ok _ s' => ODpost X done x q s s'
  | Crash _ s' => Qcr s'
  end.
Proof.
  intros Hx H HQ Hp Hd. unfold deliver_with. unfold bind at 1. unfold get.
  destruct (negb (m_reg (find_mod x (mods s)))); [cbn [ret]; apply ODpost_refl; auto|].
  destruct (zmem x (wl s)).
  - destruct (dest_filter _ _ _); [apply od_send_checked; auto|cbn [ret]; apply ODpost_refl; auto].
  - destruct (m_logger (find_mod x (mods s))).
    + destruct (m_closed (find_mod x (mods s))); [apply Q_Qc; exact HQ|apply od_send_checked; auto].
    + assert (Hm : OCr X (set_mod x (fun m => mm_drops m (m_drops m + 1)) ;;; send_failed_with rec x hh)).
      { apply oc_bind; [apply (J_set_drops X x (fun m => m_drops m + 1))|apply oc_set_mod; apply (J_set_drops X x (fun m => m_drops m + 1))|].
        intros _. apply oc_send_failed. }
      unfold bind at 1. unfold set_mod, modify. unfold bind at 1.
      specialize (Hm s H HQ). unfold bind at 1 in Hm. unfold set_mod, modify in Hm.
      destruct (send_failed_with rec x hh _) as [u s2|e s2]; [|exact Hm]. cbn [ret]. destruct Hm as [Q2 U2].
      split; [exact Q2|]. split; [intros c1 Hc1 _; apply U2; exact Hc1|].
      intros c0 Hc0 y. destruct (Hp c0 Hc0) as (HcX & _ & Hdn). rewrite (U2 c0 HcX). intros Hy. apply in_or_app. left. apply Hdn. exact Hy.
Qed.

Lemma od_loop X q : forall r hh s done,
  RegInvX X s -> Qr s -> pubpre X done q s -> (ccuid q = None \/ NoDup r) ->
  (forall x, In x r -> ~ In x X /\ (ccuid q = None \/ ~ In x done)) ->
  match deliver_loop cfg rec q hh r s with
  | Ok _ s' => Qr s' /\ forall c1, In c1 X -> ccp c1 q = false -> ccs c1 (Wr s') = ccs c1 (Wr s)
  | Crash _ s' => Qcr s'
  end.
Proof.
  induction r as [|x r IH]; intros hh s done H HQ Hp Hnd Hr; [cbn [deliver_loop ret]; split; [exact HQ|reflexivity]|].
  destruct (Hr x (or_introl eq_refl)) as [HxX Hxd]. cbn [deliver_loop]. unfold bind at 1.
  pose proof (od_deliver X done x hh q s HxX H HQ Hp Hxd) as R.
  pose proof (J_deliver cfg rec HrecJ X q hh x HxX s H) as HJ.
  destruct (deliver_with cfg rec q hh x s) as [hh' s1|e s1]; [|exact R]. destruct HJ as [H1 F1]. destruct R as (Q1 & U1 & S1).
  assert (Hp1 : pubpre X (done ++ [x]) q s1).
  { intros c0 Hc0. destruct (Hp c0 Hc0) as (A & B & _). split; [exact A|]. split; [rewrite (fr_uid _ _ F1); exact B|apply S1; exact Hc0]. }
  assert (Hnd1 : ccuid q = None \/ NoDup r).
  { destruct Hnd as [Hn|Hn]; [left; exact Hn|right]. apply NoDup_cons_iff in Hn. tauto. }
  assert (Hr1 : forall y, In y r -> ~ In y X /\ (ccuid q = None \/ ~ In y (done ++ [x]))).
  { intros y Hy. destruct (Hr y (or_intror Hy)) as [A B]. split; [exact A|]. destruct B as [B|B]; [left; exact B|].
    destruct Hnd as [Hn|Hn]; [left; exact Hn|right]. apply NoDup_cons_iff in Hn. destruct Hn as [Hnx _].
    intros Hin. apply in_app_or in Hin. destruct Hin as [Hin|[->|[]]]; contradiction. }
  specialize (IH hh' s1 (done ++ [x]) H1 Q1 Hp1 Hnd1 Hr1).
  destruct (deliver_loop cfg rec q hh' r s1) as [u s2|e s2]; [|exact IH]. destruct IH as [Q2 U2].
  split; [exact Q2|]. intros c1 Hc1 Hp1'. rewrite (U2 c1 Hc1 Hp1'). apply U1; auto.
Qed.

Lemma of_forward_body X h q : OF X h q (forward_body cfg rec h q).
Proof.
  intros s H HQ Hp Hty. unfold forward_body. unfold bind at 1.
  pose proof (count_msg_J cfg X (h_type h) s H) as J0.
  assert (O0 : match count_msg cfg (h_type h) s with Ok _ s' => out s' = out s /\ subs s' = subs s /\ next_uid s' = next_uid s | Crash _ _ => False end).
  { unfold count_msg, bind, get. destruct (negb (sending_traffic s)); cbn; auto. }
  destruct (count_msg cfg (h_type h) s) as [u0 s0|e0 s0]; [|destruct O0]. destruct J0 as [H0 F0]. destruct O0 as (Eo & Es & Eu).
  assert (Q0 : Qr s0) by (apply (Q_quiet o0 s s0 HQ F0 Eo)).
  assert (W0 : Wr s0 = Wr s) by (apply W_same; exact Eo).
  assert (Hp0 : pubpre X [] q s0).
  { intros c0 Hc0. destruct (Hp c0 Hc0) as (A & B & C). rewrite W0, Eu. auto. }
  assert (Kml : match mlog_with cfg rec 40 s0 with
                | Ok _ s' => Qr s' /\ forall c1, In c1 X -> ccp c1 q = false -> ccs c1 (Wr s') = ccs c1 (Wr s)
                | Crash _ s' => Qcr s' end).
  { pose proof (oc_mlog X 40 s0 H0 Q0) as R. destruct (mlog_with cfg rec 40 s0) as [u s1|e s1]; [|exact R].
    destruct R as [Q1 U1]. split; [exact Q1|]. intros c1 Hc1 _. rewrite (U1 c1 Hc1), W0. reflexivity. }
  destruct (bad_dest_mod (h_dst_mod h)); [exact Kml|]. destruct (bad_dest_host (h_dst_host h)); [exact Kml|].
  unfold bind at 1. unfold get.
  assert (Hnd : ccuid q = None \/ NoDup (snapshot s0 (h_type h))).
  { destruct Hty as [Hn|Hn]; [left; exact Hn|right]. eapply snapshot_NoDup; eauto. }
  pose proof (od_loop X q (snapshot s0 (h_type h)) h s0 [] H0 Q0 Hp0 Hnd) as R.
  assert (Hr : forall x, In x (snapshot s0 (h_type h)) -> ~ In x X /\ (ccuid q = None \/ ~ In x [])).
  { intros x Hx. split; [eapply snapshot_not_inflight; eauto|right; intros []]. }
  specialize (R Hr). destruct (deliver_loop cfg rec q h (snapshot s0 (h_type h)) s0) as [u s1|e s1]; [|exact R].
  destruct R as [Q1 U1]. split; [exact Q1|]. intros c1 Hc1 Hpc. rewrite (U1 c1 Hc1 Hpc), W0. reflexivity.
Qed.

End WithRec.

Lemma of_forward : forall fuel X h q, OF X h q (forward cfg fuel h q).
Proof.
  induction fuel as [|k IH]; intros X h q.
  - intros s H HQ _ _. cbn [forward crash]. apply Q_Qc. exact HQ.
  - cbn [forward]. apply of_forward_body; [intros; apply J_forward|exact IH].
Qed.

End Clo.

(* ---------- a healthy recipient of ANY forwarded message gets its frame (generic in header and payload) ---------- *)

Lemma deliver_hdr cfg rec q hf x s :
  match deliver_with cfg rec q hf x s with
  | Ok hf' _ => hf' = hf \/ exists n, hf' = set_count hf n
  | Crash _ _ => True
  end.
Proof.
  assert (SC : match send_checked_with cfg rec x hf q s with Ok hf' _ => hf' = hf \/ exists n, hf' = set_count hf n | Crash _ _ => True end).
  { unfold send_checked_with. unfold bind at 1. pose proof (mod_send_trace x hf q s) as T.
    destruct (mod_send x hf q s) as [[r h'] s1|e s1]; [|exact I]. destruct T as [Er _]. cbn [fst snd] in *.
    destruct r; unfold bind.
    - destruct (set_mod x _ s1); [cbn [ret]; right; eexists; exact Er|exact I].
    - destruct (on_conn_err_with cfg rec x h' s1); [cbn [ret]; right; eexists; exact Er|exact I].
    - destruct (on_conn_err_with cfg rec x h' s1); [cbn [ret]; right; eexists; exact Er|exact I]. }
  unfold deliver_with. unfold bind at 1. unfold get. destruct (negb _); [left; reflexivity|].
  destruct (zmem x (wl s)).
  - destruct (dest_filter _ _ _); [exact SC|left; reflexivity].
  - destruct (m_logger _); [destruct (m_closed _); [exact I|exact SC]|].
    unfold bind. destruct (set_mod x _ s) as [u s1|]; [|exact I]. destruct (send_failed_with rec x hf s1); [left; reflexivity|exact I].
Qed.

Definition GT (h : hdr) : Prop := True.

Lemma ext_deliver cfg k q hf x s :
  exists suf, out (st (deliver_with cfg (forward cfg k) q hf x s)) = out s ++ suf.
Proof.
  assert (Hf : forall h0 p0, GT h0 -> pres (Only GT (out s)) (forward cfg k h0 p0)).
  { intros h0 p0 _. apply (g_forward cfg GT); unfold GT; auto. }
  pose proof (g_deliver cfg GT (fun _ _ _ => I) (fun _ => I) I I (out s) (forward cfg k) Hf q hf x I s (Only_init GT s)) as R.
  destruct (deliver_with cfg (forward cfg k) q hf x s) as [hf' s'|e s']; cbn [st].
  - destruct R as [(suf & Ho & _) _]. eauto.
  - destruct R as (suf & Ho & _). eauto.
Qed.

Lemma ext_loop_any cfg k q : forall r hf s,
  exists suf, out (st (deliver_loop cfg (forward cfg k) q hf r s)) = out s ++ suf.
Proof.
  induction r as [|x r IH]; intros hf s; [exists []; cbn [deliver_loop ret st]; rewrite app_nil_r; reflexivity|].
  cbn [deliver_loop]. unfold bind at 1. destruct (ext_deliver cfg k q hf x s) as (a & Ha).
  destruct (deliver_with cfg (forward cfg k) q hf x s) as [hf' s1|e s1]; cbn [st] in *.
  - destruct (IH hf' s1) as (b & Hb). exists (a ++ b). rewrite Hb, Ha, app_assoc. reflexivity.
  - exists a. exact Ha.
Qed.

Lemma ext_any_mlog cfg k lvl s : exists suf, out (st (mlog_with cfg (forward cfg k) lvl s)) = out s ++ suf.
Proof.
  assert (Hf : forall h0 p0, GT h0 -> pres (Only GT (out s)) (forward cfg k h0 p0)).
  { intros h0 p0 _. apply (g_forward cfg GT); unfold GT; auto. }
  pose proof (g_mlog cfg GT (fun _ => I) (out s) (forward cfg k) Hf lvl s (Only_init GT s)) as R.
  destruct (mlog_with cfg (forward cfg k) lvl s) as [u s'|e s']; cbn [st]; destruct R as (suf & Ho & _); eauto.
Qed.

Section GServed.
Variable cfg : config.
Variable h : hdr.
Variable q : payload.
Variable g : Z.
Variable s0 : mstate.
Hypothesis Hwl : zmem g (wl s0) = true.
Hypothesis Hel : eligible (h_dst_mod h) s0 g = true.

Lemma gserved_loop k : forall r hf si s', hsame h hf -> Stays g s0 si -> In g r ->
  deliver_loop cfg (forward cfg k) q hf r si = Ok tt s' ->
  exists a n b, out s' = out si ++ a ++ [(g, OHdr (set_count h n)); (g, OPay q)] ++ b /\ Stays g s0 s'.
Proof.
  assert (Hrec : forall hm pm, pres (Stays g s0) (forward cfg k hm pm)) by (intros; apply k_forward).
  induction r as [|x r IH]; intros hf si s' Hh HS Hin E; [destruct Hin|].
  cbn [deliver_loop] in E. unfold bind at 1 in E.
  pose proof (k_deliver cfg g s0 (forward cfg k) Hrec q hf x si HS) as KS.
  destruct (Z.eq_dec x g) as [->|Hne].
  - pose proof HS as (A & B & C & D & Em & El & Ew & Es).
    assert (Hr : ready si g) by (unfold ready; rewrite Ew; auto).
    assert (Hel' : eligible (h_dst_mod hf) si g = true).
    { unfold eligible in *. rewrite (hsame_dst h hf Hh), Em, El. exact Hel. }
    assert (Ed : deliver_with cfg (forward cfg k) q hf g si = Ok (set_count hf (cnt si g + 1)) (after_send hf q si g)).
    { unfold deliver_with. unfold bind at 1. unfold get. rewrite B. cbn [negb]. rewrite Ew, Hwl.
      fold (eligible (h_dst_mod hf) si g). rewrite Hel'. apply send_checked_exact. exact Hr. }
    rewrite Ed in E, KS.
    pose proof (k_deliver_loop cfg g s0 (forward cfg k) Hrec q r (set_count hf (cnt si g + 1)) (after_send hf q si g) KS) as KS'.
    destruct (ext_loop_any cfg k q r (set_count hf (cnt si g + 1)) (after_send hf q si g)) as (b & Hb).
    rewrite E in KS', Hb. cbn [st] in Hb.
    exists [], (cnt si g + 1), b. split; [|exact KS'].
    rewrite Hb. change (out (after_send hf q si g)) with (out si ++ frame_for hf q si g). unfold frame_for.
    rewrite (Hh (cnt si g + 1)). rewrite <- app_assoc. reflexivity.
  - destruct Hin as [->|Hin]; [contradiction|].
    destruct (ext_deliver cfg k q hf x si) as (a1 & Ha1). pose proof (deliver_hdr cfg (forward cfg k) q hf x si) as Hd.
    destruct (deliver_with cfg (forward cfg k) q hf x si) as [hf' s1|e s1]; [|discriminate E]. cbn [st] in Ha1.
    assert (Hh' : hsame h hf') by (destruct Hd as [->|(n & ->)]; [exact Hh|apply hsame_count; exact Hh]).
    destruct (IH hf' s1 s' Hh' KS Hin E) as (a & n & b & Ho & HS').
    exists (a1 ++ a), n, b. split; [|exact HS']. rewrite Ho, Ha1, <- !app_assoc. reflexivity.
Qed.

Lemma gserved_core fuel s1 s' :
  bad_dest_mod (h_dst_mod h) = false -> bad_dest_host (h_dst_host h) = false ->
  Stays g s0 s1 -> In g (snapshot s1 (h_type h)) ->
  forward cfg fuel h q s1 = Ok tt s' ->
  exists a n b, out s' = out s1 ++ a ++ [(g, OHdr (set_count h n)); (g, OPay q)] ++ b /\ Stays g s0 s'.
Proof.
  intros Hm Hh HS Hin E. destruct fuel as [|k]; [discriminate E|].
  change (forward cfg (Datatypes.S k) h q s1) with (forward_body cfg (forward cfg k) h q s1) in E.
  unfold forward_body in E. unfold bind at 1 in E.
  assert (E0 : exists sc, count_msg cfg (h_type h) s1 = Ok tt sc /\ out sc = out s1 /\ Stays g s0 sc /\
                          snapshot sc (h_type h) = snapshot s1 (h_type h)).
  { unfold count_msg, bind, get. destruct (negb (sending_traffic s1)).
    - eexists. split; [reflexivity|]. split; [reflexivity|]. split; [|reflexivity]. revert HS. apply Stays_ext; auto.
    - exists s1. auto. }
  destruct E0 as (sc & E0 & Eo & HSc & Esn). rewrite E0, Hm, Hh in E. unfold bind at 1 in E. unfold get in E. rewrite Esn in E.
  destruct (gserved_loop k (snapshot s1 (h_type h)) h sc s' (hsame_refl h) HSc Hin E) as (a & n & b & Ho & HS').
  exists a, n, b. split; [rewrite Ho, Eo; reflexivity|exact HS'].
Qed.

End GServed.

(* ---------- (1) the departure reaches every healthy subscriber of CLIENT_CLOSED ---------- *)

Definition closed_once (c : Z) (q : payload) (g : Z) (suf : list (Z * item)) : Prop :=
  (exists a n b, suf = a ++ [(g, OHdr (set_count cc_hdr n)); (g, OPay q)] ++ b /\
                 filter (is_cc c) (proj g a) = [] /\ filter (is_cc c) (proj g b) = []) /\
  length (filter (is_cc c) (proj g suf)) = 1%nat.

Lemma closed_from c q g a n b : is_cc c (OPay q) = true ->
  (length (filter (is_cc c) (proj g (a ++ [(g, OHdr (set_count cc_hdr n)); (g, OPay q)] ++ b))) <= 1)%nat ->
  closed_once c q g (a ++ [(g, OHdr (set_count cc_hdr n)); (g, OPay q)] ++ b).
Proof.
  intros Hq Hle. unfold closed_once.
  assert (Es : filter (is_cc c) (proj g (a ++ [(g, OHdr (set_count cc_hdr n)); (g, OPay q)] ++ b)) =
               filter (is_cc c) (proj g a) ++ [OPay q] ++ filter (is_cc c) (proj g b)).
  { rewrite !proj_app, !filter_app. cbn [proj]. rewrite Z.eqb_refl. cbn [filter app]. rewrite Hq. reflexivity. }
  rewrite Es in *. rewrite !app_length in *. cbn [length] in *.
  assert (Ha : filter (is_cc c) (proj g a) = []) by (destruct (filter (is_cc c) (proj g a)); [reflexivity|cbn [length] in Hle; lia]).
  assert (Hb : filter (is_cc c) (proj g b) = []) by (destruct (filter (is_cc c) (proj g b)); [reflexivity|cbn [length] in Hle; lia]).
  split; [exists a, n, b; auto|]. rewrite Ha, Hb. reflexivity.
Qed.

Lemma payload_frame k a b : frame_mod a b -> client_payload k b = client_payload k a.
Proof.
  intros F. unfold client_payload.
  rewrite (fm_conn _ _ F), (fm_pid _ _ F), (fm_mod_id _ _ F), (fm_logger _ _ F), (fm_unique _ _ F), (fm_name _ _ F). reflexivity.
Qed.

Lemma Q_start s : Q (out s) s.
Proof.
  assert (E : W (out s) s = []) by (apply W_of; rewrite app_nil_r; reflexivity).
  split; [exists []; rewrite app_nil_r; reflexivity|]. intros c. unfold okc. rewrite E. split; [constructor|intros Hn; exfalso; apply Hn; reflexivity].
Qed.

Theorem departure_reaches_healthy cfg fuel c s X g s' :
  RegInvX X s -> ~ In c X -> m_reg (find_mod c (mods s)) = true ->
  In g (snapshot s MT_CLIENT_CLOSED) -> g <> c -> zmem g (wl s) = true -> flookup g (faults s) = None ->
  remove_module_with cfg (forward cfg fuel) c s = Ok tt s' ->
  exists suf, out s' = out s ++ suf /\
    closed_once c (client_payload true (find_mod c (mods s))) g suf /\ still_healthy g s s' /\
    m_reg (find_mod c (mods s')) = false /\ m_closed (find_mod c (mods s')) = true.
Proof.
  intros H HcX Hreg Hin Hgc Hwl Hf E. set (rec := forward cfg fuel) in *.
  assert (HrecJ : forall Y h0 q0, J Y (rec h0 q0)) by (intros; apply J_forward).
  assert (HrecO : forall Y h0 q0, OF (out s) Y h0 q0 (rec h0 q0)) by (intros; apply of_forward).
  assert (HrecK : forall h0 q0, pres (Stays g s) (rec h0 q0)) by (intros; apply k_forward).
  (* at most one, from the closure invariant *)
  pose proof (oc_remove_module (out s) cfg rec HrecJ HrecO X c HcX s H (Q_start s)) as OCr. rewrite E in OCr. destruct OCr as [[Ex' Qs'] _].
  destruct Ex' as (suf & Hsuf). pose proof (proj1 (Qs' c)) as Hnd. rewrite (W_of (out s) s' suf Hsuf) in Hnd.
  pose proof (ccs_count c g suf Hnd) as Hle.
  (* unfolding the removal *)
  destruct (closed_state_inv X c s HcX H Hreg) as (H3 & Hpos & Hopen).
  rewrite (remove_unfold_explicit cfg rec c s Hreg) in E. set (s3 := closed_state s c) in *.
  assert (S3 : Stays g s s3).
  { generalize (Stays_init X s g _ H Hin Hf).
    assert (Eg : find_mod g (mods s3) = find_mod g (mods s)).
    { unfold s3, closed_state. cbv zeta. cbn [mods with_mods with_loggers with_subs]. apply find_upd_other; [intro; reflexivity|exact Hgc]. }
    apply Stays_ext; try (rewrite Eg; reflexivity); try reflexivity.
    intros t Ht. unfold s3, closed_state. cbv zeta. cbn [subs with_mods with_loggers with_subs]. rewrite alookup_drop_subs.
    destruct (zmem t _); [apply zremove_In; auto|exact Ht]. }
  unfold rm_rest in E. unfold bind at 1 in E.
  pose proof (J_mlog cfg rec HrecJ (c :: X) 10 s3 H3) as J4. pose proof (k_mlog cfg g s rec HrecK 10 s3 S3) as S4.
  pose proof (ext_any_mlog cfg fuel 10 s3) as X4. fold rec in X4.
  destruct (mlog_with cfg rec 10 s3) as [u4 s4|e4 s4]; [|discriminate E]. destruct J4 as [H4 F4]. cbn [st] in X4. destruct X4 as (pre & Hpre).
  unfold bind at 1 in E. unfold get in E. unfold bind at 1 in E. unfold send_mgr_with in E.
  change (mgr_hdr MT_CLIENT_CLOSED SZ_CLIENT_CLOSED 0) with cc_hdr in E.
  assert (Eq : client_payload true (find_mod c (mods s4)) = client_payload true (find_mod c (mods s))).
  { rewrite (payload_frame true _ _ (Frame_find s3 s4 c F4)). apply (payload_frame true _ _ (Frame_find s s3 c (Frame_closed_state s c))). }
  rewrite Eq in E. set (q := client_payload true (find_mod c (mods s))) in *.
  pose proof (J_forward cfg fuel (c :: X) cc_hdr q s4 H4) as J5. fold rec in J5.
  destruct (rec cc_hdr q s4) as [[] s5|e5 s5] eqn:E5; [|discriminate E]. destruct J5 as [H5 F5].
  unfold bind at 1 in E. unfold get in E. destruct (ro_xreg _ _ _ _ _ H5 c (or_introl eq_refl)) as [Hr5 Hc5]. rewrite Hr5 in E.
  unfold set_mod, modify in E. assert (Es' : s' = with_mods s5 (upd_mod c mm_unreg (mods s5))) by (inversion E; reflexivity). clear E.
  destruct (gserved_core cfg cc_hdr q g s Hwl eq_refl fuel s4 s5 eq_refl eq_refl S4 (Stays_snapshot g s s4 _ S4 Hin) E5) as (a & n & b & Ho & S5).
  assert (S6 : Stays g s s').
  { rewrite Es'. apply (k_set_other g s c mm_unreg (fun _ => eq_refl) (fun Ec => Hgc (eq_sym Ec)) s5 S5). }
  assert (Etot : out s' = out s ++ (pre ++ a) ++ [(g, OHdr (set_count cc_hdr n)); (g, OPay q)] ++ b).
  { rewrite Es'. cbn [out with_mods]. rewrite Ho, Hpre, <- !app_assoc. reflexivity. }
  rewrite Etot in Hsuf. apply app_inv_head in Hsuf. rewrite <- Hsuf in Hle.
  eexists. split; [exact Etot|]. split; [|split; [apply Stays_still; exact S6|]].
  - apply closed_from; [|exact Hle]. unfold q, client_payload, is_cc, ccp, ccuid.
    rewrite (find_mod_conn_of_reg _ _ Hreg). apply Z.eqb_refl.
  - rewrite Es'. cbn [mods with_mods]. rewrite find_upd_same; [|intro; reflexivity|exact Hpos].
    rewrite (find_mod_conn_of_reg _ _ Hr5), Z.eqb_refl. cbn [mm_unreg m_reg m_closed]. auto.
Qed.

(* ---------- (2) over whole histories ---------- *)

Notation Q0 := (Q []).
Notation Qc0 := (Qc []).

Lemma Ex_nil s : Ex [] s.
Proof. exists (out s). reflexivity. Qed.

Lemma W_nil s : W [] s = out s.
Proof. reflexivity. Qed.

(* a state change that writes nothing, reopens nothing and does not lower the uid counter *)
Lemma Q_keep s s' : Q0 s -> out s' = out s ->
  (forall c, m_closed (find_mod c (mods s)) = true -> m_closed (find_mod c (mods s')) = true) ->
  next_uid s <= next_uid s' -> Q0 s'.
Proof.
  intros [_ H] Eo Hc Hu. split; [apply Ex_nil|]. intros c. destruct (H c) as [A B]. unfold okc. rewrite !W_nil in *. rewrite Eo.
  split; [exact A|]. intros Hne. destruct (B Hne) as [B1 B2]. split; [apply Hc; exact B1|lia].
Qed.

Definition qres {A} (r : res A) : Prop := match r with Ok _ s' => Q0 s' | Crash _ s' => Qc0 s' end.

Definition CSat {A} (s : mstate) (m : M A) : Prop := StepInv s -> Q0 s -> qres (m s).
Definition CS {A} (m : M A) : Prop := forall s, CSat s m.

Lemma CS_of_OC {A} (m : M A) : OC [] [] m -> CS m.
Proof.
  intros H s Hs HQ. destruct Hs as (R & _). specialize (H s R HQ). unfold qres. destruct (m s); [apply H|exact H].
Qed.

Lemma CSat_bind' {A B} s (m : M A) (k : A -> M B) :
  (StepInv s -> match m s with Ok _ s' => StepInv s' | Crash e _ => e = XFuel end) ->
  CSat s m -> (forall a s1, m s = Ok a s1 -> CSat s1 (k a)) -> CSat s (bind m k).
Proof.
  intros HS HN Hk Hs HQ. unfold bind. specialize (HS Hs). specialize (HN Hs HQ).
  destruct (m s) as [a s1|e s1]; [|exact HN]. exact (Hk a s1 eq_refl HS HN).
Qed.

Lemma CS_bind {A B} (m : M A) (k : A -> M B) : S m -> CS m -> (forall a, CS (k a)) -> CS (bind m k).
Proof. intros HS HN Hk s. apply CSat_bind'; [apply HS|apply HN|]. intros a s1 _. apply Hk. Qed.

Lemma CS_ret {A} (a : A) : CS (ret a).
Proof. intros s _ HQ. exact HQ. Qed.

Lemma CS_crash {A} e : CS (@crash A e).
Proof. intros s _ HQ. apply Q_Qc. exact HQ. Qed.

Lemma CS_get {A} (k : mstate -> M A) : (forall s0, CSat s0 (k s0)) -> CS (bind get k).
Proof. intros H s Hs HQ. unfold bind, get. apply H; auto. Qed.

Lemma CS_modify f :
  (forall s, out (f s) = out s /\ next_uid s <= next_uid (f s) /\
             forall c, m_closed (find_mod c (mods s)) = true -> m_closed (find_mod c (mods (f s))) = true) -> CS (modify f).
Proof. intros H s _ HQ. destruct (H s) as (A & B & C). exact (Q_keep s (f s) HQ A C B). Qed.

Lemma CS_modify_mods f : (forall s, out (f s) = out s /\ next_uid (f s) = next_uid s /\ mods (f s) = mods s) -> CS (modify f).
Proof. intros H. apply CS_modify. intros s. destruct (H s) as (A & B & C). rewrite A, B, C. split; [reflexivity|split; [lia|auto]]. Qed.

Lemma CS_set_mod c f : (forall m, m_closed (f m) = m_closed m) -> conn_pres f -> CS (set_mod c f).
Proof.
  intros Hf Hc. unfold set_mod. apply CS_modify. intros s. cbn [out next_uid mods with_mods]. split; [reflexivity|split; [lia|]].
  intros x Hx. rewrite (find_upd_field m_closed c x f); auto.
Qed.

Lemma CS_mapM {A} (f : A -> M unit) l : (forall x, S (f x)) -> (forall x, CS (f x)) -> CS (mapM_ f l).
Proof. intros HS HN. induction l as [|x r IH]; cbn [mapM_]; [apply CS_ret|]. apply CS_bind; auto. Qed.

Section TopQ.
Variable cfg : config.
Variable FUEL : nat.

Notation rec := (forward cfg FUEL).
Lemma HJ : forall X h q, J X (rec h q).
Proof. intros. apply J_forward. Qed.
Lemma HO : forall X h q, OF [] X h q (rec h q).
Proof. intros. apply of_forward. Qed.

Lemma oc_mlog_top X lvl : OC [] X (mlog cfg FUEL lvl).
Proof. exact (oc_mlog [] cfg rec HJ HO X lvl). Qed.
Lemma oc_send_mgr_top X t sz pl : ccuid pl = None -> OC [] X (send_mgr cfg FUEL t sz pl).
Proof. intros H. exact (oc_rec_plain [] rec HO X (mgr_hdr t sz 0) pl H). Qed.
Lemma oc_fwd X h q : ccuid q = None -> OC [] X (fwd cfg FUEL h q).
Proof. intros H. exact (oc_rec_plain [] rec HO X h q H). Qed.
Lemma oc_remove_module_top X c : ~ In c X -> OC [] X (remove_module cfg FUEL c).
Proof. exact (oc_remove_module [] cfg rec HJ HO X c). Qed.

Lemma oc_send_checked_top c hh q : ccuid q = None -> OC [] [] (send_checked cfg FUEL c hh q).
Proof.
  intros Hq s H HQ.
  pose proof (od_send_checked [] cfg rec HJ HO [] [] c hh q s (fun x => x) H HQ (pubpre_plain [] [] [] q s Hq) (or_introl Hq)) as R.
  unfold send_checked, fwd. destruct (send_checked_with cfg rec c hh q s) as [a s'|e s']; [|exact R].
  destruct R as (Q' & _). split; [exact Q'|intros c0 []].
Qed.

Lemma oc_send_client_info c : OC [] [] (send_client_info cfg FUEL c).
Proof.
  unfold send_client_info. apply oc_bind; [apply J_mlog_top|apply oc_mlog_top|]. intros _.
  apply oc_get. intros s0. apply oc_send_mgr_top. reflexivity.
Qed.

Lemma oc_loggers_loop : forall l hh p, ccuid p = None -> OC [] [] (loggers_loop cfg FUEL hh p l).
Proof.
  induction l as [|c r IH]; intros hh p Hp; cbn [loggers_loop]; [apply oc_ret|].
  apply oc_get. intros s0. destruct (negb (m_reg (find_mod c (mods s0)))); [apply IH; exact Hp|].
  destruct (negb (zmem c (wl s0)) && m_closed (find_mod c (mods s0))).
  - intros s _ HQ. apply Q_Qc. exact HQ.
  - apply oc_bind; [apply J_send_checked_top; intros []|apply oc_send_checked_top; exact Hp|]. intros hh'. apply IH. exact Hp.
Qed.

Lemma oc_send_ack c : OC [] [] (send_ack cfg FUEL c).
Proof.
  unfold send_ack. apply oc_get. intros s0.
  apply oc_bind; [apply J_send_checked_top; intros []|apply oc_send_checked_top; reflexivity|]. intros hh'.
  unfold send_to_loggers. apply oc_get. intros s1. apply oc_loggers_loop. reflexivity.
Qed.

Lemma CS_mlog lvl : CS (mlog cfg FUEL lvl).
Proof. apply CS_of_OC, oc_mlog_top. Qed.
Lemma CS_send_mgr t sz pl : ccuid pl = None -> CS (send_mgr cfg FUEL t sz pl).
Proof. intros H. apply CS_of_OC, oc_send_mgr_top, H. Qed.
Lemma CS_fwd h q : ccuid q = None -> CS (fwd cfg FUEL h q).
Proof. intros H. apply CS_of_OC, oc_fwd, H. Qed.
Lemma CS_remove_module c : CS (remove_module cfg FUEL c).
Proof. apply CS_of_OC, oc_remove_module_top. intros []. Qed.
Lemma CS_send_client_info c : CS (send_client_info cfg FUEL c).
Proof. apply CS_of_OC, oc_send_client_info. Qed.
Lemma CS_send_ack c : CS (send_ack cfg FUEL c).
Proof. apply CS_of_OC, oc_send_ack. Qed.

(* --- subscriptions --- *)
Lemma Q_subs_step s c f sb : Q0 s -> (forall m, m_closed (f m) = m_closed m) -> conn_pres f ->
  Q0 (with_mods (with_subs s sb) (upd_mod c f (mods s))).
Proof.
  intros HQ Hf Hc. apply (Q_keep s); [exact HQ|reflexivity| |cbn; lia].
  intros x Hx. cbn [mods with_mods with_subs]. rewrite (find_upd_field m_closed c x f); auto.
Qed.

Lemma CS_add_subscription c t s : m_reg (find_mod c (mods s)) = true -> CSat s (add_subscription cfg FUEL c t).
Proof.
  intros Hreg Hs HQ. pose proof Hs as (H & _).
  destruct (reg_open s c H Hreg) as (Hopen & Hc & Hin).
  pose proof (find_mod_conn_of_reg _ _ Hreg) as Hcc.
  unfold add_subscription. unfold bind at 1. unfold get.
  destruct (t =? ALL_MESSAGE_TYPES) eqn:Et.
  - apply Z.eqb_eq in Et. subst t.
    set (sb1 := drop_subs c (m_subs (find_mod c (mods s))) (subs s)).
    set (ms' := upd_mod c (fun m => mm_subs m [ALLT]) (mods s)).
    set (s3 := with_mods (with_subs (with_subs s sb1) (aupdate ALLT (zinsert c) sb1)) ms').
    assert (H3 : RegInv s3).
    { unfold RegInv, RegInvX, s3. simpl.
      assert (A : reg_ok [] (mods s) sb1 (loggers s) (next_uid s)) by (apply reg_ok_drop_subs; exact H).
      assert (B : reg_ok [] ms' sb1 (loggers s) (next_uid s)).
      { apply reg_ok_set_subs_absent; auto. intros t. apply (drop_subs_gone _ _ _ _ _ c H t). }
      assert (Hf : find_mod c ms' = mm_subs (find_mod c (mods s)) [ALLT]).
      { unfold ms'. rewrite find_upd_hit; auto. intro; reflexivity. }
      apply reg_ok_list_add; auto; rewrite Hf; simpl; auto. }
    assert (Q3 : Q0 s3) by (apply (Q_subs_step s c (fun m => mm_subs m [ALLT]) _ HQ); intro; reflexivity).
    change (qres (mlog cfg FUEL 10 s3)). pose proof (oc_mlog_top [] 10 s3 H3 Q3) as R. unfold qres.
    destruct (mlog cfg FUEL 10 s3); [apply R|exact R].
  - destruct (zmem ALL_MESSAGE_TYPES (m_subs (find_mod c (mods s)))) eqn:Eall; [exact HQ|].
    apply zmem_false in Eall. apply Z.eqb_neq in Et.
    set (s3 := with_mods (with_subs s (aupdate t (zinsert c) (subs s)))
                         (upd_mod c (fun m => mm_subs m (zinsert t (m_subs m))) (mods s))).
    assert (H3 : RegInv s3).
    { unfold RegInv, RegInvX, s3. simpl. apply reg_ok_sub_one; auto. }
    assert (Q3 : Q0 s3) by (apply (Q_subs_step s c (fun m => mm_subs m (zinsert t (m_subs m))) _ HQ); intro; reflexivity).
    change (qres (mlog cfg FUEL 10 s3)). pose proof (oc_mlog_top [] 10 s3 H3 Q3) as R. unfold qres.
    destruct (mlog cfg FUEL 10 s3); [apply R|exact R].
Qed.

Lemma CS_remove_subscription c t s : m_reg (find_mod c (mods s)) = true -> CSat s (remove_subscription cfg FUEL c t).
Proof.
  intros Hreg Hs HQ. pose proof Hs as (H & _).
  destruct (reg_open s c H Hreg) as (Hopen & Hc & Hin).
  unfold remove_subscription. unfold bind at 1. unfold get.
  destruct (t =? ALL_MESSAGE_TYPES) eqn:Et.
  - apply Z.eqb_eq in Et. subst t.
    set (sb1 := aupdate ALLT (zremove c) (subs s)).
    set (sb2 := drop_subs c (m_subs (find_mod c (mods s))) sb1).
    set (ms' := upd_mod c (fun m => mm_subs m []) (mods s)).
    set (s3 := with_mods (with_subs (with_subs s sb1) sb2) ms').
    assert (H3 : RegInv s3).
    { unfold RegInv, RegInvX, s3. simpl.
      assert (A : reg_ok [] (mods s) sb1 (loggers s) (next_uid s)) by (apply reg_ok_aupdate_remove; exact H).
      assert (B : reg_ok [] (mods s) sb2 (loggers s) (next_uid s)) by (apply reg_ok_drop_subs; exact A).
      apply reg_ok_set_subs_absent; auto.
      - intros t. apply (drop_subs_gone _ _ _ _ _ c A t).
      - simpl. tauto. }
    assert (Q3 : Q0 s3) by (apply (Q_subs_step s c (fun m => mm_subs m []) _ HQ); intro; reflexivity).
    change (qres (mlog cfg FUEL 10 s3)). pose proof (oc_mlog_top [] 10 s3 H3 Q3) as R. unfold qres.
    destruct (mlog cfg FUEL 10 s3); [apply R|exact R].
  - destruct (zmem ALL_MESSAGE_TYPES (m_subs (find_mod c (mods s)))) eqn:Eall; [exact HQ|].
    apply zmem_false in Eall.
    set (s3 := with_mods (with_subs s (aupdate t (zremove c) (subs s)))
                         (upd_mod c (fun m => mm_subs m (zremove t (m_subs m))) (mods s))).
    assert (H3 : RegInv s3).
    { unfold RegInv, RegInvX, s3. simpl. apply reg_ok_unsub_one; auto. }
    assert (Q3 : Q0 s3) by (apply (Q_subs_step s c (fun m => mm_subs m (zremove t (m_subs m))) _ HQ); intro; reflexivity).
    change (qres (mlog cfg FUEL 10 s3)). pose proof (oc_mlog_top [] 10 s3 H3 Q3) as R. unfold qres.
    destruct (mlog cfg FUEL 10 s3); [apply R|exact R].
Qed.

(* --- the connect path --- *)
Lemma oc_refuse c : OC [] [] (mlog cfg FUEL 40 ;;; remove_module cfg FUEL c ;;; ret true).
Proof.
  apply oc_bind; [apply J_mlog_top|apply oc_mlog_top|]. intros _.
  apply oc_bind; [apply J_remove_module_top; intros []|apply oc_remove_module_top; intros []|]. intros _. apply oc_ret.
Qed.

Lemma oc_connect_scan c me : forall others, OC [] [] (connect_scan cfg FUEL c me others).
Proof.
  induction others as [|m r IH]; cbn [connect_scan]; [apply oc_ret|].
  destruct (m_conn m =? c); [exact IH|].
  destruct ((m_mod_id m =? m_mod_id me) && (m_unique m || m_unique me)); [apply oc_refuse|].
  destruct (negb (m_name me =? 0)); [|exact IH].
  destruct ((m_unique m || m_unique me) && (m_name m =? m_name me)); [apply oc_refuse|].
  apply oc_bind; [apply J_mlog_top|apply oc_mlog_top|]. intros _. exact IH.
Qed.

Lemma qres_of_oc {A} (m : M A) s : OC [] [] m -> RegInv s -> Q0 s -> qres (m s).
Proof. intros H R HQ. specialize (H s R HQ). unfold qres. destruct (m s); [apply H|exact H]. Qed.

Lemma assign_q s : RegInv s -> Q0 s -> qres (assign_module_id cfg FUEL s).
Proof.
  intros H HQ. unfold assign_module_id. unfold bind at 1. unfold get. cbv zeta.
  destruct (assign_loop (Z.to_nat MAX_DYN_IDS) (dyn_off s) (map m_mod_id (registered s))) as [[mid|] off'].
  - cbn. apply (Q_keep s); auto. cbn. lia.
  - unfold bind at 1. unfold modify. set (s1 := with_dyn s off').
    assert (H1 : RegInv s1) by exact H. assert (Q1 : Q0 s1) by (apply (Q_keep s); auto; cbn; lia).
    unfold bind at 1. pose proof (qres_of_oc (mlog cfg FUEL 40) s1 (oc_mlog_top [] 40) H1 Q1) as N. unfold qres in *.
    destruct (mlog cfg FUEL 40 s1) as [u s2|e s2]; exact N.
Qed.

Lemma finish_conn_q c s : Q0 s -> qres (finish_conn c s).
Proof.
  intros HQ. unfold finish_conn, bind, set_mod, modify, get, ret. cbv beta.
  assert (Q1 : Q0 (with_mods s (upd_mod c mm_connected (mods s)))).
  { apply (Q_keep s); [exact HQ|reflexivity| |cbn; lia]. intros x Hx. cbn [mods with_mods]. rewrite (find_upd_field m_closed c x mm_connected); auto; intro; reflexivity. }
  destruct (m_logger _ && m_reg _); cbn [qres]; [|exact Q1]. apply (Q_keep _ _ Q1); auto. cbn. lia.
Qed.

Lemma phase2_q c s : RegInv s -> DynInv s -> Q0 s -> m_reg (find_mod c (mods s)) = true -> qres (phase2 cfg FUEL c s).
Proof.
  intros H Hd HQ Hreg. unfold phase2. unfold bind at 1. unfold get. set (me := find_mod c (mods s)).
  destruct (negb (m_mod_id me =? 0)) eqn:Eid.
  - destruct (bad_user_id (m_mod_id me)) eqn:Ebad.
    + unfold bind at 1. pose proof (qres_of_oc _ s (oc_refuse c) H HQ) as N.
      destruct ((mlog cfg FUEL 40;;; remove_module cfg FUEL c;;; ret true) s) as [b s1|e s1]; [|exact N].
      destruct b; [exact N|apply finish_conn_q; exact N].
    + unfold bind at 1. pose proof (qres_of_oc _ s (oc_connect_scan c me (registered s)) H HQ) as N.
      destruct (connect_scan cfg FUEL c me (registered s) s) as [b s1|e s1]; [|exact N].
      destruct b; [exact N|apply finish_conn_q; exact N].
  - unfold bind at 1. unfold bind at 1. pose proof (assign_spec cfg FUEL c s H Hd) as A.
    pose proof (assign_q s H HQ) as N.
    destruct (assign_module_id cfg FUEL s) as [[mid|] s1|e s1]; [| |exact N].
    + unfold bind at 1. unfold set_mod, modify. cbn [ret bind]. cbv beta iota. apply finish_conn_q.
      apply (Q_keep s1); [exact N|reflexivity| |cbn; lia]. intros x Hx. cbn [mods with_mods].
      rewrite (find_upd_field m_closed c x (fun m => mm_modid m mid)); auto; intro; reflexivity.
    + destruct A as (H1 & K1 & D1). unfold bind at 1.
      pose proof (qres_of_oc _ s1 (oc_remove_module_top [] c (fun x => x)) H1 N) as Nr.
      destruct (remove_module cfg FUEL c s1) as [u3 s3|e3 s3]; exact Nr.
Qed.

Lemma Q_setm s c f : Q0 s -> (forall m, m_closed (f m) = m_closed m) -> conn_pres f -> Q0 (with_mods s (upd_mod c f (mods s))).
Proof.
  intros HQ Hf Hc. apply (Q_keep s); [exact HQ|reflexivity| |cbn; lia]. intros x Hx. cbn [mods with_mods].
  rewrite (find_upd_field m_closed c x f); auto.
Qed.

Lemma connect_module_q c h ip s : RegInv s -> DynInv s -> Q0 s ->
  m_reg (find_mod c (mods s)) = true -> qres (connect_module cfg FUEL c h ip s).
Proof.
  intros H Hd HQ Hreg. rewrite connect_module_unfold. unfold bind at 1. unfold get. cbv zeta.
  destruct (m_connected (find_mod c (mods s))) eqn:Hcn; [exact HQ|].
  assert (Finish : forall s1, RegInv s1 -> dyn_off s1 = dyn_off s -> Q0 s1 ->
            m_reg (find_mod c (mods s1)) = true -> qres (phase2 cfg FUEL c s1)).
  { intros s1 H1 D1 Q1 R1. apply phase2_q; auto. unfold DynInv; rewrite D1; exact Hd. }
  assert (Refuse : forall s1, RegInv s1 -> Q0 s1 ->
            qres ((bad <- (mlog cfg FUEL 40 ;;; remove_module cfg FUEL c ;;; ret true) ;;
                   if bad then ret false else phase2 cfg FUEL c) s1)).
  { intros s1 H1 Q1. unfold bind at 1. pose proof (refuse_spec cfg FUEL c s1 H1) as R.
    pose proof (qres_of_oc _ s1 (oc_refuse c) H1 Q1) as N.
    destruct ((mlog cfg FUEL 40;;; remove_module cfg FUEL c;;; ret true) s1) as [b s2|e s2]; [|exact N].
    destruct R as (-> & _). exact N. }
  destruct ip as [id|lg dm|lg dm am mid pid name ascii|mt|pid|name ascii|].
  + cbn [bind ret]. apply Finish; auto.
  + unfold bind at 1. unfold bind at 1. unfold set_mod at 1, modify.
    destruct (store_keeps c (fun m => mm_modid m (h_src_mod h)) s H (keeps_modid _) Hcn Hreg) as (A1 & A2 & A3 & A4 & A5).
    pose proof (Q_setm s c (fun m => mm_modid m (h_src_mod h)) HQ (fun _ => eq_refl) (fun _ => eq_refl)) as QA.
    set (s1 := with_mods s (upd_mod c (fun m => mm_modid m (h_src_mod h)) (mods s))) in *.
    unfold bind at 1. unfold set_mod at 1, modify.
    destruct (store_keeps c (fun m => mm_flags m (lg =? 1) (dm =? 1)) s1 A1 (keeps_flags _ _) A3 A4) as (B1 & B2 & B3 & B4 & B5).
    pose proof (Q_setm s1 c (fun m => mm_flags m (lg =? 1) (dm =? 1)) QA (fun _ => eq_refl) (fun _ => eq_refl)) as QB.
    set (s2 := with_mods s1 (upd_mod c (fun m => mm_flags m (lg =? 1) (dm =? 1)) (mods s1))) in *.
    cbn [bind ret]. cbv beta iota. apply Finish; [exact B1|congruence|exact QB|exact B4].
  + unfold bind at 1. unfold bind at 1. unfold set_mod at 1, modify.
    destruct (store_keeps c (fun m => mm_ident m mid pid (m_name m) (am =? 0)) s H (keeps_ident _ _ _) Hcn Hreg) as (A1 & A2 & A3 & A4 & A5).
    pose proof (Q_setm s c (fun m => mm_ident m mid pid (m_name m) (am =? 0)) HQ (fun _ => eq_refl) (fun _ => eq_refl)) as QA.
    set (s1 := with_mods s (upd_mod c (fun m => mm_ident m mid pid (m_name m) (am =? 0)) (mods s))) in *.
    destruct ascii.
    * unfold bind at 1. unfold set_mod at 1, modify.
      destruct (store_keeps c (fun m => mm_name m name) s1 A1 (keeps_name _) A3 A4) as (B1 & B2 & B3 & B4 & B5).
      pose proof (Q_setm s1 c (fun m => mm_name m name) QA (fun _ => eq_refl) (fun _ => eq_refl)) as QB.
      set (s2 := with_mods s1 (upd_mod c (fun m => mm_name m name) (mods s1))) in *.
      unfold bind at 1. unfold set_mod at 1, modify.
      destruct (store_keeps c (fun m => mm_flags m (lg =? 1) (dm =? 1)) s2 B1 (keeps_flags _ _) B3 B4) as (C1 & C2 & C3 & C4 & C5).
      pose proof (Q_setm s2 c (fun m => mm_flags m (lg =? 1) (dm =? 1)) QB (fun _ => eq_refl) (fun _ => eq_refl)) as QC.
      set (s3 := with_mods s2 (upd_mod c (fun m => mm_flags m (lg =? 1) (dm =? 1)) (mods s2))) in *.
      cbn [bind ret]. cbv beta iota. apply Finish; [exact C1|congruence|exact QC|exact C4].
    * apply (Refuse s1 A1 QA).
  + cbn [bind ret]. apply Finish; auto.
  + cbn [bind ret]. apply Finish; auto.
  + cbn [bind ret]. apply Finish; auto.
  + cbn [bind ret]. apply Finish; auto.
Qed.

End TopQ.

Lemma CS_get' {A} (k : mstate -> M A) : (forall s0, CS (k s0)) -> CS (bind get k).
Proof. intros H. apply CS_get. intros s0. apply H. Qed.

Section TopQ2.
Variable cfg : config.
Variable FUEL : nat.

Lemma CS_process_message c h ip s : m_reg (find_mod c (mods s)) = true -> CSat s (process_message cfg FUEL c h ip).
Proof.
  intros Hreg Hs HQ. unfold process_message. cbv zeta.
  destruct ((h_type h =? MT_CONNECT) || (h_type h =? MT_CONNECT_V2)).
  { unfold bind at 1. pose proof Hs as (R & I0 & U & D & N).
    pose proof (connect_module_spec cfg FUEL c h ip s R D Hreg) as C.
    pose proof (connect_module_q cfg FUEL c h ip s R D HQ Hreg) as Nc.
    destruct (connect_module cfg FUEL c h ip s) as [ok s1|e s1]; [|exact Nc].
    destruct C as (R1 & K1 & D1 & P1). pose proof (conn_StepInv c s s1 Hs R1 K1 D1 P1) as Hs1.
    destruct ok; [|exact Nc].
    apply (CS_bind (send_ack cfg FUEL c) _ (S_send_ack cfg FUEL c) (CS_send_ack cfg FUEL c)); [|exact Hs1|exact Nc].
    intros _. apply CS_bind; [apply S_send_client_info|apply CS_send_client_info|]. intros _. apply CS_mlog. }
  destruct (h_type h =? MT_DISCONNECT).
  { apply (CS_bind _ _ (S_remove_module cfg FUEL c) (CS_remove_module cfg FUEL c)); [|exact Hs|exact HQ]. intros _. apply CS_mlog. }
  destruct ((h_type h =? MT_SUBSCRIBE) || (h_type h =? MT_RESUME_SUBSCRIPTION)).
  { unfold bind at 1. destruct ip; try (cbn [ret]; apply CS_send_ack; assumption).
    pose proof (Tpre_Spre _ _ (add_subscription_T cfg FUEL c msg_type) s Hs Hreg) as A.
    pose proof (CS_add_subscription cfg FUEL c msg_type s Hreg Hs HQ) as Nc.
    destruct (add_subscription cfg FUEL c msg_type s) as [u s1|e s1]; [|exact Nc]. apply CS_send_ack; assumption. }
  destruct ((h_type h =? MT_UNSUBSCRIBE) || (h_type h =? MT_PAUSE_SUBSCRIPTION)).
  { unfold bind at 1. destruct ip; try (cbn [ret]; apply CS_send_ack; assumption).
    pose proof (Tpre_Spre _ _ (remove_subscription_T cfg FUEL c msg_type) s Hs Hreg) as A.
    pose proof (CS_remove_subscription cfg FUEL c msg_type s Hreg Hs HQ) as Nc.
    destruct (remove_subscription cfg FUEL c msg_type s) as [u s1|e s1]; [|exact Nc]. apply CS_send_ack; assumption. }
  destruct (h_type h =? MT_CLIENT_SET_NAME).
  { revert s Hs HQ Hreg. intros s Hs HQ _. revert s Hs HQ.
    assert (Sn : forall nm, S (set_mod c (fun m => mm_name m nm))).
    { intros nm. apply S_set_keeps; [apply keeps_name|reflexivity|intro; apply km_name]. }
    apply CS_bind; [| |intros _; apply CS_send_client_info].
    - destruct ip; try apply S_mlog. destruct ascii; [|apply S_mlog]. apply S_bind; [apply Sn|intros _; apply S_mlog].
    - destruct ip; try apply CS_mlog. destruct ascii; [|apply CS_mlog].
      apply CS_bind; [apply Sn|apply CS_set_mod; intro; reflexivity|intros _; apply CS_mlog]. }
  destruct (h_type h =? MT_MODULE_READY).
  { revert s Hs HQ Hreg. intros s Hs HQ _. revert s Hs HQ.
    apply CS_bind; [| |intros _; apply CS_send_client_info].
    - destruct ip; try apply S_ret. apply S_set_keeps; [apply keeps_pid|reflexivity|intro; apply km_pid].
    - destruct ip; try apply CS_ret. apply CS_set_mod; intro; reflexivity. }
  revert s Hs HQ Hreg. intros s Hs HQ _. revert s Hs HQ.
  apply CS_bind; [apply S_mlog|apply CS_mlog|]. intros _. apply CS_fwd. destruct ip; reflexivity.
Qed.

Lemma CS_service c ib : CS (service cfg FUEL c ib).
Proof.
  unfold service. apply CS_get. intros s Hs HQ.
  destruct (m_reg (find_mod c (mods s))) eqn:Hreg; cbn [negb]; [|exact HQ].
  assert (Rm : forall lvl, CS (remove_module cfg FUEL c ;;; mlog cfg FUEL lvl)).
  { intros lvl. apply CS_bind; [apply S_remove_module|apply CS_remove_module|]. intros _. apply CS_mlog. }
  destruct ib as [h ip| |h| |h].
  - destruct (bad_size (h_nbytes h)); [apply Rm; assumption|]. apply CS_process_message; auto.
  - apply Rm; assumption.
  - destruct (bad_size (h_nbytes h)); [apply Rm; assumption|].
    destruct (h_nbytes h =? 0); [apply CS_process_message; auto|apply Rm; assumption].
  - apply Rm; assumption.
  - destruct (bad_size (h_nbytes h)); [apply Rm; assumption|].
    destruct (h_nbytes h =? 0); [apply CS_process_message; auto|apply Rm; assumption].
Qed.

Ltac q_mod := apply CS_bind; [apply S_modify_aux; intros; simpl; auto|apply CS_modify_mods; intros; cbn; auto|]; intros _.

Lemma CS_send_timing : CS (send_timing_message cfg FUEL).
Proof.
  unfold send_timing_message. apply CS_get'. intros s0.
  destruct (timing_writes (counts s0)) as [tw|]; [|apply CS_crash]. q_mod.
  destruct (pid_writes (registered s0)) as [pw|]; [|apply CS_crash]. cbv zeta. q_mod.
  apply CS_bind; [apply S_send_mgr|apply CS_send_mgr; reflexivity|]. intros _. apply CS_modify_mods; intros; cbn; auto.
Qed.

Lemma CS_send_traffic now : CS (send_traffic cfg FUEL now).
Proof.
  unfold send_traffic. apply CS_get'. intros s0. cbv zeta. q_mod.
  apply CS_bind; [apply S_mlog|apply CS_mlog|]. intros _. apply CS_get'. intros s1.
  apply CS_bind.
  - apply S_mapM; intros [[sub ty] ct]; apply S_send_mgr.
  - apply CS_mapM; intros [[sub ty] ct]; [apply S_send_mgr|apply CS_send_mgr; reflexivity].
  - intros _. q_mod. q_mod. apply CS_modify_mods; intros; cbn; auto.
Qed.

Lemma CS_active_loop : forall l i acc, CS (active_loop cfg FUEL i l acc).
Proof.
  induction l as [|c r IH]; intros i acc; cbn [active_loop]; [apply CS_ret|].
  apply CS_get'. intros s0. cbv zeta. rewrite active_slot_in_array.
  apply CS_bind; [apply S_ret|apply CS_ret|]. intros _.
  apply CS_bind; [apply S_send_client_info|apply CS_send_client_info|]. intros _. apply IH.
Qed.

Lemma CS_send_active now : CS (send_active_clients cfg FUEL now).
Proof.
  unfold send_active_clients. apply CS_bind; [apply S_mlog|apply CS_mlog|]. intros _.
  apply CS_get'. intros s0. apply CS_bind; [apply active_loop_S|apply CS_active_loop|]. intros entries.
  apply CS_get'. intros s1. apply CS_bind; [apply S_send_mgr|apply CS_send_mgr; reflexivity|]. intros _.
  apply CS_modify_mods; intros; cbn; auto.
Qed.

Lemma CS_periodic now : CS (periodic cfg FUEL now).
Proof.
  unfold periodic. apply CS_get'. intros s0.
  apply CS_bind.
  { destruct (_ && _); [|apply S_ret]. apply S_bind; [apply send_timing_S|]. intros _. apply S_modify_aux; intros; simpl; auto. }
  { destruct (_ && _); [|apply CS_ret]. apply CS_bind; [apply send_timing_S|apply CS_send_timing|]. intros _. apply CS_modify_mods; intros; cbn; auto. }
  intros _. apply CS_get'. intros s1.
  apply CS_bind; [destruct (elapsed _ _ _ _); [apply send_traffic_S|apply S_ret]|destruct (elapsed _ _ _ _); [apply CS_send_traffic|apply CS_ret]|].
  intros _. apply CS_get'. intros s2. destruct (elapsed _ _ _ _); [apply CS_send_active|apply CS_ret].
Qed.

(* accepting a connection: the new uid is fresh, nothing was ever written about it *)
Lemma CS_accept : CS (modify (fun s => with_uid (with_mods s (mods s ++ [new_module (next_uid s + 1)])) (next_uid s + 1))).
Proof.
  intros s Hs [_ H]. cbn [modify qres]. split; [apply Ex_nil|]. intros c. destruct (H c) as [A B]. unfold okc. rewrite !W_nil in *.
  cbn [out with_uid with_mods]. split; [exact A|]. intros Hne. destruct (B Hne) as [B1 B2]. cbn [mods next_uid with_uid with_mods].
  split; [|lia]. rewrite find_mod_app_other; [exact B1|]. cbn [new_module m_conn]. lia.
Qed.

Lemma S_accept : S (modify (fun s => with_uid (with_mods s (mods s ++ [new_module (next_uid s + 1)])) (next_uid s + 1))).
Proof. intros s Hs. simpl. apply accept_StepInv. exact Hs. Qed.

Lemma CS_step e : CS (step cfg FUEL e).
Proof.
  destruct e as [accept ready0 writable now|c n]; cbn [step].
  2:{ apply CS_modify_mods. intros s. destruct (flookup c (faults s)) as [k|]; [destruct (k <=? 0)|]; cbn; auto. }
  apply CS_get'. intros s0. cbv zeta.
  generalize (filter (fun x : Z * inbound => m_reg (find_mod (fst x) (mods s0))) ready0). intros ready.
  assert (SA : S (if accept then mlog cfg FUEL 20 ;;; modify (fun s => with_uid (with_mods s (mods s ++ [new_module (next_uid s + 1)])) (next_uid s + 1)) else ret tt)).
  { destruct accept; [|apply S_ret]. apply S_bind; [apply S_mlog|]. intros _. apply S_accept. }
  assert (Swl : forall w, S (modify (fun s => with_wl s w))) by (intros w; apply S_modify_aux; intros; simpl; auto).
  apply CS_bind; [| |intros _; apply CS_periodic].
  - destruct (accept || _); [|apply S_ret]. apply S_bind; [exact SA|]. intros _. apply S_bind; [apply Swl|]. intros _.
    apply S_mapM. intros [c ib]. apply service_S.
  - destruct (accept || _); [|apply CS_ret]. apply CS_bind; [exact SA| |].
    + destruct accept; [|apply CS_ret]. apply CS_bind; [apply S_mlog|apply CS_mlog|]. intros _. apply CS_accept.
    + intros _. apply CS_bind; [apply Swl|apply CS_modify_mods; intros; cbn; auto|]. intros _.
      apply CS_mapM; intros [c ib]; [apply service_S|apply CS_service].
Qed.

Lemma Q_init0 : Q0 init0.
Proof.
  split; [apply Ex_nil|]. intros c. unfold okc. rewrite W_nil. cbn [out init0 ccs filter map].
  split; [constructor|intros Hn; exfalso; apply Hn; reflexivity].
Qed.

Lemma run_from_Q : forall es r,
  match r with Ok _ s => StepInv s /\ Q0 s | Crash _ s => Qc0 s end -> Qc0 (st (run_from cfg FUEL r es)).
Proof.
  induction es as [|e es IH]; intros r Hr; destruct r as [u s|x s]; cbn [run_from st]; try exact Hr; try (apply Q_Qc; apply Hr).
  apply IH. destruct Hr as [Hs HQ]. pose proof (step_S cfg FUEL e s Hs) as HS. pose proof (CS_step e s Hs HQ) as HC. unfold qres in HC.
  destruct (step cfg FUEL e s); [split; assumption|exact HC].
Qed.

End TopQ2.

(* at most one CLIENT_CLOSED about a given uid is ever written to a given connection - any configuration, any
   budget, any history, Ok or Crash *)
Theorem closed_at_most_once : forall cfg FUEL es g c,
  (length (filter (is_cc c) (proj g (out (st (run cfg FUEL es))))) <= 1)%nat.
Proof.
  intros cfg FUEL es g c.
  assert (HQ : Qc0 (st (run cfg FUEL es))).
  { unfold run. apply run_from_Q. unfold init.
    pose proof (S_mlog cfg FUEL 20 init0 init0_StepInv) as HS. pose proof (CS_mlog cfg FUEL 20 init0 init0_StepInv Q_init0) as HC.
    unfold qres in HC. destruct (mlog cfg FUEL 20 init0); [split; assumption|exact HC]. }
  destruct HQ as [_ H]. apply ccs_count. rewrite <- (W_nil (st (run cfg FUEL es))). apply H.
Qed.

(* ---------- at every reachable state ---------- *)

Theorem departure_reaches_healthy_reachable cfg fuel es u s k c g s' :
  run cfg fuel es = Ok u s -> m_reg (find_mod c (mods s)) = true ->
  In g (snapshot s MT_CLIENT_CLOSED) -> g <> c -> zmem g (wl s) = true -> flookup g (faults s) = None ->
  remove_module_with cfg (forward cfg k) c s = Ok tt s' ->
  exists suf, out s' = out s ++ suf /\
    closed_once c (client_payload true (find_mod c (mods s))) g suf /\ still_healthy g s s' /\
    m_reg (find_mod c (mods s')) = false /\ m_closed (find_mod c (mods s')) = true.
Proof.
  intros Hrun. pose proof (run_safe cfg fuel es) as R. rewrite Hrun in R. destruct R as (R & _).
  apply departure_reaches_healthy with (X := []); [exact R|intros []].
Qed.

(* ---------- non-vacuity ----------
   conns 2 and 5 subscribe to CLIENT_CLOSED, conn 4 to type 100; then the writes to conns 4 and 5 start failing.
   In ONE round conn 3 hangs up (EOF) and conn 1 publishes type 100: the CLIENT_CLOSED about 3 reaches conn 2 and
   fails on conn 5, which is removed inside that delivery (its own CLIENT_CLOSED reaches conn 2); the type-100 message
   fails on conn 4, which is removed (CLIENT_CLOSED to conn 2).  Conn 2 has received exactly one CLIENT_CLOSED about
   each of 3, 4 and 5, nobody else any. *)
Definition co_hdr (t sm : Z) : hdr := mkHdr t 1 0 sm 0 0 4 7.
Definition co_hist : list event :=
  [ERound true [] [] 0; ERound true [] [] 0; ERound true [] [] 0; ERound true [] [] 0; ERound true [] [] 0;
   ERound false [(1, IFrame (co_hdr MT_CONNECT 10) (InConnect 0 0)); (2, IFrame (co_hdr MT_CONNECT 11) (InConnect 0 0));
                 (3, IFrame (co_hdr MT_CONNECT 12) (InConnect 0 0)); (4, IFrame (co_hdr MT_CONNECT 13) (InConnect 0 0));
                 (5, IFrame (co_hdr MT_CONNECT 14) (InConnect 0 0))] [1;2;3;4;5] 0;
   ERound false [(2, IFrame (co_hdr MT_SUBSCRIBE 11) (InSub MT_CLIENT_CLOSED)); (5, IFrame (co_hdr MT_SUBSCRIBE 14) (InSub MT_CLIENT_CLOSED));
                 (4, IFrame (co_hdr MT_SUBSCRIBE 13) (InSub 100))] [1;2;3;4;5] 0;
   EFault 4 0; EFault 5 0;
   ERound false [(3, IEof); (1, IFrame (mkHdr 100 1 0 10 0 0 1 9) (InData 5))] [1;2;3;4;5] 0].

Example closed_once_ex :
  match run (mkConfig 60 true) 20%nat co_hist with
  | Ok _ s =>
    (map (fun g => map (fun c => length (filter (is_cc c) (proj g (out s)))) [1; 2; 3; 4; 5]) [1; 2; 3; 4; 5],
     map (fun c => m_reg (find_mod c (mods s))) [1; 2; 3; 4; 5],
     flat_map (fun it => match it with OPay (PClient true uid _ mid _ _ _) => [(uid, mid)] | _ => [] end) (proj 2 (out s)))
  | Crash _ _ => ([], [], [])
  end =
  ([[0; 0; 0; 0; 0]; [0; 0; 1; 1; 1]; [0; 0; 0; 0; 0]; [0; 0; 0; 0; 0]; [0; 0; 0; 0; 0]]%nat,
   [true; true; false; false; false],
   [(3, 12); (5, 14); (4, 13)]).
Proof. vm_compute. reflexivity. Qed.

