(* C14, second clause, end to end: a send that fails.  The delivery of a message to an eligible, writable,
   registered recipient c whose write fails (its fault plan is exhausted, sendall raises ConnectionError)
   - bumps c's sequence counter although nothing is written, and returns the header so stamped;
   - removes c: one whole CLIENT_CLOSED frame describing c goes to each eligible remaining subscriber of
     CLIENT_CLOSED;
   - then publishes ONE failure notice naming c's module id and embedding the stamped header: one whole
     FAILED_MESSAGE frame to each eligible subscriber of FAILED_MESSAGE;
   - writes nothing else, and leaves c unregistered and closed
   (error and debug logging off, the subscribers of the two notices writable with no armed fault, the message
   type itself not a log record / failure notice). *)
From Coq Require Import ZArith List Bool Lia ZifyBool.
From Mgr Require Import Gen.MgrDefs Model.Manager Proofs.ListLemmas Proofs.Hoare Proofs.RegInv Proofs.Frame
                        Proofs.RegTraverse Proofs.RegTop Proofs.StepInv Proofs.Routing Proofs.OutInv Proofs.C05Inv
                        Proofs.Exact Proofs.ExactTop Proofs.AckExact Proofs.Fuel Proofs.DepartExact.
Import ListNotations.
Open Scope Z_scope.

(* ---------- forward_exact / departure_exact once more, also exporting wl and the fault plan ---------- *)

Theorem forward_exact' cfg k h p s :
  bad_dest_mod (h_dst_mod h) = false -> bad_dest_host (h_dst_host h) = false ->
  NoDup (snapshot s (h_type h)) -> (forall c, In c (snapshot s (h_type h)) -> ready s c) ->
  exists s', forward cfg (Datatypes.S k) h p s = Ok tt s' /\
             out s' = out s ++ frames h p s (snapshot s (h_type h)) /\
             subs s' = subs s /\ loggers s' = loggers s /\ wl s' = wl s /\ faults s' = faults s /\
             (forall c', ~ In c' (snapshot s (h_type h)) -> find_mod c' (mods s') = find_mod c' (mods s)).
Proof.
  intros Hm Hh Hnd Hr. cbn [forward]. unfold forward_body. unfold bind at 1. unfold count_msg. unfold bind at 1. unfold get.
  set (s0 := if negb (sending_traffic s)
             then with_counts s (if timing_on cfg then cincr (h_type h) (counts s) else counts s) (cincr (h_type h) (traffic s))
             else s).
  assert (E0 : (if negb (sending_traffic s)
                then modify (fun s => with_counts s (if timing_on cfg then cincr (h_type h) (counts s) else counts s) (cincr (h_type h) (traffic s)))
                else ret tt) s = Ok tt s0).
  { unfold s0. destruct (negb (sending_traffic s)); reflexivity. }
  rewrite E0. rewrite Hm, Hh. unfold bind at 1. unfold get.
  assert (Hsame : mods s0 = mods s /\ subs s0 = subs s /\ wl s0 = wl s /\ faults s0 = faults s /\ out s0 = out s /\ loggers s0 = loggers s).
  { unfold s0. destruct (negb (sending_traffic s)); simpl; auto 10. }
  destruct Hsame as (Em & Es & Ew & Ef & Eo & El).
  assert (Esn : snapshot s0 (h_type h) = snapshot s (h_type h)) by (unfold snapshot; rewrite Es; reflexivity).
  rewrite Esn.
  destruct (deliver_loop_exact cfg (forward cfg k) p (snapshot s (h_type h)) h s0 Hnd) as (s' & E & Ho & Hw & Hf & Hsb & Hlg & Hoth).
  { intros c Hin. specialize (Hr c Hin). unfold ready in *. rewrite Em, Ew, Ef. exact Hr. }
  exists s'. split; [exact E|]. split.
  - rewrite Ho, Eo. f_equal. apply frames_ext; auto. intros c _. rewrite Em. reflexivity.
  - rewrite Hsb, Hlg, Hw, Hf, Es, El, Ew, Ef. repeat split; auto. intros c' Hn. rewrite (Hoth c' Hn), Em. reflexivity.
Qed.

Theorem departure_exact' cfg (k : nat) c s X :
  ~ In c X -> RegInvX X s -> m_reg (find_mod c (mods s)) = true -> 10 < loglevel cfg ->
  (forall f, In f (snapshot (closed_state s c) MT_CLIENT_CLOSED) ->
             zmem f (wl s) = true /\ flookup f (faults s) = None) ->
  exists s', remove_module_with cfg (forward cfg (Datatypes.S k)) c s = Ok tt s' /\
    out s' = out s ++ frames cc_hdr (client_payload true (find_mod c (mods (closed_state s c)))) (closed_state s c)
                             (snapshot (closed_state s c) MT_CLIENT_CLOSED) /\
    m_reg (find_mod c (mods s')) = false /\ m_closed (find_mod c (mods s')) = true /\
    ~ In c (snapshot (closed_state s c) MT_CLIENT_CLOSED) /\
    subs s' = subs (closed_state s c) /\ loggers s' = loggers (closed_state s c) /\
    wl s' = wl s /\ faults s' = faults s.
Proof.
  intros HcX H0 Hreg Hlog Henv.
  destruct (closed_state_inv X c s HcX H0 Hreg) as (H3 & Hpos & Hopen).
  rewrite (remove_unfold_explicit cfg _ c s Hreg).
  assert (Ew3 : wl (closed_state s c) = wl s) by reflexivity.
  assert (Ef3 : faults (closed_state s c) = faults s) by reflexivity.
  set (s3 := closed_state s c) in *.
  assert (Hnin : ~ In c (snapshot s3 MT_CLIENT_CLOSED)).
  { intros Hin. apply (snapshot_not_inflight (c :: X) s3 MT_CLIENT_CLOSED c H3 Hin). left. reflexivity. }
  destruct (ro_xreg _ _ _ _ _ H3 c (or_introl eq_refl)) as [Hr3 Hc3].
  unfold rm_rest. unfold bind at 1.
  assert (Hoff : loglevel cfg <=? 10 = false) by lia.
  unfold mlog_with at 1. rewrite Hoff. cbn [andb].
  unfold bind at 1. unfold get. unfold bind at 1. unfold send_mgr_with.
  destruct (forward_exact' cfg k cc_hdr (client_payload true (find_mod c (mods s3))) s3)
    as (s' & E & Ho & Hsb & Hlg & Hw & Hf & Hkeep).
  - reflexivity.
  - reflexivity.
  - change (h_type cc_hdr) with MT_CLIENT_CLOSED. eapply snapshot_NoDup; eauto. discriminate.
  - change (h_type cc_hdr) with MT_CLIENT_CLOSED. intros f Hin. destruct (Henv f Hin) as [Hw Hf].
    eapply RegInv_ready; eauto.
  - change (mgr_hdr MT_CLIENT_CLOSED SZ_CLIENT_CLOSED 0) with cc_hdr. rewrite E.
    unfold bind at 1. unfold get.
    assert (Ek : find_mod c (mods s') = find_mod c (mods s3)) by (apply Hkeep; exact Hnin).
    rewrite Ek, Hr3. unfold set_mod, modify. eexists. split; [reflexivity|].
    cbn [out subs loggers mods wl faults with_mods]. split; [rewrite Ho; reflexivity|].
    assert (Hcc : m_conn (find_mod c (mods s')) = c) by (rewrite Ek; apply find_mod_conn_of_reg; exact Hr3).
    rewrite find_upd_same; auto; [|intro; reflexivity]. rewrite Hcc, Z.eqb_refl. cbn [mm_unreg m_reg m_closed].
    rewrite Ek. repeat split; auto; congruence.
Qed.

(* ---------- the failing write ---------- *)

Lemma mod_send_fail c hh p s :
  m_closed (find_mod c (mods s)) = false -> (exists n, flookup c (faults s) = Some n /\ n <= 0) ->
  mod_send c hh p s =
    Ok (SConnErr, set_count hh (cnt s c + 1))
       (with_mods s (upd_mod c (fun m => mm_count m (cnt s c + 1)) (mods s))).
Proof.
  intros Hopen (n & Hf & Hn). rewrite mod_send_eq. cbv zeta. fold (cnt s c).
  set (s0 := with_mods s (upd_mod c (fun m => mm_count m (cnt s c + 1)) (mods s))).
  assert (Hc0 : m_closed (find_mod c (mods s0)) = false).
  { unfold s0. cbn [mods with_mods]. rewrite (find_upd_field m_closed); [exact Hopen|intro; reflexivity|intro; reflexivity]. }
  assert (E : sendall c (OHdr (set_count hh (cnt s c + 1))) s0 = Ok SConnErr s0).
  { unfold sendall. rewrite Hc0. change (faults s0) with (faults s). rewrite Hf.
    assert (Hle : n <=? 0 = true) by lia. rewrite Hle. reflexivity. }
  rewrite E. reflexivity.
Qed.

Lemma mlog_with_off cfg rec lvl s : loglevel cfg <=? lvl = false -> mlog_with cfg rec lvl s = Ok tt s.
Proof. intros H. unfold mlog_with. rewrite H. reflexivity. Qed.

Lemma snapshot_Frame s s' t f : Frame s s' -> In f (snapshot s' t) -> In f (snapshot s t).
Proof.
  intros F Hin. unfold snapshot in *. apply in_app_or in Hin. apply in_or_app.
  destruct Hin as [Hin|Hin]; [left|right]; apply (fr_subs _ _ F); exact Hin.
Qed.

Lemma Frame_closed_state s c : Frame s (closed_state s c).
Proof.
  unfold closed_state. cbv zeta. eapply Frame_trans; [apply Frame_drop_subs|].
  eapply Frame_trans; [apply Frame_drop_logger|]. apply Frame_upd. intro; apply fm_close.
Qed.

Theorem failing_send_exact cfg (k : nat) p hh c s X :
  ~ In c X -> RegInvX X s -> 40 < loglevel cfg ->
  zmem (h_type hh) no_notice_types = false ->
  m_reg (find_mod c (mods s)) = true -> zmem c (wl s) = true ->
  dest_filter (h_dst_mod hh) (m_mod_id (find_mod c (mods s))) (m_logger (find_mod c (mods s))) = true ->
  (exists n, flookup c (faults s) = Some n /\ n <= 0) ->
  (forall f, f <> c -> (In f (snapshot s MT_CLIENT_CLOSED) \/ In f (snapshot s MT_FAILED_MESSAGE)) ->
             zmem f (wl s) = true /\ flookup f (faults s) = None) ->
  let s0 := with_mods s (upd_mod c (fun m => mm_count m (cnt s c + 1)) (mods s)) in
  let hh' := set_count hh (cnt s c + 1) in
  exists s1 s',
    deliver_with cfg (forward cfg (Datatypes.S k)) p hh c s = Ok hh' s' /\
    out s1 = out s ++ frames cc_hdr (client_payload true (find_mod c (mods (closed_state s0 c)))) (closed_state s0 c)
                             (snapshot (closed_state s0 c) MT_CLIENT_CLOSED) /\
    out s' = out s1 ++ frames fail_hdr (PFailed (m_mod_id (find_mod c (mods s1))) hh') s1 (snapshot s1 MT_FAILED_MESSAGE) /\
    m_mod_id (find_mod c (mods s1)) = m_mod_id (find_mod c (mods s)) /\
    m_reg (find_mod c (mods s')) = false /\ m_closed (find_mod c (mods s')) = true /\
    subs s1 = subs (closed_state s0 c) /\ Frame s s1.
Proof.
  intros HcX H0 Hlog Ht Hreg Hwl Hdf Hfault Henv s0 hh'.
  destruct (closed_state_inv X c s HcX H0 Hreg) as (_ & Hpos & Hopen).
  (* the counter update keeps the invariant *)
  pose proof (J_set_count X c (cnt s c + 1) s H0) as HJ0. unfold set_mod, modify in HJ0. fold s0 in HJ0.
  destruct HJ0 as [H0' F0].
  assert (Hreg0 : m_reg (find_mod c (mods s0)) = true).
  { unfold s0. cbn [mods with_mods]. rewrite (find_upd_field m_reg); [exact Hreg|intro; reflexivity|intro; reflexivity]. }
  (* the departure *)
  assert (Hrec : forall X h p, J X (forward cfg (Datatypes.S k) h p)) by (intros; apply J_forward).
  destruct (departure_exact' cfg k c s0 X HcX H0' Hreg0 ltac:(lia)) as (s1 & Erm & Ho1 & Hr1 & Hc1 & _ & Hsb1 & _ & Hw1 & Hf1).
  { intros f Hin. change (wl s0) with (wl s). change (faults s0) with (faults s).
    assert (Hne : f <> c).
    { intro; subst f. destruct (closed_state_inv X c s0 HcX H0' Hreg0) as (H3 & _).
      apply (snapshot_not_inflight (c :: X) _ MT_CLIENT_CLOSED c H3 Hin). left. reflexivity. }
    apply Henv; [exact Hne|]. left. apply (snapshot_Frame s s0); [exact F0|].
    apply (snapshot_Frame s0 (closed_state s0 c)); [apply Frame_closed_state|exact Hin]. }
  pose proof (J_remove_module cfg _ Hrec X c HcX s0 H0') as HJ1. rewrite Erm in HJ1. destruct HJ1 as [H1 F1].
  assert (F : Frame s s1) by (eapply Frame_trans; eauto).
  change (wl s0) with (wl s) in Hw1. change (faults s0) with (faults s) in Hf1. change (out s0) with (out s) in Ho1.
  assert (HcF : ~ In c (snapshot s1 MT_FAILED_MESSAGE)).
  { intros Hin. destruct (snapshot_wants X s1 _ c H1 Hin) as (Hr & _). congruence. }
  (* the failure notice *)
  destruct (forward_exact' cfg k fail_hdr (PFailed (m_mod_id (find_mod c (mods s1))) hh') s1)
    as (s' & Efw & Ho' & _ & _ & _ & _ & Hkeep).
  { reflexivity. }
  { reflexivity. }
  { change (h_type fail_hdr) with MT_FAILED_MESSAGE. eapply snapshot_NoDup; eauto. discriminate. }
  { change (h_type fail_hdr) with MT_FAILED_MESSAGE. intros f Hin.
    assert (Hne : f <> c) by (intro; subst f; contradiction).
    destruct (Henv f Hne (or_intror (snapshot_Frame s s1 _ f F Hin))) as [Hw Hf].
    eapply RegInv_ready; eauto; congruence. }
  exists s1, s'. split; [|split; [exact Ho1|split; [exact Ho'|split; [|split; [|split; [|split; [exact Hsb1|exact F]]]]]]].
  - unfold deliver_with. unfold bind at 1. unfold get. rewrite Hreg. cbn [negb]. rewrite Hwl, Hdf.
    unfold send_checked_with. unfold bind at 1. rewrite (mod_send_fail c hh p s Hopen Hfault). cbn [fst snd].
    fold s0. fold hh'. unfold bind at 1. unfold on_conn_err_with. unfold bind at 1. rewrite Erm.
    unfold bind at 1. rewrite mlog_with_off; [|lia].
    unfold send_failed_with. change (h_type hh') with (h_type hh). rewrite Ht.
    unfold bind at 1. unfold get. unfold send_mgr_with.
    change (mgr_hdr MT_FAILED_MESSAGE SZ_FAILED_MESSAGE 0) with fail_hdr. rewrite Efw. reflexivity.
  - apply (fm_mod_id _ _ (Frame_find s s1 c F)).
  - rewrite (Hkeep c HcF). exact Hr1.
  - rewrite (Hkeep c HcF). exact Hc1.
Qed.

(* ---------- who the recipients are, in terms of the state before the send ---------- *)

(* the subscribers of type t other than c, in delivery order *)
Definition remaining (s : mstate) (c t : Z) : list Z :=
  zremove c (alookup t (subs s)) ++ zremove c (alookup ALL_MESSAGE_TYPES (subs s)).

Lemma zremove_notin c l : ~ In c l -> zremove c l = l.
Proof.
  induction l as [|y r IH]; intros H; simpl; [reflexivity|].
  destruct (c =? y) eqn:E; [apply Z.eqb_eq in E; subst; exfalso; apply H; left; reflexivity|].
  rewrite IH; [reflexivity|intro; apply H; right; assumption].
Qed.

Lemma remaining_In s c t f : In f (remaining s c t) <-> f <> c /\ In f (snapshot s t).
Proof.
  unfold remaining, snapshot. rewrite !in_app_iff, !zremove_In. tauto.
Qed.

Lemma closed_snapshot X s c t : RegInvX X s -> snapshot (closed_state s c) t = remaining s c t.
Proof.
  intros H. unfold snapshot, remaining, closed_state. cbv zeta. cbn [subs with_mods with_loggers with_subs].
  assert (A : forall u, alookup u (drop_subs c (m_subs (find_mod c (mods s))) (subs s)) = zremove c (alookup u (subs s))).
  { intros u. rewrite alookup_drop_subs. destruct (zmem u (m_subs (find_mod c (mods s)))) eqn:E; [reflexivity|].
    symmetry. apply zremove_notin. intros Hin. apply zmem_false in E. apply E.
    destruct (ro_sub _ _ _ _ _ H u c Hin) as (_ & _ & Hs). exact Hs. }
  rewrite !A. reflexivity.
Qed.

Lemma count_subs_same s c n :
  m_subs (find_mod c (mods (with_mods s (upd_mod c (fun m => mm_count m n) (mods s))))) = m_subs (find_mod c (mods s)).
Proof. cbn [mods with_mods]. apply (find_upd_field m_subs); intro; reflexivity. Qed.

Lemma Frame_eligible s s' dm f : Frame s s' -> eligible dm s' f = eligible dm s f.
Proof.
  intros F. unfold eligible. pose proof (Frame_find s s' f F) as Ff.
  rewrite (fm_mod_id _ _ Ff), (fm_logger _ _ Ff). reflexivity.
Qed.

(* the three facts that let one read the conclusion of failing_send_exact on the state s itself *)
Theorem failing_send_recipients X s c s1 :
  RegInvX X s ->
  let s0 := with_mods s (upd_mod c (fun m => mm_count m (cnt s c + 1)) (mods s)) in
  subs s1 = subs (closed_state s0 c) -> Frame s s1 ->
  snapshot (closed_state s0 c) MT_CLIENT_CLOSED = remaining s c MT_CLIENT_CLOSED /\
  snapshot s1 MT_FAILED_MESSAGE = remaining s c MT_FAILED_MESSAGE /\
  frames cc_hdr (client_payload true (find_mod c (mods (closed_state s0 c)))) (closed_state s0 c)
         (snapshot (closed_state s0 c) MT_CLIENT_CLOSED)
    = frames cc_hdr (client_payload true (find_mod c (mods s))) s (remaining s c MT_CLIENT_CLOSED) /\
  (forall dm f, eligible dm s1 f = eligible dm s f).
Proof.
  intros H s0 Hsb F.
  assert (H0' : RegInvX X s0).
  { pose proof (J_set_count X c (cnt s c + 1) s H) as HJ. unfold set_mod, modify in HJ. exact (proj1 HJ). }
  assert (R : forall t, snapshot (closed_state s0 c) t = remaining s c t).
  { intros t. rewrite (closed_snapshot X s0 c t H0'). reflexivity. }
  assert (P : client_payload true (find_mod c (mods (closed_state s0 c))) = client_payload true (find_mod c (mods s))).
  { unfold closed_state, s0. cbv zeta. cbn [mods with_mods with_loggers with_subs].
    rewrite (find_upd_field (client_payload true) c c mm_close); [|intro; reflexivity|intro; reflexivity].
    apply (find_upd_field (client_payload true)); intro; reflexivity. }
  split; [apply R|]. split.
  { unfold snapshot at 1. rewrite Hsb. apply R. }
  split; [|intros dm f; apply Frame_eligible; exact F].
  rewrite R, P. apply frames_ext; auto. intros f Hin. apply remaining_In in Hin. destruct Hin as [Hne _].
  unfold closed_state, s0. cbv zeta. cbn [mods with_mods with_loggers with_subs].
  rewrite !find_upd_other; auto; intro; reflexivity.
Qed.

(* ---------- at every reachable state ---------- *)

Theorem failing_send_exact_reachable cfg fuel es u s (k : nat) p hh c :
  run cfg fuel es = Ok u s -> 40 < loglevel cfg ->
  zmem (h_type hh) no_notice_types = false ->
  m_reg (find_mod c (mods s)) = true -> zmem c (wl s) = true ->
  dest_filter (h_dst_mod hh) (m_mod_id (find_mod c (mods s))) (m_logger (find_mod c (mods s))) = true ->
  (exists n, flookup c (faults s) = Some n /\ n <= 0) ->
  (forall f, f <> c -> (In f (snapshot s MT_CLIENT_CLOSED) \/ In f (snapshot s MT_FAILED_MESSAGE)) ->
             zmem f (wl s) = true /\ flookup f (faults s) = None) ->
  let s0 := with_mods s (upd_mod c (fun m => mm_count m (cnt s c + 1)) (mods s)) in
  let hh' := set_count hh (cnt s c + 1) in
  exists s1 s',
    deliver_with cfg (forward cfg (Datatypes.S k)) p hh c s = Ok hh' s' /\
    out s1 = out s ++ frames cc_hdr (client_payload true (find_mod c (mods s))) s (remaining s c MT_CLIENT_CLOSED) /\
    out s' = out s1 ++ frames fail_hdr (PFailed (m_mod_id (find_mod c (mods s))) hh') s1 (remaining s c MT_FAILED_MESSAGE) /\
    (forall dm f, eligible dm s1 f = eligible dm s f) /\
    m_reg (find_mod c (mods s')) = false /\ m_closed (find_mod c (mods s')) = true.
Proof.
  intros Hrun Hlog Ht Hreg Hwl Hdf Hfault Henv s0 hh'.
  pose proof (run_safe cfg fuel es) as R. rewrite Hrun in R. destruct R as (R & _).
  destruct (failing_send_exact cfg k p hh c s [] (fun x => x) R Hlog Ht Hreg Hwl Hdf Hfault Henv)
    as (s1 & s' & E & Ho1 & Ho' & Hid & Hr & Hc & Hsb & F).
  destruct (failing_send_recipients [] s c s1 R Hsb F) as (R1 & R2 & R3 & R4).
  exists s1, s'. split; [exact E|]. split; [rewrite Ho1; f_equal; exact R3|].
  split; [rewrite Ho', Hid, R2; reflexivity|]. auto.
Qed.

(* ---------- non-vacuity ----------
   conn 1 publishes, conn 2 (module 11) subscribes to type 100, conn 3 monitors CLIENT_CLOSED and FAILED_MESSAGE;
   then conn 2's writes start failing.  The state reached meets every hypothesis of failing_send_exact_reachable
   for c = 2, and delivering a type-100 message to conn 2 in it writes exactly: CLIENT_CLOSED about conn 2 to the
   monitor, then FAILED_MESSAGE naming module 11 with the stamped header (count 3: the acknowledgements of CONNECT
   and SUBSCRIBE were conn 2's frames 1 and 2) to the monitor. *)
Definition fx_hdr (t sm : Z) : hdr := mkHdr t 1 0 sm 0 0 4 7.
Definition fx_hist : list event :=
  [ERound true [] [] 0; ERound true [] [] 0; ERound true [] [] 0;
   ERound false [(1, IFrame (fx_hdr MT_CONNECT 10) (InConnect 0 0)); (2, IFrame (fx_hdr MT_CONNECT 11) (InConnect 0 0));
                 (3, IFrame (fx_hdr MT_CONNECT 12) (InConnect 0 0))] [1;2;3] 0;
   ERound false [(2, IFrame (fx_hdr MT_SUBSCRIBE 11) (InSub 100));
                 (3, IFrame (fx_hdr MT_SUBSCRIBE 12) (InSub MT_CLIENT_CLOSED));
                 (3, IFrame (fx_hdr MT_SUBSCRIBE 12) (InSub MT_FAILED_MESSAGE))] [1;2;3] 0;
   EFault 2 0].
Definition fx_msg : hdr := mkHdr 100 1 0 10 0 0 1 9.

Example failing_send_ex_hypotheses :
  match run (mkConfig 60 true) 20%nat fx_hist with
  | Ok _ s =>
    (40 <? loglevel (mkConfig 60 true), zmem (h_type fx_msg) no_notice_types,
     m_reg (find_mod 2 (mods s)), zmem 2 (wl s),
     dest_filter (h_dst_mod fx_msg) (m_mod_id (find_mod 2 (mods s))) (m_logger (find_mod 2 (mods s))),
     flookup 2 (faults s), zmem 2 (snapshot s 100),
     (snapshot s MT_CLIENT_CLOSED, snapshot s MT_FAILED_MESSAGE),
     map (fun f => (zmem f (wl s), flookup f (faults s))) (snapshot s MT_CLIENT_CLOSED ++ snapshot s MT_FAILED_MESSAGE))
  | Crash _ _ => (false, true, false, false, false, None, false, ([], []), [])
  end = (true, false, true, true, true, Some 0, true, ([3], [3]), [(true, None); (true, None)]).
Proof. vm_compute. reflexivity. Qed.

Example failing_send_ex_outcome :
  match run (mkConfig 60 true) 20%nat fx_hist with
  | Ok _ s =>
    match deliver_with (mkConfig 60 true) (forward (mkConfig 60 true) 5) (PData 5 1) fx_msg 2 s with
    | Ok hh' s' =>
      (h_count hh', skipn (length (out s)) (out s'), m_reg (find_mod 2 (mods s')), m_closed (find_mod 2 (mods s')))
    | Crash _ _ => (0, [], true, false)
    end
  | Crash _ _ => (0, [], true, false)
  end = (3, [(3, OHdr (set_count cc_hdr 4)); (3, OPay (PClient true 2 0 11 false true 0));
             (3, OHdr (set_count fail_hdr 5)); (3, OPay (PFailed 11 (set_count fx_msg 3)))], false, true).
Proof. vm_compute. reflexivity. Qed.

