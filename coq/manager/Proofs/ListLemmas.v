(* Facts about the list-based sets, maps and module table of Model/Manager.v *)
From Coq Require Import ZArith List Bool Lia Sorted.
From Mgr Require Import Gen.MgrDefs Model.Manager.
Import ListNotations.
Open Scope Z_scope.

Notation sorted := (StronglySorted Z.lt).

Lemma zmem_In x l : zmem x l = true <-> In x l.
Proof.
  induction l as [|y r IH]; simpl; [split; [discriminate|tauto]|].
  rewrite orb_true_iff, IH, Z.eqb_eq. split; intros [H|H]; auto.
Qed.

Lemma zmem_false x l : zmem x l = false <-> ~ In x l.
Proof. rewrite <- zmem_In. destruct (zmem x l); split; congruence. Qed.

Lemma zinsert_In x y l : In x (zinsert y l) <-> x = y \/ In x l.
Proof.
  induction l as [|z r IH]; simpl; [intuition congruence|].
  destruct (y <? z) eqn:E1; simpl; [intuition congruence|].
  destruct (y =? z) eqn:E2; simpl.
  - apply Z.eqb_eq in E2. subst. intuition congruence.
  - rewrite IH. intuition congruence.
Qed.

Lemma zremove_In x y l : In x (zremove y l) <-> x <> y /\ In x l.
Proof.
  induction l as [|z r IH]; simpl; [intuition congruence|].
  destruct (y =? z) eqn:E; simpl.
  - apply Z.eqb_eq in E. subst. rewrite IH. intuition congruence.
  - apply Z.eqb_neq in E. rewrite IH. intuition congruence.
Qed.

Lemma sorted_zinsert y l : sorted l -> sorted (zinsert y l).
Proof.
  induction l as [|z r IH]; intros H; simpl; [repeat constructor|].
  inversion H as [|? ? Hr Hall]; subst.
  destruct (y <? z) eqn:E1.
  - apply Z.ltb_lt in E1. constructor; [exact H|]. constructor; [exact E1|].
    rewrite Forall_forall in *. intros w Hw. specialize (Hall w Hw). lia.
  - destruct (y =? z) eqn:E2; [exact H|].
    apply Z.ltb_ge in E1. apply Z.eqb_neq in E2.
    constructor; [apply IH; exact Hr|].
    rewrite Forall_forall in *. intros w Hw. apply zinsert_In in Hw. destruct Hw as [->|Hw]; [lia|auto].
Qed.

Lemma sorted_zremove y l : sorted l -> sorted (zremove y l).
Proof.
  induction l as [|z r IH]; intros H; simpl; [constructor|].
  inversion H as [|? ? Hr Hall]; subst.
  destruct (y =? z); [apply IH; exact Hr|].
  constructor; [apply IH; exact Hr|].
  rewrite Forall_forall in *. intros w Hw. apply zremove_In in Hw. apply Hall. tauto.
Qed.

Lemma sorted_NoDup l : sorted l -> NoDup l.
Proof.
  induction 1 as [|z r Hr IH Hall]; constructor; auto.
  intro Hin. rewrite Forall_forall in Hall. specialize (Hall z Hin). lia.
Qed.

Lemma alookup_aupdate_same k f l : alookup k (aupdate k f l) = f (alookup k l).
Proof.
  induction l as [|[k' v] r IH]; simpl; [rewrite Z.eqb_refl; reflexivity|].
  destruct (k =? k') eqn:E; simpl; rewrite E; auto.
Qed.

Lemma alookup_aupdate_other k k' f l : k' <> k -> alookup k' (aupdate k f l) = alookup k' l.
Proof.
  intros Hne. induction l as [|[k2 v] r IH]; simpl.
  - destruct (k' =? k) eqn:E; [apply Z.eqb_eq in E; congruence|reflexivity].
  - destruct (k =? k2) eqn:E; simpl.
    + apply Z.eqb_eq in E. subst k2. destruct (k' =? k) eqn:E2; [apply Z.eqb_eq in E2; congruence|reflexivity].
    + destruct (k' =? k2); auto.
Qed.

Lemma alookup_aupdate k k' f l :
  alookup k' (aupdate k f l) = if k' =? k then f (alookup k l) else alookup k' l.
Proof.
  destruct (k' =? k) eqn:E.
  - apply Z.eqb_eq in E. subst. apply alookup_aupdate_same.
  - apply Z.eqb_neq in E. apply alookup_aupdate_other; auto.
Qed.

Lemma alookup_drop_subs c ts : forall sb t,
  alookup t (drop_subs c ts sb) = if zmem t ts then zremove c (alookup t sb) else alookup t sb.
Proof.
  unfold drop_subs. induction ts as [|u r IH]; intros sb t; simpl; [reflexivity|].
  rewrite IH. rewrite alookup_aupdate.
  destruct (t =? u) eqn:E; simpl.
  - apply Z.eqb_eq in E. subst u. destruct (zmem t r); [|reflexivity].
    (* removing twice = removing once *)
    clear. induction (alookup t sb) as [|z l IHl]; simpl; [reflexivity|].
    destruct (c =? z) eqn:E; [exact IHl|]. simpl. rewrite E. rewrite IHl. reflexivity.
  - reflexivity.
Qed.

(* ---- the module table ---- *)

Lemma find_mod_cases c l :
  find_mod c l = dummy_module \/ (In (find_mod c l) l /\ m_conn (find_mod c l) = c).
Proof.
  induction l as [|m r IH]; simpl; [left; reflexivity|].
  destruct (m_conn m =? c) eqn:E.
  - right. apply Z.eqb_eq in E. split; [left; reflexivity|exact E].
  - destruct IH as [IH|[I1 I2]]; [left; exact IH|right; split; [right; exact I1|exact I2]].
Qed.

Lemma find_mod_reg_In c l : m_reg (find_mod c l) = true -> In (find_mod c l) l /\ m_conn (find_mod c l) = c.
Proof.
  intros H. destruct (find_mod_cases c l) as [E|E]; [rewrite E in H; discriminate|exact E].
Qed.

Lemma find_mod_open_In c l : m_closed (find_mod c l) = false -> In (find_mod c l) l /\ m_conn (find_mod c l) = c.
Proof.
  intros H. destruct (find_mod_cases c l) as [E|E]; [rewrite E in H; discriminate|exact E].
Qed.

Definition conn_pres (f : module -> module) : Prop := forall m, m_conn (f m) = m_conn m.

Lemma find_upd_other c c' f l : conn_pres f -> c' <> c -> find_mod c' (upd_mod c f l) = find_mod c' l.
Proof.
  intros Hf Hne. induction l as [|m r IH]; simpl; [reflexivity|].
  destruct (m_conn m =? c) eqn:E; simpl.
  - rewrite Hf. apply Z.eqb_eq in E. rewrite E.
    destruct (c =? c') eqn:E2; [apply Z.eqb_eq in E2; congruence|reflexivity].
  - destruct (m_conn m =? c'); auto.
Qed.

Lemma find_upd_same c f l : conn_pres f -> 0 <= c ->
  find_mod c (upd_mod c f l) = if m_conn (find_mod c l) =? c then f (find_mod c l) else dummy_module.
Proof.
  intros Hf Hc. induction l as [|m r IH].
  - cbn [upd_mod find_mod]. change (m_conn dummy_module) with (-1).
    destruct (-1 =? c) eqn:E; [apply Z.eqb_eq in E; lia|reflexivity].
  - cbn [upd_mod find_mod]. destruct (m_conn m =? c) eqn:E.
    + cbn [find_mod]. rewrite Hf. rewrite E. reflexivity.
    + cbn [find_mod]. rewrite E. exact IH.
Qed.
Definition wf_mods (l : list module) : Prop :=
  forall i m, nth_error l i = Some m -> m_conn m = Z.of_nat i.

