(* C01 + C14, one level of nesting, in general: what forward_message writes when the recipients of the
   snapshot are a mixture of
     ready    - registered, open, writable, no armed fault: one whole frame (if it passes the destination filter);
     blocked  - registered, not writable, not a logger: drop count + 1 and a FAILED_MESSAGE notice;
     failing  - writable, passes the filter, but the write fails: removed, CLIENT_CLOSED then FAILED_MESSAGE notices,
   while every subscriber of the two notices is itself writable with no armed fault (so no notice provokes
   another one).  The frames are described recipient by recipient (Step / Loop); the projection lemmas read
   the result off: every healthy recipient still gets the message exactly once whatever happened to the
   others, and a notice subscriber is told about exactly the blocked and the failing recipients, in order. *)
From Coq Require Import ZArith List Bool Lia ZifyBool.
From Mgr Require Import Gen.MgrDefs Model.Manager Proofs.ListLemmas Proofs.Hoare Proofs.RegInv Proofs.Frame
                        Proofs.RegTraverse Proofs.RegTop Proofs.StepInv Proofs.Routing Proofs.OutInv Proofs.C05Inv
                        Proofs.Exact Proofs.ExactTop Proofs.AckExact Proofs.Fuel Proofs.DepartExact Proofs.FailExact.
Import ListNotations.
Open Scope Z_scope.

(* ---------- the three kinds of recipient, as boolean tests on the current state ---------- *)

Definition no_fault (s : mstate) (c : Z) : bool := match flookup c (faults s) with None => true | Some _ => false end.
Definition exhausted (s : mstate) (c : Z) : bool := match flookup c (faults s) with Some n => n <=? 0 | None => false end.

Definition is_ready (s : mstate) (c : Z) : bool :=
  (0 <=? c) && m_reg (find_mod c (mods s)) && negb (m_closed (find_mod c (mods s))) && zmem c (wl s) && no_fault s c.
Definition is_blocked (s : mstate) (c : Z) : bool :=
  m_reg (find_mod c (mods s)) && negb (zmem c (wl s)) && negb (m_logger (find_mod c (mods s))).
Definition is_failing (dm : Z) (s : mstate) (c : Z) : bool :=
  m_reg (find_mod c (mods s)) && zmem c (wl s) && eligible dm s c && exhausted s c.
Definition classified (dm : Z) (s : mstate) (c : Z) : bool := is_ready s c || is_blocked s c || is_failing dm s c.

Lemma is_ready_spec s c : is_ready s c = true <-> ready s c.
Proof.
  unfold is_ready, ready, no_fault. rewrite !andb_true_iff, Z.leb_le, negb_true_iff.
  destruct (flookup c (faults s)); split; intros H; repeat split; try tauto; try (destruct H as (_ & _ & _ & _ & H); discriminate);
    destruct H as (_ & H); discriminate.
Qed.

Lemma exhausted_spec s c : exhausted s c = true <-> exists n, flookup c (faults s) = Some n /\ n <= 0.
Proof.
  unfold exhausted. destruct (flookup c (faults s)) as [n|].
  - rewrite Z.leb_le. split; [intros H; exists n; auto|intros (m & E & Hm); inversion E; subst; exact Hm].
  - split; [discriminate|intros (m & E & _); discriminate].
Qed.

(* the kinds exclude each other *)
Lemma ready_not_other dm s c : is_ready s c = true -> is_blocked s c = false /\ is_failing dm s c = false.
Proof.
  unfold is_ready, is_blocked, is_failing, no_fault, exhausted. intros H.
  destruct (flookup c (faults s)); destruct (zmem c (wl s)); split; rewrite ?andb_false_r in *; simpl in *; try discriminate; try reflexivity;
    rewrite ?andb_false_r; reflexivity.
Qed.

Lemma blocked_not_failing dm s c : is_blocked s c = true -> is_failing dm s c = false.
Proof.
  unfold is_blocked, is_failing. intros H. destruct (zmem c (wl s)); [rewrite andb_false_r in H; discriminate|].
  rewrite andb_false_r. reflexivity.
Qed.

(* the environment: whoever is subscribed to one of the two notices can take it *)
Definition Env (s : mstate) : Prop :=
  forall f, In f (snapshot s MT_CLIENT_CLOSED) \/ In f (snapshot s MT_FAILED_MESSAGE) ->
            zmem f (wl s) = true /\ flookup f (faults s) = None.

Definition bumped (s : mstate) (c : Z) : mstate :=
  with_mods s (upd_mod c (fun m => mm_count m (cnt s c + 1)) (mods s)).

Lemma closed_alookup X s c u : RegInvX X s -> alookup u (subs (closed_state s c)) = zremove c (alookup u (subs s)).
Proof.
  intros H. unfold closed_state. cbv zeta. cbn [subs with_mods with_loggers with_subs].
  rewrite alookup_drop_subs. destruct (zmem u (m_subs (find_mod c (mods s)))) eqn:E; [reflexivity|].
  symmetry. apply zremove_notin. intros Hin. apply zmem_false in E. apply E.
  destruct (ro_sub _ _ _ _ _ H u c Hin) as (_ & _ & Hs). exact Hs.
Qed.

Section OneLevel.
Variable cfg : config.
Variable k : nat.
Variable p : payload.
Variable X : list Z.
Hypothesis Hlog : 40 < loglevel cfg.

Notation rec := (forward cfg (Datatypes.S k)).

Lemma Hrec : forall Y h q, J Y (rec h q).
Proof. intros. apply J_forward. Qed.

(* ---------- one recipient of each kind ---------- *)

Lemma deliver_ready hh c s : ready s c ->
  deliver_with cfg rec p hh c s =
    if eligible (h_dst_mod hh) s c then Ok (set_count hh (cnt s c + 1)) (after_send hh p s c) else Ok hh s.
Proof.
  intros Hr. pose proof Hr as (Hc0 & Hreg & Hcl & Hwl & Hfl).
  unfold deliver_with. unfold bind at 1. unfold get. rewrite Hreg. cbn [negb]. rewrite Hwl.
  fold (eligible (h_dst_mod hh) s c). destruct (eligible (h_dst_mod hh) s c); [|reflexivity].
  apply send_checked_exact. exact Hr.
Qed.

Lemma Env_ready s f t : RegInvX X s -> Env s -> (t = MT_CLIENT_CLOSED \/ t = MT_FAILED_MESSAGE) ->
  In f (snapshot s t) -> ready s f.
Proof.
  intros H He Ht Hin. destruct (He f) as [Hw Hf]; [destruct Ht; subst; auto|]. eapply RegInv_ready; eauto.
Qed.

Lemma notice_step hh c s :
  RegInvX X s -> Env s -> zmem (h_type hh) no_notice_types = false -> is_blocked s c = true ->
  exists s1, deliver_with cfg rec p hh c s = Ok hh s1 /\
    out s1 = out s ++ frames fail_hdr (PFailed (m_mod_id (find_mod c (mods s))) hh) s (snapshot s MT_FAILED_MESSAGE) /\
    faults s1 = faults s /\ subs s1 = subs s.
Proof.
  intros H He Ht Hb. unfold is_blocked in Hb. apply andb_true_iff in Hb. destruct Hb as [Hb Hlg].
  apply andb_true_iff in Hb. destruct Hb as [Hreg Hw]. apply negb_true_iff in Hlg. apply negb_true_iff in Hw.
  destruct (find_mod_reg_In c _ Hreg) as [Hi Hcc]. pose proof (ro_pos _ _ _ _ _ H _ Hi) as Hpos. rewrite Hcc in Hpos.
  assert (Hr : forall f, In f (snapshot s MT_FAILED_MESSAGE) -> ready s f).
  { intros f Hin. eapply Env_ready; eauto. }
  assert (HcF : ~ In c (snapshot s MT_FAILED_MESSAGE)).
  { intros Hin. destruct (Hr c Hin) as (_ & _ & _ & Hwl & _). congruence. }
  unfold deliver_with. unfold bind at 1. unfold get. rewrite Hreg, Hw, Hlg. cbn [negb].
  unfold bind at 1. unfold set_mod, modify.
  set (s1 := with_mods s (upd_mod c (fun m => mm_drops m (m_drops m + 1)) (mods s))).
  assert (Hoth : forall c', c' <> c -> find_mod c' (mods s1) = find_mod c' (mods s)).
  { intros c' Hne. unfold s1. simpl. apply find_upd_other; auto. intro; reflexivity. }
  unfold bind at 1. unfold send_failed_with. rewrite Ht. unfold bind at 1. unfold get. unfold send_mgr_with.
  destruct (forward_exact' cfg k fail_hdr (PFailed (m_mod_id (find_mod c (mods s1))) hh) s1)
    as (s' & E & Ho & Hsb & _ & _ & Hf & _).
  - reflexivity.
  - reflexivity.
  - change (snapshot s1 (h_type fail_hdr)) with (snapshot s MT_FAILED_MESSAGE). eapply snapshot_NoDup; eauto. discriminate.
  - change (snapshot s1 (h_type fail_hdr)) with (snapshot s MT_FAILED_MESSAGE). intros f Hin. specialize (Hr f Hin).
    assert (f <> c) by (intro; subst; contradiction). unfold ready in *. rewrite (Hoth f H0). exact Hr.
  - change (mgr_hdr MT_FAILED_MESSAGE SZ_FAILED_MESSAGE 0) with fail_hdr. rewrite E. cbn [ret].
    exists s'. split; [reflexivity|]. split; [|split; [exact Hf|exact Hsb]].
    rewrite Ho. change (out s1) with (out s). f_equal. change (snapshot s1 (h_type fail_hdr)) with (snapshot s MT_FAILED_MESSAGE).
    assert (Em : m_mod_id (find_mod c (mods s1)) = m_mod_id (find_mod c (mods s))).
    { unfold s1. cbn [mods with_mods]. apply (find_upd_field m_mod_id); intro; reflexivity. }
    rewrite Em. apply frames_ext; auto. intros f Hin. apply Hoth. intro; subst; contradiction.
Qed.

Lemma failing_step hh c s :
  ~ In c X -> RegInvX X s -> Env s -> zmem (h_type hh) no_notice_types = false ->
  is_failing (h_dst_mod hh) s c = true ->
  exists sm s1,
    remove_module_with cfg rec c (bumped s c) = Ok tt sm /\
    deliver_with cfg rec p hh c s = Ok (set_count hh (cnt s c + 1)) s1 /\
    out s1 = out s ++ (frames cc_hdr (client_payload true (find_mod c (mods s))) s (remaining s c MT_CLIENT_CLOSED) ++
                       frames fail_hdr (PFailed (m_mod_id (find_mod c (mods s))) (set_count hh (cnt s c + 1))) sm
                              (remaining s c MT_FAILED_MESSAGE)) /\
    RegInvX X sm /\ Frame s sm /\ snapshot sm MT_FAILED_MESSAGE = remaining s c MT_FAILED_MESSAGE /\
    faults s1 = faults s /\ (forall u, alookup u (subs s1) = zremove c (alookup u (subs s))).
Proof.
  intros HcX H0 He Ht Hfl. unfold is_failing in Hfl. apply andb_true_iff in Hfl. destruct Hfl as [Hfl Hex].
  apply andb_true_iff in Hfl. destruct Hfl as [Hfl Hdf]. apply andb_true_iff in Hfl. destruct Hfl as [Hreg Hwl].
  apply exhausted_spec in Hex. unfold eligible in Hdf.
  set (s0 := bumped s c). set (hh' := set_count hh (cnt s c + 1)).
  destruct (closed_state_inv X c s HcX H0 Hreg) as (_ & Hpos & Hopen).
  pose proof (J_set_count X c (cnt s c + 1) s H0) as HJ0. unfold set_mod, modify in HJ0. fold (bumped s c) in HJ0. fold s0 in HJ0.
  destruct HJ0 as [H0' F0].
  assert (Hreg0 : m_reg (find_mod c (mods s0)) = true).
  { unfold s0, bumped. cbn [mods with_mods]. rewrite (find_upd_field m_reg); [exact Hreg|intro; reflexivity|intro; reflexivity]. }
  destruct (departure_exact' cfg k c s0 X HcX H0' Hreg0 ltac:(lia)) as (sm & Erm & Ho1 & Hr1 & Hc1 & _ & Hsb1 & _ & Hw1 & Hf1).
  { intros f Hin. change (wl s0) with (wl s). change (faults s0) with (faults s).
    apply He. left. apply (snapshot_Frame s s0); [exact F0|].
    apply (snapshot_Frame s0 (closed_state s0 c)); [apply Frame_closed_state|exact Hin]. }
  pose proof (J_remove_module cfg _ Hrec X c HcX s0 H0') as HJ1. rewrite Erm in HJ1. destruct HJ1 as [H1 F1].
  assert (F : Frame s sm) by (eapply Frame_trans; eauto).
  change (wl s0) with (wl s) in Hw1. change (faults s0) with (faults s) in Hf1. change (out s0) with (out s) in Ho1.
  destruct (failing_send_recipients X s c sm H0 Hsb1 F) as (R1 & R2 & R3 & R4). fold (bumped s c) in R1, R3. fold s0 in R1, R3.
  destruct (forward_exact' cfg k fail_hdr (PFailed (m_mod_id (find_mod c (mods sm))) hh') sm)
    as (s' & Efw & Ho' & Hsb' & _ & _ & Hf' & _).
  { reflexivity. }
  { reflexivity. }
  { change (h_type fail_hdr) with MT_FAILED_MESSAGE. eapply snapshot_NoDup; eauto. discriminate. }
  { change (h_type fail_hdr) with MT_FAILED_MESSAGE. intros f Hin.
    destruct (He f (or_intror (snapshot_Frame s sm _ f F Hin))) as [Hw Hf].
    eapply RegInv_ready; eauto; congruence. }
  exists sm, s'. split; [exact Erm|]. split; [|split; [|split; [exact H1|split; [exact F|split; [exact R2|split]]]]].
  - unfold deliver_with. unfold bind at 1. unfold get. rewrite Hreg. cbn [negb]. rewrite Hwl, Hdf.
    unfold send_checked_with. unfold bind at 1. rewrite (mod_send_fail c hh p s Hopen Hex). cbn [fst snd].
    fold (bumped s c). fold s0. fold hh'. unfold bind at 1. unfold on_conn_err_with. unfold bind at 1. rewrite Erm.
    unfold bind at 1. rewrite mlog_with_off; [|lia].
    unfold send_failed_with. change (h_type hh') with (h_type hh). rewrite Ht.
    unfold bind at 1. unfold get. unfold send_mgr_with.
    change (mgr_hdr MT_FAILED_MESSAGE SZ_FAILED_MESSAGE 0) with fail_hdr. rewrite Efw. reflexivity.
  - rewrite Ho', Ho1, R3, <- app_assoc. f_equal. f_equal. change (h_type fail_hdr) with MT_FAILED_MESSAGE. rewrite R2.
    rewrite (fm_mod_id _ _ (Frame_find s sm c F)). reflexivity.
  - congruence.
  - intros u. rewrite Hsb', Hsb1. rewrite (closed_alookup X s0 c u H0'). reflexivity.
Qed.

(* ---------- the description: one step per recipient ---------- *)

Inductive Step (hh : hdr) (s : mstate) (c : Z) : list (Z * item) -> hdr -> mstate -> Prop :=
| St_send : is_ready s c = true -> eligible (h_dst_mod hh) s c = true ->
    Step hh s c (frame_for hh p s c) (set_count hh (cnt s c + 1)) (after_send hh p s c)
| St_pass : is_ready s c = true -> eligible (h_dst_mod hh) s c = false ->
    Step hh s c [] hh s
| St_blocked s1 : is_blocked s c = true ->
    deliver_with cfg rec p hh c s = Ok hh s1 ->
    Step hh s c (frames fail_hdr (PFailed (m_mod_id (find_mod c (mods s))) hh) s (snapshot s MT_FAILED_MESSAGE)) hh s1
| St_failing sm s1 : is_failing (h_dst_mod hh) s c = true ->
    remove_module_with cfg rec c (bumped s c) = Ok tt sm ->
    deliver_with cfg rec p hh c s = Ok (set_count hh (cnt s c + 1)) s1 ->
    Step hh s c (frames cc_hdr (client_payload true (find_mod c (mods s))) s (remaining s c MT_CLIENT_CLOSED) ++
                 frames fail_hdr (PFailed (m_mod_id (find_mod c (mods s))) (set_count hh (cnt s c + 1))) sm
                        (remaining s c MT_FAILED_MESSAGE))
         (set_count hh (cnt s c + 1)) s1
| St_skip : m_reg (find_mod c (mods s)) = false -> Step hh s c [] hh s.

Inductive Loop : hdr -> mstate -> list Z -> list (Z * item) -> hdr -> mstate -> Prop :=
| L_nil hh s : Loop hh s [] [] hh s
| L_cons hh s c r fr1 hh1 s1 fr hh' s' :
    Step hh s c fr1 hh1 s1 -> Loop hh1 s1 r fr hh' s' -> Loop hh s (c :: r) (fr1 ++ fr) hh' s'.

(* the setting *)
Record Good (t dm : Z) (s : mstate) (l : list Z) : Prop := {
  g_inv : RegInvX X s;
  g_env : Env s;
  g_nd : NoDup l;
  g_in : forall c, In c l -> In c (snapshot s t);
  g_cls : forall c, In c l -> classified dm s c = true
}.

(* what one step leaves alone *)
Record Stable (c : Z) (s s1 : mstate) : Prop := {
  sb_inv : RegInvX X s1;
  sb_frame : Frame s s1;
  sb_faults : faults s1 = faults s;
  sb_subs : subs s1 = subs s \/
            (exhausted s c = true /\ forall u, alookup u (subs s1) = zremove c (alookup u (subs s)))
}.

Definition hdr_same (hh hh1 : hdr) : Prop :=
  h_type hh1 = h_type hh /\ h_dst_mod hh1 = h_dst_mod hh /\ forall n, set_count hh1 n = set_count hh n.

Lemma hdr_same_refl hh : hdr_same hh hh.
Proof. unfold hdr_same. auto. Qed.
Lemma hdr_same_count hh n : hdr_same hh (set_count hh n).
Proof. unfold hdr_same. auto. Qed.

Lemma kinds_nf dm s t f : RegInvX X s -> In f (snapshot s t) ->
  is_ready s f = zmem f (wl s) && no_fault s f /\
  is_blocked s f = negb (zmem f (wl s)) && negb (m_logger (find_mod f (mods s))) /\
  is_failing dm s f = zmem f (wl s) && eligible dm s f && exhausted s f.
Proof.
  intros H Hin. destruct (snapshot_wants X s t f H Hin) as (Hr & Hc & _).
  destruct (find_mod_reg_In f _ Hr) as [Hi Hcc]. pose proof (ro_pos _ _ _ _ _ H _ Hi) as Hp. rewrite Hcc in Hp.
  assert (Hp' : 0 <=? f = true) by lia.
  unfold is_ready, is_blocked, is_failing. rewrite Hr, Hc, Hp'. simpl. auto.
Qed.

Lemma kinds_stable dm s s1 t f : RegInvX X s -> RegInvX X s1 -> Frame s s1 -> faults s1 = faults s ->
  In f (snapshot s t) -> In f (snapshot s1 t) ->
  is_ready s1 f = is_ready s f /\ is_blocked s1 f = is_blocked s f /\ is_failing dm s1 f = is_failing dm s f /\
  eligible dm s1 f = eligible dm s f.
Proof.
  intros H H1 F Ef Hin Hin1.
  destruct (kinds_nf dm s t f H Hin) as (A1 & A2 & A3). destruct (kinds_nf dm s1 t f H1 Hin1) as (B1 & B2 & B3).
  rewrite A1, A2, A3, B1, B2, B3. unfold no_fault, exhausted. rewrite Ef, (fr_wl _ _ F), (Frame_eligible s s1 dm f F).
  rewrite (fm_logger _ _ (Frame_find s s1 f F)). auto.
Qed.

Lemma Stable_sub c s s1 u f : Stable c s s1 -> In f (alookup u (subs s)) -> (f <> c \/ no_fault s f = true) ->
  In f (alookup u (subs s1)).
Proof.
  intros St Hin Hf. destruct (sb_subs _ _ _ St) as [E|[Hex E]]; [rewrite E; exact Hin|].
  rewrite E. apply zremove_In. split; [|exact Hin]. destruct Hf as [Hf|Hf]; [exact Hf|].
  intro; subst f. unfold no_fault, exhausted in *. destruct (flookup c (faults s)); discriminate.
Qed.

Lemma Stable_snap c s s1 t f : Stable c s s1 -> In f (snapshot s t) -> (f <> c \/ no_fault s f = true) ->
  In f (snapshot s1 t).
Proof.
  intros St Hin Hf. unfold snapshot in *. apply in_app_or in Hin. apply in_or_app.
  destruct Hin as [Hin|Hin]; [left|right]; eapply Stable_sub; eauto.
Qed.

Lemma Env_no_fault s f : Env s -> In f (snapshot s MT_CLIENT_CLOSED) \/ In f (snapshot s MT_FAILED_MESSAGE) -> no_fault s f = true.
Proof. intros He Hin. destruct (He f Hin) as [_ Hf]. unfold no_fault. rewrite Hf. reflexivity. Qed.

Lemma Env_next c s s1 : Env s -> Stable c s s1 -> Env s1.
Proof.
  intros He St f Hin. pose proof (sb_frame _ _ _ St) as F.
  rewrite (fr_wl _ _ F), (sb_faults _ _ _ St). apply He.
  destruct Hin as [Hin|Hin]; [left|right]; eapply snapshot_Frame; eauto.
Qed.

Lemma Good_next t dm s c r s1 : Good t dm s (c :: r) -> Stable c s s1 -> Good t dm s1 r.
Proof.
  intros G St. pose proof (g_nd _ _ _ _ G) as Hnd. inversion Hnd as [|? ? Hnin Hnd']; subst.
  assert (Hin1 : forall f, In f r -> In f (snapshot s1 t)).
  { intros f Hf. eapply Stable_snap; eauto; [apply (g_in _ _ _ _ G); right; exact Hf|].
    left. intro; subst; contradiction. }
  constructor.
  - apply (sb_inv _ _ _ St).
  - eapply Env_next; eauto. apply (g_env _ _ _ _ G).
  - exact Hnd'.
  - exact Hin1.
  - intros f Hf.
    destruct (kinds_stable dm s s1 t f (g_inv _ _ _ _ G) (sb_inv _ _ _ St) (sb_frame _ _ _ St) (sb_faults _ _ _ St)
                (g_in _ _ _ _ G f (or_intror Hf)) (Hin1 f Hf)) as (E1 & E2 & E3 & _).
    unfold classified. rewrite E1, E2, E3. apply (g_cls _ _ _ _ G). right. exact Hf.
Qed.

Lemma run_stable hh c s hh1 s1 : ~ In c X -> RegInvX X s -> deliver_with cfg rec p hh c s = Ok hh1 s1 ->
  RegInvX X s1 /\ Frame s s1.
Proof.
  intros HcX H E. pose proof (J_deliver cfg rec Hrec X p hh c HcX s H) as HJ. rewrite E in HJ. exact HJ.
Qed.

Lemma head_not_inflight t dm s c r : Good t dm s (c :: r) -> ~ In c X.
Proof.
  intros G. eapply snapshot_not_inflight; [apply (g_inv _ _ _ _ G)|]. apply (g_in _ _ _ _ G). left. reflexivity.
Qed.

Lemma head_registered t dm s c r : Good t dm s (c :: r) -> m_reg (find_mod c (mods s)) = true.
Proof.
  intros G. destruct (snapshot_wants X s t c (g_inv _ _ _ _ G) (g_in _ _ _ _ G c (or_introl eq_refl))) as (Hr & _). exact Hr.
Qed.

(* every step is an execution of deliver_with, writes exactly its frames, and leaves the rest alone *)
Lemma Step_facts t dm hh s c r fr1 hh1 s1 :
  h_type hh = t -> h_dst_mod hh = dm -> zmem t no_notice_types = false ->
  Good t dm s (c :: r) -> Step hh s c fr1 hh1 s1 ->
  deliver_with cfg rec p hh c s = Ok hh1 s1 /\ out s1 = out s ++ fr1 /\ Stable c s s1 /\ hdr_same hh hh1.
Proof.
  intros Et Ed Hnn G St. pose proof (head_not_inflight _ _ _ _ _ G) as HcX.
  pose proof (g_inv _ _ _ _ G) as H. pose proof (g_env _ _ _ _ G) as He. subst t dm.
  assert (Fin : forall hh1 s1 fr1, deliver_with cfg rec p hh c s = Ok hh1 s1 -> out s1 = out s ++ fr1 ->
                  faults s1 = faults s ->
                  (subs s1 = subs s \/ (exhausted s c = true /\ forall u, alookup u (subs s1) = zremove c (alookup u (subs s)))) ->
                  hdr_same hh hh1 ->
                  deliver_with cfg rec p hh c s = Ok hh1 s1 /\ out s1 = out s ++ fr1 /\ Stable c s s1 /\ hdr_same hh hh1).
  { intros hh2 s2 fr2 E Ho Hf Hs Hh. destruct (run_stable hh c s hh2 s2 HcX H E) as [H2 F2].
    split; [exact E|]. split; [exact Ho|]. split; [constructor; auto|exact Hh]. }
  destruct St as [Hr El|Hr El|s1 Hb E|sm s1 Hfl Erm E|Hsk].
  - apply is_ready_spec in Hr. apply Fin; [rewrite (deliver_ready hh c s Hr), El; reflexivity|reflexivity|reflexivity|left; reflexivity|apply hdr_same_count].
  - apply is_ready_spec in Hr. apply Fin; [rewrite (deliver_ready hh c s Hr), El; reflexivity|rewrite app_nil_r; reflexivity|reflexivity|left; reflexivity|apply hdr_same_refl].
  - destruct (notice_step hh c s H He Hnn Hb) as (s1' & E' & Ho & Hf & Hs). rewrite E in E'. inversion E'. subst s1'.
    apply Fin; auto. apply hdr_same_refl.
  - destruct (failing_step hh c s HcX H He Hnn Hfl) as (sm' & s1' & Erm' & E' & Ho & _ & _ & _ & Hf & Hs).
    rewrite Erm in Erm'. inversion Erm'. subst sm'. rewrite E in E'. inversion E'. subst s1'.
    apply Fin; auto; [|apply hdr_same_count].
    right. split; [|exact Hs]. unfold is_failing in Hfl. apply andb_true_iff in Hfl. tauto.
  - rewrite (head_registered _ _ _ _ _ G) in Hsk. discriminate.
Qed.

Lemma Step_exists t dm hh s c r :
  h_type hh = t -> h_dst_mod hh = dm -> zmem t no_notice_types = false ->
  Good t dm s (c :: r) -> exists fr1 hh1 s1, Step hh s c fr1 hh1 s1.
Proof.
  intros Et Ed Hnn G. pose proof (head_not_inflight _ _ _ _ _ G) as HcX.
  pose proof (g_inv _ _ _ _ G) as H. pose proof (g_env _ _ _ _ G) as He.
  pose proof (g_cls _ _ _ _ G c (or_introl eq_refl)) as Hc. subst t dm. unfold classified in Hc.
  destruct (is_ready s c) eqn:Hr.
  - destruct (eligible (h_dst_mod hh) s c) eqn:El; do 3 eexists; [apply St_send|apply St_pass]; auto.
  - destruct (is_blocked s c) eqn:Hb.
    + destruct (notice_step hh c s H He Hnn Hb) as (s1 & E & _). do 3 eexists. apply (St_blocked hh s c s1); auto.
    + simpl in Hc. destruct (failing_step hh c s HcX H He Hnn Hc) as (sm & s1 & Erm & E & _).
      do 3 eexists. apply (St_failing hh s c sm s1); auto.
Qed.

(* (1) the loop in general *)
Theorem deliver_loop_general t dm : zmem t no_notice_types = false ->
  forall l hh s, h_type hh = t -> h_dst_mod hh = dm -> Good t dm s l ->
  exists fr hh' s', deliver_loop cfg rec p hh l s = Ok tt s' /\ out s' = out s ++ fr /\ Loop hh s l fr hh' s'.
Proof.
  intros Hnn. induction l as [|c r IH]; intros hh s Et Ed G.
  - exists [], hh, s. cbn [deliver_loop ret]. rewrite app_nil_r. repeat split; auto. constructor.
  - destruct (Step_exists t dm hh s c r Et Ed Hnn G) as (fr1 & hh1 & s1 & St).
    destruct (Step_facts t dm hh s c r fr1 hh1 s1 Et Ed Hnn G St) as (E & Ho & Sb & (Ht1 & Hd1 & _)).
    destruct (IH hh1 s1) as (fr & hh' & s' & E' & Ho' & L); [congruence|congruence|eapply Good_next; eauto|].
    exists (fr1 ++ fr), hh', s'. cbn [deliver_loop]. unfold bind at 1. rewrite E. split; [exact E'|].
    split; [rewrite Ho', Ho, app_assoc; reflexivity|econstructor; eauto].
Qed.

(* ---------- (2) reading the result ---------- *)

Lemma proj_frame_for hh s c f :
  proj f (frame_for hh p s c) = if c =? f then [OHdr (set_count hh (cnt s c + 1)); OPay p] else [].
Proof. unfold frame_for. cbn [proj]. destruct (c =? f); reflexivity. Qed.

Lemma not_ready_of_other dm s c : is_blocked s c = true \/ is_failing dm s c = true -> is_ready s c = false.
Proof.
  intros H. destruct (is_ready s c) eqn:E; [|reflexivity]. destruct (ready_not_other dm s c E) as [A B].
  destruct H; congruence.
Qed.

(* what a step writes to a connection that is subscribed to neither notice *)
Lemma Step_proj_plain t dm hh s c r fr1 hh1 s1 f :
  Good t dm s (c :: r) -> Step hh s c fr1 hh1 s1 ->
  ~ In f (snapshot s MT_CLIENT_CLOSED) -> ~ In f (snapshot s MT_FAILED_MESSAGE) ->
  proj f fr1 = if (c =? f) && is_ready s c && eligible (h_dst_mod hh) s c
               then [OHdr (set_count hh (cnt s c + 1)); OPay p] else [].
Proof.
  intros G St Hc Hf. destruct St as [Hr El|Hr El|s1 Hb E|sm s1 Hfl Erm E|Hsk].
  - rewrite proj_frame_for, Hr, El, !andb_true_r. reflexivity.
  - rewrite El, andb_false_r. reflexivity.
  - rewrite (not_ready_of_other (h_dst_mod hh) s c (or_introl Hb)), andb_false_r. cbn [andb].
    apply proj_frames_out. left. exact Hf.
  - rewrite (not_ready_of_other (h_dst_mod hh) s c (or_intror Hfl)), andb_false_r. cbn [andb].
    rewrite proj_app, !proj_frames_out; [reflexivity| |]; left; intros Hin; apply remaining_In in Hin; tauto.
  - rewrite (head_registered _ _ _ _ _ G) in Hsk. discriminate.
Qed.

Theorem Loop_proj_plain t dm : zmem t no_notice_types = false ->
  forall hh s l fr hh' s', Loop hh s l fr hh' s' ->
  h_type hh = t -> h_dst_mod hh = dm -> Good t dm s l ->
  forall f, ~ In f (snapshot s MT_CLIENT_CLOSED) -> ~ In f (snapshot s MT_FAILED_MESSAGE) ->
  (In f l -> is_ready s f = true -> eligible dm s f = true -> exists n, proj f fr = [OHdr (set_count hh n); OPay p]) /\
  (~ (In f l /\ is_ready s f = true /\ eligible dm s f = true) -> proj f fr = []).
Proof.
  intros Hnn hh s l fr hh' s' L.
  induction L as [hh s|hh s c r fr1 hh1 s1 fr hh' s' St L IH]; intros Et Ed G f Hc Hf.
  - split; [intros []|reflexivity].
  - destruct (Step_facts t dm hh s c r fr1 hh1 s1 Et Ed Hnn G St) as (_ & _ & Sb & (Ht1 & Hd1 & Hcnt)).
    pose proof (Good_next t dm s c r s1 G Sb) as G1. pose proof (sb_frame _ _ _ Sb) as F.
    assert (Hc1 : ~ In f (snapshot s1 MT_CLIENT_CLOSED)) by (intro Hin; apply Hc; eapply snapshot_Frame; eauto).
    assert (Hf1 : ~ In f (snapshot s1 MT_FAILED_MESSAGE)) by (intro Hin; apply Hf; eapply snapshot_Frame; eauto).
    destruct (IH ltac:(congruence) ltac:(congruence) G1 f Hc1 Hf1) as [IHa IHb].
    rewrite proj_app, (Step_proj_plain t dm hh s c r fr1 hh1 s1 f G St Hc Hf). rewrite Ed.
    pose proof (g_nd _ _ _ _ G) as Hnd. apply NoDup_cons_iff in Hnd. destruct Hnd as [Hnin Hnd'].
    assert (Hst : forall x, In x r -> is_ready s1 x = is_ready s x /\ eligible dm s1 x = eligible dm s x).
    { intros x Hx.
      destruct (kinds_stable dm s s1 t x (g_inv _ _ _ _ G) (sb_inv _ _ _ Sb) F (sb_faults _ _ _ Sb)
                  (g_in _ _ _ _ G x (or_intror Hx)) (g_in _ _ _ _ G1 x Hx)) as (E1 & _ & _ & E4). auto. }
    destruct (Z.eq_dec c f) as [->|Hne].
    + rewrite Z.eqb_refl. cbn [andb].
      assert (Hrest : proj f fr = []) by (apply IHb; intros (Hin & _); contradiction).
      rewrite Hrest. split.
      * intros _ Hr El. rewrite Hr, El. cbn [andb]. rewrite app_nil_r. eexists. reflexivity.
      * intros Hno. destruct (is_ready s f && eligible dm s f) eqn:E; [|reflexivity].
        apply andb_true_iff in E. exfalso. apply Hno. split; [left; reflexivity|exact E].
    + assert (Hb : c =? f = false) by lia. rewrite Hb. cbn [andb app]. split.
      * intros [->|Hin] Hr El; [contradiction|]. destruct (Hst f Hin) as [E1 E2].
        destruct (IHa Hin ltac:(congruence) ltac:(congruence)) as [n En]. exists n. rewrite En, Hcnt. reflexivity.
      * intros Hno. apply IHb. intros (Hin & A & B). destruct (Hst f Hin) as [E1 E2]. apply Hno.
        split; [right; exact Hin|split; congruence].
Qed.

(* the module ids named by the failure notices a connection receives *)
Definition failed_of (l : list item) : list Z :=
  flat_map (fun it => match it with OPay (PFailed m _) => [m] | _ => [] end) l.
Definition not_failed (q : payload) : Prop := match q with PFailed _ _ => False | _ => True end.

Lemma failed_of_app a b : failed_of (a ++ b) = failed_of a ++ failed_of b.
Proof. unfold failed_of. apply flat_map_app. Qed.

Lemma proj_frame_for_gen h q st c f :
  proj f (frame_for h q st c) = if c =? f then [OHdr (set_count h (cnt st c + 1)); OPay q] else [].
Proof. unfold frame_for. cbn [proj]. destruct (c =? f); reflexivity. Qed.

Lemma failed_frames_none h q st lst g : not_failed q -> failed_of (proj g (frames h q st lst)) = [].
Proof.
  intros Hq. induction lst as [|a r IH]; [reflexivity|]. unfold frames. cbn [flat_map]. fold (frames h q st r).
  rewrite proj_app, failed_of_app, IH, app_nil_r. destruct (eligible (h_dst_mod h) st a); [|reflexivity].
  rewrite proj_frame_for_gen. destruct (a =? g); [|reflexivity]. destruct q; try reflexivity. destruct Hq.
Qed.

Lemma failed_frames_one m h0 h st lst g : NoDup lst -> In g lst -> h_dst_mod h = 0 ->
  failed_of (proj g (frames h (PFailed m h0) st lst)) = [m].
Proof.
  intros Hnd Hin Hd. rewrite proj_frames_in; auto. unfold eligible. rewrite Hd. reflexivity.
Qed.

Lemma remaining_NoDup s c t : ~ In c X -> RegInvX X s -> m_reg (find_mod c (mods s)) = true ->
  t <> ALL_MESSAGE_TYPES -> NoDup (remaining s c t).
Proof.
  intros HcX H Hreg Ht. rewrite <- (closed_snapshot X s c t H).
  destruct (closed_state_inv X c s HcX H Hreg) as (H3 & _). eapply snapshot_NoDup; eauto.
Qed.

Lemma Step_failed t dm hh s c r fr1 hh1 s1 g :
  h_type hh = t -> h_dst_mod hh = dm -> not_failed p ->
  Good t dm s (c :: r) -> Step hh s c fr1 hh1 s1 -> In g (snapshot s MT_FAILED_MESSAGE) ->
  failed_of (proj g fr1) = if is_blocked s c || is_failing dm s c then [m_mod_id (find_mod c (mods s))] else [].
Proof.
  intros Et Ed Hp G St Hg. pose proof (g_inv _ _ _ _ G) as H. pose proof (g_env _ _ _ _ G) as He. subst dm.
  destruct St as [Hr El|Hr El|s1 Hb E|sm s1 Hfl Erm E|Hsk].
  - destruct (ready_not_other (h_dst_mod hh) s c Hr) as [A B]. rewrite A, B. cbn [orb].
    rewrite proj_frame_for. destruct (c =? g); [|reflexivity]. destruct p; try reflexivity. destruct Hp.
  - destruct (ready_not_other (h_dst_mod hh) s c Hr) as [A B]. rewrite A, B. reflexivity.
  - rewrite Hb. cbn [orb]. apply failed_frames_one; auto. eapply snapshot_NoDup; eauto. discriminate.
  - rewrite Hfl, orb_true_r. rewrite proj_app, failed_of_app, failed_frames_none; [|exact I]. cbn [app].
    apply failed_frames_one; auto.
    + apply remaining_NoDup; [eapply head_not_inflight; eauto|exact H|eapply head_registered; eauto|discriminate].
    + apply remaining_In. split; [|exact Hg]. intro; subst g.
      pose proof (Env_no_fault s c He (or_intror Hg)) as Hn. unfold is_failing in Hfl. apply andb_true_iff in Hfl.
      destruct Hfl as [_ Hex]. unfold no_fault, exhausted in *. destruct (flookup c (faults s)); discriminate.
  - rewrite (head_registered _ _ _ _ _ G) in Hsk. discriminate.
Qed.

Lemma map_filter_ext {A B} (F1 F : A -> B) (P1 P : A -> bool) l :
  (forall x, In x l -> P1 x = P x /\ F1 x = F x) -> map F1 (filter P1 l) = map F (filter P l).
Proof.
  induction l as [|a r IH]; intros H; [reflexivity|]. cbn [filter]. destruct (H a (or_introl eq_refl)) as [E1 E2].
  rewrite E1. assert (IH' : map F1 (filter P1 r) = map F (filter P r)) by (apply IH; intros x Hx; apply H; right; exact Hx).
  destruct (P a); [cbn [map]; rewrite E2, IH'|rewrite IH']; reflexivity.
Qed.

Theorem Loop_failed t dm : zmem t no_notice_types = false -> not_failed p ->
  forall hh s l fr hh' s', Loop hh s l fr hh' s' ->
  h_type hh = t -> h_dst_mod hh = dm -> Good t dm s l ->
  forall g, In g (snapshot s MT_FAILED_MESSAGE) ->
  failed_of (proj g fr) =
    map (fun c => m_mod_id (find_mod c (mods s))) (filter (fun c => is_blocked s c || is_failing dm s c) l).
Proof.
  intros Hnn Hp hh s l fr hh' s' L.
  induction L as [hh s|hh s c r fr1 hh1 s1 fr hh' s' St L IH]; intros Et Ed G g Hg; [reflexivity|].
  destruct (Step_facts t dm hh s c r fr1 hh1 s1 Et Ed Hnn G St) as (_ & _ & Sb & (Ht1 & Hd1 & Hcnt)).
  pose proof (Good_next t dm s c r s1 G Sb) as G1. pose proof (sb_frame _ _ _ Sb) as F.
  assert (Hg1 : In g (snapshot s1 MT_FAILED_MESSAGE)).
  { eapply Stable_snap; eauto. right. apply Env_no_fault; [apply (g_env _ _ _ _ G)|right; exact Hg]. }
  rewrite proj_app, failed_of_app, (Step_failed t dm hh s c r fr1 hh1 s1 g Et Ed Hp G St Hg).
  rewrite (IH ltac:(congruence) ltac:(congruence) G1 g Hg1).
  rewrite (map_filter_ext (fun c => m_mod_id (find_mod c (mods s1))) (fun c => m_mod_id (find_mod c (mods s)))
             (fun c => is_blocked s1 c || is_failing dm s1 c) (fun c => is_blocked s c || is_failing dm s c) r).
  - cbn [filter]. destruct (is_blocked s c || is_failing dm s c); reflexivity.
  - intros x Hx.
    destruct (kinds_stable dm s s1 t x (g_inv _ _ _ _ G) (sb_inv _ _ _ Sb) F (sb_faults _ _ _ Sb)
                (g_in _ _ _ _ G x (or_intror Hx)) (g_in _ _ _ _ G1 x Hx)) as (_ & E2 & E3 & _).
    rewrite E2, E3. split; [reflexivity|]. apply (fm_mod_id _ _ (Frame_find s s1 x F)).
Qed.

(* ---------- (3) forward_message ---------- *)

(* the state in which the recipients are served: the message has been counted *)
Definition counted (t : Z) (s : mstate) : mstate :=
  if negb (sending_traffic s)
  then with_counts s (if timing_on cfg then cincr t (counts s) else counts s) (cincr t (traffic s)) else s.

Lemma count_msg_run t s : count_msg cfg t s = Ok tt (counted t s).
Proof. unfold count_msg, counted. unfold bind, get. destruct (negb (sending_traffic s)); reflexivity. Qed.

Lemma Good_counted t' t dm s l : Good t dm s l -> Good t dm (counted t' s) l.
Proof.
  intros G. unfold counted. destruct (negb (sending_traffic s)); [|exact G].
  destruct G as [A B C D E]. constructor; assumption.
Qed.

Lemma counted_same t' s :
  out (counted t' s) = out s /\ (forall t, snapshot (counted t' s) t = snapshot s t) /\
  (forall f, is_ready (counted t' s) f = is_ready s f /\ is_blocked (counted t' s) f = is_blocked s f /\
             m_mod_id (find_mod f (mods (counted t' s))) = m_mod_id (find_mod f (mods s)) /\
             forall dm, is_failing dm (counted t' s) f = is_failing dm s f /\ eligible dm (counted t' s) f = eligible dm s f).
Proof. unfold counted. destruct (negb (sending_traffic s)); repeat split; reflexivity. Qed.

Theorem forward_general hh s :
  RegInvX X s -> Env s ->
  zmem (h_type hh) no_notice_types = false -> h_type hh <> ALL_MESSAGE_TYPES ->
  bad_dest_mod (h_dst_mod hh) = false -> bad_dest_host (h_dst_host hh) = false ->
  (forall c, In c (snapshot s (h_type hh)) -> classified (h_dst_mod hh) s c = true) ->
  let l := snapshot s (h_type hh) in
  let dm := h_dst_mod hh in
  exists fr hh' s',
    forward cfg (Datatypes.S (Datatypes.S k)) hh p s = Ok tt s' /\ out s' = out s ++ fr /\
    Loop hh (counted (h_type hh) s) l fr hh' s' /\
    (* every healthy recipient gets the message exactly once; nobody else outside the notice subscribers gets anything *)
    (forall f, ~ In f (snapshot s MT_CLIENT_CLOSED) -> ~ In f (snapshot s MT_FAILED_MESSAGE) ->
       (In f l -> is_ready s f = true -> eligible dm s f = true -> exists n, proj f fr = [OHdr (set_count hh n); OPay p]) /\
       (~ (In f l /\ is_ready s f = true /\ eligible dm s f = true) -> proj f fr = [])) /\
    (* a subscriber of FAILED_MESSAGE is told about exactly the blocked and the failing recipients, in order *)
    (not_failed p -> forall g, In g (snapshot s MT_FAILED_MESSAGE) ->
       failed_of (proj g fr) =
         map (fun c => m_mod_id (find_mod c (mods s))) (filter (fun c => is_blocked s c || is_failing dm s c) l)).
Proof.
  intros H He Hnn Hall Hm Hh Hcls l dm.
  assert (G : Good (h_type hh) dm s l).
  { constructor; auto. eapply snapshot_NoDup; eauto. }
  pose proof (Good_counted (h_type hh) _ _ _ _ G) as G'.
  destruct (counted_same (h_type hh) s) as (Eo & Esn & Ek).
  destruct (deliver_loop_general (h_type hh) dm Hnn l hh (counted (h_type hh) s) eq_refl eq_refl G') as (fr & hh' & s' & E & Ho & L).
  exists fr, hh', s'. split; [|split; [rewrite Ho, Eo; reflexivity|split; [exact L|split]]].
  - change (forward cfg (Datatypes.S (Datatypes.S k)) hh p s) with (forward_body cfg rec hh p s).
    unfold forward_body. unfold bind at 1. rewrite count_msg_run. rewrite Hm, Hh. unfold bind at 1. unfold get.
    rewrite Esn. exact E.
  - intros f Hc Hf.
    destruct (Loop_proj_plain (h_type hh) dm Hnn hh (counted (h_type hh) s) l fr hh' s' L eq_refl eq_refl G' f) as [A B];
      [rewrite Esn; exact Hc|rewrite Esn; exact Hf|].
    destruct (Ek f) as (K1 & _ & _ & K4). destruct (K4 dm) as [_ K5]. rewrite K1, K5 in A, B. split; assumption.
  - intros Hp g Hg.
    rewrite (Loop_failed (h_type hh) dm Hnn Hp hh (counted (h_type hh) s) l fr hh' s' L eq_refl eq_refl G' g); [|rewrite Esn; exact Hg].
    apply map_filter_ext. intros x _. destruct (Ek x) as (_ & K2 & K3 & K4). destruct (K4 dm) as [K5 _].
    rewrite K2, K5. auto.
Qed.

End OneLevel.

(* ---------- at every reachable state ---------- *)

Theorem forward_general_reachable cfg fuel es u s (k : nat) p hh :
  run cfg fuel es = Ok u s -> 40 < loglevel cfg -> Env s ->
  zmem (h_type hh) no_notice_types = false -> h_type hh <> ALL_MESSAGE_TYPES ->
  bad_dest_mod (h_dst_mod hh) = false -> bad_dest_host (h_dst_host hh) = false ->
  (forall c, In c (snapshot s (h_type hh)) -> classified (h_dst_mod hh) s c = true) ->
  let l := snapshot s (h_type hh) in
  let dm := h_dst_mod hh in
  exists fr hh' s',
    forward cfg (Datatypes.S (Datatypes.S k)) hh p s = Ok tt s' /\ out s' = out s ++ fr /\
    Loop cfg k p hh (counted cfg (h_type hh) s) l fr hh' s' /\
    (forall f, ~ In f (snapshot s MT_CLIENT_CLOSED) -> ~ In f (snapshot s MT_FAILED_MESSAGE) ->
       (In f l -> is_ready s f = true -> eligible dm s f = true -> exists n, proj f fr = [OHdr (set_count hh n); OPay p]) /\
       (~ (In f l /\ is_ready s f = true /\ eligible dm s f = true) -> proj f fr = [])) /\
    (not_failed p -> forall g, In g (snapshot s MT_FAILED_MESSAGE) ->
       failed_of (proj g fr) =
         map (fun c => m_mod_id (find_mod c (mods s))) (filter (fun c => is_blocked s c || is_failing dm s c) l)).
Proof.
  intros Hrun Hlog. pose proof (run_safe cfg fuel es) as R. rewrite Hrun in R. destruct R as (R & _).
  exact (forward_general cfg k p [] Hlog hh s R).
Qed.

(* ---------- non-vacuity ----------
   conn 1: a logger subscribed to ALL message types (hence to both notices) - the monitor; conn 2: the publisher
   (module 11); conns 3, 4, 5 (modules 12, 13, 14) subscribe to type 100.  In the state reached conn 4 is not
   writable and conn 5's writes fail.  One publish of type 100: conn 3 gets the message; the monitor is told
   FAILED_MESSAGE(13), CLIENT_CLOSED(conn 5), FAILED_MESSAGE(14) and then gets its own copy of the message;
   conns 4 and 5 get nothing. *)
Definition lx_hdr (t sm : Z) : hdr := mkHdr t 1 0 sm 0 0 4 7.
Definition lx_hist : list event :=
  [ERound true [] [] 0; ERound true [] [] 0; ERound true [] [] 0; ERound true [] [] 0; ERound true [] [] 0;
   ERound false [(1, IFrame (lx_hdr MT_CONNECT 10) (InConnect 1 0)); (2, IFrame (lx_hdr MT_CONNECT 11) (InConnect 0 0));
                 (3, IFrame (lx_hdr MT_CONNECT 12) (InConnect 0 0)); (4, IFrame (lx_hdr MT_CONNECT 13) (InConnect 0 0));
                 (5, IFrame (lx_hdr MT_CONNECT 14) (InConnect 0 0))] [1;2;3;4;5] 0;
   ERound false [(1, IFrame (lx_hdr MT_SUBSCRIBE 10) (InSub ALL_MESSAGE_TYPES)); (4, IFrame (lx_hdr MT_SUBSCRIBE 13) (InSub 100));
                 (5, IFrame (lx_hdr MT_SUBSCRIBE 14) (InSub 100))] [1;2;3;4;5] 0;
   ERound false [(3, IFrame (lx_hdr MT_SUBSCRIBE 12) (InSub 100))] [1;2;3;5] 0;
   EFault 5 0].
Definition lx_msg : hdr := mkHdr 100 1 0 11 0 0 1 9.
Definition lx_cfg : config := mkConfig 60 true.

(* the hypotheses of forward_general_reachable, evaluated *)
Example loop_ex_hypotheses :
  match run lx_cfg 20%nat lx_hist with
  | Ok _ s =>
    (40 <? loglevel lx_cfg, zmem (h_type lx_msg) no_notice_types, h_type lx_msg =? ALL_MESSAGE_TYPES,
     bad_dest_mod (h_dst_mod lx_msg) || bad_dest_host (h_dst_host lx_msg),
     snapshot s 100, map (fun c => (is_ready s c, is_blocked s c, is_failing 0 s c)) (snapshot s 100),
     (snapshot s MT_CLIENT_CLOSED, snapshot s MT_FAILED_MESSAGE),
     map (fun f => (zmem f (wl s), flookup f (faults s))) (snapshot s MT_CLIENT_CLOSED ++ snapshot s MT_FAILED_MESSAGE))
  | Crash _ _ => (false, true, true, true, [], [], ([], []), [])
  end = (true, false, false, false, [3; 4; 5; 1],
         [(true, false, false); (false, true, false); (false, false, true); (true, false, false)],
         ([1], [1]), [(true, None); (true, None)]).
Proof. vm_compute. reflexivity. Qed.

(* the frames written by the publish, and their reading through (2) *)
Example loop_ex_outcome :
  match run lx_cfg 20%nat lx_hist with
  | Ok _ s =>
    match forward lx_cfg 2 lx_msg (PData 5 1) s with
    | Ok _ s' =>
      let fr := skipn (length (out s)) (out s') in
      (fr, (proj 3 fr, proj 4 fr, proj 5 fr, proj 2 fr), failed_of (proj 1 fr),
       map (fun c => m_mod_id (find_mod c (mods s))) (filter (fun c => is_blocked s c || is_failing 0 s c) (snapshot s 100)),
       map (fun c => (m_reg (find_mod c (mods s')), m_drops (find_mod c (mods s')))) [3; 4; 5])
    | Crash _ _ => ([], ([], [], [], []), [], [], [])
    end
  | Crash _ _ => ([], ([], [], [], []), [], [], [])
  end =
  ([(3, OHdr (set_count lx_msg 3)); (3, OPay (PData 5 1));
    (1, OHdr (set_count fail_hdr 12)); (1, OPay (PFailed 13 (set_count lx_msg 3)));
    (1, OHdr (set_count cc_hdr 13)); (1, OPay (PClient true 5 0 14 false true 0));
    (1, OHdr (set_count fail_hdr 14)); (1, OPay (PFailed 14 (set_count lx_msg 3)));
    (1, OHdr (set_count lx_msg 15)); (1, OPay (PData 5 1))],
   ([OHdr (set_count lx_msg 3); OPay (PData 5 1)], [], [], []),
   [13; 14], [13; 14],
   [(true, 0); (true, 1); (false, 0)]).
Proof. vm_compute. reflexivity. Qed.

