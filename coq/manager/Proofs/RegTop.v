(* Top-level operations of the manager preserve the step-level invariant and never raise
   anything but XFuel (C03), and keep module identities unique (C06). *)
From Coq Require Import ZArith List Bool Lia.
From Mgr Require Import Gen.MgrDefs Model.Manager Proofs.ListLemmas Proofs.Hoare Proofs.RegInv Proofs.Frame
                        Proofs.RegTraverse Proofs.Assign.
Import ListNotations.
Open Scope Z_scope.

(* identities are kept, liveness only shrinks *)
Record keep_mod (a b : module) : Prop := {
  km_conn : m_conn b = m_conn a;
  km_mod_id : m_mod_id b = m_mod_id a;
  km_unique : m_unique b = m_unique a;
  km_reg : m_reg b = true -> m_reg a = true;
  km_connected : m_connected b = true -> m_connected a = true
}.
Record Keep (s s' : mstate) : Prop := {
  kp_mods : Forall2 keep_mod (mods s) (mods s');
  kp_dyn : dyn_off s' = dyn_off s;
  kp_uid : next_uid s' = next_uid s
}.

Lemma keep_mod_refl a : keep_mod a a. Proof. constructor; auto. Qed.
Lemma keep_mod_trans a b c : keep_mod a b -> keep_mod b c -> keep_mod a c.
Proof. intros [] []. constructor; try congruence; auto. Qed.
Lemma Keep_refl s : Keep s s. Proof. constructor; auto. apply Forall2_refl, keep_mod_refl. Qed.
Lemma Keep_trans a b c : Keep a b -> Keep b c -> Keep a c.
Proof. intros [] []. constructor; try congruence. eapply Forall2_trans; eauto. apply keep_mod_trans. Qed.
Lemma frame_keep a b : frame_mod a b -> keep_mod a b.
Proof. intros []. constructor; auto. Qed.
Lemma Frame_Keep s s' : Frame s s' -> Keep s s'.
Proof.
  intros F. constructor; [|apply (fr_dyn _ _ F)|apply (fr_uid _ _ F)].
  pose proof (fr_mods _ _ F) as H. induction H; constructor; auto. apply frame_keep; auto.
Qed.

Lemma Forall2_keep_upd c f l : (forall m, keep_mod m (f m)) -> Forall2 keep_mod l (upd_mod c f l).
Proof.
  intros Hf. induction l as [|m r IH]; simpl; [constructor|].
  destruct (m_conn m =? c); constructor; auto; [apply Forall2_refl, keep_mod_refl|apply keep_mod_refl].
Qed.

Lemma Keep_upd s c f : (forall m, keep_mod m (f m)) -> Keep s (with_mods s (upd_mod c f (mods s))).
Proof. intros Hf. constructor; simpl; auto. apply Forall2_keep_upd; auto. Qed.

(* ---------- step-level invariants ---------- *)

Definition live (m : module) : Prop := m_reg m = true /\ m_connected m = true.

Definition IdInv (s : mstate) : Prop :=
  forall m, In m (mods s) -> m_reg m = true -> - LEN_ModulePID <= m_mod_id m < LEN_ModulePID.

Definition UniqInv (s : mstate) : Prop :=
  forall a b, In a (mods s) -> In b (mods s) -> live a -> live b -> m_conn a <> m_conn b ->
              m_mod_id a = m_mod_id b -> m_unique a = false /\ m_unique b = false.

Lemma Forall2_In_r {A B} (R : A -> B -> Prop) l l' b : Forall2 R l l' -> In b l' -> exists a, In a l /\ R a b.
Proof.
  induction 1 as [|x y l l' Hxy Hl IH]; simpl; [tauto|].
  intros [<-|H]; [exists x; auto|]. destruct (IH H) as (a & Ha & Hr). exists a; auto.
Qed.

Lemma IdInv_Keep s s' : IdInv s -> Keep s s' -> IdInv s'.
Proof.
  intros H K b Hb Hr. destruct (Forall2_In_r _ _ _ _ (kp_mods _ _ K) Hb) as (a & Ha & [K1 K2 K3 K4 K5]).
  rewrite K2. apply H; auto.
Qed.

Lemma UniqInv_Keep s s' : UniqInv s -> Keep s s' -> UniqInv s'.
Proof.
  intros H K a' b' Ha' Hb' [La1 La2] [Lb1 Lb2] Hne Hid.
  destruct (Forall2_In_r _ _ _ _ (kp_mods _ _ K) Ha') as (a & Ha & [A1 A2 A3 A4 A5]).
  destruct (Forall2_In_r _ _ _ _ (kp_mods _ _ K) Hb') as (b & Hb & [B1 B2 B3 B4 B5]).
  rewrite A3, B3. apply H; auto; try (split; auto); congruence.
Qed.

Definition StepInv (s : mstate) : Prop := RegInv s /\ IdInv s /\ UniqInv s.

(* judgement for operations that keep identities *)
Definition T {A} (m : M A) : Prop :=
  forall s, RegInv s -> match m s with Ok _ s' => RegInv s' /\ Keep s s' | Crash e _ => e = XFuel end.

Lemma J_T {A} (m : M A) : J [] m -> T m.
Proof.
  intros H s Hs. specialize (H s Hs). destruct (m s); auto. destruct H. split; auto. apply Frame_Keep; auto.
Qed.

Lemma T_ret {A} (a : A) : T (ret a).
Proof. intros s H. simpl. split; [exact H|apply Keep_refl]. Qed.

Lemma T_bind {A B} (m : M A) (k : A -> M B) : T m -> (forall a, T (k a)) -> T (bind m k).
Proof.
  intros Hm Hk s H. unfold bind. specialize (Hm s H). destruct (m s) as [a s1|e s1]; [|exact Hm].
  destruct Hm as [H1 K1]. specialize (Hk a s1 H1). destruct (k a s1) as [b s2|e s2]; [|exact Hk].
  destruct Hk as [H2 K2]. split; [exact H2|eapply Keep_trans; eauto].
Qed.

Lemma T_get {A} (k : mstate -> M A) :
  (forall s0, RegInv s0 -> match k s0 s0 with Ok _ s' => RegInv s' /\ Keep s0 s' | Crash e _ => e = XFuel end) ->
  T (bind get k).
Proof. intros H s Hs. unfold bind, get. apply H; auto. Qed.

Lemma T_get' {A} (k : mstate -> M A) : (forall s0, T (k s0)) -> T (bind get k).
Proof. intros H. apply T_get. intros s0 H0. apply H; auto. Qed.

Lemma T_if {A} (b : bool) (m1 m2 : M A) : T m1 -> T m2 -> T (if b then m1 else m2).
Proof. destruct b; auto. Qed.

Lemma T_modify f : (forall s, RegInv s -> RegInv (f s) /\ Keep s (f s)) -> T (modify f).
Proof. intros H s Hs. simpl. auto. Qed.

Lemma T_mapM {A} (f : A -> M unit) l : (forall x, T (f x)) -> T (mapM_ f l).
Proof.
  intros H. induction l as [|x r IH]; simpl; [apply T_ret|]. apply T_bind; [apply H|]. intros _. exact IH.
Qed.

Section Top.
Variable cfg : config.
Variable FUEL : nat.

Notation fwd := (fwd cfg FUEL).
Lemma J_fwd X h p : J X (fwd h p).
Proof. apply J_forward. Qed.

Lemma J_mlog_top X lvl : J X (mlog cfg FUEL lvl).
Proof. apply J_mlog. intros; apply J_fwd. Qed.
Lemma J_send_mgr_top X t sz pl : J X (send_mgr cfg FUEL t sz pl).
Proof. apply J_send_mgr. intros; apply J_fwd. Qed.
Lemma J_send_failed_top X c hh : J X (send_failed cfg FUEL c hh).
Proof. apply J_send_failed. intros; apply J_fwd. Qed.
Lemma J_remove_module_top X c : ~ In c X -> J X (remove_module cfg FUEL c).
Proof. apply J_remove_module. intros; apply J_fwd. Qed.
Lemma remove_module_post_top X c : ~ In c X -> forall s0, RegInvX X s0 ->
  match remove_module cfg FUEL c s0 with
  | Ok _ s' => RegInvX X s' /\ Frame s0 s' /\ m_reg (find_mod c (mods s')) = false
  | Crash e _ => e = XFuel
  end.
Proof. intros H. apply remove_module_post; auto. intros; apply J_fwd. Qed.
Lemma J_send_checked_top X c hh p : ~ In c X -> J X (send_checked cfg FUEL c hh p).
Proof. apply J_send_checked. intros; apply J_fwd. Qed.

Lemma J_send_client_info X c : J X (send_client_info cfg FUEL c).
Proof.
  unfold send_client_info. apply J_bind; [apply J_mlog_top|]. intros _. apply J_get. intros s0. apply J_send_mgr_top.
Qed.

Lemma J_loggers_loop : forall l hh p, J [] (loggers_loop cfg FUEL hh p l).
Proof.
  induction l as [|c r IH]; intros hh p; simpl; [apply J_ret|].
  apply J_get. intros s0 H0.
  destruct (m_reg (find_mod c (mods s0))) eqn:Hreg; cbn [negb]; [|apply IH; exact H0].
  assert (Hopen : m_closed (find_mod c (mods s0)) = false).
  { destruct (m_closed (find_mod c (mods s0))) eqn:E; [|reflexivity]. exfalso.
    pose proof (find_mod_reg_In c _ Hreg) as [Hi Hcc]. apply (ro_flight _ _ _ _ _ H0 _ Hi Hreg E). }
  rewrite Hopen, andb_false_r. revert H0.
  apply Jat_bind; [apply J_send_checked_top; intros []|]. intros hh'. apply IH.
Qed.

Lemma J_send_to_loggers hh p : J [] (send_to_loggers cfg FUEL hh p).
Proof. unfold send_to_loggers. apply J_get. intros s0. apply J_loggers_loop. Qed.

Lemma J_send_ack c : J [] (send_ack cfg FUEL c).
Proof.
  unfold send_ack. apply J_get. intros s0.
  apply Jat_bind; [apply J_send_checked_top; intros []|]. intros hh'. apply J_send_to_loggers.
Qed.


(* ---------- subscriptions ---------- *)

Lemma reg_open s c : RegInv s -> m_reg (find_mod c (mods s)) = true ->
  m_closed (find_mod c (mods s)) = false /\ 0 <= c /\ In (find_mod c (mods s)) (mods s).
Proof.
  intros H Hreg. pose proof (find_mod_reg_In c _ Hreg) as [Hi Hcc]. split; [|split; [|exact Hi]].
  - destruct (m_closed (find_mod c (mods s))) eqn:E; [|reflexivity]. exfalso. apply (ro_flight _ _ _ _ _ H _ Hi Hreg E).
  - rewrite <- Hcc. apply (ro_pos _ _ _ _ _ H _ Hi).
Qed.

Lemma km_subs m l : keep_mod m (mm_subs m l). Proof. constructor; auto. Qed.

Lemma find_upd_hit c f l : conn_pres f -> 0 <= c -> m_conn (find_mod c l) = c ->
  find_mod c (upd_mod c f l) = f (find_mod c l).
Proof. intros Hf Hc Hcc. rewrite find_upd_same; auto. rewrite Hcc, Z.eqb_refl. reflexivity. Qed.

Definition Tpre {A} (P : mstate -> Prop) (m : M A) : Prop :=
  forall s, RegInv s -> P s -> match m s with Ok _ s' => RegInv s' /\ Keep s s' | Crash e _ => e = XFuel end.

Lemma add_subscription_T c t : Tpre (fun s => m_reg (find_mod c (mods s)) = true) (add_subscription cfg FUEL c t).
Proof.
  intros s H Hreg. destruct (reg_open s c H Hreg) as (Hopen & Hc & Hin).
  pose proof (find_mod_conn_of_reg _ _ Hreg) as Hcc.
  unfold add_subscription. unfold bind at 1. unfold get.
  destruct (t =? ALL_MESSAGE_TYPES) eqn:Et.
  - apply Z.eqb_eq in Et. subst t.
    set (sb1 := drop_subs c (m_subs (find_mod c (mods s))) (subs s)).
    set (ms' := upd_mod c (fun m => mm_subs m [ALLT]) (mods s)).
    set (s3 := with_mods (with_subs (with_subs s sb1) (aupdate ALLT (zinsert c) sb1)) ms').
    assert (H3 : RegInv s3).
    { unfold RegInv, RegInvX, s3. simpl.
      assert (A : reg_ok [] (mods s) sb1 (loggers s) (next_uid s)) by (apply reg_ok_drop_subs; exact H).
      assert (B : reg_ok [] ms' sb1 (loggers s) (next_uid s)).
      { apply reg_ok_set_subs_absent; auto. intros t. apply (drop_subs_gone _ _ _ _ _ c H t). }
      assert (Hf : find_mod c ms' = mm_subs (find_mod c (mods s)) [ALLT]).
      { unfold ms'. rewrite find_upd_hit; auto. intro; reflexivity. }
      apply reg_ok_list_add; auto; rewrite Hf; simpl; auto. }
    assert (K3 : Keep s s3).
    { unfold s3. constructor; simpl; auto. apply Forall2_keep_upd. intro; apply km_subs. }
    change (match (mlog cfg FUEL 10) s3 with Ok _ s' => RegInv s' /\ Keep s s' | Crash e _ => e = XFuel end).
    pose proof (J_mlog_top [] 10 s3 H3) as Hl. destruct (mlog cfg FUEL 10 s3); [|exact Hl].
    destruct Hl as [H4 F4]. split; [exact H4|]. eapply Keep_trans; [exact K3|apply Frame_Keep; exact F4].
  - destruct (zmem ALL_MESSAGE_TYPES (m_subs (find_mod c (mods s)))) eqn:Eall.
    + simpl. split; [exact H|apply Keep_refl].
    + apply zmem_false in Eall. apply Z.eqb_neq in Et.
      set (s3 := with_mods (with_subs s (aupdate t (zinsert c) (subs s)))
                           (upd_mod c (fun m => mm_subs m (zinsert t (m_subs m))) (mods s))).
      assert (H3 : RegInv s3).
      { unfold RegInv, RegInvX, s3. simpl. apply reg_ok_sub_one; auto. }
      assert (K3 : Keep s s3).
      { unfold s3. constructor; simpl; auto. apply Forall2_keep_upd. intro; apply km_subs. }
      change (match (mlog cfg FUEL 10) s3 with Ok _ s' => RegInv s' /\ Keep s s' | Crash e _ => e = XFuel end).
      pose proof (J_mlog_top [] 10 s3 H3) as Hl. destruct (mlog cfg FUEL 10 s3); [|exact Hl].
      destruct Hl as [H4 F4]. split; [exact H4|]. eapply Keep_trans; [exact K3|apply Frame_Keep; exact F4].
Qed.

Lemma remove_subscription_T c t : Tpre (fun s => m_reg (find_mod c (mods s)) = true) (remove_subscription cfg FUEL c t).
Proof.
  intros s H Hreg. destruct (reg_open s c H Hreg) as (Hopen & Hc & Hin).
  unfold remove_subscription. unfold bind at 1. unfold get.
  destruct (t =? ALL_MESSAGE_TYPES) eqn:Et.
  - apply Z.eqb_eq in Et. subst t.
    set (sb1 := aupdate ALLT (zremove c) (subs s)).
    set (sb2 := drop_subs c (m_subs (find_mod c (mods s))) sb1).
    set (ms' := upd_mod c (fun m => mm_subs m []) (mods s)).
    set (s3 := with_mods (with_subs (with_subs s sb1) sb2) ms').
    assert (H3 : RegInv s3).
    { unfold RegInv, RegInvX, s3. simpl.
      assert (A : reg_ok [] (mods s) sb1 (loggers s) (next_uid s)) by (apply reg_ok_aupdate_remove; exact H).
      assert (B : reg_ok [] (mods s) sb2 (loggers s) (next_uid s)) by (apply reg_ok_drop_subs; exact A).
      apply reg_ok_set_subs_absent; auto.
      - intros t. apply (drop_subs_gone _ _ _ _ _ c A t).
      - simpl. tauto. }
    assert (K3 : Keep s s3).
    { unfold s3. constructor; simpl; auto. apply Forall2_keep_upd. intro; apply km_subs. }
    change (match (mlog cfg FUEL 10) s3 with Ok _ s' => RegInv s' /\ Keep s s' | Crash e _ => e = XFuel end).
    pose proof (J_mlog_top [] 10 s3 H3) as Hl. destruct (mlog cfg FUEL 10 s3); [|exact Hl].
    destruct Hl as [H4 F4]. split; [exact H4|]. eapply Keep_trans; [exact K3|apply Frame_Keep; exact F4].
  - destruct (zmem ALL_MESSAGE_TYPES (m_subs (find_mod c (mods s)))) eqn:Eall.
    + simpl. split; [exact H|apply Keep_refl].
    + apply zmem_false in Eall.
      set (s3 := with_mods (with_subs s (aupdate t (zremove c) (subs s)))
                           (upd_mod c (fun m => mm_subs m (zremove t (m_subs m))) (mods s))).
      assert (H3 : RegInv s3).
      { unfold RegInv, RegInvX, s3. simpl. apply reg_ok_unsub_one; auto. }
      assert (K3 : Keep s s3).
      { unfold s3. constructor; simpl; auto. apply Forall2_keep_upd. intro; apply km_subs. }
      change (match (mlog cfg FUEL 10) s3 with Ok _ s' => RegInv s' /\ Keep s s' | Crash e _ => e = XFuel end).
      pose proof (J_mlog_top [] 10 s3 H3) as Hl. destruct (mlog cfg FUEL 10 s3); [|exact Hl].
      destruct Hl as [H4 F4]. split; [exact H4|]. eapply Keep_trans; [exact K3|apply Frame_Keep; exact F4].
Qed.

End Top.
