(* C03, the refuted half: no FIXED nesting budget is enough.
   Proofs/FuelTop.v (run_total) shows that a budget of 2 * (accepted connections + 1) + 2 always suffices.  Here: for
   every budget B there is a finite history - B + 1 connections are accepted, each subscribes to CLIENT_CLOSED, all
   of them stop accepting writes at the same instant, the first one hangs up - on which forward_message needs more
   than B nested calls: publishing CLIENT_CLOSED(1) closes subscriber 2, whose CLIENT_CLOSED is published inside
   that delivery and closes subscriber 3, and so on, one level per dead subscriber.
   Together: the nesting need of a history with n connections lies between n and 2n + 4.  No fixed budget
   (Python's recursion limit is one) is enough; a budget linear in the number of connections is. *)
From Coq Require Import ZArith List Bool Lia ZifyBool.
From Mgr Require Import Gen.MgrDefs Model.Manager Proofs.ListLemmas Proofs.Hoare Proofs.RegInv Proofs.Frame
                        Proofs.RegTraverse Proofs.RegTop Proofs.Connect Proofs.StepInv Proofs.Routing Proofs.OutInv
                        Proofs.C05Inv Proofs.Exact Proofs.ExactTop Proofs.AckExact Proofs.Fuel Proofs.DepartExact
                        Proofs.FailExact Proofs.LoopExact Proofs.CtrlExact.
Import ListNotations.
Open Scope Z_scope.

(* ---------- (a) the cascade, parametrically ---------- *)

(* a subscriber of CLIENT_CLOSED (only) that is registered, open, writable and whose writes fail *)
Definition doomed (s : mstate) (c : Z) : Prop :=
  0 <= c /\ m_conn (find_mod c (mods s)) = c /\ m_reg (find_mod c (mods s)) = true /\
  m_closed (find_mod c (mods s)) = false /\ zmem c (wl s) = true /\
  (exists n, flookup c (faults s) = Some n /\ n <= 0) /\ m_subs (find_mod c (mods s)) = [MT_CLIENT_CLOSED].

(* the recipients of CLIENT_CLOSED are exactly the doomed subscribers L, in this order *)
Record Casc (s : mstate) (L : list Z) : Prop := {
  cs_cc : alookup MT_CLIENT_CLOSED (subs s) = L;
  cs_all : alookup ALL_MESSAGE_TYPES (subs s) = [];
  cs_nodup : NoDup L;
  cs_mem : forall c, In c L -> doomed s c
}.

Lemma doomed_fields s s' c :
  m_conn (find_mod c (mods s')) = m_conn (find_mod c (mods s)) -> m_reg (find_mod c (mods s')) = m_reg (find_mod c (mods s)) ->
  m_closed (find_mod c (mods s')) = m_closed (find_mod c (mods s)) -> m_subs (find_mod c (mods s')) = m_subs (find_mod c (mods s)) ->
  wl s' = wl s -> faults s' = faults s -> doomed s c -> doomed s' c.
Proof. intros E1 E2 E3 E4 E5 E6 (A & B & C & D & E & F & G). unfold doomed. rewrite E1, E2, E3, E4, E5, E6. auto 10. Qed.

Lemma doomed_bumped s c c' : doomed s c' -> doomed (bumped s c) c'.
Proof.
  apply doomed_fields; try reflexivity; unfold bumped; cbn [mods with_mods];
    apply (find_upd_field _ c c' (fun m => mm_count m (cnt s c + 1))); intro; reflexivity.
Qed.

Lemma doomed_closed_other s c c' : c' <> c -> doomed s c' -> doomed (closed_state s c) c'.
Proof.
  intros Hne. assert (E : find_mod c' (mods (closed_state s c)) = find_mod c' (mods s)).
  { unfold closed_state. cbv zeta. cbn [mods with_mods with_loggers with_subs]. apply find_upd_other; [intro; reflexivity|exact Hne]. }
  apply doomed_fields; try (rewrite E; reflexivity); reflexivity.
Qed.

Lemma Casc_bumped s c L : Casc s L -> Casc (bumped s c) L.
Proof. intros [A B C D]. constructor; auto. intros x Hx. apply doomed_bumped. auto. Qed.

Lemma Casc_closed s c L : Casc s (c :: L) -> Casc (closed_state s c) L.
Proof.
  intros [A B C D]. apply NoDup_cons_iff in C. destruct C as [Hnin Hnd].
  destruct (D c (or_introl eq_refl)) as (_ & _ & _ & _ & _ & _ & Hsubs).
  assert (Esub : forall t, alookup t (subs (closed_state s c)) =
                           if zmem t [MT_CLIENT_CLOSED] then zremove c (alookup t (subs s)) else alookup t (subs s)).
  { intros t. unfold closed_state. cbv zeta. cbn [subs with_mods with_loggers with_subs]. rewrite Hsubs. apply alookup_drop_subs. }
  constructor.
  - rewrite Esub, A. change (zmem MT_CLIENT_CLOSED [MT_CLIENT_CLOSED]) with true. cbv iota. cbn [zremove]. rewrite Z.eqb_refl.
    apply zremove_notin. exact Hnin.
  - rewrite Esub. change (zmem ALL_MESSAGE_TYPES [MT_CLIENT_CLOSED]) with false. cbv iota. exact B.
  - exact Hnd.
  - intros x Hx. apply doomed_closed_other; [intro; subst; contradiction|]. apply D. right. exact Hx.
Qed.

Section Depth.
Variable cfg : config.
Hypothesis Hlog : 10 < loglevel cfg.

Definition crashes_fuel {A} (r : res A) : Prop := match r with Crash XFuel _ => True | _ => False end.

(* removing the head of the cascade publishes CLIENT_CLOSED to the rest of it *)
Lemma remove_crashes k c L :
  (forall s pl, Casc s L -> crashes_fuel (forward cfg k cc_hdr pl s)) ->
  forall s, Casc s (c :: L) -> crashes_fuel (remove_module_with cfg (forward cfg k) c s).
Proof.
  intros HF s HC. destruct (cs_mem _ _ HC c (or_introl eq_refl)) as (_ & _ & Hreg & _).
  rewrite (remove_unfold_explicit cfg _ c s Hreg). unfold rm_rest. unfold bind at 1.
  rewrite mlog_with_off; [|lia]. unfold bind at 1. unfold get. unfold bind at 1. unfold send_mgr_with.
  change (mgr_hdr MT_CLIENT_CLOSED SZ_CLIENT_CLOSED 0) with cc_hdr.
  pose proof (HF (closed_state s c) (client_payload true (find_mod c (mods (closed_state s c)))) (Casc_closed s c L HC)) as H.
  destruct (forward cfg k cc_hdr _ (closed_state s c)) as [u s'|e s']; [destruct H|]. destruct e; try destruct H. exact I.
Qed.

(* publishing CLIENT_CLOSED to a cascade of at least k doomed subscribers needs more than k nested calls *)
Theorem cascade_depth : forall k L s pl, Casc s L -> (k <= length L)%nat -> crashes_fuel (forward cfg k cc_hdr pl s).
Proof.
  induction k as [|k IH]; intros L s pl HC Hk; [exact I|].
  destruct L as [|c L]; [cbn in Hk; lia|]. cbn [length] in Hk.
  change (forward cfg (Datatypes.S k) cc_hdr pl s) with (forward_body cfg (forward cfg k) cc_hdr pl s).
  unfold forward_body. unfold bind at 1.
  set (s0 := if negb (sending_traffic s)
             then with_counts s (if timing_on cfg then cincr (h_type cc_hdr) (counts s) else counts s) (cincr (h_type cc_hdr) (traffic s))
             else s).
  assert (E0 : count_msg cfg (h_type cc_hdr) s = Ok tt s0).
  { unfold count_msg, bind, get, s0. destruct (negb (sending_traffic s)); reflexivity. }
  rewrite E0. change (bad_dest_mod (h_dst_mod cc_hdr)) with false. change (bad_dest_host (h_dst_host cc_hdr)) with false. cbv iota.
  assert (HC0 : Casc s0 (c :: L)).
  { unfold s0. destruct (negb (sending_traffic s)); [|exact HC]. destruct HC as [A B C D]. constructor; auto. }
  unfold bind at 1. unfold get. unfold snapshot. change (h_type cc_hdr) with MT_CLIENT_CLOSED.
  rewrite (cs_cc _ _ HC0), (cs_all _ _ HC0), app_nil_r.
  destruct (cs_mem _ _ HC0 c (or_introl eq_refl)) as (Hpos & Hcc & Hreg & Hopen & Hwl & Hex & Hsubs).
  cbn [deliver_loop]. unfold bind at 1. unfold deliver_with. unfold bind at 1. unfold get.
  rewrite Hreg, Hwl. cbn [negb]. change (h_dst_mod cc_hdr) with 0. change (dest_filter 0 (m_mod_id (find_mod c (mods s0))) (m_logger (find_mod c (mods s0)))) with true.
  cbv iota. unfold send_checked_with. unfold bind at 1. rewrite (mod_send_fail c cc_hdr pl s0 Hopen Hex). cbn [fst snd].
  fold (bumped s0 c). unfold bind at 1. unfold on_conn_err_with. unfold bind at 1.
  pose proof (remove_crashes k c L (fun s' pl' HC' => IH L s' pl' HC' ltac:(lia)) (bumped s0 c) (Casc_bumped s0 c (c :: L) HC0)) as H.
  destruct (remove_module_with cfg (forward cfg k) c (bumped s0 c)) as [u s'|e s']; [destruct H|]. destruct e; try destruct H. exact I.
Qed.

(* ... and so does the departure of one more subscriber in front of them *)
Corollary departure_depth k c L s : Casc s (c :: L) -> (k <= length L)%nat ->
  crashes_fuel (remove_module_with cfg (forward cfg k) c s).
Proof. intros HC Hk. apply (remove_crashes k c L); [|exact HC]. intros s' pl HC'. apply cascade_depth with (L := L); auto. Qed.

End Depth.

(* ---------- (b) the history that builds a cascade of any length ---------- *)

Definition kcfg : config := mkConfig 60 true.
Definition sub_hdr : hdr := mkHdr MT_SUBSCRIBE 1 0 0 0 0 4 7.
Definition ids (n : nat) : list Z := seqZ 1 n.
Definition sub_frame (i : Z) : Z * inbound := (i, IFrame sub_hdr (InSub MT_CLIENT_CLOSED)).

(* n connections are accepted; each subscribes to CLIENT_CLOSED (and is acknowledged); all of them stop accepting
   writes; connection 1 hangs up *)
Definition cascade (n : nat) : list event :=
  repeat (ERound true [] [] 0) n ++
  [ERound false (map sub_frame (ids n)) (ids n) 0] ++
  map (fun i => EFault i 0) (ids n) ++
  [ERound false [(1, IEof)] (ids n) 0].

(* --- stage 1: the accepts --- *)
Definition acc_state (k : nat) : mstate :=
  mkState (mm_module :: map new_module (ids k)) [] [] 0 (Z.of_nat k) [] [] [] 1 0 0 0 false true [] [].

Lemma ids_succ k : ids (Datatypes.S k) = ids k ++ [Z.of_nat k + 1].
Proof. unfold ids. rewrite seqZ_snoc. f_equal. f_equal. lia. Qed.

Lemma acc_step B k : step kcfg B (ERound true [] [] 0) (acc_state k) = Ok tt (acc_state (Datatypes.S k)).
Proof.
  transitivity (Ok tt (mkState (mm_module :: map new_module (ids k) ++ [new_module (Z.of_nat k + 1)]) [] [] 0 (Z.of_nat k + 1)
                               [] [] [] 1 0 0 0 false true [] [])); [reflexivity|].
  unfold acc_state. rewrite ids_succ, map_app. cbn [map]. f_equal. f_equal. lia.
Qed.

Lemma accepts_run B rest : forall k j,
  run_from kcfg B (Ok tt (acc_state j)) (repeat (ERound true [] [] 0) k ++ rest) =
  run_from kcfg B (Ok tt (acc_state (j + k))) rest.
Proof.
  induction k as [|k IH]; intros j.
  - rewrite Nat.add_0_r. reflexivity.
  - cbn [repeat app run_from]. rewrite acc_step, IH. f_equal. f_equal. f_equal. lia.
Qed.

Lemma seqZ_In a : forall k x, In x (seqZ a k) <-> a <= x < a + Z.of_nat k.
Proof.
  intros k. revert a. induction k as [|k IH]; intros a x.
  - cbn. lia.
  - cbn [seqZ In]. rewrite IH. lia.
Qed.

Lemma seqZ_NoDup : forall k a, NoDup (seqZ a k).
Proof.
  induction k as [|k IH]; intros a; cbn [seqZ]; constructor; [|apply IH]. rewrite seqZ_In. lia.
Qed.

Lemma find_mod_new : forall k a i, a <= i < a + Z.of_nat k -> 0 < a ->
  find_mod i (map new_module (seqZ a k)) = new_module i.
Proof.
  induction k as [|k IH]; intros a i Hi Ha; [lia|]. cbn [seqZ map find_mod new_module m_conn].
  destruct (a =? i) eqn:E; [apply Z.eqb_eq in E; subst; reflexivity|]. apply IH; lia.
Qed.

Lemma find_mod_acc n i : 1 <= i <= Z.of_nat n -> find_mod i (mods (acc_state n)) = new_module i.
Proof.
  intros Hi. unfold acc_state. cbn [mods find_mod mm_module m_conn].
  destruct (0 =? i) eqn:E; [lia|]. apply find_mod_new; lia.
Qed.

(* --- stage 2: the subscriptions --- *)
Definition Pre (n j : nat) (s : mstate) : Prop :=
  (forall i, 1 <= i <= Z.of_nat n ->
     m_conn (find_mod i (mods s)) = i /\ m_reg (find_mod i (mods s)) = true /\ m_closed (find_mod i (mods s)) = false /\
     m_subs (find_mod i (mods s)) = if i <=? Z.of_nat j then [MT_CLIENT_CLOSED] else []) /\
  alookup MT_CLIENT_CLOSED (subs s) = ids j /\ (forall t, t <> MT_CLIENT_CLOSED -> alookup t (subs s) = []) /\
  loggers s = [] /\ (forall i, flookup i (faults s) = None) /\
  t_timing s = 0 /\ t_traffic s = 0 /\ t_info s = 0.

Lemma Pre_acc n : Pre n 0 (acc_state n).
Proof.
  unfold Pre. split; [|repeat split; auto].
  intros i Hi. rewrite (find_mod_acc n i Hi). cbn [new_module m_conn m_reg m_closed m_subs].
  assert (E : i <=? Z.of_nat 0 = false) by lia. rewrite E. auto.
Qed.

Lemma add_sub_fresh B c s : m_subs (find_mod c (mods s)) = [] ->
  add_subscription kcfg B c MT_CLIENT_CLOSED s =
  Ok tt (with_mods (with_subs s (aupdate MT_CLIENT_CLOSED (zinsert c) (subs s)))
                   (upd_mod c (fun m => mm_subs m (zinsert MT_CLIENT_CLOSED (m_subs m))) (mods s))).
Proof.
  intros H. unfold add_subscription. unfold bind at 1. unfold get.
  change (MT_CLIENT_CLOSED =? ALL_MESSAGE_TYPES) with false. cbv iota. rewrite H. cbn [zmem]. cbv iota.
  unfold bind, set_mod, modify. cbv beta iota. rewrite mlog_off by reflexivity. reflexivity.
Qed.

Lemma send_ack_nolog B c s : sendable s c -> loggers s = [] ->
  send_ack kcfg B c s = Ok tt (after_send (ack_hdr s c) (PData 0 0) s c).
Proof.
  intros Hc Hl. unfold send_ack. unfold bind at 1. unfold get. unfold bind at 1. fold (ack_hdr s c).
  unfold send_checked. rewrite (send_checked_exact' kcfg (fwd kcfg B) c (ack_hdr s c) (PData 0 0) s Hc).
  unfold send_to_loggers. unfold bind at 1. unfold get.
  change (loggers (after_send (ack_hdr s c) (PData 0 0) s c)) with (loggers s). rewrite Hl. reflexivity.
Qed.

Lemma zinsert_snoc c : forall l, (forall x, In x l -> x < c) -> zinsert c l = l ++ [c].
Proof.
  induction l as [|y r IH]; intros H; [reflexivity|]. cbn [zinsert app].
  pose proof (H y (or_introl eq_refl)) as Hy. assert (E1 : c <? y = false) by lia. assert (E2 : c =? y = false) by lia.
  rewrite E1, E2, IH; [reflexivity|]. intros x Hx. apply H. right. exact Hx.
Qed.

Lemma subscribe_step B n j s : Pre n j s -> (j < n)%nat ->
  exists s', service kcfg B (Z.of_nat j + 1) (IFrame sub_hdr (InSub MT_CLIENT_CLOSED)) s = Ok tt s' /\
             Pre n (Datatypes.S j) s' /\ wl s' = wl s.
Proof.
  intros (P1 & P2 & P3 & P4 & P5 & T1 & T2 & T3) Hj. set (c := Z.of_nat j + 1).
  assert (Hc : 1 <= c <= Z.of_nat n) by (unfold c; lia).
  destruct (P1 c Hc) as (Hcc & Hreg & Hopen & Hsubs). assert (Ecj : c <=? Z.of_nat j = false) by (unfold c; lia).
  rewrite Ecj in Hsubs.
  unfold service. unfold bind at 1. unfold get. rewrite Hreg. cbn [negb]. change (bad_size (h_nbytes sub_hdr)) with false. cbv iota.
  change (process_message kcfg B c sub_hdr (InSub MT_CLIENT_CLOSED))
    with (add_subscription kcfg B c MT_CLIENT_CLOSED ;;; send_ack kcfg B c).
  unfold bind at 1. rewrite (add_sub_fresh B c s Hsubs).
  set (s1 := with_mods (with_subs s (aupdate MT_CLIENT_CLOSED (zinsert c) (subs s)))
                       (upd_mod c (fun m => mm_subs m (zinsert MT_CLIENT_CLOSED (m_subs m))) (mods s))).
  assert (Hf1 : forall i, find_mod i (mods s1) =
                  if i =? c then mm_subs (find_mod c (mods s)) (zinsert MT_CLIENT_CLOSED (m_subs (find_mod c (mods s))))
                  else find_mod i (mods s)).
  { intros i. unfold s1. cbn [mods with_mods with_subs]. rewrite find_upd; [|intro; reflexivity|lia].
    rewrite Hcc, Z.eqb_refl. reflexivity. }
  assert (Hs1 : sendable s1 c).
  { unfold sendable. rewrite (Hf1 c), Z.eqb_refl. cbn [m_closed mm_subs]. split; [lia|split; [exact Hopen|apply P5]]. }
  rewrite (send_ack_nolog B c s1 Hs1 P4). eexists. split; [reflexivity|]. split; [|reflexivity].
  set (s2 := after_send (ack_hdr s1 c) (PData 0 0) s1 c).
  assert (K : forall (A : Type) (pi : module -> A), (forall m n, pi (mm_count m n) = pi m) -> (forall m n, pi (mm_drops m n) = pi m) ->
                forall x, pi (find_mod x (mods s2)) = pi (find_mod x (mods s1))).
  { intros A pi H1 H2 x. apply after_send_field; auto. }
  unfold Pre. split; [|split; [|split; [|split; [exact P4|split; [exact P5|auto]]]]].
  - intros i Hi. destruct (P1 i Hi) as (A1 & A2 & A3 & A4).
    rewrite (K _ m_conn), (K _ m_reg), (K _ m_closed), (K _ m_subs); auto. rewrite (Hf1 i).
    destruct (i =? c) eqn:E.
    + apply Z.eqb_eq in E. subst i. cbn [mm_subs m_conn m_reg m_closed m_subs]. rewrite Hsubs.
      assert (E' : c <=? Z.of_nat (Datatypes.S j) = true) by (unfold c; lia). rewrite E'. auto.
    + assert (E' : (i <=? Z.of_nat (Datatypes.S j)) = (i <=? Z.of_nat j)) by (unfold c in E; lia). rewrite E'. auto.
  - change (subs s2) with (subs s1). unfold s1. cbn [subs with_mods with_subs]. rewrite alookup_aupdate_same, P2.
    rewrite zinsert_snoc; [rewrite ids_succ; reflexivity|]. intros x Hx. unfold ids in Hx. apply seqZ_In in Hx. unfold c. lia.
  - intros t Ht. change (subs s2) with (subs s1). unfold s1. cbn [subs with_mods with_subs].
    rewrite alookup_aupdate_other; auto.
Qed.

Lemma subscribe_all B n : forall k j s, (j + k = n)%nat -> Pre n j s ->
  exists s', mapM_ (fun x => service kcfg B (fst x) (snd x)) (map sub_frame (seqZ (Z.of_nat j + 1) k)) s = Ok tt s' /\
             Pre n n s' /\ wl s' = wl s.
Proof.
  induction k as [|k IH]; intros j s Hjk HP.
  - exists s. assert (j = n) by lia. subst j. split; [reflexivity|auto].
  - cbn [seqZ map mapM_ sub_frame fst snd]. unfold bind.
    destruct (subscribe_step B n j s HP ltac:(lia)) as (s1 & E1 & P1 & W1). rewrite E1.
    destruct (IH (Datatypes.S j) s1 ltac:(lia) P1) as (s' & E' & P' & W').
    replace (Z.of_nat j + 1 + 1) with (Z.of_nat (Datatypes.S j) + 1) by lia. rewrite E'. exists s'. split; [reflexivity|]. split; [exact P'|congruence].
Qed.

Lemma periodic_idle B s : t_timing s = 0 -> t_traffic s = 0 -> t_info s = 0 -> periodic kcfg B 0 s = Ok tt s.
Proof.
  intros T1 T2 T3. unfold periodic. unfold bind at 1. unfold get. rewrite T1. unfold bind at 1.
  change (timing_on kcfg && elapsed 0 0 PER_timing_num PER_timing_den) with false. cbv iota. cbn [ret].
  unfold bind at 1. unfold get. rewrite T2. unfold bind at 1. change (elapsed 0 0 PER_traffic_num PER_traffic_den) with false. cbv iota. cbn [ret].
  unfold bind at 1. unfold get. rewrite T3. change (elapsed 0 0 PER_info_num PER_info_den) with false. reflexivity.
Qed.

Lemma filter_all {A} (f : A -> bool) l : (forall x, In x l -> f x = true) -> filter f l = l.
Proof.
  induction l as [|a r IH]; intros H; [reflexivity|]. cbn [filter]. rewrite (H a (or_introl eq_refl)), IH; [reflexivity|].
  intros x Hx. apply H. right. exact Hx.
Qed.

(* a round without accept in which every ready connection is registered: the writable set is installed and the
   ready connections are served *)
Lemma round_ready B ready writable s0 : ready <> [] ->
  (forall x, In x ready -> m_reg (find_mod (fst x) (mods s0)) = true) ->
  step kcfg B (ERound false ready writable 0) s0 =
  (mapM_ (fun x => service kcfg B (fst x) (snd x)) ready ;;; periodic kcfg B 0) (with_wl s0 writable).
Proof.
  intros Hne Hr. cbn [step]. unfold bind at 1. unfold get. rewrite (filter_all _ ready Hr).
  destruct ready as [|x r]; [contradiction|]. reflexivity.
Qed.

Lemma subscribe_round B m : let n := Datatypes.S m in
  exists s', step kcfg B (ERound false (map sub_frame (ids n)) (ids n) 0) (acc_state n) = Ok tt s' /\
             Pre n n s' /\ wl s' = ids n.
Proof.
  intros n. rewrite round_ready.
  - assert (P0 : Pre n 0 (with_wl (acc_state n) (ids n))) by exact (Pre_acc n).
    destruct (subscribe_all B n n 0 (with_wl (acc_state n) (ids n)) eq_refl P0) as (s' & E & P & W).
    change (Z.of_nat 0 + 1) with 1 in E. fold (ids n) in E. unfold bind. rewrite E.
    destruct P as (P1 & P2 & P3 & P4 & P5 & T1 & T2 & T3). rewrite (periodic_idle B s' T1 T2 T3).
    exists s'. split; [reflexivity|]. split; [unfold Pre; auto 10|exact W].
  - unfold n, ids. cbn [seqZ map]. discriminate.
  - intros x Hx. apply in_map_iff in Hx. destruct Hx as (i & <- & Hi). unfold ids in Hi. apply seqZ_In in Hi.
    cbn [sub_frame fst]. rewrite find_mod_acc; [reflexivity|lia].
Qed.

(* --- stage 3: every write starts failing --- *)
Definition exh (s : mstate) (i : Z) : Prop := exists k, flookup i (faults s) = Some k /\ k <= 0.
Definition core (s s' : mstate) : Prop :=
  mods s' = mods s /\ subs s' = subs s /\ loggers s' = loggers s /\ wl s' = wl s /\
  t_timing s' = t_timing s /\ t_traffic s' = t_traffic s /\ t_info s' = t_info s.

Lemma fault_step B c s : exists s', step kcfg B (EFault c 0) s = Ok tt s' /\ core s s' /\ exh s' c /\ forall i, exh s i -> exh s' i.
Proof.
  cbn [step]. unfold modify. destruct (flookup c (faults s)) as [k|] eqn:E; [destruct (k <=? 0) eqn:Ek|].
  - exists s. split; [reflexivity|]. split; [unfold core; auto 10|]. split; [exists k; split; [exact E|lia]|auto].
  - eexists. split; [reflexivity|]. split; [unfold core; auto 10|]. unfold exh. cbn [faults with_out]. split.
    + exists 0. rewrite flookup_fset, Z.eqb_refl. split; [reflexivity|lia].
    + intros i (k' & Hk & Hle). rewrite flookup_fset. destruct (i =? c); [exists 0; split; [reflexivity|lia]|exists k'; auto].
  - eexists. split; [reflexivity|]. split; [unfold core; auto 10|]. unfold exh. cbn [faults with_out]. split.
    + exists 0. rewrite flookup_fset, Z.eqb_refl. split; [reflexivity|lia].
    + intros i (k' & Hk & Hle). rewrite flookup_fset. destruct (i =? c); [exists 0; split; [reflexivity|lia]|exists k'; auto].
Qed.

Lemma faults_run B rest : forall l s, exists s',
  run_from kcfg B (Ok tt s) (map (fun i => EFault i 0) l ++ rest) = run_from kcfg B (Ok tt s') rest /\
  core s s' /\ forall i, In i l \/ exh s i -> exh s' i.
Proof.
  induction l as [|c r IH]; intros s.
  - exists s. split; [reflexivity|]. split; [unfold core; auto 10|]. intros i [[]|H]; exact H.
  - cbn [map app run_from]. destruct (fault_step B c s) as (s1 & E & C1 & X1 & K1). rewrite E.
    destruct (IH s1) as (s' & E' & C' & K'). exists s'. split; [exact E'|]. split.
    + unfold core in *. destruct C1 as (A1 & A2 & A3 & A4 & A5 & A6 & A7). destruct C' as (B1 & B2 & B3 & B4 & B5 & B6 & B7).
      repeat split; congruence.
    + intros i [[->|Hi]|Hi]; apply K'; [right; exact X1|left; exact Hi|right; apply K1; exact Hi].
Qed.

(* --- stage 4: the first subscriber hangs up --- *)

(* what the set-up has built: connections 1..n registered, open, subscribed to CLIENT_CLOSED and nothing else *)
Definition Built (n : nat) (s : mstate) : Prop :=
  (forall i, 1 <= i <= Z.of_nat n ->
     m_conn (find_mod i (mods s)) = i /\ m_reg (find_mod i (mods s)) = true /\ m_closed (find_mod i (mods s)) = false /\
     m_subs (find_mod i (mods s)) = [MT_CLIENT_CLOSED]) /\
  alookup MT_CLIENT_CLOSED (subs s) = ids n /\ (forall t, t <> MT_CLIENT_CLOSED -> alookup t (subs s) = []).

Lemma Pre_Built n s : Pre n n s -> Built n s.
Proof.
  intros (P1 & P2 & P3 & _). split; [|auto]. intros i Hi. destruct (P1 i Hi) as (A1 & A2 & A3 & A4).
  assert (E : i <=? Z.of_nat n = true) by lia. rewrite E in A4. auto.
Qed.

Lemma Built_core n s s' : core s s' -> Built n s -> Built n s'.
Proof. intros (A1 & A2 & _) (B1 & B2 & B3). unfold Built. rewrite A1, A2. auto. Qed.

Lemma final_round B m s : let n := Datatypes.S m in
  Built n s -> (forall i, In i (ids n) -> exh s i) -> (B <= m)%nat ->
  crashes_fuel (step kcfg B (ERound false [(1, IEof)] (ids n) 0) s).
Proof.
  intros n (P1 & P2 & P3) Hex HB.
  assert (H1 : 1 <= 1 <= Z.of_nat n) by (unfold n; lia). destruct (P1 1 H1) as (_ & Hreg1 & _).
  rewrite round_ready; [|discriminate|intros x [<-|[]]; exact Hreg1].
  set (s2 := with_wl s (ids n)).
  assert (HC : Casc s2 (1 :: seqZ 2 m)).
  { change (1 :: seqZ 2 m) with (ids n). constructor.
    - exact P2.
    - apply P3. discriminate.
    - apply seqZ_NoDup.
    - intros c Hc. pose proof Hc as Hc'. unfold ids in Hc'. apply seqZ_In in Hc'.
      destruct (P1 c ltac:(lia)) as (A1 & A2 & A3 & A4).
      unfold doomed. change (mods s2) with (mods s). change (wl s2) with (ids n). change (faults s2) with (faults s).
      repeat split; auto; [lia|apply zmem_In; exact Hc|apply Hex; exact Hc]. }
  unfold bind at 1. cbn [mapM_ fst snd]. unfold bind at 1. unfold service. unfold bind at 1. unfold get.
  change (mods s2) with (mods s). rewrite Hreg1. cbn [negb]. unfold bind at 1. unfold remove_module, fwd.
  pose proof (departure_depth kcfg ltac:(reflexivity) B 1 (seqZ 2 m) s2 HC) as H.
  assert (Hlen : (B <= length (seqZ 2 m))%nat).
  { clear -HB. assert (L : forall k a, length (seqZ a k) = k) by (induction k; intros; cbn [seqZ length]; auto). rewrite L. exact HB. }
  specialize (H Hlen).
  destruct (remove_module_with kcfg (forward kcfg B) 1 s2) as [u s'|e s']; [destruct H|]. destruct e; try destruct H. exact I.
Qed.

(* ---------- the result ---------- *)

Lemma init_acc B : init kcfg B = Ok tt (acc_state 0).
Proof. reflexivity. Qed.

Lemma run_cons B e r s : run_from kcfg B (Ok tt s) (e :: r) = run_from kcfg B (step kcfg B e s) r.
Proof. reflexivity. Qed.

Lemma run_end B r : crashes_fuel r -> crashes_fuel (run_from kcfg B r []).
Proof. destruct r as [u s|e s]; [intros []|]. intros H. exact H. Qed.

Theorem cascade_exhausts B : crashes_fuel (run kcfg B (cascade (Datatypes.S B))).
Proof.
  unfold run, cascade. rewrite init_acc, accepts_run. rewrite Nat.add_0_l.
  rewrite <- app_comm_cons. rewrite app_nil_l. rewrite run_cons.
  destruct (subscribe_round B B) as (s1 & E1 & P1 & W1). rewrite E1.
  destruct (faults_run B [ERound false [(1, IEof)] (ids (Datatypes.S B)) 0] (ids (Datatypes.S B)) s1) as (s2 & E2 & C2 & X2).
  rewrite E2. rewrite run_cons. apply run_end.
  apply (final_round B B s2); [exact (Built_core _ s1 s2 C2 (Pre_Built _ s1 P1))|intros i Hi; apply X2; left; exact Hi|apply le_n].
Qed.

(* for EVERY fixed nesting budget there is a finite history that exhausts it *)
Theorem no_fixed_budget : forall B : nat,
  exists es, match run (mkConfig 60 true) B es with Crash XFuel _ => True | _ => False end.
Proof. intros B. exists (cascade (Datatypes.S B)). exact (cascade_exhausts B). Qed.

(* ---------- together with the upper bound ---------- *)
From Mgr Require Proofs.FuelTop.

Lemma accepts_cascade n : FuelTop.accepts (cascade n) = n.
Proof.
  unfold cascade.
  assert (A : forall k rest, FuelTop.accepts (repeat (ERound true [] [] 0) k ++ rest) = (k + FuelTop.accepts rest)%nat).
  { induction k as [|k IH]; intros rest; [reflexivity|]. cbn [repeat app FuelTop.accepts]. rewrite IH. reflexivity. }
  rewrite A. cbn [app FuelTop.accepts].
  assert (F : forall l rest, FuelTop.accepts (map (fun i => EFault i 0) l ++ rest) = FuelTop.accepts rest).
  { induction l as [|i l IH]; intros rest; [reflexivity|]. cbn [map app FuelTop.accepts]. apply IH. }
  rewrite F. cbn [FuelTop.accepts]. lia.
Qed.

(* the history with n connections exhausts a budget of n - 1 and completes with a budget of 2n + 4:
   the nesting need grows linearly with the number of connections *)
Theorem cascade_window n : (1 <= n)%nat ->
  crashes_fuel (run kcfg (n - 1) (cascade n)) /\
  forall F, (2 * (n + 1) + 2 <= F)%nat -> exists s, run kcfg F (cascade n) = Ok tt s.
Proof.
  intros Hn. split.
  - destruct n as [|m]; [lia|]. replace (Datatypes.S m - 1)%nat with m by lia. apply cascade_exhausts.
  - intros F HF. destruct (FuelTop.run_total kcfg F (cascade n)) as (s & E & _); [rewrite accepts_cascade; exact HF|].
    exists s. exact E.
Qed.

(* ---------- by computation, small instances: the threshold is exactly n ---------- *)
Example cascade_threshold_small :
  map (fun n => map (fun f => match run kcfg f (cascade n) with Ok _ _ => 0 | Crash XFuel _ => 99 | Crash _ _ => 1 end)
                    [0; 1; 2; 3; 4; 5; 6]%nat) [1; 2; 3; 4; 5]%nat =
  [[99; 0; 0; 0; 0; 0; 0]; [99; 99; 0; 0; 0; 0; 0]; [99; 99; 99; 0; 0; 0; 0]; [99; 99; 99; 99; 0; 0; 0]; [99; 99; 99; 99; 99; 0; 0]].
Proof. vm_compute. reflexivity. Qed.

