(* forward_message and everything it re-enters preserve the registry invariant,
   only shrink the registry (Frame) and never raise anything but XFuel. *)
From Coq Require Import ZArith List Bool Lia.
From Mgr Require Import Gen.MgrDefs Model.Manager Proofs.ListLemmas Proofs.Hoare Proofs.RegInv Proofs.Frame.
Import ListNotations.
Open Scope Z_scope.

(* pointwise judgement *)
Definition Jat {A} (X : list Z) (s0 : mstate) (m : M A) : Prop :=
  RegInvX X s0 ->
  match m s0 with
  | Ok _ s' => RegInvX X s' /\ Frame s0 s'
  | Crash e _ => e = XFuel
  end.
Definition J {A} (X : list Z) (m : M A) : Prop := forall s0, Jat X s0 m.

Lemma J_ret {A} X (a : A) : J X (ret a).
Proof. intros s H. simpl. split; [exact H|apply Frame_refl]. Qed.

Lemma Jat_bind {A B} X s0 (m : M A) (k : A -> M B) :
  Jat X s0 m -> (forall a, J X (k a)) -> Jat X s0 (bind m k).
Proof.
  intros Hm Hk H. unfold bind. specialize (Hm H). destruct (m s0) as [a s1|e s1]; [|exact Hm].
  destruct Hm as [H1 F1]. specialize (Hk a s1 H1). destruct (k a s1) as [b s2|e s2]; [|exact Hk].
  destruct Hk as [H2 F2]. split; [exact H2|eapply Frame_trans; eauto].
Qed.

Lemma J_bind {A B} X (m : M A) (k : A -> M B) : J X m -> (forall a, J X (k a)) -> J X (bind m k).
Proof. intros Hm Hk s0. apply Jat_bind; auto. Qed.

Lemma Jat_get {A} X s0 (k : mstate -> M A) : Jat X s0 (k s0) -> Jat X s0 (bind get k).
Proof. intros H. unfold bind, get. exact H. Qed.

Lemma J_get {A} X (k : mstate -> M A) : (forall s0, Jat X s0 (k s0)) -> J X (bind get k).
Proof. intros H s0. apply Jat_get. apply H. Qed.

Lemma J_if {A} X (b : bool) (m1 m2 : M A) : J X m1 -> J X m2 -> J X (if b then m1 else m2).
Proof. destruct b; auto. Qed.

Lemma J_crash_fuel {A} X : J X (@crash A XFuel).
Proof. intros s H. simpl. reflexivity. Qed.

(* a modify whose function preserves the invariant and is a frame step *)
Lemma J_modify X f : (forall s, RegInvX X s -> RegInvX X (f s) /\ Frame s (f s)) -> J X (modify f).
Proof. intros H s Hs. simpl. auto. Qed.

(* changing the in-flight set across a call *)
Lemma Jat_change {A} X Y s0 (m : M A) :
  (RegInvX X s0 -> RegInvX Y s0) ->
  (RegInvX Y s0 -> match m s0 with Ok _ s' => RegInvX Y s' /\ Frame s0 s' | Crash e _ => e = XFuel end) ->
  (forall s', RegInvX Y s' -> Frame s0 s' -> RegInvX X s') -> Jat X s0 m.
Proof.
  intros H1 H2 H3 H. specialize (H2 (H1 H)). destruct (m s0); auto. destruct H2. split; auto.
Qed.

(* ---------------- primitives ---------------- *)

Lemma J_sendall X c it : J X (sendall c it).
Proof.
  intros s H. unfold sendall. destruct (m_closed (find_mod c (mods s))); [split; [exact H|apply Frame_refl]|].
  destruct (flookup c (faults s)) as [n|].
  - destruct (n <=? 0); (split; [exact H|first [apply Frame_refl|apply Frame_out]]).
  - split; [exact H|apply Frame_out].
Qed.

Lemma J_set_mod_keeps X c f :
  keeps f -> (forall m, m_logger (f m) = m_logger m) -> (forall m, frame_mod m (f m)) -> J X (set_mod c f).
Proof.
  intros K Hl Hf s H. unfold set_mod, modify. split.
  - unfold RegInvX in *. simpl. apply reg_ok_upd'; auto.
  - apply Frame_upd; auto.
Qed.

Lemma J_set_count X c n : J X (set_mod c (fun m => mm_count m n)).
Proof. apply J_set_mod_keeps; [apply keeps_count|reflexivity|intro; apply fm_count]. Qed.

Lemma J_set_drops X c g : J X (set_mod c (fun m => mm_drops m (g m))).
Proof. apply J_set_mod_keeps; [apply keeps_drops|reflexivity|intro; apply fm_drops]. Qed.

Lemma J_mod_send X c h p : J X (mod_send c h p).
Proof.
  unfold mod_send. apply J_get. intros s0. apply Jat_bind; [apply J_set_count|]. intros _.
  apply J_bind; [apply J_sendall|]. intros r1. destruct r1; try apply J_ret.
  apply J_bind; [apply J_sendall|]. intros r2. apply J_ret.
Qed.

Section WithRec.
Variable cfg : config.
Variable rec : hdr -> payload -> M unit.
Hypothesis Hrec : forall X h p, J X (rec h p).

Lemma J_mlog X lvl : J X (mlog_with cfg rec lvl).
Proof.
  intros s H. unfold mlog_with. destruct ((loglevel cfg <=? lvl) && rtma_log s); [|split; [exact H|apply Frame_refl]].
  specialize (Hrec X (mgr_hdr (log_type lvl) SZ_RTMA_LOG 0) (PLog lvl) s H).
  destruct (rec (mgr_hdr (log_type lvl) SZ_RTMA_LOG 0) (PLog lvl) s) as [u s'|e s']; [exact Hrec|].
  subst e. reflexivity.
Qed.

Lemma J_send_mgr X t sz pl : J X (send_mgr_with rec t sz pl).
Proof. unfold send_mgr_with. apply Hrec. Qed.

Lemma J_send_failed X c hh : J X (send_failed_with rec c hh).
Proof.
  unfold send_failed_with. destruct (zmem (h_type hh) no_notice_types); [apply J_ret|].
  apply J_get. intros s0. apply J_send_mgr.
Qed.

Lemma count_msg_J X t : J X (count_msg cfg t).
Proof.
  unfold count_msg. apply J_get. intros s0. destruct (negb (sending_traffic s0)); [|apply J_ret].
  apply J_modify. intros s H. split; [exact H|apply Frame_counts].
Qed.

(* remove_module of a module that is not already being removed *)
Lemma J_remove_module X c : ~ In c X -> J X (remove_module_with cfg rec c).
Proof.
  intros HcX s0 H0. unfold remove_module_with. unfold bind at 1. unfold get.
  destruct (m_reg (find_mod c (mods s0))) eqn:Hreg; cbn [negb].
  2:{ simpl. split; [exact H0|apply Frame_refl]. }
  (* registered and not in flight: open *)
  assert (Hopen : m_closed (find_mod c (mods s0)) = false).
  { destruct (m_closed (find_mod c (mods s0))) eqn:E; [|reflexivity]. exfalso. apply HcX.
    pose proof (find_mod_reg_In c _ Hreg) as [Hi Hcc]. rewrite <- Hcc. apply (ro_flight _ _ _ _ _ H0 _ Hi Hreg E). }
  assert (Hpos : 0 <= c).
  { pose proof (find_mod_reg_In c _ Hreg) as [Hi Hcc]. rewrite <- Hcc. apply (ro_pos _ _ _ _ _ H0 _ Hi). }
  (* run the three modifies symbolically *)
  set (s1 := with_subs s0 (drop_subs c (m_subs (find_mod c (mods s0))) (subs s0))).
  set (s2 := with_loggers s1 (zremove c (loggers s1))).
  set (s3 := with_mods s2 (upd_mod c mm_close (mods s2))).
  assert (H1 : RegInvX X s1) by (apply reg_ok_drop_subs; exact H0).
  assert (H2 : RegInvX X s2) by (apply reg_ok_drop_logger; exact H1).
  assert (H3 : RegInvX (c :: X) s3).
  { unfold RegInvX, s3. simpl. apply reg_ok_close; auto.
    - intros t. apply (drop_subs_gone _ _ _ _ _ c H0 t).
    - simpl. intro Hin. apply zremove_In in Hin. tauto. }
  assert (F03 : Frame s0 s3).
  { eapply Frame_trans; [apply Frame_drop_subs|]. eapply Frame_trans; [apply Frame_drop_logger|].
    apply Frame_upd. intro; apply fm_close. }
  change (match (mlog_with cfg rec 10 ;;; (s1' <- get ;; send_mgr_with rec MT_CLIENT_CLOSED SZ_CLIENT_CLOSED
                   (client_payload true (find_mod c (mods s1'))) ;;;
                 (s2' <- get ;; if m_reg (find_mod c (mods s2')) then set_mod c mm_unreg else crash XKeyError))) s3
          with Ok _ s' => RegInvX X s' /\ Frame s0 s' | Crash e _ => e = XFuel end).
  unfold bind at 1. pose proof (J_mlog (c :: X) 10 s3 H3) as Hl.
  destruct (mlog_with cfg rec 10 s3) as [u s4|e s4]; [|exact Hl]. destruct Hl as [H4 F34].
  unfold bind at 1. unfold get. unfold bind at 1.
  pose proof (J_send_mgr (c :: X) MT_CLIENT_CLOSED SZ_CLIENT_CLOSED (client_payload true (find_mod c (mods s4))) s4 H4) as Hc.
  destruct (send_mgr_with rec MT_CLIENT_CLOSED SZ_CLIENT_CLOSED (client_payload true (find_mod c (mods s4))) s4) as [u' s5|e s5]; [|exact Hc].
  destruct Hc as [H5 F45]. unfold bind at 1. unfold get.
  destruct (ro_xreg _ _ _ _ _ H5 c (or_introl eq_refl)) as [Hr5 Hc5]. rewrite Hr5.
  unfold set_mod, modify. split.
  - unfold RegInvX. simpl. apply reg_ok_unreg; auto.
  - eapply Frame_trans; [exact F03|]. eapply Frame_trans; [exact F34|]. eapply Frame_trans; [exact F45|].
    apply Frame_upd. intro; apply fm_unreg.
Qed.

Lemma remove_module_post X c : ~ In c X -> forall s0, RegInvX X s0 ->
  match remove_module_with cfg rec c s0 with
  | Ok _ s' => RegInvX X s' /\ Frame s0 s' /\ m_reg (find_mod c (mods s')) = false
  | Crash e _ => e = XFuel
  end.
Proof.
  intros HcX s0 H0. unfold remove_module_with. unfold bind at 1. unfold get.
  destruct (m_reg (find_mod c (mods s0))) eqn:Hreg; cbn [negb].
  2:{ simpl. split; [exact H0|]. split; [apply Frame_refl|exact Hreg]. }
  (* registered and not in flight: open *)
  assert (Hopen : m_closed (find_mod c (mods s0)) = false).
  { destruct (m_closed (find_mod c (mods s0))) eqn:E; [|reflexivity]. exfalso. apply HcX.
    pose proof (find_mod_reg_In c _ Hreg) as [Hi Hcc]. rewrite <- Hcc. apply (ro_flight _ _ _ _ _ H0 _ Hi Hreg E). }
  assert (Hpos : 0 <= c).
  { pose proof (find_mod_reg_In c _ Hreg) as [Hi Hcc]. rewrite <- Hcc. apply (ro_pos _ _ _ _ _ H0 _ Hi). }
  (* run the three modifies symbolically *)
  set (s1 := with_subs s0 (drop_subs c (m_subs (find_mod c (mods s0))) (subs s0))).
  set (s2 := with_loggers s1 (zremove c (loggers s1))).
  set (s3 := with_mods s2 (upd_mod c mm_close (mods s2))).
  assert (H1 : RegInvX X s1) by (apply reg_ok_drop_subs; exact H0).
  assert (H2 : RegInvX X s2) by (apply reg_ok_drop_logger; exact H1).
  assert (H3 : RegInvX (c :: X) s3).
  { unfold RegInvX, s3. simpl. apply reg_ok_close; auto.
    - intros t. apply (drop_subs_gone _ _ _ _ _ c H0 t).
    - simpl. intro Hin. apply zremove_In in Hin. tauto. }
  assert (F03 : Frame s0 s3).
  { eapply Frame_trans; [apply Frame_drop_subs|]. eapply Frame_trans; [apply Frame_drop_logger|].
    apply Frame_upd. intro; apply fm_close. }
  change (match (mlog_with cfg rec 10 ;;; (s1' <- get ;; send_mgr_with rec MT_CLIENT_CLOSED SZ_CLIENT_CLOSED
                   (client_payload true (find_mod c (mods s1'))) ;;;
                 (s2' <- get ;; if m_reg (find_mod c (mods s2')) then set_mod c mm_unreg else crash XKeyError))) s3
          with Ok _ s' => RegInvX X s' /\ Frame s0 s' /\ m_reg (find_mod c (mods s')) = false | Crash e _ => e = XFuel end).
  unfold bind at 1. pose proof (J_mlog (c :: X) 10 s3 H3) as Hl.
  destruct (mlog_with cfg rec 10 s3) as [u s4|e s4]; [|exact Hl]. destruct Hl as [H4 F34].
  unfold bind at 1. unfold get. unfold bind at 1.
  pose proof (J_send_mgr (c :: X) MT_CLIENT_CLOSED SZ_CLIENT_CLOSED (client_payload true (find_mod c (mods s4))) s4 H4) as Hc.
  destruct (send_mgr_with rec MT_CLIENT_CLOSED SZ_CLIENT_CLOSED (client_payload true (find_mod c (mods s4))) s4) as [u' s5|e s5]; [|exact Hc].
  destruct Hc as [H5 F45]. unfold bind at 1. unfold get.
  destruct (ro_xreg _ _ _ _ _ H5 c (or_introl eq_refl)) as [Hr5 Hc5]. rewrite Hr5.
  unfold set_mod, modify. split; [|split].
  - unfold RegInvX. simpl. apply reg_ok_unreg; auto.
  - eapply Frame_trans; [exact F03|]. eapply Frame_trans; [exact F34|]. eapply Frame_trans; [exact F45|].
    apply Frame_upd. intro; apply fm_unreg.
  - simpl. rewrite find_upd_same; [|intro; reflexivity|exact Hpos].
    rewrite (find_mod_conn_of_reg _ _ Hr5), Z.eqb_refl. reflexivity.
Qed.

Lemma J_on_conn_err X c hh : ~ In c X -> J X (on_conn_err_with cfg rec c hh).
Proof.
  intros H. unfold on_conn_err_with. apply J_bind; [apply J_remove_module; exact H|]. intros _.
  apply J_bind; [apply J_mlog|]. intros _. apply J_send_failed.
Qed.

Lemma J_send_checked X c hh p : ~ In c X -> J X (send_checked_with cfg rec c hh p).
Proof.
  intros H. unfold send_checked_with. apply J_bind; [apply J_mod_send|]. intros [r h'].
  destruct r; simpl.
  - apply J_bind; [apply (J_set_drops X c (fun _ => 0))|]. intros _. apply J_ret.
  - apply J_bind; [apply J_on_conn_err; exact H|]. intros _. apply J_ret.
  - apply J_bind; [apply J_on_conn_err; exact H|]. intros _. apply J_ret.
Qed.

Lemma J_deliver X p hh c : ~ In c X -> J X (deliver_with cfg rec p hh c).
Proof.
  intros HcX. unfold deliver_with. apply J_get. intros s0 H0.
  destruct (m_reg (find_mod c (mods s0))) eqn:Hreg; cbn [negb]; [|apply J_ret; exact H0].
  assert (Hopen : m_closed (find_mod c (mods s0)) = false).
  { destruct (m_closed (find_mod c (mods s0))) eqn:E; [|reflexivity]. exfalso. apply HcX.
    pose proof (find_mod_reg_In c _ Hreg) as [Hi Hcc]. rewrite <- Hcc. apply (ro_flight _ _ _ _ _ H0 _ Hi Hreg E). }
  destruct (zmem c (wl s0)).
  - destruct (dest_filter _ _ _); [apply J_send_checked; auto|apply J_ret; auto].
  - destruct (m_logger (find_mod c (mods s0))).
    + rewrite Hopen. apply J_send_checked; auto.
    + revert H0. apply Jat_bind; [apply (J_set_drops X c (fun m => m_drops m + 1))|]. intros _.
      apply J_bind; [apply J_send_failed|]. intros _. apply J_ret.
Qed.

Lemma J_deliver_loop X p : forall l hh, (forall c, In c l -> ~ In c X) -> J X (deliver_loop cfg rec p hh l).
Proof.
  induction l as [|c r IH]; intros hh Hl; simpl; [apply J_ret|].
  apply J_bind; [apply J_deliver; apply Hl; left; reflexivity|]. intros hh'. apply IH.
  intros c' Hc'. apply Hl. right. exact Hc'.
Qed.

Lemma snapshot_not_inflight X s t c : RegInvX X s -> In c (snapshot s t) -> ~ In c X.
Proof.
  intros H Hin HX. unfold snapshot in Hin. apply in_app_or in Hin.
  destruct (ro_xreg _ _ _ _ _ H c HX) as [_ Hcl].
  destruct Hin as [Hin|Hin]; destruct (ro_sub _ _ _ _ _ H _ _ Hin) as (_ & Ho & _); congruence.
Qed.

Lemma J_forward_body X h p : J X (forward_body cfg rec h p).
Proof.
  unfold forward_body. apply J_bind; [apply count_msg_J|]. intros _.
  destruct (bad_dest_mod (h_dst_mod h)); [apply J_mlog|].
  destruct (bad_dest_host (h_dst_host h)); [apply J_mlog|].
  apply J_get. intros s0 H0.
  apply (J_deliver_loop X p (snapshot s0 (h_type h)) h); [|exact H0].
  intros c Hin. eapply snapshot_not_inflight; eauto.
Qed.

End WithRec.

(* tie the knot *)
Lemma J_forward cfg : forall fuel X h p, J X (forward cfg fuel h p).
Proof.
  induction fuel as [|k IH]; intros X h p; simpl.
  - apply J_crash_fuel.
  - apply J_forward_body. exact IH.
Qed.
